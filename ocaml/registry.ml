(* name -> extracted entry points *)
open Gfext
let gens = [ ("C05", c05_gen); ("C03", c03_gen) ]
let runs = [ ("C05", c05_run); ("C03", c03_run) ]
