(* name -> extracted entry points *)
open Gfext
let gens = [ ("C05", c05_gen) ]
let runs = [ ("C05", c05_run) ]
