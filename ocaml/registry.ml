(* name -> extracted entry points *)
open Gfext
let gens = [ ("C05", c05_gen); ("C03", c03_gen); ("C06", c06_gen) ]
let runs = [ ("C05", c05_run); ("C03", c03_run); ("C06", c06_run) ]
