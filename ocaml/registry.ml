(* name -> extracted entry points *)
open Gfext
let gens = [ ("C05", c05_gen); ("C03", c03_gen); ("C06", c06_gen); ("C04", c04_gen); ("C10", c10_gen); ("C09", c09_gen); ("C13", c13_gen); ("C14", c14_gen); ("C16", c16_gen); ("C19", c19_gen); ("C15", c15_gen); ("C17", c17_gen); ("C11", c11_gen) ]
let runs = [ ("C05", c05_run); ("C03", c03_run); ("C06", c06_run); ("C04", c04_run); ("C10", c10_run); ("C09", c09_run); ("C13", c13_run); ("C14", c14_run); ("C16", c16_run); ("C16P", c16_run_pinned); ("C19", c19_run); ("C15", c15_run); ("C17", c17_run); ("C08T", c08t_run); ("C11", c06_run); ("C02", c02_run); ("C07P", c07p_run) ]
