(* gfmodel: I/O glue around the extracted Gallina model (gfext.ml).
   gfmodel gen <prop> <stream> <seed> <from> <n>   -> n lines "input<TAB>expected"
   gfmodel run <prop>   (stdin: input lines)       -> output lines
   Token syntax: #<hex> number, =<hex> byte string, bare word string. *)
open Gfext

let rec pos_of_int (i : int) : positive =
  if i = 1 then XH
  else if i land 1 = 0 then XO (pos_of_int (i lsr 1))
  else XI (pos_of_int (i lsr 1))
let n_of_int (i : int) : n = if i = 0 then N0 else Npos (pos_of_int i)

(* hex string (arbitrary length) -> N *)
let n_of_hex (s : Stdlib.String.t) : n =
  let push acc bit = match acc, bit with
    | N0, false -> N0
    | N0, true -> Npos XH
    | Npos p, false -> Npos (XO p)
    | Npos p, true -> Npos (XI p) in
  let acc = ref N0 in
  Stdlib.String.iter (fun c ->
    let v = int_of_string ("0x" ^ Stdlib.String.make 1 c) in
    List.iter (fun k -> acc := push !acc ((v lsr k) land 1 = 1)) [3;2;1;0]) s;
  !acc

let hex_of_n (x : n) : Stdlib.String.t =
  match x with
  | N0 -> "0"
  | Npos p ->
    let rec bits p acc = match p with
      | XH -> true :: acc
      | XO q -> bits q (false :: acc)
      | XI q -> bits q (true :: acc) in
    (* bits returns MSB first *)
    let l = bits p [] in
    let len = List.length l in
    let pad = (4 - len mod 4) mod 4 in
    let l = (List.init pad (fun _ -> false)) @ l in
    let buf = Buffer.create 16 in
    let rec go = function
      | a :: b :: c :: d :: rest ->
        let v = (if a then 8 else 0) + (if b then 4 else 0) + (if c then 2 else 0) + (if d then 1 else 0) in
        Buffer.add_char buf "0123456789abcdef".[v]; go rest
      | [] -> ()
      | _ -> failwith "bits" in
    go l; Buffer.contents buf

let int_of_n (x : n) : int =
  match x with
  | N0 -> 0
  | Npos p -> let rec go = function XH -> 1 | XO q -> 2 * go q | XI q -> 2 * go q + 1 in go p

let char_of_ascii (Ascii (b0,b1,b2,b3,b4,b5,b6,b7)) : char =
  let v b k = if b then 1 lsl k else 0 in
  Char.chr (v b0 0 + v b1 1 + v b2 2 + v b3 3 + v b4 4 + v b5 5 + v b6 6 + v b7 7)
let ascii_of_char (c : char) : ascii =
  let i = Char.code c in let b k = (i lsr k) land 1 = 1 in
  Ascii (b 0, b 1, b 2, b 3, b 4, b 5, b 6, b 7)
let rec ocaml_string (s : Gfext.string) : Stdlib.String.t =
  match s with EmptyString -> "" | String (a, r) -> Stdlib.String.make 1 (char_of_ascii a) ^ ocaml_string r
let coq_string (s : Stdlib.String.t) : Gfext.string =
  let r = ref EmptyString in
  for i = Stdlib.String.length s - 1 downto 0 do r := String (ascii_of_char s.[i], !r) done; !r

let bytes_of_hex (s : Stdlib.String.t) : n list =
  let l = Stdlib.String.length s / 2 in
  List.init l (fun i -> n_of_int (int_of_string ("0x" ^ Stdlib.String.sub s (2*i) 2)))
let hex_of_bytes (b : n list) : Stdlib.String.t =
  let buf = Buffer.create 64 in
  List.iter (fun x -> Buffer.add_string buf (Printf.sprintf "%02x" (int_of_n x))) b;
  Buffer.contents buf

let string_of_tok = function
  | TN x -> "#" ^ hex_of_n x
  | TS s -> ocaml_string s
  | TB b -> "=" ^ hex_of_bytes b
let tok_of_string (s : Stdlib.String.t) : tok =
  if s = "" then TS EmptyString
  else if s.[0] = '#' then TN (n_of_hex (Stdlib.String.sub s 1 (Stdlib.String.length s - 1)))
  else if s.[0] = '=' then TB (bytes_of_hex (Stdlib.String.sub s 1 (Stdlib.String.length s - 1)))
  else TS (coq_string s)

let line_of_toks (l : tok list) = Stdlib.String.concat " " (List.map string_of_tok l)
let toks_of_line (s : Stdlib.String.t) =
  List.map tok_of_string (List.filter (fun x -> x <> "") (Stdlib.String.split_on_char ' ' s))

let gens : (Stdlib.String.t * (n -> n -> n -> tok list * tok list)) list = Registry.gens
let runs : (Stdlib.String.t * (tok list -> tok list)) list = Registry.runs

let () =
  match Array.to_list Sys.argv with
  | [_; "gen"; prop; stream; seed; from; cnt] ->
    let g = List.assoc prop gens in
    let stream = n_of_int (int_of_string stream) and seed = n_of_int (int_of_string seed) in
    let from = int_of_string from and cnt = int_of_string cnt in
    for i = from to from + cnt - 1 do
      let (inp, exp) = g stream seed (n_of_int i) in
      print_string (line_of_toks inp); print_char '\t'; print_endline (line_of_toks exp)
    done
  | [_; "run"; prop] ->
    let r = List.assoc prop runs in
    (try while true do
        let line = input_line stdin in
        print_endline (line_of_toks (r (toks_of_line line)))
      done with End_of_file -> ())
  | _ -> prerr_endline "usage: gfmodel gen <prop> <stream> <seed> <from> <n> | run <prop>"; exit 2
