#!/bin/sh
# Extract the Gallina model to OCaml and build gfmodel. Run from anywhere.
set -e
cd "$(dirname "$0")"
rm -f gfext.ml gfext.mli
coqc -Q ../coq GF ../coq/Extract/Extract.v >/dev/null
ocamlfind ocamlopt -O2 -w -a -package str gfext.mli gfext.ml registry.ml main.ml -o gfmodel 2>/dev/null || \
ocamlfind ocamlopt -w -a gfext.mli gfext.ml registry.ml main.ml -o gfmodel
