package main

import (
	"math/rand"
	"net/netip"
	"runtime"
	"sort"
	"strings"
	"sync"
	"time"

	"github.com/netsampler/goflow2/v2/format"
	"github.com/netsampler/goflow2/v2/metrics"
	"github.com/netsampler/goflow2/v2/producer"
	protoproducer "github.com/netsampler/goflow2/v2/producer/proto"
	rawproducer "github.com/netsampler/goflow2/v2/producer/raw"
	"github.com/netsampler/goflow2/v2/utils/debug"
	"github.com/netsampler/goflow2/v2/utils"
)

type syncRec struct {
	mu   sync.Mutex
	data [][]byte
}

func (s *syncRec) Send(key, data []byte) error {
	if rand.Intn(4) == 0 {
		runtime.Gosched()
	}
	s.mu.Lock()
	s.data = append(s.data, append([]byte(nil), data...))
	s.mu.Unlock()
	return nil
}

// messages grouped by their time_received_ns (field 110 = 0x6e), in arrival order within a group
func groupByRecv(data [][]byte) map[string][]string {
	g := map[string][]string{}
	for _, d := range data {
		var t toks
		showPB(&t, stripDelim(d))
		s := t.String()
		f := strings.Split(s, " ")
		key := ""
		for i := 1; i+1 < len(f); i += 2 {
			if f[i] == "#6e" {
				key = f[i+1]
			}
		}
		g[key] = append(g[key], s)
	}
	return g
}

type decoder struct{ f utils.DecoderFunc }

func (d decoder) DecodeFlow(m interface{}) error { return d.f(m) }

func init() {
	// par #workers <cfg> #nprologue hist : the first nprologue datagrams sequentially (templates, announcements),
	// the rest concurrently by #workers goroutines on the same pipe; compared with a sequential run on a fresh pipe.
	handlers["par"] = func(a []string) string {
		nw := int(unnum(a[0]))
		npro := int(unnum(a[2]))
		// the pipe as cmd/goflow2 assembles it: producer behind the panic and Prometheus wrappers, the Prometheus
		// template system, DecodeFlow behind the panic and Prometheus wrappers (all of it shared by the workers)
		mk := func() (decoder, *syncRec, error) {
			cfg, err := compileCfg(a[1])
			if err != nil {
				return decoder{}, nil, err
			}
			var prod producer.ProducerInterface
			prod, _ = protoproducer.CreateProtoProducer(cfg, protoproducer.CreateSamplingSystem)
			prod = metrics.WrapPromProducer(debug.WrapPanicProducer(prod))
			fb, _ := format.FindFormat("bin")
			rec := &syncRec{}
			p := utils.NewFlowPipe(&utils.PipeConfig{Format: fb, Transport: rec, Producer: prod,
				NetFlowTemplater: metrics.NewDefaultPromTemplateSystem})
			return decoder{metrics.PromDecoderWrapper(debug.PanicDecoderWrapper(p.DecodeFlow), "flow")}, rec, nil
		}
		var msgs []*utils.Message
		for i := 3; i+3 < len(a); i += 4 {
			msgs = append(msgs, &utils.Message{
				Src:      netip.AddrPortFrom(addrOf(unhex(a[i])), uint16(unnum(a[i+1]))),
				Dst:      netip.AddrPortFrom(netip.MustParseAddr("192.0.2.1"), 2055),
				Payload:  unhex(a[i+3]),
				Received: time.Unix(0, int64(1000000+len(msgs))).UTC(), // unique per datagram: identifies its messages
			})
		}
		if npro > len(msgs) {
			npro = len(msgs)
		}
		clone := func(m *utils.Message) *utils.Message {
			c := *m
			c.Payload = append([]byte(nil), m.Payload...)
			return &c
		}
		// sequential reference
		ps, rs, err := mk()
		if err != nil {
			return "cfgerr"
		}
		for _, m := range msgs {
			_ = ps.DecodeFlow(clone(m))
		}
		// concurrent run
		pc, rc, _ := mk()
		for _, m := range msgs[:npro] {
			_ = pc.DecodeFlow(clone(m))
		}
		work := make(chan *utils.Message, len(msgs))
		for _, m := range msgs[npro:] {
			work <- clone(m)
		}
		close(work)
		var wg sync.WaitGroup
		for w := 0; w < nw; w++ {
			wg.Add(1)
			go func() {
				defer wg.Done()
				for m := range work {
					if rand.Intn(3) == 0 {
						runtime.Gosched()
					}
					_ = pc.DecodeFlow(m)
				}
			}()
		}
		wg.Wait()
		gs, gc := groupByRecv(rs.data), groupByRecv(rc.data)
		var t toks
		diff := 0
		if len(rs.data) != len(rc.data) {
			diff++
		}
		for k, v := range gs {
			w := gc[k]
			if strings.Join(v, "\n") != strings.Join(w, "\n") {
				diff++
			}
		}
		for k := range gc {
			if _, ok := gs[k]; !ok {
				diff++
			}
		}
		// multiset
		a1, a2 := []string{}, []string{}
		for _, d := range rs.data {
			a1 = append(a1, string(d))
		}
		for _, d := range rc.data {
			a2 = append(a2, string(d))
		}
		sort.Strings(a1)
		sort.Strings(a2)
		if strings.Join(a1, "\x00") != strings.Join(a2, "\x00") {
			diff++
		}
		t.S("msgs")
		t.N(uint64(len(rs.data)))
		t.S("diff")
		t.N(uint64(diff))
		return t.String()
	}
	// parraw #workers <cfg> #nprologue hist : the same workload through the RAW producer (cmd/goflow2 -produce raw: the
	// decoded packet itself is the message) and the JSON format, shared by #workers goroutines; the multiset of payloads
	// must equal the one of a sequential run on a fresh pipe
	handlers["parraw"] = func(a []string) string {
		nw := int(unnum(a[0]))
		npro := int(unnum(a[2]))
		mk := func() (decoder, *syncRec) {
			fj, _ := format.FindFormat("json")
			rec := &syncRec{}
			p := utils.NewFlowPipe(&utils.PipeConfig{Format: fj, Transport: rec, Producer: &rawproducer.RawProducer{},
				NetFlowTemplater: metrics.NewDefaultPromTemplateSystem})
			return decoder{metrics.PromDecoderWrapper(debug.PanicDecoderWrapper(p.DecodeFlow), "flow")}, rec
		}
		var msgs []*utils.Message
		for i := 3; i+3 < len(a); i += 4 {
			msgs = append(msgs, &utils.Message{
				Src:      netip.AddrPortFrom(addrOf(unhex(a[i])), uint16(unnum(a[i+1]))),
				Dst:      netip.AddrPortFrom(netip.MustParseAddr("192.0.2.1"), 2055),
				Payload:  unhex(a[i+3]),
				Received: time.Unix(0, int64(1000000+len(msgs))).UTC(),
			})
		}
		if npro > len(msgs) {
			npro = len(msgs)
		}
		clone := func(m *utils.Message) *utils.Message {
			c := *m
			c.Payload = append([]byte(nil), m.Payload...)
			return &c
		}
		ps, rs := mk()
		for _, m := range msgs {
			_ = ps.DecodeFlow(clone(m))
		}
		pc, rc := mk()
		for _, m := range msgs[:npro] {
			_ = pc.DecodeFlow(clone(m))
		}
		work := make(chan *utils.Message, len(msgs))
		for _, m := range msgs[npro:] {
			work <- clone(m)
		}
		close(work)
		var wg sync.WaitGroup
		for w := 0; w < nw; w++ {
			wg.Add(1)
			go func() {
				defer wg.Done()
				for m := range work {
					_ = pc.DecodeFlow(m)
				}
			}()
		}
		wg.Wait()
		a1, a2 := []string{}, []string{}
		for _, d := range rs.data {
			a1 = append(a1, string(d))
		}
		for _, d := range rc.data {
			a2 = append(a2, string(d))
		}
		sort.Strings(a1)
		sort.Strings(a2)
		diff := 0
		for i := 0; i < len(a1) || i < len(a2); i++ {
			if i >= len(a1) || i >= len(a2) || a1[i] != a2[i] {
				diff++
			}
		}
		var t toks
		t.S("units")
		t.N(uint64(len(a1)))
		t.S("diff")
		t.N(uint64(diff))
		return t.String()
	}
}
