package main

import (
	"flag"
	"fmt"
	"math/rand"
	"os"
	"path/filepath"
	"strconv"
	"strings"
	"sync"
	"sync/atomic"
	"syscall"
	"time"

	"github.com/netsampler/goflow2/v2/transport"
	filetransport "github.com/netsampler/goflow2/v2/transport/file"
)

// parse a stream of {id:len:xxxx}<sep> units; returns ids and the number of garbled regions
func parseUnits(s, sep string) ([]int, int) {
	var ids []int
	garbled := 0
	i := 0
	for i < len(s) {
		ok := false
		if s[i] == '{' {
			j := strings.IndexByte(s[i:], ':')
			if j > 0 {
				id, err1 := strconv.Atoi(s[i+1 : i+j])
				k := strings.IndexByte(s[i+j+1:], ':')
				if err1 == nil && k > 0 {
					n, err2 := strconv.Atoi(s[i+j+1 : i+j+1+k])
					start := i + j + 1 + k + 1
					if err2 == nil && start+n+1 <= len(s) && s[start+n] == '}' && strings.Count(s[start:start+n], "x") == n &&
						strings.HasPrefix(s[start+n+1:], sep) {
						ids = append(ids, id)
						i = start + n + 1 + len(sep)
						ok = true
					}
				}
			}
		}
		if !ok {
			garbled++
			// resynchronise on the next '{'
			nx := strings.IndexByte(s[i+1:], '{')
			if nx < 0 {
				break
			}
			i += 1 + nx
		}
	}
	return ids, garbled
}

func init() {
	// filet <forced|forced2|free> #senders #perSender #rotations =sep #seed
	handlers["filet"] = func(a []string) string {
		mode := a[0]
		ns, per, rot := int(unnum(a[1])), int(unnum(a[2])), int(unnum(a[3]))
		sep := string(unhex(a[4]))
		rng := rand.New(rand.NewSource(int64(unnum(a[5]))))
		os.MkdirAll("/root/scratch", 0o755)
		dir, _ := os.MkdirTemp("/root/scratch", "filet")
		defer os.RemoveAll(dir)
		path := filepath.Join(dir, "out.log")
		flag.Set("transport.file", path)
		flag.Set("transport.file.sep", sep)
		tr, err := transport.FindTransport("file")
		if err != nil {
			return "initerr"
		}
		var rotatedN int64 // number of rotations the transport has completed
		parked := make(chan chan struct{}, 4)
		var parkOnce sync.Once
		filetransport.VerifEvent = func(ev string) {
			if ev == "file.rotated" {
				atomic.AddInt64(&rotatedN, 1)
			}
		}
		forced := mode == "forced" || mode == "forced2"
		var forcedG int64 = -1
		_ = forcedG
		parkArmed := make(chan struct{})
		filetransport.VerifSched = func(p string) {
			if !forced || p != "file.send.have_writer" {
				return
			}
			select {
			case <-parkArmed:
			default:
				return
			}
			parkOnce.Do(func() {
				rel := make(chan struct{})
				parked <- rel
				<-rel
			})
		}
		var mu sync.Mutex
		errs := 0
		sent := map[int]bool{}
		build := func(id int) string {
			// rng is shared by the sender goroutines: rand.Rand is not safe for concurrent use
			mu.Lock()
			n := 1 + rng.Intn(200)
			if rng.Intn(10) == 0 {
				n = 1 + rng.Intn(20000)
			}
			mu.Unlock()
			return fmt.Sprintf("{%d:%d:%s}", id, n, strings.Repeat("x", n))
		}
		sendBytes := func(id int, b []byte) {
			e := tr.Send(nil, b)
			mu.Lock()
			sent[id] = true
			if e != nil {
				errs++
			}
			mu.Unlock()
		}
		send := func(id int) { sendBytes(id, []byte(build(id))) }
		modified := 0 // messages whose bytes, as the caller holds them, were changed by the transport
		rotations := 0
		rotate := func(wait bool) {
			rotations++
			os.Rename(path, fmt.Sprintf("%s.%d", path, rotations))
			syscall.Kill(os.Getpid(), syscall.SIGHUP)
			if wait {
				// until the transport has completed THIS rotation (at most 300 ms: in the forced
				// schedule it cannot complete before the parked sender is released)
				for w := 0; w < 60 && atomic.LoadInt64(&rotatedN) < int64(rotations); w++ {
					time.Sleep(5 * time.Millisecond)
				}
			}
		}
		var wg sync.WaitGroup
		if forced {
			// one sender is parked between picking the writer and writing; a rotation is placed there
			close(parkArmed)
			wg.Add(1)
			go func() { defer wg.Done(); send(0) }()
			var rel chan struct{}
			select {
			case rel = <-parked:
			case <-time.After(wd(2 * time.Second)):
				return "nopark"
			}
			rotate(true)
			if mode == "forced2" {
				// a second rotation while the same sender still stands between picking the writer and writing
				rotate(true)
			}
			close(rel)
			wg.Wait()
		}
		// free-running part
		ids := make([][]int, ns)
		next := 1
		mu.Lock()
		seeds := make([]int64, ns)
		for g := 0; g < ns; g++ {
			for k := 0; k < per; k++ {
				ids[g] = append(ids[g], next)
				next++
			}
			seeds[g] = rng.Int63()
		}
		mu.Unlock()
		for g := 0; g < ns; g++ {
			wg.Add(1)
			go func(g int) {
				defer wg.Done()
				if g%2 == 1 {
					// this sender hands over consecutive sub-slices of ONE batch buffer it owns (capacity beyond the
					// message: the bytes of its next messages). The transport is given the message to write, not the
					// memory behind it: the batch must be as it was afterwards, and every message intact in the file.
					var batch []byte
					var cut []int
					for _, id := range ids[g] {
						batch = append(batch, build(id)...)
						cut = append(cut, len(batch))
					}
					orig := append([]byte(nil), batch...)
					a := 0
					for k, id := range ids[g] {
						sendBytes(id, batch[a:cut[k]])
						a = cut[k]
						if id%3 == 0 {
							time.Sleep(time.Duration(seeds[g]%200) * time.Microsecond)
						}
					}
					if string(orig) != string(batch) {
						mu.Lock()
						modified++
						mu.Unlock()
					}
					return
				}
				for _, id := range ids[g] {
					send(id)
					if id%3 == 0 {
						time.Sleep(time.Duration(seeds[g]%200) * time.Microsecond)
					}
				}
			}(g)
		}
		for r := 0; r < rot; r++ {
			time.Sleep(time.Duration(200+rng.Intn(1500)) * time.Microsecond)
			rotate(true)
		}
		wg.Wait()
		// every SIGHUP sent has been consumed by the transport before Close: Close calls
		// signal.Ignore, and the Go runtime kills the process when a signal that is still being
		// delivered meets signal.Ignore (observed: "Hangup", exit by signal 1)
		for w := 0; w < int(1000*tscale) && atomic.LoadInt64(&rotatedN) < int64(rotations); w++ {
			time.Sleep(5 * time.Millisecond)
		}
		tr.Close()
		// collect
		var all string
		for r := 1; r <= rotations; r++ {
			b, _ := os.ReadFile(fmt.Sprintf("%s.%d", path, r))
			all += string(b)
		}
		b, _ := os.ReadFile(path)
		all += string(b)
		got, garbled := parseUnits(all, sep)
		cnt := map[int]int{}
		for _, id := range got {
			cnt[id]++
		}
		missing, dup := 0, 0
		for id := range sent {
			if cnt[id] == 0 {
				missing++
			}
			if cnt[id] > 1 {
				dup++
			}
		}
		var t toks
		t.S("errs")
		t.N(uint64(errs))
		t.S("missing")
		t.N(uint64(missing))
		t.S("dup")
		t.N(uint64(dup))
		t.S("garbled")
		t.N(uint64(garbled + modified))
		return t.String()
	}
}
