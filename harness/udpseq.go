package main

import (
	"fmt"
	"net"
	"runtime"
	"sync"
	"sync/atomic"
	"time"

	"github.com/netsampler/goflow2/v2/utils"
)

func init() {
	// udpseq #sockets #workers #queue #blocking =calls(bytes: 1 Start, 0 Stop) #traffic
	// every call must return within 3 s; prints per call "S0/S1/T0/T1" (call, error?) then goroutine and port verdicts
	handlers["udpseq"] = func(a []string) string {
		sockets, workers, queue := int(unnum(a[0])), int(unnum(a[1])), int(unnum(a[2]))
		blocking := unnum(a[3]) != 0
		calls := unhex(a[4])
		traffic := unnum(a[5]) != 0
		runtime.GC()
		time.Sleep(20 * time.Millisecond)
		base := runtime.NumGoroutine()
		var decodedN int64
		decode := func(msg interface{}) error {
			time.Sleep(30 * time.Microsecond)
			atomic.AddInt64(&decodedN, 1)
			return nil
		}
		cfg := &utils.UDPReceiverConfig{Sockets: sockets, Workers: workers, QueueSize: queue, Blocking: blocking}
		recv, err := utils.NewUDPReceiver(cfg)
		if err != nil {
			return "newerr"
		}
		quitErr := make(chan struct{})
		go func() {
			for {
				select {
				case <-recv.Errors():
				case <-quitErr:
					return
				}
			}
		}()
		port := freePort()
		var t toks
		started := false
		stopTraffic := make(chan struct{})
		var twg sync.WaitGroup
		if traffic {
			twg.Add(1)
			go func() {
				defer twg.Done()
				c, err := net.Dial("udp", fmt.Sprintf("127.0.0.1:%d", port))
				if err != nil {
					return
				}
				defer c.Close()
				i := uint32(1)
				for {
					select {
					case <-stopTraffic:
						return
					default:
					}
					c.Write(mkDatagram(i, 50))
					i++
					if i%32 == 0 {
						time.Sleep(100 * time.Microsecond)
					}
				}
			}()
		}
		call := func(start bool) (error, bool) {
			done := make(chan error, 1)
			go func() {
				if start {
					done <- recv.Start("127.0.0.1", port, decode)
				} else {
					done <- recv.Stop()
				}
			}()
			select {
			case e := <-done:
				return e, true
			case <-time.After(wd(3 * time.Second)):
				return nil, false
			}
		}
		for _, c := range calls {
			isStart := c == 1
			e, returned := call(isStart)
			if !returned {
				t.S("HANG")
				return t.String()
			}
			if isStart && e != nil && portForeign(port) {
				return "foreignport" // another process holds the port: not the receiver's doing, the run says nothing
			}
			name := "T"
			if isStart {
				name = "S"
			}
			if e != nil {
				t.S(name + "1")
			} else {
				t.S(name + "0")
				started = isStart
			}
			if traffic {
				time.Sleep(2 * time.Millisecond)
			}
			if traffic && isStart && e == nil {
				// a receiver that was started decodes: with datagrams arriving all the time, the
				// decoder must be called again within 2 s of a successful Start (also after restarts)
				before := atomic.LoadInt64(&decodedN)
				alive := false
				for w := 0; w < int(400*tscale); w++ {
					if atomic.LoadInt64(&decodedN) > before {
						alive = true
						break
					}
					time.Sleep(5 * time.Millisecond)
				}
				if !alive {
					t.S("NODECODE")
					return t.String()
				}
			}
		}
		if started {
			if _, returned := call(false); !returned {
				t.S("HANG")
				return t.String()
			}
		}
		close(stopTraffic)
		twg.Wait()
		close(quitErr)
		// goroutines back to the baseline
		ok := false
		for i := 0; i < 100; i++ {
			if runtime.NumGoroutine() <= base {
				ok = true
				break
			}
			time.Sleep(10 * time.Millisecond)
		}
		if ok {
			t.S("goroutinesok")
		} else {
			t.S(fmt.Sprintf("goroutinesLEAK%d", runtime.NumGoroutine()-base))
		}
		// the port can be bound again
		pc, err := net.ListenPacket("udp", fmt.Sprintf("127.0.0.1:%d", port))
		if err != nil && portForeign(port) {
			return "foreignport"
		}
		if err != nil {
			t.S("portBUSY")
		} else {
			pc.Close()
			t.S("portok")
		}
		return t.String()
	}
	// udpstop #workers #queue #n [#sockets #blocking] : n datagrams (from several source ports when there are several
	// sockets) are read and queued behind decoders that are held, then Stop is called and the decoders are released;
	// prints whether Stop returned, reads vs decoded after Stop returned, and whether the receiver can be started and
	// stopped again on the same port
	handlers["udpstop"] = func(a []string) string {
		workers, queue, n := int(unnum(a[0])), int(unnum(a[1])), int(unnum(a[2]))
		sockets, blocking := 1, false
		if len(a) >= 5 {
			sockets, blocking = int(unnum(a[3])), unnum(a[4]) != 0
		}
		var reads, decodedN int64
		utils.VerifEvent = func(ev string, size int, buf *byte) { atomic.AddInt64(&reads, 1) }
		defer func() { utils.VerifEvent = nil }()
		gate := make(chan struct{})
		decode := func(msg interface{}) error {
			<-gate
			time.Sleep(20 * time.Microsecond)
			atomic.AddInt64(&decodedN, 1)
			return nil
		}
		recv, _ := utils.NewUDPReceiver(&utils.UDPReceiverConfig{Sockets: sockets, Workers: workers, QueueSize: queue, Blocking: blocking})
		go func() {
			for range recv.Errors() {
			}
		}()
		port := freePort()
		if err := recv.Start("127.0.0.1", port, decode); err != nil {
			if portForeign(port) {
				return "foreignport"
			}
			return "starterr"
		}
		nconn := 1
		if sockets > 1 {
			nconn = 8 * sockets
		}
		conns := make([]net.Conn, 0, nconn)
		for i := 0; i < nconn; i++ {
			c, err := net.Dial("udp", fmt.Sprintf("127.0.0.1:%d", port))
			if err == nil {
				conns = append(conns, c)
			}
		}
		if len(conns) == 0 {
			return "dialerr"
		}
		for i := 0; i < n; i++ {
			conns[i%len(conns)].Write(mkDatagram(uint32(i+1), 40))
			if i%32 == 31 {
				time.Sleep(200 * time.Microsecond)
			}
		}
		for _, c := range conns {
			c.Close()
		}
		// wait until the receiver has taken everything it will take from the kernel
		last, stable := int64(-1), 0
		for i := 0; i < 200 && stable < 5; i++ {
			r := atomic.LoadInt64(&reads)
			if r == last {
				stable++
			} else {
				stable = 0
			}
			last = r
			time.Sleep(5 * time.Millisecond)
		}
		done := make(chan error, 1)
		go func() { done <- recv.Stop() }()
		time.Sleep(5 * time.Millisecond)
		close(gate) // decoders released after Stop was called
		var t toks
		select {
		case <-done:
			t.S("stopok")
		case <-time.After(wd(5 * time.Second)):
			t.S("stopHANG")
			return t.String()
		}
		r, d := atomic.LoadInt64(&reads), atomic.LoadInt64(&decodedN)
		if r == d {
			t.S("alldecoded")
		} else {
			t.S(fmt.Sprintf("LOST%d", r-d))
		}
		t.N(uint64(r))
		// the stopped receiver starts and stops again on the same port
		again := make(chan string, 1)
		go func() {
			if err := recv.Start("127.0.0.1", port, decode); err != nil {
				if portForeign(port) {
					again <- "foreignport"
					return
				}
				again <- "restartERR"
				return
			}
			if err := recv.Stop(); err != nil {
				again <- "restopERR"
				return
			}
			again <- "restartok"
		}()
		select {
		case v := <-again:
			t.S(v)
		case <-time.After(wd(5 * time.Second)):
			t.S("restartHANG")
		}
		return t.String()
	}
}
