package main

import (
	"bytes"

	"github.com/netsampler/goflow2/v2/decoders/sflow"
)

func u32s(t *toks, vs ...uint32) {
	for _, v := range vs {
		t.N(uint64(v))
	}
}
func listU32(t *toks, l []uint32) {
	t.S("[")
	for _, v := range l {
		t.N(uint64(v))
	}
	t.S("]")
}

func showSFRecordData(t *toks, fmt_, len_ uint32, data interface{}) {
	t.S("r")
	switch d := data.(type) {
	case nil:
		t.S("nil")
		u32s(t, fmt_, len_)
	case sflow.RawRecord:
		t.S("raw")
		u32s(t, fmt_, len_)
		t.B(d.Data)
	case sflow.SampledHeader:
		t.S("hdr")
		u32s(t, fmt_, len_, d.Protocol, d.FrameLength, d.Stripped, d.OriginalLength)
		t.B(d.HeaderData)
	case sflow.SampledEthernet:
		t.S("eth")
		u32s(t, fmt_, len_, d.Length, d.EthType)
		t.B(d.SrcMac)
		t.B(d.DstMac)
	case sflow.SampledIPv4:
		t.S("ip4")
		u32s(t, fmt_, len_, d.Length, d.Protocol, d.SrcPort, d.DstPort, d.TcpFlags, d.Tos)
		t.B(d.SrcIP)
		t.B(d.DstIP)
	case sflow.SampledIPv6:
		t.S("ip6")
		u32s(t, fmt_, len_, d.Length, d.Protocol, d.SrcPort, d.DstPort, d.TcpFlags, d.Priority)
		t.B(d.SrcIP)
		t.B(d.DstIP)
	case sflow.ExtendedSwitch:
		t.S("sw")
		u32s(t, fmt_, len_, d.SrcVlan, d.SrcPriority, d.DstVlan, d.DstPriority)
	case sflow.ExtendedRouter:
		t.S("rt")
		u32s(t, fmt_, len_, d.NextHopIPVersion, d.SrcMaskLen, d.DstMaskLen)
		t.B(d.NextHop)
	case sflow.ExtendedGateway:
		t.S("gw")
		u32s(t, fmt_, len_, d.NextHopIPVersion, d.AS, d.SrcAS, d.SrcPeerAS, d.ASDestinations, d.ASPathType, d.ASPathLength, d.CommunitiesLength, d.LocalPref)
		t.B(d.NextHop)
		listU32(t, d.ASPath)
		listU32(t, d.Communities)
	case sflow.EgressQueue:
		t.S("q")
		u32s(t, fmt_, len_, d.Queue)
	case sflow.ExtendedACL:
		t.S("acl")
		u32s(t, fmt_, len_, d.Number, d.Direction)
		t.B([]byte(d.Name))
	case sflow.ExtendedFunction:
		t.S("fn")
		u32s(t, fmt_, len_)
		t.B([]byte(d.Symbol))
	case sflow.IfCounters:
		t.S("ifc")
		u32s(t, fmt_, len_, d.IfIndex, d.IfType)
		t.N(d.IfSpeed)
		u32s(t, d.IfDirection, d.IfStatus)
		t.N(d.IfInOctets)
		u32s(t, d.IfInUcastPkts, d.IfInMulticastPkts, d.IfInBroadcastPkts, d.IfInDiscards, d.IfInErrors, d.IfInUnknownProtos)
		t.N(d.IfOutOctets)
		u32s(t, d.IfOutUcastPkts, d.IfOutMulticastPkts, d.IfOutBroadcastPkts, d.IfOutDiscards, d.IfOutErrors, d.IfPromiscuousMode)
	case sflow.EthernetCounters:
		t.S("ethc")
		u32s(t, fmt_, len_, d.Dot3StatsAlignmentErrors, d.Dot3StatsFCSErrors, d.Dot3StatsSingleCollisionFrames,
			d.Dot3StatsMultipleCollisionFrames, d.Dot3StatsSQETestErrors, d.Dot3StatsDeferredTransmissions,
			d.Dot3StatsLateCollisions, d.Dot3StatsExcessiveCollisions, d.Dot3StatsInternalMacTransmitErrors,
			d.Dot3StatsCarrierSenseErrors, d.Dot3StatsFrameTooLongs, d.Dot3StatsInternalMacReceiveErrors, d.Dot3StatsSymbolErrors)
	default:
		t.S("unknownrecord")
	}
}

func showSFHeader(t *toks, h sflow.SampleHeader) {
	u32s(t, h.Format, h.Length, h.SampleSequenceNumber, h.SourceIdType, h.SourceIdValue)
}

func showSFPacket(t *toks, p *sflow.Packet) {
	t.S("ok")
	u32s(t, p.Version, p.IPVersion, p.SubAgentId, p.SequenceNumber, p.Uptime, p.SamplesCount)
	t.B(p.AgentIP)
	for _, s := range p.Samples {
		t.S("s")
		switch x := s.(type) {
		case nil:
			t.S("nil")
		case sflow.FlowSample:
			t.S("flow")
			showSFHeader(t, x.Header)
			u32s(t, x.SamplingRate, x.SamplePool, x.Drops, x.Input, x.Output, x.FlowRecordsCount)
			for _, r := range x.Records {
				showSFRecordData(t, r.Header.DataFormat, r.Header.Length, r.Data)
			}
		case sflow.CounterSample:
			t.S("ctr")
			showSFHeader(t, x.Header)
			u32s(t, x.CounterRecordsCount)
			for _, r := range x.Records {
				showSFRecordData(t, r.Header.DataFormat, r.Header.Length, r.Data)
			}
		case sflow.ExpandedFlowSample:
			t.S("xflow")
			showSFHeader(t, x.Header)
			u32s(t, x.SamplingRate, x.SamplePool, x.Drops, x.InputIfFormat, x.InputIfValue, x.OutputIfFormat, x.OutputIfValue, x.FlowRecordsCount)
			for _, r := range x.Records {
				showSFRecordData(t, r.Header.DataFormat, r.Header.Length, r.Data)
			}
		case sflow.DropSample:
			t.S("drop")
			showSFHeader(t, x.Header)
			u32s(t, x.Drops, x.Input, x.Output, x.Reason, x.FlowRecordsCount)
			for _, r := range x.Records {
				showSFRecordData(t, r.Header.DataFormat, r.Header.Length, r.Data)
			}
		default:
			t.S("unknownsample")
		}
	}
}

func init() {
	handlers["sf"] = func(a []string) string {
		var p sflow.Packet
		err := sflow.DecodeMessageVersion(bytes.NewBuffer(unhex(a[0])), &p)
		var t toks
		if err != nil {
			t.S("err")
			return t.String()
		}
		showSFPacket(&t, &p)
		return t.String()
	}
}
