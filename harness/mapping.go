package main

import "os"

// the mapping file shipped with the collector
func mappingYaml() []byte {
	repo := os.Getenv("GF_REPO")
	if repo == "" {
		repo = "/repo"
	}
	b, err := os.ReadFile(repo + "/cmd/goflow2/mapping.yaml")
	if err != nil {
		panic(err)
	}
	return b
}
