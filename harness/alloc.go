package main

import (
	"bytes"
	"net/netip"
	"runtime"
	"time"

	"github.com/netsampler/goflow2/v2/decoders/netflow"
	"github.com/netsampler/goflow2/v2/utils"
)

// widest template (number of fields) announced by a datagram, tracked with a private template system
func widest(d []byte, ts netflow.NetFlowTemplateSystem, cur int) int {
	var p9 netflow.NFv9Packet
	var p10 netflow.IPFIXPacket
	_ = netflow.DecodeMessageVersion(bytes.NewBuffer(d), ts, &p9, &p10)
	sets := p9.FlowSets
	if p10.Version == 10 {
		sets = p10.FlowSets
	}
	for _, s := range sets {
		switch x := s.(type) {
		case netflow.TemplateFlowSet:
			for _, r := range x.Records {
				if len(r.Fields) > cur {
					cur = len(r.Fields)
				}
			}
		case netflow.NFv9OptionsTemplateFlowSet:
			for _, r := range x.Records {
				if len(r.Scopes)+len(r.Options) > cur {
					cur = len(r.Scopes) + len(r.Options)
				}
			}
		case netflow.IPFIXOptionsTemplateFlowSet:
			for _, r := range x.Records {
				if len(r.Scopes)+len(r.Options) > cur {
					cur = len(r.Scopes) + len(r.Options)
				}
			}
		}
	}
	return cur
}

func init() {
	// alloc <kind> <cfg> hist : per datagram "<bytes allocated by DecodeFlow> <len> <W>"
	handlers["alloc"] = func(a []string) string {
		env, err := newPipe(a[0], a[1], "bin")
		if err != nil {
			return "cfgerr"
		}
		ts := netflow.CreateTemplateSystem()
		w := 0
		var t toks
		var ms runtime.MemStats
		for i := 2; i+3 < len(a); i += 4 {
			payload := unhex(a[i+3])
			// the width is the one in force when the datagram is processed, including what it announces itself
			w = widest(payload, ts, w)
			msg := &utils.Message{
				Src:      netip.AddrPortFrom(addrOf(unhex(a[i])), uint16(unnum(a[i+1]))),
				Dst:      netip.AddrPortFrom(netip.MustParseAddr("192.0.2.1"), 2055),
				Payload:  payload,
				Received: time.Unix(0, int64(unnum(a[i+2]))).UTC(),
			}
			env.rec.data = env.rec.data[:0]
			env.rec.keys = env.rec.keys[:0]
			runtime.ReadMemStats(&ms)
			before := ms.TotalAlloc
			_ = env.pipe.DecodeFlow(msg)
			runtime.ReadMemStats(&ms)
			t.N(ms.TotalAlloc - before)
			t.N(uint64(len(payload)))
			t.N(uint64(w))
			t.S("|")
		}
		return t.String()
	}
}
