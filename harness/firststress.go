package main

import (
	"net/netip"
	"sync"
	"time"

	"github.com/netsampler/goflow2/v2/decoders/netflow"
	"github.com/netsampler/goflow2/v2/format"
	protoproducer "github.com/netsampler/goflow2/v2/producer/proto"
	"github.com/netsampler/goflow2/v2/utils"
)

// a template system that lines the workers of one round up at their first template lookup, i.e. right
// before the producer is entered (where the sampling system of the exporter is looked up / created)
type barrierTS struct {
	netflow.NetFlowTemplateSystem
	once *sync.Once
	gate func()
}

func (b *barrierTS) GetTemplate(version uint16, obsDomainId uint32, templateId uint16) (interface{}, error) {
	b.once.Do(b.gate)
	return b.NetFlowTemplateSystem.GetTemplate(version, obsDomainId, templateId)
}

func init() {
	// firststress <samp|tmpl> #k #rounds : free-running first contact. Every round uses a new exporter
	// address; k workers process its first datagrams at the same moment (samp: worker 0 announces a rate,
	// the others send a data template and a record, from k source ports; tmpl: k templates from one
	// address:port); when all have returned, follow-up data must decode and carry the announced rate.
	// Output: lost #rounds-with-a-loss
	handlers["firststress"] = func(a []string) string {
		mode := a[0]
		k := int(unnum(a[1]))
		rounds := int(unnum(a[2]))
		cfg, _ := compileCfg("none")
		prod, _ := protoproducer.CreateProtoProducer(cfg, protoproducer.CreateSamplingSystem)
		fb, _ := format.FindFormat("bin")
		rec := &lockedRec{}
		pc := &utils.PipeConfig{Format: fb, Transport: rec, Producer: prod}
		var mu sync.Mutex
		var curGate func()
		if mode == "samp" {
			pc.NetFlowTemplater = func(key string) netflow.NetFlowTemplateSystem {
				mu.Lock()
				g := curGate
				mu.Unlock()
				return &barrierTS{netflow.CreateTemplateSystem(), &sync.Once{}, g}
			}
		}
		p := utils.NewNetFlowPipe(pc)
		lost := 0
		for r := 0; r < rounds; r++ {
			ip := netip.AddrFrom4([4]byte{10, byte(1 + r>>16), byte(r >> 8), byte(r)})
			mk := func(port int, payload []byte) *utils.Message {
				return &utils.Message{Src: netip.AddrPortFrom(ip, uint16(port)), Dst: netip.AddrPortFrom(netip.MustParseAddr("192.0.2.1"), 2055),
					Payload: payload, Received: time.Unix(1, 0).UTC()}
			}
			var gateWG sync.WaitGroup
			gateWG.Add(k)
			released := make(chan struct{})
			go func() { gateWG.Wait(); close(released) }()
			mu.Lock()
			curGate = func() {
				gateWG.Done()
				select {
				case <-released:
				case <-time.After(wd(200 * time.Millisecond)):
				}
			}
			mu.Unlock()
			start := make(chan struct{})
			var wg sync.WaitGroup
			rate := 1000 + r%5000
			for i := 0; i < k; i++ {
				wg.Add(1)
				go func(i int) {
					defer wg.Done()
					var m []byte
					port := 4000
					if mode == "tmpl" {
						m = ipfixMsg(1, tmplSet(256+i), dataSet(256+i, 1))
					} else {
						port = 4000 + i
						if i == 0 {
							s := samplingSets(rate)
							m = ipfixMsg(1, s[0], s[1])
						} else {
							m = ipfixMsg(1, tmplSet(256), dataSet(256, 1))
						}
					}
					<-start
					_ = p.DecodeFlow(mk(port, m))
				}(i)
			}
			close(start)
			wg.Wait()
			bad := false
			for i := 0; i < k; i++ {
				rec.reset()
				if mode == "tmpl" {
					err := p.DecodeFlow(mk(4000, ipfixMsg(1, dataSet(256+i, 7))))
					if err != nil || rec.count() != 1 {
						bad = true
					}
				} else if i > 0 {
					err := p.DecodeFlow(mk(4000+i, ipfixMsg(1, dataSet(256, 7))))
					if err != nil || rec.count() != 1 || !rec.hasRate(rate) {
						bad = true
					}
				}
			}
			if bad {
				lost++
			}
		}
		var t toks
		t.S("lost")
		t.N(uint64(lost))
		return t.String()
	}
}
