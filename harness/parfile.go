package main

import (
	"flag"
	"math/rand"
	"net/netip"
	"os"
	"path/filepath"
	"runtime"
	"sort"
	"strings"
	"sync"
	"time"

	"github.com/netsampler/goflow2/v2/format"
	protoproducer "github.com/netsampler/goflow2/v2/producer/proto"
	"github.com/netsampler/goflow2/v2/transport"
	"github.com/netsampler/goflow2/v2/utils"
)

func init() {
	// parfile #workers <cfg> #nprologue hist : like par, but through the JSON format and the real file transport;
	// the file written by concurrent workers must hold the same lines (as a multiset) as the sequential run, and the
	// lines of one datagram (same time_received_ns) must keep their order
	handlers["parfile"] = func(a []string) string {
		nw := int(unnum(a[0]))
		npro := int(unnum(a[2]))
		var msgs []*utils.Message
		for i := 3; i+3 < len(a); i += 4 {
			msgs = append(msgs, &utils.Message{
				Src:      netip.AddrPortFrom(addrOf(unhex(a[i])), uint16(unnum(a[i+1]))),
				Dst:      netip.AddrPortFrom(netip.MustParseAddr("192.0.2.1"), 2055),
				Payload:  unhex(a[i+3]),
				Received: time.Unix(0, int64(1000000+len(msgs))).UTC(),
			})
		}
		if npro > len(msgs) {
			npro = len(msgs)
		}
		os.MkdirAll("/root/scratch", 0o755)
		dir, _ := os.MkdirTemp("/root/scratch", "parfile")
		defer os.RemoveAll(dir)
		clone := func(m *utils.Message) *utils.Message {
			c := *m
			c.Payload = append([]byte(nil), m.Payload...)
			return &c
		}
		cfg, err := compileCfg(a[1])
		if err != nil {
			return "cfgerr"
		}
		fj, _ := format.FindFormat("json")
		// sequential reference: same format, in-memory transport (the file transport is initialised once per process)
		prodS, _ := protoproducer.CreateProtoProducer(cfg, protoproducer.CreateSamplingSystem)
		recS := &recTransport{}
		ps := utils.NewFlowPipe(&utils.PipeConfig{Format: fj, Transport: recS, Producer: prodS})
		var seq []string
		for _, m := range msgs {
			recS.data = recS.data[:0]
			_ = ps.DecodeFlow(clone(m))
			for _, d := range recS.data {
				seq = append(seq, string(d))
			}
		}
		// concurrent run through the real file transport
		path := filepath.Join(dir, "par.log")
		flag.Set("transport.file", path)
		flag.Set("transport.file.sep", "\n")
		tr, err := transport.FindTransport("file")
		ok1, ok2 := true, err == nil
		var par []string
		if ok2 {
			prod, _ := protoproducer.CreateProtoProducer(cfg, protoproducer.CreateSamplingSystem)
			p := utils.NewFlowPipe(&utils.PipeConfig{Format: fj, Transport: tr, Producer: prod})
			for _, m := range msgs[:npro] {
				_ = p.DecodeFlow(clone(m))
			}
			work := make(chan *utils.Message, len(msgs))
			for _, m := range msgs[npro:] {
				work <- clone(m)
			}
			close(work)
			var wg sync.WaitGroup
			for w := 0; w < nw; w++ {
				wg.Add(1)
				go func() {
					defer wg.Done()
					for m := range work {
						if rand.Intn(3) == 0 {
							runtime.Gosched()
						}
						_ = p.DecodeFlow(m)
					}
				}()
			}
			wg.Wait()
			tr.Close()
			b, err := os.ReadFile(path)
			s := string(b)
			if err != nil || (len(s) > 0 && !strings.HasSuffix(s, "\n")) {
				ok2 = false
			} else if len(s) > 0 {
				par = strings.Split(strings.TrimSuffix(s, "\n"), "\n")
			}
		}
		var t toks
		diff := 0
		if !ok1 || !ok2 {
			diff++
		}
		group := func(lines []string) map[string][]string {
			g := map[string][]string{}
			for _, l := range lines {
				k := ""
				if i := strings.Index(l, "\"time_received_ns\":"); i >= 0 {
					k = l[i+19:]
					if j := strings.IndexAny(k, ",}"); j >= 0 {
						k = k[:j]
					}
				}
				g[k] = append(g[k], l)
			}
			return g
		}
		gs, gp := group(seq), group(par)
		for k, v := range gs {
			if strings.Join(v, "\n") != strings.Join(gp[k], "\n") {
				diff++
			}
		}
		s1, s2 := append([]string(nil), seq...), append([]string(nil), par...)
		sort.Strings(s1)
		sort.Strings(s2)
		if strings.Join(s1, "\n") != strings.Join(s2, "\n") {
			diff++
		}
		t.S("msgs")
		t.N(uint64(len(seq)))
		t.S("diff")
		t.N(uint64(diff))
		return t.String()
	}
}
