package main

import (
	"bufio"
	"bytes"
	"encoding/json"
	"errors"
	"fmt"
	"net/netip"
	"strings"
	"time"

	"github.com/netsampler/goflow2/v2/decoders/netflow"
	"github.com/netsampler/goflow2/v2/format"
	flowpb "github.com/netsampler/goflow2/v2/pb"
	protoproducer "github.com/netsampler/goflow2/v2/producer/proto"
	"github.com/netsampler/goflow2/v2/utils"
	"google.golang.org/protobuf/encoding/protodelim"
	"google.golang.org/protobuf/proto"
)

// multiFormat runs the three registered format drivers on every message
type multiFormat struct {
	j, t, b *format.Format
	out     []fmtOut
}
type fmtOut struct {
	json, text, bin []byte
	jerr, terr, berr error
	key             []byte
}

func (m *multiFormat) Format(data interface{}) ([]byte, []byte, error) {
	var o fmtOut
	_, o.json, o.jerr = m.j.Format(data)
	_, o.text, o.terr = m.t.Format(data)
	o.key, o.bin, o.berr = m.b.Format(data)
	o.json = append([]byte(nil), o.json...)
	o.text = append([]byte(nil), o.text...)
	o.bin = append([]byte(nil), o.bin...)
	m.out = append(m.out, o)
	if o.jerr != nil {
		return nil, nil, o.jerr
	}
	if o.terr != nil {
		return nil, nil, o.terr
	}
	return o.key, o.bin, o.berr
}

// keys of a JSON object in document order
func jsonKeys(b []byte) ([]string, map[string]json.RawMessage, bool) {
	dec := json.NewDecoder(bytes.NewReader(b))
	tok, err := dec.Token()
	if err != nil || tok != json.Delim('{') {
		return nil, nil, false
	}
	var keys []string
	vals := map[string]json.RawMessage{}
	for dec.More() {
		k, err := dec.Token()
		if err != nil {
			return nil, nil, false
		}
		ks, ok := k.(string)
		if !ok {
			return nil, nil, false
		}
		var raw json.RawMessage
		if err := dec.Decode(&raw); err != nil {
			return nil, nil, false
		}
		keys = append(keys, ks)
		vals[ks] = raw
	}
	return keys, vals, true
}

// is a a subsequence of b
func subseq(a, b []string) bool {
	i := 0
	for _, x := range b {
		if i < len(a) && a[i] == x {
			i++
		}
	}
	return i == len(a)
}

var numericCols = map[string]func(*flowpb.FlowMessage) uint64{
	"bytes": func(m *flowpb.FlowMessage) uint64 { return m.Bytes }, "packets": func(m *flowpb.FlowMessage) uint64 { return m.Packets },
	"src_port": func(m *flowpb.FlowMessage) uint64 { return uint64(m.SrcPort) }, "dst_port": func(m *flowpb.FlowMessage) uint64 { return uint64(m.DstPort) },
	"in_if": func(m *flowpb.FlowMessage) uint64 { return uint64(m.InIf) }, "out_if": func(m *flowpb.FlowMessage) uint64 { return uint64(m.OutIf) },
	"sequence_num": func(m *flowpb.FlowMessage) uint64 { return uint64(m.SequenceNum) }, "sampling_rate": func(m *flowpb.FlowMessage) uint64 { return m.SamplingRate },
	"src_as": func(m *flowpb.FlowMessage) uint64 { return uint64(m.SrcAs) }, "dst_as": func(m *flowpb.FlowMessage) uint64 { return uint64(m.DstAs) },
	"tcp_flags": func(m *flowpb.FlowMessage) uint64 { return uint64(m.TcpFlags) }, "ip_tos": func(m *flowpb.FlowMessage) uint64 { return uint64(m.IpTos) },
	"time_flow_start_ns": func(m *flowpb.FlowMessage) uint64 { return m.TimeFlowStartNs }, "time_flow_end_ns": func(m *flowpb.FlowMessage) uint64 { return m.TimeFlowEndNs },
	"observation_domain_id": func(m *flowpb.FlowMessage) uint64 { return uint64(m.ObservationDomainId) },
	"icmp_type": func(m *flowpb.FlowMessage) uint64 { return uint64(m.IcmpType) }, "vlan_id": func(m *flowpb.FlowMessage) uint64 { return uint64(m.VlanId) },
}

// fields/renames/renderers of a config, as the checks need them
type fmtCfg struct {
	fields  []string          // configured field list (nil = default: all)
	rename  map[string]string // field -> output key
	render  map[string]string // field -> renderer id
	custom  map[string]bool   // custom protobuf field names
}

func parseFmtCfg(name string) fmtCfg {
	var c fmtCfg
	c.rename, c.render, c.custom = map[string]string{}, map[string]string{}, map[string]bool{}
	if strings.HasPrefix(name, "yamlj:") {
		name = "yaml:" + name[6:]
	}
	if !strings.HasPrefix(name, "yaml:") {
		return c
	}
	var pc protoproducer.ProducerConfig
	if err := yamlUnmarshal(unhex(name[5:]), &pc); err != nil {
		return c
	}
	c.fields = pc.Formatter.Fields
	for k, v := range pc.Formatter.Rename {
		c.rename[k] = v
	}
	for k, v := range pc.Formatter.Render {
		c.render[k] = string(v)
	}
	for _, p := range pc.Formatter.Protobuf {
		c.custom[p.Name] = true
	}
	return c
}

// judge one message's three encodings; returns verdict tokens
func judge(t *toks, o fmtOut, fc fmtCfg, plain bool) {
	if o.jerr != nil || o.terr != nil || o.berr != nil {
		t.S("fmterr")
		return
	}
	t.S("b")
	t.B(o.bin)
	if plain {
		// default formatter configuration: the JSON and text bytes themselves (compared with Model/Render.v)
		t.S("j")
		t.B(o.json)
		t.S("t")
		t.B(o.text)
	}
	if json.Valid(o.json) {
		t.S("jsonok")
	} else {
		t.S("jsonBAD")
	}
	keys, vals, ok := jsonKeys(o.json)
	// expected key order: configured fields (renamed); custom fields only when present
	keysOK := ok
	if ok && fc.fields != nil {
		var want []string
		for _, f := range fc.fields {
			n := f
			if r, ok := fc.rename[f]; ok && r != "" {
				n = r
			}
			want = append(want, n)
		}
		keysOK = subseq(keys, want)
		// every non-custom configured field must be present
		if keysOK {
			have := map[string]bool{}
			for _, k := range keys {
				have[k] = true
			}
			for i, f := range fc.fields {
				if !fc.custom[f] && !have[want[i]] {
					keysOK = false
				}
			}
		}
	}
	if keysOK {
		t.S("keysok")
	} else {
		t.S("keysBAD")
	}
	// agreement: protobuf -> numeric columns equal the JSON numbers (default renderer only)
	var fm flowpb.FlowMessage
	agree := proto.Unmarshal(stripDelim(o.bin), &fm) == nil
	if agree && ok {
		for col, get := range numericCols {
			name := col
			if r, ok := fc.rename[col]; ok && r != "" {
				name = r
			}
			if _, custom := fc.render[col]; custom {
				continue
			}
			raw, present := vals[name]
			if !present {
				continue
			}
			if string(raw) != fmt.Sprintf("%d", get(&fm)) {
				agree = false
			}
			// the text form carries the same value
			if !bytes.Contains(o.text, []byte(name+"="+fmt.Sprintf("%d", get(&fm)))) {
				agree = false
			}
		}
	}
	if agree {
		t.S("agree")
	} else {
		t.S("agreeBAD")
	}
}

func init() {
	// fmtchk <kind> <cfg> (=addr #port #tr =payload)*
	handlers["fmtchk"] = func(a []string) string {
		cfg, err := compileCfg(a[1])
		if err != nil {
			return "cfgerr"
		}
		fc := parseFmtCfg(a[1])
		prod, _ := protoproducer.CreateProtoProducer(cfg, protoproducer.CreateSamplingSystem)
		fj, _ := format.FindFormat("json")
		ft, _ := format.FindFormat("text")
		fb, _ := format.FindFormat("bin")
		mf := &multiFormat{j: fj, t: ft, b: fb}
		rec := &recTransport{}
		pc := &utils.PipeConfig{Format: mf, Transport: rec, Producer: prod}
		var p utils.FlowPipe
		switch a[0] {
		case "netflow":
			p = utils.NewNetFlowPipe(pc)
		case "sflow":
			p = utils.NewSFlowPipe(pc)
		default:
			p = utils.NewFlowPipe(pc)
		}
		var t toks
		var stream bytes.Buffer
		total := 0
		for i := 2; i+3 < len(a); i += 4 {
			mf.out = mf.out[:0]
			msg := &utils.Message{
				Src:      netip.AddrPortFrom(addrOf(unhex(a[i])), uint16(unnum(a[i+1]))),
				Dst:      netip.AddrPortFrom(netip.MustParseAddr("192.0.2.1"), 2055),
				Payload:  unhex(a[i+3]),
				Received: time.Unix(0, int64(unnum(a[i+2]))).UTC(),
			}
			err := p.DecodeFlow(msg)
			switch {
			case err == nil:
				t.S("ok")
			case errors.Is(err, netflow.ErrorTemplateNotFound):
				t.S("tnf")
			default:
				t.S("err")
			}
			t.N(uint64(len(mf.out)))
			for _, o := range mf.out {
				judge(&t, o, fc, a[1] == "none" || strings.HasPrefix(a[1], "yamlj:"))
				if o.berr == nil {
					stream.Write(o.bin)
					total++
				}
			}
			t.S("|")
		}
		// a concatenated stream splits into exactly the messages written (cmd/enricher's loop)
		rd := bufio.NewReader(bytes.NewReader(stream.Bytes()))
		n := 0
		okStream := true
		var again bytes.Buffer
		for {
			var fm flowpb.FlowMessage
			if err := protodelim.UnmarshalFrom(rd, &fm); err != nil {
				break
			}
			n++
			if _, err := protodelim.MarshalTo(&again, &fm); err != nil {
				okStream = false
			}
		}
		if n != total || !bytes.Equal(again.Bytes(), stream.Bytes()) {
			okStream = false
		}
		t.S("stream")
		t.N(uint64(n))
		if okStream {
			t.S("streamok")
		} else {
			t.S("streamBAD")
		}
		return t.String()
	}
	handlers["jsonstr"] = func(a []string) string {
		b, err := json.Marshal(string(unhex(a[0])))
		var t toks
		if err != nil {
			t.S("err")
		} else {
			t.B(b)
		}
		return t.String()
	}
}
