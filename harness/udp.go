package main

import (
	"encoding/binary"
	"errors"
	"fmt"
	"hash/crc32"
	"math/rand"
	"net"
	"os"
	"runtime"
	"strings"
	"sync"
	"time"
	"unsafe"

	"github.com/netsampler/goflow2/v2/metrics"
	"github.com/netsampler/goflow2/v2/utils"
	"github.com/prometheus/client_golang/prometheus"
	"github.com/netsampler/goflow2/v2/utils/debug"
)

// self-describing datagram: id(4) len(4) payload(len, derived from id) crc32(4)
func mkDatagram(id uint32, n int) []byte {
	b := make([]byte, 8+n+4)
	binary.BigEndian.PutUint32(b[0:], id)
	binary.BigEndian.PutUint32(b[4:], uint32(n))
	r := rand.New(rand.NewSource(int64(id)))
	r.Read(b[8 : 8+n])
	binary.BigEndian.PutUint32(b[8+n:], crc32.ChecksumIEEE(b[:8+n]))
	return b
}
func checkDatagram(b []byte) (uint32, bool) {
	if len(b) < 12 {
		return 0, false
	}
	id := binary.BigEndian.Uint32(b[0:])
	n := int(binary.BigEndian.Uint32(b[4:]))
	if len(b) != 8+n+4 {
		return id, false
	}
	return id, binary.BigEndian.Uint32(b[8+n:]) == crc32.ChecksumIEEE(b[:8+n])
}

type udpEv struct {
	kind byte // R read, S decode start, E decode end, D dropped
	id   uint32
	buf  uintptr
	ok   bool
	size int
}
type udpTrace struct {
	mu sync.Mutex
	ev []udpEv
}

func (t *udpTrace) add(e udpEv) { t.mu.Lock(); t.ev = append(t.ev, e); t.mu.Unlock() }
func (t *udpTrace) counts() (r, e, d int) {
	t.mu.Lock()
	defer t.mu.Unlock()
	for _, x := range t.ev {
		switch x.kind {
		case 'R':
			r++
		case 'E':
			e++
		case 'D':
			d++
		}
	}
	return
}

type dropCB struct{ t *udpTrace }

// the callback cmd/goflow2 installs (metrics/receiver.go): called next to the recording one, its counter is read back
var promDrop = metrics.NewReceiverMetric()

// sum of goflow2_flow_dropped_packets_total and ..._bytes_total over all label sets
func dropMetrics() (pkts, byts float64) {
	mfs, err := prometheus.DefaultGatherer.Gather()
	if err != nil {
		return -1, -1
	}
	for _, mf := range mfs {
		for _, m := range mf.GetMetric() {
			switch mf.GetName() {
			case "goflow2_flow_dropped_packets_total":
				pkts += m.GetCounter().GetValue()
			case "goflow2_flow_dropped_bytes_total":
				byts += m.GetCounter().GetValue()
			}
		}
	}
	return
}

func (c dropCB) Dropped(m utils.Message) {
	promDrop.Dropped(m)
	id, ok := checkDatagram(m.Payload)
	var bp uintptr
	if len(m.Payload) > 0 {
		bp = uintptr(unsafe.Pointer(&m.Payload[0]))
	}
	c.t.add(udpEv{kind: 'D', id: id, ok: ok, buf: bp})
}

// portForeign reports whether a UDP socket that does NOT belong to this process is bound to the port (another
// process was handed the same ephemeral port by the kernel between two of our binds: checks run side by side,
// the machine runs other tests). What such a socket causes says nothing about the receiver.
func portForeign(port int) bool {
	b, err := os.ReadFile("/proc/net/udp")
	if err != nil {
		return false
	}
	want := fmt.Sprintf(":%04X", port)
	inodes := map[string]bool{}
	for _, l := range strings.Split(string(b), "\n") {
		f := strings.Fields(l)
		if len(f) > 9 && strings.HasSuffix(f[1], want) {
			inodes[f[9]] = true
		}
	}
	if len(inodes) == 0 {
		return false
	}
	ents, _ := os.ReadDir("/proc/self/fd")
	for _, e := range ents {
		if t, err := os.Readlink("/proc/self/fd/" + e.Name()); err == nil && strings.HasPrefix(t, "socket:[") {
			delete(inodes, strings.TrimSuffix(strings.TrimPrefix(t, "socket:["), "]"))
		}
	}
	return len(inodes) > 0
}

func freePort() int {
	c, err := net.ListenPacket("udp", "127.0.0.1:0")
	if err != nil {
		return 0
	}
	defer c.Close()
	return c.LocalAddr().(*net.UDPAddr).Port
}

// the trace as tokens: R #size #buf | S #id #buf #ok | E #id #ok | D #id
func (t *udpTrace) tokens(tk *toks) {
	t.mu.Lock()
	defer t.mu.Unlock()
	bufIdx := map[uintptr]int{}
	bi := func(p uintptr) uint64 {
		if _, ok := bufIdx[p]; !ok {
			bufIdx[p] = len(bufIdx) + 1
		}
		return uint64(bufIdx[p])
	}
	for _, e := range t.ev {
		switch e.kind {
		case 'R':
			tk.S("R")
			tk.N(uint64(e.size))
			tk.N(bi(e.buf))
		case 'S':
			tk.S("S")
			tk.N(uint64(e.id))
			tk.N(bi(e.buf))
			tk.N(b2u(e.ok))
		case 'E':
			tk.S("E")
			tk.N(uint64(e.id))
			tk.N(b2u(e.ok))
		case 'D':
			tk.S("D")
			tk.N(uint64(e.id))
			tk.N(bi(e.buf))
		}
	}
}
func b2u(b bool) uint64 {
	if b {
		return 1
	}
	return 0
}

func init() {
	// udp #sockets #workers #queue #blocking #ndatagrams #behaviour #seed
	//   behaviour: 0 instant, 1 slow, 2 first decoders block until released, 3 erroring, 4 panicking in the wrapper
	// output: cfg tokens, then the event trace, then "stop" verdicts
	handlers["udp"] = func(a []string) string {
		sockets, workers, queue := int(unnum(a[0])), int(unnum(a[1])), int(unnum(a[2]))
		blocking := unnum(a[3]) != 0
		n := int(unnum(a[4]))
		beh := int(unnum(a[5]))
		rng := rand.New(rand.NewSource(int64(unnum(a[6]))))
		tr := &udpTrace{}
		utils.VerifEvent = func(ev string, size int, buf *byte) {
			if ev == "udp.read" {
				tr.add(udpEv{kind: 'R', size: size, buf: uintptr(unsafe.Pointer(buf))})
			}
		}
		defer func() { utils.VerifEvent = nil }()
		release := make(chan struct{})
		var blockedOnce sync.Once
		var nblocked int32
		var bmu sync.Mutex
		decode := func(msg interface{}) error {
			m := msg.(*utils.Message)
			id, ok := checkDatagram(m.Payload)
			var bp uintptr
			if len(m.Payload) > 0 {
				bp = uintptr(unsafe.Pointer(&m.Payload[0]))
			}
			tr.add(udpEv{kind: 'S', id: id, buf: bp, ok: ok})
			switch beh {
			case 1:
				time.Sleep(time.Duration(50+id%200) * time.Microsecond)
			case 2:
				bmu.Lock()
				mine := nblocked < 2
				if mine {
					nblocked++
				}
				bmu.Unlock()
				if mine {
					<-release
				}
			}
			_, ok2 := checkDatagram(m.Payload)
			tr.add(udpEv{kind: 'E', id: id, ok: ok2})
			if beh == 3 && id%2 == 0 {
				return errors.New("decoder error")
			}
			if beh == 4 && id%3 == 0 {
				panic("decoder panic")
			}
			return nil
		}
		_ = blockedOnce
		dropP0, dropB0 := dropMetrics()
		cfg := &utils.UDPReceiverConfig{Sockets: sockets, Workers: workers, QueueSize: queue, Blocking: blocking, ReceiverCallback: dropCB{tr}}
		recv, err := utils.NewUDPReceiver(cfg)
		if err != nil {
			return "newerr"
		}
		go func() {
			for range recv.Errors() {
			}
		}()
		port := freePort()
		if err := recv.Start("127.0.0.1", port, debug.PanicDecoderWrapper(decode)); err != nil {
			if portForeign(port) {
				return "foreignport" // another process was handed the port in between: the run is repeated
			}
			return "starterr"
		}
		// burst from several source sockets
		var conns []net.Conn
		for i := 0; i < 3; i++ {
			c, err := net.Dial("udp", fmt.Sprintf("127.0.0.1:%d", port))
			if err != nil {
				return "dialerr"
			}
			conns = append(conns, c)
		}
		for i := 0; i < n; i++ {
			size := 1 + rng.Intn(200)
			if rng.Intn(8) == 0 {
				size = 1 + rng.Intn(8980)
			}
			conns[i%3].Write(mkDatagram(uint32(i+1), size))
			if i%16 == 15 {
				runtime.Gosched()
			}
			if queue >= 1000 || blocking {
				if i%64 == 63 {
					time.Sleep(200 * time.Microsecond)
				}
			}
		}
		if beh == 2 {
			time.Sleep(20 * time.Millisecond)
			close(release)
		}
		// quiescence: reads == decoded + dropped, stable
		deadline := time.Now().Add(wd(5 * time.Second))
		stable := 0
		for time.Now().Before(deadline) {
			r, e, d := tr.counts()
			if r == e+d {
				stable++
				if stable >= 5 {
					break
				}
			} else {
				stable = 0
			}
			time.Sleep(20 * time.Millisecond)
		}
		for _, c := range conns {
			c.Close()
		}
		stopped := make(chan error, 1)
		go func() { stopped <- recv.Stop() }()
		var t toks
		t.N(uint64(sockets))
		t.N(uint64(workers))
		t.N(uint64(queue))
		t.N(b2u(blocking))
		tr.tokens(&t)
		// the Prometheus drop counters moved by exactly the drops of this run (packets; bytes = sum of their sizes)
		{
			p1, b1 := dropMetrics()
			_, _, d := tr.counts()
			if int(p1-dropP0+0.5) == d && (d > 0) == (b1-dropB0 > 0) {
				t.S("dropmetricok")
			} else {
				t.S(fmt.Sprintf("dropmetricBAD%d/%d", int(p1-dropP0+0.5), d))
			}
		}
		select {
		case err := <-stopped:
			if err != nil {
				t.S("stoperr")
			} else {
				t.S("stopok")
			}
		case <-time.After(wd(5 * time.Second)):
			t.S("stophang")
		}
		return t.String()
	}
}
