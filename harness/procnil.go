package main

import (
	"bytes"

	"github.com/netsampler/goflow2/v2/decoders/netflow"
	"github.com/netsampler/goflow2/v2/decoders/netflowlegacy"
	"github.com/netsampler/goflow2/v2/decoders/sflow"
	protoproducer "github.com/netsampler/goflow2/v2/producer/proto"
)

func init() {
	// procnil (=payload)* : the exported Decode* / ProcessMessage*Config entry points with a nil configuration
	// and a nil sampling system, over one template system; prints per datagram the number of messages
	handlers["procnil"] = func(a []string) string {
		ts := netflow.CreateTemplateSystem()
		var t toks
		for _, h := range a {
			d := unhex(h)
			n := 0
			status := "err"
			if len(d) >= 4 && d[0] == 0 && d[1] == 0 { // sFlow
				var p sflow.Packet
				if err := sflow.DecodeMessageVersion(bytes.NewBuffer(d), &p); err == nil {
					ms, err := protoproducer.ProcessMessageSFlowConfig(&p, nil)
					if err == nil {
						status = "ok"
					}
					n = len(ms)
				}
			} else if len(d) >= 2 && d[1] == 5 {
				var p netflowlegacy.PacketNetFlowV5
				if err := netflowlegacy.DecodeMessageVersion(bytes.NewBuffer(d), &p); err == nil {
					ms, err := protoproducer.ProcessMessageNetFlowLegacy(&p)
					if err == nil {
						status = "ok"
					}
					n = len(ms)
				}
			} else {
				var p9 netflow.NFv9Packet
				var p10 netflow.IPFIXPacket
				_ = netflow.DecodeMessageVersion(bytes.NewBuffer(d), ts, &p9, &p10)
				if p9.Version == 9 {
					ms, err := protoproducer.ProcessMessageNetFlowV9Config(&p9, nil, nil)
					if err == nil {
						status = "ok"
					}
					n = len(ms)
				} else if p10.Version == 10 {
					ms, err := protoproducer.ProcessMessageIPFIXConfig(&p10, nil, nil)
					if err == nil {
						status = "ok"
					}
					n = len(ms)
				}
			}
			t.S(status)
			t.N(uint64(n))
			t.S("|")
		}
		return t.String()
	}
}
