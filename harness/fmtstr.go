package main

import (
	"encoding/json"
	"net/netip"
	"time"

	"github.com/netsampler/goflow2/v2/format"
	protoproducer "github.com/netsampler/goflow2/v2/producer/proto"
	"github.com/netsampler/goflow2/v2/utils"
)

const fmtstrCfg = `formatter:
  fields:
    - cs
  protobuf:
    - name: cs
      index: 1001
      type: string
  render:
    cs: string
ipfix:
  mapping:
    - field: 82
      destination: cs
`

func init() {
	// fmtstr =bytes : the bytes travel as an IPFIX interfaceName (82, variable length) mapped to a custom
	// string field rendered with the string renderer; prints the raw JSON value of that field
	handlers["fmtstr"] = func(a []string) string {
		val := unhex(a[0])
		cfg, err := compileCfg("yaml:" + hexOfBytes([]byte(fmtstrCfg)))
		if err != nil {
			return "cfgerr"
		}
		prod, _ := protoproducer.CreateProtoProducer(cfg, protoproducer.CreateSamplingSystem)
		fj, _ := format.FindFormat("json")
		rec := &recTransport{}
		p := utils.NewNetFlowPipe(&utils.PipeConfig{Format: fj, Transport: rec, Producer: prod})
		tm := set(2, append(append(be16(256), be16(1)...), append(be16(82), be16(65535)...)...))
		var body []byte
		if len(val) < 255 {
			body = append([]byte{byte(len(val))}, val...)
		} else {
			body = append(append([]byte{255}, be16(len(val))...), val...)
		}
		m := &utils.Message{Src: netip.MustParseAddrPort("10.1.1.1:2000"), Dst: netip.MustParseAddrPort("192.0.2.1:2055"),
			Payload: ipfixMsg(1, tm, set(256, body)), Received: time.Unix(1, 0).UTC()}
		err = p.DecodeFlow(m)
		var t toks
		if err != nil || len(rec.data) != 1 {
			t.S("jsonBAD")
			return t.String()
		}
		if !json.Valid(rec.data[0]) {
			t.S("jsonBAD")
			return t.String()
		}
		_, vals, ok := jsonKeys(rec.data[0])
		if !ok {
			t.S("jsonBAD")
			return t.String()
		}
		t.B(vals["cs"])
		return t.String()
	}
}

func hexOfBytes(b []byte) string {
	const d = "0123456789abcdef"
	out := make([]byte, 0, 2*len(b))
	for _, x := range b {
		out = append(out, d[x>>4], d[x&15])
	}
	return string(out)
}
