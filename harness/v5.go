package main

import (
	"bytes"

	"github.com/netsampler/goflow2/v2/decoders/netflowlegacy"
)

func showV5(pkt *netflowlegacy.PacketNetFlowV5, err error) string {
	var t toks
	if err != nil {
		t.S("err")
		return t.String()
	}
	t.S("ok")
	t.N(uint64(pkt.Count))
	t.N(uint64(pkt.SysUptime))
	t.N(uint64(pkt.UnixSecs))
	t.N(uint64(pkt.UnixNSecs))
	t.N(uint64(pkt.FlowSequence))
	t.N(uint64(pkt.EngineType))
	t.N(uint64(pkt.EngineId))
	t.N(uint64(pkt.SamplingInterval))
	t.N(uint64(len(pkt.Records)))
	for _, r := range pkt.Records {
		t.S("r")
		t.N(uint64(r.SrcAddr))
		t.N(uint64(r.DstAddr))
		t.N(uint64(r.NextHop))
		t.N(uint64(r.Input))
		t.N(uint64(r.Output))
		t.N(uint64(r.DPkts))
		t.N(uint64(r.DOctets))
		t.N(uint64(r.First))
		t.N(uint64(r.Last))
		t.N(uint64(r.SrcPort))
		t.N(uint64(r.DstPort))
		t.N(uint64(r.Pad1))
		t.N(uint64(r.TCPFlags))
		t.N(uint64(r.Proto))
		t.N(uint64(r.Tos))
		t.N(uint64(r.SrcAS))
		t.N(uint64(r.DstAS))
		t.N(uint64(r.SrcMask))
		t.N(uint64(r.DstMask))
		t.N(uint64(r.Pad2))
	}
	return t.String()
}

func init() {
	handlers["v5"] = func(a []string) string {
		var pkt netflowlegacy.PacketNetFlowV5
		err := netflowlegacy.DecodeMessageVersion(bytes.NewBuffer(unhex(a[0])), &pkt)
		return showV5(&pkt, err)
	}
}
