package main

import (
	"flag"
	"os"
	"fmt"
	"math/rand"
	"reflect"
	"sort"
	"strings"
	"sync"
	"time"
	"unsafe"

	sarama "github.com/Shopify/sarama"
	"github.com/netsampler/goflow2/v2/transport"
	_ "github.com/netsampler/goflow2/v2/transport/kafka"
)

type produced struct {
	partition int32
	key, val  string
}

// messages of every ProduceRequest the mock broker received (reflection on the unexported records map)
func producedOf(b *sarama.MockBroker) []produced {
	var out []produced
	for _, rr := range b.History() {
		pr, ok := rr.Request.(*sarama.ProduceRequest)
		if !ok {
			continue
		}
		f := reflect.ValueOf(pr).Elem().FieldByName("records")
		f = reflect.NewAt(f.Type(), unsafe.Pointer(f.UnsafeAddr())).Elem()
		m, ok := f.Interface().(map[string]map[int32]sarama.Records)
		if !ok {
			continue
		}
		for _, parts := range m {
			for p, recs := range parts {
				if recs.RecordBatch != nil {
					for _, r := range recs.RecordBatch.Records {
						out = append(out, produced{p, string(r.Key), string(r.Value)})
					}
				}
				if recs.MsgSet != nil {
					for _, mb := range recs.MsgSet.Messages {
						out = append(out, produced{p, string(mb.Msg.Key), string(mb.Msg.Value)})
					}
				}
			}
		}
	}
	return out
}

type nopT struct{}

func (nopT) Error(args ...interface{})                 {}
func (nopT) Errorf(format string, args ...interface{}) {}
func (nopT) Fatal(args ...interface{})                 {}
func (nopT) Fatalf(format string, args ...interface{}) {}
func (nopT) Helper()                                   {}

func init() {
	// kafka #n #keys #hashing #flushbytes #fault(0 none,1 produce error,2 broker closed mid-stream) #seed
	handlers["kafka"] = func(a []string) string {
		n, nkeys := int(unnum(a[0])), int(unnum(a[1]))
		hashing := unnum(a[2]) != 0
		flushBytes := int(unnum(a[3]))
		fault := int(unnum(a[4]))
		rng := rand.New(rand.NewSource(int64(unnum(a[5]))))
		broker := sarama.NewMockBroker(nopT{}, 1)
		brokerClosed := false
		defer func() {
			if !brokerClosed {
				broker.Close()
			}
		}()
		meta := sarama.NewMockMetadataResponse(nopT{}).SetBroker(broker.Addr(), broker.BrokerID())
		for p := int32(0); p < 4; p++ {
			meta.SetLeader("verif-topic", p, broker.BrokerID())
		}
		prod := sarama.NewMockProduceResponse(nopT{}).SetVersion(3)
		if fault == 1 {
			for p := int32(0); p < 4; p++ {
				prod.SetError("verif-topic", p, sarama.ErrNotLeaderForPartition)
			}
		}
		broker.SetHandlerByMap(map[string]sarama.MockResponse{
			"ApiVersionsRequest": sarama.NewMockApiVersionsResponse(nopT{}),
			"MetadataRequest":    meta,
			"ProduceRequest":  prod,
		})
		flag.Set("transport.kafka.brokers", broker.Addr())
		flag.Set("transport.kafka.topic", "verif-topic")
		flag.Set("transport.kafka.hashing", fmt.Sprintf("%v", hashing))
		flag.Set("transport.kafka.flushbytes", fmt.Sprintf("%d", flushBytes))
		flag.Set("transport.kafka.flushfreq", "20ms")
		flag.Set("transport.kafka.version", "0.11.0.0")
		tr, err := transport.FindTransport("kafka")
		if err != nil {
			return "initerr:" + strings.ReplaceAll(err.Error(), " ", "_")
		}
		// a draining reader on the transport's error stream
		var emu sync.Mutex
		nerr := 0
		stopE := make(chan struct{})
		var ewg sync.WaitGroup
		if ec, ok := tr.TransportDriver.(interface{ Errors() <-chan error }); ok {
			ewg.Add(1)
			go func() {
				defer ewg.Done()
				for {
					select {
					case e := <-ec.Errors():
						if e != nil {
							emu.Lock()
							nerr++
							if os.Getenv("GFH_DEBUG") != "" && nerr < 3 {
								fmt.Fprintln(os.Stderr, "kafka error:", e)
							}
							emu.Unlock()
						}
					case <-stopE:
						return
					}
				}
			}()
		}
		var sent []produced
		for i := 0; i < n; i++ {
			k := fmt.Sprintf("key-%d", rng.Intn(nkeys))
			v := fmt.Sprintf("msg-%06d-%s", i, strings.Repeat("v", 1+rng.Intn(400)))
			if rng.Intn(20) == 0 {
				v += strings.Repeat("w", rng.Intn(5000))
			}
			sent = append(sent, produced{0, k, v})
			if err := tr.Send([]byte(k), []byte(v)); err != nil {
				return "senderr"
			}
			if fault == 2 && i == n/2 {
				time.Sleep(30 * time.Millisecond)
				broker.Close()
				brokerClosed = true
			}
		}
		closed := make(chan struct{})
		go func() { tr.Close(); close(closed) }()
		var t toks
		select {
		case <-closed:
			t.S("closeok")
		case <-time.After(wd(120 * time.Second)):
			t.S("closeHANG")
		}
		time.Sleep(20 * time.Millisecond)
		close(stopE)
		ewg.Wait()
		got := producedOf(broker)
		// multiset comparison and key -> partition consistency
		cnt := map[string]int{}
		for _, s := range sent {
			cnt[s.key+"\x00"+s.val]++
		}
		foreign, dup := 0, 0
		seen := map[string]int{}
		part := map[string]map[int32]bool{}
		for _, g := range got {
			id := g.key + "\x00" + g.val
			seen[id]++
			if cnt[id] == 0 {
				foreign++
			}
			if part[g.key] == nil {
				part[g.key] = map[int32]bool{}
			}
			part[g.key][g.partition] = true
		}
		missing := 0
		for id, c := range cnt {
			if seen[id] < c {
				missing += c - seen[id]
			}
			if seen[id] > c {
				dup += seen[id] - c
			}
		}
		split := 0
		if hashing {
			keys := []string{}
			for k := range part {
				keys = append(keys, k)
			}
			sort.Strings(keys)
			for _, k := range keys {
				if len(part[k]) > 1 {
					split++
				}
			}
		}
		emu.Lock()
		ne := nerr
		emu.Unlock()
		t.S("missing")
		t.N(uint64(missing))
		t.S("dup")
		t.N(uint64(dup))
		t.S("foreign")
		t.N(uint64(foreign))
		t.S("keysplit")
		t.N(uint64(split))
		if ne > 0 {
			t.S("errors")
		} else {
			t.S("noerrors")
		}
		return t.String()
	}
}
