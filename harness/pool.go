package main

import (
	"errors"
	"net/netip"
	"sync"
	"time"

	"github.com/netsampler/goflow2/v2/decoders/netflow"
	"github.com/netsampler/goflow2/v2/format"
	protoproducer "github.com/netsampler/goflow2/v2/producer/proto"
	"github.com/netsampler/goflow2/v2/utils"
)

// a pipe whose format runs json, text and bin on every message
type allEnv struct {
	mf   *multiFormat
	pipe utils.FlowPipe
}

func newAllPipe(kind, cfgName string) (*allEnv, error) {
	cfg, err := compileCfg(cfgName)
	if err != nil {
		return nil, err
	}
	prod, _ := protoproducer.CreateProtoProducer(cfg, protoproducer.CreateSamplingSystem)
	fj, _ := format.FindFormat("json")
	ft, _ := format.FindFormat("text")
	fb, _ := format.FindFormat("bin")
	mf := &multiFormat{j: fj, t: ft, b: fb}
	pc := &utils.PipeConfig{Format: mf, Transport: &recTransport{}, Producer: prod}
	var p utils.FlowPipe
	switch kind {
	case "netflow":
		p = utils.NewNetFlowPipe(pc)
	case "sflow":
		p = utils.NewSFlowPipe(pc)
	default:
		p = utils.NewFlowPipe(pc)
	}
	return &allEnv{mf, p}, nil
}

func mkMsg(a []string, i int) *utils.Message {
	return &utils.Message{
		Src:      netip.AddrPortFrom(addrOf(unhex(a[i])), uint16(unnum(a[i+1]))),
		Dst:      netip.AddrPortFrom(netip.MustParseAddr("192.0.2.1"), 2055),
		Payload:  unhex(a[i+3]),
		Received: time.Unix(0, int64(unnum(a[i+2]))).UTC(),
	}
}

func outcomeTok(t *toks, err error) {
	switch {
	case err == nil:
		t.S("ok")
	case errors.Is(err, netflow.ErrorTemplateNotFound):
		t.S("tnf")
	default:
		t.S("err")
	}
}

func init() {
	// pipepoison <kind> <cfg> hist : like pipe, with the message pool poisoned before every datagram
	handlers["pipepoison"] = func(a []string) string {
		env, err := newPipe(a[0], a[1], "bin")
		if err != nil {
			return "cfgerr"
		}
		var t toks
		for i := 2; i+3 < len(a); i += 4 {
			protoproducer.VerifPoisonPool(64)
			env.step(&t, unhex(a[i]), unnum(a[i+1]), unnum(a[i+2]), unhex(a[i+3]))
			t.S("|")
		}
		return t.String()
	}
	// pipeall <kind> <cfg> <nskip> <poison 0/1> hist : outputs (bin, json, text bytes) of the datagrams after
	// the first nskip ones; the first nskip are processed but not printed
	handlers["pipeall"] = func(a []string) string {
		env, err := newAllPipe(a[0], a[1])
		if err != nil {
			return "cfgerr"
		}
		nskip := int(unnum(a[2]))
		poison := unnum(a[3]) != 0
		var t toks
		k := 0
		for i := 4; i+3 < len(a); i += 4 {
			env.mf.out = env.mf.out[:0]
			if poison {
				protoproducer.VerifPoisonPool(64)
			}
			err := env.pipe.DecodeFlow(mkMsg(a, i))
			if k >= nskip {
				outcomeTok(&t, err)
				t.N(uint64(len(env.mf.out)))
				for _, o := range env.mf.out {
					t.B(o.bin)
					t.B(o.json)
					t.B(o.text)
				}
				t.S("|")
			}
			k++
		}
		return t.String()
	}
	// pipebg <kind> <cfg> <nskip> hist : the first nskip datagrams are replayed in a loop by 4 background
	// goroutines on the same pipe while the remaining ones are processed in the foreground; prints the
	// bin output of the foreground datagrams (recognised by their exporter address 10.9.9.9)
	handlers["pipebg"] = func(a []string) string {
		cfg, err := compileCfg(a[1])
		if err != nil {
			return "cfgerr"
		}
		prod, _ := protoproducer.CreateProtoProducer(cfg, protoproducer.CreateSamplingSystem)
		fb, _ := format.FindFormat("bin")
		tr := &lockedTransport{}
		pc := &utils.PipeConfig{Format: fb, Transport: tr, Producer: prod}
		var p utils.FlowPipe
		switch a[0] {
		case "netflow":
			p = utils.NewNetFlowPipe(pc)
		case "sflow":
			p = utils.NewSFlowPipe(pc)
		default:
			p = utils.NewFlowPipe(pc)
		}
		nskip := int(unnum(a[2]))
		var bg, fg []*utils.Message
		k := 0
		for i := 3; i+3 < len(a); i += 4 {
			if k < nskip {
				bg = append(bg, mkMsg(a, i))
			} else {
				fg = append(fg, mkMsg(a, i))
			}
			k++
		}
		stop := make(chan struct{})
		var wg sync.WaitGroup
		for g := 0; g < 4; g++ {
			wg.Add(1)
			go func() {
				defer wg.Done()
				for {
					for _, m := range bg {
						select {
						case <-stop:
							return
						default:
						}
						c := *m
						c.Payload = append([]byte(nil), m.Payload...)
						_ = p.DecodeFlow(&c)
						protoproducer.VerifPoisonPool(2)
					}
					if len(bg) == 0 {
						<-stop
						return
					}
				}
			}()
		}
		var t toks
		for _, m := range fg {
			tr.mu.Lock()
			tr.probe = tr.probe[:0]
			tr.mu.Unlock()
			err := p.DecodeFlow(m)
			outcomeTok(&t, err)
			tr.mu.Lock()
			t.N(uint64(len(tr.probe)))
			for _, d := range tr.probe {
				t.B(d)
			}
			tr.mu.Unlock()
			t.S("|")
		}
		close(stop)
		wg.Wait()
		return t.String()
	}
}

// transport shared by goroutines; keeps the messages of the probe exporter 10.9.9.9
type lockedTransport struct {
	mu    sync.Mutex
	probe [][]byte
}

func (l *lockedTransport) Send(key, data []byte) error {
	// sampler_address (field 11) = 0a090909 marks the probe exporter
	if containsSampler(data) {
		l.mu.Lock()
		l.probe = append(l.probe, append([]byte(nil), data...))
		l.mu.Unlock()
	}
	return nil
}

func containsSampler(data []byte) bool {
	pat := []byte{0x5a, 0x04, 0x0a, 0x09, 0x09, 0x09} // tag(11,bytes) len 4 10.9.9.9
	for i := 0; i+len(pat) <= len(data); i++ {
		j := 0
		for j < len(pat) && data[i+j] == pat[j] {
			j++
		}
		if j == len(pat) {
			return true
		}
	}
	return false
}
