// gfharness: runs the implementation (goflow2 from /repo, built with -tags verif) on the
// same input lines as the extracted Coq model and prints observation tokens.
//   gfharness run <kind-family>   stdin: input lines, stdout: one output line per input
// Token syntax: #<hex> number, =<hex> byte string, bare word string.
package main

import (
	"bufio"
	"encoding/hex"
	"fmt"
	"os"
	"strconv"
	"strings"
	"time"
)

// watchdog scale: GFH_TSCALE=<float> multiplies every watchdog of the harness (used by the check to
// confirm, on an isolated re-run, that an expired watchdog is not an artefact of a loaded machine)
var tscale = func() float64 {
	if v, err := strconv.ParseFloat(os.Getenv("GFH_TSCALE"), 64); err == nil && v > 0 {
		return v
	}
	return 1
}()

func wd(d time.Duration) time.Duration { return time.Duration(float64(d) * tscale) }

type handler func(args []string) string

var handlers = map[string]handler{}

type toks struct{ sb strings.Builder }

func (t *toks) sep() {
	if t.sb.Len() > 0 {
		t.sb.WriteByte(' ')
	}
}
func (t *toks) N(v uint64)   { t.sep(); fmt.Fprintf(&t.sb, "#%x", v) }
func (t *toks) S(s string)   { t.sep(); t.sb.WriteString(s) }
func (t *toks) B(b []byte)   { t.sep(); t.sb.WriteByte('='); t.sb.WriteString(hex.EncodeToString(b)) }
func (t *toks) String() string { return t.sb.String() }

func unhex(s string) []byte {
	s = strings.TrimPrefix(s, "=")
	b, err := hex.DecodeString(s)
	if err != nil {
		panic("bad hex: " + s)
	}
	return b
}

func unnum(s string) uint64 {
	var v uint64
	fmt.Sscanf(strings.TrimPrefix(s, "#"), "%x", &v)
	return v
}

// safe runs f and converts a panic into the token "panic"
func safe(f func() string) (out string) {
	defer func() {
		if r := recover(); r != nil {
			out = "panic"
			if os.Getenv("GFH_DEBUG") != "" {
				fmt.Fprintf(os.Stderr, "panic: %v\n", r)
			}
		}
	}()
	return f()
}

func main() {
	if len(os.Args) < 2 || os.Args[1] != "run" {
		fmt.Fprintln(os.Stderr, "usage: gfharness run")
		os.Exit(2)
	}
	in := bufio.NewReaderSize(os.Stdin, 1<<20)
	out := bufio.NewWriterSize(os.Stdout, 1<<20)
	defer out.Flush()
	for {
		line, err := in.ReadString('\n')
		line = strings.TrimRight(line, "\n")
		if line != "" {
			f := strings.Fields(line)
			h, ok := handlers[f[0]]
			if !ok {
				fmt.Fprintln(out, "badinput")
			} else {
				fmt.Fprintln(out, safe(func() string { return h(f[1:]) }))
			}
			out.Flush()
		}
		if err != nil {
			break
		}
	}
}
