package main

import (
	"errors"
	"net/netip"
	"sort"
	"strings"
	"time"

	"github.com/netsampler/goflow2/v2/decoders/netflow"
	"github.com/netsampler/goflow2/v2/format"
	_ "github.com/netsampler/goflow2/v2/format/binary"
	_ "github.com/netsampler/goflow2/v2/format/json"
	_ "github.com/netsampler/goflow2/v2/format/text"
	"github.com/netsampler/goflow2/v2/metrics"
	"github.com/netsampler/goflow2/v2/producer"
	protoproducer "github.com/netsampler/goflow2/v2/producer/proto"
	"github.com/netsampler/goflow2/v2/utils"
	"github.com/netsampler/goflow2/v2/utils/debug"
	"google.golang.org/protobuf/encoding/protowire"
	"gopkg.in/yaml.v3"
)

// recording transport
type recTransport struct {
	keys [][]byte
	data [][]byte
}

func (r *recTransport) Send(key, data []byte) error {
	r.keys = append(r.keys, append([]byte(nil), key...))
	r.data = append(r.data, append([]byte(nil), data...))
	return nil
}

var packedFields = map[protowire.Number]bool{80: true, 81: true, 101: true, 102: true, 103: true, 104: true}

// tokens of one protobuf-encoded flow message (without length prefix): "m" then (#num value)*,
// known fields in field-number order as the encoder wrote them, packed repeated fields expanded
func showPB(t *toks, b []byte) {
	t.S("m")
	type ent struct {
		num protowire.Number
		idx int
		isv bool
		v   uint64
		bs  []byte
	}
	var ents []ent
	for len(b) > 0 {
		num, typ, n := protowire.ConsumeTag(b)
		if n < 0 {
			t.S("badtag")
			return
		}
		b = b[n:]
		switch typ {
		case protowire.VarintType:
			v, n := protowire.ConsumeVarint(b)
			if n < 0 {
				t.S("badvarint")
				return
			}
			b = b[n:]
			ents = append(ents, ent{num, len(ents), true, v, nil})
		case protowire.BytesType:
			v, n := protowire.ConsumeBytes(b)
			if n < 0 {
				t.S("badbytes")
				return
			}
			b = b[n:]
			if packedFields[num] {
				for len(v) > 0 {
					x, k := protowire.ConsumeVarint(v)
					if k < 0 {
						t.S("badpacked")
						return
					}
					v = v[k:]
					ents = append(ents, ent{num, len(ents), true, x, nil})
				}
			} else {
				ents = append(ents, ent{num, len(ents), false, 0, v})
			}
		default:
			n := protowire.ConsumeFieldValue(num, typ, b)
			if n < 0 {
				t.S("badfield")
				return
			}
			b = b[n:]
			ents = append(ents, ent{num, len(ents), false, 0, []byte("?")})
		}
	}
	for _, e := range ents {
		t.N(uint64(e.num))
		if e.isv {
			t.N(e.v)
		} else {
			t.B(e.bs)
		}
	}
}

func stripDelim(b []byte) []byte {
	_, n := protowire.ConsumeVarint(b)
	if n < 0 {
		return b
	}
	return b[n:]
}

var cfgCache = map[string]protoproducer.ProtoProducerConfig{}

// cfg names: "none" (nil *ProducerConfig compiled), "yaml:<hex of yaml text>"
func compileCfg(name string) (protoproducer.ProtoProducerConfig, error) {
	raw := strings.HasPrefix(name, "yamlj:")
	if raw {
		// "yamlj:" = "yaml:" with the JSON / text bytes printed by fmtchk; compiled afresh for every line: Compile
		// writes the array flags of the custom fields into a package-level map (config_impl.go isSliceMap), so a
		// configuration compiled earlier in this process would otherwise see the flags of a later one
		name = "yaml:" + name[6:]
	} else if c, ok := cfgCache[name]; ok {
		return c, nil
	}
	var pc *protoproducer.ProducerConfig
	if strings.HasPrefix(name, "yaml:") {
		pc = &protoproducer.ProducerConfig{}
		if err := yaml.Unmarshal(unhex(name[5:]), pc); err != nil {
			return nil, err
		}
	} else if name == "mapping" {
		pc = &protoproducer.ProducerConfig{}
		if err := yaml.Unmarshal(mappingYaml(), pc); err != nil {
			return nil, err
		}
	}
	c, err := pc.Compile()
	if err != nil {
		return nil, err
	}
	if !raw {
		cfgCache[name] = c
	}
	return c, nil
}

func addrOf(b []byte) netip.Addr {
	a, _ := netip.AddrFromSlice(b)
	return a
}

type pipeEnv struct {
	rec    *recTransport
	pipe   utils.FlowPipe
	decode utils.DecoderFunc // what the receiver calls: the pipe's DecodeFlow, wrapped as cmd/goflow2 wraps it for "pipeasm"
}

// newPipeAssembled builds the pipe the way cmd/goflow2/main.go does: the producer behind the panic and Prometheus
// wrappers, the Prometheus template system as the pipe's templater, DecodeFlow behind the panic and Prometheus wrappers
func newPipeAssembled(kind, cfgName, formatName string) (*pipeEnv, error) {
	cfg, err := compileCfg(cfgName)
	if err != nil {
		return nil, err
	}
	var prod producer.ProducerInterface
	prod, err = protoproducer.CreateProtoProducer(cfg, protoproducer.CreateSamplingSystem)
	if err != nil {
		return nil, err
	}
	prod = debug.WrapPanicProducer(prod)
	prod = metrics.WrapPromProducer(prod)
	f, err := format.FindFormat(formatName)
	if err != nil {
		return nil, err
	}
	rec := &recTransport{}
	pc := &utils.PipeConfig{Format: f, Transport: rec, Producer: prod, NetFlowTemplater: metrics.NewDefaultPromTemplateSystem}
	var p utils.FlowPipe
	switch kind {
	case "netflow":
		p = utils.NewNetFlowPipe(pc)
	case "sflow":
		p = utils.NewSFlowPipe(pc)
	default:
		p = utils.NewFlowPipe(pc)
	}
	d := debug.PanicDecoderWrapper(p.DecodeFlow)
	d = metrics.PromDecoderWrapper(d, kind)
	return &pipeEnv{rec, p, d}, nil
}

func newPipe(kind, cfgName, formatName string) (*pipeEnv, error) {
	cfg, err := compileCfg(cfgName)
	if err != nil {
		return nil, err
	}
	prod, err := protoproducer.CreateProtoProducer(cfg, protoproducer.CreateSamplingSystem)
	if err != nil {
		return nil, err
	}
	f, err := format.FindFormat(formatName)
	if err != nil {
		return nil, err
	}
	rec := &recTransport{}
	pc := &utils.PipeConfig{Format: f, Transport: rec, Producer: prod}
	var p utils.FlowPipe
	switch kind {
	case "netflow":
		p = utils.NewNetFlowPipe(pc)
	case "sflow":
		p = utils.NewSFlowPipe(pc)
	default:
		p = utils.NewFlowPipe(pc)
	}
	return &pipeEnv{rec, p, p.DecodeFlow}, nil
}

// one DecodeFlow call; prints outcome, number of sends, the messages
func (e *pipeEnv) step(t *toks, addr []byte, port uint64, tr uint64, payload []byte) {
	e.rec.data = e.rec.data[:0]
	e.rec.keys = e.rec.keys[:0]
	msg := &utils.Message{
		Src:      netip.AddrPortFrom(addrOf(addr), uint16(port)),
		Dst:      netip.AddrPortFrom(netip.MustParseAddr("192.0.2.1"), 2055),
		Payload:  payload,
		Received: time.Unix(0, int64(tr)).UTC(),
	}
	err := e.decode(msg)
	switch {
	case err == nil:
		t.S("ok")
	case errors.Is(err, netflow.ErrorTemplateNotFound):
		t.S("tnf")
	default:
		t.S("err")
	}
	t.N(uint64(len(e.rec.data)))
	for _, d := range e.rec.data {
		showPB(t, stripDelim(d))
	}
}

func init() {
	// pipe <kind> <cfg> (=addr #port #tr =payload)*
	handlers["pipe"] = func(a []string) string {
		env, err := newPipe(a[0], a[1], "bin")
		if err != nil {
			return "cfgerr"
		}
		var t toks
		for i := 2; i+3 < len(a); i += 4 {
			env.step(&t, unhex(a[i]), unnum(a[i+1]), unnum(a[i+2]), unhex(a[i+3]))
			t.S("|")
		}
		return t.String()
	}
	// pipeasm <kind> <cfg> (=addr #port #tr =payload)* : the same through the pipe as cmd/goflow2 assembles it
	handlers["pipeasm"] = func(a []string) string {
		env, err := newPipeAssembled(a[0], a[1], "bin")
		if err != nil {
			return "cfgerr"
		}
		var t toks
		for i := 2; i+3 < len(a); i += 4 {
			env.step(&t, unhex(a[i]), unnum(a[i+1]), unnum(a[i+2]), unhex(a[i+3]))
			t.S("|")
		}
		return t.String()
	}
	_ = sort.Ints
}

func yamlUnmarshal(b []byte, v interface{}) error { return yaml.Unmarshal(b, v) }
