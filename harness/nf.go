package main

import (
	"bytes"
	"errors"

	"github.com/netsampler/goflow2/v2/decoders/netflow"
)

func showField(t *toks, f netflow.Field) {
	if f.PenProvided {
		t.N(1)
	} else {
		t.N(0)
	}
	t.N(uint64(f.Type))
	t.N(uint64(f.Length))
	t.N(uint64(f.Pen))
}

func showDataField(t *toks, f netflow.DataField) {
	if f.PenProvided {
		t.N(1)
	} else {
		t.N(0)
	}
	t.N(uint64(f.Type))
	t.N(uint64(f.Pen))
	if b, ok := f.Value.([]byte); ok {
		t.B(b)
	} else {
		t.S("nil")
	}
}

func showFlowSets(t *toks, sets []interface{}) {
	t.N(uint64(len(sets)))
	for _, fs := range sets {
		switch s := fs.(type) {
		case netflow.TemplateFlowSet:
			t.S("T")
			t.N(uint64(s.Id))
			t.N(uint64(s.Length))
			for _, r := range s.Records {
				t.S("t")
				t.N(uint64(r.TemplateId))
				t.N(uint64(r.FieldCount))
				t.N(uint64(len(r.Fields)))
				for _, f := range r.Fields {
					showField(t, f)
				}
			}
		case netflow.NFv9OptionsTemplateFlowSet:
			t.S("O9")
			t.N(uint64(s.Id))
			t.N(uint64(s.Length))
			for _, r := range s.Records {
				t.S("o")
				t.N(uint64(r.TemplateId))
				t.N(uint64(r.ScopeLength))
				t.N(uint64(r.OptionLength))
				t.N(uint64(len(r.Scopes)))
				t.N(uint64(len(r.Options)))
				for _, f := range r.Scopes {
					showField(t, f)
				}
				for _, f := range r.Options {
					showField(t, f)
				}
			}
		case netflow.IPFIXOptionsTemplateFlowSet:
			t.S("O10")
			t.N(uint64(s.Id))
			t.N(uint64(s.Length))
			for _, r := range s.Records {
				t.S("o")
				t.N(uint64(r.TemplateId))
				t.N(uint64(r.FieldCount))
				t.N(uint64(r.ScopeFieldCount))
				t.N(uint64(len(r.Scopes)))
				t.N(uint64(len(r.Options)))
				for _, f := range r.Scopes {
					showField(t, f)
				}
				for _, f := range r.Options {
					showField(t, f)
				}
			}
		case netflow.DataFlowSet:
			t.S("D")
			t.N(uint64(s.Id))
			t.N(uint64(s.Length))
			for _, r := range s.Records {
				t.S("r")
				for _, f := range r.Values {
					showDataField(t, f)
				}
			}
		case netflow.OptionsDataFlowSet:
			t.S("OD")
			t.N(uint64(s.Id))
			t.N(uint64(s.Length))
			for _, r := range s.Records {
				t.S("r")
				for _, f := range r.ScopesValues {
					showDataField(t, f)
				}
				t.S("/")
				for _, f := range r.OptionsValues {
					showDataField(t, f)
				}
			}
		case netflow.RawFlowSet:
			t.S("R")
			t.N(uint64(s.Id))
			t.N(uint64(s.Length))
			t.B(s.Records)
		default:
			t.S("unknownset")
		}
	}
}

// decode one datagram over a template system and print the observation
func showNF(t *toks, d []byte, ts netflow.NetFlowTemplateSystem) {
	var p9 netflow.NFv9Packet
	var p10 netflow.IPFIXPacket
	err := netflow.DecodeMessageVersion(bytes.NewBuffer(d), ts, &p9, &p10)
	tnf := false
	if err != nil {
		if errors.Is(err, netflow.ErrorTemplateNotFound) {
			tnf = true
		} else {
			t.S("err")
			return
		}
	}
	if tnf {
		t.S("tnf")
	} else {
		t.S("ok")
	}
	if p9.Version == 9 {
		t.N(9)
		t.N(uint64(p9.Count))
		t.N(uint64(p9.SystemUptime))
		t.N(uint64(p9.UnixSeconds))
		t.N(uint64(p9.SequenceNumber))
		t.N(uint64(p9.SourceId))
		showFlowSets(t, p9.FlowSets)
	} else {
		t.N(10)
		t.N(uint64(p10.Length))
		t.N(uint64(p10.ExportTime))
		t.N(uint64(p10.SequenceNumber))
		t.N(uint64(p10.ObservationDomainId))
		showFlowSets(t, p10.FlowSets)
	}
}

func init() {
	handlers["nfh"] = func(a []string) string {
		ts := netflow.CreateTemplateSystem()
		var t toks
		for _, h := range a {
			showNF(&t, unhex(h), ts)
			t.S("|")
		}
		return t.String()
	}
}
