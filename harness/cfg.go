package main

import (
	"errors"
	"fmt"
	"net/netip"
	"reflect"
	"strings"
	"time"

	"github.com/netsampler/goflow2/v2/decoders/netflow"
	"github.com/netsampler/goflow2/v2/format"
	flowpb "github.com/netsampler/goflow2/v2/pb"
	protoproducer "github.com/netsampler/goflow2/v2/producer/proto"
	"github.com/netsampler/goflow2/v2/utils"
	"google.golang.org/protobuf/proto"
)

var jsonToGo = map[string]string{}

func init() {
	t := reflect.TypeOf(flowpb.FlowMessage{})
	for i := 0; i < t.NumField(); i++ {
		f := t.Field(i)
		if !f.IsExported() {
			continue
		}
		jsonToGo[protoproducer.ExtractTag("json", f.Name, f.Tag)] = f.Name
	}
	// pipec <kind> <cfg> cfg ... end (=addr #port #tr =payload)*
	handlers["pipec"] = func(a []string) string {
		cfg, err := compileCfg(a[1])
		if err != nil {
			return "cfgerr"
		}
		fc := parseFmtCfg(a[1])
		var keyFields []string
		if pc := loadedCfg(a[1]); pc != nil {
			keyFields = pc.Formatter.Key
		}
		i := 2
		for i < len(a) && a[i] != "end" {
			i++
		}
		i++
		prod, _ := protoproducer.CreateProtoProducer(cfg, protoproducer.CreateSamplingSystem)
		fj, _ := format.FindFormat("json")
		ft, _ := format.FindFormat("text")
		fb, _ := format.FindFormat("bin")
		mf := &multiFormat{j: fj, t: ft, b: fb}
		rec := &recTransport{}
		pc := &utils.PipeConfig{Format: mf, Transport: rec, Producer: prod}
		var p utils.FlowPipe
		switch a[0] {
		case "netflow":
			p = utils.NewNetFlowPipe(pc)
		case "sflow":
			p = utils.NewSFlowPipe(pc)
		default:
			p = utils.NewFlowPipe(pc)
		}
		var t toks
		keyOf := map[string]string{} // signature of key fields -> key
		for ; i+3 < len(a); i += 4 {
			mf.out = mf.out[:0]
			msg := &utils.Message{
				Src:      netip.AddrPortFrom(addrOf(unhex(a[i])), uint16(unnum(a[i+1]))),
				Dst:      netip.AddrPortFrom(netip.MustParseAddr("192.0.2.1"), 2055),
				Payload:  unhex(a[i+3]),
				Received: time.Unix(0, int64(unnum(a[i+2]))).UTC(),
			}
			err := p.DecodeFlow(msg)
			switch {
			case err == nil:
				t.S("ok")
			case errors.Is(err, netflow.ErrorTemplateNotFound):
				t.S("tnf")
			default:
				t.S("err")
			}
			t.N(uint64(len(mf.out)))
			for _, o := range mf.out {
				if o.berr != nil || o.jerr != nil || o.terr != nil {
					t.S("fmterr")
					continue
				}
				showPB(&t, stripDelim(o.bin))
				var jt toks
				judge(&jt, o, fc, strings.HasPrefix(a[1], "yamlj:"))
				// drop the "b =hex" prefix of judge's output
				s := jt.String()
				for k := 0; k < 2; k++ {
					if j := indexByte(s, ' '); j >= 0 {
						s = s[j+1:]
					}
				}
				t.S(s)
				// the partition key depends on exactly the configured key fields
				var fm flowpb.FlowMessage
				ok := proto.Unmarshal(stripDelim(o.bin), &fm) == nil
				if ok && len(keyFields) > 0 {
					sig := ""
					usable := true
					v := reflect.ValueOf(&fm).Elem()
					for _, kf := range keyFields {
						g, isCol := jsonToGo[kf]
						if !isCol {
							usable = false // custom key fields live in the unknown section
							break
						}
						sig += fmt.Sprintf("%v|", v.FieldByName(g).Interface())
					}
					if usable {
						if prev, seen := keyOf[sig]; seen && prev != string(o.key) {
							ok = false
						}
						keyOf[sig] = string(o.key)
						if len(o.key) == 0 {
							ok = false
						}
					}
				} else if ok && len(o.key) != 0 {
					ok = false // no key fields configured: no key
				}
				if strings.HasPrefix(a[1], "yamlj:") {
					// the partition key itself (compared with Model/Format.v msg_key)
					t.S("k")
					t.B(o.key)
				}
				if ok {
					t.S("keyok")
				} else {
					t.S("keyBAD")
				}
			}
			t.S("|")
		}
		return t.String()
	}
	handlers["getbytes"] = func(a []string) string {
		d := unhex(a[0])
		off := int(unnum(a[1])) - 1000
		ln := int(unnum(a[2])) - 1000
		r := protoproducer.GetBytes(d, off, ln, unnum(a[3]) != 0)
		var t toks
		t.B(r)
		return t.String()
	}
}

func indexByte(s string, c byte) int {
	for i := 0; i < len(s); i++ {
		if s[i] == c {
			return i
		}
	}
	return -1
}

func loadedCfg(name string) *protoproducer.ProducerConfig {
	if strings.HasPrefix(name, "yamlj:") {
		name = "yaml:" + name[6:]
	}
	if len(name) < 5 || name[:5] != "yaml:" {
		return nil
	}
	pc := &protoproducer.ProducerConfig{}
	if err := yamlUnmarshal(unhex(name[5:]), pc); err != nil {
		return nil
	}
	return pc
}
