package main

import (
	protoproducer "github.com/netsampler/goflow2/v2/producer/proto"
)

func showMsg(t *toks, m *protoproducer.ProtoProducerMessage) {
	b, err := m.MarshalBinary()
	if err != nil {
		t.S("marshalerr")
		return
	}
	showPB(t, stripDelim(b))
}

func init() {
	handlers["pkt"] = func(a []string) string {
		var m protoproducer.ProtoProducerMessage
		err := protoproducer.DefaultEnvironment.ParsePacket(&m, unhex(a[0]))
		var t toks
		if err != nil {
			t.S("err")
			return t.String()
		}
		t.S("ok")
		showMsg(&t, &m)
		return t.String()
	}
}
