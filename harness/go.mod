module gfharness

go 1.21

require github.com/netsampler/goflow2/v2 v2.0.0

replace github.com/netsampler/goflow2/v2 => /repo
