module gfharness

go 1.21

require (
	github.com/netsampler/goflow2/v2 v2.0.0
	google.golang.org/protobuf v1.36.5
	gopkg.in/yaml.v3 v3.0.1
)

require (
	github.com/libp2p/go-reuseport v0.4.0 // indirect
	golang.org/x/sys v0.28.0 // indirect
)

replace github.com/netsampler/goflow2/v2 => /repo
