package main

import (
	"net/netip"
	"sync"
	"time"

	"github.com/netsampler/goflow2/v2/decoders/netflow"
	"github.com/netsampler/goflow2/v2/format"
	protoproducer "github.com/netsampler/goflow2/v2/producer/proto"
	"github.com/netsampler/goflow2/v2/utils"
)

func be16(v int) []byte { return []byte{byte(v >> 8), byte(v)} }
func be32(v int) []byte { return []byte{byte(v >> 24), byte(v >> 16), byte(v >> 8), byte(v)} }

func ipfixMsg(dom int, sets ...[]byte) []byte {
	var body []byte
	for _, s := range sets {
		body = append(body, s...)
	}
	h := append(be16(10), be16(16+len(body))...)
	h = append(h, be32(1700000000)...)
	h = append(h, be32(1)...)
	h = append(h, be32(dom)...)
	return append(h, body...)
}
func set(id int, body []byte) []byte { return append(append(be16(id), be16(4+len(body))...), body...) }

// template record: id, one field IN_BYTES(1) of 4 bytes
func tmplSet(tid int) []byte {
	return set(2, append(append(be16(tid), be16(1)...), append(be16(1), be16(4)...)...))
}
func dataSet(tid int, v int) []byte { return set(tid, be32(v)) }

// options template (id 300): scope field 1 (4 bytes), option 305 (4 bytes); and a data record with the rate
func samplingSets(rate int) [][]byte {
	ot := append(be16(300), be16(2)...)
	ot = append(ot, be16(1)...)
	ot = append(ot, append(be16(1), be16(4)...)...)
	ot = append(ot, append(be16(305), be16(4)...)...)
	return [][]byte{set(3, ot), set(300, append(be32(0), be32(rate)...))}
}

type parkToken struct{ release chan struct{} }

func init() {
	// first <tmpl|samp> #k (#order)* : k workers make first contact concurrently; every worker that reaches the
	// factory callback is parked there; parked workers are released one at a time in the given order (index into
	// the currently parked set), each running to completion before the next release. Then data sets / rates are
	// checked sequentially. Output: lost #n (#id)*
	handlers["first"] = func(a []string) string {
		mode := a[0]
		k := int(unnum(a[1]))
		var order []int
		for _, x := range a[2:] {
			order = append(order, int(unnum(x)))
		}
		parked := make(chan *parkToken, 16)
		park := func() {
			t := &parkToken{make(chan struct{})}
			parked <- t
			<-t.release
		}
		var templater func(string) netflow.NetFlowTemplateSystem
		sampler := protoproducer.CreateSamplingSystem
		if mode == "tmpl" {
			templater = func(key string) netflow.NetFlowTemplateSystem {
				park()
				return netflow.CreateTemplateSystem()
			}
		} else {
			sampler = func() protoproducer.SamplingRateSystem {
				park()
				return protoproducer.CreateSamplingSystem()
			}
		}
		cfg, _ := compileCfg("none")
		prod, _ := protoproducer.CreateProtoProducer(cfg, sampler)
		fb, _ := format.FindFormat("bin")
		rec := &lockedRec{}
		pc := &utils.PipeConfig{Format: fb, Transport: rec, Producer: prod}
		if templater != nil {
			pc.NetFlowTemplater = templater
		}
		p := utils.NewNetFlowPipe(pc)
		ip := netip.MustParseAddr("10.7.7.7")
		src := func(i int) netip.AddrPort {
			if mode == "tmpl" {
				return netip.AddrPortFrom(ip, 4000)
			}
			return netip.AddrPortFrom(ip, uint16(4000+i))
		}
		mk := func(i int, payload []byte) *utils.Message {
			return &utils.Message{Src: src(i), Dst: netip.AddrPortFrom(netip.MustParseAddr("192.0.2.1"), 2055),
				Payload: payload, Received: time.Unix(1, 0).UTC()}
		}
		done := make(chan int, 16)
		var wg sync.WaitGroup
		for i := 0; i < k; i++ {
			wg.Add(1)
			go func(i int) {
				defer wg.Done()
				var m []byte
				if mode == "tmpl" {
					m = ipfixMsg(1, tmplSet(256+i))
				} else {
					s := samplingSets(100 + i)
					m = ipfixMsg(i+1, tmplSet(256), s[0], s[1])
				}
				_ = p.DecodeFlow(mk(i, m))
				done <- i
			}(i)
		}
		finished := 0
		oi := 0
		var waiting []*parkToken
		for finished < k {
			// collect parked workers until the rest has finished or nothing more arrives for a while
			timeout := time.After(150 * time.Millisecond)
		collect:
			for len(waiting)+finished < k {
				select {
				case t := <-parked:
					waiting = append(waiting, t)
				case <-done:
					finished++
				case <-timeout:
					break collect
				}
			}
			if len(waiting) == 0 {
				if finished >= k {
					break
				}
				select {
				case <-done:
					finished++
				case t := <-parked:
					waiting = append(waiting, t)
				case <-time.After(wd(5 * time.Second)):
					return "stuck"
				}
				continue
			}
			idx := 0
			if oi < len(order) {
				idx = order[oi] % len(waiting)
			}
			oi++
			t := waiting[idx]
			waiting = append(waiting[:idx], waiting[idx+1:]...)
			close(t.release)
			// run it to completion before the next release
			select {
			case <-done:
				finished++
			case <-time.After(wd(5 * time.Second)):
				return "stuck"
			}
		}
		wg.Wait()
		// sequential check
		var t toks
		var lost []int
		for i := 0; i < k; i++ {
			rec.reset()
			var err error
			if mode == "tmpl" {
				err = p.DecodeFlow(mk(i, ipfixMsg(1, dataSet(256+i, 7))))
				if err != nil || rec.count() != 1 {
					lost = append(lost, 256+i)
				}
			} else {
				err = p.DecodeFlow(mk(i, ipfixMsg(i+1, dataSet(256, 7))))
				if err != nil || rec.count() != 1 || !rec.hasRate(100+i) {
					lost = append(lost, 100+i)
				}
			}
		}
		t.S("lost")
		t.N(uint64(len(lost)))
		for _, l := range lost {
			t.N(uint64(l))
		}
		return t.String()
	}
}

type lockedRec struct {
	mu   sync.Mutex
	data [][]byte
}

func (l *lockedRec) Send(key, data []byte) error {
	l.mu.Lock()
	l.data = append(l.data, append([]byte(nil), data...))
	l.mu.Unlock()
	return nil
}
func (l *lockedRec) reset()     { l.mu.Lock(); l.data = nil; l.mu.Unlock() }
func (l *lockedRec) count() int { l.mu.Lock(); defer l.mu.Unlock(); return len(l.data) }
func (l *lockedRec) hasRate(r int) bool {
	l.mu.Lock()
	defer l.mu.Unlock()
	for _, d := range l.data {
		var t toks
		showPB(&t, stripDelim(d))
		s := " " + t.String() + " "
		want := " #3 #" + hexOf(r) + " "
		if contains(s, want) {
			return true
		}
	}
	return false
}
func hexOf(v int) string {
	const d = "0123456789abcdef"
	if v == 0 {
		return "0"
	}
	s := ""
	for v > 0 {
		s = string(d[v&15]) + s
		v >>= 4
	}
	return s
}
func contains(s, sub string) bool {
	for i := 0; i+len(sub) <= len(s); i++ {
		if s[i:i+len(sub)] == sub {
			return true
		}
	}
	return false
}
