#!/usr/bin/env python3
"""debug helper: dt.py A B [C] -> first diverging token per differing line (A vs B), input from C"""
import sys
a=open(sys.argv[1]).read().split('\n'); b=open(sys.argv[2]).read().split('\n')
c=open(sys.argv[3]).read().split('\n') if len(sys.argv)>3 else None
n=0
for i,(x,y) in enumerate(zip(a,b)):
    if x!=y and x!='notwf':
        xs=x.split(' '); ys=y.split(' ')
        k=next((j for j,(p,q) in enumerate(zip(xs,ys)) if p!=q), min(len(xs),len(ys)))
        print('line',i,'tok',k,'of',len(xs),len(ys)); print('  A:',' '.join(xs[max(0,k-12):k+6])[:300]); print('  B:',' '.join(ys[max(0,k-12):k+6])[:300])
        if c: print('  IN:',c[i][:200])
        n+=1
        if n>=int(sys.argv[4] if len(sys.argv)>4 else 3): break
