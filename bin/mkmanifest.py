#!/usr/bin/env python3
"""Regenerates MANIFEST.json from the table below (kept in one place so that it stays valid)."""
import json, os
V = os.path.dirname(os.path.dirname(os.path.abspath(__file__)))
TECH = 'machine-checked proof in Coq (hand-written Gallina model) + model/implementation correspondence check'
NOTE = ('Trusted: Coq 8.16.1 kernel, extraction (ExtrOcamlBasic only), OCaml/Go/Python glue; theorems are about the '
        'hand-written model, tied to /repo by the differential run of every check (sampling, exhaustive only where the '
        'evidence says so). No axioms. ')
CLAIMED = {
 'C03': ('5.2', 'Round-trip theorem for every template state and every well-formed abstract v9/IPFIX message over an independent RFC 3954/7011 encoder (sets compositional, 1-/3-byte variable-length prefixes, enterprise fields, padding); model tied to the Go decoder by generated histories and byte-level mutants.', ''),
 'C05': ('5.1', 'Round trip for every header/record list, exactly min(count,k) records for every truncation and count, nothing invented for every byte string, totality; exhaustive truncation x count sweep, generated and mutated datagrams against the Go decoder.', ''),
 'C06': ('5.6', 'Key injectivity, latest-wins (also within a set and for later sets of the same message), other version/domain untouched, exporter isolation for every datagram, not-found behaviour -- proved on the model of the pipe and template store; multi-exporter histories through the real NetFlowPipe compared with the model.', 'Partial: the refinement to a map keyed by (exporter, version, domain, id) is proved as its ingredients, not as a single theorem over all histories. '),
 'C07': ('5.7', 'One message per data record for every decoded packet, records*min-size <= set bytes for every byte string and template (none invented), v5 count bounded by the bytes present; per-datagram Send counts and order through the real pipe compared with the model, plus an implementation-only bound oracle.', 'Partial: sFlow sample counts are covered with C04/C09 when built. '),
 'C11': ('5.11', 'For every decoded packet and sampling state: each message carries the rate announced in the same packet, else the stored rate of (address, version, domain), else 0; the store afterwards changes only that key; v5 carries its own 14-bit interval; histories with several ports per IP through the real producer compared with the model.', ''),

 'C04': ('5.3', 'Unknown records are skipped by their declared length without disturbing what follows (every format/body/continuation) and XDR strings are consumed with their padding -- proved; the datagram round trip over an independent XDR encoder is evaluated in Coq on generated datagrams (c04_roundtrip_partial) and checked against the Go decoder on every run, with byte-level mutants.', 'Partial: decode(encode S) = S is not proved for all S; it rests on the correspondence run. '),
 'C09': ('5.9', 'One message per flow/expanded-flow sample, other header protocols only set bytes, gateway AS rules -- proved on the model of the sFlow producer; datagrams mixing all record kinds in random order, raw headers that are (cut) captures of model frames, through the real SFlowPipe compared with the model on every column.', 'Partial: the reference mapping is the model itself (no separate per-column reference). '),
 'C10': ('5.10', 'Inner (tunnelled) headers never change an outer column for any byte string, and no parser can panic -- proved; complete captures of layered model frames equal an independent reference; EVERY capture length compared with the model and judged by the property quantifier; exhaustive ethertype/protocol dispatch sweeps.', 'Partial: parse(encode f) = ref f is not proved for all frames (evaluated in Coq on generated frames, compared on every run). '),

 'C08': ('5.8', 'Integers of every width 1..8 read at full value, each documented plain-integer element fills its documented column, v9/IPFIX clock rules with 2^64 wrap, every v5 column, enrichment and unmapping -- proved on the model; tied to the Go producer by an exhaustive sweep of element id 0..511 x width 0..9 x version and random multi-field records through the real pipe.', 'Partial: the reference mapping is the model (table theorems about it), not an independent per-column reference. '),
 'C13': ('5.13', 'Varint length prefix round trip, unambiguous splitting of any concatenated stream, well-formedness of the JSON object for any rendered values and any (ASCII) string bytes -- proved; the real bin output is compared byte for byte with the model encoder, encoding/json with the model escape (all single bytes exhaustively), and json.Valid / key order / protodelim stream / cross-format agreement are judged on the implementation under generated formatter configurations.', 'Partial: renderers and non-ASCII escaping are judged on the implementation only (json.Valid), protobuf-go and encoding/json are trusted. '),

 'C14': ('5.14', 'Custom destinations append exactly one unknown field with the configured number/wire type/value, existing columns are filled, unmatched traffic is unaffected, bit extraction equals the bit-level specification on a finite domain enumerated inside Coq, the key depends only on the key fields -- proved on the model; generated mapping files loaded by the real YAML loader and run over mixed traffic compared with the model compiled from the same abstract configuration; GetBytes swept on both sides.', 'Partial: get_bytes = bit spec is proved on a finite domain (buffers <= 2 bytes over a byte basis, offsets/lengths 0..17) and swept, not proved for all buffers; formatter.fields/rename/render are judged on the implementation. '),

 'C12': ('5.12', 'The converted message is independent of what the pool hands back and equals the conversion from an empty message; outputs depend on the pipe state only through the exporter own view; every prefix history of other source addresses leaves the outputs unchanged -- proved on the model; the real pool is poisoned through a verif hook and compared with the model, and probe histories after prefixes (valid, damaged, custom fields, poisoned, concurrent goroutines) are compared byte for byte (bin, JSON, text) with a fresh process.', 'Partial: sync.Pool and the generated FlowMessage.Reset are modelled (Reset clears all columns and unknown fields); the concurrent variant is observed, not proved. '),

 'C01': ('5.4', 'For every compiled mapping, every pipe state, every exporter and every byte string the three pipes, the exported decoders and the dissector return a value or an error: no panic, no fuel exhaustion with fuel linear in the datagram -- proved (progress lemma per loop, potential function for the dissector, bit-range safety of GetBytes); every compiled mapping file satisfies the hypothesis; hostile histories through all pipes, generated mapping files, mapping.yaml and the exported entry points with a nil configuration under a watchdog, compared with the model.', 'Partial: wall-clock is observed by the watchdog; the theorem bounds loop iterations. Third-party code (protobuf-go, encoding/json) is outside the model. '),
 'C02': ('5.5', 'Slot counts pre-sized from attacker-controlled counts are capped and every decoded element is physically present: sFlow slots <= 1000 + 1000*(len/20) for every byte string, data-set records * min-size <= set bytes, v5 slots <= 16-bit count -- proved (ghost quantity); measured: every aligned 16/32-bit word of structured datagrams replaced by each of the 7 hostile values, TotalAlloc per datagram <= 16 MiB + 256*len*(1+W) in a child with an address-space limit.', 'Partial: the theorems bound the ghost slot/record counts for successful decodes; real bytes (GC, allocator, failing decodes) are measured, not modelled. '),

 'C16': ('5.16', 'For any number of workers and any interleaving of their lookup / create-publish / add steps the repaired protocol keeps every announced template and rate visible (inductive invariant over all schedules); the pinned protocol is refuted by an explicit 6-step schedule; on the implementation every release order of 2..3 workers parked inside the public factory callbacks is forced, for the template map and the sampling map, followed by sequential data sets.', 'Partial: interleavings are forced at the factory callbacks only; atomicity of the individual steps is assumed (single critical sections). '),

 'C19': ('5.19', 'For any number of senders and any schedule of their pick/write steps and of rotations the repaired protocol never writes to a closed file and keeps every completed message (inductive invariant over all schedules); at most one unit per step; the pinned protocol is refuted by a 3-step schedule; on the implementation a rotation is forced exactly between picking the writer and writing (verif schedule point) and free-running senders with SIGHUP rotations are checked for loss, duplication and garbling with three separators.', 'Partial: atomicity of one O_APPEND write(2) is an OS assumption exercised by the free-running runs. '),
}
props = [json.loads(l) for l in open(os.path.join(V, 'properties.jsonl'))]
checks, na = [], []
for p in props:
    pid = p['id']
    if pid in CLAIMED:
        ref, text, extra = CLAIMED[pid]
        checks.append(dict(property_id=pid, quick_cmd='bin/check %s --tier quick' % pid,
                           thorough_cmd='bin/check %s --tier thorough' % pid,
                           evidence_file='/verif/evidence/%s.json' % pid,
                           replay_cmd_template='bin/check %s --replay {path}' % pid, engine='coq-correspondence',
                           level_claimed=dict(category='proof', text=text, design_ref=ref),
                           level_note=NOTE + extra, technique=TECH))
    else:
        na.append(dict(property_id=pid, reason='check not built yet in this session (model and theorems planned in DESIGN.md section 5); not claimed until it runs'))
m = dict(version=1, setup_cmd='bin/setup',
         hooks=dict(guard='verif', enable='go build -tags verif (harness/ imports /repo through a replace directive)',
                    baseline_off_cmd='cd /repo && go test -vet=off -count=1 ./...', source_commits=['a21f449', '2d0a23d', '5ab19ab'], add_only=True),
         engines=[dict(name='coq-correspondence', path='bin/check', serves_properties=[c['property_id'] for c in checks],
                       kind_free_text='Coq 8.16.1 proofs over a hand-written Gallina model; extracted OCaml model compared with the Go implementation built from /repo on every run')],
         checks=checks, notes='see DESIGN.md', not_applicable=na)
json.dump(m, open(os.path.join(V, 'MANIFEST.json'), 'w'), indent=1)
print('claimed', len(checks), 'not claimed', len(na))
