"""Shared machinery of the pipe-level properties (C06, C07, C11, C12, C01): histories of datagrams
from several exporters through the real pipes vs the model's pipe machine (Model/Pipe.v)."""
import random, re
from engine import *


def split_steps(line):
    return [s.strip() for s in line.split('|')][:-1] if '|' in line else [line]


def step_msgs(step):
    """'ok #2 m #1 #3 ... m ...' -> (outcome, count, [ {num: [values]} ... ])"""
    f = step.split(' ')
    if len(f) < 2:
        return (f[0] if f else '', '', [])
    msgs = []
    cur = None
    toks = f[2:]
    i = 0
    while i < len(toks):
        if toks[i] == 'm':
            cur = []
            msgs.append(cur)
            i += 1
        else:
            if cur is not None and i + 1 < len(toks):
                cur.append((toks[i], toks[i + 1]))
            i += 2
    return (f[0], f[1], msgs)


def project_cols(line, keep=None, drop=None):
    """keep only / drop the given protobuf field numbers (as '#hex' strings) in every message"""
    out = []
    for st in split_steps(line):
        o, c, msgs = step_msgs(st)
        ms = []
        for m in msgs:
            ms.append('m ' + ' '.join(a + ' ' + b for a, b in m
                                      if (keep is None or a in keep) and (drop is None or a not in drop)))
        out.append(' '.join([o, c] + ms))
    return ' | '.join(out)


def mutate_hist(rng, line, n):
    """mutants of a 'pipe <kind> <cfg> (=addr #port #tr =payload)*' line"""
    f = line.split(' ')
    head, body = f[:3], f[3:]
    quads = [body[i:i + 4] for i in range(0, len(body) - 3, 4)]
    out = []
    for _ in range(n):
        q = [list(x) for x in quads]
        c = rng.randrange(10)
        if c < 6 and q:
            k = rng.randrange(len(q))
            q[k][3] = '=' + mutate_bytes(rng, bytes.fromhex(q[k][3][1:]), 1)[0].hex()
        elif c == 6 and len(q) > 1:
            del q[rng.randrange(len(q))]
        elif c == 7 and len(q) > 1:
            i, j = rng.sample(range(len(q)), 2)
            q[i], q[j] = q[j], q[i]
        elif c == 8 and q:
            # same datagram from another exporter
            k = rng.randrange(len(q))
            src = q[rng.randrange(len(q))]
            q.insert(k, [src[0], src[1], q[k][2], q[k][3]])
        elif q:
            k = rng.randrange(len(q))
            q.insert(k, list(q[k]))
        out.append(' '.join(head + [t for x in q for t in x]))
    return out


def run_pipe_property(chk, me, streams, n_mut, matchers=None, oracle=None, extra=None):
    matchers = matchers or {}
    std_prepare(chk)
    run_streams(chk, me, streams, matchers)
    rng = random.Random(chk.seed * 31 + 11)
    nm = n_mut[chk.tier]
    base = model_gen(me.GEN, streams[0]['stream'], chk.seed + 1, 0, max(20, nm // 10))
    muts = []
    for a, _ in base:
        muts.extend(mutate_hist(rng, a, 10))
    bad = run_scope_b(chk, me, muts[:nm], 'mutants', matchers, timeout=60.0)
    resolve_scope_b(chk, me, bad, 'mutants', matchers, oracle, streams)
    assembled_part(chk, me, streams, matchers)
    if extra:
        extra(chk)
    return chk.finish(me)


def fmt_tokens(fields, rename, render, keys=None):
    """the formatter section of a mapping file as model tokens (Drivers/D14.v parse_fmt); goes before the 'cfg' tokens"""
    t = ['fmt']
    for f in fields or []:
        t += ['field', str(f)]
    for a, b in (rename or {}).items():
        if str(b) == '':
            continue
        if re.fullmatch(r'[A-Za-z0-9_.-]+', str(b)):
            t += ['rename', str(a), str(b)]
        else:
            t += ['renameb', str(a), '=' + str(b).encode().hex()]      # any characters
    for a, b in (render or {}).items():
        t += ['render', str(a), str(b)]
    for k in keys or []:
        t += ['key', str(k)]
    return t


def mask_oom(impl, model):
    """where the model says a JSON / text form is outside its domain (token 'oom': timestamps beyond year 9999 ...)
    the implementation's bytes are not compared; everything else is"""
    if ' oom' not in model:
        return impl
    a, b = impl.split(' '), model.split(' ')
    if len(a) != len(b):
        return impl
    return ' '.join('oom' if y == 'oom' else x for x, y in zip(a, b))


def doc_column_part(chk, which):
    """The NetFlow v5 ('v5') or sFlow ('sf') column of the field table of docs/protocols.md: theorem
    c08_doc_v5_column_implemented / c09_doc_sflow_column_implemented says every cell holds of the MODEL on a fixed set of
    probe datagrams; here (1) the rows the model does not satisfy are listed by name, so a broken theorem comes with the
    documentation row as its replay, and (2) the very probe datagrams are sent through the real pipe and compared with the
    model on every column, which carries the theorem's verdict over to the implementation."""
    fails = [t for t in model_run('C08T', ['v5doc' if which == 'v5' else 'sfdoc'])[0].split(' ') if t not in ('end', '')]
    unknown = [t for t in model_run('C08T', ['v5unknown' if which == 'v5' else 'sfunknown'])[0].split(' ') if t not in ('end', '')]
    for n in unknown:
        # a cell worded in a way the check does not know: the documentation theorem no longer checks, but nothing says
        # the mapping is wrong
        chk.record('doc-' + which, dict(concrete=False, input='docs/protocols.md row %s, %s cell' % (n, 'NetFlow v5' if which == 'v5' else 'sFlow'),
                   what='the documentation cell is worded in a way Spec/DocCheck2.v does not know: theorem c0%s_doc_%s_column_implemented no longer checks'
                        % (('8', 'v5') if which == 'v5' else ('9', 'sflow'))), {})
    for n in [x for x in fails if x not in unknown]:
        chk.record('doc-' + which, dict(concrete=True, input='docs/protocols.md row %s, %s cell' % (n, 'NetFlow v5' if which == 'v5' else 'sFlow'),
                   impl='(the producer model, compared with the implementation on the same probes below)',
                   what='the documentation table says where this column comes from and the producer does not fill it from there'), {})
    if which == 'v5':
        if model_run('C08T', ['v5layout'])[0] != 'ok':
            chk.record('doc-v5', dict(concrete=False, what='the widths of the Go structs PacketNetFlowV5 / RecordsNetFlowV5 are not the widths the model decodes with'), {})
        probes = ['pipe netflow none =0a000001 #7d0 #17979cfe362a0000 ' + model_run('C08T', ['v5probe'])[0]]
    else:
        ks = [0, 1, 2, 3, 10, 11, 12, 13, 14]
        pr = model_run('C08T', ['sfprobe #%x' % k for k in ks])
        probes = ['pipe sflow none =0a000009 #18c7 #17979cfe362a0000 ' + b for b in pr]
    impl = impl_run(chk.harness, probes, timeout=60.0)
    mod = model_run('C06', probes)
    chk.evals += len(probes)
    chk.count('documentation probes (%s)' % which, len(probes))
    for a, o, m in zip(probes, impl, mod):
        if ' m ' in (' ' + m + ' '):
            chk.nontrivial.add(hashlib.sha1(a.encode()).digest()[:8])
        if o != m:
            chk.record('scopeA-docprobe', dict(concrete=True, input=a, impl=o[:3000], expected=m[:3000],
                       what='a probe datagram of the documentation-table theorem is not converted as the model converts it'), {})
    chk.exhaustive.append('every row of the %s column of docs/protocols.md (theorem, kernel evaluation); %d probe datagrams through the real pipe'
                          % ('NetFlow v5' if which == 'v5' else 'sFlow', len(probes)))


def assembled_part(chk, me, streams, matchers):
    """The same generated histories through the pipe AS cmd/goflow2 ASSEMBLES IT (harness handler pipeasm): producer
    behind debug.WrapPanicProducer and metrics.WrapPromProducer, metrics.NewDefaultPromTemplateSystem as the pipe's
    templater, DecodeFlow behind debug.PanicDecoderWrapper and metrics.PromDecoderWrapper.  Expected: the specification
    outputs of the generator, as for the bare pipe."""
    st = streams[0]
    n = max(30, st['n'][chk.tier] // 3)
    cases = model_gen(me.GEN, st['stream'], chk.seed + 3, 0, n)
    ins = [c[0].replace('pipe ', 'pipeasm ', 1) for c in cases if c[0].startswith('pipe ')]
    exp = [c[1] for c in cases if c[0].startswith('pipe ')]
    if not ins:
        return
    impl = impl_run(chk.harness, ins, timeout=st.get('timeout', 60.0))
    chk.evals += len(ins)
    chk.count('assembled pipe (Prometheus / panic wrappers, Prometheus template system)', len(ins))
    pj = getattr(me, 'project', lambda x: x)
    for a, o, e in zip(ins, impl, exp):
        if me.nontrivial(a, e):
            chk.nontrivial.add(hashlib.sha1(a.encode()).digest()[:8])
        if pj(o) != pj(e):
            chk.record('scopeA-assembled', dict(concrete=True, input=a[:60000], impl=pj(o)[:3000], expected=pj(e)[:3000],
                       what='the pipe as cmd/goflow2 assembles it (metrics and panic wrappers) differs from the specification on a property-domain input'),
                       matchers)
