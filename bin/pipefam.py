"""Shared machinery of the pipe-level properties (C06, C07, C11, C12, C01): histories of datagrams
from several exporters through the real pipes vs the model's pipe machine (Model/Pipe.v)."""
import random
from engine import *


def split_steps(line):
    return [s.strip() for s in line.split('|')][:-1] if '|' in line else [line]


def step_msgs(step):
    """'ok #2 m #1 #3 ... m ...' -> (outcome, count, [ {num: [values]} ... ])"""
    f = step.split(' ')
    if len(f) < 2:
        return (f[0] if f else '', '', [])
    msgs = []
    cur = None
    toks = f[2:]
    i = 0
    while i < len(toks):
        if toks[i] == 'm':
            cur = []
            msgs.append(cur)
            i += 1
        else:
            if cur is not None and i + 1 < len(toks):
                cur.append((toks[i], toks[i + 1]))
            i += 2
    return (f[0], f[1], msgs)


def project_cols(line, keep=None, drop=None):
    """keep only / drop the given protobuf field numbers (as '#hex' strings) in every message"""
    out = []
    for st in split_steps(line):
        o, c, msgs = step_msgs(st)
        ms = []
        for m in msgs:
            ms.append('m ' + ' '.join(a + ' ' + b for a, b in m
                                      if (keep is None or a in keep) and (drop is None or a not in drop)))
        out.append(' '.join([o, c] + ms))
    return ' | '.join(out)


def mutate_hist(rng, line, n):
    """mutants of a 'pipe <kind> <cfg> (=addr #port #tr =payload)*' line"""
    f = line.split(' ')
    head, body = f[:3], f[3:]
    quads = [body[i:i + 4] for i in range(0, len(body) - 3, 4)]
    out = []
    for _ in range(n):
        q = [list(x) for x in quads]
        c = rng.randrange(10)
        if c < 6 and q:
            k = rng.randrange(len(q))
            q[k][3] = '=' + mutate_bytes(rng, bytes.fromhex(q[k][3][1:]), 1)[0].hex()
        elif c == 6 and len(q) > 1:
            del q[rng.randrange(len(q))]
        elif c == 7 and len(q) > 1:
            i, j = rng.sample(range(len(q)), 2)
            q[i], q[j] = q[j], q[i]
        elif c == 8 and q:
            # same datagram from another exporter
            k = rng.randrange(len(q))
            src = q[rng.randrange(len(q))]
            q.insert(k, [src[0], src[1], q[k][2], q[k][3]])
        elif q:
            k = rng.randrange(len(q))
            q.insert(k, list(q[k]))
        out.append(' '.join(head + [t for x in q for t in x]))
    return out


def run_pipe_property(chk, me, streams, n_mut, matchers=None, oracle=None, extra=None):
    matchers = matchers or {}
    std_prepare(chk)
    run_streams(chk, me, streams, matchers)
    rng = random.Random(chk.seed * 31 + 11)
    nm = n_mut[chk.tier]
    base = model_gen(me.GEN, streams[0]['stream'], chk.seed + 1, 0, max(20, nm // 10))
    muts = []
    for a, _ in base:
        muts.extend(mutate_hist(rng, a, 10))
    bad = run_scope_b(chk, me, muts[:nm], 'mutants', matchers, timeout=60.0)
    resolve_scope_b(chk, me, bad, 'mutants', matchers, oracle, streams)
    if extra:
        extra(chk)
    return chk.finish(me)


def fmt_tokens(fields, rename, render, keys=None):
    """the formatter section of a mapping file as model tokens (Drivers/D14.v parse_fmt); goes before the 'cfg' tokens"""
    t = ['fmt']
    for f in fields or []:
        t += ['field', str(f)]
    for a, b in (rename or {}).items():
        if str(b) != '':
            t += ['rename', str(a), str(b)]
    for a, b in (render or {}).items():
        t += ['render', str(a), str(b)]
    for k in keys or []:
        t += ['key', str(k)]
    return t


def mask_oom(impl, model):
    """where the model says a JSON / text form is outside its domain (token 'oom': timestamps beyond year 9999 ...)
    the implementation's bytes are not compared; everything else is"""
    if ' oom' not in model:
        return impl
    a, b = impl.split(' '), model.split(' ')
    if len(a) != len(b):
        return impl
    return ' '.join('oom' if y == 'oom' else x for x, y in zip(a, b))
