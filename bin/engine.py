"""Generic engine of the correspondence check (see DESIGN.md section 4).

A property module (bin/props/cXX.py) describes
  * which Coq property file carries its theorems,
  * its generator streams (scope A: expected observation comes from the specification),
  * its mutators / sweeps (scope B: implementation compared with the model),
  * how to count non-trivial cases and how known findings are recognised.
The engine builds everything from the current trees, runs both sides, diffs, searches,
shrinks, writes the replay and the evidence, and prints the VIOLATION / KNOWN-FINDING lines.
"""
import hashlib, json, os, random, re, resource, subprocess, sys, time
from concurrent.futures import ThreadPoolExecutor

os.makedirs('/root/scratch', exist_ok=True)   # scratch for harness temp files and coverage data (outside /repo and /verif)

VERIF = os.path.dirname(os.path.dirname(os.path.abspath(__file__)))
COQ = os.path.join(VERIF, 'coq')
OCAML = os.path.join(VERIF, 'ocaml')
HARN = os.path.join(VERIF, 'harness')
REPO = os.environ.get('GF_REPO', '/repo')   # the tree under test (snapshots of it for background seed runs)
GFMODEL = os.path.join(OCAML, 'gfmodel')
GOENV = dict(os.environ, GF_REPO=os.environ.get('GF_REPO', '/repo'), GOFLAGS='-mod=mod', GOPROXY='off', GOSUMDB='off', GOTOOLCHAIN='local',
             CGO_ENABLED=os.environ.get('CGO_ENABLED', '1'))
NPROC = min(16, os.cpu_count() or 4)


def sh(cmd, cwd=None, timeout=1800, env=None, check=True):
    p = subprocess.run(cmd, shell=True, cwd=cwd, timeout=timeout, env=env,
                       stdout=subprocess.PIPE, stderr=subprocess.STDOUT, text=True)
    if check and p.returncode != 0:
        raise RuntimeError('command failed (%d): %s\n%s' % (p.returncode, cmd, p.stdout[-4000:]))
    return p


# ----------------------------------------------------------------------------- builds

def newest_mtime(root, exts):
    m = 0
    for d, _, fs in os.walk(root):
        for f in fs:
            if f.endswith(exts):
                m = max(m, os.path.getmtime(os.path.join(d, f)))
    return m


TRANSLATOR_ERRORS = []   # (translator, properties whose theorems use its output, message) of this run


def build_coq():
    """full .vo build (no-op when current). Returns (ok, log)."""
    if not os.path.exists(os.path.join(COQ, 'Makefile')):
        sh('coq_makefile -f _CoqProject -o Makefile', cwd=COQ)
    # translator: the documentation table of the repository under check -> Spec/DocTable.v (C08)
    del TRANSLATOR_ERRORS[:]
    t = sh('python3 %s %s %s' % (os.path.join(VERIF, 'bin', 'gen_doctable.py'), REPO, os.path.join(COQ, 'Spec', 'DocTable.v')), check=False)
    if t.returncode != 0:
        TRANSLATOR_ERRORS.append(('gen_doctable.py', ('C03', 'C04', 'C05', 'C08', 'C09'), t.stdout[-400:]))
    # translator: the renderers' name tables (render.go, flow.pb.go) -> Spec/RenderTables.v (C13)
    t = sh('python3 %s %s %s' % (os.path.join(VERIF, 'bin', 'gen_rendertables.py'), REPO, os.path.join(COQ, 'Spec', 'RenderTables.v')), check=False)
    if t.returncode != 0:
        TRANSLATOR_ERRORS.append(('gen_rendertables.py', ('C13', 'C14'), t.stdout[-400:]))
    p = sh('timeout 3000 make -j%d' % NPROC, cwd=COQ, timeout=3100, check=False)
    return p.returncode == 0, p.stdout


def build_model():
    if (not os.path.exists(GFMODEL)) or \
       os.path.getmtime(GFMODEL) < max(newest_mtime(COQ, ('.v',)), newest_mtime(OCAML, ('main.ml', 'registry.ml'))):
        sh('./build.sh', cwd=OCAML, timeout=900)


def build_harness(race=False):
    """always rebuilt from /repo's current working tree (go's cache makes it cheap)."""
    out = os.path.join(HARN, 'gfharness-race' if race else 'gfharness')
    gosum = os.path.join(HARN, 'go.sum')
    sh('cp %s/go.sum %s' % (REPO, gosum))
    gomod = open(os.path.join(HARN, 'go.mod.in')).read().replace('@REPO@', REPO)
    if not os.path.exists(os.path.join(HARN, 'go.mod')) or open(os.path.join(HARN, 'go.mod')).read() != gomod:
        open(os.path.join(HARN, 'go.mod'), 'w').write(gomod)
    tmp = '%s.%d.tmp' % (out, os.getpid())
    p = sh('go build -tags verif %s -o %s .' % ('-race' if race else '', tmp), cwd=HARN, env=GOENV,
           timeout=900, check=False)
    if p.returncode != 0:
        raise RuntimeError('harness build failed against /repo working tree:\n' + p.stdout[-3000:])
    os.replace(tmp, out)     # a harness another check is still running keeps its file
    return out


# ----------------------------------------------------------------------------- Coq property file

def check_property_file(pid):
    """Re-compile Properties/<pid>.v and read theorem names and Print Assumptions output.
    Returns dict(obligations, discharged, theorems, axioms, ok, log, cmd)."""
    rel = 'Properties/%s.v' % pid
    cmd = 'coqc -Q . GF %s' % rel
    src = open(os.path.join(COQ, rel)).read()
    theorems = re.findall(r'^\s*(?:Theorem|Example)\s+(\w+)', src, re.M)
    p = sh('timeout 900 ' + cmd, cwd=COQ, timeout=1000, check=False)
    ok = p.returncode == 0
    closed = len(re.findall(r'Closed under the global context', p.stdout))
    axioms = []
    for m in re.finditer(r'Axioms:\n((?:.+\n)+)', p.stdout):
        axioms.append(m.group(1).strip())
    printed = len(re.findall(r'^\s*Print Assumptions', src, re.M))
    bad = re.findall(r'\b(Admitted|admit|Axiom|Parameter|Conjecture)\b', src)
    if ok and (axioms or closed != printed):
        # a theorem that depends on an axiom is not accepted: the trusted base (DESIGN.md 7) names none
        ok = False
    return dict(ok=ok and not bad, obligations=len(theorems), discharged=len(theorems) if ok and not bad else 0,
                theorems=theorems, closed=closed, printed=printed, axioms=axioms, log=p.stdout[-3000:],
                cmd='make -C coq -j%d && (cd coq && %s)' % (NPROC, cmd))


def scan_forbidden():
    """no Admitted/admit/Axiom/... anywhere in the development"""
    p = sh(r"grep -rnE '\b(Admitted|admit|Axiom|Parameter|Conjecture|Unset Guard|Unset Positivity|Unset Universe|bypass_check|Admit Obligations|type-in-type|impredicative-set)\b' "
           r"--include='*.v' --include='_CoqProject' . || true", cwd=COQ)
    return [l for l in p.stdout.splitlines() if l.strip()]


# ----------------------------------------------------------------------------- running both sides

def _limit():
    try:
        resource.setrlimit(resource.RLIMIT_AS, (12 << 30, 12 << 30))
    except Exception:
        pass


MAX_STALLS_PER_CALL = 2
CRASH_LOG = {}   # input line -> tail of the stderr of the process that died on it


def run_lines(cmd, lines, timeout=60.0, limit_mem=True, env=None):
    """Feed `lines` to a line-oriented process; return one output per line.
    A line on which the process dies or stalls gets 'crash' / 'hang'; processing resumes after it."""
    outs = []
    i = 0
    stalls = 0
    while i < len(lines):
        if stalls >= MAX_STALLS_PER_CALL:
            # a stalled line costs the whole watchdog; after a few of them in one call the rest is not run
            # (the stalls themselves are reported; 'skipped' lines are not compared)
            outs.extend(['skipped'] * (len(lines) - i))
            break
        chunk = lines[i:]
        data = ('\n'.join(chunk) + '\n').encode()
        try:
            p = subprocess.run(cmd, input=data, stdout=subprocess.PIPE, stderr=subprocess.PIPE,
                               timeout=timeout, preexec_fn=_limit if limit_mem else None, env=env)
            got = p.stdout.decode(errors='replace').split('\n')
            if got and got[-1] == '':
                got.pop()
            status = 'crash'
        except subprocess.TimeoutExpired as e:
            got = (e.stdout or b'').decode(errors='replace').split('\n')
            if got and not (e.stdout or b'').endswith(b'\n'):
                got.pop()
            elif got and got[-1] == '':
                got.pop()
            status = 'hang'
        got = got[:len(chunk)]
        outs.extend(got)
        i += len(got)
        if len(got) < len(chunk):
            if status == 'crash':
                CRASH_LOG[chunk[len(got)]] = 'exit status %s; stderr: %s' % (p.returncode, p.stderr.decode(errors='replace')[-3000:])
            outs.append(status)
            i += 1
            if status == 'hang':
                stalls += 1
    return outs


def run_sharded(cmd, lines, shards=NPROC, **kw):
    if len(lines) < 64:
        return run_lines(cmd, lines, **kw)
    k = (len(lines) + shards - 1) // shards
    parts = [lines[j:j + k] for j in range(0, len(lines), k)]
    with ThreadPoolExecutor(max_workers=shards) as ex:
        res = list(ex.map(lambda part: run_lines(cmd, part, **kw), parts))
    return [x for r in res for x in r]


def model_gen(pid, stream, seed, start, n):
    """-> list of (input_line, expected_line)"""
    if n <= 0:
        return []
    shards = NPROC if n >= 64 else 1
    k = (n + shards - 1) // shards
    jobs = [(start + j, min(k, n - j)) for j in range(0, n, k)]

    def one(job):
        p = subprocess.run([GFMODEL, 'gen', pid, str(stream), str(seed), str(job[0]), str(job[1])],
                           stdout=subprocess.PIPE, stderr=subprocess.PIPE, timeout=3000)
        if p.returncode != 0:
            raise RuntimeError('gfmodel gen failed: ' + p.stderr.decode()[-2000:])
        return [tuple(l.split('\t')) for l in p.stdout.decode().split('\n') if l]
    with ThreadPoolExecutor(max_workers=shards) as ex:
        res = list(ex.map(one, jobs))
    out = [x for r in res for x in r]
    _xc_note_gen(pid, stream, seed, start, out)
    return out


def model_run(pid, lines, timeout=600.0):
    out = run_sharded([GFMODEL, 'run', pid], lines, timeout=timeout, limit_mem=False)
    _xc_note_run(pid, lines, out)
    return out


# ---- extraction cross-check -------------------------------------------------------------------
# The model that is run against the implementation is the OCaml program extracted from the Gallina
# definitions, with hand-written glue (ocaml/main.ml) that parses and prints tokens.  A sample of the
# very (input, output) pairs the extracted program produced in this run -- and of the (index, input,
# expected) triples of the extracted generators -- is re-evaluated INSIDE Coq by vm_compute on the
# Gallina definitions the theorems are about; any difference means extraction or glue is unfaithful.
XC_RUN = {}             # registry name -> [(input line, output line)]
XC_GEN = {}             # (registry name, stream, seed) -> [(index, input line, expected line)]
XC_CASE_MAX = 5000      # characters per case (literals of this size parse quickly)
XC_KEEP = dict(quick=24, thorough=160)


def _xc_note_run(pid, lines, outs):
    cur = XC_RUN.setdefault(pid, [])
    rng = random.Random(len(cur) * 7919 + len(lines))
    cand = [(l, o) for l, o in zip(lines, outs) if len(l) + len(o) < XC_CASE_MAX and o != 'hang' and '\t' not in l]
    rng.shuffle(cand)
    cur.extend(cand[:40])
    del cur[400:]


def _xc_note_gen(pid, stream, seed, start, cases):
    cur = XC_GEN.setdefault((pid, stream, seed), [])
    for j, c in enumerate(cases):
        if len(c) == 2 and len(c[0]) + len(c[1]) < XC_CASE_MAX and len(cur) < 60:
            cur.append((start + j, c[0], c[1]))


def _registry():
    txt = open(os.path.join(VERIF, 'ocaml', 'registry.ml')).read()
    g = re.search(r'let gens = \[(.*?)\]', txt, re.S).group(1)
    r = re.search(r'let runs = \[(.*?)\]', txt, re.S).group(1)
    pair = re.compile(r'\("(\w+)",\s*(\w+)\)')
    return dict(pair.findall(g)), dict(pair.findall(r))


def _coq_tok(t):
    if t.startswith('#'):
        return 'TN %d' % int(t[1:], 16)
    if t.startswith('='):
        b = bytes.fromhex(t[1:])
        return 'TB [%s]' % ';'.join(str(x) for x in b)
    return 'TS "%s"' % t.replace('"', '""')


def _coq_toks(line):
    return '[' + '; '.join(_coq_tok(t) for t in line.split(' ') if t != '') + ']'


def xcheck_extraction(tier):
    """-> dict(run_cases, gen_cases, mismatches=[...], log) ; evaluates inside Coq"""
    gens, runs = _registry()
    keep = XC_KEEP[tier]
    body = ['From Coq Require Import String NArith List Bool.',
            'From GF Require Import Base.Res Extract.Extract.' if False else 'From GF Require Import Base.Res.',
            'From GF Require Import ' + ' '.join('Drivers.' + os.path.basename(f)[:-2] for f in
                                                 sorted(os.listdir(os.path.join(VERIF, 'coq', 'Drivers'))) if f.endswith('.v')) + '.',
            'Import ListNotations.', 'Open Scope N_scope.', 'Open Scope string_scope.',
            'Definition bad_run (f : list tok -> list tok) (cs : list (N * list tok * list tok)) : list N :=',
            '  flat_map (fun c => let \'(i, a, b) := c in if toks_eqb (f a) b then [] else [i]) cs.',
            'Definition bad_gen (g : N -> N -> N -> list tok * list tok) (st sd : N) (cs : list (N * list tok * list tok)) : list N :=',
            '  flat_map (fun c => let \'(i, a, b) := c in let r := g st sd i in',
            '                     if toks_eqb (fst r) a && toks_eqb (snd r) b then [] else [i]) cs.']
    names, nrun, ngen = [], 0, 0
    for k, (pid, cs) in enumerate(sorted(XC_RUN.items())):
        if pid not in runs or not cs:
            continue
        cs = cs[:keep]
        nrun += len(cs)
        lit = ';\n  '.join('(%d, %s, %s)' % (i, _coq_toks(a), _coq_toks(b)) for i, (a, b) in enumerate(cs))
        body.append('Definition XR%d := Eval vm_compute in bad_run %s [\n  %s].' % (k, runs[pid], lit))
        body.append('Print XR%d.' % k)
        names.append(('XR%d' % k, 'run ' + pid, cs))
    for k, ((pid, stream, seed), cs) in enumerate(sorted(XC_GEN.items())):
        if pid not in gens or not cs:
            continue
        cs = cs[:max(6, keep // 4)]
        ngen += len(cs)
        lit = ';\n  '.join('(%d, %s, %s)' % (i, _coq_toks(a), _coq_toks(b)) for i, a, b in cs)
        body.append('Definition XG%d := Eval vm_compute in bad_gen %s %d %d [\n  %s].' % (k, gens[pid], stream, seed, lit))
        body.append('Print XG%d.' % k)
        names.append(('XG%d' % k, 'gen %s stream %d seed %d' % (pid, stream, seed), cs))
    if not names:
        return dict(run_cases=0, gen_cases=0, mismatches=[], log='nothing to check')
    import tempfile, shutil
    d = tempfile.mkdtemp(prefix='xcheck', dir='/root/scratch')
    try:
        open(os.path.join(d, 'XCheck.v'), 'w').write('\n'.join(body) + '\n')
        p = sh('timeout 900 coqc -Q %s GF XCheck.v' % os.path.join(VERIF, 'coq'), cwd=d, timeout=1000, check=False)
        out = p.stdout
        mism = []
        if p.returncode != 0:
            mism.append(dict(what='the cross-check file did not compile', log=out[-1500:]))
        else:
            for nm, what, cs in names:
                m = re.search(r'\b%s\s*=\s*(\[[^\]]*\])' % nm, out)
                if not m:
                    mism.append(dict(what='no result printed for ' + what))
                elif m.group(1).strip() != '[]':
                    idx = [int(x) for x in re.findall(r'\d+', m.group(1))]
                    ex = [c for j, c in enumerate(cs) if (c[0] if len(c) == 3 else j) in idx][:3]
                    mism.append(dict(what='extracted program and kernel evaluation differ: ' + what, cases=[list(c) for c in ex]))
        return dict(run_cases=nrun, gen_cases=ngen, mismatches=mism,
                    how='Eval vm_compute of the Gallina entry points on the inputs the extracted program was run on in this run, compared with its outputs by toks_eqb')
    finally:
        shutil.rmtree(d, ignore_errors=True)


COV_LINES = []          # sample of the input lines sent to the implementation by this run (for the coverage measurement)
COV_MAX = 4000


TIMING_TOKENS = ('HANG', 'hang', 'NODECODE', 'nopark', 'stuck', 'stophang', 'stopHANG', 'closeHANG')
RETRIED = []            # (line, first verdict, verdict of the isolated re-run)


def _timing(out):
    return out == 'hang' or any(t in out.split(' ') for t in TIMING_TOKENS)


def impl_run(harness, lines, timeout=20.0, env=None, limit_mem=True):
    if len(COV_LINES) < COV_MAX:
        step = max(1, len(lines) // 400)
        COV_LINES.extend((l, timeout) for l in lines[::step][:COV_MAX - len(COV_LINES)])
    outs = run_sharded([harness, 'run'], lines, timeout=timeout, env=env, limit_mem=limit_mem)
    # an expired watchdog (the harness's own or the per-shard timeout) is confirmed on an isolated re-run
    # with six times the watchdogs before it is believed: a loaded machine must not look like a hang
    confirmed = sum(1 for r in RETRIED if _timing(r[2]))
    for i, o in enumerate(outs):
        # once three stalls have been confirmed in isolation the further ones of this run are believed as they are
        if _timing(o) and len(RETRIED) < 40 and confirmed < 3:
            e2 = dict(env if env is not None else os.environ, GFH_TSCALE='6')
            o2 = run_lines([harness, 'run'], [lines[i]], timeout=max(60.0, timeout * 6), env=e2, limit_mem=limit_mem)[0]
            RETRIED.append((lines[i][:200], o[:80], o2[:80]))
            outs[i] = o2
            if _timing(o2):
                confirmed += 1
    return outs


def anchor_files(pid):
    for l in open(os.path.join(VERIF, 'properties.jsonl')):
        d = json.loads(l)
        if d['id'] == pid:
            return [f for f in d.get('anchors', {}).get('files', []) if f.endswith('.go')]
    return []


def measure_coverage(pid):
    """Statement coverage of the property's anchor files reached by a sample of this run's implementation
    inputs, measured with a coverage-instrumented build of the harness (go build -cover). Tie-quality
    metric only: it says how much of the anchored code the correspondence run exercised."""
    if not COV_LINES:
        return None
    out = os.path.join(HARN, 'gfharness-cover')
    p = sh('go build -tags verif -cover -coverpkg=github.com/netsampler/goflow2/v2/...,gfharness -o %s .' % out,
           cwd=HARN, env=GOENV, timeout=1200, check=False)
    if p.returncode != 0:
        return dict(error='cover build failed: ' + p.stdout[-300:])
    import tempfile, shutil
    d = tempfile.mkdtemp(prefix='gfcov', dir='/root/scratch')
    try:
        env = dict(GOENV, GOCOVERDIR=d)
        lines = [l for l, _ in COV_LINES]
        tmo = max(t for _, t in COV_LINES)
        # one process per chunk so that a crash loses little; sequential (counters are per process)
        for i in range(0, len(lines), 200):
            run_lines([out, 'run'], lines[i:i + 200], timeout=max(60.0, tmo * 4), env=env, limit_mem=False)
        prof = os.path.join(d, 'profile.txt')
        q = sh('go tool covdata textfmt -i=%s -o=%s' % (d, prof), cwd=HARN, env=GOENV, timeout=300, check=False)
        if q.returncode != 0 or not os.path.exists(prof):
            return dict(error='covdata failed: ' + q.stdout[-300:])
        tot, cov = {}, {}
        for ln in open(prof):
            if ln.startswith('mode:'):
                continue
            try:
                loc, nst, cnt = ln.rsplit(' ', 2)
                f = loc.split(':')[0]
                nst, cnt = int(nst), int(cnt)
            except ValueError:
                continue
            key = f.split('github.com/netsampler/goflow2/v2/')[-1]
            # a block may be listed once per instrumented package copy: keep the max count per block
            tot.setdefault(key, {})[loc] = nst
            if cnt > 0:
                cov.setdefault(key, {})[loc] = nst
        res = {}
        for f in anchor_files(pid):
            if f in tot:
                t = sum(tot[f].values())
                c = sum(cov.get(f, {}).values())
                res[f] = '%d/%d statements (%.0f%%)' % (c, t, 100.0 * c / max(1, t))
            else:
                res[f] = 'not linked into the harness'
        return dict(files=res, inputs_replayed=len(lines))
    finally:
        shutil.rmtree(d, ignore_errors=True)


# ----------------------------------------------------------------------------- byte helpers for mutators

def payloads_of(line):
    """all '=hex' tokens of an input line -> list of (index, bytes)"""
    f = line.split(' ')
    return [(i, bytes.fromhex(t[1:])) for i, t in enumerate(f) if t.startswith('=')]


def mutate_line(rng, line, n):
    """n mutants of a (possibly multi-datagram) input line: one datagram mutated at byte level,
    or datagrams dropped / swapped / duplicated"""
    f = line.split(' ')
    ps = payloads_of(line)
    out = []
    for _ in range(n):
        g = list(f)
        c = rng.randrange(10)
        if c < 7 or len(ps) < 2:
            i, b = rng.choice(ps)
            g[i] = '=' + mutate_bytes(rng, b, 1)[0].hex()
        elif c == 7:
            i, _ = rng.choice(ps)
            del g[i]
        elif c == 8:
            (i, _), (j, _) = rng.sample(ps, 2)
            g[i], g[j] = g[j], g[i]
        else:
            i, _ = rng.choice(ps)
            g.insert(i, g[i])
        out.append(' '.join(g))
    return out


def payload_of(line):
    """first '=hex' token of an input line -> (index, bytes)"""
    f = line.split(' ')
    for i, t in enumerate(f):
        if t.startswith('='):
            return i, bytes.fromhex(t[1:])
    return None, b''


def with_payload(line, b):
    f = line.split(' ')
    i, _ = payload_of(line)
    f[i] = '=' + b.hex()
    return ' '.join(f)


HOSTILE = [0, 1, 1000, 1001, 65535, 2 ** 31 - 1, 2 ** 32 - 1]


def mutate_bytes(rng, b, n):
    """n seeded byte-level mutants of b: truncations, flips, hostile 16/32-bit values, splices"""
    out = []
    L = len(b)
    for _ in range(n):
        c = rng.randrange(7)
        x = bytearray(b)
        if c == 0 and L:
            x = x[:rng.randrange(L + 1)]
        elif c == 1 and L:
            for _ in range(rng.randrange(1, 4)):
                x[rng.randrange(L)] = rng.randrange(256)
        elif c == 2 and L >= 2:
            p = rng.randrange(L - 1)
            v = rng.choice(HOSTILE) & 0xffff
            x[p:p + 2] = v.to_bytes(2, 'big')
        elif c == 3 and L >= 4:
            p = rng.randrange(L - 3)
            v = rng.choice(HOSTILE) & 0xffffffff
            x[p:p + 4] = v.to_bytes(4, 'big')
        elif c == 4 and L:
            p = rng.randrange(L)
            q = rng.randrange(p, L)
            x = x[:p] + x[q:]
        elif c == 5 and L:
            p = rng.randrange(L)
            q = rng.randrange(p, min(L, p + 64))
            x = x[:q] + x[p:q] + x[q:]
        else:
            x = x + bytes(rng.randrange(256) for _ in range(rng.randrange(1, 60)))
        out.append(bytes(x[:9000]))
    return out


# ----------------------------------------------------------------------------- known findings

def load_findings(pid):
    path = os.path.join(VERIF, 'known_findings.json')
    if not os.path.exists(path):
        return []
    return [f for f in json.load(open(path)) if f.get('property') == pid and f.get('status') == 'finding']


# ----------------------------------------------------------------------------- shrinking

def shrink(case_fails, line, budget=200):
    """ddmin over the payload bytes of `line` keeping case_fails(line) true.
    case_fails takes a list of lines and returns a list of bools (batched)."""
    idx, b = payload_of(line)
    if idx is None or not b:
        return line
    cur = b
    n = 2
    steps = 0
    while len(cur) >= 2 and steps < budget:
        chunk = max(1, len(cur) // n)
        cands = []
        for s in range(0, len(cur), chunk):
            cands.append(cur[:s] + cur[s + chunk:])
        res = case_fails([with_payload(line, c) for c in cands])
        steps += len(cands)
        hit = next((c for c, r in zip(cands, res) if r), None)
        if hit is not None:
            cur = hit
            n = max(n - 1, 2)
        elif chunk == 1:
            break
        else:
            n = min(len(cur), n * 2)
    return with_payload(line, cur)


# ----------------------------------------------------------------------------- the check

class Check:
    def __init__(self, pid, tier, seed):
        self.pid, self.tier, self.seed = pid, tier, seed
        self.t0 = time.time()
        self.violations = []      # dicts
        self.known = {}           # finding id -> count
        self.evals = 0
        self.nontrivial = set()
        self.samples = []
        self.dist = {}
        self.exhaustive = []
        self.notes = []
        self.proof = None
        self.findings = load_findings(pid)
        self.harness = None

    def count(self, key, n=1):
        self.dist[key] = self.dist.get(key, 0) + n

    def match_finding(self, matchers, case):
        for f in self.findings:
            m = matchers.get(f['id'])
            if m and m(case):
                return f
        return None

    def record(self, kind, case, matchers):
        """a disagreement: known finding or violation"""
        f = self.match_finding(matchers, case)
        if f:
            self.known.setdefault(f['id'], []).append(case)
            return
        case = dict(case, kind=kind)
        if case.get('impl') == 'crash' and case.get('input') in CRASH_LOG:
            case['stderr'] = CRASH_LOG[case['input']]
        self.violations.append(case)

    # ---- output
    def finish(self, prop, extra_cov=None):
        os.makedirs(os.path.join(VERIF, 'evidence'), exist_ok=True)
        os.makedirs(os.path.join(VERIF, 'replays'), exist_ok=True)
        rc = 0
        try:
            xc = xcheck_extraction(self.tier)
        except Exception as e:
            xc = dict(run_cases=0, gen_cases=0, mismatches=[dict(what='cross-check did not run: ' + str(e)[:300])])
        for mm in xc['mismatches']:
            self.violations.append(dict(kind='correspondence', concrete=False,
                                        what='extraction cross-check: ' + mm['what'], detail=mm))
        for f in self.findings:
            if f['id'] in self.known:
                print('KNOWN-FINDING: property=%s %s (%d cases re-confirmed, e.g. %s)' %
                      (self.pid, f['what'], len(self.known[f['id']]), self.known[f['id']][0].get('input', '')[:120]))
        replay = None
        if self.violations:
            rc = 1
            v = self.violations[0]
            concrete = [x for x in self.violations if x.get('concrete')]
            if concrete:
                v = concrete[0]
            h = hashlib.sha1(json.dumps(v, sort_keys=True).encode()).hexdigest()[:10]
            replay = os.path.join(VERIF, 'replays', '%s-%d-%s.json' % (self.pid, self.seed, h))
            json.dump(dict(property=self.pid, seed=self.seed, tier=self.tier, violation=v,
                           others=self.violations[1:20], total=len(self.violations)),
                      open(replay, 'w'), indent=1)
            tail = '' if v.get('concrete') else ' no-failing-input-found'
            print('VIOLATION property=%s replay=%s%s' % (self.pid, replay, tail))
        pr = self.proof or {}
        wall = time.time() - self.t0
        cov = dict(
            obligations=pr.get('obligations', 0), discharged=pr.get('discharged', 0),
            checker_cmd=pr.get('cmd', ''),
            trusted_base=prop.TRUSTED + ['axioms reported by Print Assumptions: ' +
                                         ('none (Closed under the global context x%d)' % pr.get('closed', 0)
                                          if not pr.get('axioms') else '; '.join(pr['axioms']))],
            theorems=pr.get('theorems', []),
            evaluations=self.evals, distinct_nontrivial=len(self.nontrivial), rule=prop.RULE,
            samples=self.samples[:6], distribution=self.dist, exhaustive_sweeps=self.exhaustive,
            extraction_crosscheck={k: v for k, v in xc.items() if k != 'log'},
            exhaustive=False, known_findings_reconfirmed={k: len(v) for k, v in self.known.items()},
            notes=self.notes + (['watchdog verdicts re-run in isolation with 6x watchdogs: %s' % RETRIED[:10]] if RETRIED else []))
        if extra_cov:
            cov.update(extra_cov)
        if self.tier == 'thorough' or os.environ.get('VERIF_COVER'):
            try:
                cov['impl_statement_coverage'] = measure_coverage(self.pid)
            except Exception as e:      # the measurement never decides anything
                cov['impl_statement_coverage'] = dict(error=str(e)[:300])
        ev = dict(property_id=self.pid, tier=self.tier, seed=self.seed, level='proof', coverage=cov,
                  assumptions=prop.ASSUMPTIONS, wall_s=round(wall, 2), violations=len(self.violations))
        json.dump(ev, open(os.path.join(VERIF, 'evidence', self.pid + '.json'), 'w'), indent=1)
        print('%s tier=%s seed=%d evaluations=%d nontrivial=%d theorems=%d/%d violations=%d wall=%.1fs' %
              (self.pid, self.tier, self.seed, self.evals, len(self.nontrivial),
               cov['discharged'], cov['obligations'], len(self.violations), wall))
        return rc


class build_lock:
    """checks may be started side by side in one tree: the builds (Coq make, extraction, harness) are serialised"""
    def __enter__(self):
        import fcntl
        self.f = open(os.path.join(VERIF, '.build.lock'), 'w')
        fcntl.flock(self.f, fcntl.LOCK_EX)

    def __exit__(self, *a):
        import fcntl
        fcntl.flock(self.f, fcntl.LOCK_UN)
        self.f.close()


def std_prepare(chk, race=False):
    """build Coq, re-check the property file, extract the model, build the harness"""
    with build_lock():
        _std_prepare(chk, race)


def _std_prepare(chk, race=False):
    ok, log = build_coq()
    if not ok:
        chk.violations.append(dict(kind='proof', concrete=False, what='Coq development does not build',
                                   log=log[-3000:]))
    for name, props, msg in TRANSLATOR_ERRORS:
        if chk.pid in props:
            # the generated table could not be refreshed from the source: the theorems would be about a stale copy
            chk.violations.append(dict(kind='translator', concrete=False,
                                       what='translator %s could not read its source in the repository: the generated Coq table is no longer tied to the code (%s)' % (name, msg.strip()[-200:])))
    chk.proof = check_property_file(chk.pid)
    if not chk.proof['ok']:
        chk.violations.append(dict(kind='proof', concrete=False,
                                   what='Properties/%s.v no longer checks' % chk.pid, log=chk.proof['log']))
    bad = scan_forbidden()
    if bad:
        chk.violations.append(dict(kind='proof', concrete=False, what='forbidden declaration in development',
                                   log='\n'.join(bad[:20])))
    if chk.proof['axioms']:
        chk.notes.append('axioms: ' + '; '.join(chk.proof['axioms']))
    build_model()
    chk.harness = build_harness(race=race)


def run_streams(chk, prop, streams, matchers):
    """Scope A: generated cases, expected observation from the specification."""
    for st in streams:
        n = st['n'][chk.tier]
        cases = model_gen(prop.GEN, st['stream'], chk.seed, 0, n)
        ins = [c[0] for c in cases]
        exp = [c[1] for c in cases]
        impl = impl_run(chk.harness, ins, timeout=st.get('timeout', 30.0))
        chk.evals += len(ins)
        chk.count('stream:' + st['name'], len(ins))
        if len(chk.samples) < 6 and ins:
            chk.samples.append(dict(stream=st['name'], input=ins[0][:600], expected=exp[0][:600], impl=impl[0][:600]))
        if st.get('model', True):
            mod = model_run(prop.GEN, ins)
        else:
            mod = exp
        pj = getattr(prop, 'project', lambda x: x)
        for i, (a, e, o, m) in enumerate(zip(ins, exp, impl, mod)):
            e, o, m = pj(e), pj(o), pj(m)
            if e.endswith('notwf'):
                # the generator left the theorem's hypothesis at this step of the history:
                # compare only the steps before it (counted in the distribution)
                chk.count('notwf:' + st['name'])
                k = e.count('|')
                e = ' '.join(e.split(' ')[:-1]).strip()
                cut = lambda x: ' | '.join(x.split(' | ')[:k]) + (' |' if k else '')
                o, m = (cut(o), cut(m)) if k else ('', '')
                e = e if k else ''
            if prop.nontrivial(a, e):
                chk.nontrivial.add(hashlib.sha1(a.encode()).digest()[:8])
            if m != e:
                chk.record('model-vs-spec', dict(concrete=False, stream=st['name'], index=i, input=a,
                                                 expected=e, model=m,
                                                 what='extracted model disagrees with the specification the theorem equates it with'),
                           matchers)
            if o != e and o != 'skipped':
                chk.record('scopeA', dict(concrete=True, stream=st['name'], index=i, input=a, expected=e, impl=o, model=m,
                                          what='implementation differs from the specification on a property-domain input'),
                           matchers)


def run_scope_b(chk, prop, ins, label, matchers, oracle=None, timeout=30.0):
    """Scope B: arbitrary inputs, implementation vs model. Returns the list of disagreeing inputs."""
    if not ins:
        return []
    impl = impl_run(chk.harness, ins, timeout=timeout)
    mod = model_run(prop.GEN, ins)
    chk.evals += len(ins)
    chk.count('scopeB:' + label, len(ins))
    if ins and len(chk.samples) < 6:
        chk.samples.append(dict(stream=label, input=ins[0][:600], model=mod[0][:600], impl=impl[0][:600]))
    bad = []
    pj = getattr(prop, 'project', lambda x: x)
    for a, o, m in zip(ins, impl, mod):
        if o == 'skipped':
            continue
        o, m = pj(o), pj(m)
        if prop.nontrivial(a, m):
            chk.nontrivial.add(hashlib.sha1(a.encode()).digest()[:8])
        w = m.split(' ')[0] if m else 'empty'
        chk.count('outcome:' + (w if w.isalpha() and len(w) <= 10 else 'value'))
        if o != m:
            bad.append((a, o, m))
    return bad


def resolve_scope_b(chk, prop, bad, label, matchers, oracle=None, search_streams=None):
    """Disagreements between implementation and model outside the generated property domain.
    The tie is broken: look for a concrete failing input; otherwise report no-failing-input-found."""
    unresolved = []
    for a, o, m in bad:
        case = dict(input=a, impl=o, model=m, stream=label)
        if chk.match_finding(matchers, case):
            chk.record('scopeB', case, matchers)
            continue
        verdict = oracle(a, o) if oracle else None
        if verdict is False:
            chk.record('scopeB-oracle', dict(case, concrete=True,
                                             what='implementation output violates the property oracle on this input'), matchers)
        else:
            unresolved.append(case)
    if not unresolved:
        return
    # shrink the first one (keeps 'impl != model')
    first = unresolved[0]

    pj = getattr(prop, 'project', lambda x: x)

    def fails(lines):
        i = impl_run(chk.harness, lines, timeout=20.0)
        m = model_run(prop.GEN, lines)
        return [pj(x) != pj(y) for x, y in zip(i, m)]
    try:
        small = shrink(fails, first['input'])
        i = pj(impl_run(chk.harness, [small])[0])
        m = pj(model_run(prop.GEN, [small])[0])
        if i != m:
            first = dict(first, input=small, impl=i, model=m, shrunk_from=first['input'][:2000])
            if oracle and oracle(small, i) is False:
                chk.record('scopeB-oracle', dict(first, concrete=True,
                           what='implementation output violates the property oracle on this (shrunk) input'), matchers)
                return
    except Exception as e:  # shrinking is best effort
        chk.notes.append('shrink failed: %r' % (e,))
    # enlarged property-domain search against the implementation alone
    found = False
    for st in (search_streams or []):
        n = st['n'][chk.tier] * 10
        cases = model_gen(prop.GEN, st['stream'], chk.seed + 7919, 0, n)
        ins = [c[0] for c in cases]
        impl = impl_run(chk.harness, ins, timeout=60.0)
        chk.evals += len(ins)
        chk.count('search:' + st['name'], len(ins))
        for a, (_, e), o in zip(ins, cases, impl):
            e, o = pj(e), pj(o)
            if o != e:
                case = dict(concrete=True, stream='search:' + st['name'], input=a, expected=e, impl=o,
                            what='found by the enlarged property-domain search after the model/implementation tie broke',
                            tie_break=first)
                if not chk.match_finding(matchers, case):
                    chk.record('scopeA-search', case, matchers)
                    found = True
                    break
        if found:
            break
    if not found:
        chk.violations.append(dict(first, kind='correspondence', concrete=False,
                                   what='model function %s no longer corresponds to the implementation on this input; '
                                        'no property-domain failing input found within the search budget' % prop.MODEL_FN,
                                   disagreements=len(unresolved)))
