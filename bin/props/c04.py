"""C04 sFlow v5 wire decoding is exact."""
import random
from engine import *

GEN = 'C04'
MODEL_FN = 'Model/SFlow.v:decode_sf (dec_samples, dec_sample, dec_records, dec_flow_record, dec_counter_record, rd_string, dec_ip)'
RULE = ('stream wf: abstract datagrams (agent v4/v6; 0..12 samples of the 5 formats; 0..8 records per sample: raw header with '
        '0..256 captured bytes, sampled Ethernet/IPv4/IPv6, extended switch/router/gateway (0 or 1 AS-path segment of 0..50, '
        '0..50 communities), egress queue, ACL and function (strings 0..40, XDR padded), generic interface and Ethernet '
        'counters, unknown formats) encoded by the independent XDR encoder Spec/EncSFlow.v; expected = the abstract datagram; '
        'mutants: byte-level mutations incl. hostile 32-bit counts, implementation vs model. non-trivial = at least one '
        'record decoded; distinct by input bytes')
TRUSTED = ['Coq 8.16.1 kernel (coqc)', 'extraction + ocaml/main.ml glue', 'Go harness harness/sf.go, bin/engine.py',
           'modelled, not verified: decoders/sflow/sflow.go, decoders/utils/utils.go']
ASSUMPTIONS = ['Model/SFlow.v corresponds to the Go decoder on all inputs, as sampled by this run']
STREAMS = [dict(name='wf', stream=0, n=dict(quick=1500, thorough=30000))]


def nontrivial(inp, out):
    return ' r ' in out


def run(chk):
    me = sys.modules[__name__]
    std_prepare(chk)
    run_streams(chk, me, STREAMS, {})
    rng = random.Random(chk.seed * 31 + 4)
    nm = dict(quick=4000, thorough=80000)[chk.tier]
    base = model_gen(GEN, 0, chk.seed + 1, 0, max(50, nm // 20))
    muts = []
    for a, _ in base:
        _, d = payload_of(a)
        muts += ['sf =' + m.hex() for m in mutate_bytes(rng, d, 20)]
    bad = run_scope_b(chk, me, muts[:nm], 'mutants', {})
    resolve_scope_b(chk, me, bad, 'mutants', {}, None, STREAMS)
    return chk.finish(me)
