"""C13 every message serialises: valid JSON, framed protobuf, agreeing values."""
import random, tempfile, subprocess, json
from pipefam import *

GEN = 'C13'
MODEL_FN = 'Model/Pb.v:pb_encode/frame (vs MarshalBinary bytes), Model/Render.v:json_default/text_default (default configuration) and Model/Format.v:format_json/format_text (ANY formatter configuration) vs MarshalJSON / MarshalText bytes, Model/Json.v:esc_string_utf8 (vs encoding/json)'
RULE = ('stream mixed: histories of NetFlow v5/v9/IPFIX and sFlow datagrams through the auto pipe with a format that runs the '
        'real json, text and bin drivers on every message: the bin bytes must equal the model\'s frame(pb_encode m) and the JSON '
        'and text bytes the model\'s json_default / text_default (renderers: IP incl. RFC 5952, MAC, names, prefixes) byte for '
        'byte, json.Valid must hold, keys must be the configured fields in order, numeric columns must agree between JSON, '
        'text and protobuf, and the concatenated bin stream must split (protodelim reader loop) into exactly the messages '
        'written and re-marshal to the same bytes; stream jsonstr: ASCII strings (quotes, backslashes, control characters) '
        'through encoding/json vs the model escape, all 128 single bytes exhaustively; configs: the same histories under '
        'generated formatter configurations (field subsets/orders, renames, every registered renderer incl. string on byte '
        'fields and datetime, the virtual field icmp_name, custom protobuf fields scalar/array fed by IPFIX/v9 mappings): the JSON and '
        'text BYTES of every message compared with the general formatter model Model/Format.v compiled from the same configuration '
        '(timestamps beyond year 9999 are outside the model and left to the oracles), plus the implementation-side oracles. '
        'binaries: cmd/goflow2 (-format bin) run on generated histories writes the protodelim stream of the model messages (wall-clock fields aside) and cmd/enricher reads it back into as many messages with the same fields. '
        'non-trivial = at least one message serialised; distinct by input')
TRUSTED = ['Coq 8.16.1 kernel (coqc)', 'extraction + ocaml/main.ml glue', 'Go harness harness/fmt.go (oracles: json.Valid, '
           'streaming key decoder, protodelim.UnmarshalFrom loop, proto.Unmarshal), bin/engine.py',
           'modelled, not verified: producer/proto/messages.go (formatter), format/*; protobuf-go and encoding/json are trusted libraries']
ASSUMPTIONS = ['JSON string escaping is modelled for arbitrary bytes (Model/Json.v:esc_string_utf8: UTF-8 table, U+2028/U+2029, U+FFFD for ill-formed bytes)', 'every formatter configuration is modelled byte for byte (Model/Format.v; struct layout, registered and default renderers, slice table and name tables regenerated from flow.pb.go / render.go / config_impl.go); outside the model: timestamps beyond year 9999, configurations whose render keys collide after translation (Go map order), output names that would need escaping',
               'the abstract configuration tokens and the YAML text describe the same file (both printed from one Python structure)',
               ]
STREAMS = [dict(name='mixed', stream=0, n=dict(quick=150, thorough=3000), timeout=120.0),
           dict(name='jsonstr', stream=1, n=dict(quick=2000, thorough=40000))]
FIELDS = ['type', 'time_received_ns', 'sequence_num', 'sampling_rate', 'sampler_address', 'time_flow_start_ns',
          'time_flow_end_ns', 'bytes', 'packets', 'src_addr', 'dst_addr', 'etype', 'proto', 'src_port', 'dst_port',
          'in_if', 'out_if', 'src_mac', 'dst_mac', 'src_vlan', 'dst_vlan', 'vlan_id', 'ip_tos', 'forwarding_status',
          'ip_ttl', 'ip_flags', 'tcp_flags', 'icmp_type', 'icmp_code', 'ipv6_flow_label', 'fragment_id',
          'fragment_offset', 'src_as', 'dst_as', 'next_hop', 'next_hop_as', 'src_net', 'dst_net', 'bgp_next_hop',
          'bgp_communities', 'as_path', 'mpls_ttl', 'mpls_label', 'mpls_ip', 'observation_domain_id',
          'observation_point_id', 'layer_stack', 'layer_size', 'ipv6_routing_header_addresses',
          'ipv6_routing_header_seg_left']
ODD_NAMES = ['a"b', 'back\\slash', 'tab\there', 'new\nline', 'lt<gt>&amp', 'sp ace ', '\u00fcn\u00ef', '\u65e5\u672c', '{"k":1}', "it's", '\x01ctl', '\u2028sep']
RENDERERS = ['none', 'ip', 'mac', 'etype', 'proto', 'datetime', 'datetimenano', 'string']


def nontrivial(inp, out):
    return ' b =' in out or inp.startswith('jsonstr')


def gen_cfg(rng):
    ncustom = rng.randrange(0, 4)
    customs = []
    for i in range(ncustom):
        customs.append(dict(name='cust%d' % i, index=1000 + rng.randrange(4000), type=rng.choice(['varint', 'string']),
                            array=rng.random() < 0.4))
    fields = rng.sample(FIELDS, rng.randrange(1, len(FIELDS))) + [c['name'] for c in customs]
    if rng.random() < 0.3:
        fields.append('icmp_name')
    rng.shuffle(fields)
    y = ['formatter:', '  fields:'] + ['    - %s' % f for f in fields]
    ren = rng.sample(fields, min(len(fields), rng.randrange(0, 4)))
    # new names: mostly identifiers, sometimes names with quotes, backslashes, control characters, markup, non-ASCII text
    renmap = {f: ('x_' + f if rng.random() < 0.6 else rng.choice(ODD_NAMES) + f[:3]) for f in ren}
    if ren:
        y.append('  rename:')
        for f in ren:
            y.append('    %s: %s' % (f, json.dumps(renmap[f])))
    rr = rng.sample([f for f in fields if f != 'icmp_name'], min(len(fields) - 1, rng.randrange(0, 6))) if len(fields) > 1 else []
    rmap = {f: rng.choice(RENDERERS) for f in rr}
    if rr:
        y.append('  render:')
        for f in rr:
            y.append('    %s: %s' % (f, rmap[f]))
    nfmaps = []
    if customs:
        y.append('  protobuf:')
        for c in customs:
            y += ['    - name: %s' % c['name'], '      index: %d' % c['index'], '      type: %s' % c['type'],
                  '      array: %s' % ('true' if c['array'] else 'false')]
        for sect in ('ipfix', 'netflowv9'):
            y += ['%s:' % sect, '  mapping:']
            for c in customs:
                fid = rng.choice([1, 2, 4, 7, 8, 10, 27, 56, 61, 82, 152])
                y += ['    - field: %d' % fid, '      destination: %s' % c['name']]
                nfmaps.append((10 if sect == 'ipfix' else 9, fid, c['name']))
    toks = fmt_tokens(fields, renmap, rmap) + ['cfg']
    for c in customs:
        toks += ['custom', c['name'], '#%x' % c['index'], '#%x' % (0 if c['type'] == 'varint' else 1), '#%x' % int(c['array'])]
    for ver, fid, dest in nfmaps:
        toks += ['nf', '#%x' % ver, '#0', '#0', '#%x' % fid, dest, '#0']
    toks.append('end')
    return '\n'.join(y) + '\n', toks


def _varint(b, i):
    v = sh_ = 0
    while True:
        x = b[i]
        i += 1
        v |= (x & 127) << sh_
        sh_ += 7
        if x < 128:
            return v, i


def pb_frames(b):
    """split a protodelim stream; None if it does not split exactly"""
    out, i = [], 0
    try:
        while i < len(b):
            n, i = _varint(b, i)
            if i + n > len(b):
                return None
            out.append(b[i:i + n])
            i += n
    except IndexError:
        return None
    return out


def pb_fields(m):
    out, i = [], 0
    while i < len(m):
        t, i = _varint(m, i)
        num, wt = t >> 3, t & 7
        if wt == 0:
            v, i = _varint(m, i)
            out.append((num, 0, v))
        elif wt == 2:
            n, i = _varint(m, i)
            out.append((num, 2, m[i:i + n]))
            i += n
        else:
            raise ValueError('wire type %d' % wt)
    return out


def pb_masked(m):
    """the fields of a message without the ones that carry the wall clock of the run (time_received_ns; for sFlow also the
    flow start / end, which are the receive time)"""
    f = pb_fields(m)
    sf = any(n == 1 and v == 1 for n, w, v in f)
    return [(n, w, v) for n, w, v in f if n != 110 and not (sf and n in (111, 112))]


def proto_fields(path, msg):
    """number -> (type incl. 'repeated', name) of a message of a .proto file"""
    import re
    try:
        src = open(path).read()
    except OSError:
        return None
    m = re.search(r'message ' + msg + r' \{(.*?)\n\}', src, re.S)
    if not m:
        return None
    out = {}
    for rep, typ, name, num in re.findall(r'^\s*(repeated\s+)?([\w.]+)\s+(\w+)\s*=\s*(\d+)\s*;', m.group(1), re.M):
        out[int(num)] = (('repeated ' if rep else '') + typ, name)
    return out


def schema_conflict_38(case):
    return case.get('conflict_number') == 38 and case.get('collector') == ['uint32', 'ip_flags'] and case.get('consumer') == ['uint64', 'time_flow_start']


MATCHERS = {'enricher-schema-field-38': schema_conflict_38}


def schema_part(chk):
    """the schema the shipped consumer decodes with (cmd/enricher/pb/flowext.proto) against the schema the collector writes
    (pb/flow.proto): a field number that both declare must mean the same thing (same name, same type) -- otherwise the
    consumer reports one column as another.  Both files are re-read from the repository on every run."""
    a = proto_fields(os.path.join(REPO, 'pb', 'flow.proto'), 'FlowMessage')
    b = proto_fields(os.path.join(REPO, 'cmd', 'enricher', 'pb', 'flowext.proto'), 'FlowMessageExt')
    if not a or not b:
        chk.notes.append('schema comparison skipped: a .proto file was not found')
        return {}
    conflicts = {n: (a[n], b[n]) for n in a if n in b and a[n] != b[n]}
    chk.count('field numbers declared by both schemas', len([n for n in a if n in b]))
    chk.evals += len([n for n in a if n in b])
    for n, (x, y) in sorted(conflicts.items()):
        chk.record('scopeA-schema', dict(concrete=True, conflict_number=n, collector=list(x), consumer=list(y),
                   input='pb/flow.proto field %d = %s %s; cmd/enricher/pb/flowext.proto field %d = %s %s' % (n, x[0], x[1], n, y[0], y[1]),
                   what='the consumer cmd/enricher decodes a field number with another meaning than the collector writes it with'), MATCHERS)
    return conflicts


def binary_part(chk, rng):
    """THE SHIPPED BINARIES: cmd/goflow2 (-format bin, file transport, no separator) run on generated histories writes a
    protodelim stream whose frames are, field for field (wall-clock fields aside), frame(pb_encode m) of the model; the
    consumer cmd/enricher reads that stream and writes as many messages with the same fields."""
    import props.c14 as c14
    bdir = tempfile.mkdtemp(prefix='c13bin', dir='/root/scratch')     # own directory: checks may run side by side
    exe, enr = os.path.join(bdir, 'goflow2'), os.path.join(bdir, 'enricher')
    for target, path in (('./cmd/goflow2', exe), ('./cmd/enricher', enr)):
        p = sh('go build -o %s %s' % (path, target), cwd=REPO, env=GOENV, timeout=900, check=False)
        if p.returncode != 0:
            chk.record('binary', dict(concrete=False, what='%s does not build: %s' % (target, p.stdout[-300:])), {})
            return
    hists = [a.split(' ', 3)[3] for a, _ in model_gen(GEN, 0, chk.seed + 9, 0, dict(quick=6, thorough=60)[chk.tier])]
    conflicts = schema_part(chk)
    nframes = 0
    try:
        for _ in range(dict(quick=2, thorough=20)[chk.tier]):
            hist = rng.choice(hists)

            def one():
                rc, raw, line, mm = c14.binary_run(exe, None, None, hist, 'flow', fmt='bin')
                m = mm.split(' ')
                exp = [bytes.fromhex(m[i + 1][1:]) for i, x in enumerate(m[:-1]) if x == 'b']
                got = pb_frames(raw)
                ok = rc == 0 and got is not None and len(got) == len(exp)
                if ok:
                    try:
                        ok = [pb_masked(g) for g in got] == [pb_masked(pb_frames(e)[0]) for e in exp]
                    except Exception:
                        ok = False
                return ok, rc, raw, got, exp, line
            ok, rc, raw, got, exp, line = one()
            if not ok:
                ok, rc, raw, got, exp, line = one()
                chk.notes.append('binary run repeated after a first disagreement: %s' % ('agrees' if ok else 'disagrees again'))
            chk.evals += 1
            nframes += len(got or [])
            if got:
                chk.nontrivial.add(hashlib.sha1(line.encode()).digest()[:8])
            if not ok:
                chk.record('scopeA-binary', dict(concrete=True, input=line[:60000], exit_status=rc, frames_written=None if got is None else len(got),
                           frames_expected=len(exp),
                           what='the goflow2 binary (-format bin) did not write the protodelim stream of the reference messages for the datagrams sent to it'), {})
                continue
            out2 = tempfile.mktemp(prefix='enr', dir='/root/scratch')
            p = subprocess.run([enr, '-format', 'bin', '-transport', 'file', '-transport.file', out2, '-transport.file.sep=', '-loglevel', 'error'],
                               input=raw, stdout=subprocess.PIPE, stderr=subprocess.PIPE, timeout=120)
            try:
                r2 = open(out2, 'rb').read()
                os.remove(out2)
            except OSError:
                r2 = b''
            g2 = pb_frames(r2)
            same = p.returncode == 0 and g2 is not None and len(g2) == len(got)
            if same:
                same = [sorted(pb_fields(a), key=lambda t: t[0]) for a in g2] == [sorted(pb_fields(a), key=lambda t: t[0]) for a in got]
            # the consumer's JSON: a column the two schemas number differently shows up under the wrong name
            for n, (x, y) in sorted(conflicts.items()):
                idx = [i for i, fr in enumerate(got) if any(fn == n and v for fn, w, v in pb_fields(fr))]
                if not idx:
                    continue
                outj = tempfile.mktemp(prefix='enrj', dir='/root/scratch')
                subprocess.run([enr, '-format', 'json', '-transport', 'file', '-transport.file', outj, '-loglevel', 'error'],
                               input=raw, stdout=subprocess.PIPE, stderr=subprocess.PIPE, timeout=120)
                try:
                    jl = open(outj).read().split('\n')
                    os.remove(outj)
                except OSError:
                    jl = []
                for i in idx[:3]:
                    v = [v for fn, w, v in pb_fields(got[i]) if fn == n][0]
                    try:
                        shown = json.loads(jl[i]).get(y[1])
                    except Exception:
                        shown = None
                    if shown == v:
                        chk.record('scopeA-schema', dict(concrete=True, conflict_number=n, collector=list(x), consumer=list(y),
                                   input=line[:20000], message_index=i, impl='enricher -format json: "%s":%s' % (y[1], shown),
                                   what='cmd/enricher reports the collector\'s %s (%d) as %s' % (x[1], v, y[1])), MATCHERS)
            if not same:
                chk.record('scopeA-enricher', dict(concrete=True, input=line[:60000], exit_status=p.returncode,
                           messages_in=len(got), messages_out=None if g2 is None else len(g2),
                           what='cmd/enricher did not read the stream the collector wrote back into as many messages with the same fields'), {})
    finally:
        import shutil
        shutil.rmtree(bdir, ignore_errors=True)
    chk.count('protodelim frames written by the goflow2 binary, compared with the model and passed through cmd/enricher', nframes)


def verdicts(line):
    """keep outcome, counts and verdict tokens; drop the bin bytes (they depend on the custom mapping)"""
    return ' '.join(t for t in line.split(' ') if not t.startswith('='))


def run(chk):
    me = sys.modules[__name__]
    std_prepare(chk)
    run_streams(chk, me, STREAMS, {})
    # exhaustive single bytes and pairs of special characters through encoding/json
    special = [34, 92, 10, 13, 9, 8, 12, 0, 31, 60, 62, 38, 127, 47, 32, 65]
    lines = ['jsonstr =%02x' % b for b in range(128)] + ['jsonstr =%02x%02x' % (a, b) for a in special for b in special]
    # the same bytes as the value of a string-rendered custom field through the collector's own formatter
    lines += ['fmtstr =%02x' % b for b in range(128)] + ['fmtstr =41%02x42' % b for b in range(128)]
    lines += ['fmtstr =%02x%02x' % (a, b) for a in special for b in special]
    rs = random.Random(chk.seed + 77)
    lines += ['fmtstr =' + bytes(rs.choice(special + list(range(32, 127))) for _ in range(rs.randrange(0, 300))).hex() for _ in range(300)]
    # arbitrary bytes: every single byte 0..255, every lead byte with every second byte (all 2-byte strings whose
    # first byte is >= 0xc0: well-formed, overlong, truncated, stray continuation), structured 3-/4-byte sequences around
    # the boundaries of the UTF-8 table (e0 a0, ed 9f/a0 surrogates, f0 90, f4 8f/90, U+2028/U+2029, U+FFFD) and random bytes
    lines += ['jsonstr =%02x' % b for b in range(128, 256)] + ['fmtstr =61%02x62' % b for b in range(128, 256)]
    lines += ['jsonstr =%02x%02x' % (a, b) for a in range(0xc0, 0x100) for b in range(0x70, 0x100, 1)]
    edge3 = [(0xe0, 0x9f), (0xe0, 0xa0), (0xe0, 0xbf), (0xe1, 0x80), (0xec, 0xbf), (0xed, 0x80), (0xed, 0x9f), (0xed, 0xa0), (0xee, 0x80),
             (0xef, 0xbf), (0xe2, 0x80), (0xe2, 0x81), (0xef, 0xbe)]
    for a, b in edge3:
        for c in (0x7f, 0x80, 0xa7, 0xa8, 0xa9, 0xaa, 0xbd, 0xbf, 0xc0):
            lines.append('jsonstr =41%02x%02x%02x42' % (a, b, c))
            lines.append('fmtstr =%02x%02x%02x' % (a, b, c))
        lines.append('jsonstr =%02x%02x' % (a, b))
    edge4 = [(0xf0, 0x8f), (0xf0, 0x90), (0xf0, 0xbf), (0xf1, 0x80), (0xf3, 0xbf), (0xf4, 0x80), (0xf4, 0x8f), (0xf4, 0x90), (0xf5, 0x80)]
    for a, b in edge4:
        for c in (0x7f, 0x80, 0xbf, 0xc0):
            for d in (0x7f, 0x80, 0xbf, 0xc0):
                lines.append('jsonstr =%02x%02x%02x%02x7a' % (a, b, c, d))
        lines.append('jsonstr =%02x%02x%02x' % (a, b, 0x80))
    for _ in range(400):
        n = rs.randrange(0, 40)
        lines.append('jsonstr =' + bytes(rs.choice([rs.randrange(256), rs.randrange(0x80, 0x100), rs.randrange(0xc2, 0xf5), 0xe2, 0x80, 0xa8, 0xa9]) for _ in range(n)).hex())
        lines.append('fmtstr =' + bytes(rs.randrange(256) for _ in range(rs.randrange(0, 60))).hex())
    bad = run_scope_b(chk, me, lines, 'json-bytes', {})
    # a string value the formatter wrote that is not the JSON escaping of the bytes is a property violation
    for a, o, m in list(bad):
        if a.startswith('fmtstr'):
            chk.record('scopeA-fmtstr', dict(concrete=True, input=a, impl=o, expected=m,
                       what='a string-rendered custom field is not written as the well-formed JSON string of its bytes'), {})
            bad.remove((a, o, m))
    chk.exhaustive.append('all 256 single bytes, all 2-byte strings with a lead byte >= 0xc0 and a second byte >= 0x70, all pairs of 16 special characters through encoding/json')
    resolve_scope_b(chk, me, bad, 'json-bytes', {}, None, None)
    # renderer sweep under the default configuration: JSON and text BYTES of the implementation vs Model/Render.v.
    # IPFIX records whose addresses run through every pattern of zero / non-zero 16-bit groups (all 256, RFC 5952
    # compression), IPv4-mapped and short addresses, prefix lengths 0..255 over IPv4, IPv6 and mapped addresses,
    # every protocol number 0..255 and beyond, ethertypes, MACs, ports, with one and several records
    import props.c08 as c08
    rngr = random.Random(chk.seed * 31 + 131)
    sweep = []
    for pat in range(256):
        def v6(p):
            b = b''
            for g in range(8):
                b += (rngr.randrange(1, 65536) if (p >> g) & 1 else 0).to_bytes(2, 'big')
            return b
        src = v6(pat)
        dst = rngr.choice([v6(rngr.randrange(256)), bytes(10) + b'\xff\xff' + bytes(rngr.randrange(256) for _ in range(4)),
                           bytes(16), bytes(15) + b'\x01'])
        fields = [(27, 16), (28, 16), (29, 1), (30, 1), (4, 1), (56, 6), (80, 6), (7, 2), (11, 2), (62, 16), (63, 16)]
        vals = [src, dst, bytes([rngr.choice([0, 1, 7, 8, 9, 32, 33, 64, 96, 97, 127, 128, 129, 255, rngr.randrange(256)])]),
                bytes([rngr.randrange(256)]), bytes([pat]), bytes(rngr.randrange(256) for _ in range(6)),
                bytes(rngr.randrange(256) for _ in range(6)), bytes(rngr.randrange(256) for _ in range(2)),
                bytes(rngr.randrange(256) for _ in range(2)), v6(rngr.randrange(256)), v6(rngr.randrange(256))]
        d = c08.nf_msg(10, (1, 1700000000, pat, 1), fields, vals)
        sweep.append('fmtchk netflow none =0a000001 #7d0 #%x =%s' % (1700000000 * 10 ** 9 + pat, d.hex()))
        # IPv4 with masks, protocol as 2 and 4 bytes (values above 255), v9
        f4 = [(8, 4), (12, 4), (9, 1), (13, 1), (4, rngr.choice([2, 4])), (15, 4), (18, 4), (60, 1)]
        pw = f4[4][1]
        v4 = [bytes(rngr.randrange(256) for _ in range(4)), bytes(rngr.choice([0, 255, rngr.randrange(256)]) for _ in range(4)),
              bytes([pat % 40]), bytes([rngr.randrange(256)]), rngr.choice([pat, 256 + pat, 65535]).to_bytes(4, 'big')[-pw:],
              bytes(rngr.randrange(256) for _ in range(4)), bytes(rngr.randrange(256) for _ in range(4)), bytes([rngr.choice([4, 6, 0])])]
        d = c08.nf_msg(9, (1000, 1700000000, pat, 2), f4, v4)
        sweep.append('fmtchk netflow none =20010db8000000000000000000000001 #7d0 #%x =%s' % (1700000000 * 10 ** 9 + pat, d.hex()))
    bad = run_scope_b(chk, me, sweep, 'render-sweep', {}, timeout=120.0)
    chk.exhaustive.append('all 256 zero/non-zero group patterns of an IPv6 address, every protocol number 0..255, through the real JSON and text drivers (default configuration): %d messages' % len(sweep))
    resolve_scope_b(chk, me, bad, 'render-sweep', {}, None, None)
    # generated formatter configurations: the JSON and text BYTES of every message vs the general formatter model
    # (Model/Format.v: field list and order, renames, every registered renderer on every kind of column, virtual field,
    # custom fields scalar / array only when carried), plus the implementation-side oracles (json.Valid, keys, agreement)
    rng = random.Random(chk.seed * 31 + 13)
    ncfg = dict(quick=60, thorough=900)[chk.tier]
    base = model_gen(GEN, 0, chk.seed + 5, 0, dict(quick=20, thorough=100)[chk.tier])
    ins = []
    for _ in range(ncfg):
        y, toks = gen_cfg(rng)
        for a, _ in rng.sample(base, 5):
            f = a.split(' ')
            ins.append('pipec flow yamlj:%s %s %s' % (y.encode().hex(), ' '.join(toks), ' '.join(f[3:])))
    # mapping files that once broke serialisation: custom fields named like columns of the struct with the other array
    # flag, renames to names with quotes / backslashes / control characters (hand-written, from props/c14.py)
    import props.c14 as c14
    ec = c14.edge_configs()
    for name in ('custom-named-like-a-column-array', 'custom-named-like-a-list-column-scalar',
                 'custom-named-like-a-bytes-column-array', 'odd-renames', 'render-custom-unlisted'):
        y, toks = ec[name]
        for a, _ in rng.sample(base, 3):
            ins.append('pipec flow yamlj:%s %s %s' % (y.encode().hex(), ' '.join(toks), ' '.join(a.split(' ')[3:])))
    impl = impl_run(chk.harness, ins, timeout=120.0)
    mod = model_run('C14', ins)
    chk.evals += len(ins)
    chk.count('configs x histories', len(ins))
    noom = nfmt = 0
    for a, o, m in zip(ins, impl, mod):
        if ' j ' in m:
            chk.nontrivial.add(hashlib.sha1(a.encode()).digest()[:8])
        noom += m.count(' oom')
        nfmt += m.count(' j ')
        cfgtxt = bytes.fromhex(a.split(' ')[2][6:]).decode()
        if 'BAD' in o or 'fmterr' in o or o in ('cfgerr', 'crash', 'hang', 'panic'):
            chk.record('scopeA-config', dict(concrete=True, input=a[:60000], impl=verdicts(o)[:3000], config=cfgtxt,
                       what='a message did not serialise as the property requires under a generated formatter configuration'), {})
        elif mask_oom(o, m) != m:
            chk.record('scopeA-config-bytes', dict(concrete=True, input=a[:60000], impl=mask_oom(o, m)[:6000], expected=m[:6000], config=cfgtxt,
                       what='the JSON / text form under a generated formatter configuration is not the configured fields in order with the documented renderings'), {})
    chk.count('messages whose JSON and text bytes were compared under a generated configuration', nfmt)
    chk.count('forms outside the formatter model (timestamps beyond year 9999 etc.), judged by the oracles only', noom)
    if ins and len(chk.samples) < 6:
        chk.samples.append(dict(stream='configs', config=bytes.fromhex(ins[0].split(' ')[2][6:]).decode()[:800],
                                impl=verdicts(impl[0])[:400]))
    binary_part(chk, random.Random(chk.seed * 31 + 130))
    return chk.finish(me)
