"""C10 sampled packet headers are dissected correctly at any capture length."""
import random
from pipefam import *

GEN = 'C10'
MODEL_FN = 'Model/Packet.v:parse_packet (run_parser, next_etype, next_proto, parse_loop)'
RULE = ('stream full: frames of the layered model (Ethernet, 0..2 VLAN tags, 0..4 MPLS labels > 15, IPv4|IPv6 with optional '
        'routing(type 4, 0..4 segments)/fragment header, TCP|UDP|ICMP|ICMPv6|other, tunnels GRE / GRE+Ethernet / IP-in-IP '
        'with an inner stack) with arbitrary field values, complete capture: implementation == Spec/Frame.v ref_frame; '
        'cuts: EVERY capture length 0..len of such frames: implementation == model, and every field the implementation '
        'reports equals the complete frame\'s value or is absent (repeated fields: a prefix) -- etype and vlan_id excepted, '
        'which report the last tag seen; dispatch sweeps: all 65536 ethertypes after Ethernet, all 256 protocols after '
        'IPv4 and IPv6 (exhaustive). non-trivial = at least three layers recognised; distinct by input bytes')
TRUSTED = ['Coq 8.16.1 kernel (coqc), vm_compute in Examples', 'extraction + ocaml/main.ml glue',
           'Go harness harness/pkt.go, bin/engine.py',
           'modelled, not verified: producer/proto/producer_packet.go']
ASSUMPTIONS = ['Model/Packet.v corresponds to ParsePacket with the default environment on all byte strings, as sampled/swept by this run',
               'protocol of an IPv6 packet with extension headers = the next-header field of the IPv6 header (as implemented); '
               'vlan_id of a QinQ frame = the inner tag (as implemented)']
STREAMS = [dict(name='full', stream=0, n=dict(quick=600, thorough=20000))]
REPEATED = {'#50', '#51', '#67', '#68', '#69'}
SKIP = {'#1e', '#1d'}


def nontrivial(inp, out):
    return out.count('#67 ') >= 3


def msg_dict(line):
    f = line.split(' ')
    d = {}
    if len(f) < 2 or f[0] != 'ok':
        return None
    toks = f[2:]
    for i in range(0, len(toks) - 1, 2):
        d.setdefault(toks[i], []).append(toks[i + 1])
    return d


LAYER_FIELDS = {  # layer code -> columns that layer fills at the outer level
    '#0': ['#1b', '#1c'],                                   # Ethernet: MACs (etype reports the last tag seen)
    '#5': ['#50', '#51'],                                   # MPLS: TTLs, labels
    '#1': ['#6', '#7', '#14', '#17', '#19', '#23', '#24', '#26'],  # IPv4
    '#2': ['#6', '#7', '#14', '#17', '#19', '#25'],         # IPv6
    '#b': ['#23', '#24', '#26'],                            # IPv6 fragment header
    '#a': ['#69', '#6a'],                                   # IPv6 routing header
    '#3': ['#15', '#16', '#1a'],                            # TCP
    '#4': ['#15', '#16'],                                   # UDP
    '#7': ['#1f', '#20'], '#8': ['#1f', '#20'],             # ICMP, ICMPv6
}


def frame_tags(d):
    """ethertypes and VLAN ids really present in the frame's Ethernet / 802.1Q headers"""
    ets, vids = [], []
    off = 12
    while off + 2 <= len(d):
        et = int.from_bytes(d[off:off + 2], 'big')
        ets.append(et)
        if et != 0x8100 or off + 4 > len(d):
            break
        vids.append(int.from_bytes(d[off + 2:off + 4], 'big'))
        off += 4
    return ets, vids


def subset_ok(full, cut, caplen, frame=None):
    """the property's quantifier: the parsed message agrees with the frame on every field whose header
    lies completely inside the capture (outer headers only); and every scalar it reports equals the
    frame's value or is absent"""
    E, O = msg_dict(full), msg_dict(cut)
    if O is None:
        return False
    # scalar fields: true value or unset (etype / vlan_id report the last tag seen; layer sizes of a
    # partially captured variable-size layer report the part seen)
    if frame is not None:
        # etype / vlan_id report the last tag seen: the value must be one of the frame's own tags, or the
        # value the complete frame reports (the IP version seen behind an MPLS stack)
        ets, vids = frame_tags(frame)
        ok_et = {'#%x' % e for e in ets} | set(E.get('#1e', []))
        ok_vid = {'#%x' % v for v in vids} | set(E.get('#1d', []))
        if any(v not in ok_et for v in O.get('#1e', [])) or any(v not in ok_vid for v in O.get('#1d', [])):
            return False
    for k, vs in O.items():
        if k in SKIP or k == '#68':
            continue
        ev = E.get(k, [])
        if k in REPEATED:
            if ev[:len(vs)] != vs:
                return False
        elif ev != vs:
            return False
    if len(O.get('#67', [])) != len(O.get('#68', [])):
        return False   # one size per layer of the stack
    stack, sizes = E.get('#67', []), [int(x[1:], 16) for x in E.get('#68', [])]
    # '#0' (Ethernet = 0) is absent from the proto3 packed list only if ... it is present as 0 in packed form
    end, seen_ip, tunnel = 0, 0, False
    for i, (code, sz) in enumerate(zip(stack, sizes)):
        end += sz
        if end > caplen:
            break
        if code == '#9':
            tunnel = True
        if code in ('#1', '#2'):
            seen_ip += 1
            if seen_ip > 1:
                tunnel = True
        if O.get('#67', [])[i:i + 1] != [code]:
            return False
        if tunnel and not (code == '#9'):
            continue
        if code in ('#3', '#4', '#7', '#8') and tunnel:
            continue
        if code == '#0' and i > 0:
            continue
        for col in LAYER_FIELDS.get(code, []):
            if code in ('#1', '#2') and col == '#14':
                pass
            if E.get(col, []) != O.get(col, []) and not (col in REPEATED and O.get(col, []) == E.get(col, [])):
                return False
    return True


def run(chk):
    me = sys.modules[__name__]
    std_prepare(chk)
    run_streams(chk, me, STREAMS, {})
    # every capture length
    nf = dict(quick=250, thorough=4000)[chk.tier]
    base = model_gen(GEN, 0, chk.seed + 3, 0, nf)
    lines, owner, caps, frames = [], [], [], []
    for a, e in base:
        _, d = payload_of(a)
        for k in range(len(d) + 1):
            lines.append('pkt =' + d[:k].hex())
            owner.append(e)
            caps.append(k)
            frames.append(d)
    impl = impl_run(chk.harness, lines, timeout=120.0)
    mod = model_run(GEN, lines)
    chk.evals += len(lines)
    chk.count('scopeB:cuts', len(lines))
    chk.exhaustive.append('every capture length 0..len of %d frames: %d parses' % (nf, len(lines)))
    bad = []
    for a, o, m, e, cap, fr in zip(lines, impl, mod, owner, caps, frames):
        if nontrivial(a, m):
            chk.nontrivial.add(hashlib.sha1(a.encode()).digest()[:8])
        if not subset_ok(e, o, cap, fr):
            chk.record('scopeA-cut', dict(concrete=True, input=a, impl=o, expected_full=e, model=m,
                                          what='a truncated capture reports a field that is neither the frame\'s value nor unset'), {})
        elif o != m:
            bad.append((a, o, m))
    resolve_scope_b(chk, me, bad, 'cuts', {}, None, STREAMS)
    # dispatch sweeps
    rng = random.Random(chk.seed)
    tailb = bytes(rng.randrange(256) for _ in range(44))
    sweep = ['pkt =' + (bytes(12) + e.to_bytes(2, 'big') + tailb).hex() for e in range(65536)]
    ip4 = bytes([0x45, 0, 0, 60, 0, 1, 0, 0, 64])
    ip6 = bytes([0x60, 0, 0, 0, 0, 20])
    for p in range(256):
        sweep.append('pkt =' + (bytes(12) + b'\x08\x00' + ip4 + bytes([p]) + bytes(10) + tailb).hex())
        sweep.append('pkt =' + (bytes(12) + b'\x86\xdd' + ip6 + bytes([p, 64]) + bytes(32) + tailb).hex())
    bad = run_scope_b(chk, me, sweep, 'dispatch-sweep', {}, timeout=120.0)
    chk.exhaustive.append('all 65536 ethertypes after Ethernet, all 256 protocols after IPv4 and after IPv6')
    resolve_scope_b(chk, me, bad, 'dispatch-sweep', {}, None, STREAMS)
    # random mutants of frames
    muts = []
    for a, _ in base[:100]:
        _, d = payload_of(a)
        muts += ['pkt =' + m.hex() for m in mutate_bytes(rng, d, 10)]
    bad = run_scope_b(chk, me, muts, 'mutants', {})
    resolve_scope_b(chk, me, bad, 'mutants', {}, None, STREAMS)
    return chk.finish(me)
