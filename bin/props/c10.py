"""C10 sampled packet headers are dissected correctly at any capture length."""
import random
from pipefam import *

GEN = 'C10'
MODEL_FN = 'Model/Packet.v:parse_packet (run_parser, next_etype, next_proto, parse_loop)'
RULE = ('stream full: frames of the layered model (Ethernet, 0..2 VLAN tags with priority / DEI bits 0 (as the property quantifies), 0..4 MPLS labels > 15, IPv4|IPv6 with optional '
        'routing(type 4, 0..4 segments)/fragment header, TCP (data offset 5..15: 0..10 option words)|UDP|ICMP|ICMPv6|other, tunnels GRE / GRE+Ethernet / IP-in-IP '
        'with an inner stack) with arbitrary field values, complete capture: implementation == Spec/Frame.v ref_frame; '
        'cuts: EVERY capture length 0..len of such frames: implementation == model, and every field the implementation '
        'reports equals the complete frame\'s value or is absent (repeated fields: a prefix) -- etype and vlan_id excepted, '
        'which report the last tag seen; ignored bytes: frames that differ only in header bytes or bits a receiver ignores (reserved octet of the fragment header, checksums, TCP sequence / acknowledgement / window / urgent, UDP length, IPv4 total length, IPv6 payload length, SRH flags and tag, MPLS traffic-class bits) must be dissected into the same message (implementation alone); dispatch sweeps: all 65536 ethertypes after Ethernet, all 256 protocols after '
        'IPv4 and IPv6 (exhaustive). non-trivial = at least three layers recognised; distinct by input bytes'
        ' The two paths a sampled frame really takes: every frame of a sample travels as the raw packet header record of an sFlow flow sample and as an IPFIX dataLinkFrameSection value (element 315), captured at EVERY length, through the real sflow:// and netflow:// pipes; judged on the implementation\'s outputs alone (cut capture vs complete capture: equal / absent / prefix; what a shorter capture reported the longer one reports too) and, for IPFIX, compared with the model.')
TRUSTED = ['Coq 8.16.1 kernel (coqc), vm_compute in Examples', 'extraction + ocaml/main.ml glue',
           'Go harness harness/pkt.go, bin/engine.py',
           'modelled, not verified: producer/proto/producer_packet.go']
ASSUMPTIONS = ['Model/Packet.v corresponds to ParsePacket with the default environment on all byte strings, as sampled/swept by this run',
               'protocol of an IPv6 packet with extension headers = the next-header field of the IPv6 header (as implemented); '
               'vlan_id of a QinQ frame = the inner tag (as implemented)']
STREAMS = [dict(name='full', stream=0, n=dict(quick=600, thorough=20000))]
REPEATED = {'#50', '#51', '#67', '#68', '#69'}
SKIP = {'#1e', '#1d'}


def nontrivial(inp, out):
    return out.count('#67 ') >= 3


def msg_dict(line):
    f = line.split(' ')
    d = {}
    if len(f) < 2 or f[0] != 'ok':
        return None
    toks = f[2:]
    for i in range(0, len(toks) - 1, 2):
        d.setdefault(toks[i], []).append(toks[i + 1])
    return d


LAYER_FIELDS = {  # layer code -> columns that layer fills at the outer level
    '#0': ['#1b', '#1c'],                                   # Ethernet: MACs (etype reports the last tag seen)
    '#5': ['#50', '#51'],                                   # MPLS: TTLs, labels
    '#1': ['#6', '#7', '#14', '#17', '#19', '#23', '#24', '#26'],  # IPv4
    '#2': ['#6', '#7', '#14', '#17', '#19', '#25'],         # IPv6
    '#b': ['#23', '#24', '#26'],                            # IPv6 fragment header
    '#a': ['#69', '#6a'],                                   # IPv6 routing header
    '#3': ['#15', '#16', '#1a'],                            # TCP
    '#4': ['#15', '#16'],                                   # UDP
    '#7': ['#1f', '#20'], '#8': ['#1f', '#20'],             # ICMP, ICMPv6
}


def frame_tags(d):
    """ethertypes and VLAN ids really present in the frame's Ethernet / 802.1Q headers"""
    ets, vids = [], []
    off = 12
    while off + 2 <= len(d):
        et = int.from_bytes(d[off:off + 2], 'big')
        ets.append(et)
        if et != 0x8100 or off + 4 > len(d):
            break
        vids.append(int.from_bytes(d[off + 2:off + 4], 'big'))
        off += 4
    return ets, vids


def subset_ok(full, cut, caplen, frame=None):
    """the property's quantifier: the parsed message agrees with the frame on every field whose header
    lies completely inside the capture (outer headers only); and every scalar it reports equals the
    frame's value or is absent"""
    E, O = msg_dict(full), msg_dict(cut)
    if O is None:
        return False
    # scalar fields: true value or unset (etype / vlan_id report the last tag seen; layer sizes of a
    # partially captured variable-size layer report the part seen)
    if frame is not None:
        # etype / vlan_id report the last tag seen: the value must be one of the frame's own tags, or the
        # value the complete frame reports (the IP version seen behind an MPLS stack)
        ets, vids = frame_tags(frame)
        ok_et = {'#%x' % e for e in ets} | set(E.get('#1e', []))
        ok_vid = {'#%x' % v for v in vids} | set(E.get('#1d', []))
        if any(v not in ok_et for v in O.get('#1e', [])) or any(v not in ok_vid for v in O.get('#1d', [])):
            return False
    for k, vs in O.items():
        if k in SKIP or k == '#68':
            continue
        ev = E.get(k, [])
        if k in REPEATED:
            if ev[:len(vs)] != vs:
                return False
        elif ev != vs:
            return False
    if len(O.get('#67', [])) != len(O.get('#68', [])):
        return False   # one size per layer of the stack
    stack, sizes = E.get('#67', []), [int(x[1:], 16) for x in E.get('#68', [])]
    # '#0' (Ethernet = 0) is absent from the proto3 packed list only if ... it is present as 0 in packed form
    end, seen_ip, tunnel = 0, 0, False
    for i, (code, sz) in enumerate(zip(stack, sizes)):
        end += sz
        if end > caplen:
            break
        if code == '#9':
            tunnel = True
        if code in ('#1', '#2'):
            seen_ip += 1
            if seen_ip > 1:
                tunnel = True
        if O.get('#67', [])[i:i + 1] != [code]:
            return False
        if tunnel and not (code == '#9'):
            continue
        if code in ('#3', '#4', '#7', '#8') and tunnel:
            continue
        if code == '#0' and i > 0:
            continue
        for col in LAYER_FIELDS.get(code, []):
            if code in ('#1', '#2') and col == '#14':
                pass
            if E.get(col, []) != O.get(col, []) and not (col in REPEATED and O.get(col, []) == E.get(col, [])):
                return False
    return True


def run(chk):
    me = sys.modules[__name__]
    std_prepare(chk)
    run_streams(chk, me, STREAMS, {})
    # every capture length
    nf = dict(quick=250, thorough=4000)[chk.tier]
    base = model_gen(GEN, 0, chk.seed + 3, 0, nf)
    lines, owner, caps, frames = [], [], [], []
    for a, e in base:
        _, d = payload_of(a)
        for k in range(len(d) + 1):
            lines.append('pkt =' + d[:k].hex())
            owner.append(e)
            caps.append(k)
            frames.append(d)
    impl = impl_run(chk.harness, lines, timeout=120.0)
    mod = model_run(GEN, lines)
    chk.evals += len(lines)
    chk.count('scopeB:cuts', len(lines))
    chk.exhaustive.append('every capture length 0..len of %d frames: %d parses' % (nf, len(lines)))
    bad = []
    for a, o, m, e, cap, fr in zip(lines, impl, mod, owner, caps, frames):
        if nontrivial(a, m):
            chk.nontrivial.add(hashlib.sha1(a.encode()).digest()[:8])
        if not subset_ok(e, o, cap, fr):
            chk.record('scopeA-cut', dict(concrete=True, input=a, impl=o, expected_full=e, model=m,
                                          what='a truncated capture reports a field that is neither the frame\'s value nor unset'), {})
        elif o != m:
            bad.append((a, o, m))
    resolve_scope_b(chk, me, bad, 'cuts', {}, None, STREAMS)
    # bytes a receiver ignores: frames that differ only in header bytes the RFCs tell a dissector to ignore (reserved
    # octets, checksums, sequence / acknowledgement numbers, window, lengths the dissector does not use, MPLS traffic-class
    # bits, SRH flags and tag; NOT the 802.1Q priority bits: the property quantifies over tags with priority 0) carry the same fields, so the message must be the same. The
    # positions come from the layer stack and sizes the reference reports for the complete frame.
    IGN = {'#b': [(1, 0xff)],                                              # IPv6 fragment header: reserved octet
           '#3': [(i, 0xff) for i in list(range(4, 12)) + list(range(14, 20))],   # TCP: seq, ack, window, checksum, urgent
           '#4': [(i, 0xff) for i in range(4, 8)],                         # UDP: length, checksum
           '#7': [(i, 0xff) for i in range(2, 8)], '#8': [(i, 0xff) for i in range(2, 8)],   # ICMP(v6): checksum, rest
           '#1': [(2, 0xff), (3, 0xff), (10, 0xff), (11, 0xff)],           # IPv4: total length, header checksum
           '#2': [(4, 0xff), (5, 0xff)],                                   # IPv6: payload length
           '#a': [(5, 0xff), (6, 0xff), (7, 0xff)]}                        # SRH: flags, tag
    ign_lines, ign_ref = [], []
    for a, e in base[:dict(quick=150, thorough=2500)[chk.tier]]:
        _, d = payload_of(a)
        E = msg_dict(e)
        if E is None:
            continue
        off = 0
        for code, sz in zip(E.get('#67', []), [int(x[1:], 16) for x in E.get('#68', [])]):
            spots = list(IGN.get(code, []))
            if code == '#5':
                spots = [(2 + 4 * i, 0x0e) for i in range(sz // 4)]      # MPLS: traffic-class bits of every entry
            for rel, mask in spots:
                if rel < sz and off + rel < len(d):
                    v = rng_ign = (d[off + rel] ^ (mask if mask != 0xff else (1 + (off * 7 + rel * 13) % 255)))
                    ign_lines.append('pkt =' + (d[:off + rel] + bytes([v]) + d[off + rel + 1:]).hex())
                    ign_ref.append('pkt =' + d.hex())
            off += sz
    uniq = sorted(set(ign_ref))
    ref_out = dict(zip(uniq, impl_run(chk.harness, uniq, timeout=120.0)))
    io = impl_run(chk.harness, ign_lines, timeout=120.0)
    chk.evals += len(ign_lines)
    chk.count('ignored header bytes changed', len(ign_lines))
    for a, r, o in zip(ign_lines, ign_ref, io):
        if o != ref_out[r]:
            chk.record('scopeA', dict(concrete=True, input=a, original=r, impl=o, impl_original=ref_out[r],
                       what='two frames that differ only in a header byte (or bits) a receiver ignores are dissected into different messages'), {})
    # dispatch sweeps
    rng = random.Random(chk.seed)
    tailb = bytes(rng.randrange(256) for _ in range(44))
    sweep = ['pkt =' + (bytes(12) + e.to_bytes(2, 'big') + tailb).hex() for e in range(65536)]
    ip4 = bytes([0x45, 0, 0, 60, 0, 1, 0, 0, 64])
    ip6 = bytes([0x60, 0, 0, 0, 0, 20])
    for p in range(256):
        sweep.append('pkt =' + (bytes(12) + b'\x08\x00' + ip4 + bytes([p]) + bytes(10) + tailb).hex())
        sweep.append('pkt =' + (bytes(12) + b'\x86\xdd' + ip6 + bytes([p, 64]) + bytes(32) + tailb).hex())
    bad = run_scope_b(chk, me, sweep, 'dispatch-sweep', {}, timeout=120.0)
    chk.exhaustive.append('all 65536 ethertypes after Ethernet, all 256 protocols after IPv4 and after IPv6')
    resolve_scope_b(chk, me, bad, 'dispatch-sweep', {}, None, STREAMS)
    # random mutants of frames
    muts = []
    for a, _ in base[:100]:
        _, d = payload_of(a)
        muts += ['pkt =' + m.hex() for m in mutate_bytes(rng, d, 10)]
    bad = run_scope_b(chk, me, muts, 'mutants', {})
    resolve_scope_b(chk, me, bad, 'mutants', {}, None, STREAMS)
    # ---- the sFlow path, judged on the implementation alone (sixth round, fix 5d701ef): every frame of a sample of the
    # generated frames travels as the raw packet header record of a flow sample, captured at EVERY length 0..len (the
    # record padded to a multiple of four, as on the wire), through the real sflow:// pipe. The property's sentence
    # is evaluated on the outputs themselves: every column of the cut capture's message -- other than the ethertype,
    # the VLAN id and the two layer lists -- equals the column of the COMPLETE capture's message, or is absent, or (list
    # columns) is a prefix of it; the layer stack is a prefix of the complete one. No model involved: a model that copies
    # the code cannot hide a violation here.
    def u32(x):
        return x.to_bytes(4, 'big')

    def sflow_dgram(frame_len, cap):
        rec = u32(1) + u32(frame_len) + u32(0) + u32(len(cap)) + cap + bytes((4 - len(cap) % 4) % 4)
        record = u32(1) + u32(len(rec)) + rec
        body = u32(7) + u32(1) + u32(100) + u32(1000) + u32(0) + u32(1) + u32(2) + u32(1) + record
        sample = u32(1) + u32(len(body)) + body
        return u32(5) + u32(1) + bytes([10, 0, 0, 9]) + u32(0) + u32(1) + u32(1000) + u32(1) + sample

    def columns(out):
        f = out.split(' ')
        if len(f) < 4 or f[0] != 'ok' or f[2] != 'm':
            return None
        cols = {}
        for i in range(3, len(f) - 1, 2):
            if f[i] in ('|', 'm'):      # the first message (the padding behind a short IPFIX value decodes as further, empty records)
                break
            cols.setdefault(f[i], []).append(f[i + 1])
        return cols
    def u16(x):
        return x.to_bytes(2, 'big')

    def ipfix_dgram(cap):
        # template 256 = one variable-length dataLinkFrameSection (element 315); one record: length prefix (1 or 3
        # octets, RFC 7011 section 7) + the captured bytes; the data set padded to a multiple of four
        tset = u16(2) + u16(12) + u16(256) + u16(1) + u16(315) + u16(65535)
        val = (bytes([len(cap)]) if len(cap) < 255 else b'\xff' + u16(len(cap))) + cap
        body = val + bytes((4 - len(val) % 4) % 4)
        dset = u16(256) + u16(4 + len(body)) + body
        return u16(10) + u16(16 + len(tset) + len(dset)) + u32(1700000000) + u32(1) + u32(7) + tset + dset
    sfl, meta = [], []      # meta: (path, frame, capture length)
    frames = []
    for a, _ in base[:dict(quick=14, thorough=150)[chk.tier]]:
        _, d = payload_of(a)
        frames.append(d[:400])
    for d in frames:
        for n in range(len(d) + 1):
            sfl.append('pipe sflow none =0a000009 #18c7 #1 =' + sflow_dgram(len(d), d[:n]).hex())
            meta.append(('sflow', d, n))
    nsf = len(sfl)
    # ... and the same frames as IPFIX dataLinkFrameSection values (element 315) through the real netflow:// pipe; there
    # `bytes` falls back to the length of the section, which is the capture's: not a field of the frame, not compared.
    # Captures of at least 4 bytes: the padding behind a shorter value would be as long as a record of this template
    # (RFC 7011 wants padding shorter than any record) and would be decoded as further, empty records.
    for d in frames:
        for n in range(4, len(d) + 1):
            sfl.append('pipe netflow none =0a000009 #7d0 #1 =' + ipfix_dgram(d[:n]).hex())
            meta.append(('ipfix', d, n))
    so = impl_run(chk.harness, sfl, timeout=120.0)
    chk.evals += len(sfl)
    chk.count('sFlow raw header records at every capture length, judged on the outputs', nsf)
    chk.count('IPFIX dataLinkFrameSection values at every capture length, judged on the outputs and compared with the model', len(sfl) - nsf)
    mo = model_run('C06', sfl[nsf:])
    badm = [(a, o, m) for a, o, m in zip(sfl[nsf:], so[nsf:], mo) if o != m]
    me.GEN = 'C06'
    resolve_scope_b(chk, me, badm, 'ipfix-315', {}, None, None)
    me.GEN = 'C10'
    full = {}
    for (path, d, n), o in zip(meta, so):
        if n == len(d):
            full[(path, d)] = columns(o)
    SKIP = ('#1e', '#1d', '#67', '#68')
    prevc, prevk = None, None
    for (path, d, n), a, o in zip(meta, sfl, so):
        c, ref = columns(o), full.get((path, d))
        if path == 'ipfix' and c is not None and ref is not None:
            c, ref = dict(c), dict(ref)
            c.pop('#9', None)
            ref.pop('#9', None)
        if n > 14:
            chk.nontrivial.add(hashlib.sha1(a.encode()).digest()[:8])
        why = None
        if c is None or ref is None:
            why = 'the datagram did not yield one message'
        else:
            for k, v in c.items():
                if k in SKIP:
                    continue
                if ref.get(k) != v and ref.get(k, [])[:len(v)] != v:
                    why = 'column %s of the cut capture is %s, of the complete capture %s' % (k, v, ref.get(k))
                    break
            if why is None and ref.get('#67', [])[:len(c.get('#67', []))] != c.get('#67', []):
                why = 'the layer stack of the cut capture is not a prefix of the complete one'
        # ... and what a shorter capture reported, the longer one reports too (same value, or a longer list): the columns
        # of a header that lies completely inside the capture do not depend on what follows it
        if why is None and prevc is not None and prevk == (path, d, n - 1):
            for k, v in prevc.items():
                if k in ('#1e', '#1d'):
                    continue
                if k == '#68':
                    v = v[:-1]      # the size of the header the shorter capture ended in may grow (an MPLS stack: 4 x labels present)
                if c.get(k, [])[:len(v)] != v:
                    why = 'column %s was %s at %d bytes and is %s at %d bytes' % (k, v, n - 1, c.get(k), n)
                    break
        prevc, prevk = c, (path, d, n)
        if why:
            chk.record('scopeA', dict(concrete=True, input=a, capture_length=n, frame=d.hex(), impl=o[:1500],
                       what='%s captured at %d of %d bytes: %s (every reported field must equal the frame\'s true value or be left unset)'
                            % ('sFlow raw header' if path == 'sflow' else 'IPFIX dataLinkFrameSection', n, len(d), why)), {})
    return chk.finish(me)
