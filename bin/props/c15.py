"""C15 parallel workers are race-free and equivalent to sequential processing."""
import subprocess
from engine import *

GEN = 'C15'
RACE = True
MODEL_FN = 'Model/Pipe.v:pipe_step (whole-datagram steps), message count of the sequential run'
RULE = ('workloads: a sequential prologue announcing templates (no redefinitions) and sampling rates for 4 exporter scopes '
        '(v9 and IPFIX, several domains), then 20..60 data-only v9/IPFIX messages, NetFlow v5 and sFlow datagrams processed by '
        '2, 3, 8, 16 or 32 goroutines calling DecodeFlow on one shared auto pipe assembled as cmd/goflow2 assembles it (Prometheus template system, Prometheus and panic wrappers) / producer / format / recording transport '
        'with random yields, harness built with -race, with no mapping file and under cmd/goflow2/mapping.yaml and a file mapping IPFIX / v9 elements and sFlow layers into custom fields (the compiled configuration is shared by the workers), once with an in-memory recording transport (bin format), once with the JSON format and the real file transport, and through the raw producer (-produce raw) with the JSON format incl. dense NetFlow v5 workloads (oracle: the sequential run); compared with a sequential run of the same datagrams on a fresh pipe: '
        'same number of Send calls as the model\'s sequential run, same multiset of payloads, and the messages of each datagram '
        '(recognised by its unique receive time) in the same order; the race detector must stay silent. '
        'non-trivial = a workload that produced at least 50 messages; distinct by input')
TRUSTED = ['Coq 8.16.1 kernel (coqc)', 'extraction + ocaml/main.ml glue', 'Go harness harness/par.go built with -race, bin/engine.py',
           'the Go race detector (observation, not proof)']
ASSUMPTIONS = ['data-race freedom is observed on the explored schedules by the race detector, not proved',
               'the sections under the template / sampling locks are atomic (Go sync.RWMutex)']
STREAMS = []


def nontrivial(inp, out):
    return True


def run(chk):
    me = sys.modules[__name__]
    std_prepare(chk, race=True)
    n = dict(quick=30, thorough=1500)[chk.tier]
    cases = model_gen(GEN, 0, chk.seed, 0, n)
    ins = [c[0] for c in cases]
    exp = [c[1] for c in cases]
    env = dict(os.environ, GORACE='halt_on_error=0')
    p = subprocess.run([chk.harness, 'run'], input=('\n'.join(ins) + '\n').encode(), stdout=subprocess.PIPE,
                       stderr=subprocess.PIPE, timeout=3000, env=env)
    outs = p.stdout.decode().split('\n')[:len(ins)]
    err = p.stderr.decode(errors='replace')
    chk.evals += len(ins)
    chk.count('workloads', len(ins))
    races = err.count('WARNING: DATA RACE')
    chk.notes.append('race detector reports: %d' % races)
    if races:
        chk.record('scopeA-race', dict(concrete=True, input=ins[0][:20000], impl=err[:6000],
                   what='the Go race detector reported a data race while workers decoded concurrently'), {})
    for a, e, o in zip(ins, exp, outs):
        try:
            if int(e.split(' ')[1][1:], 16) >= 50:
                chk.nontrivial.add(hashlib.sha1(a.encode()).digest()[:8])
        except Exception:
            pass
        if o != e:
            chk.record('scopeA', dict(concrete=True, input=a[:40000], impl=o, expected=e,
                       what='concurrent processing delivered a different multiset / per-datagram order / count than sequential processing'), {})
    chk.samples.append(dict(stream='workload', workers=ins[0].split(' ')[1], input=ins[0][:400], impl=outs[0], expected=exp[0]))
    # the same workloads under a mapping file (seventh round, seed C15-7): the compiled producer configuration -- the
    # NetFlow / IPFIX field mappers, the layer mappings, the formatter's field tables -- is one object shared by every
    # worker; with no mapping file most of it is nil and never touched. cmd/goflow2/mapping.yaml and a file with
    # ipfix / netflowv9 / sflow mappings into custom protobuf fields; oracle = the sequential run in the same process
    # (count, per-datagram order and multiset)
    import props.c12 as c12
    cins = []
    for i, a in enumerate(ins[:dict(quick=16, thorough=400)[chk.tier]]):
        f = a.split(' ')
        f[2] = 'mapping' if i % 2 else 'yaml:' + c12.CUSTOM_CFG.encode().hex()
        cins.append(' '.join(f))
    pcf = subprocess.run([chk.harness, 'run'], input=('\n'.join(cins) + '\n').encode(), stdout=subprocess.PIPE,
                         stderr=subprocess.PIPE, timeout=3000, env=env)
    couts = pcf.stdout.decode().split('\n')[:len(cins)]
    errc = pcf.stderr.decode(errors='replace')
    chk.evals += len(cins)
    chk.count('workloads under a mapping file', len(cins))
    if errc.count('WARNING: DATA RACE'):
        chk.record('scopeA-race', dict(concrete=True, input=cins[0][:20000], impl=errc[:6000],
                   what='the Go race detector reported a data race while workers decoded concurrently under a mapping file'), {})
    for a, e, o in zip(cins, exp, couts):
        fo = o.split(' ')
        # a mapping file may reject flows the default configuration accepts (a 16-byte element mapped to a varint field
        # fails the datagram): the number of messages is the sequential run's, not the model's under no mapping
        if not (len(fo) == 4 and fo[0] == 'msgs' and fo[1] != '#0' and fo[2] == 'diff' and fo[3] == '#0'):
            chk.record('scopeA', dict(concrete=True, input=a[:40000], impl=o, expected=e,
                       what='under a mapping file concurrent processing delivered a different multiset / per-datagram order / count than sequential processing'), {})
    chk.samples.append(dict(stream='workload-mapping', input=cins[0][:300], impl=couts[0], expected=exp[0]))
    # the same workloads through the JSON format and the real file transport (one shared O_APPEND file)
    fins = ['parfile' + a[3:] for a in ins]
    # one process per workload: the registered file transport is initialised once per process, as in the collector
    fouts, err2 = [], ''
    for fl in fins:
        p2 = subprocess.run([chk.harness, 'run'], input=(fl + '\n').encode(), stdout=subprocess.PIPE,
                            stderr=subprocess.PIPE, timeout=600, env=env)
        fouts.append((p2.stdout.decode().split('\n') + [''])[0])
        err2 += p2.stderr.decode(errors='replace')
    chk.evals += len(fins)
    chk.count('workloads through the file transport', len(fins))
    if err2.count('WARNING: DATA RACE'):
        chk.record('scopeA-race', dict(concrete=True, input=fins[0][:20000], impl=err2[:6000],
                   what='the Go race detector reported a data race (file transport workloads)'), {})
    for a, e, o in zip(fins, exp, fouts):
        if o != e:
            chk.record('scopeA', dict(concrete=True, input=a[:40000], impl=o, expected=e,
                       what='workers sharing the file transport wrote a different multiset of lines / per-datagram order than sequential processing'), {})
    chk.samples.append(dict(stream='file-transport', input=fins[0][:300], impl=fouts[0], expected=exp[0]))
    # the RAW producer (cmd/goflow2 -produce raw): the decoded packet itself is what is formatted, after Produce returned.
    # The generated workloads, and dense NetFlow v5 workloads (300 datagrams with distinct records from 4 exporters, 16
    # workers), JSON format; oracle = the sequential run of the same datagrams (the property's own formulation)
    rins = ['parraw' + a[3:] for a in ins[:dict(quick=12, thorough=200)[chk.tier]]]
    import random as _r
    rng = _r.Random(chk.seed * 31 + 15)
    for _ in range(dict(quick=6, thorough=60)[chk.tier]):
        q = []
        for i in range(300):
            k = rng.randrange(1, 31)
            hdr = (5).to_bytes(2, 'big') + k.to_bytes(2, 'big') + rng.randrange(2 ** 32).to_bytes(4, 'big') + bytes(16)
            d = hdr + b''.join(bytes([rng.randrange(256)]) * 48 for _ in range(k))
            q += ['=0a0000%02x' % (1 + i % 4), '#7d0', '#%x' % (i + 1), '=' + d.hex()]
        rins.append('parraw #10 none #0 ' + ' '.join(q))
    p3 = subprocess.run([chk.harness, 'run'], input=('\n'.join(rins) + '\n').encode(), stdout=subprocess.PIPE,
                        stderr=subprocess.PIPE, timeout=3000, env=env)
    routs = p3.stdout.decode().split('\n')[:len(rins)]
    err3 = p3.stderr.decode(errors='replace')
    chk.evals += len(rins)
    chk.count('workloads through the raw producer', len(rins))
    if err3.count('WARNING: DATA RACE'):
        chk.record('scopeA-race', dict(concrete=True, input=rins[-1][:20000], impl=err3[:6000],
                   what='the Go race detector reported a data race (raw producer workloads)'), {})
    for a, o in zip(rins, routs):
        f = o.split(' ')
        if not (len(f) == 4 and f[0] == 'units' and f[2] == 'diff' and f[3] == '#0' and f[1] != '#0'):
            chk.record('scopeA', dict(concrete=True, input=a[:40000], impl=o, expected='units #n diff #0',
                       what='workers sharing a pipe with the raw producer delivered a different multiset of payloads than sequential processing'), {})
    chk.samples.append(dict(stream='raw-producer', input=rins[-1][:300], impl=routs[-1]))
    return chk.finish(me)
