"""C08 NetFlow v5/v9/IPFIX fields map to the flow message as documented."""
import random
from pipefam import *

GEN = 'C06'
MODEL_FN = 'Model/ProdNF.v:nf_field / convert_nf / convert_v5 / produce_nf, stamp_nf, Model/Pipe.v:unmap'
RULE = ('sweep (exhaustive): every element id 0..511 x every width 0..9 x version {9,10} as a single-field template plus one '
        'data record with a random value, through the real NetFlowPipe (10240 messages); multi: random records over the '
        'documented ids (1,2,4..18,21..24,27..32,47,52,54,56..60,62,63,70..72,80,81,88,89,138,139,140,150..159,176..179,197,312) '
        'in random template order with legal widths and random header values (uptime, export time, sequence, domain) from '
        'IPv4 / IPv6 / IPv4-mapped exporters; hist: the C06 histories incl. v5 datagrams. Compared: every message column '
        'except sampling_rate; doc table: every (column, version, element id) pair named by the field table of docs/protocols.md (re-read '
        'on every run) must fill that column in a single-field message through the real pipe. '
        'non-trivial = a message with at least three columns; distinct by input')
TRUSTED = ['Coq 8.16.1 kernel (coqc), vm_compute in c08_doc_table_implemented (finite table)', 'translator bin/gen_doctable.py (docs/protocols.md -> Spec/DocTable.v)', 'extraction + ocaml/main.ml glue', 'Go harness harness/pipe.go, bin/engine.py, bin/pipefam.py',
           'modelled, not verified: producer/proto/producer_nf.go ConvertNetFlowDataSet, producer_nflegacy.go, proto.go enrichment']
ASSUMPTIONS = ['Model/ProdNF.v corresponds to the producer, as swept exhaustively over (id, width, version) and sampled otherwise',
               'the documentation table is read by bin/gen_doctable.py (last two cells of a row = NetFlow v9 / IPFIX, ids = integers in parentheses); prose outside the table is not interpreted']
STREAMS = [dict(name='hist', stream=0, n=dict(quick=120, thorough=3000), timeout=120.0)]
DOC = [1, 2] + list(range(4, 19)) + list(range(21, 25)) + list(range(27, 33)) + [47, 52, 54] + list(range(56, 61)) + \
      [62, 63, 70, 71, 72, 80, 81, 88, 89, 138, 139, 140] + list(range(150, 160)) + list(range(176, 180)) + [197, 312]
ADDR = {8: 4, 12: 4, 15: 4, 18: 4, 27: 16, 28: 16, 62: 16, 63: 16, 47: 4, 140: 16}
EXPORTERS = ['=0a000001 #7d0', '=20010db8000000000000000000000001 #7d0', '=00000000000000000000ffff0a000001 #7d0']


def project(line):
    return project_cols(line, drop={'#3'})


def nontrivial(inp, out):
    return any(len(m) >= 3 for st in split_steps(out) for m in step_msgs(st)[2])


def nf_msg(ver, hdr, fields, values):
    """one message: template set (id 256) + data set with one record"""
    tmpl = b''.join(i.to_bytes(2, 'big') + w.to_bytes(2, 'big') for i, w in fields)
    tset = ((0 if ver == 9 else 2).to_bytes(2, 'big') + (4 + 4 + len(tmpl)).to_bytes(2, 'big') +
            (256).to_bytes(2, 'big') + len(fields).to_bytes(2, 'big') + tmpl)
    rec = b''.join(values)
    dset = (256).to_bytes(2, 'big') + (4 + len(rec)).to_bytes(2, 'big') + rec
    body = tset + dset
    if ver == 9:
        up, secs, seq, dom = hdr
        h = (9).to_bytes(2, 'big') + (2).to_bytes(2, 'big') + up.to_bytes(4, 'big') + secs.to_bytes(4, 'big') + \
            seq.to_bytes(4, 'big') + dom.to_bytes(4, 'big')
    else:
        secs, seq, dom = hdr[1:]
        h = (10).to_bytes(2, 'big') + (16 + len(body)).to_bytes(2, 'big') + secs.to_bytes(4, 'big') + \
            seq.to_bytes(4, 'big') + dom.to_bytes(4, 'big')
    return h + body


def rnd32(rng):
    return rng.choice([0, 1, 2 ** 31, 2 ** 32 - 1, rng.randrange(2 ** 32)])


def sweep_lines(rng):
    lines = []
    for ver in (9, 10):
        for fid in range(512):
            for w in range(10):
                val = bytes(rng.randrange(256) for _ in range(w))
                hdr = (rnd32(rng), rnd32(rng), rnd32(rng), rnd32(rng))
                d = nf_msg(ver, hdr, [(fid, w)], [val])
                lines.append('pipe netflow none %s #%x =%s' % (rng.choice(EXPORTERS), rng.randrange(2 ** 62), d.hex()))
    return lines


def multi_lines(rng, n):
    lines = []
    for _ in range(n):
        ver = rng.choice((9, 10))
        k = rng.randrange(1, 14)
        ids = rng.sample(DOC, k)
        fields, vals = [], []
        for i in ids:
            w = ADDR.get(i) or rng.choice([1, 2, 3, 4, 5, 6, 7, 8])
            if i == 315:
                continue
            fields.append((i, w))
            vals.append(bytes(rng.choice([0, 255, rng.randrange(256)]) for _ in range(w)))
        hdr = (rnd32(rng), rnd32(rng), rnd32(rng), rnd32(rng))
        d = nf_msg(ver, hdr, fields, vals)
        lines.append('pipe netflow none %s #%x =%s' % (rng.choice(EXPORTERS), rng.randrange(2 ** 62), d.hex()))
    return lines


def doc_table_part(chk, rng):
    """the documentation table of the repository under check (translator bin/gen_doctable.py, theorem
    c08_doc_table_implemented) against the IMPLEMENTATION: for every (column, version, element id) the table
    names, a single-field message with that element is sent through the real pipe and must fill that column"""
    import gen_doctable
    try:
        rows = [r[:3] for r in gen_doctable.parse(open(os.path.join(REPO, 'docs', 'protocols.md')).read()) if r[1] or r[2]]
    except OSError:
        rows = []
    if not rows:
        chk.record('doc', dict(concrete=False, what='the field table of docs/protocols.md was not found: Spec/DocTable.v is not tied to the documentation any more'), {})
        return
    names = sorted({r[0] for r in rows})
    cols = dict(zip(names, model_run('C08T', ['col ' + n for n in names])))
    pairs = [(n, 9, i) for n, a, b in rows for i in a] + [(n, 10, i) for n, a, b in rows for i in b]
    touched = model_run('C08T', ['touch #%x #%x' % (v, i) for _, v, i in pairs])
    lines, meta = [], []
    for (n, ver, fid), mt in zip(pairs, touched):
        col = cols.get(n, 'nocol')
        for w in ([ADDR[fid]] if fid in ADDR else [1, 2, 4, 8]):
            val = bytes(rng.randrange(1, 256) for _ in range(w))
            d = nf_msg(ver, (1000, 1700000000, 7, 1), [(fid, w)], [val])
            lines.append('pipe netflow none %s #%x =%s' % (EXPORTERS[0], 1700000000 * 10 ** 9, d.hex()))
            meta.append((n, ver, fid, col, mt))
    impl = impl_run(chk.harness, lines, timeout=60.0)
    chk.evals += len(lines)
    chk.count('documentation table pairs', len(pairs))
    chk.exhaustive.append('every (column, version, element) pair of the field table of docs/protocols.md: %d pairs, %d single-field messages' % (len(pairs), len(lines)))
    by = {}
    for (n, ver, fid, col, mt), o in zip(meta, impl):
        ok = any(col in [c for c, _ in m] for st in split_steps(o) for m in step_msgs(st)[2])
        by.setdefault((n, ver, fid, col, mt), []).append(ok)
    for (n, ver, fid, col, mt), oks in by.items():
        if col == 'nocol' or not any(oks):
            chk.record('doc', dict(concrete=True, input='docs/protocols.md row %s: %s element %d' % (n, 'NetFlow v9' if ver == 9 else 'IPFIX', fid),
                       impl='no message column %s in any single-field message with element %d (widths tried: %d)' % (col, fid, len(oks)),
                       model='the element writes columns ' + mt,
                       what='the documentation table names an element for a column that the producer does not fill from it'), {})
    chk.samples.append(dict(stream='doc-table', rows=len(rows), pairs=len(pairs), example=lines[0][:200], impl=impl[0][:200]))


def run(chk):
    me = sys.modules[__name__]
    std_prepare(chk)
    run_streams(chk, me, STREAMS, {})
    doc_table_part(chk, random.Random(chk.seed * 31 + 88))
    doc_column_part(chk, 'v5')
    rng = random.Random(chk.seed * 31 + 8)
    sw = sweep_lines(rng)
    bad = run_scope_b(chk, me, sw, 'sweep', {}, timeout=120.0)
    chk.exhaustive.append('element id 0..511 x width 0..9 x version {9,10}: %d single-field messages' % len(sw))
    resolve_scope_b(chk, me, bad, 'sweep', {}, None, STREAMS)
    ml = multi_lines(rng, dict(quick=3000, thorough=60000)[chk.tier])
    bad = run_scope_b(chk, me, ml, 'multi', {}, timeout=120.0)
    resolve_scope_b(chk, me, bad, 'multi', {}, None, STREAMS)
    return chk.finish(me)
