"""C18 receiver start/stop never deadlocks and stopping loses nothing accepted."""
import itertools, random, signal, socket, subprocess, tempfile, time
from engine import *

GEN = 'C17'
MODEL_FN = 'Model/Shutdown.v:step (main.go shutdown sequence; tie: the end-to-end runs) ; Model/RecvStop.v:start_call / stop_call (error discipline), sstep (Stop protocol)'
RULE = ('call sequences: EVERY sequence over {Start, Stop} of length 1..6 (126 sequences) x receiver configurations '
        '(sockets, workers, queue {0,8,1000}, blocking) with and without traffic running during the calls: every call returns '
        'within 3 s with exactly the error/no-error the model predicts, after every successful Start under traffic the decoder is called again within 2 s (also after restarts), goroutine count returns to the baseline, the port can be '
        'bound again; queued-before-Stop: 100..600 datagrams read and queued behind decoders that are released only after Stop '
        'was called: when Stop returns every datagram read has been decoded; end to end: the goflow2 binary built from /repo '
        'listening on netflow://, N NetFlow v5 datagrams, SIGTERM -> exit status 0 and one JSON line per flow record in the file; and with a BACKLOG (the scenario of Model/Shutdown.v, c18_shutdown_loses_nothing: written = taken in, nothing handed to a closed output): two listeners (the default shape), traffic to both, output to a FIFO that is read only after SIGTERM, so that the workers are blocked in the output and the queue is full of accepted datagrams when the signal arrives -> every record comes out, exit status 0. '
        'non-trivial = a sequence containing at least one successful Start and Stop; distinct by parameters')
TRUSTED = ['Coq 8.16.1 kernel (coqc)', 'Go harness harness/udpseq.go, bin/engine.py', 'modelled, not verified: utils/udp.go Start/Stop/init; cmd/goflow2/main.go shutdown order is exercised, not modelled']
ASSUMPTIONS = ['liveness is proved as progress + strictly decreasing measure on the model; real time and the OS are observed (3 s watchdog per call)',
               'a decoder call eventually returns (decoders_not_blocked)']
STREAMS = []


def nontrivial(inp, out):
    return True


def expected_calls(calls):
    started, out = False, []
    for c in calls:
        if c == 1:
            out.append('S1' if started else 'S0')
            started = True
        else:
            out.append('T0' if started else 'T1')
            started = False
    return out


def end_to_end(chk, n):
    import shutil
    bdir = tempfile.mkdtemp(prefix='c18bin', dir='/root/scratch')     # own directory: checks may run side by side
    exe = os.path.join(bdir, 'goflow2')
    p = sh('go build -o %s ./cmd/goflow2' % exe, cwd=REPO, env=GOENV, timeout=600, check=False)
    if p.returncode != 0:
        chk.notes.append('goflow2 binary did not build: ' + p.stdout[-300:])
        shutil.rmtree(bdir, ignore_errors=True)
        return None
    out = tempfile.mktemp(prefix='e2e', dir='/root/scratch')
    s = socket.socket(socket.AF_INET, socket.SOCK_DGRAM)
    s.bind(('127.0.0.1', 0))
    port = s.getsockname()[1]
    s.close()
    pr = subprocess.Popen([exe, '-listen', 'netflow://127.0.0.1:%d' % port, '-transport', 'file', '-transport.file', out,
                           '-format', 'json', '-addr', '', '-loglevel', 'error'], stdout=subprocess.PIPE, stderr=subprocess.PIPE)
    # wait until the collector listens (its port shows up in /proc/net/udp), at most 30 s: datagrams sent before that
    # are nobody's to lose
    hexport = ':%04X ' % port
    for _ in range(600):
        try:
            if hexport in open('/proc/net/udp').read():
                break
        except OSError:
            pass
        time.sleep(0.05)
    time.sleep(0.1)

    def written():
        try:
            return open(out, 'rb').read().count(b'\n')
        except OSError:
            return 0
    tx = socket.socket(socket.AF_INET, socket.SOCK_DGRAM)
    recs = 0
    for i in range(n):
        k = 1 + i % 5
        hdr = (5).to_bytes(2, 'big') + k.to_bytes(2, 'big') + bytes(20)
        tx.sendto(hdr + b''.join(bytes([i % 256]) * 48 for _ in range(k)), ('127.0.0.1', port))
        recs += k
        if i % 20 == 19:
            time.sleep(0.002)
        if i % 100 == 99:
            # never more than ~100 datagrams (< 30 KB) ahead of what the collector has taken in: the kernel's socket
            # buffer cannot overflow, whatever the load on the machine (a datagram the kernel drops was never accepted)
            t0 = time.time()
            while written() < recs - 600 and time.time() - t0 < 30:
                time.sleep(0.01)
    # let the collector take in what is still in the kernel's socket buffer (a datagram it never read is not its to
    # lose): until everything is written or nothing has moved for 10 s; that Stop also finishes what sits in the QUEUE is
    # what the udpstop runs above establish, with the decoder held by a hook
    last, t_last, t0 = -1, time.time(), time.time()
    while time.time() - t0 < 120:
        w = written()
        if w >= recs:
            break
        if w != last:
            last, t_last = w, time.time()
        elif time.time() - t_last > 10:
            break
        time.sleep(0.02)
    pr.send_signal(signal.SIGTERM)
    try:
        rc = pr.wait(timeout=30)
    except subprocess.TimeoutExpired:
        pr.kill()
        rc = 'timeout'
    lines = 0
    try:
        lines = sum(1 for _ in open(out))
        os.remove(out)
    except Exception:
        pass
    shutil.rmtree(bdir, ignore_errors=True)
    return rc, recs, lines


def end_to_end_backlog(chk, n):
    """SIGTERM with a BACKLOG (seventh round, seed C18-7): the collector as it is started by default -- two listeners --
    writes to a FIFO nobody reads yet, so its workers block in the output and the first listener's queue fills with
    datagrams it has taken in; SIGTERM arrives then; only afterwards the FIFO is drained. Every record of every datagram
    the collector read from its socket must come out, and the exit status must be 0."""
    import shutil
    bdir = tempfile.mkdtemp(prefix='c18bl', dir='/root/scratch')
    exe = os.path.join(bdir, 'goflow2')
    p = sh('go build -o %s ./cmd/goflow2' % exe, cwd=REPO, env=GOENV, timeout=600, check=False)
    if p.returncode != 0:
        shutil.rmtree(bdir, ignore_errors=True)
        return None
    fifo = os.path.join(bdir, 'out.fifo')
    os.mkfifo(fifo)
    rfd = os.open(fifo, os.O_RDONLY | os.O_NONBLOCK)      # a reader exists (the collector can open the FIFO) but does not read
    ports = []
    for _ in range(2):
        s = socket.socket(socket.AF_INET, socket.SOCK_DGRAM)
        s.bind(('127.0.0.1', 0))
        ports.append(s.getsockname()[1])
        s.close()
    pr = subprocess.Popen([exe, '-listen', 'netflow://127.0.0.1:%d,netflow://127.0.0.1:%d' % tuple(ports), '-transport', 'file',
                           '-transport.file', fifo, '-format', 'json', '-addr', '', '-loglevel', 'error'],
                          stdout=subprocess.PIPE, stderr=subprocess.PIPE)

    def rxq(port):
        hexport = ':%04X ' % port
        try:
            for l in open('/proc/net/udp'):
                if hexport in l:
                    return int(l.split()[4].split(':')[1], 16)
        except OSError:
            pass
        return None
    for _ in range(600):
        if rxq(ports[0]) is not None and rxq(ports[1]) is not None:
            break
        time.sleep(0.05)
    time.sleep(0.2)
    tx = socket.socket(socket.AF_INET, socket.SOCK_DGRAM)
    recs = 0
    for i in range(n):
        k = 1 + i % 5
        hdr = (5).to_bytes(2, 'big') + k.to_bytes(2, 'big') + bytes(20)
        # two datagrams in three to the FIRST listener (the one main.go stops first), one in three to the second
        tx.sendto(hdr + b''.join(bytes([i % 256]) * 48 for _ in range(k)), ('127.0.0.1', ports[0 if i % 3 else 1]))
        recs += k
        if i % 20 == 19:
            time.sleep(0.005)
            t0 = time.time()
            while max(rxq(ports[0]) or 0, rxq(ports[1]) or 0) > 60000 and time.time() - t0 < 20:   # never near the socket buffer's limit
                time.sleep(0.01)
    # until the collector has read everything from its sockets (rx queues empty, twice 0.2 s apart)
    t0, calm = time.time(), 0
    while time.time() - t0 < 60 and calm < 2:
        calm = calm + 1 if rxq(ports[0]) == 0 and rxq(ports[1]) == 0 else 0
        time.sleep(0.2)
    taken_all = calm >= 2
    pr.send_signal(signal.SIGTERM)
    time.sleep(0.3)
    # now drain the FIFO until the collector has closed it
    import select
    buf = bytearray()
    t0 = time.time()
    while time.time() - t0 < 90:
        r, _, _ = select.select([rfd], [], [], 0.5)
        if r:
            try:
                b = os.read(rfd, 1 << 16)
            except BlockingIOError:
                continue
            if not b:
                if pr.poll() is not None:
                    break
                time.sleep(0.02)
                continue
            buf += b
        elif pr.poll() is not None:
            break
    try:
        rc = pr.wait(timeout=30)
    except subprocess.TimeoutExpired:
        pr.kill()
        rc = 'timeout'
    try:
        while True:
            b = os.read(rfd, 1 << 16)
            if not b:
                break
            buf += b
    except (BlockingIOError, OSError):
        pass
    os.close(rfd)
    shutil.rmtree(bdir, ignore_errors=True)
    return rc, recs, bytes(buf).count(b'\n'), taken_all


def rerun_foreign(chk, lines, outs, timeout):
    """A run that met a socket of ANOTHER process on its port (the kernel handed the same ephemeral port to somebody else
    between two of the harness's binds: checks running side by side, other tests on the machine) says nothing about
    the receiver: it is repeated, up to three times, on a fresh port."""
    for _ in range(3):
        idx = [i for i, o in enumerate(outs) if 'foreignport' in o]
        if not idx:
            break
        chk.notes.append('%d run(s) repeated: a socket of another process was bound to the port' % len(idx))
        again = impl_run(chk.harness, [lines[i] for i in idx], timeout=timeout, limit_mem=False)
        for i, o in zip(idx, again):
            outs[i] = o
    return outs


def run(chk):
    me = sys.modules[__name__]
    std_prepare(chk)
    rng = random.Random(chk.seed * 31 + 18)
    cfgs = [(1, 1, 0, 0), (2, 2, 8, 0), (2, 4, 1000, 1), (4, 8, 8, 1)]
    lines, exps = [], []
    seqs = [s for L in range(1, 7) for s in itertools.product((0, 1), repeat=L)]
    if chk.tier == 'quick':
        plan = [(s, rng.choice(cfgs), rng.randrange(2)) for s in seqs]
    else:
        plan = [(s, c, t) for s in seqs for c in cfgs for t in (0, 1)]
    for s, c, t in plan:
        lines.append('udpseq #%x #%x #%x #%x =%s #%x' % (c[0], c[1], c[2], c[3], bytes(s).hex(), t))
        exps.append(' '.join(expected_calls(s)) + ' goroutinesok portok')
    impl = rerun_foreign(chk, lines, impl_run(chk.harness, lines, timeout=300.0, limit_mem=False), 300.0)
    chk.evals += len(lines)
    chk.count('call sequences', len(lines))
    chk.exhaustive.append('every Start/Stop call sequence of length 1..6 (126)')
    for a, o, e in zip(lines, impl, exps):
        if 'S0' in e and 'T0' in e:
            chk.nontrivial.add(hashlib.sha1(a.encode()).digest()[:8])
        if o != e:
            chk.record('scopeA', dict(concrete=True, input=a, impl=o, expected=e,
                       what='a Start/Stop call hung, returned the wrong error status, leaked goroutines or left the port bound'), {})
    chk.samples.append(dict(stream='udpseq', input=lines[5], impl=impl[5], expected=exps[5]))
    # queued before Stop => decoded
    sl = ['udpstop #%x #%x #%x' % (rng.choice([1, 2, 4, 8]), rng.choice([1000, 2000]), rng.choice([100, 300, 600]))
          for _ in range(dict(quick=12, thorough=150)[chk.tier])]
    so = rerun_foreign(chk, sl, impl_run(chk.harness, sl, timeout=120.0, limit_mem=False), 120.0)
    chk.evals += len(sl)
    chk.count('queued-before-stop', len(sl))
    for a, o in zip(sl, so):
        chk.nontrivial.add(hashlib.sha1(a.encode()).digest()[:8])
        if not (o.startswith('stopok alldecoded') and o.endswith('restartok')):
            chk.record('scopeA', dict(concrete=True, input=a, impl=o, expected='stopok alldecoded #n restartok',
                       what='Stop returned (or hung) although datagrams queued before it were not decoded, or the receiver could not be started again'), {})
    # the same in BLOCKING mode with a queue of 0 / 1 / 8 and several sockets: every worker is held inside its decoder and
    # every reader stands with a datagram it cannot hand over when Stop is called. Stop must return once the decoders are
    # released; what was QUEUED is decoded (a datagram still in a reader's hand was never queued: at most one per socket may
    # be missing); the receiver starts and stops again
    bl = []
    for _ in range(dict(quick=16, thorough=120)[chk.tier]):
        sockets = rng.choice([1, 2, 4])
        bl.append('udpstop #%x #%x #%x #%x #1' % (rng.choice([1, 2, 4]), rng.choice([0, 0, 1, 8]), rng.choice([64, 200]), sockets))
    bo = rerun_foreign(chk, bl, impl_run(chk.harness, bl, timeout=120.0, limit_mem=False), 120.0)
    chk.evals += len(bl)
    chk.count('blocking: held decoders, readers waiting to hand over, then Stop', len(bl))
    for a, o in zip(bl, bo):
        chk.nontrivial.add(hashlib.sha1(a.encode()).digest()[:8])
        f = o.split(' ')
        sockets = int(a.split(' ')[4][1:], 16)
        ok = len(f) >= 4 and f[0] == 'stopok' and f[-1] == 'restartok' and \
            (f[1] == 'alldecoded' or (f[1].startswith('LOST') and f[1][4:].isdigit() and int(f[1][4:]) <= sockets))
        if not ok:
            chk.record('scopeA', dict(concrete=True, input=a, impl=o, expected='stopok alldecoded|LOST<=sockets #n restartok',
                       what='blocking receiver with held decoders and waiting readers: Stop hung, lost queued datagrams, or the receiver could not be started again'), {})
    chk.samples.append(dict(stream='udpstop-blocking', input=bl[0], impl=bo[0]))
    chk.samples.append(dict(stream='udpstop', input=sl[0], impl=so[0]))
    # end to end
    r = end_to_end(chk, dict(quick=200, thorough=2000)[chk.tier])
    if r is not None:
        rc, recs, nlines = r
        chk.evals += 1
        chk.notes.append('end to end: exit=%s records sent=%d lines written=%d' % (rc, recs, nlines))
        if rc != 0 or nlines != recs:
            chk.record('scopeA', dict(concrete=True, input='goflow2 binary: %d v5 records then SIGTERM' % recs, impl='exit=%s lines=%d' % (rc, nlines),
                       expected='exit=0 lines=%d' % recs, what='SIGTERM did not make the collector finish what it took in, flush and exit 0'), {})
    rb = end_to_end_backlog(chk, dict(quick=300, thorough=1500)[chk.tier])
    if rb is not None:
        rc, recs, nlines, taken_all = rb
        chk.evals += 1
        chk.notes.append('end to end with a backlog at SIGTERM (two listeners, output FIFO drained after the signal): exit=%s records sent=%d lines written=%d all taken in=%s' % (rc, recs, nlines, taken_all))
        # judged only when the collector had read every datagram from its socket before the signal (otherwise the
        # datagrams still in the kernel's buffer were never accepted and may be lost)
        if taken_all and (rc != 0 or nlines != recs):
            chk.record('scopeA', dict(concrete=True, input='goflow2 binary, two listeners, output FIFO not read until after SIGTERM: %d v5 records to both listeners, all read from the sockets, then SIGTERM' % recs,
                       impl='exit=%s lines=%d' % (rc, nlines), expected='exit=0 lines=%d' % recs,
                       what='SIGTERM with a backlog: the collector did not finish the datagrams it had taken in before closing the output'), {})
    return chk.finish(me)
