"""C20 Kafka output: all messages sent before Close reach the broker, keyed."""
import random
from engine import *

GEN = 'C17'
MODEL_FN = 'Model/Kafka.v:ksends (the driver), sarama contract as Section hypotheses'
RULE = ('the registered kafka transport, configured through its flags, against sarama\'s in-process MockBroker (4 partitions): '
        'batches of 1..2000 messages with keys from a set of 1..8 and values of 1..5400 bytes, flush bytes in {1, 400, 10000, '
        '100000}, hashing on/off; fault-free: after Close the records of all ProduceRequests the broker received are exactly '
        'the sent multiset (none missing, duplicated or foreign) and with hashing no key appears on two partitions; fault '
        'scripts (every produce request answered with an error; broker closed mid-stream): Close returns within 120 s (the retry and back-off policy of sarama takes about 45 s for 400 buffered messages), a draining '
        'reader of the error stream saw at least one error, every record the broker received equals a sent one. '
        'non-trivial = a batch of at least 50 messages; distinct by parameters')
TRUSTED = ['Coq 8.16.1 kernel (coqc); Section hypotheses close_flushes, hash_partitioner (sarama contract) listed by Print Assumptions as section variables, not axioms',
           'Go harness harness/kafka.go (reads the mock broker\'s request history by reflection), bin/engine.py',
           'sarama v1.38.1 AsyncProducer and MockBroker: trusted, not modelled']
ASSUMPTIONS = ['sarama flushes every accepted message before Close returns when the broker is reachable (contract, observed here)',
               'Kafka protocol version 0.11.0.0 is used with the mock (its produce response v3 is the one the mock encodes correctly)',
               'the error forwarder may discard errors when no reader is waiting; the property only asks for at least one']
STREAMS = []


def nontrivial(inp, out):
    return True


def run(chk):
    me = sys.modules[__name__]
    std_prepare(chk)
    rng = random.Random(chk.seed * 31 + 20)
    lines, exps = [], []
    for i in range(dict(quick=30, thorough=400)[chk.tier]):
        n = rng.choice([1, 7, 50, 200, 800, 2000])
        fault = 0 if i % 3 else rng.choice([1, 2])
        if i < 6:
            fault = [0, 0, 1, 2, 0, 1][i]
        lines.append('kafka #%x #%x #%x #%x #%x #%x' % (n, rng.randrange(1, 9), rng.randrange(2),
                                                         rng.choice([1, 400, 10000, 100000]), fault, rng.randrange(1 << 30)))
    impl = [impl_run(chk.harness, [l], timeout=120.0, limit_mem=False)[0] for l in lines]
    chk.evals += len(lines)
    chk.count('batches', len(lines))
    for a, o in zip(lines, impl):
        f = a.split(' ')
        n, fault = int(f[1][1:], 16), int(f[5][1:], 16)
        chk.count('fault=%d' % fault)
        if n >= 50:
            chk.nontrivial.add(hashlib.sha1(a.encode()).digest()[:8])
        if fault == 0:
            exp = 'closeok missing #0 dup #0 foreign #0 keysplit #0 noerrors'
            ok = o == exp
        else:
            exp = 'closeok ... foreign #0 ... errors'
            t = o.split(' ')
            ok = o.startswith('closeok') and ' foreign #0 ' in o and t[-1] == 'errors' and ('keysplit #0' in o)
            if fault == 2 and n < 4:
                ok = o.startswith('closeok') and ' foreign #0 ' in o   # nothing was in flight when the broker went away
        if not ok:
            chk.record('scopeA', dict(concrete=True, input=a, impl=o, expected=exp,
                       what='a message was lost, duplicated, altered or split across partitions, Close hung, or a faulty broker produced no error event'), {})
    chk.samples.append(dict(stream='kafka', input=lines[0], impl=impl[0]))
    chk.samples.append(dict(stream='kafka-fault', input=lines[2], impl=impl[2]))
    return chk.finish(me)
