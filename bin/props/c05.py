"""C05 NetFlow v5 wire decoding is exact."""
import random
from engine import *

GEN = 'C05'
MODEL_FN = 'Model/NFv5.v:decode_v5'
RULE = ('stream wf: header with arbitrary (boundary-biased) field values and 0..30 records, count=len; '
        'stream trunc: k in 0..5 complete records + partial record of 0..47 bytes, count in {k,k+1,k+30,65535}; '
        'sweep: k in 0..4 records x every truncation point x count in {0..k+2,30,65535} (exhaustive); '
        'degenerate: well-formed datagrams whose records are all zero, all ones or have a single field set, among ordinary ones, judged by the oracle (exactly the records present, byte for byte); '
        'mutants: seeded byte-level mutations (truncate, flip, hostile 16/32-bit values, delete, duplicate, append). '
        'non-trivial = decodes (per expected/model observation) to at least one record; distinct by input bytes')
TRUSTED = ['Coq 8.16.1 kernel (coqc), vm_compute in Examples only',
           'extraction (ExtrOcamlBasic only, no Extract Constant) + ocaml/main.ml I/O glue',
           'Go harness harness/v5.go (token printer) and bin/engine.py (diff)',
           'modelled, not verified: decoders/netflowlegacy/netflow.go, decoders/utils/utils.go BinaryRead']
ASSUMPTIONS = ['the hand-written model Model/NFv5.v corresponds to the Go decoder on all inputs, as sampled by this run',
               'bytes.Buffer.Next/len semantics as modelled in Base/Bytes.v']

STREAMS = [
    dict(name='wf', stream=0, n=dict(quick=1500, thorough=40000)),
    dict(name='trunc', stream=1, n=dict(quick=1500, thorough=40000)),
]


def nontrivial(inp, out):
    return ' r ' in out


def oracle(inp, out):
    """the property on any byte string: a v5 datagram decodes to exactly the records present"""
    _, d = payload_of(inp)
    if len(d) < 24 or d[0:2] != b'\x00\x05':
        return None if out in ('err',) else (None if out.startswith('ok') else False)
    c = int.from_bytes(d[2:4], 'big')
    n = min(c, (len(d) - 24) // 48)
    if not out.startswith('ok '):
        return False
    f = out.split(' ')
    try:
        got_n = int(f[9][1:], 16)
    except Exception:
        return False
    if got_n != n:
        return False
    recs = ' '.join(f[10:]).split('r ')[1:] if n else []
    if len(recs) != n:
        return False
    ws = [4, 4, 4, 2, 2, 4, 4, 4, 4, 2, 2, 1, 1, 1, 1, 2, 2, 1, 1, 2]
    for i, r in enumerate(recs):
        vals = [int(x[1:], 16) for x in r.split()]
        b = b''.join(v.to_bytes(w, 'big') for v, w in zip(vals, ws))
        if b != d[24 + 48 * i: 24 + 48 * (i + 1)]:
            return False
    return True


MATCHERS = {}


def sweep(chk):
    """exhaustive: k in 0..4 x every truncation point x counts"""
    rng = random.Random(chk.seed)
    lines = []
    base = model_gen(GEN, 0, chk.seed, 0, 400)
    byk = {}
    for a, _ in base:
        _, d = payload_of(a)
        k = (len(d) - 24) // 48
        if k <= 4 and k not in byk:
            byk[k] = d
    # make sure every k in 0..4 exists: cut a bigger one
    big = max((payload_of(a)[1] for a, _ in base), key=len)
    for k in range(5):
        if k not in byk and len(big) >= 24 + 48 * k:
            byk[k] = big[:24 + 48 * k]
    for k, d in sorted(byk.items()):
        for c in list(range(0, k + 3)) + [30, 65535]:
            x = d[:2] + c.to_bytes(2, 'big') + d[4:]
            for cut in range(0, len(x) + 1):
                lines.append('v5 =' + x[:cut].hex())
    return lines


def run(chk):
    std_prepare(chk)
    run_streams(chk, sys.modules[__name__], STREAMS, MATCHERS)
    # exhaustive sweep, scope B + oracle
    lines = sweep(chk)
    bad = run_scope_b(chk, sys.modules[__name__], lines, 'sweep', MATCHERS)
    chk.exhaustive.append('k in 0..4 records x all truncation points x count in {0..k+2,30,65535}: %d cases' % len(lines))
    # the oracle also judges every sweep case on the implementation directly
    resolve_scope_b(chk, sys.modules[__name__], bad, 'sweep', MATCHERS, oracle, STREAMS)
    # degenerate record contents: all-zero records, all-ones records, records with a single non-zero field, between
    # and around ordinary ones -- a record is a record whatever it holds (padding-looking records are not dropped)
    rng = random.Random(chk.seed * 31 + 55)
    ws = [4, 4, 4, 2, 2, 4, 4, 4, 4, 2, 2, 1, 1, 1, 1, 2, 2, 1, 1, 2]
    special = [bytes(48), b'\xff' * 48]
    off = 0
    for w in ws:
        special.append(bytes(off) + b'\x01' * w + bytes(48 - off - w))
        off += w
    deg = []
    for k in (1, 2, 3, 5):
        for _ in range(dict(quick=60, thorough=600)[chk.tier]):
            recs = [rng.choice(special) if rng.random() < 0.6 else bytes(rng.randrange(256) for _ in range(48)) for _ in range(k)]
            hdr = b'\x00\x05' + k.to_bytes(2, 'big') + bytes(rng.randrange(256) for _ in range(20))
            deg.append('v5 =' + (hdr + b''.join(recs)).hex())
    for i in range(len(special)):
        deg.append('v5 =' + (b'\x00\x05\x00\x03' + bytes(20) + special[i] + bytes(48) + special[(i + 1) % len(special)]).hex())
    bad = run_scope_b(chk, sys.modules[__name__], deg, 'degenerate-records', MATCHERS)
    # these are well-formed datagrams: the oracle (exactly the records present, byte for byte) judges the implementation
    import engine as _e
    idg = _e.impl_run(chk.harness, deg)
    for a, o in zip(deg, idg):
        if oracle(a, o) is False:
            chk.record('scopeA-degenerate', dict(concrete=True, input=a, impl=o[:1500],
                       what='a well-formed v5 datagram with all-zero / all-ones / single-field records did not decode to exactly the records present'), {})
    resolve_scope_b(chk, sys.modules[__name__], bad, 'degenerate-records', MATCHERS, oracle, STREAMS)
    # mutants
    rng = random.Random(chk.seed * 31 + 5)
    nm = dict(quick=3000, thorough=60000)[chk.tier]
    base = model_gen(GEN, 0, chk.seed + 1, 0, max(50, nm // 30))
    muts = []
    for a, _ in base:
        _, d = payload_of(a)
        for m in mutate_bytes(rng, d, 30):
            muts.append('v5 =' + m.hex())
    bad = run_scope_b(chk, sys.modules[__name__], muts[:nm], 'mutants', MATCHERS)
    resolve_scope_b(chk, sys.modules[__name__], bad, 'mutants', MATCHERS, oracle, STREAMS)
    return chk.finish(sys.modules[__name__])
