"""C07 one flow message per flow record, in order; none lost, duplicated or invented."""
import random
from pipefam import *

GEN = 'C06'
MODEL_FN = 'Model/Pipe.v:nf_step / Model/ProdNF.v:produce_nf, produce_v5 (message count and order)'
RULE = ('same histories as C06 (v5, v9, IPFIX datagrams with 0..60 records per set mixed with template, options and '
        'unknown-template sets) through the real pipe with a recording transport, plus byte-level mutants '
        '(truncations, inflated counts/lengths); compared per datagram: error class, number of Send calls, and the '
        'bytes/packets columns of each message in order; oracle on the implementation alone: a v5 datagram never '
        'yields more messages than (len-24)/48, any datagram never more messages than bytes; none invented: truncated / inflated v9 and IPFIX datagrams never yield more messages than the model counts complete records physically present (Spec/Present.v, c07_nf_none_invented); sFlow datagrams (C09 generator) and '
        'mutants of their sample count / truncations: one message per flow or expanded flow sample, none for counter / drop '
        'samples or empty slots. '
        'a third of the generated histories also run through the pipe AS cmd/goflow2 ASSEMBLES IT (Prometheus template system, Prometheus and panic wrappers around producer and decoder). '
        'non-trivial = at least one datagram produced a message; distinct by input')
TRUSTED = ['Coq 8.16.1 kernel (coqc)', 'extraction + ocaml/main.ml glue',
           'Go harness harness/pipe.go, bin/engine.py, bin/pipefam.py',
           'modelled, not verified: utils/pipe.go, producer/proto SearchNetFlowDataSets / SearchNetFlowLegacyRecords / formatSend']
ASSUMPTIONS = ['Model/Pipe.v corresponds to the pipe on all histories, as sampled by this run',
               'formatSend stops at the first format error (not reachable with the bin format)']
STREAMS = [dict(name='hist', stream=0, n=dict(quick=250, thorough=5000), timeout=120.0)]


def project(line):
    return project_cols(line, keep={'#9', '#a'})


def nontrivial(inp, out):
    return ' m' in out


def oracle(inp, out):
    f = inp.split(' ')
    pay = f[6::4]
    steps = split_steps(out)
    for p, st in zip(pay, steps):
        d = bytes.fromhex(p[1:])
        o, c, msgs = step_msgs(st)
        n = len(msgs)
        if n > len(d):
            return False
        if d[:2] == b'\x00\x05' and n > max(0, (len(d) - 24)) // 48:
            return False
    return True


def sflow_part(chk):
    """sFlow: one message per flow / expanded flow sample, in order; counter samples, drop samples and
    the empty slots of a datagram that announces more samples than it carries produce nothing.
    Expected = the sFlow model (Model/ProdSF.v, c09_one_per_flow_sample) on generated datagrams and on
    mutants with inflated / deflated sample counts and truncations; compared: error class, number of Send
    calls and the bytes/packets columns in order."""
    me = sys.modules[__name__]
    n = dict(quick=400, thorough=8000)[chk.tier]
    cases = model_gen('C09', 0, chk.seed + 5, 0, n)
    ins = [c[0] for c in cases]
    rng = random.Random(chk.seed * 31 + 7)
    muts = []
    for a in ins[:max(40, n // 5)]:
        f = a.split(' ')
        d = bytes.fromhex(f[-1][1:])
        ipv = int.from_bytes(d[4:8], 'big')
        cnt_at = 24 if ipv == 1 else 36
        for v in (0, 1, 2, 3, 8, 13, 1000):
            m = d[:cnt_at] + v.to_bytes(4, 'big') + d[cnt_at + 4:]
            muts.append(' '.join(f[:-1] + ['=' + m.hex()]))
        for _ in range(3):
            k = rng.randrange(cnt_at + 4, len(d) + 1) if len(d) > cnt_at + 4 else len(d)
            muts.append(' '.join(f[:-1] + ['=' + d[:k].hex()]))
    lines = ins + muts
    impl = impl_run(chk.harness, lines, timeout=120.0)
    mod = model_run('C09', lines)
    chk.evals += len(lines)
    chk.count('sflow: generated', len(ins))
    chk.count('sflow: sample-count / truncation mutants', len(muts))
    for a, o, m in zip(lines, impl, mod):
        if ' m' in m:
            chk.nontrivial.add(hashlib.sha1(a.encode()).digest()[:8])
        if project(o) != project(m):
            chk.record('scopeA', dict(concrete=True, input=a[:30000], impl=project(o)[:2000], expected=project(m)[:2000],
                       what='an sFlow datagram did not yield exactly one message per flow sample, in order'), {})
    chk.samples.append(dict(stream='sflow', input=lines[0][:400], impl=project(impl[0])[:300], model=project(mod[0])[:300]))


def present_part(chk):
    """none invented (c07_nf_none_invented): for truncated datagrams and datagrams with inflated header counts, set
    lengths or template-claimed sizes, the number of messages the implementation emits is at most the number of complete
    records physically present, computed by the model from the bytes and the exporter's templates (Spec/Present.v,
    driver c07p_run). Every set boundary +-1, every 16-bit word of the set headers inflated."""
    n = dict(quick=120, thorough=2500)[chk.tier]
    rng = random.Random(chk.seed * 31 + 77)
    base = [a for a, _ in model_gen('C06', 0, chk.seed + 13, 0, n)]
    lines = []
    for a in base:
        f = a.split(' ')
        head, body = f[:3], f[3:]
        quads = [body[i:i + 4] for i in range(0, len(body) - 3, 4)]
        if not quads:
            continue
        for _ in range(6):
            k = rng.randrange(len(quads))
            d = bytes.fromhex(quads[k][3][1:])
            if len(d) < 8:
                continue
            c = rng.randrange(4)
            if c == 0:
                m = d[:rng.randrange(4, len(d))]                       # truncation anywhere
            elif c == 1:
                m = d + bytes(rng.randrange(256) for _ in range(rng.choice([1, 3, 4, 47, 48, 200])))   # bytes behind the message
            elif c == 2:
                pos = rng.randrange(2, min(len(d) - 1, 40), 2)         # a header / first-set word inflated
                m = d[:pos] + rng.choice([0xffff, 0x7fff, 1000, len(d), len(d) + 1]).to_bytes(2, 'big') + d[pos + 2:]
            else:
                pos = rng.randrange(0, len(d) - 1, 2)                  # any aligned word inflated
                m = d[:pos] + rng.choice([0xffff, 1000, 0]).to_bytes(2, 'big') + d[pos + 2:]
            q = [list(x) for x in quads[:k + 1]]
            q[k][3] = '=' + m.hex()
            lines.append(' '.join(head + [t for x in q for t in x]))
    impl = impl_run(chk.harness, lines, timeout=120.0)
    pres = model_run('C07P', lines)
    chk.evals += len(lines)
    chk.count('none-invented: truncations / inflations judged by the present count', len(lines))
    tight = 0
    for a, o, p in zip(lines, impl, pres):
        so, sp = split_steps(o), split_steps(p)
        if len(so) != len(sp) or not so:
            continue
        try:
            present = int(sp[-1].split(' ')[0][1:], 16)
        except Exception:
            continue
        _, _, msgs = step_msgs(so[-1])
        if len(msgs) == present and present > 0:
            tight += 1
        if len(msgs) > present:
            chk.record('scopeA', dict(concrete=True, input=a[:30000], impl='%d messages' % len(msgs), expected='at most %d (complete records present)' % present,
                       what='a truncated / inflated datagram yields more messages than complete records are physically present in it'), {})
    chk.notes.append('none-invented: %d of %d mutated datagrams yield exactly as many messages as records present' % (tight, len(lines)))


def run(chk):
    def extra(c):
        sflow_part(c)
        present_part(c)
    return run_pipe_property(chk, sys.modules[__name__], STREAMS, dict(quick=1500, thorough=30000), oracle=oracle,
                             extra=extra)
