"""C07 one flow message per flow record, in order; none lost, duplicated or invented."""
from pipefam import *

GEN = 'C06'
MODEL_FN = 'Model/Pipe.v:nf_step / Model/ProdNF.v:produce_nf, produce_v5 (message count and order)'
RULE = ('same histories as C06 (v5, v9, IPFIX datagrams with 0..60 records per set mixed with template, options and '
        'unknown-template sets) through the real pipe with a recording transport, plus byte-level mutants '
        '(truncations, inflated counts/lengths); compared per datagram: error class, number of Send calls, and the '
        'bytes/packets columns of each message in order; oracle on the implementation alone: a v5 datagram never '
        'yields more messages than (len-24)/48, any datagram never more messages than bytes. '
        'non-trivial = at least one datagram produced a message; distinct by input')
TRUSTED = ['Coq 8.16.1 kernel (coqc)', 'extraction + ocaml/main.ml glue',
           'Go harness harness/pipe.go, bin/engine.py, bin/pipefam.py',
           'modelled, not verified: utils/pipe.go, producer/proto SearchNetFlowDataSets / SearchNetFlowLegacyRecords / formatSend']
ASSUMPTIONS = ['Model/Pipe.v corresponds to the pipe on all histories, as sampled by this run',
               'sFlow sample counting is covered by C04/C09 models; formatSend stops at the first format error (not reachable with the bin format)']
STREAMS = [dict(name='hist', stream=0, n=dict(quick=250, thorough=5000), timeout=120.0)]


def project(line):
    return project_cols(line, keep={'#9', '#a'})


def nontrivial(inp, out):
    return ' m' in out


def oracle(inp, out):
    f = inp.split(' ')
    pay = f[6::4]
    steps = split_steps(out)
    for p, st in zip(pay, steps):
        d = bytes.fromhex(p[1:])
        o, c, msgs = step_msgs(st)
        n = len(msgs)
        if n > len(d):
            return False
        if d[:2] == b'\x00\x05' and n > max(0, (len(d) - 24)) // 48:
            return False
    return True


def run(chk):
    return run_pipe_property(chk, sys.modules[__name__], STREAMS, dict(quick=1500, thorough=30000), oracle=oracle)
