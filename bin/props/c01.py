"""C01 untrusted datagrams never crash or stall the collector."""
import random
from pipefam import *
import props.c14 as c14

GEN = 'C14'
MODEL_FN = 'Model/Pipe.v:pipe_step (all decoders, producers, dissector) -- outcome class and messages'
RULE = ('hostile histories: byte-level mutants (truncations, flips, hostile 16/32-bit counts and lengths, deletions, '
        'duplications, appended garbage) of mixed v5 / v9 / IPFIX / sFlow histories, random bytes behind each valid protocol '
        'prefix, hostile template histories (record size 0, field counts 0 and 65535, options templates reusing data ids, '
        'data before templates, variable-length only), through the three pipes (sflow://, netflow://, flow://) with no '
        'mapping, cmd/goflow2/mapping.yaml and generated mapping files, and through the exported Decode*/ProcessMessage*Config '
        '(nil configuration) and ParsePacket entry points; word sweeps: every aligned word of the first 48 bytes (small and large values) and, for one datagram of every protocol, every word of the whole datagram (large values and their neighbours). Property (implementation alone): every call returns within the '
        'watchdog (20 s per batch, a stalled datagram is attributed and the run continues) and no panic escapes; fidelity: '
        'error class and messages == model. non-trivial = a datagram that is not simply rejected by the version check '
        '(model outcome ok/tnf or at least 24 bytes decoded); distinct by input')
TRUSTED = ['Coq 8.16.1 kernel (coqc)', 'extraction + ocaml/main.ml glue', 'Go harness (recover() around every call, watchdog in bin/engine.py)',
           'modelled, not verified: decoders/*, producer/proto/*, utils/pipe.go']
ASSUMPTIONS = ['wall-clock is observed (watchdog), the theorem bounds loop iterations by the datagram length',
               'panics inside protobuf-go / encoding/json / netip reached with well-typed arguments are outside the model (the run would still see them)']
STREAMS = []


def nontrivial(inp, out):
    return any(s.startswith(('ok', 'tnf')) for s in split_steps(out))


def hostile_templates(rng):
    """hand-made hostile NetFlow histories"""
    def ipfix(sets, dom=1):
        body = b''.join(sets)
        return (10).to_bytes(2, 'big') + (16 + len(body)).to_bytes(2, 'big') + bytes(4) + bytes(4) + dom.to_bytes(4, 'big') + body
    def v9(sets, count=None, dom=1):
        body = b''.join(sets)
        return (9).to_bytes(2, 'big') + (len(sets) if count is None else count).to_bytes(2, 'big') + bytes(12) + dom.to_bytes(4, 'big') + body
    def fset(i, body):
        return i.to_bytes(2, 'big') + (4 + len(body)).to_bytes(2, 'big') + body
    def tmpl(tid, fields):
        return tid.to_bytes(2, 'big') + len(fields).to_bytes(2, 'big') + b''.join(t.to_bytes(2, 'big') + l.to_bytes(2, 'big') for t, l in fields)
    hs = []
    for ver, mk, tsid, osid in ((10, ipfix, 2, 3), (9, v9, 0, 1)):
        hs.append([mk([fset(tsid, tmpl(256, [(7, 0)]))]), mk([fset(256, bytes(4))]), mk([fset(256, bytes(400))])])
        hs.append([mk([fset(tsid, tmpl(256, [(82, 65535)]))]), mk([fset(256, bytes([3, 1, 2, 3]))]), mk([fset(256, bytes([255, 255, 255]))])])
        hs.append([mk([fset(tsid, (256).to_bytes(2, 'big') + (65535).to_bytes(2, 'big'))]), mk([fset(256, bytes(8))])])
        hs.append([mk([fset(tsid, tmpl(256, []))]), mk([fset(256, bytes(8))])])
        hs.append([mk([fset(256, bytes(8))]), mk([fset(tsid, tmpl(256, [(1, 4)]))]), mk([fset(256, bytes(8))])])
        hs.append([mk([fset(tsid, tmpl(256, [(1, 4)])), fset(osid, (256).to_bytes(2, 'big') + bytes(4))]), mk([fset(256, bytes(8))])])
        hs.append([mk([fset(tsid, tmpl(256, [(315, 65535)]))]), mk([fset(256, bytes([20]) + bytes(range(20)))])])
        hs.append([mk([fset(osid, (257).to_bytes(2, 'big') + (65535).to_bytes(2, 'big') + (65535).to_bytes(2, 'big'))])])
        hs.append([mk([fset(tsid, tmpl(256, [(1, 16), (2, 9)]))]), mk([fset(256, bytes(25))])])
    out = []
    for h in hs:
        out.append(' '.join('=0a000001 #7d0 #1 =' + d.hex() for d in h))
    return out


def run(chk):
    me = sys.modules[__name__]
    std_prepare(chk)
    rng = random.Random(chk.seed * 31 + 1)
    nh = dict(quick=60, thorough=600)[chk.tier]
    hists = [a.split(' ', 1)[1] for a, _ in model_gen('C14', 0, chk.seed + 9, 0, nh)]
    # mutated histories
    muts = []
    for h in hists:
        for m in mutate_hist(rng, 'pipe flow none ' + h, 4):
            muts.append(m.split(' ', 3)[3])
    # random bytes behind valid prefixes
    pre = [b'\x00\x05', b'\x00\x09', b'\x00\x0a', b'\x00\x00\x00\x05', b'\x00\x00\x00\x05\x00\x00\x00\x01', b'\x00\x00\x00\x05\x00\x00\x00\x02']
    rnd = []
    for _ in range(dict(quick=150, thorough=3000)[chk.tier]):
        p = rng.choice(pre)
        d = p + bytes(rng.randrange(256) for _ in range(rng.choice([0, 1, 7, 20, 60, 200, 1400])))
        rnd.append('=0a000001 #7d0 #1 =' + d.hex())
    rnd = [' '.join(rnd[i:i + 10]) for i in range(0, len(rnd), 10)]
    hostile = hostile_templates(rng)
    allh = muts + rnd + hostile
    lines, kinds = [], []
    for h in allh:
        for kind in ('flow', 'netflow', 'sflow'):
            lines.append('pipe %s none %s' % (kind, h))
    # with mapping.yaml and generated configurations (tokens for the model)
    cfg_lines = []
    for _ in range(dict(quick=25, thorough=400)[chk.tier]):
        y, toks = c14.gen_cfg(rng)
        toks = toks[toks.index('cfg'):]     # C01 compares outcome and columns, not the text forms (C13 / C14 do)
        for h in rng.sample(allh, 6):
            cfg_lines.append('pipec flow yaml:%s %s %s' % (y.encode().hex(), ' '.join(toks), h))
    map_lines = ['pipe flow mapping ' + h for h in rng.sample(allh, min(len(allh), dict(quick=150, thorough=2000)[chk.tier]))]
    proc_lines = ['procnil ' + ' '.join(h.split(' ')[3::4]) for h in allh]
    # scope A on the implementation: returns, no panic
    def judge(ins, outs, label):
        chk.evals += len(ins)
        chk.count(label, len(ins))
        for a, o in zip(ins, outs):
            if o in ('hang', 'crash') or 'panic' in o.split(' '):
                chk.record('scopeA', dict(concrete=True, input=a[:30000], impl=o[:2000],
                           what='a call did not return within the watchdog, crashed the process or panicked'), {})
    impl = impl_run(chk.harness, lines, timeout=20.0)
    judge(lines, impl, 'pipes x hostile histories')
    mod = model_run('C06', lines)
    bad = []
    for a, o, m in zip(lines, impl, mod):
        if nontrivial(a, m):
            chk.nontrivial.add(hashlib.sha1(a.encode()).digest()[:8])
        if o != m and o not in ('hang', 'crash', 'skipped'):
            bad.append((a, o, m))
    chk.samples.append(dict(stream='hostile', input=lines[0][:500], impl=impl[0][:300], model=mod[0][:300]))
    me_gen = me.GEN
    me.GEN = 'C06'
    resolve_scope_b(chk, me, bad, 'hostile', {}, None, None)
    me.GEN = 'C14'
    ic = impl_run(chk.harness, cfg_lines, timeout=20.0)
    judge(cfg_lines, ic, 'generated mapping files x hostile histories')
    mc = model_run('C14', cfg_lines)
    bad = [(a, o, m) for a, o, m in zip(cfg_lines, ic, mc) if o != m and o not in ('hang', 'crash', 'skipped')]
    resolve_scope_b(chk, me, bad, 'hostile-cfg', {}, None, None)
    im = impl_run(chk.harness, map_lines, timeout=20.0)
    judge(map_lines, im, 'mapping.yaml x hostile histories')
    ip = impl_run(chk.harness, proc_lines, timeout=20.0)
    judge(proc_lines, ip, 'exported entry points, nil configuration')
    chk.samples.append(dict(stream='procnil', input=proc_lines[-1][:400], impl=ip[-1][:200]))
    # ParsePacket on random and mutated frames
    pk = ['pkt =' + bytes(rng.randrange(256) for _ in range(rng.choice([0, 1, 13, 14, 18, 34, 60, 120]))).hex() for _ in range(500)]
    ipk = impl_run(chk.harness, pk, timeout=20.0)
    judge(pk, ipk, 'ParsePacket random bytes')
    # ParsePacket on structured frames (the C10 generator: VLAN / MPLS / IPv4 / IPv6 + extension headers /
    # tunnels / L4) captured at EVERY length: random bytes almost never reach the inner layer parsers
    cuts = []
    for a, _ in model_gen('C10', 0, chk.seed + 21, 0, dict(quick=60, thorough=1500)[chk.tier]):
        _, d = payload_of(a)
        cuts += ['pkt =' + d[:k].hex() for k in range(len(d) + 1)]
    icut = impl_run(chk.harness, cuts, timeout=60.0)
    judge(cuts, icut, 'ParsePacket on model frames at every capture length')
    chk.exhaustive.append('every capture length of %d model frames: %d parses' % (dict(quick=60, thorough=1500)[chk.tier], len(cuts)))
    # hostile values in the length / type fields of the dissected headers: every byte of the first 96 bytes of model frames
    # (IP-in-IP, GRE, SRv6, MPLS, fragments ... included) replaced by 0x00, 0x40, 0x4f, 0xff -- header lengths of 0
    # (IHL, TCP data offset, extension header length), maximal lengths, other versions, other next protocols
    hf = []
    for a, _ in model_gen('C10', 0, chk.seed + 23, 0, dict(quick=50, thorough=600)[chk.tier]):
        _, d = payload_of(a)
        for pos in range(min(len(d), 96)):
            for v in (0x00, 0x40, 0x4f, 0xff):
                if d[pos] != v:
                    hf.append('pkt =' + (d[:pos] + bytes([v]) + d[pos + 1:]).hex())
    ihf = impl_run(chk.harness, hf, timeout=60.0)
    judge(hf, ihf, 'ParsePacket on model frames with one header byte replaced')
    # hostile values in the length / count words of the datagram and set headers: in datagrams of every protocol taken
    # from the structured histories, every aligned 16-bit word of the first 48 bytes takes every small value 0..40 (below,
    # at and just above each fixed header size: 4, 8, 16, 20, 24, 28) and the usual large ones, every aligned 32-bit word the
    # large ones; the history before the datagram stays (templates), pipes netflow / sflow / flow. Compared with the model.
    small = list(range(0, 41)) + [47, 48, 49, 255, 256, 1000, 1001, 32767, 32768, 65535]
    big = [0, 1, 2 ** 31 - 1, 2 ** 31, 2 ** 32 - 1]
    byp = {}
    for h in hists:
        f = h.split(' ')
        quads = [f[i:i + 4] for i in range(0, len(f) - 3, 4)]
        for k, q in enumerate(quads):
            byp.setdefault(q[3][1:9] if q[3][1:5] == '0000' else q[3][1:5], []).append((quads, k))
    hw = []
    per = dict(quick=3, thorough=25)[chk.tier]
    for key, lst in sorted(byp.items()):
        for quads, k in rng.sample(lst, min(per, len(lst))):
            d = bytes.fromhex(quads[k][3][1:])
            pre = [t for q in quads[:k] for t in q] + quads[k][:3]
            for pos in range(0, min(48, len(d) - 1), 2):
                for v in small:
                    hw.append(' '.join(pre + ['=' + (d[:pos] + v.to_bytes(2, 'big') + d[pos + 2:]).hex()]))
                if pos % 4 == 0 and pos + 4 <= len(d):
                    for v in big:
                        hw.append(' '.join(pre + ['=' + (d[:pos] + v.to_bytes(4, 'big') + d[pos + 4:]).hex()]))
    hwl = ['pipe %s none %s' % (kind, h) for h in hw for kind in ('flow',)] + \
          ['pipe %s none %s' % (kind, h) for h in rng.sample(hw, min(len(hw), 2000)) for kind in ('netflow', 'sflow')]
    ihw = impl_run(chk.harness, hwl, timeout=60.0)
    judge(hwl, ihw, 'header / set-header words replaced by hostile lengths and counts')
    mhw = model_run('C06', hwl)
    bad = [(a, o, m) for a, o, m in zip(hwl, ihw, mhw) if o != m and o not in ('hang', 'crash', 'skipped')]
    me.GEN = 'C06'
    resolve_scope_b(chk, me, bad, 'hostile-header-words', {}, None, None)
    # body word sweep (sixth round): behind the first 48 bytes the mutants above are random. One datagram (thorough: six)
    # of every protocol -- for sFlow the ones carrying extended gateway records first, for v9 / IPFIX the ones with the
    # most sets -- has EVERY aligned 32-bit word of its whole length replaced by each of the large values and their
    # neighbours (a guard computed as length + 1 or rounded up to a multiple of 4 wraps for exactly one of them), and for
    # NetFlow every 16-bit word by 0, 1, 3 and 65535; history kept; compared with the model.
    big2 = [0, 1001, 65535, 2 ** 31 - 1, 2 ** 31, 2 ** 32 - 4, 2 ** 32 - 2, 2 ** 32 - 1]
    bw = []
    per2 = dict(quick=1, thorough=6)[chk.tier]
    for key, lst in sorted(byp.items()):
        def rank(t):
            d = bytes.fromhex(t[0][t[1]][3][1:])
            if len(d) > 900 or len(d) < 60:
                return (1, 0)
            if key.startswith('0000'):
                return (0, -sum(1 for p in range(28, len(d) - 3, 4) if d[p:p + 4] == b'\x00\x00\x03\xeb'))
            return (0, -len(d))
        for quads, k in sorted(lst, key=rank)[:per2]:
            d = bytes.fromhex(quads[k][3][1:])[:900]
            pre = [t for q in quads[:k] for t in q] + quads[k][:3]
            for pos in range(0, len(d) - 3, 4):
                for v in big2:
                    bw.append(' '.join(pre + ['=' + (d[:pos] + v.to_bytes(4, 'big') + d[pos + 4:]).hex()]))
            if not key.startswith('0000'):
                for pos in range(0, len(d) - 1, 2):
                    for v in (0, 1, 3, 65535):
                        bw.append(' '.join(pre + ['=' + (d[:pos] + v.to_bytes(2, 'big') + d[pos + 2:]).hex()]))
    bwl = ['pipe flow none ' + h for h in bw]
    ibw = impl_run(chk.harness, bwl, timeout=60.0)
    judge(bwl, ibw, 'every word of whole datagrams replaced by hostile lengths and counts')
    mbw = model_run('C06', bwl)
    bad = [(a, o, m) for a, o, m in zip(bwl, ibw, mbw) if o != m and o not in ('hang', 'crash', 'skipped')]
    resolve_scope_b(chk, me, bad, 'hostile-body-words', {}, None, None)
    me.GEN = 'C14'
    return chk.finish(me)
