"""C02 memory per datagram is bounded by its size, not by counts it claims."""
import random
from pipefam import *

GEN = 'C13'
MODEL_FN = 'Spec/Ghost.v gh_pipe (ghost allocation estimate along the decoders path) ; Model/SFlow.v caps (dec_sample, decode_sf), Model/NF.v dec_data_set -- ghost slot counts'
RULE = ('count sweep: structured datagrams of every protocol (sFlow with all sample kinds and gateway records, NetFlow v5, '
        'v9, IPFIX with templates of 1..40 fields incl. variable-length) in which EVERY aligned 16-bit and 32-bit word '
        '(record count, sample count, field count, AS-path length, communities length, string length, set length, '
        'scope/option length) is replaced in turn by each of {0,1,1000,1001,65535,2^31-1,2^32-1}, processed by the real pipe '
        'in a child process with a 12 GiB address-space limit; sFlow word sweep: in sFlow datagrams carrying extended gateway records (then others) EVERY aligned 32-bit word takes EVERY one of the seven values, nothing sampled; '
        ' property (implementation alone): the process survives and '
        'runtime.MemStats.TotalAlloc grows by at most 16 MiB + 256 x length x (1 + W) per datagram, W = widest template seen; '
        'amplification: one small hostile unit (template record claiming 65535 fields, maximal options lengths, empty / unknown data set, sFlow sample with 2^32-1 records) repeated up to 1100 times in one datagram, same budget; '
        'ghost tie: measured TotalAlloc <= gh_pipe estimate of the model + 1 MiB for the 300 largest allocations, a random sample of the sweep and every amplification datagram (c02_budget bounds the estimate by the budget for every state and byte string); '
        'fidelity: error class and messages == model for the same inputs. non-trivial = the mutated datagram still decodes '
        'far enough to allocate (more than 4 KiB); distinct by input')
TRUSTED = ['Coq 8.16.1 kernel (coqc)', 'extraction + ocaml/main.ml glue', 'Go harness harness/alloc.go (runtime.ReadMemStats around DecodeFlow), bin/engine.py',
           'modelled, not verified: the decoders; GC, allocator rounding and runtime-internal allocations are measured, not modelled']
ASSUMPTIONS = ['TotalAlloc delta of the harness process = allocation caused by DecodeFlow (single goroutine; includes the recording transport copies)',
               'the ghost theorems count slots and records; slot sizes (16/24/48 bytes) are Go struct sizes observed with unsafe.Sizeof']
STREAMS = []
HOSTILE = [0, 1, 1000, 1001, 65535, 2 ** 31 - 1, 2 ** 32 - 1]


def nontrivial(inp, out):
    return True


def run(chk):
    me = sys.modules[__name__]
    std_prepare(chk)
    rng = random.Random(chk.seed * 31 + 2)
    nb = dict(quick=14, thorough=150)[chk.tier]
    base = [a.split(' ', 3)[3] for a, _ in model_gen(GEN, 0, chk.seed + 11, 0, nb)]
    # candidate mutations are enumerated as small tuples and only the chosen ones are written out (a line
    # carries the whole history before the mutated datagram)
    hq = []
    for h in base:
        f = h.split(' ')
        hq.append([f[i:i + 4] for i in range(0, len(f) - 3, 4)])

    def materialise(hi, k, pos, v, width):
        quads = hq[hi]
        d = bytes.fromhex(quads[k][3][1:])[:1500]
        m = d[:pos] + v.to_bytes(width, 'big') + d[pos + width:]
        q = [x for qq in quads[:k] for x in qq] + quads[k][:3] + ['=' + m.hex()]
        return 'alloc flow none ' + ' '.join(q)

    def candidates(hi, k, lo, hi_pos):
        d = bytes.fromhex(hq[hi][k][3][1:])[:1500]
        out = []
        for pos in range(lo, min(hi_pos, len(d) - 1), 2):
            for v in HOSTILE:
                for width in (2, 4):
                    if pos + width > len(d) or (width == 4 and pos % 4) or v >= 2 ** (8 * width):
                        continue
                    out.append((hi, k, pos, v, width))
        return out

    body = []
    for hi, quads in enumerate(hq):
        # up to 3 datagrams of the history are swept completely; the ones before them stay (templates)
        for k in rng.sample(range(len(quads)), min(3, len(quads))):
            body += candidates(hi, k, 0, 1500)
    cap = dict(quick=6000, thorough=120000)[chk.tier]
    if len(body) > cap:
        body = rng.sample(body, cap)
    # header sweep: in EVERY datagram of every base history, each aligned word of the first 40 bytes (version,
    # record / sample / set counts, lengths of the first set or sample) takes every hostile value; sampled per
    # protocol so that every (protocol, position, value) combination stays represented
    byproto = {}
    for hi, quads in enumerate(hq):
        for k in range(len(quads)):
            byproto.setdefault(quads[k][3][1:5], []).extend(candidates(hi, k, 0, 40))
    head = []
    pcap = dict(quick=2500, thorough=30000)[chk.tier]
    for key, cs in byproto.items():
        head += cs if len(cs) <= pcap else rng.sample(cs, pcap)
    chk.count('header sweep', len(head))
    # sFlow word sweep (sixth round, seed C02-6): sFlow is all 32-bit words, and every list length in it (records,
    # samples, AS-path segments, AS numbers, communities, strings, header bytes) stands behind guards that the sampled
    # sweep above reaches only by luck. The sFlow datagrams that carry extended gateway records (format 1003) come
    # first, then the others: EVERY aligned 32-bit word of each chosen datagram takes EVERY hostile value -- nothing
    # sampled (a guard that fails for exactly one of the seven values, e.g. by unsigned wrap-around of length + 1,
    # is met with certainty).
    sfl = {}
    for hi, quads in enumerate(hq):
        for k in range(len(quads)):
            hx = quads[k][3][1:]
            if hx.startswith('00000005') and 64 <= len(hx) // 2 <= 1500:
                d = bytes.fromhex(hx)
                gw = sum(1 for p in range(28, len(d) - 3, 4) if d[p:p + 4] == b'\x00\x00\x03\xeb')
                sfl.setdefault(hx, (gw, hi, k))
    ranked = sorted(sfl.values(), key=lambda t: (-min(t[0], 1), t[1], t[2]))
    sfw = []
    for gw, hi, k in ranked[:dict(quick=4, thorough=40)[chk.tier]]:
        sfw += [c for c in candidates(hi, k, 0, 1500) if c[4] == 4]
    chk.count('sFlow word sweep (every aligned word x every hostile value)', len(sfw))
    cands = head + sfw + body
    worst = (0, '')
    measured = []            # (allocated, index into cands) of every swept datagram that was measured
    SLACK = 2 ** 20          # Spec/Ghost.v:SLACK
    # in batches: a line carries its whole history, so only one batch of lines is alive at a time
    for b0 in range(0, len(cands), 20000):
        lines = [materialise(*c) for c in cands[b0:b0 + 20000]]
        impl = impl_run(chk.harness, lines, timeout=120.0)
        chk.evals += len(lines)
        for li, (a, o) in enumerate(zip(lines, impl)):
            if o in ('hang', 'crash', 'panic'):
                chk.record('scopeA', dict(concrete=True, input=a[:30000], impl=o,
                           what='the process did not survive a datagram with a hostile count/length field'), {})
                continue
            steps = split_steps(o)
            if not steps:
                continue
            f = steps[-1].split(' ')
            try:
                delta, ln, w = (int(x[1:], 16) for x in f[:3])
            except Exception:
                continue
            budget = 16 * 2 ** 20 + 256 * ln * (1 + w)
            measured.append((delta, b0 + li))
            if delta > 4096:
                chk.nontrivial.add(hashlib.sha1(a.encode()).digest()[:8])
            if delta > worst[0]:
                worst = (delta, a)
            if delta > budget:
                chk.record('scopeA', dict(concrete=True, input=a[:30000], impl=o[-200:], allocated=delta, budget=budget,
                           what='decoding one datagram allocated more than 16 MiB + 256 x length x (1 + W)'), {})
    # amplification by repetition: one small hostile unit (a set whose template record claims 65535 fields, an options
    # template with maximal scope / option lengths, an empty or unknown-template data set, an sFlow sample with a maximal
    # record count) repeated until the datagram is full -- what one unit may cost must not be paid once per unit
    def u16(x):
        return x.to_bytes(2, 'big')

    def u32(x):
        return x.to_bytes(4, 'big')
    units = []
    for tset, oset in ((0, 1), (2, 3)):
        units += [(tset, u16(256) + u16(65535)), (tset, u16(256) + u16(16000) + u16(1) + u16(4)),
                  (oset, u16(257) + u16(65535) + u16(65535)), (oset, u16(257) + u16(65532) + u16(4)),
                  (256, u32(0)), (300, b''), (tset, u16(256) + u16(1) + u16(82) + u16(65535))]
    rep = []
    for ver in (9, 10):
        for sid, ub in units:
            if (ver == 9) != (sid in (0, 1, 256, 300)) and sid not in (256, 300):
                continue
            st = u16(sid) + u16(4 + len(ub)) + ub
            for n in (3, 50, 1100):
                n = min(n, 8900 // len(st))
                sets = st * n
                if ver == 9:
                    d = u16(9) + u16(n) + u32(1000) + u32(1700000000) + u32(1) + u32(7) + sets
                else:
                    d = u16(10) + u16(16 + len(sets)) + u32(1700000000) + u32(1) + u32(7) + sets
                rep.append('alloc flow none =0a000001 #7d0 #1 =' + d.hex())
    # many DISTINCT templates: a datagram full of minimal template records with different ids, sent to an empty store and
    # again (a plain refresh) after histories that left 1000 / 4000 templates with the exporter -- what a template record
    # costs must not depend on how many templates are already stored
    for ver, tsid in ((9, 0), (10, 2)):
        def tdgram(lo, n):
            recs = b''.join(u16(lo + i) + u16(1) + u16(1 + i % 20) + u16(4) for i in range(n))
            st = u16(tsid) + u16(4 + len(recs)) + recs
            if ver == 9:
                return u16(9) + u16(1) + u32(1000) + u32(1700000000) + u32(1) + u32(7) + st
            return u16(10) + u16(16 + len(st)) + u32(1700000000) + u32(1) + u32(7) + st
        for stored in (0, 1000, 4000):
            hist = ['=0a000001 #7d0 #1 =' + tdgram(256 + k, min(1100, stored - k)).hex() for k in range(0, stored, 1100)]
            for n in (50, 1100):
                rep.append('alloc flow none ' + ' '.join(hist + ['=0a000001 #7d0 #1 =' + tdgram(256, n).hex()]))
    # sFlow: flow samples / expanded flow samples announcing 2^32-1 records, repeated
    for fmt, hdr in ((1, 32), (3, 44)):
        sample = u32(fmt) + u32(hdr) + bytes(hdr - 4) + u32(2 ** 32 - 1)
        for n in (3, 50, 200):
            d = u32(5) + u32(1) + bytes([10, 0, 0, 1]) + u32(0) + u32(1) + u32(1) + u32(n) + sample * n
            rep.append('alloc flow none =0a000001 #18c7 #1 =' + d.hex())
    irep = impl_run(chk.harness, rep, timeout=120.0)
    chk.evals += len(rep)
    chk.count('amplification by repetition', len(rep))
    for a, o in zip(rep, irep):
        if o in ('hang', 'crash', 'panic'):
            chk.record('scopeA', dict(concrete=True, input=a[:30000], impl=o,
                       what='the process did not survive a datagram made of one hostile unit repeated'), {})
            continue
        steps = split_steps(o)
        f = steps[-1].split(' ') if steps else []
        try:
            delta, ln, w = (int(x[1:], 16) for x in f[:3])
        except Exception:
            continue
        if delta > 4096:
            chk.nontrivial.add(hashlib.sha1(a.encode()).digest()[:8])
        if delta > worst[0]:
            worst = (delta, a)
        if delta > 16 * 2 ** 20 + 256 * ln * (1 + w):
            chk.record('scopeA', dict(concrete=True, input=a[:30000], impl=o[-200:], allocated=delta,
                       budget=16 * 2 ** 20 + 256 * ln * (1 + w),
                       what='a datagram made of one hostile unit repeated allocated more than 16 MiB + 256 x length x (1 + W)'), {})
    # ---- the ghost estimate of Spec/Ghost.v (the quantity c02_budget is about) against what was measured: for the
    # datagrams that allocated most, a random sample of the sweep and every amplification datagram, the model computes
    # gh_pipe for the same history and the check requires  measured <= estimate + SLACK
    measured.sort(reverse=True)
    top = measured[:dict(quick=300, thorough=3000)[chk.tier]]
    rest = measured[len(top):]
    pick = top + rng.sample(rest, min(len(rest), dict(quick=1200, thorough=17000)[chk.tier]))
    gl = [materialise(*cands[i]) for _, i in pick] + rep
    gm = [d for d, _ in pick]
    for a, o in zip(rep, irep):
        steps = split_steps(o) if o not in ('hang', 'crash', 'panic') else []
        try:
            gm.append(int(steps[-1].split(' ')[0][1:], 16))
        except Exception:
            gm.append(None)
    go = model_run('C02', gl)
    chk.evals += len(gl)
    chk.count('ghost estimate compared with measured allocation', len(gl))
    under = []
    closest = None
    for a, delta, o in zip(gl, gm, go):
        steps = split_steps(o)
        try:
            est, ln, w = (int(x[1:], 16) for x in steps[-1].split(' ')[:3])
        except Exception:
            if delta is not None:
                under.append((a, delta, None, o[-200:]))
            continue
        if delta is None:
            continue
        if est + SLACK > 16 * 2 ** 20 + 256 * ln * (1 + w) and ln <= 9000:
            chk.record('theorem', dict(concrete=False, input=a[:30000], estimate=est, length=ln, width=w,
                       what='the extracted estimate leaves the budget c02_budget proves for it (extraction or driver unfaithful)'), {})
        if delta > est + SLACK:
            under.append((a, delta, est, o[-200:]))
        if closest is None or est - delta < closest[0]:
            closest = (est - delta, delta, est)
    if closest:
        chk.notes.append('ghost estimate: smallest margin estimate - measured = %d bytes (measured %d, estimate %d)' % closest)
    if under:
        # the tie is broken: the estimate no longer dominates what the implementation allocates, so c02_budget says
        # nothing about it any more. Search for a datagram that leaves the property's budget: the under-estimated
        # histories with their last datagram sent 2..64 times over (what grows with the state grows further) ...
        found = False
        probe = []
        for a, delta, est, _ in under[:8]:
            f = a.split(' ')
            for n in (2, 8, 64):
                probe.append(' '.join(f[:3] + f[3:] * n))
        ip = impl_run(chk.harness, probe, timeout=240.0)
        chk.evals += len(probe)
        for a, o in zip(probe, ip):
            for stp in split_steps(o) if o not in ('hang', 'crash', 'panic') else []:
                try:
                    delta, ln, w = (int(x[1:], 16) for x in stp.split(' ')[:3])
                except Exception:
                    continue
                if delta > 16 * 2 ** 20 + 256 * ln * (1 + w):
                    chk.record('scopeA-search', dict(concrete=True, input=a[:30000], allocated=delta,
                               budget=16 * 2 ** 20 + 256 * ln * (1 + w),
                               what='found after the ghost estimate stopped dominating the measured allocation: a datagram of this '
                                    'history allocates more than 16 MiB + 256 x length x (1 + W)'), {})
                    found = True
                    break
            if found:
                break
        if not found:
            a, delta, est, o = under[0]
            chk.violations.append(dict(kind='correspondence', concrete=False, input=a[:30000], allocated=delta, estimate=est,
                                       model=o, cases=len(under),
                                       what='Spec/Ghost.v:gh_pipe (the estimate c02_budget bounds) no longer dominates the allocation measured '
                                            'for this datagram: measured > estimate + SLACK; no datagram above the budget was found'))
    chk.count('count-field sweep', len(body))
    chk.notes.append('largest allocation observed for one datagram: %d bytes' % worst[0])
    chk.samples.append(dict(stream='sweep', worst_allocation=worst[0], input=worst[1][-600:]))
    # fidelity on a sample of the same inputs
    sample = [materialise(*c) for c in rng.sample(cands, min(len(cands), dict(quick=1500, thorough=20000)[chk.tier]))]
    pl = ['pipe' + a[5:] for a in sample]
    i2 = impl_run(chk.harness, pl, timeout=120.0)
    m2 = model_run('C06', pl)
    chk.evals += len(pl)
    bad = [(a, o, m) for a, o, m in zip(pl, i2, m2) if o != m]
    me.GEN = 'C06'
    resolve_scope_b(chk, me, bad, 'sweep-fidelity', {}, None, None)
    me.GEN = 'C13'
    return chk.finish(me)
