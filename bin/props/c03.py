"""C03 NetFlow v9 / IPFIX wire decoding is exact."""
import random
from engine import *

GEN = 'C03'
MODEL_FN = 'Model/NF.v:decode_nf (dec_flowset, dec_template_set, dec_*_opt_template_set, dec_data_set, dec_optdata_set, dec_common)'
RULE = ('stream hist: histories of 1..3 abstract messages of one exporter/domain (version 9 or 10; 1..8 sets per message; '
        'template, options-template, data and options-data sets; 1..40 fields; lengths 0..64 and 0xffff; enterprise bit; '
        '0..60 records; padding 0..3 < record size; template redefinitions with ids 256..261) encoded by Spec/EncNF.v, '
        'expected observation = Spec expected_pkt; mutants: byte-level mutations of one datagram of a history or '
        'dropped/swapped/duplicated datagrams, implementation vs model. non-trivial = at least one data or options-data '
        'record decoded; distinct by input bytes')
TRUSTED = ['Coq 8.16.1 kernel (coqc), vm_compute in Examples only',
           'extraction (ExtrOcamlBasic only, no Extract Constant) + ocaml/main.ml I/O glue',
           'Go harness harness/nf.go (token printer) and bin/engine.py (diff)',
           'modelled, not verified: decoders/netflow/netflow.go, templates.go, decoders/utils/utils.go BinaryRead']
ASSUMPTIONS = ['Model/NF.v corresponds to the Go decoder on all inputs, as sampled by this run',
               'bytes.Buffer.Next/Len semantics as modelled in Base/Bytes.v',
               'BasicTemplateSystem behaves as an association list keyed by templateKey (Model/NF.v store)']

STREAMS = [dict(name='hist', stream=0, n=dict(quick=1500, thorough=30000)),
           dict(name='v9-lowcount', stream=1, n=dict(quick=40, thorough=400))]


def nontrivial(inp, out):
    return ' r ' in out


def v9_count_lt_sets(case):
    """known finding: v9 header Count (records, RFC 3954) smaller than the number of flow sets"""
    if case.get('impl', case.get('model')) != case.get('model'):
        return False   # only the modelled (known) behaviour is covered by the finding
    for _, d in payloads_of(case['input']):
        if len(d) >= 20 and d[0:2] == b'\x00\x09':
            cnt = int.from_bytes(d[2:4], 'big')
            # count flow sets physically present
            p, n = 20, 0
            while p + 4 <= len(d):
                l = int.from_bytes(d[p + 2:p + 4], 'big')
                if l < 4:
                    break
                n += 1
                p += l
            if cnt < n:
                return True
    return False


MATCHERS = {'v9-count-below-sets': v9_count_lt_sets}


def run(chk):
    me = sys.modules[__name__]
    std_prepare(chk)
    run_streams(chk, me, STREAMS, MATCHERS)
    rng = random.Random(chk.seed * 31 + 3)
    nm = dict(quick=4000, thorough=80000)[chk.tier]
    base = model_gen(GEN, 0, chk.seed + 1, 0, max(50, nm // 20))
    muts = []
    for a, _ in base:
        muts.extend(mutate_line(rng, a, 20))
    bad = run_scope_b(chk, me, muts[:nm], 'mutants', MATCHERS)
    resolve_scope_b(chk, me, bad, 'mutants', MATCHERS, None, STREAMS)
    return chk.finish(me)
