"""C06 templates are scoped per exporter, version, domain and id; latest wins."""
from pipefam import *

GEN = 'C06'
MODEL_FN = 'Model/Pipe.v:nf_step (tstores_get, decode_nf_body, store_get/tkey, add_trecs/add_orecs)'
RULE = ('histories of 5..30 datagrams over 5 exporters (two ports of one IPv4 address, another IPv4, an IPv6, '
        'an IPv4-mapped IPv6) x versions {9,10} x 3 domains x template ids 256..261 with fresh layouts at every '
        '(re)definition, options templates reusing ids, data sets before/after their template (ids 270..272 never '
        'announced), NetFlow v5 datagrams in between; through the real NetFlowPipe with a recording transport; '
        'mutants: one datagram mutated at byte level, datagrams dropped/swapped/duplicated/replayed from another '
        'exporter. compared: per datagram the error class and every message column except sampling_rate. '
        'a third of the generated histories also run through the pipe AS cmd/goflow2 ASSEMBLES IT (Prometheus template system, Prometheus and panic wrappers around producer and decoder). '
        'non-trivial = history in which at least two exporters sent and a data record was decoded; distinct by input')
TRUSTED = ['Coq 8.16.1 kernel (coqc), vm_compute in Examples only',
           'extraction (ExtrOcamlBasic only) + ocaml/main.ml glue',
           'Go harness harness/pipe.go (protobuf wire re-parser, recording transport), bin/engine.py, bin/pipefam.py',
           'modelled, not verified: utils/pipe.go NetFlowPipe, decoders/netflow, producer/proto (NetFlow part)']
ASSUMPTIONS = ['Model/Pipe.v corresponds to NetFlowPipe.DecodeFlow + ProtoProducer on all histories, as sampled by this run',
               'refinement theorem c06_refines_flat_map quantifies over histories of datagrams whose bytes are < 256 (every real datagram); '
               'the expected outputs of generated histories are computed by the reference pipe (Spec/RefStore.v, flat map), mutants by the model pipe']
STREAMS = [dict(name='hist', stream=0, n=dict(quick=250, thorough=5000), timeout=120.0)]


def project(line):
    return project_cols(line, drop={'#3'})


def nontrivial(inp, out):
    f = inp.split(' ')
    addrs = set(zip(f[3::4], f[4::4]))
    return len(addrs) >= 2 and ' m ' in out


def run(chk):
    return run_pipe_property(chk, sys.modules[__name__], STREAMS, dict(quick=1500, thorough=30000))
