"""C09 sFlow samples map to the flow message as documented."""
from pipefam import *

GEN = 'C09'
MODEL_FN = 'Model/ProdSF.v:convert_sf / sf_record / produce_sf, Model/Pipe.v:sf_step'
RULE = ('sFlow datagrams (agent v4/v6) of 0..12 samples, three quarters flow / expanded flow samples with 0..6 records in '
        'random order drawn from: raw Ethernet headers that are complete or cut captures of model frames (C10), raw headers '
        'of other protocols, sampled IPv4/IPv6, extended switch/router/gateway (AS path 0/1 segment, communities), queue, '
        'ACL, function, unknown records; the rest counter/drop samples; through the real SFlowPipe with a recording '
        'transport: implementation == model for every message column; mutants at byte level; the probe datagrams of the '
        'documentation-column theorem (one extended record each, five raw headers) through the real pipe. '
        'a third of the generated histories also run through the pipe AS cmd/goflow2 ASSEMBLES IT (Prometheus template system, Prometheus and panic wrappers around producer and decoder). '
        'non-trivial = at least one flow message produced; distinct by input bytes')
TRUSTED = ['Coq 8.16.1 kernel (coqc)', 'extraction + ocaml/main.ml glue', 'Go harness harness/pipe.go, bin/engine.py, bin/pipefam.py',
           'modelled, not verified: producer/proto/producer_sf.go, proto.go (sFlow branch), utils/pipe.go SFlowPipe']
ASSUMPTIONS = ['Model/ProdSF.v corresponds to the sFlow producer on all datagrams, as sampled by this run',
               'the sFlow column of docs/protocols.md (regenerated into Spec/DocTable.v on every build) is the reference for where each column comes from (theorem c09_doc_sflow_column_implemented); the value semantics of sampled IPv4/IPv6 records is the model itself']
STREAMS = [dict(name='sflow', stream=0, n=dict(quick=800, thorough=20000), timeout=120.0)]


def nontrivial(inp, out):
    return ' m ' in out


def run(chk):
    return run_pipe_property(chk, sys.modules[__name__], STREAMS, dict(quick=2000, thorough=40000),
                             extra=lambda c: doc_column_part(c, 'sf'))
