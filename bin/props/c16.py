"""C16 first contact with an exporter is atomic: no template or rate is lost."""
import itertools
from engine import *

GEN = 'C16'
MODEL_FN = 'Model/First.v:wstep (repaired) / run'
RULE = ('forced schedules through the public factory callbacks (NetFlowTemplater of the pipe, the samplingRateSystem argument '
        'of CreateProtoProducer): k in {2,3} workers handle first datagrams of a new exporter (template A/B/C, or options data '
        'announcing a rate per domain) concurrently; every worker that reaches the factory is parked inside it; the parked '
        'workers are released one at a time in EVERY order (all k^k index sequences), each running to completion; then data '
        'sets using every announced template / domain are sent sequentially and must decode and carry the announced rate. '
        'expected = the model\'s repaired protocol on the same schedule (nothing lost). non-trivial = a schedule with at '
        'least two workers; distinct by (mode, k, order). free-running: 3000 (quick) / 40000 (thorough) rounds per (mode, k in 2..4), a new exporter '
        'per round, workers lined up at their first template lookup, then follow-up data must decode and carry the announced rate')
TRUSTED = ['Coq 8.16.1 kernel (coqc)', 'extraction + ocaml/main.ml glue', 'Go harness harness/first.go (parking through the factory callbacks), bin/engine.py',
           'modelled, not verified: utils/pipe.go first-contact block, producer/proto/proto.go getSamplingRateSystem']
ASSUMPTIONS = ['each of lookup / create-publish / add is atomic (they are single critical sections or single map operations in the code)',
               'interleavings are forced only at the factory callbacks (the free-running rounds sample the others); the theorem covers all interleavings of the model',
               'a worker not parked within 150 ms is taken to be blocked on the write lock']
STREAMS = []


def nontrivial(inp, out):
    return True


def run(chk):
    me = sys.modules[__name__]
    std_prepare(chk)
    lines = []
    for mode in ('tmpl', 'samp'):
        for k in (2, 3):
            for order in itertools.product(range(k), repeat=k):
                lines.append('first %s #%x %s' % (mode, k, ' '.join('#%x' % o for o in order)))
    if chk.tier == 'thorough':
        lines = lines * 5
    impl = impl_run(chk.harness, lines, timeout=600.0)
    mod = model_run(GEN, lines)
    pin = model_run('C16P', lines)
    chk.evals += len(lines)
    chk.count('forced schedules', len(lines))
    chk.exhaustive.append('every release order (k^k index sequences) for k in {2,3} workers, template map and sampling map: %d schedules' % len(set(lines)))
    for a, o, m, p in zip(lines, impl, mod, pin):
        chk.nontrivial.add(hashlib.sha1(a.encode()).digest()[:8])
        if o != m:
            chk.record('scopeA', dict(concrete=True, input=a, impl=o, expected=m, pinned_model=p,
                       what='after all workers returned, a template or rate announced at first contact is not visible to a later datagram'), {})
    # free-running first contact: real concurrency, many rounds, a new exporter per round; the workers are lined
    # up at their first template lookup (right before the producer looks up / creates the exporter's sampling
    # system). Covers interleavings the factory callbacks cannot force (two workers past the read-miss before
    # either takes the write lock).
    nr = dict(quick=3000, thorough=40000)[chk.tier]
    stress = ['firststress %s #%x #%x' % (mode, k, nr) for mode in ('samp', 'tmpl') for k in (2, 3, 4)]
    so = impl_run(chk.harness, stress, timeout=900.0)
    chk.evals += len(stress) * nr
    chk.count('free-running rounds', len(stress) * nr)
    for a, o in zip(stress, so):
        chk.nontrivial.add(hashlib.sha1(a.encode()).digest()[:8])
        if o != 'lost #0':
            chk.record('scopeA', dict(concrete=True, input=a, impl=o, expected='lost #0',
                       what='free-running first contact: in some rounds a template or rate announced by a worker that had returned was not visible afterwards (racy: replay repeats the rounds)'), {})
    chk.samples.append(dict(stream='free-running', input=stress[0], impl=so[0]))
    chk.samples.append(dict(stream='forced', input=lines[3], impl=impl[3], repaired_model=mod[3], pinned_model=pin[3]))
    chk.notes.append('pinned-protocol model loses on %d of %d schedules' % (sum(1 for p in pin if p != 'lost #0'), len(pin)))
    return chk.finish(me)
