"""C11 sampling rate follows the exporter's latest announcement."""
from pipefam import *

GEN = 'C11'
MODEL_FN = ('Spec/RefRate.v:latest / anns / dgram_key (expected rates: the reference, written over the model pipe output by rate_run; '
            'theorem c11_reference_run), Model/ProdNF.v:produce_nf (find_sampling, sstore), produce_v5')
RULE = ('same histories as C06: several source ports per IP, versions {9,10}, 3 domains; one third of the messages '
        'carry an options template + options data record announcing 305, 50 or 34 (4-byte, sometimes 2- or 8-byte) '
        'before or after the data sets; v5 datagrams carry their own interval; expected rate of every v9/IPFIX message = '
        'latest announcement under (address, version, domain read from the datagram bytes) per Spec/RefRate.v; compared per datagram: error class and '
        'the sampling_rate of every message. non-trivial = some message carries a non-zero rate; distinct by input')
TRUSTED = ['Coq 8.16.1 kernel (coqc)', 'extraction + ocaml/main.ml glue',
           'Go harness harness/pipe.go, bin/engine.py, bin/pipefam.py',
           'modelled, not verified: producer/proto/producer_nf.go SearchNetFlowOptionDataSets, basicSamplingRateSystem, proto.go getSamplingRateSystem']
ASSUMPTIONS = ['Model/ProdNF.v corresponds to the producer on all histories, as sampled by this run',
               'the two-level Go map (address string -> (version, domain)) is modelled as one map keyed by the triple']
STREAMS = [dict(name='hist', stream=0, n=dict(quick=250, thorough=5000), timeout=120.0)]


def project(line):
    return project_cols(line, keep={'#3'})


def nontrivial(inp, out):
    return '#3 #' in out


def run(chk):
    return run_pipe_property(chk, sys.modules[__name__], STREAMS, dict(quick=1500, thorough=30000))
