"""C14 mapping files do what docs/mapping.md says."""
import random
from pipefam import *

GEN = 'C14'
MODEL_FN = 'Model/Cfg.v:compile/resolve, Model/Packet.v:get_bytes/map_custom/apply_layer_maps, Model/ProdNF.v:nf_lookup, Model/Format.v:compile_fmt/format_json/format_text/msg_key (field list, renames, renderers, custom fields in the text forms; partition key)'
RULE = ('configs: generated mapping files (1..6 custom protobuf fields varint/string scalar/array with indices 1000..5000; 0..6 '
        'NetFlow v9 / IPFIX mappings with/without PEN and endianness; 0..6 layer mappings over the layer names and aliases of '
        'docs/mapping.md with bit offsets 0..256, bit lengths 1..128, encap on/off; destinations = custom fields or existing '
        'per-flow columns by documented or Go name; field lists, renames, renderers, key lists; port parsers) written as YAML, '
        'loaded by yaml.Unmarshal + ProducerConfig.Compile as cmd/goflow2 does, and run over mixed histories (v5, v9, IPFIX, '
        'sFlow with raw headers that are captures of model frames) through the auto pipe: every message column and custom '
        'field == model under the compiled abstract configuration, and the JSON and text BYTES of every message == Model/Format.v under the '
        'same formatter section (fields, renames, renderers on custom fields and columns), and the partition key bytes == Model/Format.v msg_key '
        '(FNV-1 32 over the %v text of the key fields: columns of every kind, custom fields); GetBytes: '
        'all 1-byte buffers exhaustively, 2- and 3-byte buffers over a bit basis plus random ones, x offsets 0..24 x lengths 0..24 x shift, and five 20-byte buffers x offsets 0..40 x every length 1..128 x shift; doc examples: every ```yaml mapping file shown in docs/mapping.md and '
        'cmd/goflow2/mapping.yaml (re-read from the repository on every run, translated to the abstract configuration by yaml_to_toks) '
        'must load and behave like the model compiled from its own content; edge files: 20 hand-written mapping files at the edges of what the loader accepts (unknown renderers / fields / keys, unmappable custom types, Go names, virtual fields, duplicate indices ...): accepted or rejected as the model does. '
        'binary: cmd/goflow2 built from the working tree and run with generated mapping files (-mapping, json, file transport, one worker): every line of its output file == format_json of the model for the datagrams sent to its socket. '
        'non-trivial = a message carrying a custom field or produced under a matching mapping, or a GetBytes call for at least one bit of a non-empty buffer; distinct by input')
TRUSTED = ['Coq 8.16.1 kernel (coqc), vm_compute in the finite GetBytes theorem', 'extraction + ocaml/main.ml glue',
           'Go harness harness/cfg.go, fmt.go; bin/engine.py; the Python YAML printer of this module',
           'modelled, not verified: producer/proto/config_impl.go, reflect.go, producer_packet.go (layer mapping hook)']
ASSUMPTIONS = ['the abstract configuration printed as tokens and the YAML text describe the same file (both printed from one Python structure)',
               'outside the formatter model: timestamps beyond year 9999 under the datetime renderers (not compared)']
COLS = [('bytes', 'Bytes'), ('packets', 'Packets'), ('src_addr', 'SrcAddr'), ('dst_addr', 'DstAddr'), ('etype', 'Etype'),
        ('proto', 'Proto'), ('src_port', 'SrcPort'), ('dst_port', 'DstPort'), ('in_if', 'InIf'), ('out_if', 'OutIf'),
        ('src_mac', 'SrcMac'), ('dst_mac', 'DstMac'), ('src_vlan', 'SrcVlan'), ('dst_vlan', 'DstVlan'), ('vlan_id', 'VlanId'),
        ('ip_tos', 'IpTos'), ('forwarding_status', 'ForwardingStatus'), ('ip_ttl', 'IpTtl'), ('ip_flags', 'IpFlags'),
        ('tcp_flags', 'TcpFlags'), ('icmp_type', 'IcmpType'), ('icmp_code', 'IcmpCode'), ('ipv6_flow_label', 'Ipv6FlowLabel'),
        ('fragment_id', 'FragmentId'), ('fragment_offset', 'FragmentOffset'), ('src_as', 'SrcAs'), ('dst_as', 'DstAs'),
        ('next_hop', 'NextHop'), ('next_hop_as', 'NextHopAs'), ('src_net', 'SrcNet'), ('dst_net', 'DstNet'),
        ('bgp_next_hop', 'BgpNextHop'), ('bgp_communities', 'BgpCommunities'), ('as_path', 'AsPath'),
        ('mpls_ttl', 'MplsTtl'), ('mpls_label', 'MplsLabel'), ('observation_point_id', 'ObservationPointId'),
        ('ipv6_routing_header_seg_left', 'Ipv6RoutingHeaderSegLeft'), ('time_flow_start_ns', 'TimeFlowStartNs'),
        ('time_flow_end_ns', 'TimeFlowEndNs')]
LAYERS = ['ethernet', '2', 'dot1q', 'mpls', 'ipv4', 'ipv6', 'ip', '3', 'tcp', 'udp', '4', 'icmp', 'icmpv6', 'gre',
          'ipv6eh_routing', 'ipv6eh_fragment']
NFIDS = [1, 2, 4, 5, 6, 7, 8, 10, 11, 12, 14, 15, 16, 17, 18, 21, 22, 27, 28, 56, 57, 58, 61, 70, 80, 81, 89, 136, 150, 152, 153]
ALLFIELDS = [c[0] for c in COLS] + ['type', 'time_received_ns', 'sequence_num', 'sampling_rate', 'sampler_address',
                                     'observation_domain_id', 'layer_stack', 'layer_size']


def gen_cfg(rng):
    """-> (yaml text, formatter + cfg tokens)"""
    toks = ['cfg']
    customs = []
    for i in range(rng.randrange(1, 7)):
        c = dict(name='cust%d' % i, index=1000 + rng.randrange(4001), type=rng.choice(['varint', 'string', 'bytes']),
                 array=rng.random() < 0.4)
        customs.append(c)
        toks += ['custom', c['name'], '#%x' % c['index'], '#%x' % (0 if c['type'] == 'varint' else 1), '#%x' % int(c['array'])]

    # one file in four is DENSE: several layer mappings on the layers every frame has, at bit offsets and lengths that are
    # not byte aligned, most of them into the byte-slice columns (addresses, next hops) -- several assembled extractions
    # of one packet whose results must not share storage
    dense = rng.random() < 0.25

    def dest():
        if dense and rng.random() < 0.6:
            return rng.choice(['src_addr', 'dst_addr', 'next_hop', 'bgp_next_hop', 'NextHop', 'BgpNextHop'])
        if rng.random() < 0.6:
            return rng.choice(customs)['name']
        j, g = rng.choice(COLS)
        return j if rng.random() < 0.8 else g
    y = ['formatter:']
    fields = rng.sample(ALLFIELDS, rng.randrange(3, len(ALLFIELDS))) + [c['name'] for c in customs]
    rng.shuffle(fields)
    y += ['  fields:'] + ['    - %s' % f for f in fields]
    keys = rng.sample([c[0] for c in COLS[:12]], rng.randrange(0, 3)) if rng.random() < 0.5 else \
        rng.sample(ALLFIELDS + [c['name'] for c in customs], rng.randrange(0, 4))
    if keys:
        y += ['  key:'] + ['    - %s' % k for k in keys]
    ren = rng.sample(fields, min(len(fields), rng.randrange(0, 3)))
    if ren:
        y += ['  rename:'] + ['    %s: r_%s' % (f, f) for f in ren]
    rr = rng.sample([c['name'] for c in customs], rng.randrange(0, len(customs) + 1))
    if rng.random() < 0.5:
        rr += rng.sample([f for f in fields if not f.startswith('cust')], min(3, len(fields) - len(customs)))
    rmap = {f: rng.choice(['none', 'ip', 'mac', 'etype', 'proto', 'datetime', 'datetimenano', 'string']) for f in rr}
    if rr:
        y += ['  render:'] + ['    %s: %s' % (f, rmap[f]) for f in rr]
    ftoks = fmt_tokens(fields, {f: 'r_' + f for f in ren}, rmap, keys)
    y += ['  protobuf:']
    for c in customs:
        y += ['    - name: %s' % c['name'], '      index: %d' % c['index'], '      type: %s' % c['type'],
              '      array: %s' % ('true' if c['array'] else 'false')]
    for sect, ver in (('ipfix', 10), ('netflowv9', 9)):
        n = rng.randrange(0, 7)
        if n:
            y += ['%s:' % sect, '  mapping:']
        for _ in range(n):
            penp = ver == 10 and rng.random() < 0.3
            pen = rng.choice([9, 29305]) if penp else 0
            fid = rng.choice(NFIDS) if not penp else rng.randrange(1, 500)
            d = dest()
            little = rng.random() < 0.3
            y += ['    - field: %d' % fid, '      destination: %s' % d]
            if penp:
                y += ['      penprovided: true', '      pen: %d' % pen]
            if little:
                y += ['      endianness: little']
            toks += ['nf', '#%x' % ver, '#%x' % int(penp), '#%x' % pen, '#%x' % fid, d, '#%x' % int(little)]
    nl = rng.randrange(3, 7) if dense else rng.randrange(0, 7)
    np_ = rng.randrange(0, 3)
    if nl or np_:
        y += ['sflow:']
    if np_:
        y += ['  ports:']
        for _ in range(np_):
            tcp = rng.random() < 0.3
            dr = rng.choice(['src', 'dst', 'both'])
            port = rng.choice([3544, 4754, 6081, 53, 443, rng.randrange(65536)])
            pp = rng.randrange(3)
            y += ['    - proto: "%s"' % ('tcp' if tcp else 'udp'), '      dir: "%s"' % dr, '      port: %d' % port,
                  '      parser: "%s"' % ['teredo-dst', 'gre', 'geneve'][pp]]
            if dr in ('both', 'src'):
                toks += ['port', '#%x' % int(tcp), '#0', '#%x' % port, '#%x' % pp]
            if dr in ('both', 'dst'):
                toks += ['port', '#%x' % int(tcp), '#1', '#%x' % port, '#%x' % pp]
    if nl:
        y += ['  mapping:']
        for _ in range(nl):
            key = rng.choice(['ethernet', '2', 'ipv4', 'ipv6', 'ip', '3', 'udp', 'tcp', '4']) if dense else rng.choice(LAYERS)
            encap = rng.random() < (0.1 if dense else 0.3)
            off = rng.randrange(0, 120) if dense else rng.choice([0, 8, 16, 48, 96, 128, rng.randrange(257)])
            ln = rng.choice([4, 12, 20, 31, 33, rng.randrange(1, 129)]) if dense else rng.choice([8, 16, 32, 128, rng.randrange(1, 129)])
            d = dest()
            little = rng.random() < 0.2
            y += ['    - layer: "%s"' % key, '      encap: %s' % ('true' if encap else 'false'), '      offset: %d' % off,
                  '      length: %d' % ln, '      destination: %s' % d]
            if little:
                y += ['      endianness: little']
            toks += ['layer', key, '#%x' % int(encap), '#%x' % off, '#%x' % ln, d, '#%x' % int(little)]
    toks.append('end')
    return '\n'.join(y) + '\n', ftoks + toks


def small_cfg(fields, customs, render=None, rename=None, keys=None, nfmaps=None):
    """a hand-written mapping file: (yaml text, tokens)"""
    y = ['formatter:']
    if fields:
        y += ['  fields:'] + ['    - %s' % f for f in fields]
    if keys:
        y += ['  key:'] + ['    - %s' % k for k in keys]
    if rename:
        import json as _json
        y += ['  rename:'] + ['    %s: %s' % (a, _json.dumps(b)) for a, b in rename.items()]
    if render:
        y += ['  render:'] + ['    %s: %s' % (a, b) for a, b in render.items()]
    toks = fmt_tokens(fields, rename, render, keys) + ['cfg']
    if customs:
        y += ['  protobuf:']
        for n, i, t, a in customs:
            y += ['    - name: %s' % n, '      index: %d' % i, '      type: %s' % t, '      array: %s' % ('true' if a else 'false')]
            toks += ['custom', n, '#%x' % i, '#%x' % ({'varint': 0, 'string': 1, 'bytes': 1}.get(t, 2)), '#%x' % int(a)]
    for sect, ver in (('ipfix', 10), ('netflowv9', 9)):
        if nfmaps:
            y += ['%s:' % sect, '  mapping:']
            for fid, dest in nfmaps:
                y += ['    - field: %d' % fid, '      destination: %s' % dest]
                toks += ['nf', '#%x' % ver, '#0', '#0', '#%x' % fid, dest, '#0']
    toks.append('end')
    return '\n'.join(y) + '\n', toks


def edge_configs():
    """mapping files at the edges of what the loader accepts: unknown / unregistered renderers, unknown fields and keys,
    a custom type the loader cannot map (with and without a mapping that uses it), Go names in the field list, virtual
    fields, renderer keys by Go name, empty renames, two custom fields with one index, no field list, a renderer for
    a custom field that is not listed, a field listed twice, index 0, one name declared as array and as scalar, custom fields named like columns of
    the message struct with the other array flag.
    The loader must accept or reject each as the model does, and accepted ones must behave like it."""
    C = [('cust0', 1001, 'varint', False)]
    return {
        'plain': small_cfg(['bytes', 'cust0'], C, nfmaps=[(1, 'cust0')]),
        'render-network': small_cfg(['bytes', 'cust0'], C, render={'bytes': 'network'}),
        'render-foo': small_cfg(['bytes'], C, render={'bytes': 'foo'}),
        'render-type': small_cfg(['bytes'], C, render={'bytes': 'type'}),
        'field-unknown': small_cfg(['bytes', 'nonexistent'], C),
        'key-unknown': small_cfg(['bytes'], C, keys=['nonexistent']),
        'key-custom': small_cfg(['bytes', 'cust0'], C, keys=['cust0'], nfmaps=[(2, 'cust0')]),
        'type-bad-mapped': small_cfg(['bytes', 'c1'], [('c1', 1002, 'int', False)], nfmaps=[(1, 'c1')]),
        'type-bad-unused': small_cfg(['bytes', 'c1'], [('c1', 1002, 'int', False)]),
        'go-name-field': small_cfg(['SrcAddr', 'bytes'], C),
        'go-name-field2': small_cfg(['Bytes'], C),
        'virtual': small_cfg(['icmp_name', 'proto', 'icmp_type'], C),
        'render-go-key': small_cfg(['src_addr'], C, render={'SrcAddr': 'none'}),
        'empty-rename': small_cfg(['bytes', 'packets'], C, rename={'bytes': ''}),
        'odd-renames': small_cfg(['bytes', 'packets', 'proto', 'cust0'], C, rename={'bytes': 'by"tes', 'packets': 'pa\\ck\nets', 'proto': '<p&r>\u00fc', 'cust0': 'c u s t'}, nfmaps=[(1, 'cust0')]),
        'dup-index': small_cfg(['a', 'b'], [('a', 1001, 'varint', False), ('b', 1001, 'varint', False)], nfmaps=[(1, 'a'), (2, 'b')]),
        'no-fields': small_cfg([], C, nfmaps=[(1, 'cust0')]),
        'render-custom-unlisted': small_cfg(['bytes'], C, render={'cust0': 'ip'}, nfmaps=[(1, 'cust0')]),
        'field-twice': small_cfg(['bytes', 'bytes', 'cust0', 'cust0'], C, nfmaps=[(1, 'cust0')]),
        'index-zero': small_cfg(['bytes', 'z'], [('z', 0, 'varint', False)], nfmaps=[(1, 'z')]),
        'custom-named-like-a-column-array': small_cfg(['Bytes', 'packets'], [('Bytes', 1001, 'varint', True)], nfmaps=[(2, 'Bytes')]),
        'custom-named-like-a-list-column-scalar': small_cfg(['AsPath', 'MplsLabel', 'packets'], [('AsPath', 1001, 'varint', False), ('MplsLabel', 1002, 'varint', False)], nfmaps=[(2, 'AsPath')]),
        'custom-named-like-a-bytes-column-array': small_cfg(['SrcAddr', 'packets'], [('SrcAddr', 1001, 'varint', True)], nfmaps=[(2, 'SrcAddr')]),
        'array-scalar-same-name': small_cfg(['x'], [('x', 1001, 'varint', True), ('x', 1002, 'varint', False)], nfmaps=[(1, 'x')]),
    }


def binary_cfg(rng):
    """a mapping file for the end-to-end run of the real binary: no column that depends on the wall clock"""
    notime = [f for f in ALLFIELDS if not f.startswith('time_')]
    customs = [('cust%d' % i, 1000 + rng.randrange(4000), rng.choice(['varint', 'string']), rng.random() < 0.4)
               for i in range(rng.randrange(0, 3))]
    fields = rng.sample(notime, rng.randrange(3, len(notime))) + [c[0] for c in customs]
    if rng.random() < 0.5:
        fields.append('icmp_name')
    rng.shuffle(fields)
    ren = {f: 'x_' + f for f in rng.sample(fields, min(2, len(fields)))}
    rend = {f: rng.choice(['none', 'ip', 'mac', 'etype', 'proto', 'string'])
            for f in rng.sample(fields, min(3, len(fields))) if f != 'icmp_name'}
    keys = rng.sample([f for f in fields if f != 'icmp_name'], min(2, len(fields) - 1)) if rng.random() < 0.5 else []
    nf = [(rng.choice([1, 2, 4, 7, 8, 10, 27, 56, 61, 82, 152]), c[0]) for c in customs]
    return small_cfg(fields, customs, render=rend, rename=ren, keys=keys, nfmaps=nf)


def binary_run(exe, y, toks, hist, kind, fmt='json'):
    """one run of the real goflow2 binary: -mapping <file> -format json -transport file, one socket, one worker, blocking;
    the datagrams of `hist` sent from one local socket; SIGTERM; -> (exit status, lines of the output file, model line)"""
    import socket, signal, tempfile, subprocess, time
    f = hist.split(' ')
    quads = [f[i:i + 4] for i in range(0, len(f) - 3, 4)]
    tx = socket.socket(socket.AF_INET, socket.SOCK_DGRAM)
    tx.bind(('127.0.0.1', 0))
    sport = tx.getsockname()[1]
    s = socket.socket(socket.AF_INET, socket.SOCK_DGRAM)
    s.bind(('127.0.0.1', 0))
    port = s.getsockname()[1]
    s.close()
    out = tempfile.mktemp(prefix='e2e', dir='/root/scratch')
    mp = out + '.yaml'
    open(mp, 'w').write(y or '')
    pr = subprocess.Popen([exe, '-listen', '%s://127.0.0.1:%d?count=1&workers=1&blocking=true' % (kind, port), '-transport', 'file',
                           '-transport.file', out, '-format', fmt] + (['-transport.file.sep='] if fmt == 'bin' else []) + (['-mapping', mp] if y else []) + ['-addr', '', '-loglevel', 'error'],
                          stdout=subprocess.PIPE, stderr=subprocess.PIPE)
    # what the reference expects for these datagrams (exporter = 127.0.0.1 and our sending port): known before sending,
    # so that the collector is stopped when it has written that much -- or after a long silence -- and not on a guess
    # the receiver reads a datagram into a 9000-byte buffer (utils/udp.go): what the pipe sees of a longer one is its
    # first 9000 bytes, and that is what the reference is given
    h2 = ' '.join(' '.join(['=7f000001', '#%x' % sport, q[2], q[3][:1 + 2 * 9000]]) for q in quads)
    line = ('pipec %s yamlj:%s %s %s' % (kind, y.encode().hex(), ' '.join(toks), h2)) if y else ('fmtchk %s none %s' % (kind, h2))
    model = model_run('C14' if y else 'C13', [line])[0]
    mt = model.split(' ')
    want = sum(1 for x in mt if x == ('b' if fmt == 'bin' else 'j'))

    def units():
        try:
            raw = open(out, 'rb').read()
        except OSError:
            return 0
        if fmt != 'bin':
            return raw.count(b'\n')
        n, i = 0, 0
        while i < len(raw):
            v = sh_ = 0
            while i < len(raw):
                x = raw[i]
                i += 1
                v |= (x & 127) << sh_
                sh_ += 7
                if x < 128:
                    break
            else:
                break
            if i + v > len(raw):
                break
            i += v
            n += 1
        return n
    # wait until the collector listens (the port shows up in /proc/net/udp), at most 30 s
    hexport = ':%04X ' % port
    for _ in range(600):
        try:
            if hexport in open('/proc/net/udp').read():
                break
        except OSError:
            pass
        time.sleep(0.05)
    time.sleep(0.1)
    for k, q in enumerate(quads):
        tx.sendto(bytes.fromhex(q[3][1:]), ('127.0.0.1', port))
        time.sleep(0.002)
        if k % 16 == 15:
            time.sleep(0.02)
    # stop the collector when it has written what is expected, or after 15 s without any growth (at most 120 s)
    last, t_last, t0 = -1, time.time(), time.time()
    while time.time() - t0 < 120:
        u = units()
        if u >= want:
            break
        if u != last:
            last, t_last = u, time.time()
        elif time.time() - t_last > 15:
            break
        time.sleep(0.05)
    time.sleep(0.1)
    pr.send_signal(signal.SIGTERM)
    try:
        rc = pr.wait(timeout=30)
    except subprocess.TimeoutExpired:
        pr.kill()
        rc = 'timeout'
    tx.close()
    try:
        raw = open(out, 'rb').read()
    except Exception:
        raw = b''
    if fmt == 'bin':
        lines = raw
    else:
        lines = raw.split(b'\n')
        if lines and lines[-1] == b'':
            lines.pop()
    for p in (out, mp):
        try:
            os.remove(p)
        except OSError:
            pass
    return rc, lines, line, model


def binary_part(chk, rng, hists):
    """THE SHIPPED BINARY against the model: cmd/goflow2 is built from the working tree and run with a generated mapping
    file (-mapping), JSON format and the file transport; a generated history is sent to its socket; every line of the
    output file must be, byte for byte, Model/Format.v format_json of the message the model pipe produces for the
    same datagrams (exporter = 127.0.0.1 and the sending socket's port), in order."""
    import tempfile, shutil
    bdir = tempfile.mkdtemp(prefix='c14bin', dir='/root/scratch')     # own directory: checks may run side by side
    exe = os.path.join(bdir, 'goflow2')
    p = sh('go build -o %s ./cmd/goflow2' % exe, cwd=REPO, env=GOENV, timeout=900, check=False)
    if p.returncode != 0:
        chk.record('binary', dict(concrete=False, what='cmd/goflow2 does not build: ' + p.stdout[-300:]), {})
        return
    def judge_run(rc, lines, line, m):
        t = m.split(' ')
        exp = [None if t[i + 1] == 'oom' else bytes.fromhex(t[i + 1][1:]) for i, x in enumerate(t[:-1]) if x == 'j']
        bad = rc != 0 or len(lines) != len(exp) or any(e is not None and e != l for e, l in zip(exp, lines))
        return bad, exp
    runs = []
    nlines = 0
    try:
        for _ in range(dict(quick=4, thorough=40)[chk.tier]):
            y, toks = binary_cfg(rng)
            kind = rng.choice(['flow', 'flow', 'netflow', 'sflow'])
            hist = rng.choice(hists)
            rc, lines, line, m = binary_run(exe, y, toks, hist, kind)
            bad, exp = judge_run(rc, lines, line, m)
            if bad:
                # datagrams can be lost between two processes on a loaded machine: believed only if it happens again
                rc, lines, line, m = binary_run(exe, y, toks, hist, kind)
                bad, exp = judge_run(rc, lines, line, m)
                chk.notes.append('binary run repeated after a first disagreement: %s' % ('disagrees again' if bad else 'agrees'))
            runs.append(line)
            chk.evals += 1
            nlines += len(lines)
            if lines:
                chk.nontrivial.add(hashlib.sha1(line.encode()).digest()[:8])
            if bad:
                first = next((i for i, (e, l) in enumerate(zip(exp, lines)) if e is not None and e != l), None)
                chk.record('scopeA-binary', dict(concrete=True, input=line[:60000], config=y, listen=kind, exit_status=rc,
                           lines_written=len(lines), lines_expected=len(exp),
                           first_difference=None if first is None else dict(index=first, impl=lines[first][:1500].decode(errors='replace'),
                                                                            expected=exp[first][:1500].decode(errors='replace')),
                           what='the goflow2 binary, run with this mapping file, did not write the JSON lines the reference gives for the datagrams sent to it'), {})
    finally:
        shutil.rmtree(bdir, ignore_errors=True)
    chk.count('end-to-end runs of the goflow2 binary', len(runs))
    chk.count('JSON lines written by the binary and compared', nlines)


def yaml_to_toks(doc):
    """abstract configuration tokens of a parsed mapping file (the same vocabulary gen_cfg prints)"""
    doc = doc or {}
    fm = doc.get('formatter') or {}
    toks = fmt_tokens(fm.get('fields'), fm.get('rename'), fm.get('render'), fm.get('key')) + ['cfg']
    for c in ((doc.get('formatter') or {}).get('protobuf') or []):
        toks += ['custom', str(c['name']), '#%x' % int(c['index']), '#%x' % (0 if str(c.get('type', '')) == 'varint' else 1),
                 '#%x' % int(bool(c.get('array', False)))]
    for sect, ver in (('ipfix', 10), ('netflowv9', 9)):
        for e in ((doc.get(sect) or {}).get('mapping') or []):
            toks += ['nf', '#%x' % ver, '#%x' % int(bool(e.get('penprovided', False))), '#%x' % int(e.get('pen', 0) or 0),
                     '#%x' % int(e['field']), str(e['destination']), '#%x' % int(str(e.get('endianness', '')) == 'little')]
    sf = doc.get('sflow') or {}
    for e in (sf.get('ports') or []):
        tcp = str(e.get('proto')) == 'tcp'
        pp = {'teredo-dst': 0, 'teredo': 0, 'gre': 1, 'geneve': 2}.get(str(e.get('parser')), 0)
        dr = str(e.get('dir'))
        if dr in ('both', 'src'):
            toks += ['port', '#%x' % int(tcp), '#0', '#%x' % int(e['port']), '#%x' % pp]
        if dr in ('both', 'dst'):
            toks += ['port', '#%x' % int(tcp), '#1', '#%x' % int(e['port']), '#%x' % pp]
    for e in (sf.get('mapping') or []):
        toks += ['layer', str(e['layer']), '#%x' % int(bool(e.get('encap', False))), '#%x' % int(e.get('offset', 0)),
                 '#%x' % int(e.get('length', 0)), str(e['destination']), '#%x' % int(str(e.get('endianness', '')) == 'little')]
    toks.append('end')
    return toks


def doc_examples(repo):
    """the mapping files the documentation shows: every ```yaml block of docs/mapping.md that is a mapping file
    (has one of the top-level sections), and cmd/goflow2/mapping.yaml"""
    import re, yaml
    out = []
    try:
        md = open(os.path.join(repo, 'docs', 'mapping.md')).read()
    except OSError:
        md = ''
    for i, blk in enumerate(re.findall(r'```yaml\n(.*?)```', md, re.S)):
        try:
            doc = yaml.safe_load(blk)
        except Exception:
            continue
        if isinstance(doc, dict) and set(doc) & {'formatter', 'ipfix', 'netflowv9', 'sflow'}:
            out.append(('docs/mapping.md block %d' % (i + 1), blk, doc))
    try:
        blk = open(os.path.join(repo, 'cmd', 'goflow2', 'mapping.yaml')).read()
        out.append(('cmd/goflow2/mapping.yaml', blk, yaml.safe_load(blk)))
    except Exception:
        pass
    return out


def nontrivial(inp, out):
    if inp.startswith('getbytes'):
        # a GetBytes call that asks for at least one bit of a non-empty buffer
        f = inp.split(' ')
        return len(f) >= 4 and f[1] != '=' and int(f[3][1:], 16) > 1000
    # a custom field (number >= 1000 = 0x3e8) shows up in some message
    return any(int(a[1:], 16) >= 1000 for st in split_steps(out) for m in step_msgs(st)[2] for a, b in m
               if a.startswith('#'))


def getbytes_lines(rng):
    bufs = [bytes([b]) for b in range(256)] + [b'']
    for n in (2, 3):
        for bit in range(8 * n):
            v = 1 << bit
            bufs.append(v.to_bytes(n, 'big'))
        bufs += [bytes([255] * n), bytes([0] * n), bytes([0xaa] * n), bytes([0x55] * n)]
        bufs += [bytes(rng.randrange(256) for _ in range(n)) for _ in range(60)]
    lines = []
    for b in bufs:
        for off in range(0, 25):
            for ln in range(0, 25):
                if off > len(b) * 8 + 2:
                    continue
                for sh in (0, 1):
                    lines.append('getbytes =%s #%x #%x #%x' % (b.hex(), off + 1000, ln + 1000, sh))
    # wide extractions: 20-byte buffers (random, all ones, alternating) x every bit offset 0..40 x EVERY documented bit length
    # 1..128 x both alignments -- results of 1..16 bytes assembled from up to 17 source bytes
    wide = [bytes(rng.randrange(256) for _ in range(20)) for _ in range(3)] + [bytes([255] * 20), bytes([0xa5, 0x5a] * 10)]
    for b in wide:
        for off in range(0, 41):
            for ln in range(1, 129):
                for sh in (0, 1):
                    lines.append('getbytes =%s #%x #%x #%x' % (b.hex(), off + 1000, ln + 1000, sh))
    return lines


def run(chk):
    me = sys.modules[__name__]
    std_prepare(chk)
    rng = random.Random(chk.seed * 31 + 14)
    ncfg = dict(quick=60, thorough=1200)[chk.tier]
    hists = [a.split(' ', 1)[1] for a, _ in model_gen(GEN, 0, chk.seed + 5, 0, dict(quick=30, thorough=200)[chk.tier])]
    ins = []
    for _ in range(ncfg):
        y, toks = gen_cfg(rng)
        for h in rng.sample(hists, 4):
            ins.append('pipec flow yamlj:%s %s %s' % (y.encode().hex(), ' '.join(toks), h))
    impl = impl_run(chk.harness, ins, timeout=120.0)
    mod = model_run(GEN, ins)
    chk.evals += len(ins)
    chk.count('configs x histories', len(ins))
    bad = []
    noom = nfmt = 0
    for a, o, m in zip(ins, impl, mod):
        if nontrivial(a, m):
            chk.nontrivial.add(hashlib.sha1(a.encode()).digest()[:8])
        noom += m.count(' oom')
        nfmt += m.count(' j ')
        o = mask_oom(o, m)
        if o != m:
            cfgtxt = bytes.fromhex(a.split(' ')[2][6:]).decode()
            if 'BAD' in o and 'BAD' not in m:
                chk.record('scopeA-oracle', dict(concrete=True, input=a, impl=o[:3000], model=m[:3000], config=cfgtxt,
                           what='JSON / key / cross-format oracle failed under a generated mapping file'), {})
            else:
                # generated mapping file + generated traffic is the property's own domain and the model compiled from
                # the same abstract configuration is its reference: a disagreement is a concrete violation
                chk.record('scopeA', dict(concrete=True, input=a[:60000], impl=o[:3000], expected=m[:3000], config=cfgtxt,
                           what='output under a generated mapping file differs from the reference compiled from the same configuration'), {})
    chk.count('messages whose JSON and text bytes were compared', nfmt)
    chk.count('JSON / text forms outside the formatter model (timestamps beyond year 9999 etc.), not compared', noom)
    if ins and len(chk.samples) < 6:
        chk.samples.append(dict(stream='configs', config=bytes.fromhex(ins[0].split(' ')[2][6:]).decode()[:1200],
                                model=mod[0][:500], impl=impl[0][:500]))
    resolve_scope_b(chk, me, bad, 'configs', {}, None, None)
    # the mapping files the documentation itself shows (re-read from the repository on every run): each must be
    # accepted by the loader and behave like the model compiled from its own content
    exs = doc_examples(REPO)
    dl, dmeta = [], []
    for name, blk, doc in exs:
        try:
            toks = yaml_to_toks(doc)
        except Exception as e:
            chk.notes.append('documented example %s not translated: %s' % (name, str(e)[:100]))
            continue
        for h in rng.sample(hists, min(len(hists), dict(quick=6, thorough=60)[chk.tier])):
            dl.append('pipec flow yamlj:%s %s %s' % (blk.encode().hex(), ' '.join(toks), h))
            dmeta.append(name)
    di = impl_run(chk.harness, dl, timeout=120.0)
    dm = model_run(GEN, dl)
    chk.evals += len(dl)
    chk.count('documented example mapping files x histories', len(dl))
    for a, o, m, name in zip(dl, di, dm, dmeta):
        if nontrivial(a, m):
            chk.nontrivial.add(hashlib.sha1(a.encode()).digest()[:8])
        o = mask_oom(o, m)
        if o != m:
            chk.record('scopeA-doc', dict(concrete=True, input=a[:60000], impl=o[:3000], expected=m[:3000], config=name,
                       what='a mapping file shown in the documentation is rejected by the loader or does not do what the reference compiled from the same file does'), {})
    if dl:
        chk.samples.append(dict(stream='doc-examples', files=[n for n, _, _ in exs], impl=di[0][:300]))
    # mapping files at the edges of what the loader accepts
    el, en = [], []
    for name, (y, toks) in edge_configs().items():
        for h in rng.sample(hists, min(len(hists), dict(quick=4, thorough=30)[chk.tier])):
            el.append('pipec flow yamlj:%s %s %s' % (y.encode().hex(), ' '.join(toks), h))
            en.append(name)
    ei = impl_run(chk.harness, el, timeout=120.0)
    em = model_run(GEN, el)
    chk.evals += len(el)
    chk.count('edge mapping files x histories', len(el))
    chk.count('edge mapping files the loader rejects (as the model does)', sum(1 for o, m in zip(ei, em) if o == m == 'cfgerr'))
    for a, o, m, name in zip(el, ei, em, en):
        if nontrivial(a, m):
            chk.nontrivial.add(hashlib.sha1(a.encode()).digest()[:8])
        if mask_oom(o, m) != m:
            chk.record('scopeA-edge', dict(concrete=True, input=a[:60000], impl=mask_oom(o, m)[:3000], expected=m[:3000], config=name,
                       what='a mapping file at the edge of what the loader accepts is accepted / rejected / applied differently from the reference'), {})
    binary_part(chk, rng, hists)
    # GetBytes
    gb = getbytes_lines(rng)
    bad = run_scope_b(chk, me, gb, 'getbytes', {}, timeout=240.0)
    chk.exhaustive.append('GetBytes: all 1-byte buffers x offsets 0..24 x lengths 0..24 x shift (exhaustive); 2-/3-byte buffers over a bit basis and random values; five 20-byte buffers x offsets 0..40 x lengths 1..128 x shift: %d calls' % len(gb))
    # the model's get_bytes IS the bit-level specification for every buffer, offset and length (c14_getbytes_exact): a
    # disagreement on a GetBytes call is a failing input of the property itself
    for a, o, m in bad:
        chk.record('scopeA', dict(concrete=True, input=a, impl=o, expected=m,
                   what='GetBytes returns other bits than the bit range the mapping configures (Spec/BitNum.v, c14_getbytes_exact)'), {})
    return chk.finish(me)
