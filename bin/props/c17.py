"""C17 each received datagram is decoded exactly once, intact, or counted as dropped."""
import random
from engine import *

GEN = 'C17'
MODEL_FN = 'Spec/TraceSpec.v:trace_ok (the monitor) over the event trace of the real receiver'
RULE = ('the real UDP receiver on loopback: sockets 1..4 x workers 1..8 x queue {0,1,8,1000} x blocking on/off; bursts of 64..600 '
        'self-describing datagrams (id + length + crc32, 1..9000 bytes) from 3 source sockets; decoder behaviours instant, slow, '
        'blocking until released, erroring, panicking inside PanicDecoderWrapper; events: every successful ReadFromUDP (verif '
        'hook: size, buffer address), decoder call start / end (id, checksum valid, buffer address), Dropped callback (id, '
        'buffer); after quiescence the trace is judged by the extracted Coq monitor: no buffer read into while queued or under '
        'a running decoder call, every id started at most once, never both decoded and dropped, no drop in blocking mode, '
        'checksum valid at start and end, reads == decoded + dropped; the callback cmd/goflow2 installs (metrics.NewReceiverMetric) is called next to the recording one and its Prometheus counters must move by exactly the drops of the run; Stop must then return. '
        'non-trivial = a run with at least 32 reads; distinct by parameters')
TRUSTED = ['Coq 8.16.1 kernel (coqc), vm_compute in the monitor Example', 'extraction + ocaml/main.ml glue',
           'Go harness harness/udp.go, the verif hook in utils/udp.go, bin/engine.py',
           'modelled, not verified: utils/udp.go; kernel loss is excluded by counting reads through the hook']
ASSUMPTIONS = ['the event order is the order of acquisition of the harness mutex (a linearisation of the real execution)',
               'goroutine scheduling is whatever the runtime produced in this run; the theorems cover every schedule of the model',
               'monitor soundness (c17_monitor_sound) and meaning (c17_monitor_meaning) are theorems; that utils/udp.go refines the model receiver step by step is what the monitored traces sample']
STREAMS = []


def nontrivial(inp, out):
    return True


def run(chk):
    me = sys.modules[__name__]
    std_prepare(chk)
    rng = random.Random(chk.seed * 31 + 17)
    lines = []
    nruns = dict(quick=48, thorough=600)[chk.tier]
    for i in range(nruns):
        sockets = rng.choice([1, 2, 3, 4])
        workers = rng.choice([1, 2, 4, 8])
        queue = rng.choice([0, 1, 8, 1000])
        blocking = rng.randrange(2)
        beh = i % 5
        n = rng.choice([64, 128, 300, 600])
        lines.append('udp #%x #%x #%x #%x #%x #%x #%x' % (sockets, workers, queue, blocking, n, beh, rng.randrange(1 << 30)))
    impl = [impl_run(chk.harness, [l], timeout=60.0, limit_mem=False)[0] for l in lines]
    # a run that met a socket of another process on its port says nothing about the receiver: repeated on a fresh port
    for _ in range(3):
        for i, o in enumerate(impl):
            if 'foreignport' in o:
                impl[i] = impl_run(chk.harness, [lines[i]], timeout=60.0, limit_mem=False)[0]
    verdicts = model_run(GEN, ['trace ' + o for o in impl])
    chk.evals += len(lines)
    chk.count('receiver runs', len(lines))
    total_events = 0
    for a, o, v in zip(lines, impl, verdicts):
        f = o.split(' ')
        nreads = f.count('R')
        total_events += int(v.split(' ')[1][1:], 16) if v.startswith('trace') and ' #' in v else 0
        if nreads >= 32:
            chk.nontrivial.add(hashlib.sha1(a.encode()).digest()[:8])
        bad_ck = any(f[i] == 'S' and f[i + 3] == '#0' for i in range(len(f) - 3)) or \
            any(f[i] == 'E' and f[i + 2] == '#0' for i in range(len(f) - 2))
        bad_metric = any(x.startswith('dropmetricBAD') for x in f)
        if not v.startswith('traceok') or bad_ck or bad_metric or not o.endswith('stopok'):
            chk.record('scopeA', dict(concrete=True, input=a, impl=o[-3000:], verdict=v, checksum_bad=bad_ck, drop_metric_bad=bad_metric,
                       what='the receiver\'s event trace violates the monitor (double / missing / both decode and drop, buffer reuse, drop in blocking mode, corrupt payload), the Prometheus drop counter of metrics/receiver.go did not move by the number of drops, or Stop did not return'), {})
        chk.count('drops', f.count('D'))
        chk.count('decodes', f.count('E'))
    chk.notes.append('events judged by the monitor: %d' % total_events)
    chk.samples.append(dict(stream='udp', input=lines[0], trace_head=impl[0][:400], verdict=verdicts[0]))
    return chk.finish(me, extra_cov=dict(traces_validated_against_impl=len(lines)))
