"""C19 file output: each message written once and intact, also across rotation."""
import random
from engine import *

GEN = 'C19'
MODEL_FN = 'Model/FileT.v:sstep/fstep (repaired)'
RULE = ('the registered file transport in the harness process: forced: one sender is parked through the verif schedule point '
        'between obtaining the current writer and writing, the output file is renamed and SIGHUP delivered to the process '
        '(rotation placed exactly inside that window), then the sender is released; forced2: TWO such rotations while the same sender stands in the window; free: 2..32 goroutines sending distinct '
        'self-delimiting messages {id:len:xxxx} of 1..20000 bytes with separators "\\n", "" and "<|>" and 0..5 SIGHUP '
        'rotations (with rename) at random moments, every second sender handing over consecutive sub-slices of ONE batch buffer it owns (the transport may not touch the memory behind a message); afterwards old + new files are parsed into units: every Send returned '
        'nil, every id exactly once, nothing garbled, the batch buffers of the senders unchanged. expected = the repaired model on the forced schedule (no error, nothing '
        'missing). non-trivial = a run with a rotation while senders are active; distinct by parameters')
TRUSTED = ['Coq 8.16.1 kernel (coqc)', 'extraction + ocaml/main.ml glue', 'Go harness harness/filet.go, verif hooks in transport/file, bin/engine.py',
           'modelled, not verified: transport/file/transport.go']
ASSUMPTIONS = ['one write(2) on an O_APPEND descriptor is atomic with respect to other appenders (OS behaviour, exercised by the free-running runs)',
               'fmt.Fprint issues a single Write for the message + separator']
STREAMS = []


def nontrivial(inp, out):
    return True


def run(chk):
    me = sys.modules[__name__]
    std_prepare(chk)
    rng = random.Random(chk.seed * 31 + 19)
    lines = []
    seps = ['0a', '', '3c7c3e']
    for sep in seps:
        for ns in (2, 4, 8, 32):
            lines.append('filet forced #%x #%x #%x =%s #%x' % (ns, 5, rng.randrange(0, 3), sep, rng.randrange(1 << 30)))
            # two rotations while one sender stands between picking the writer and writing
            lines.append('filet forced2 #%x #%x #%x =%s #%x' % (ns, 5, rng.randrange(0, 3), sep, rng.randrange(1 << 30)))
    nfree = dict(quick=24, thorough=300)[chk.tier]
    for _ in range(nfree):
        lines.append('filet free #%x #%x #%x =%s #%x' % (rng.choice([2, 3, 8, 16, 32]), rng.choice([5, 20, 60]),
                                                          rng.randrange(0, 6), rng.choice(seps), rng.randrange(1 << 30)))
    impl = [impl_run(chk.harness, [l], timeout=120.0, limit_mem=False)[0] for l in lines]
    mod = model_run(GEN, lines)
    chk.evals += len(lines)
    chk.count('forced', 24)
    chk.count('free', nfree)
    for a, o, m in zip(lines, impl, mod):
        if ' #0 =' not in a or 'forced' in a:
            chk.nontrivial.add(hashlib.sha1(a.encode()).digest()[:8])
        if o != m:
            chk.record('scopeA', dict(concrete=True, input=a, impl=o, expected=m,
                       what='a message was lost, duplicated, garbled or its Send returned an error (rotation placed as described by the input)'), {})
    chk.samples.append(dict(stream='forced', input=lines[0], impl=impl[0], model=mod[0]))
    chk.samples.append(dict(stream='free', input=lines[-1], impl=impl[-1], model=mod[-1]))
    return chk.finish(me)
