"""C12 messages do not depend on what was processed before (no leakage via reuse)."""
import random
from pipefam import *

GEN = 'C13'
MODEL_FN = 'Model/Pipe.v:pipe_step (messages start from empty_msg: FlowMessage.Reset), Model/Pool.v'
RULE = ('poison: mixed histories (v5, v9, IPFIX, sFlow) through the real pipe with the message pool poisoned before every '
        'datagram through the verif hook VerifPoisonPool (every column, repeated field and custom field set): every message '
        'column == model (which starts every message empty); prefix: probe histories of an exporter of its own (10.9.9.9) '
        'appended to prefix histories of 0..200 datagrams of other exporters (valid, mutated, failing), with and without '
        'poisoning, and under a mapping file with custom fields: bin, JSON and text bytes of the probe == those of the probe '
        'run alone in a fresh process; damaged probes: the probe\'s last datagram cut short, announcing more records / samples than it carries, or mutated, after 1..40 complete datagrams of the same protocol, same oracle; concurrent: the prefix replayed by 4 goroutines on the same pipe while the probe runs. '
        'non-trivial = the probe produced at least one message after a non-empty prefix; distinct by input')
TRUSTED = ['Coq 8.16.1 kernel (coqc)', 'extraction + ocaml/main.ml glue', 'Go harness harness/pool.go, the verif hook VerifPoisonPool, bin/engine.py',
           'modelled, not verified: producer/proto messages.go pool, FlowMessage.Reset (generated code)']
ASSUMPTIONS = ['sync.Pool returns the poisoned messages often enough (measured: a poisoned column would show up as a disagreement)',
               'skipDelimiter is written by no production code (grep), so pooled messages always carry false']
STREAMS = []
CUSTOM_CFG = '''formatter:
  fields:
    - type
    - time_received_ns
    - sequence_num
    - sampling_rate
    - sampler_address
    - bytes
    - packets
    - src_addr
    - dst_addr
    - etype
    - proto
    - src_port
    - dst_port
    - in_if
    - out_if
    - cust_a
    - cust_b
  key:
    - sampler_address
    - cust_a
  protobuf:
    - name: cust_a
      index: 1001
      type: varint
    - name: cust_b
      index: 1002
      type: string
      array: true
ipfix:
  mapping:
    - field: 1
      destination: cust_a
    - field: 8
      destination: cust_b
    - field: 27
      destination: cust_b
netflowv9:
  mapping:
    - field: 2
      destination: cust_a
sflow:
  mapping:
    - layer: "ipv4"
      offset: 96
      length: 32
      destination: cust_b
    - layer: "udp"
      offset: 0
      length: 16
      destination: cust_a
'''


def nontrivial(inp, out):
    return ' m ' in out or ' =' in out


def readdress(hist_toks, addr='=0a090909', port='#3e7'):
    f = hist_toks.split(' ')
    for i in range(0, len(f) - 3, 4):
        f[i], f[i + 1] = addr, port
    return ' '.join(f)


def run(chk):
    me = sys.modules[__name__]
    std_prepare(chk)
    rng = random.Random(chk.seed * 31 + 12)
    n = dict(quick=120, thorough=2500)[chk.tier]
    base = model_gen(GEN, 0, chk.seed + 7, 0, n)
    hists = [a.split(' ', 3)[3] for a, _ in base]
    # 1. poisoned pool vs model
    ins = ['pipepoison flow none ' + h for h in hists]
    impl = impl_run(chk.harness, ins, timeout=120.0)
    mod = model_run('C06', ['pipe flow none ' + h for h in hists])
    chk.evals += len(ins)
    chk.count('poison', len(ins))
    bad = []
    for a, o, m in zip(ins, impl, mod):
        if ' m ' in m:
            chk.nontrivial.add(hashlib.sha1(a.encode()).digest()[:8])
        if o != m:
            chk.record('scopeA-poison', dict(concrete=True, input=a, impl=o[:3000], expected=m[:3000],
                       what='with a poisoned message pool the emitted messages differ from the ones a fresh message gives'), {})
    if ins:
        chk.samples.append(dict(stream='poison', input=ins[0][:400], impl=impl[0][:300]))
    # 2. prefix history vs fresh process, all three formats
    cfgs = ['none', 'yaml:' + CUSTOM_CFG.encode().hex()]
    alone, withp = [], []
    meta = []
    for i in range(dict(quick=60, thorough=1200)[chk.tier]):
        probe = readdress(rng.choice(hists))
        npre = rng.choice([0, 1, 3, 10, 40, 200])
        pre = []
        while len(pre) < npre * 4:
            h = rng.choice(hists).split(' ')
            if rng.random() < 0.3 and len(h) >= 4:   # damage one datagram of the prefix
                k = rng.randrange(len(h) // 4) * 4 + 3
                h[k] = '=' + mutate_bytes(rng, bytes.fromhex(h[k][1:]), 1)[0].hex()
            pre += h
        pre = pre[:npre * 4]
        cfg = rng.choice(cfgs)
        poison = rng.randrange(2)
        alone.append('pipeall flow %s #0 #0 %s' % (cfg, probe))
        withp.append('pipeall flow %s #%x #%x %s %s' % (cfg, npre, poison, ' '.join(pre), probe))
        meta.append((npre, cfg != 'none', poison))
    # 2b. custom fields then plain flows: the prefix consists of flows that DO carry custom mapped fields
    # (sFlow samples with IPv4/UDP headers under the layer mappings of CUSTOM_CFG, IPFIX/v9 flows with the
    # mapped elements), the probe of NetFlow v5 flows, which never carry one: a custom field of an earlier
    # flow must not show up in the probe's JSON / text / protobuf
    quads = []
    for h in hists:
        f = h.split(' ')
        quads += [f[i:i + 4] for i in range(0, len(f) - 3, 4)]
    v5q = [q for q in quads if q[3].startswith('=0005')]
    sfq = [q for q in quads if q[3].startswith('=00000005')]
    nfq = [q for q in quads if q[3].startswith('=0009') or q[3].startswith('=000a')]
    for i in range(dict(quick=24, thorough=400)[chk.tier]):
        if not v5q or not (sfq or nfq):
            break
        probe = readdress(' '.join(' '.join(q) for q in rng.sample(v5q, min(len(v5q), rng.choice([1, 2, 4])))))
        src = sfq if (sfq and (i % 2 == 0 or not nfq)) else nfq
        npre = rng.choice([3, 10, 40])
        pre = [x for q in (rng.choice(src) for _ in range(npre)) for x in q]
        cfg = cfgs[1]
        alone.append('pipeall flow %s #0 #0 %s' % (cfg, probe))
        withp.append('pipeall flow %s #%x #0 %s %s' % (cfg, npre, ' '.join(pre), probe))
        meta.append((npre, True, 0))
    # 2c. the PROBE itself fails half-way (sixth round, seed C12-6): the property quantifies over every datagram d, so the
    # probe's last datagram is cut short (anywhere; at and inside record / sample boundaries), announces more records
    # or samples than it carries, or is otherwise damaged -- after a prefix of complete datagrams of the SAME protocol
    # (whatever a decoder recycles between datagrams -- packet, record list, sample list -- then still holds their
    # content where the damaged datagram leaves it unwritten). Oracle as in 2: the probe alone in a fresh process.
    hq4 = []
    for h in hists:
        f = h.split(' ')
        hq4.append([f[i:i + 4] for i in range(0, len(f) - 3, 4)])
    byproto = {}
    for q in quads:
        byproto.setdefault(q[3][1:5], []).append(q)
    ndam = dict(quick=90, thorough=1500)[chk.tier]
    for i in range(ndam):
        hq_ = rng.choice([h for h in hq4 if h])
        k = rng.randrange(len(hq_))
        d = bytes.fromhex(hq_[k][3][1:])
        kind = i % 3
        if kind == 0 and len(d) > 30:        # cut short behind the header
            m = d[:rng.randrange(24, len(d))]
        elif kind == 1 and len(d) > 30:      # count word inflated (v5 / v9: bytes 2..3, sFlow: the word in front of the samples)
            m = bytearray(d)
            if d[:4] == b'\x00\x00\x00\x05':
                pos = 24 if d[4:8] == b'\x00\x00\x00\x01' else 36
                if pos + 4 <= len(m):
                    m[pos:pos + 4] = (int.from_bytes(d[pos:pos + 4], 'big') + rng.choice([1, 2, 5, 30])).to_bytes(4, 'big')
                m = bytes(m[:rng.randrange(max(pos + 4, len(m) // 2), len(m) + 1)])
            else:
                m[2:4] = (min(65535, int.from_bytes(d[2:4], 'big') + rng.choice([1, 2, 5, 30]))).to_bytes(2, 'big')
                m = bytes(m)
        else:
            m = mutate_bytes(rng, d, 1)[0]
        probe = readdress(' '.join(' '.join(q) for q in hq_[:k] + [hq_[k][:3] + ['=' + bytes(m).hex()]]))
        same = byproto.get(hq_[k][3][1:5], quads)
        npre = rng.choice([1, 3, 10, 40])
        pre = [x for q in (rng.choice(same) for _ in range(npre)) for x in q]
        cfg = rng.choice(cfgs)
        alone.append('pipeall flow %s #0 #0 %s' % (cfg, probe))
        withp.append('pipeall flow %s #%x #0 %s %s' % (cfg, npre, ' '.join(pre), probe))
        meta.append((npre, cfg != 'none', 0))
    chk.count('prefix: damaged probe', ndam)
    # each 'alone' run in a fresh process
    outs_alone = [impl_run(chk.harness, [a], timeout=60.0)[0] for a in alone]
    outs_with = impl_run(chk.harness, withp, timeout=240.0)
    chk.evals += 2 * len(alone)
    chk.count('prefix', len(alone))
    for a, w, oa, ow, (npre, c, p) in zip(alone, withp, outs_alone, outs_with, meta):
        if npre and ' =' in oa:
            chk.nontrivial.add(hashlib.sha1(w.encode()).digest()[:8])
        if oa != ow:
            chk.record('scopeA-prefix', dict(concrete=True, input=w[:20000], alone=a, impl=ow[:3000], expected=oa[:3000],
                       what='the messages of a datagram differ after a prefix history from the ones in a fresh process'), {})
    if withp:
        chk.samples.append(dict(stream='prefix', prefix_len=meta[0][0], custom_cfg=meta[0][1], poisoned=meta[0][2],
                                probe=alone[0][:300], output=outs_alone[0][:300]))
    # 3. concurrent background traffic on the same pipe (NetFlow probes: recognised by their sampler address)
    nf_hists = [h for h in hists if '=0a000009' not in h]
    cb, ca = [], []
    for i in range(dict(quick=25, thorough=400)[chk.tier]):
        probe = readdress(rng.choice(nf_hists))
        pre = ' '.join(rng.choice(hists) for _ in range(2))
        npre = len(pre.split(' ')) // 4
        ca.append('pipebg flow none #0 %s' % probe)
        cb.append('pipebg flow none #%x %s %s' % (npre, pre, probe))
    oa = impl_run(chk.harness, ca, timeout=120.0)
    ob = impl_run(chk.harness, cb, timeout=240.0)
    chk.evals += 2 * len(ca)
    chk.count('concurrent', len(ca))
    for a, b, x, y in zip(ca, cb, oa, ob):
        if ' =' in x:
            chk.nontrivial.add(hashlib.sha1(b.encode()).digest()[:8])
        if x != y:
            chk.record('scopeA-concurrent', dict(concrete=True, input=b[:20000], impl=y[:3000], expected=x[:3000],
                       what='the messages of a datagram differ when other goroutines use the same producer and pool'), {})
    return chk.finish(me)
