(* C07: a v9 / IPFIX datagram never yields more messages than complete records are physically present in it. *)
From Coq Require Import String List NArith ZArith Lia ZifyN ZifyNat ZifyBool Bool Arith.
From GF Require Import Base.Res Base.Bytes Base.Layout Model.Msg Model.NF Model.NFv5 Model.Packet Model.ProdNF Model.Pipe
     Spec.Present Proofs.BytesL Proofs.LayoutL Proofs.TotalP Proofs.PipeP.
Import ListNotations.
Open Scope N_scope.

Definition set_records (fs : flowset) : nat := match fs with FSData _ _ rs => length rs | _ => O end.

Lemma data_records_cons fs fss : length (data_records (fs :: fss)) = (set_records fs + length (data_records fss))%nat.
Proof. unfold data_records. cbn [flat_map]. rewrite app_length. destruct fs; reflexivity. Qed.

(* one set: the records cut from it are present in its bytes *)
Lemma dec_flowset_present st dom ver d fs tnf st1 d1 :
  dec_flowset st dom ver d = Ok (fs, tnf, st1, d1) -> (set_records fs <= present_set st dom ver d)%nat.
Proof.
  unfold dec_flowset, present_set. intros H.
  destruct (rd 2 d) as [[id dA]| | |]; try discriminate.
  destruct (rd 2 dA) as [[len d2]| | |]; try discriminate.
  destruct (len <? 4); [discriminate|].
  destruct (next (N.to_nat (len - 4)) d2) as [body rest] eqn:En. cbn [fst].
  destruct ((id =? 0) && (ver =? 9)) eqn:A0.
  { destruct (dec_template_set _ _ _); try discriminate. inversion H; subst. cbn. lia. }
  destruct ((id =? 1) && (ver =? 9)) eqn:A1.
  { destruct (dec_v9_opt_template_set _ _); try discriminate. inversion H; subst. cbn. lia. }
  destruct ((id =? 2) && (ver =? 10)) eqn:A2.
  { destruct (dec_template_set _ _ _); try discriminate. inversion H; subst. cbn. lia. }
  destruct ((id =? 3) && (ver =? 10)) eqn:A3.
  { destruct (dec_ipfix_opt_template_set _ _); try discriminate. inversion H; subst. cbn. lia. }
  cbn [orb].
  destruct (256 <=? id); [|discriminate].
  destruct (store_get st (tkey ver dom id)) as [[r|r|r]|].
  - destruct (dec_data_set (tFields r) body) as [rs| | |] eqn:E; try discriminate.
    inversion H; subst. cbn [set_records].
    apply dec_data_set_bound in E. destruct E as [E1 E2].
    destruct rs as [|r0 rs']; [apply Nat.le_0_l|].
    assert (0 < template_size (tFields r))%nat by (apply E2; discriminate).
    apply Nat.div_le_lower_bound; lia.
  - destruct (dec_optdata_set _ _ _); try discriminate. inversion H; subst. cbn. lia.
  - destruct (dec_optdata_set _ _ _); try discriminate. inversion H; subst. cbn. lia.
  - inversion H; subst. cbn. lia.
Qed.

Lemma dec_common_present dom size ver start : forall fuel st i d fss tnf st',
  dec_common fuel st dom size ver start i d = Ok (fss, tnf, st') ->
  (length (data_records fss) <= present_common fuel st dom size ver start i d)%nat.
Proof.
  induction fuel as [|fu IH]; intros st i d fss tnf st' H; cbn [dec_common] in H; [discriminate|].
  cbn [present_common].
  match type of H with (if ?b then _ else _) = _ => destruct b end; [|inversion H; subst; cbn; lia].
  destruct (dec_flowset st dom ver d) as [[[[fs t0] st1] d1]| | |] eqn:Ef; try discriminate.
  destruct (dec_common fu st1 dom size ver start (i + 1) d1) as [[[fss' t1] st2]| | |] eqn:Er; try discriminate.
  inversion H; subst. rewrite data_records_cons.
  apply dec_flowset_present in Ef. apply IH in Er. lia.
Qed.

Lemma decode_nf_body_present st ver d p tnf st' :
  decode_nf_body st ver d = Ok (p, tnf, st') -> (length (data_records (pSets p)) <= present_nf_body st ver d)%nat.
Proof.
  unfold decode_nf_body, present_nf_body. intros H.
  destruct (rd_fields (if ver =? 9 then v9_hdr_ws else ipfix_hdr_ws) d) as [[h d1]| | |]; try discriminate.
  destruct (dec_common _ _ _ _ _ _ _ _) as [[[fss t0] st1]| | |] eqn:E; try discriminate.
  inversion H; subst. cbn [pSets]. eapply dec_common_present; eauto.
Qed.

(* what is present never exceeds the bytes: every counted record occupies at least one byte of its set *)
Lemma present_set_le st dom ver d : (present_set st dom ver d <= length d)%nat.
Proof.
  unfold present_set.
  destruct (rd 2 d) as [[id dA]| | |] eqn:E1; try lia.
  destruct (rd 2 dA) as [[len d2]| | |] eqn:E2; try lia.
  destruct (len <? 4); [lia|]. cbv zeta.
  destruct (_ || _); [lia|]. destruct (256 <=? id); [|lia].
  destruct (store_get st (tkey ver dom id)) as [[r|r|r]|]; try lia.
  apply rd_len in E1. apply rd_len in E2.
  pose proof (next_split (N.to_nat (len - 4)) d2) as [Hb _].
  destruct (template_size (tFields r)) as [|k] eqn:Et; [cbn; lia|].
  assert (length (fst (next (N.to_nat (len - 4)) d2)) / S k <= length (fst (next (N.to_nat (len - 4)) d2)))%nat
    by (apply Nat.div_le_upper_bound; nia).
  lia.
Qed.

(* the pipe: for EVERY state, exporter, receive time and byte string, the messages handed to the transport for a
   v9 / IPFIX datagram are at most the complete records present in it *)
Lemma nf_step_none_invented cfg st e tr d st' o ms ver d0 :
  rd 2 d = Ok (ver, d0) -> (ver =? 5) = false ->
  nf_step cfg st e tr d = Ok (st', o, ms) ->
  (length ms <= present_nf_body (tstores_get (psT st) (exp_id e)) ver d0)%nat.
Proof.
  intros E0 E5 H. unfold nf_step in H. rewrite E0, E5 in H.
  destruct ((ver =? 9) || (ver =? 10)); [|inversion H; subst; cbn; lia].
  destruct (decode_nf_body (tstores_get (psT st) (exp_id e)) ver d0) as [[[p tnf] s1]| | |] eqn:Ed; try discriminate;
    [|inversion H; subst; cbn; lia].
  destruct (produce_nf cfg (psS st) (addr_id (eAddr e)) p) as [[ms0| | |] ss'] eqn:Ep; try discriminate;
    [|inversion H; subst; cbn; lia].
  inversion H; subst. rewrite map_length.
  apply produce_nf_count in Ep. rewrite Ep. eapply decode_nf_body_present; eauto.
Qed.

(* ... and the count itself is bounded by the bytes received: every counted record occupies at least one byte of
   its own set, and the sets of a message do not overlap *)
From GF Require Import Spec.Ghost Proofs.GhostP.

Lemma present_set_body st dom ver d :
  present_set st dom ver d = O \/
  exists id dA len d2, rd 2 d = Ok (id, dA) /\ rd 2 dA = Ok (len, d2) /\ (len <? 4) = false /\
    (present_set st dom ver d <= length (fst (next (N.to_nat (len - 4)) d2)))%nat.
Proof.
  unfold present_set.
  destruct (rd 2 d) as [[id dA]| | |] eqn:E1; try (left; reflexivity).
  destruct (rd 2 dA) as [[len d2]| | |] eqn:E2; try (left; reflexivity).
  destruct (len <? 4) eqn:E4; [left; reflexivity|]. cbv zeta.
  destruct (_ || _); [left; reflexivity|]. destruct (256 <=? id); [|left; reflexivity].
  destruct (store_get st (tkey ver dom id)) as [[r|r|r]|]; try (left; reflexivity).
  right. exists id, dA, len, d2. split; [first [reflexivity|assumption]|]. split; [first [reflexivity|assumption]|]. split; [first [reflexivity|assumption]|].
  destruct (template_size (tFields r)) as [|k]; [cbn; lia|].
  apply Nat.div_le_upper_bound; nia.
Qed.

Lemma present_common_le dom size ver start : forall fuel st i d,
  (present_common fuel st dom size ver start i d <= length d)%nat.
Proof.
  induction fuel as [|fu IH]; intros st i d; cbn [present_common]; [lia|].
  match goal with |- context [if ?b then _ else _] => destruct b end; [|lia].
  destruct (dec_flowset st dom ver d) as [[[[fs t0] st1] d1]| | |] eqn:Ef;
    try (pose proof (present_set_le st dom ver d); lia).
  specialize (IH st1 (i + 1) d1).
  apply dec_flowset_rest in Ef. destruct Ef as (id & dA & len & d2 & F1 & F2 & F3 & F4).
  pose proof (next_lengths (N.to_nat (len - 4)) d2) as Hn. rewrite <- F4 in Hn. unfold lenN in Hn.
  assert (Hd : (length d2 + 4 = length d)%nat) by (apply rd_len in F1; apply rd_len in F2; lia).
  destruct (present_set_body st dom ver d) as [-> |(id' & dA' & len' & d2' & G1 & G2 & G3 & G4)]; [lia|].
  rewrite F1 in G1. apply ok_inj in G1. inversion G1; subst id' dA'.
  rewrite F2 in G2. apply ok_inj in G2. inversion G2; subst len' d2'. lia.
Qed.

Lemma present_nf_body_le st ver d : (present_nf_body st ver d <= length d)%nat.
Proof.
  unfold present_nf_body.
  destruct (rd_fields (if ver =? 9 then v9_hdr_ws else ipfix_hdr_ws) d) as [[h d1]| | |] eqn:E; try lia.
  apply rd_fields_len in E.
  pose proof (present_common_le (nf_dom ver h) (nf_size ver h) ver (length d1) (S (length d1)) st 0 d1). lia.
Qed.

(* ---- sFlow: one message per flow sample, and every sample occupies at least 20 bytes of the datagram ---- *)
From GF Require Import Model.SFlow Model.ProdSF Proofs.AllocP Proofs.PacketP.

Lemma filter_len_le {A} (f : A -> bool) l : (length (filter f l) <= length l)%nat.
Proof. induction l as [|x r IH]; cbn [filter length]; [lia|]. destruct (f x); cbn [length]; lia. Qed.

Lemma flow_filter_nil n :
  filter (fun s => match sKind s with SFlowS | SExpFlowS => true | _ => false end) (repeat nil_sample n) = [].
Proof. induction n as [|k IH]; [reflexivity|]. cbn [repeat filter nil_sample sKind]. exact IH. Qed.

Lemma decode_sf_flow_present d p : decode_sf d = Ok p -> (20 * length (flow_samples p) <= length d)%nat.
Proof.
  unfold decode_sf. intros H.
  destruct (rd 4 d) as [[ver d0]| | |] eqn:E0; try discriminate. apply rd_len in E0.
  destruct (negb (ver =? 5)); [discriminate|].
  destruct (rd 4 d0) as [[ipv d1]| | |] eqn:E1; try discriminate. apply rd_len in E1.
  match type of H with (match ?x with _ => _ end) = _ => destruct x as [[ip d2]| | |] eqn:E2; try discriminate end.
  assert (L2 : (length d2 <= length d1)%nat).
  { destruct (ipv =? 1); [apply read_len in E2; lia|]. destruct (ipv =? 2); [apply read_len in E2; lia|discriminate]. }
  destruct (rd_fields (u32s 4) d2) as [[vs d3]| | |] eqn:E3; try discriminate. apply rd_fields_len in E3.
  cbv zeta in H. destruct (1000 <? nth 3 vs 0); [discriminate|].
  destruct (dec_samples (N.to_nat (nth 3 vs 0)) d3) as [ss| | |] eqn:Es; try discriminate.
  inversion H; subst. unfold flow_samples. cbn [kSamples].
  rewrite filter_app, flow_filter_nil, app_nil_r.
  apply dec_samples_len in Es. destruct Es as (_ & B & _).
  pose proof (filter_len_le (fun s => match sKind s with SFlowS | SExpFlowS => true | _ => false end) ss). lia.
Qed.

Lemma sf_step_none_invented cfg st e tr d st' o ms :
  sf_step cfg st e tr d = Ok (st', o, ms) -> (20 * length ms <= length d)%nat.
Proof.
  unfold sf_step. intros H.
  destruct (decode_sf d) as [p| | |] eqn:Ed; try discriminate; [|inversion H; subst; cbn; lia].
  destruct (produce_sf (pPacket cfg) tr p) as [ms0| | |] eqn:Ep; try discriminate; [|inversion H; subst; cbn; lia].
  inversion H; subst. apply produce_sf_count in Ep. rewrite Ep. apply decode_sf_flow_present. exact Ed.
Qed.
