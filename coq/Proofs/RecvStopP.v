(* C18: Stop makes progress and terminates; what was queued before Stop is decoded when it returns. *)
From Coq Require Import List NArith Bool Arith Lia.
From GF Require Import Model.First Model.RecvStop Proofs.FirstP.
Import ListNotations.

Definition isbusy (w : wst) : bool := match w with WBusy _ => true | _ => false end.
Lemma busy_upd ws i w0 w1 : nth_error ws i = Some w0 ->
  length (filter isbusy (upd i w1 ws)) + (if isbusy w0 then 1 else 0) = length (filter isbusy ws) + (if isbusy w1 then 1 else 0).
Proof.
  revert i. induction ws as [|x r IH]; intros [|k] H; cbn [nth_error] in H; try discriminate.
  - inversion H; subst. cbn [upd filter]. destruct (isbusy w0), (isbusy w1); cbn [length]; lia.
  - cbn [upd filter]. specialize (IH k H). destruct (isbusy x); cbn [length]; lia.
Qed.

(* every action of the Stop goroutine and of the workers that changes the state lowers the measure *)
Lemma measure_decreases cap s a :
  match a with SPush | SDeq _ | SFin _ => True | _ => False end ->
  sstep cap s a = s \/ smeasure (sstep cap s a) < smeasure s.
Proof.
  intros Ha. destruct a as [|w|w| |]; try contradiction; cbn [sstep].
  - destruct (negb (Nat.eqb (pending s) 0) && sroom cap s) eqn:E; [|left; reflexivity].
    right. apply andb_prop in E. destruct E as [E _]. apply negb_true_iff, Nat.eqb_neq in E.
    unfold smeasure, busy_count. cbn [pending squeue sworkers]. rewrite app_length. cbn [length]. lia.
  - destruct (nth_error (sworkers s) w) as [[|id|]|] eqn:E; try (left; reflexivity).
    destruct (squeue s) as [|[id|] q] eqn:Eq; [left; reflexivity| |]; right;
      unfold smeasure, busy_count; cbn [pending squeue sworkers]; rewrite Eq; cbn [length];
      fold isbusy; pose proof (busy_upd (sworkers s) w WIdle) as B.
    + specialize (B (WBusy id) E). cbn [isbusy] in B. lia.
    + specialize (B WExited E). cbn [isbusy] in B. lia.
  - destruct (nth_error (sworkers s) w) as [[|id|]|] eqn:E; try (left; reflexivity).
    right. unfold smeasure, busy_count. cbn [pending squeue sworkers]. fold isbusy.
    pose proof (busy_upd (sworkers s) w (WBusy id) WIdle E) as B. cbn [isbusy] in B. lia.
Qed.

(* live workers = sentinels still to be consumed: nobody is left without a sentinel *)
Definition nils (q : list item) : nat := length (filter (fun i => match i with INil => true | _ => false end) q).
Definition live_workers (s : sstate) : nat := length (filter (fun w => match w with WExited => false | _ => true end) (sworkers s)).
Definition balance (s : sstate) : Prop := live_workers s = pending s + nils (squeue s).

Lemma live_upd ws i w0 w1 : nth_error ws i = Some w0 ->
  length (filter (fun w => match w with WExited => false | _ => true end) (upd i w1 ws)) + (match w0 with WExited => 0 | _ => 1 end)
  = length (filter (fun w => match w with WExited => false | _ => true end) ws) + (match w1 with WExited => 0 | _ => 1 end).
Proof.
  revert i. induction ws as [|x r IH]; intros [|k] H; cbn [nth_error] in H; try discriminate.
  - inversion H; subst. cbn [upd filter]. destruct w0, w1; cbn [length]; lia.
  - cbn [upd filter]. specialize (IH k H). destruct x; cbn [length]; lia.
Qed.

Lemma nils_app q x : nils (q ++ [x]) = nils q + match x with INil => 1 | _ => 0 end.
Proof. unfold nils. rewrite filter_app, app_length. destruct x; cbn; lia. Qed.

Lemma balance_step cap s a : balance s -> balance (sstep cap s a).
Proof.
  unfold balance, live_workers. intros H. destruct a as [|w|w| |]; cbn [sstep].
  - destruct (negb (Nat.eqb (pending s) 0) && sroom cap s) eqn:E; [|exact H].
    apply andb_prop in E. destruct E as [E _]. apply negb_true_iff, Nat.eqb_neq in E.
    cbn [pending squeue sworkers]. rewrite nils_app. lia.
  - destruct (nth_error (sworkers s) w) as [[|id|]|] eqn:E; try exact H.
    destruct (squeue s) as [|[id|] q] eqn:Eq; [rewrite ?Eq; exact H| |]; cbn [pending squeue sworkers];
      rewrite ?Eq in H; unfold nils in *; cbn [filter length] in *.
    + pose proof (live_upd (sworkers s) w WIdle (WBusy id) E) as L. cbv iota beta in L. lia.
    + pose proof (live_upd (sworkers s) w WIdle WExited E) as L. cbv iota beta in L. lia.
  - destruct (nth_error (sworkers s) w) as [[|id|]|] eqn:E; try exact H.
    cbn [pending squeue sworkers]. pose proof (live_upd (sworkers s) w (WBusy id) WIdle E) as L. cbv iota beta in L. lia.
  - destruct (late s) as [|id r]; [exact H|]. destruct (sroom cap s); [|exact H].
    cbn [pending squeue sworkers]. rewrite nils_app. lia.
  - destruct (late s) as [|id r]; exact H.
Qed.

Lemma balance_init q0 ws held : Forall (fun w => w <> WExited) ws -> balance (sinit q0 ws held).
Proof.
  intros H. unfold balance, live_workers, sinit. cbn [pending squeue sworkers].
  assert (N : nils (map IPkt q0) = 0). { unfold nils. induction q0; cbn; auto. }
  rewrite N, Nat.add_0_r. induction H as [|w r Hw Hr IH]; cbn [filter length]; [reflexivity|].
  destruct w; try congruence; cbn [length]; lia.
Qed.

(* progress: while some worker has not exited, some action of Stop or of a worker is enabled,
   provided no decoder call blocks forever (a busy worker can finish) *)
Lemma find_worker ws (P : wst -> bool) : existsb P ws = true -> exists i w, nth_error ws i = Some w /\ P w = true.
Proof.
  induction ws as [|x r IH]; cbn [existsb]; [discriminate|]. intros H. apply orb_prop in H. destruct H as [H|H].
  - exists 0, x. split; [reflexivity|exact H].
  - destruct (IH H) as (i & w & E & Hp). exists (S i), w. split; assumption.
Qed.

Theorem stop_progress cap s :
  balance s -> all_exited s = false ->
  exists a, match a with SPush | SDeq _ | SFin _ => True | _ => False end /\ sstep cap s a <> s.
Proof.
  intros Hb Hne.
  (* a busy worker can finish *)
  destruct (existsb isbusy (sworkers s)) eqn:Eb.
  { destruct (find_worker _ _ Eb) as (i & w & E & Hw). destruct w as [|id|]; try discriminate.
    exists (SFin i). split; [exact I|]. cbn [sstep]. rewrite E. intros Heq.
    apply (f_equal (fun x => length (sdecoded x))) in Heq. cbn in Heq. lia. }
  (* no worker is busy: a live one is idle *)
  assert (Hidle : existsb (fun w => match w with WIdle => true | _ => false end) (sworkers s) = true).
  { unfold all_exited in Hne. clear Hb. induction (sworkers s) as [|x r IH]; cbn in *; [discriminate|].
    destruct x; cbn in *; auto. discriminate. }
  destruct (find_worker _ _ Hidle) as (i & w & E & Hw). destruct w; try discriminate.
  destruct (squeue s) as [|it q] eqn:Eq.
  - (* empty queue: Stop can push (there is a live worker, so a sentinel is still pending) *)
    assert (Hp : pending s <> 0).
    { unfold balance, live_workers in Hb. rewrite Eq in Hb. unfold nils in Hb. cbn in Hb.
      assert (0 < length (filter (fun w => match w with WExited => false | _ => true end) (sworkers s))).
      { clear -E. revert i E. induction (sworkers s) as [|x r IH]; intros [|k] E; cbn in E; try discriminate.
        - inversion E; subst. cbn. lia.
        - cbn. specialize (IH k E). destruct x; cbn; lia. }
      lia. }
    exists SPush. split; [exact I|]. cbn [sstep]. unfold sroom. rewrite Eq. cbn [length].
    replace (Nat.eqb (pending s) 0) with false by (symmetry; apply Nat.eqb_neq; exact Hp).
    replace (Nat.ltb 0 (Nat.max cap 1)) with true by (symmetry; apply Nat.ltb_lt; lia). cbn [negb andb].
    intros Heq. apply (f_equal pending) in Heq. cbn in Heq. lia.
  - (* the idle worker can dequeue *)
    exists (SDeq i). split; [exact I|]. cbn [sstep]. rewrite E, Eq.
    destruct it as [id|]; intros Heq; apply (f_equal (fun x => length (squeue x))) in Heq; cbn in Heq; rewrite Eq in Heq; cbn in Heq; lia.
Qed.

(* what was queued before Stop is decoded by the time every worker has exited *)
Definition q0_inv (q0 : list nat) (s : sstate) : Prop :=
  exists n tail, n <= length q0 /\
    squeue s = map IPkt (skipn n q0) ++ tail /\
    (forall id, In id (firstn n q0) -> In id (sdecoded s) \/ In (WBusy id) (sworkers s)) /\
    (n < length q0 -> forall w, In w (sworkers s) -> w <> WExited).

Lemma in_upd_keep (ws : list wst) i x y w0 : nth_error ws i = Some w0 -> In y ws -> y <> w0 -> In y (upd i x ws).
Proof.
  revert i. induction ws as [|z r IH]; intros [|k] E H Hn; cbn in *; try discriminate; auto.
  - inversion E; subst. destruct H as [->|H]; [congruence|right; exact H].
  - destruct H as [->|H]; [left; reflexivity|right; eapply IH; eauto].
Qed.

Lemma in_upd_new (ws : list wst) i x w0 : nth_error ws i = Some w0 -> In x (upd i x ws).
Proof.
  revert i. induction ws as [|z r IH]; intros [|k] E; cbn in *; try discriminate; eauto.
Qed.

Lemma skipn_cons_nth (q0 : list nat) n : n < length q0 -> exists x, skipn n q0 = x :: skipn (S n) q0 /\ firstn (S n) q0 = firstn n q0 ++ [x].
Proof.
  revert n. induction q0 as [|y r IH]; intros n H; [simpl in H; lia|].
  destruct n as [|k].
  - exists y. split; reflexivity.
  - cbn [length] in H. destruct (IH k ltac:(lia)) as (x & E1 & E2). exists x. split; [cbn [skipn]; exact E1|]. rewrite (firstn_cons (S k) y r), (firstn_cons k y r), E2. reflexivity.
Qed.

Lemma q0_inv_init q0 ws held : Forall (fun w => w <> WExited) ws -> q0_inv q0 (sinit q0 ws held).
Proof.
  intros H. exists 0, []. cbn [skipn firstn sinit squeue sdecoded sworkers]. repeat split.
  - lia.
  - rewrite app_nil_r. reflexivity.
  - intros id [].
  - intros _ w Hw. rewrite Forall_forall in H. apply H. exact Hw.
Qed.

Lemma q0_inv_step cap q0 s a : q0_inv q0 s -> q0_inv q0 (sstep cap s a).
Proof.
  intros (n & tail & Hn & Hq & Hb & Hc). destruct a as [|w|w| |]; cbn [sstep].
  - destruct (negb (Nat.eqb (pending s) 0) && sroom cap s); [|exists n, tail; repeat split; assumption].
    exists n, (tail ++ [INil]). cbn [squeue sdecoded sworkers]. repeat split; auto. rewrite Hq, app_assoc. reflexivity.
  - destruct (nth_error (sworkers s) w) as [[|idb|]|] eqn:E; try (exists n, tail; repeat split; assumption).
    destruct (Nat.lt_ge_cases n (length q0)) as [Hlt|Hge].
    + (* the head is the next packet of q0 *)
      destruct (skipn_cons_nth q0 n Hlt) as (x & E1 & E2). rewrite E1 in Hq. cbn [map app] in Hq. rewrite Hq.
      exists (S n), tail. cbn [squeue sdecoded sworkers]. split; [|split; [|split]].
      * lia.
      * reflexivity.
      * intros id Hid. rewrite E2 in Hid. apply in_app_or in Hid. destruct Hid as [Hid|[<-|[]]].
        -- destruct (Hb id Hid) as [Hd|Hw]; [left; exact Hd|right]. eapply in_upd_keep; eauto. discriminate.
        -- right. eapply in_upd_new; eauto.
      * intros _ w0 Hw0. apply in_upd in Hw0. destruct Hw0 as [->|Hw0]; [discriminate|]. apply (Hc Hlt w0 Hw0).
    + (* q0 is drained: whatever the head is, the invariant is kept with n = length q0 *)
      assert (n = length q0) by lia. subst n. rewrite skipn_all in Hq. cbn [map app] in Hq.
      destruct (squeue s) as [|[id|] q] eqn:Eq;
        [exists (length q0), (@nil item); rewrite skipn_all; split; [lia|split; [rewrite Eq; reflexivity|split; [exact Hb|exact Hc]]]| |].
      * exists (length q0), q. cbn [squeue sdecoded sworkers]. rewrite skipn_all. split; [lia|split; [reflexivity|split]].
        -- intros id0 Hid. destruct (Hb id0 Hid) as [Hd|Hw]; [left; exact Hd|right]. eapply in_upd_keep; eauto. discriminate.
        -- intros Hlt. lia.
      * exists (length q0), q. cbn [squeue sdecoded sworkers]. rewrite skipn_all. split; [lia|split; [reflexivity|split]].
        -- intros id0 Hid. destruct (Hb id0 Hid) as [Hd|Hw]; [left; exact Hd|right]. eapply in_upd_keep; eauto. discriminate.
        -- intros Hlt. lia.
  - destruct (nth_error (sworkers s) w) as [[|idb|]|] eqn:E; try (exists n, tail; repeat split; assumption).
    exists n, tail. cbn [squeue sdecoded sworkers]. repeat split; auto.
    + intros id Hid. destruct (Hb id Hid) as [Hd|Hw]; [left; right; exact Hd|].
      destruct (Nat.eq_dec id idb) as [->|Hne]; [left; left; reflexivity|].
      right. eapply in_upd_keep; eauto. congruence.
    + intros Hlt w0 Hw0. apply in_upd in Hw0. destruct Hw0 as [->|Hw0]; [discriminate|]. apply (Hc Hlt w0 Hw0).
  - destruct (late s) as [|id r]; [exists n, tail; repeat split; assumption|].
    destruct (sroom cap s); [|exists n, tail; repeat split; assumption].
    exists n, (tail ++ [IPkt id]). cbn [squeue sdecoded sworkers]. repeat split; auto. rewrite Hq, app_assoc. reflexivity.
  - destruct (late s) as [|id r]; exists n, tail; repeat split; assumption.
Qed.

Lemma sstep_workers_len cap s a : length (sworkers (sstep cap s a)) = length (sworkers s).
Proof.
  destruct a as [|w|w| |]; cbn [sstep]; try reflexivity.
  - destruct (negb (Nat.eqb (pending s) 0) && sroom cap s); reflexivity.
  - destruct (nth_error (sworkers s) w) as [[|idb|]|]; try reflexivity.
    destruct (squeue s) as [|[i|] q]; cbn [sworkers]; try reflexivity; apply upd_length.
  - destruct (nth_error (sworkers s) w) as [[|idb|]|]; try reflexivity. cbn [sworkers]. apply upd_length.
  - destruct (late s); [reflexivity|]. destruct (sroom cap s); reflexivity.
  - destruct (late s); reflexivity.
Qed.

Lemma srun_inv cap q0 : forall sched s, q0_inv q0 s ->
  q0_inv q0 (srun cap s sched) /\ length (sworkers (srun cap s sched)) = length (sworkers s).
Proof.
  unfold srun. induction sched as [|a r IH]; intros s H; cbn [fold_left]; [split; [exact H|reflexivity]|].
  destruct (IH (sstep cap s a) (q0_inv_step cap q0 s a H)) as [I1 I2]. split; [exact I1|].
  rewrite I2. apply sstep_workers_len.
Qed.

Theorem queued_before_stop_decoded cap q0 ws held sched :
  Forall (fun w => w <> WExited) ws -> ws <> [] ->
  let s := srun cap (sinit q0 ws held) sched in
  all_exited s = true -> forall id, In id q0 -> In id (sdecoded s).
Proof.
  intros Hws Hne s Hall id Hid.
  assert (Hinv : q0_inv q0 s /\ length (sworkers s) = length ws).
  { subst s. apply (srun_inv cap q0 sched (sinit q0 ws held)). apply q0_inv_init. exact Hws. }
  destruct Hinv as [(n & tail & Hn & Hq & Hb & Hc) Hlen].
  (* some worker exists and it has exited, so q0 was drained *)
  assert (Hex : exists w, In w (sworkers s)).
  { destruct (sworkers s) as [|w r] eqn:E; [|exists w; left; reflexivity]. destruct ws; [congruence|discriminate]. }
  destruct Hex as (w & Hw).
  assert (Hwe : w = WExited).
  { unfold all_exited in Hall. rewrite forallb_forall in Hall. specialize (Hall w Hw). destruct w; try discriminate. reflexivity. }
  assert (Hn' : n = length q0).
  { destruct (Nat.lt_ge_cases n (length q0)) as [Hlt|Hge]; [|lia]. exfalso. apply (Hc Hlt w Hw). exact Hwe. }
  subst n. rewrite firstn_all in Hb. destruct (Hb id Hid) as [Hd|Hbusy]; [exact Hd|].
  unfold all_exited in Hall. rewrite forallb_forall in Hall. specialize (Hall _ Hbusy). discriminate.
Qed.

Lemma start_stop_errors :
  (forall st, fst (start_call st) = negb st) /\ (forall st, fst (stop_call st) = st) /\
  (start_call true = (false, true)) /\ (stop_call false = (false, false)) /\
  (snd (start_call (snd (stop_call true))) = true).
Proof. repeat split; try (intros []; reflexivity). Qed.

(* ---- the readers: Stop also waits for them (they are in the same wait group) ------------------------------
   A reader that still holds a datagram when quit closes stands in a select between the dispatch channel and
   quit: it either gets the datagram in (SLateEnq) or leaves with it (SLateLeave).  With the readers counted, every
   action of Stop, the workers and the readers that changes the state lowers the measure ... *)
Definition smeasure2 (s : sstate) : nat := smeasure s + 3 * length (late s).

Lemma measure2_decreases cap s a : sstep cap s a = s \/ smeasure2 (sstep cap s a) < smeasure2 s.
Proof.
  destruct a as [|w|w| |].
  - destruct (measure_decreases cap s SPush I) as [H|H]; [left; exact H|right]. unfold smeasure2.
    replace (late (sstep cap s SPush)) with (late s); [lia|]. cbn [sstep].
    destruct (negb (Nat.eqb (pending s) 0) && sroom cap s); reflexivity.
  - destruct (measure_decreases cap s (SDeq w) I) as [H|H]; [left; exact H|right]. unfold smeasure2.
    replace (late (sstep cap s (SDeq w))) with (late s); [lia|]. cbn [sstep].
    destruct (nth_error (sworkers s) w) as [[|id|]|]; try reflexivity. destruct (squeue s) as [|[id|] q]; reflexivity.
  - destruct (measure_decreases cap s (SFin w) I) as [H|H]; [left; exact H|right]. unfold smeasure2.
    replace (late (sstep cap s (SFin w))) with (late s); [lia|]. cbn [sstep].
    destruct (nth_error (sworkers s) w) as [[|id|]|]; reflexivity.
  - cbn [sstep]. destruct (late s) as [|id r] eqn:El; [left; reflexivity|].
    destruct (sroom cap s); [|left; reflexivity]. right.
    unfold smeasure2, smeasure, busy_count. cbn [pending squeue sworkers late]. rewrite El, app_length. cbn [length]. lia.
  - cbn [sstep]. destruct (late s) as [|id r] eqn:El; [left; reflexivity|]. right.
    unfold smeasure2, smeasure, busy_count. cbn [pending squeue sworkers late]. rewrite El. cbn [length]. lia.
Qed.

(* ... and a reader that holds a datagram can always leave *)
Lemma reader_can_leave cap s : late s <> [] -> sstep cap s SLateLeave <> s.
Proof.
  intros H E. cbn [sstep] in E. destruct (late s) as [|id r] eqn:El; [congruence|].
  apply (f_equal late) in E. cbn [late] in E. rewrite El in E.
  apply (f_equal (@length nat)) in E. cbn [length] in E. lia.
Qed.

(* the same receiver with readers that do a plain send once quit is closed (no way out through quit): *)
Definition sstep_plain_send (cap : nat) (s : sstate) (a : saction) : sstate :=
  match a with SLateLeave => s | _ => sstep cap s a end.
