(* Evaluated examples for the protobuf round-trip theorem (kept out of Properties/C13.v, which is re-checked by
   every run of the C13 check). *)
From Coq Require Import String List NArith Bool.
From GF Require Import Base.Res Base.Bytes Base.Gen Model.Msg Model.Pb Model.Pipe Model.ProdNF Spec.PbWire Drivers.D13.
Import ListNotations.
Open Scope N_scope.

Fixpoint run_msgs (k : pipekind) (cfg : prodcfg) (st : pstate) (h : list (exporter * N * bytes)) : list msg :=
  match h with
  | [] => []
  | (e, tr, d) :: r =>
      let s := pipe_step k cfg st e tr d in
      (match s with Ok (_, _, ms) => ms | _ => [] end) ++ run_msgs k cfg (step_state st s) r
  end.
Definition parses_back (m : msg) : bool :=
  match parse_wire (S (length (pb_encode m))) (pb_encode m) with
  | Some items => match obs_items items with Some t => toks_eqb t (tl (show_msg m)) | None => false end
  | None => false
  end.
Lemma protobuf_nonvacuous :
  let ms := flat_map (fun i => run_msgs PKFlow empty_prodcfg init_pstate (gcase gen_mixed 1 i)) [0; 1; 2; 3; 4; 5] in
  (20 <=? lenN ms) && forallb msg_ok ms && forallb parses_back ms = true.
Proof. vm_compute. reflexivity. Qed.

