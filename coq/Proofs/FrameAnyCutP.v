(* C10, part 4: a capture cut at ANY length.  FrameP.v / FrameCutP.v cover a cut that ends before the minimal length
   of the header it falls into.  Here: cuts exactly at a header boundary (also right behind an MPLS stack, where the
   dissector cannot see the IP version nibble), cuts inside the variable part of an MPLS stack, of an SRv6 segment list,
   of the TCP options, of an ICMP header, and cuts behind the last header.  Together: every capture length 0..len(frame). *)
From Coq Require Import String NArith ZArith List Bool Arith Lia ZifyN ZifyNat ZifyBool.
From GF Require Import Base.Res Base.Bytes Model.Msg Model.Packet Spec.Frame Proofs.BytesL Proofs.PacketP Proofs.FrameL
  Proofs.FrameP Proofs.FrameCutP.
Import ListNotations.
Open Scope N_scope.

(* ---- one turn of the loop for a parser whose effect on the bytes in front of it is known (size explicit: it may be
        larger than what is left of the capture) ---- *)
Definition step_contract (p : parser) (d : bytes) (asg : list (N * pval)) (size : N) (nx : parser) (needs : bool) : Prop :=
  keys_ok asg /\ p <> PNone /\ size < 4294967296 /\
  forall base m, (needs = true -> base = true -> mgetLB m cRhAddrs = []) ->
    run_parser [] p base m d = Ok ((if base then assign asg else (fun x => x)) (add_layer m p), size, nx).

Lemma loop_step_gen fu data off encap m b ls p d asg size nx needs :
  skipn (N.to_nat off) data = d -> off <= lenN data ->
  step_contract p d asg size nx needs -> Inv m b ls ->
  (needs = true -> encap = false -> mgetLB b cRhAddrs = []) ->
  exists m', parse_loop (S fu) empty_pcfg data off p encap m =
             parse_loop fu empty_pcfg data (off + size) nx (encap_next encap p nx) m' /\
             Inv m' (if encap then b else assign asg b) (ls ++ [(p, size)]).
Proof.
  intros Hs Ho (Hk & Hp & Hl & Hc) Hinv Hn.
  pose proof Hinv as (I1 & I2 & I3).
  rewrite parse_loop_S by exact Hp.
  replace (N.of_nat (length data) <? off) with false by (unfold lenN in Ho; lia).
  rewrite Hs. cbn [empty_pcfg cPorts cLayers]. cbv zeta.
  rewrite Hc by (intros Hnd Hb; rewrite (mgetLB_others m b I3); apply Hn; [exact Hnd|destruct encap; [discriminate|reflexivity]]).
  rewrite apply_layer_maps_nil.
  destruct (add_layer_inv m b ls p Hinv) as (A1 & A2 & A3).
  set (m1 := (if negb encap then assign asg else fun x => x) (add_layer m p)).
  assert (S1 : mgetLI m1 cLayerStack = map (fun x => layer_code (fst x)) ls ++ [layer_code p])
    by (unfold m1; destruct encap; cbn [negb]; [exact A1|rewrite (proj1 (assign_stack asg _ Hk)); exact A1]).
  assert (S2 : mgetLI m1 cLayerSize = map snd ls)
    by (unfold m1; destruct encap; cbn [negb]; [exact A2|rewrite (proj2 (assign_stack asg _ Hk)); exact A2]).
  assert (S3 : others_eq m1 (if encap then b else assign asg b))
    by (unfold m1; destruct encap; cbn [negb]; [exact A3|apply others_eq_assign; exact A3]).
  replace (Nat.ltb (length (mgetLI m cLayerStack)) (length (mgetLI m1 cLayerStack))) with true
    by (symmetry; apply Nat.ltb_lt; rewrite S1, I1, app_length; cbn [length]; lia).
  eexists. split; [reflexivity|]. split; [|split].
  - unfold mgetLI at 1. rewrite alookup_mset. change (cLayerSize =? cLayerStack) with false.
    rewrite map_app. cbn [map fst]. rewrite <- S1. reflexivity.
  - unfold mgetLI at 1. rewrite alookup_mset, N.eqb_refl. rewrite S2, map_app. cbn [map snd].
    replace (size mod 4294967296) with size by lia. reflexivity.
  - eapply others_eq_trans; [apply others_eq_size|exact S3].
Qed.

Lemma parser_eq_none (p : parser) : p = PNone \/ p <> PNone.
Proof. destruct p; (left; reflexivity) || (right; discriminate). Qed.

(* the loop ends: nothing follows, or the next header would start behind the end of the capture *)
Lemma parse_loop_exit fu data off p encap m :
  p = PNone \/ lenN data < off -> parse_loop (S fu) empty_pcfg data off p encap m = Ok m.
Proof.
  intros [->|H]; [reflexivity|]. destruct (parser_eq_none p) as [->|Hp]; [reflexivity|].
  rewrite parse_loop_S by exact Hp. replace (N.of_nat (length data) <? off) with true by (unfold lenN in H; lia). reflexivity.
Qed.

(* ---- a chain of complete headers, then the end of the capture ---- *)
(* the message the dissection starts from: the empty one (ParsePacket on its own), or the one that already carries the
   fields of an sFlow sample; it has no layers and no segment list yet *)
Definition base_ok (m0 : msg) : Prop :=
  mgetLI m0 cLayerStack = [] /\ mgetLI m0 cLayerSize = [] /\ mgetLB m0 cRhAddrs = [].
Lemma base_empty : base_ok empty_msg.
Proof. repeat split. Qed.
Lemma inv_base m0 : base_ok m0 -> Inv m0 m0 [].
Proof. intros (H1 & H2 & _). split; [exact H1|split; [exact H2|apply others_eq_refl]]. Qed.

Lemma cut_stop m0 layers cut e b ls : base_ok m0 ->
  chained PEthernet layers -> contracts layers cut ->
  run_layers false m0 [] layers = Some (e, b, ls) ->
  (last_next PEthernet layers = PNone \/ (length cut < min_len (last_next PEthernet layers))%nat) ->
  exists m, parse_packet empty_pcfg m0 (concat (map lhdr layers) ++ cut) = Ok m /\ Inv m b ls.
Proof.
  intros Hbase Hch Hct Hrun Hend.
  pose proof (contracts_len _ _ Hct) as Hlen.
  set (data := concat (map lhdr layers) ++ cut).
  unfold parse_packet. fold data.
  assert (Hd : (length layers <= length data)%nat) by (unfold data; rewrite app_length; lia).
  replace (length data + 3)%nat with (length layers + (S (S (S (length data - length layers)))))%nat by lia.
  destruct (chain layers (S (S (S (length data - length layers)))) data 0 false m0 m0 [] cut PEthernet e b ls)
    as (m' & E & Hinv'); try assumption; [reflexivity|lia|apply inv_base; exact Hbase|].
  exists m'. split; [|exact Hinv']. rewrite E.
  destruct Hend as [->|Hshort]; [reflexivity|].
  set (p := last_next PEthernet layers) in *.
  destruct (parser_eq_none p) as [->|Hp]; [reflexivity|].
  rewrite parse_loop_S by exact Hp.
  replace (N.of_nat (length data) <? 0 + lenN (concat (map lhdr layers))) with false
    by (unfold data, lenN; rewrite app_length; lia).
  cbv zeta. cbn [empty_pcfg cPorts cLayers].
  replace (skipn (N.to_nat (0 + lenN (concat (map lhdr layers)))) data) with cut
    by (unfold data, lenN; rewrite N.add_0_l, Nat2N.id, skipn_exact; reflexivity).
  rewrite short_stops by exact Hshort. rewrite apply_layer_maps_nil.
  rewrite Nat.ltb_irrefl. rewrite parse_loop_none. reflexivity.
Qed.

(* ---- a chain of complete headers, then one more header of which the capture holds enough for its parser ---- *)
Lemma cut_step m0 layers cut e b ls asg size nx needs : base_ok m0 ->
  chained PEthernet layers -> contracts layers cut ->
  run_layers false m0 [] layers = Some (e, b, ls) ->
  step_contract (last_next PEthernet layers) cut asg size nx needs ->
  (needs = true -> e = false -> mgetLB b cRhAddrs = []) ->
  (nx = PNone \/ lenN cut < size) ->
  exists m, parse_packet empty_pcfg m0 (concat (map lhdr layers) ++ cut) = Ok m /\
            Inv m (if e then b else assign asg b) (ls ++ [(last_next PEthernet layers, size)]).
Proof.
  intros Hbase Hch Hct Hrun Hstep Hneeds Hend.
  pose proof (contracts_len _ _ Hct) as Hlen.
  set (data := concat (map lhdr layers) ++ cut).
  unfold parse_packet. fold data.
  assert (Hd : (length layers <= length data)%nat) by (unfold data; rewrite app_length; lia).
  replace (length data + 3)%nat with (length layers + (S (S (S (length data - length layers)))))%nat by lia.
  destruct (chain layers (S (S (S (length data - length layers)))) data 0 false m0 m0 [] cut PEthernet e b ls)
    as (m' & E & Hinv'); try assumption; [reflexivity|lia|apply inv_base; exact Hbase|].
  rewrite E.
  destruct (loop_step_gen (S (S (length data - length layers))) data (0 + lenN (concat (map lhdr layers))) e m' b ls
              (last_next PEthernet layers) cut asg size nx needs) as (m2 & E2 & Hinv2); try assumption.
  - unfold data, lenN. rewrite N.add_0_l, Nat2N.id, skipn_exact. reflexivity.
  - unfold data, lenN. rewrite app_length. lia.
  - exists m2. split; [|exact Hinv2]. rewrite E2. apply parse_loop_exit.
    destruct Hend as [H|H]; [left; exact H|right]. unfold data, lenN in *. rewrite app_length. lia.
Qed.

(* ==== what the parsers of variable-length headers do on a header that is cut inside its variable part ==== *)

(* ---- TCP: the fixed 20 bytes are enough; the options are never read ---- *)
Definition tcp20 (sp dp fl ow : N) : bytes :=
  enc_be 2 sp ++ enc_be 2 dp ++ enc_be 4 7 ++ enc_be 4 9 ++ [16 * (5 + ow); fl] ++ enc_be 2 1024 ++ enc_be 2 0 ++ enc_be 2 0.
Lemma tcp20_len sp dp fl ow : length (tcp20 sp dp fl ow) = 20%nat.
Proof. unfold tcp20. rewrite !app_length, !enc_be_len. reflexivity. Qed.
Lemma enc_tcp_split sp dp fl ow : enc_l4 (L4TCP sp dp fl ow) = tcp20 sp dp fl ow ++ repeat 1 (N.to_nat (4 * ow)).
Proof. unfold enc_l4, tcp20. rewrite <- !app_assoc. reflexivity. Qed.

Lemma tcp_step base m sp dp fl ow x :
  sp < 65536 -> dp < 65536 -> ow <= 10 ->
  run_parser [] PTCP base m (tcp20 sp dp fl ow ++ x) =
  Ok ((if base then assign [(cSrcPort, VI sp); (cDstPort, VI dp); (cTcpFlags, VI fl)] else (fun x => x)) (add_layer m PTCP),
      20 + 4 * ow, PNone).
Proof.
  intros Hs Hd Ho. unfold tcp20. rewrite !enc_be_2, !enc_be_4. rewrite <- !app_assoc. cbn [run_parser]. subs.
  rewrite !be2 by assumption. unfold next_port. cbn [find].
  replace (16 * (5 + ow) / 16 * 4) with (20 + 4 * ow) by lia.
  replace (20 + 4 * ow <? 20) with false by lia.
  destruct base; reflexivity.
Qed.

(* ---- ICMP / ICMPv6: type and code are enough ---- *)
Lemma icmp_step ports base m (six : bool) t c x :
  run_parser ports (if six then PICMPv6 else PICMP) base m (t :: c :: x) =
  Ok ((if base then assign [(cIcmpType, VI t); (cIcmpCode, VI c)] else (fun x => x))
        (add_layer m (if six then PICMPv6 else PICMP)), 8, PNone).
Proof. destruct six; cbn [run_parser]; subs; destruct base; reflexivity. Qed.

(* ---- SRv6: the segments that are completely inside the capture ---- *)
Lemma srv6_loop_partial tailb : forall segs pre acc fuel off entry last size,
  Forall (fun s => length s = 16%nat) segs ->
  length pre = (8 + off)%nat -> (8 + off + 16 * length segs < size)%nat -> (length tailb < 16)%nat ->
  entry + lenN segs <= last + 1 -> (length segs < fuel)%nat ->
  srv6_loop fuel (pre ++ concat segs ++ tailb) size off entry last acc = acc ++ segs.
Proof.
  induction segs as [|s q IH]; intros pre acc fuel off entry last size Hs Hp Hz Ht He Hf.
  - destruct fuel; [lia|]. cbn [srv6_loop concat app].
    replace (Nat.leb (8 + off + 16) (length (pre ++ tailb))) with false
      by (symmetry; apply Nat.leb_gt; rewrite app_length; lia).
    rewrite andb_false_r. cbn [andb]. rewrite app_nil_r. reflexivity.
  - destruct fuel; [cbn [length] in Hf; lia|]. cbn [srv6_loop]. inversion Hs as [|? ? Hs1 Hsq]; subst.
    cbn [length] in *. unfold lenN in He. cbn [length] in He.
    replace (Nat.ltb (8 + off) size) with true by (symmetry; apply Nat.ltb_lt; lia).
    replace (Nat.leb (8 + off + 16) (length (pre ++ concat (s :: q) ++ tailb))) with true
      by (symmetry; apply Nat.leb_le; cbn [concat]; rewrite !app_length; lia).
    replace (entry <=? last) with true by lia. cbn [andb].
    rewrite <- Hp. cbn [concat]. rewrite <- !app_assoc. rewrite sub_pre.
    replace (firstn 16 (s ++ concat q ++ tailb)) with s by (symmetry; rewrite <- Hs1; apply firstn_exact).
    rewrite (app_assoc pre s). rewrite ?Hp.
    rewrite (IH (pre ++ s) (acc ++ [s]) fuel (off + 16)%nat (entry + 1) last); try assumption.
    + rewrite <- app_assoc. reflexivity.
    + rewrite app_length. lia.
    + lia.
    + unfold lenN. lia.
    + lia.
Qed.

Lemma in_firstn {A} (x : A) : forall k l, In x (firstn k l) -> In x l.
Proof. induction k as [|k IH]; intros l H; [destruct H|]. destruct l as [|y r]; [destruct H|]. cbn [firstn] in H. destruct H as [->|H]; [left; reflexivity|right; apply IH; exact H]. Qed.

Definition srh8 (next sl : N) (segs : list bytes) : bytes := [next; 2 * lenN segs; 4; sl; (lenN segs + 255) mod 256; 0; 0; 0].

Lemma srh_step ports base m next sl segs k tailb :
  wf_srh (sl, segs) = true -> mgetLB m cRhAddrs = [] -> (k < length segs)%nat -> (length tailb < 16)%nat ->
  run_parser ports PV6Route base m (srh8 next sl segs ++ concat (firstn k segs) ++ tailb) =
  Ok ((if base then assign [(cRhSegLeft, VI sl); (cRhAddrs, VLB (firstn k segs))] else (fun x => x)) (add_layer m PV6Route),
      8 + 16 * lenN segs, next_proto next).
Proof.
  unfold wf_srh. cbn [snd]. intros H Hm Hk Ht. apply andb_prop in H. destruct H as [Hn Hs]. apply N.leb_le in Hn.
  assert (Hs' : Forall (fun s => length s = 16%nat) (firstn k segs)).
  { apply Forall_forall. intros x Hx. apply in_firstn in Hx. rewrite forallb_forall in Hs. apply Nat.eqb_eq. apply Hs. exact Hx. }
  assert (Hkl : length (firstn k segs) = k) by (rewrite firstn_length; lia).
  cbn [run_parser]. unfold srh8.
  set (d := [next; 2 * lenN segs; 4; sl; (lenN segs + 255) mod 256; 0; 0; 0] ++ concat (firstn k segs) ++ tailb).
  assert (Hlen : (8 <= length d)%nat) by (unfold d; rewrite app_length; cbn [length]; lia).
  replace (Nat.ltb (length d) 8) with false by (symmetry; apply Nat.ltb_ge; exact Hlen).
  change (byte_at d 0) with next. change (byte_at d 1) with (2 * lenN segs). change (byte_at d 2) with 4.
  change (byte_at d 3) with sl. change (byte_at d 4) with ((lenN segs + 255) mod 256).
  replace (N.of_nat (8 + 8 * N.to_nat (2 * lenN segs))) with (8 + 16 * lenN segs) by (unfold lenN; lia).
  destruct base; [|reflexivity].
  cbn [N.eqb Pos.eqb]. f_equal. f_equal. f_equal.
  unfold assign. cbn [fold_left fst snd]. unfold msetI at 1. f_equal. f_equal.
  replace (mgetLB (msetI (add_layer m PV6Route) cRhSegLeft sl) cRhAddrs) with (@nil bytes) by (symmetry; exact Hm).
  unfold d. change [next; 2 * lenN segs; 4; sl; (lenN segs + 255) mod 256; 0; 0; 0] with ([next; 2 * lenN segs; 4; sl; (lenN segs + 255) mod 256; 0; 0; 0] : bytes).
  rewrite (srv6_loop_partial tailb (firstn k segs) _ [] _ 0%nat 0 ((lenN segs + 255) mod 256)); try assumption; try reflexivity.
  - unfold lenN, bytes in *. rewrite Hkl. lia.
  - unfold lenN, bytes in *. rewrite Hkl. lia.
  - fold d. assert (length d >= 8 + 16 * k)%nat; [|unfold bytes in *; rewrite Hkl; lia].
    unfold d. rewrite !app_length. cbn [length].
    assert (length (concat (firstn k segs)) = 16 * length (firstn k segs))%nat; [|unfold bytes in *; rewrite Hkl in *; lia].
    clear -Hs'. induction Hs' as [|x l Hx _ IH]; [reflexivity|]. cbn [concat length]. rewrite app_length. lia.
Qed.

(* ---- MPLS: the labels that are completely inside the capture; no ethertype without the byte behind the stack ---- *)
Definition mpls_open (q : list (N * N)) : bytes := concat (map (mpls_entry false) q).
Lemma mpls_open_len q : length (mpls_open q) = (4 * length q)%nat.
Proof.
  induction q as [|x r IH]; [reflexivity|]. unfold mpls_open in *. cbn [map concat]. rewrite app_length, IH.
  unfold mpls_entry. rewrite enc_be_len. cbn [length]. lia.
Qed.

Lemma mpls_bytes_split : forall ls k, (k < length ls)%nat ->
  mpls_bytes ls = mpls_open (firstn k ls) ++ mpls_bytes (skipn k ls).
Proof.
  induction ls as [|x r IH]; intros k Hk; [cbn in Hk; lia|]. destruct k as [|k]; [reflexivity|].
  cbn [length] in Hk. destruct r as [|y r']; [cbn in Hk; lia|].
  change (mpls_bytes (x :: y :: r')) with (mpls_entry false x ++ mpls_bytes (y :: r')).
  cbn [firstn skipn]. unfold mpls_open. cbn [map concat]. rewrite <- app_assoc. f_equal. apply IH. lia.
Qed.

Lemma mpls_loop_partial tailb : forall q pre accL accT fuel,
  forallb wf_label q = true -> (length tailb < 4)%nat -> (length q <= fuel)%nat ->
  mpls_loop fuel (pre ++ mpls_open q ++ tailb) (length pre) accL accT =
  (accL ++ map fst q, accT ++ map snd q, (length pre + 4 * length q)%nat, None).
Proof.
  induction q as [|[l t] q IH]; intros pre accL accT fuel Hwf Ht Hf.
  - cbn [mpls_open map concat app length]. rewrite !app_nil_r, Nat.mul_0_r, Nat.add_0_r.
    destruct fuel; [reflexivity|]. cbn [mpls_loop].
    replace (Nat.ltb (length (pre ++ tailb)) (length pre + 4)) with true by (symmetry; apply Nat.ltb_lt; rewrite app_length; lia).
    reflexivity.
  - cbn [forallb] in Hwf. apply andb_prop in Hwf. destruct Hwf as [Hx Hq].
    unfold wf_label in Hx. cbn [fst snd] in Hx. apply andb_prop in Hx. destruct Hx as [Hx Htt]. apply andb_prop in Hx. destruct Hx as [Hl1 Hl2].
    apply N.ltb_lt in Hl1. apply N.ltb_lt in Hl2. apply N.ltb_lt in Htt.
    destruct fuel; [cbn [length] in Hf; lia|]. cbn [mpls_loop].
    change (mpls_open ((l, t) :: q)) with (mpls_entry false (l, t) ++ mpls_open q).
    rewrite <- app_assoc.
    replace (Nat.ltb (length (pre ++ mpls_entry false (l, t) ++ mpls_open q ++ tailb)) (length pre + 4)) with false
      by (symmetry; apply Nat.ltb_ge; rewrite !app_length; unfold mpls_entry; rewrite enc_be_len; lia).
    destruct (mpls_entry_fields pre false l t (mpls_open q ++ tailb) Hl1 Hl2 Htt) as (E1 & E2 & E3). cbv zeta in E1, E2, E3.
    rewrite E1, E2, E3. cbn [N.eqb orb].
    replace (l <=? 15) with false by lia.
    rewrite (app_assoc pre (mpls_entry false (l, t))).
    replace (length pre + 4)%nat with (length (pre ++ mpls_entry false (l, t)))
      by (rewrite app_length; unfold mpls_entry; rewrite enc_be_len; reflexivity).
    rewrite IH; [|exact Hq|exact Ht|cbn [length] in Hf; lia].
    rewrite <- !app_assoc. cbn [map fst snd app length].
    f_equal. f_equal. rewrite app_length. unfold mpls_entry. rewrite enc_be_len. lia.
Qed.

(* a label stack cut behind its k-th entry, 1 <= k < n (and up to three bytes of the next entry) *)
Lemma mpls_step_partial ports base m ls k tailb :
  forallb wf_label ls = true -> (1 <= k < length ls)%nat -> (length tailb < 4)%nat ->
  run_parser ports PMPLS base m (mpls_open (firstn k ls) ++ tailb) =
  Ok ((if base then assign [(cMplsLabel, VLI (map fst (firstn k ls))); (cMplsTtl, VLI (map snd (firstn k ls)))] else (fun x => x))
        (add_layer m PMPLS), 4 * N.of_nat k, PNone).
Proof.
  intros Hwf Hk Ht. cbn [run_parser].
  assert (Hkl : length (firstn k ls) = k) by (rewrite firstn_length; lia).
  replace (Nat.ltb (length (mpls_open (firstn k ls) ++ tailb)) 4) with false
    by (symmetry; apply Nat.ltb_ge; rewrite app_length, mpls_open_len, Hkl; lia).
  assert (Hwfk : forallb wf_label (firstn k ls) = true).
  { apply forallb_forall. intros x Hx. apply in_firstn in Hx. rewrite forallb_forall in Hwf. apply Hwf. exact Hx. }
  pose proof (mpls_loop_partial tailb (firstn k ls) [] [] [] (S (length (mpls_open (firstn k ls) ++ tailb))) Hwfk Ht) as L.
  cbn [app length] in L. rewrite L by (rewrite app_length, mpls_open_len; lia).
  rewrite Hkl. replace (N.of_nat (0 + 4 * k)) with (4 * N.of_nat k) by lia.
  destruct base; reflexivity.
Qed.

(* the complete stack with nothing behind it that tells the IP version: all labels, no ethertype, nothing follows *)
Lemma mpls_step_nopeek ports base m ls rest :
  ls <> [] -> forallb wf_label ls = true -> peek_etype rest = None ->
  run_parser ports PMPLS base m (enc_mpls ls ++ rest) =
  Ok ((if base then assign [(cMplsLabel, VLI (map fst ls)); (cMplsTtl, VLI (map snd ls))] else (fun x => x))
        (add_layer m PMPLS), 4 * lenN ls, PNone).
Proof.
  intros Hne Hwf He. rewrite enc_mpls_bytes. cbn [run_parser].
  replace (Nat.ltb (length (mpls_bytes ls ++ rest)) 4) with false
    by (symmetry; apply Nat.ltb_ge; rewrite app_length, mpls_bytes_len; destruct ls; [congruence|cbn [length]; lia]).
  pose proof (mpls_loop_spec rest ls [] [] [] (S (length (mpls_bytes ls ++ rest))) Hne Hwf) as L.
  cbn [app length] in L. rewrite L by (rewrite app_length, mpls_bytes_len; lia).
  rewrite He. replace (N.of_nat (0 + 4 * length ls)) with (4 * lenN ls) by (unfold lenN; lia).
  destruct base; reflexivity.
Qed.

(* ==== the layers of a frame: every header but the MPLS stack is dissected without looking behind it ==== *)
Definition robust (l : layer) : Prop := lp l = PMPLS \/ forall x, contract l x.

Lemma vlan_robust vs final : forallb (fun v => v <? 65536) vs = true -> final < 65536 -> Forall robust (vlan_chain vs final).
Proof.
  induction vs as [|v r IH]; intros H Hf; [apply Forall_nil|]. cbn [forallb] in H. apply andb_prop in H. destruct H as [Hv Hr].
  apply N.ltb_lt in Hv. cbn [vlan_chain]. apply Forall_cons; [|apply IH; assumption].
  right. intros x. apply vlan_layer_contract; [exact Hv|]. destruct r; cbn [head_et]; [exact Hf|lia].
Qed.

Lemma front_robust f : wf_front f = true -> Forall robust (front_chain f).
Proof.
  unfold wf_front. intros H. repeat (apply andb_prop in H; destruct H as [H ?]).
  repeat match goal with X : (_ <? _) = true |- _ => apply N.ltb_lt in X | X : (_ <=? _) = true |- _ => apply N.leb_le in X end.
  destruct (after_et_small f) as [Ha _].
  unfold front_chain. apply Forall_cons.
  - right. intros x. apply eth_layer_contract; try assumption. destruct (fVlans f); cbn [head_et]; [exact Ha|lia].
  - apply Forall_app. split; [apply vlan_robust; [apply vlans_small; assumption|exact Ha]|].
    unfold mpls_chain. destruct (fMpls f); [apply Forall_nil|]. apply Forall_cons; [left; reflexivity|apply Forall_nil].
Qed.

Lemma l3_robust x next plen : wf_l3 x = true -> Forall robust (l3_chain x next plen).
Proof.
  destruct x as [h|h]; cbn [wf_l3 l3_chain]; intros H.
  - apply Forall_cons; [right; intros r; apply ip4_layer_contract; exact H|apply Forall_nil].
  - apply andb_prop in H. destruct H as [H Hf]. apply andb_prop in H. destruct H as [Hb Hs].
    apply Forall_cons; [right; intros r; apply ip6_layer_contract; exact Hb|].
    assert (Rs : forall s, wf_srh s = true -> robust (srh_layer next s)) by (intros s0 H0; right; intros r; apply srh_layer_contract; exact H0).
    assert (Rs' : forall s, wf_srh s = true -> robust (srh_layer 44 s)) by (intros s0 H0; right; intros r; apply srh_layer_contract; exact H0).
    assert (Rf : forall f, wf_frag f = true -> robust (frag_layer next f)) by (intros f0 H0; right; intros r; apply frag_layer_contract; exact H0).
    unfold v6_ext_chain. destruct (i6Srh h) as [s|]; destruct (i6Frag h) as [f|].
    + apply Forall_cons; [apply Rs'; exact Hs|apply Forall_cons; [apply Rf; exact Hf|apply Forall_nil]].
    + apply Forall_cons; [apply Rs; exact Hs|apply Forall_nil].
    + apply Forall_cons; [apply Rf; exact Hf|apply Forall_nil].
    + apply Forall_nil.
Qed.

Lemma l4_robust x : wf_l4 x = true -> Forall robust (l4_chain x).
Proof.
  intros H. assert (C : forall r, contracts (l4_chain x) r) by (intros r; apply l4_contracts; exact H).
  destruct x; cbn [l4_chain] in *; try apply Forall_nil; (apply Forall_cons; [|apply Forall_nil]); right; intros r;
    specialize (C r); cbn [contracts map concat app] in C; destruct C as [C _]; apply C; reflexivity.
Qed.

Lemma tail_robust f : wf_l3 (fInner f) = true -> wf_l4 (fL4 f) = true -> Forall robust (tail_chain f).
Proof.
  intros H3 H4.
  assert (Hin : Forall robust (inner_chain f)) by (unfold inner_chain; apply Forall_app; split; [apply l3_robust; exact H3|apply l4_robust; exact H4]).
  unfold tail_chain. destruct (fTun f).
  - apply l4_robust. exact H4.
  - apply Forall_cons; [right; intros r; apply gre_layer_contract, l3_etype_small|exact Hin].
  - apply Forall_cons; [right; intros r; apply gre_layer_contract; lia|].
    apply Forall_cons; [right; intros r; apply eth_layer_contract; try lia; apply l3_etype_small|exact Hin].
  - exact Hin.
Qed.

Lemma frame_robust f : wf_frame f = true -> Forall robust (frame_chain f).
Proof.
  unfold wf_frame. intros H. apply andb_prop in H. destruct H as [H H4]. apply andb_prop in H. destruct H as [H Hi].
  apply andb_prop in H. destruct H as [Hf Ho].
  unfold frame_chain. apply Forall_app. split; [apply front_robust; exact Hf|].
  apply Forall_app. split; [apply l3_robust; exact Ho|apply tail_robust; assumption].
Qed.

(* the first j headers of a chain, with ANYTHING behind them, as long as the last of them is not an MPLS stack *)
Lemma contracts_firstn_any layers rest : forall j cut,
  contracts layers rest -> Forall robust layers -> (j <= length layers)%nat ->
  (forall l, j <> 0%nat -> nth_error layers (j - 1) = Some l -> lp l <> PMPLS) ->
  contracts (firstn j layers) cut.
Proof.
  induction layers as [|l q IH]; intros j cut H Hr Hj Hm; [destruct j; exact I|].
  destruct j as [|j]; [exact I|]. cbn [firstn contracts] in *. destruct H as [Hc Hq].
  inversion Hr as [|? ? Hrl Hrq]; subst. cbn [length] in Hj.
  destruct j as [|j].
  - cbn [firstn map concat app]. split; [|exact I].
    destruct Hrl as [Hl|Hl]; [exfalso; apply (Hm l); [discriminate|reflexivity|exact Hl]|apply robust_p; exact Hl].
  - destruct q as [|l2 q2]; [cbn [length] in Hj; lia|]. split.
    + eapply contract_p_peek; [exact Hc|].
      cbn [firstn map concat]. cbn [contracts] in Hq. destruct Hq as [Hc2 _].
      destruct (Hc2 _ eq_refl) as (_ & _ & (Hl & _) & _).
      destruct (lhdr l2) as [|x hx] eqn:E2; [unfold lenN in Hl; cbn in Hl; lia|].
      rewrite <- !app_assoc. rewrite !peek_cons. reflexivity.
    + apply IH; [exact Hq|exact Hrq|lia|].
      intros l0 _ Hn. apply (Hm l0); [discriminate|]. cbn [Nat.sub] in *. rewrite Nat.sub_0_r in *.
      destruct j; exact Hn.
Qed.

(* ==== the kinds of header a frame is made of ==== *)
Definition next_ok (p : parser) : Prop := p = PNone \/ (0 < min_len p)%nat.
Lemma next_etype_ok e : next_ok (next_etype e).
Proof. unfold next_ok, next_etype. repeat match goal with |- context [if ?c then _ else _] => destruct c end; cbn; auto; right; lia. Qed.
Lemma next_proto_ok x : next_ok (next_proto x).
Proof. unfold next_ok, next_proto. repeat match goal with |- context [if ?c then _ else _] => destruct c end; cbn; auto; right; lia. Qed.

Inductive lkind : layer -> Prop :=
| KFixed l : length (lhdr l) = min_len (lp l) -> lp l <> PMPLS -> next_ok (lnext l) -> lkind l
| KMpls ls e : ls <> [] -> forallb wf_label ls = true -> lenN ls <= 1000 -> (0 < min_len (next_etype e))%nat -> lkind (mpls_layer ls e)
| KSrh next s : wf_srh s = true -> lkind (srh_layer next s)
| KTcp sp dp fl ow : sp < 65536 -> dp < 65536 -> ow <= 10 ->
    lkind (mk PTCP (enc_l4 (L4TCP sp dp fl ow)) [(cSrcPort, VI sp); (cDstPort, VI dp); (cTcpFlags, VI fl)] PNone false)
| KIcmp (six : bool) t c :
    lkind (mk (if six then PICMPv6 else PICMP) ([t; c] ++ enc_be 2 0 ++ enc_be 4 1) [(cIcmpType, VI t); (cIcmpCode, VI c)] PNone false).

Lemma vlan_kinds vs final : Forall lkind (vlan_chain vs final).
Proof.
  induction vs as [|v r IH]; [apply Forall_nil|]. cbn [vlan_chain]. apply Forall_cons; [|exact IH].
  apply KFixed; [reflexivity|discriminate|apply next_etype_ok].
Qed.

Lemma front_kinds f : wf_front f = true -> Forall lkind (front_chain f).
Proof.
  unfold wf_front. intros H. repeat (apply andb_prop in H; destruct H as [H ?]).
  unfold front_chain. apply Forall_cons; [apply KFixed; [reflexivity|discriminate|apply next_etype_ok]|].
  apply Forall_app. split; [apply vlan_kinds|].
  unfold mpls_chain. destruct (fMpls f) as [|x ls] eqn:Em; [apply Forall_nil|]. apply Forall_cons; [|apply Forall_nil].
  repeat match goal with X : (_ <=? _) = true |- _ => apply N.leb_le in X end.
  apply KMpls; [discriminate|assumption|assumption|]. rewrite next_etype_l3. destruct (fOuter f); cbn; lia.
Qed.

Lemma l3_kinds x next plen : wf_l3 x = true -> Forall lkind (l3_chain x next plen).
Proof.
  destruct x as [h|h]; cbn [wf_l3 l3_chain]; intros H.
  - apply Forall_cons; [|apply Forall_nil]. apply KFixed; [cbn [ip4_layer mk lhdr lp]; apply ip4_hdr_len; exact H|discriminate|apply next_proto_ok].
  - apply andb_prop in H. destruct H as [H Hf]. apply andb_prop in H. destruct H as [Hb Hs].
    apply Forall_cons; [apply KFixed; [cbn [ip6_layer mk lhdr lp]; apply ip6_hdr_len; exact Hb|discriminate|apply next_proto_ok]|].
    assert (Kf : forall n f, lkind (frag_layer n f)).
    { intros n [[o fl] id]. apply KFixed; [reflexivity|discriminate|apply next_proto_ok]. }
    unfold v6_ext_chain. destruct (i6Srh h) as [s|]; destruct (i6Frag h) as [f|].
    + apply Forall_cons; [apply KSrh; exact Hs|apply Forall_cons; [apply Kf|apply Forall_nil]].
    + apply Forall_cons; [apply KSrh; exact Hs|apply Forall_nil].
    + apply Forall_cons; [apply Kf|apply Forall_nil].
    + apply Forall_nil.
Qed.

Lemma l4_kinds x : wf_l4 x = true -> Forall lkind (l4_chain x).
Proof.
  destruct x; cbn [wf_l4 l4_chain]; intros H; try apply Forall_nil; (apply Forall_cons; [|apply Forall_nil]).
  - apply andb_prop in H. destruct H as [H H3]. apply andb_prop in H. destruct H as [H1 H2].
    apply N.ltb_lt in H1. apply N.ltb_lt in H2. apply N.leb_le in H3. apply (KTcp sp dp flags ow); assumption.
  - apply KFixed; [reflexivity|discriminate|left; reflexivity].
  - apply (KIcmp false ty code).
  - apply (KIcmp true ty code).
Qed.

Lemma tail_kinds f : wf_l3 (fInner f) = true -> wf_l4 (fL4 f) = true -> Forall lkind (tail_chain f).
Proof.
  intros H3 H4.
  assert (Hin : Forall lkind (inner_chain f)) by (unfold inner_chain; apply Forall_app; split; [apply l3_kinds; exact H3|apply l4_kinds; exact H4]).
  unfold tail_chain. destruct (fTun f).
  - apply l4_kinds. exact H4.
  - apply Forall_cons; [apply KFixed; [reflexivity|discriminate|apply next_etype_ok]|exact Hin].
  - apply Forall_cons; [apply KFixed; [reflexivity|discriminate|apply next_etype_ok]|].
    apply Forall_cons; [apply KFixed; [reflexivity|discriminate|apply next_etype_ok]|exact Hin].
  - exact Hin.
Qed.

Lemma frame_kinds f : wf_frame f = true -> Forall lkind (frame_chain f).
Proof.
  unfold wf_frame. intros H. apply andb_prop in H. destruct H as [H H4]. apply andb_prop in H. destruct H as [H Hi].
  apply andb_prop in H. destruct H as [Hf Ho].
  unfold frame_chain. apply Forall_app. split; [apply front_kinds; exact Hf|].
  apply Forall_app. split; [apply l3_kinds; exact Ho|apply tail_kinds; assumption].
Qed.

(* ==== column by column: true value, unset, or -- for the label / TTL / segment lists -- a prefix of the true list ==== *)
Definition vprefix (a r : pval) : Prop :=
  match a, r with
  | VLI x, VLI y => exists n, x = firstn n y
  | VLB x, VLB y => exists n, x = firstn n y
  | _, _ => False
  end.
Definition col_ok (base a r : option pval) : Prop :=
  a = r \/ a = base \/ exists va vr, a = Some va /\ r = Some vr /\ vprefix va vr.
(* m0: the message the dissection started from; framed m0 f: what the complete frame makes of it *)
Definition cols_ok (m0 m : msg) (f : frame) : Prop :=
  forall k, k <> cEtype -> k <> cVlanId -> k <> cLayerStack -> k <> cLayerSize ->
    col_ok (alookup (cols m0) k) (alookup (cols m) k) (alookup (cols (framed m0 f)) k).

(* frame_cut_columns (FrameCutP.v) from any base message: a prefix of the frame's headers leaves every column at the
   complete frame's value or at the base message's *)
Lemma frame_cut_columns_on m0 f j e b ls : wf_frame f = true -> base_ok m0 ->
  run_layers false m0 [] (firstn j (frame_chain f)) = Some (e, b, ls) ->
  forall k, k <> cEtype -> k <> cVlanId -> k <> cLayerStack -> k <> cLayerSize ->
    alookup (cols b) k = alookup (cols (framed m0 f)) k \/ alookup (cols b) k = alookup (cols m0) k.
Proof.
  intros Hwf (_ & _ & Hrh) Hrun k K1 K2 K3 K4.
  destruct (frame_run_on m0 f Hwf Hrh) as (e0 & b0 & R0 & O0).
  pose proof (frame_applied_nodup f Hwf) as Hnd.
  rewrite <- (firstn_skipn j (frame_chain f)) in R0, Hnd.
  rewrite applied_app, fkeys_app in Hnd. apply nodup_app in Hnd. destruct Hnd as (_ & _ & Hd).
  apply run_layers_applied in Hrun. destruct Hrun as [Hb _].
  apply run_layers_applied in R0. destruct R0 as [Hb0 _]. rewrite applied_app, assign_app, <- Hb in Hb0.
  set (P := applied false (firstn j (frame_chain f))) in *.
  set (S := applied (eafter false (firstn j (frame_chain f))) (skipn j (frame_chain f))) in *.
  assert (Hok : okk k = true).
  { unfold okk. destruct (N.eqb_spec k cEtype); [contradiction|]. destruct (N.eqb_spec k cVlanId); [contradiction|]. reflexivity. }
  assert (Href : alookup (cols b0) k = alookup (cols (framed m0 f)) k).
  { destruct O0 as [O0 _]. rewrite O0 by assumption. unfold framed. rewrite !alookup_mset.
    destruct (N.eqb_spec cLayerSize k); [congruence|]. destruct (N.eqb_spec cLayerStack k); [congruence|]. reflexivity. }
  destruct (in_dec N.eq_dec k (map fst S)) as [Hin|Hnin].
  - right. rewrite Hb. rewrite assign_notin; [reflexivity|]. intros Hp.
    apply (Hd k); apply fkeys_in; split; assumption.
  - left. rewrite <- Href, Hb0. rewrite assign_notin by exact Hnin. reflexivity.
Qed.

Lemma stop_columns m0 f j e b ls m : wf_frame f = true -> base_ok m0 ->
  run_layers false m0 [] (firstn j (frame_chain f)) = Some (e, b, ls) -> Inv m b ls -> cols_ok m0 m f.
Proof.
  intros Hwf Hbase Hrun (_ & _ & [Ho _]) k K1 K2 K3 K4. rewrite Ho by assumption.
  destruct (frame_cut_columns_on m0 f j e b ls Hwf Hbase Hrun k K1 K2 K3 K4) as [H|H]; [left; exact H|right; left; exact H].
Qed.

Lemma nth_split {A} (l : list A) j d : (j < length l)%nat -> l = firstn j l ++ nth j l d :: skipn (S j) l.
Proof.
  revert j. induction l as [|x r IH]; intros j H; [cbn in H; lia|]. destruct j as [|j]; [reflexivity|].
  cbn [firstn nth skipn app]. f_equal. apply IH. cbn [length] in H. lia.
Qed.

Lemma assign_in_once L : forall m k v, In (k, v) L -> NoDup (fkeys L) -> okk k = true -> alookup (cols (assign L m)) k = Some v.
Proof.
  induction L as [|[k1 v1] r IH]; intros m k v Hin Hnd Hok; [destruct Hin|].
  cbn [assign fold_left fst snd].
  change (fold_left (fun m0 kv => mset m0 (fst kv) (snd kv)) r (mset m k1 v1)) with (assign r (mset m k1 v1)).
  unfold fkeys in Hnd. cbn [map fst filter] in Hnd.
  destruct (N.eq_dec k1 k) as [->|Hne].
  - rewrite Hok in Hnd. inversion Hnd as [|? ? Hn Hr]; subst.
    destruct Hin as [Hin|Hin].
    + inversion Hin; subst. rewrite assign_notin; [rewrite alookup_mset, N.eqb_refl; reflexivity|].
      intros Hi. apply Hn. apply fkeys_in. split; assumption.
    + exfalso. apply Hn. apply fkeys_in. split; [exact Hok|]. apply in_map_iff. exists (k, v). split; [reflexivity|exact Hin].
  - destruct Hin as [Hin|Hin]; [inversion Hin; congruence|].
    apply IH; [exact Hin| |exact Hok]. destruct (okk k1); [inversion Hnd; assumption|exact Hnd].
Qed.

Definition sub_asg (A L : list (N * pval)) : Prop :=
  NoDup (fkeys A) /\ forall k v, In (k, v) A -> okk k = true /\ exists v', In (k, v') L /\ (v = v' \/ vprefix v v').

Lemma step_columns m0 f j A e b ls m : wf_frame f = true -> base_ok m0 -> (j < length (frame_chain f))%nat ->
  run_layers false m0 [] (firstn j (frame_chain f)) = Some (e, b, ls) ->
  sub_asg A (lasg (nth j (frame_chain f) dummy_layer)) ->
  others_eq m (if e then b else assign A b) -> cols_ok m0 m f.
Proof.
  intros Hwf Hbase Hj Hrun [HndA HA] [Ho _] k K1 K2 K3 K4. rewrite Ho by assumption.
  pose proof (frame_cut_columns_on m0 f j e b ls Hwf Hbase Hrun k K1 K2 K3 K4) as Hb.
  destruct e; [destruct Hb as [H|H]; [left; exact H|right; left; exact H]|].
  assert (Hok : okk k = true).
  { unfold okk. destruct (N.eqb_spec k cEtype); [contradiction|]. destruct (N.eqb_spec k cVlanId); [contradiction|]. reflexivity. }
  destruct (in_dec N.eq_dec k (map fst A)) as [Hin|Hnin].
  2:{ rewrite assign_notin by exact Hnin. destruct Hb as [H|H]; [left; exact H|right; left; exact H]. }
  apply in_map_iff in Hin. destruct Hin as ([k0 v] & Hk0 & Hin). cbn [fst] in Hk0. subst k0.
  destruct (HA k v Hin) as (_ & v' & Hin' & Hrel).
  rewrite (assign_in_once A b k v Hin HndA Hok).
  (* the complete frame *)
  destruct (frame_run_on m0 f Hwf (proj2 (proj2 Hbase))) as (e0 & b0 & R0 & O0).
  pose proof (frame_applied_nodup f Hwf) as Hnd.
  set (lj := nth j (frame_chain f) dummy_layer) in *.
  rewrite (nth_split (frame_chain f) j dummy_layer Hj) in R0, Hnd. fold lj in R0, Hnd.
  apply run_layers_applied in Hrun. destruct Hrun as [Hbb He].
  apply run_layers_applied in R0. destruct R0 as [Hb0 _].
  rewrite applied_app in Hb0, Hnd. rewrite <- He in Hb0, Hnd. cbn [applied] in Hb0, Hnd.
  rewrite !assign_app in Hb0. rewrite <- Hbb in Hb0.
  rewrite !fkeys_app in Hnd. apply nodup_app in Hnd. destruct Hnd as (_ & Hnd & _).
  apply nodup_app in Hnd. destruct Hnd as (HndL & _ & Hd).
  assert (Href : alookup (cols b0) k = alookup (cols (framed m0 f)) k).
  { destruct O0 as [O0 _]. rewrite O0 by assumption. unfold framed. rewrite !alookup_mset.
    destruct (N.eqb_spec cLayerSize k); [congruence|]. destruct (N.eqb_spec cLayerStack k); [congruence|]. reflexivity. }
  assert (Hfull : alookup (cols b0) k = Some v').
  { rewrite Hb0. rewrite assign_notin.
    - apply assign_in_once; assumption.
    - intros Hi. apply (Hd k); apply fkeys_in; split; try assumption.
      apply in_map_iff. exists (k, v'). split; [reflexivity|exact Hin']. }
  rewrite <- Href, Hfull. destruct Hrel as [->|Hp]; [left; reflexivity|].
  right. right. exists v, v'. repeat split; assumption.
Qed.

(* ==== every capture length of a well-formed frame ==== *)
Definition hdrs (f : frame) (j : nat) : bytes := concat (map lhdr (firstn j (frame_chain f))).
Definition lay (f : frame) (j : nat) : layer := nth j (frame_chain f) dummy_layer.
(* the layers reported: the frame's first k layers, for some k, with one size each *)
Definition codes (f : frame) : list N := map (fun x => layer_code (fst x)) (frame_layers f).
Definition sizes (f : frame) : list N := map snd (frame_layers f).
(* ... one size per layer, and all sizes but possibly the last one (the header the capture ends in) are the true sizes *)
Definition layers_ok (m : msg) (f : frame) : Prop :=
  exists k, mgetLI m cLayerStack = firstn k (codes f) /\ length (mgetLI m cLayerSize) = length (mgetLI m cLayerStack) /\
            firstn (k - 1) (mgetLI m cLayerSize) = firstn (k - 1) (sizes f).
Fixpoint vlan_ets (vs : list N) (final : N) : list N :=
  match vs with [] => [] | v :: r => head_et r final :: vlan_ets r final end.
Definition etypes (f : frame) : list N :=
  head_et (fVlans f) (after_et f) :: vlan_ets (fVlans f) (after_et f) ++
  match fMpls f with [] => [] | _ => [l3_etype (fOuter f)] end.
Definition tag_val (f : frame) (k : N) (v : pval) : Prop :=
  (k = cVlanId /\ exists t, In t (fVlans f) /\ v = VI t) \/ (k = cEtype /\ exists e, In e (etypes f) /\ v = VI e).
Definition tags_ok (m0 m : msg) (f : frame) : Prop :=
  forall k, k = cEtype \/ k = cVlanId ->
    alookup (cols m) k = alookup (cols m0) k \/ exists v, alookup (cols m) k = Some v /\ tag_val f k v.

(* every column written by a header that lies COMPLETELY inside the first n bytes has the complete frame's value *)
Definition complete_ok (m0 m : msg) (f : frame) (n : nat) : Prop :=
  forall j k, (j <= length (frame_chain f))%nat -> (length (hdrs f j) <= n)%nat ->
    In k (fkeys (applied false (firstn j (frame_chain f)))) ->
    alookup (cols m) k = alookup (cols (framed m0 f)) k.
Definition cut_ok (m0 : msg) (f : frame) (data : bytes) : Prop :=
  exists m, parse_packet empty_pcfg m0 data = Ok m /\ cols_ok m0 m f /\ layers_ok m f /\ complete_ok m0 m f (length data) /\
            tags_ok m0 m f.

Definition lsig (l : layer) : parser * N := (lp l, lenN (lhdr l)).
Lemma run_layers_ls q : forall e b ls e' b' ls',
  run_layers e b ls q = Some (e', b', ls') -> ls' = ls ++ map lsig q.
Proof.
  induction q as [|l r IH]; intros e b ls e' b' ls' H; cbn [run_layers map] in *.
  - inversion H; subst. rewrite app_nil_r. reflexivity.
  - destruct (lneeds l && negb e && negb match mgetLB b cRhAddrs with [] => true | _ :: _ => false end); [discriminate|].
    apply IH in H. rewrite H, <- app_assoc. reflexivity.
Qed.
Lemma frame_layers_sig f : wf_frame f = true -> frame_layers f = map lsig (frame_chain f).
Proof. intros Hwf. destruct (frame_run f Hwf) as (e0 & b0 & R0 & _). apply run_layers_ls in R0. exact R0. Qed.

Lemma firstn_S_nth {A} (l : list A) j d : (j < length l)%nat -> firstn (S j) l = firstn j l ++ [nth j l d].
Proof.
  revert j. induction l as [|x r IH]; intros j H; [cbn in H; lia|]. destruct j as [|j]; [reflexivity|].
  change (firstn (S (S j)) (x :: r)) with (x :: firstn (S j) r). cbn [firstn nth app]. f_equal. apply IH. cbn [length] in H. lia.
Qed.

Lemma stop_layers m0 f j e b ls m : wf_frame f = true ->
  run_layers false m0 [] (firstn j (frame_chain f)) = Some (e, b, ls) -> Inv m b ls -> layers_ok m f.
Proof.
  intros Hwf Hrun (H1 & H2 & _). apply run_layers_ls in Hrun. cbn [app] in Hrun. subst ls.
  exists j. split; [|split; [rewrite H1, H2, !map_length; reflexivity|]].
  - rewrite H1. unfold codes. rewrite (frame_layers_sig f Hwf), firstn_map, firstn_map. reflexivity.
  - rewrite H2. unfold sizes. rewrite (frame_layers_sig f Hwf), <- !firstn_map, firstn_firstn.
    replace (Nat.min (j - 1) j) with (j - 1)%nat by lia. reflexivity.
Qed.

Lemma step_layers m0 f j e b b' ls m size : wf_frame f = true -> (j < length (frame_chain f))%nat ->
  run_layers false m0 [] (firstn j (frame_chain f)) = Some (e, b, ls) ->
  Inv m b' (ls ++ [(lp (lay f j), size)]) -> layers_ok m f.
Proof.
  intros Hwf Hj Hrun (H1 & H2 & _). apply run_layers_ls in Hrun. cbn [app] in Hrun. subst ls.
  exists (S j). split; [|split; [rewrite H1, H2, !map_length; reflexivity|]].
  - rewrite H1. unfold codes. rewrite (frame_layers_sig f Hwf), map_map.
    rewrite (firstn_S_nth _ j (layer_code (lp dummy_layer))) by (rewrite map_length; exact Hj).
    rewrite map_app, map_map. cbn [map fst]. rewrite firstn_map. f_equal. unfold lay.
    f_equal. symmetry. exact (map_nth (fun x => layer_code (fst (lsig x))) (frame_chain f) dummy_layer j).
  - rewrite H2. cbn [Nat.sub]. rewrite Nat.sub_0_r. unfold sizes. rewrite (frame_layers_sig f Hwf), map_app, <- !firstn_map.
    set (T := map snd (map lsig (frame_chain f))).
    assert (HT : length (firstn j T) = j) by (rewrite firstn_length; unfold T; rewrite !map_length; lia).
    rewrite <- HT at 1. rewrite firstn_exact. reflexivity.
Qed.

Lemma frame_prefix_run m0 f j : wf_frame f = true -> base_ok m0 ->
  exists e b ls, run_layers false m0 [] (firstn j (frame_chain f)) = Some (e, b, ls).
Proof.
  intros Hwf (_ & _ & Hrh). destruct (frame_run_on m0 f Hwf Hrh) as (e0 & b0 & R0 & _).
  destruct (run_layers_firstn _ j _ _ _ _ R0) as ([[e b] ls] & R). exists e, b, ls. exact R.
Qed.

Lemma frame_needs m0 f j e b ls : wf_frame f = true -> base_ok m0 -> (j < length (frame_chain f))%nat ->
  run_layers false m0 [] (firstn j (frame_chain f)) = Some (e, b, ls) ->
  lneeds (lay f j) = true -> e = false -> mgetLB b cRhAddrs = [].
Proof.
  intros Hwf (_ & _ & Hrh) Hj Hrun Hn He. destruct (frame_run_on m0 f Hwf Hrh) as (e0 & b0 & R0 & _).
  rewrite (nth_split (frame_chain f) j dummy_layer Hj) in R0. rewrite run_layers_app, Hrun in R0.
  cbn [run_layers] in R0. fold (lay f j) in R0. rewrite Hn, He in R0. cbn [andb negb] in R0.
  destruct (mgetLB b cRhAddrs); [reflexivity|discriminate].
Qed.

Lemma last_next_firstn_S layers : forall j p, chained p layers -> (j < length layers)%nat ->
  last_next p (firstn (S j) layers) = lnext (nth j layers dummy_layer).
Proof.
  induction layers as [|l q IH]; intros j p H Hj; [cbn in Hj; lia|].
  cbn [chained] in H. destruct H as [H1 H2]. destruct j as [|j]; [reflexivity|].
  cbn [length] in Hj. change (firstn (S (S j)) (l :: q)) with (l :: firstn (S j) q).
  unfold last_next. cbn [map]. rewrite last_cons. cbn [nth]. apply IH; [exact H2|lia].
Qed.

Lemma hdrs_S f j : (j < length (frame_chain f))%nat -> hdrs f (S j) = hdrs f j ++ lhdr (lay f j).
Proof.
  intros Hj. unfold hdrs, lay. generalize (frame_chain f) j Hj. clear.
  induction l as [|x r IH]; intros j Hj; [cbn in Hj; lia|]. destruct j as [|j]; [cbn; rewrite app_nil_r; reflexivity|].
  change (firstn (S (S j)) (x :: r)) with (x :: firstn (S j) r). cbn [map concat firstn nth]. rewrite <- app_assoc. f_equal.
  apply IH. cbn [length] in Hj. lia.
Qed.

Lemma peek_cut c (x y : bytes) : (1 <= c)%nat -> x <> [] -> peek_etype (firstn c x) = peek_etype (x ++ y).
Proof. intros Hc Hx. destruct c; [lia|]. destruct x; [congruence|reflexivity]. Qed.

(* the capture ends somewhere in header j, at least one byte into it: what lies in front of the cut *)
Lemma frame_cut_bytes f j c : wf_frame f = true -> (j < length (frame_chain f))%nat -> (c <= length (lhdr (lay f j)))%nat ->
  firstn (length (hdrs f j) + c) (encode_frame f) = hdrs f j ++ firstn c (lhdr (lay f j)).
Proof.
  intros Hwf Hj Hc. rewrite encode_frame_chain. rewrite (nth_split (frame_chain f) j dummy_layer Hj) at 1.
  rewrite map_app, concat_app. cbn [map concat]. rewrite <- !app_assoc. fold (hdrs f j) (lay f j).
  rewrite firstn_app_len. f_equal. rewrite firstn_app. replace (c - length (lhdr (lay f j)))%nat with 0%nat by lia.
  cbn [firstn]. apply app_nil_r.
Qed.

Lemma frame_prefix_contracts f j c : wf_frame f = true -> (j < length (frame_chain f))%nat ->
  (1 <= c)%nat -> lhdr (lay f j) <> [] ->
  contracts (firstn j (frame_chain f)) (firstn c (lhdr (lay f j))).
Proof.
  intros Hwf Hj Hc Hne. eapply contracts_firstn; [apply frame_contracts; exact Hwf|].
  rewrite (nth_split (frame_chain f) j dummy_layer Hj) at 1.
  replace (skipn j (firstn j (frame_chain f) ++ nth j (frame_chain f) dummy_layer :: skipn (S j) (frame_chain f)))
    with (lay f j :: skipn (S j) (frame_chain f)).
  2:{ symmetry. rewrite skipn_app. rewrite skipn_all2 by (rewrite firstn_length; lia).
      rewrite firstn_length. replace (j - Nat.min j (length (frame_chain f)))%nat with 0%nat by lia. reflexivity. }
  cbn [map concat]. rewrite <- app_assoc. apply peek_cut; assumption.
Qed.

(* ---- the two columns that are written by several headers: the ethertype and the VLAN id ----
   Whatever a capture reports there is a TRUE ethertype field / VLAN tag of the frame (one of a header in front of the
   IP header), or what the base message had. *)
Lemma vlan_tag_vals vs final k v : In (k, v) (flat_map lasg (vlan_chain vs final)) ->
  (k = cVlanId /\ exists t, In t vs /\ v = VI t) \/ (k = cEtype /\ exists e, In e (vlan_ets vs final) /\ v = VI e).
Proof.
  induction vs as [|t r IH]; intros H; [destruct H|]. cbn [vlan_chain flat_map vlan_layer mk lasg app In] in H.
  destruct H as [H|[H|H]].
  - inversion H; subst. left. split; [reflexivity|]. exists t. split; [left; reflexivity|reflexivity].
  - inversion H; subst. right. split; [reflexivity|]. exists (head_et r final). split; [left; reflexivity|reflexivity].
  - destruct (IH H) as [(E & t0 & Ht & Ev)|(E & e & He & Ev)].
    + left. split; [exact E|]. exists t0. split; [right; exact Ht|exact Ev].
    + right. split; [exact E|]. exists e. split; [right; exact He|exact Ev].
Qed.

Lemma front_tag_vals f k v : In (k, v) (flat_map lasg (front_chain f)) -> okk k = false -> tag_val f k v.
Proof.
  unfold front_chain. cbn [flat_map eth_layer mk lasg app In]. intros H Hok.
  destruct H as [H|[H|[H|H]]]; try (inversion H; subst; discriminate Hok).
  - inversion H; subst. right. split; [reflexivity|]. exists (head_et (fVlans f) (after_et f)). split; [unfold etypes; left; reflexivity|reflexivity].
  - rewrite flat_map_app in H. apply in_app_or in H. destruct H as [H|H].
    + destruct (vlan_tag_vals _ _ _ _ H) as [(E & t & Ht & Ev)|(E & e & He & Ev)].
      * left. split; [exact E|]. exists t. split; assumption.
      * right. split; [exact E|]. exists e. split; [unfold etypes; right; apply in_or_app; left; exact He|exact Ev].
    + unfold mpls_chain in H. destruct (fMpls f) as [|x ls] eqn:Em; [destruct H|].
      cbn [flat_map mpls_layer mk lasg app In] in H. destruct H as [H|[H|[H|[]]]]; try (inversion H; subst; discriminate Hok).
      inversion H; subst. right. split; [reflexivity|]. exists (l3_etype (fOuter f)). split; [|reflexivity].
      unfold etypes. rewrite Em. right. apply in_or_app. right. left. reflexivity.
Qed.

Lemma l3_all_okk x next plen : Forall (fun kv => okk (fst kv) = true) (flat_map lasg (l3_chain x next plen)).
Proof.
  destruct x as [h|h]; cbn [l3_chain flat_map ip4_layer ip6_layer mk lasg app].
  - unfold ip4_assign. repeat constructor.
  - unfold ip6_assign, v6_ext_chain. destruct (i6Srh h) as [s|]; destruct (i6Frag h) as [[[o fl] id]|];
      cbn [flat_map srh_layer frag_layer frag_assign mk lasg app]; repeat constructor.
Qed.
Lemma l4_all_okk x : Forall (fun kv => okk (fst kv) = true) (flat_map lasg (l4_chain x)).
Proof. destruct x; cbn [l4_chain flat_map mk lasg l4_assign app]; repeat constructor. Qed.

Lemma tail_applied_okk f e0 : Forall (fun kv => okk (fst kv) = true) (applied e0 (tail_chain f)).
Proof.
  assert (Hin : Forall (fun kv => okk (fst kv) = true) (flat_map lasg (inner_chain f))).
  { unfold inner_chain. rewrite flat_map_app. apply Forall_app. split; [apply l3_all_okk|apply l4_all_okk]. }
  assert (G : forall q e, Forall (fun kv => okk (fst kv) = true) (flat_map lasg q) -> Forall (fun kv => okk (fst kv) = true) (applied e q)).
  { intros q e H. rewrite Forall_forall in *. intros kv Hkv. apply H. eapply applied_incl. exact Hkv. }
  unfold tail_chain. destruct (fTun f).
  - apply G, l4_all_okk.
  - apply G. cbn [flat_map gre_layer mk lasg app]. exact Hin.
  - cbn [applied gre_layer eth_layer mk lasg lp lnext].
    replace (encap_next e0 PGRE (next_etype 25944)) with true by (destruct e0; reflexivity).
    cbn [encap_next orb]. rewrite applied_true. destruct e0; apply Forall_nil.
  - apply G. exact Hin.
Qed.

Lemma applied_nonokk f k v : In (k, v) (applied false (frame_chain f)) -> okk k = false ->
  In (k, v) (flat_map lasg (front_chain f)).
Proof.
  unfold frame_chain. rewrite !applied_app. intros H Hok. apply in_app_or in H. destruct H as [H|H].
  - eapply applied_incl. exact H.
  - exfalso. apply in_app_or in H. destruct H as [H|H].
    + apply applied_incl in H. pose proof (l3_all_okk (fOuter f) (outer_next f) (lenN (tail_bytes f))) as A.
      rewrite Forall_forall in A. specialize (A _ H). cbn [fst] in A. congruence.
    + pose proof (tail_applied_okk f (eafter (eafter false (front_chain f)) (l3_chain (fOuter f) (outer_next f) (lenN (tail_bytes f))))) as A.
      rewrite Forall_forall in A. specialize (A _ H). cbn [fst] in A. congruence.
Qed.

Lemma applied_prefix_in (q : list layer) j kv : In kv (applied false (firstn j q)) -> In kv (applied false q).
Proof. intros H. rewrite <- (firstn_skipn j q). rewrite applied_app. apply in_or_app. left. exact H. Qed.

Lemma assign_lookup_cases L : forall m k,
  alookup (cols (assign L m)) k = alookup (cols m) k \/ exists v, In (k, v) L /\ alookup (cols (assign L m)) k = Some v.
Proof.
  induction L as [|[k1 v1] r IH]; intros m k; [left; reflexivity|]. cbn [assign fold_left fst snd].
  change (fold_left (fun m0 kv => mset m0 (fst kv) (snd kv)) r (mset m k1 v1)) with (assign r (mset m k1 v1)).
  destruct (IH (mset m k1 v1) k) as [H|(v & Hin & H)].
  - rewrite H, alookup_mset. destruct (N.eqb_spec k1 k) as [->|Hne]; [|left; reflexivity].
    right. exists v1. split; [left; reflexivity|reflexivity].
  - right. exists v. split; [right; exact Hin|exact H].
Qed.

Lemma tags_core m0 f j k : okk k = false ->
  let b := assign (applied false (firstn j (frame_chain f))) m0 in
  alookup (cols b) k = alookup (cols m0) k \/ exists v, alookup (cols b) k = Some v /\ tag_val f k v.
Proof.
  intros Hok b. unfold b.
  destruct (assign_lookup_cases (applied false (firstn j (frame_chain f))) m0 k) as [H|(v & Hin & H)]; [left; exact H|].
  right. exists v. split; [exact H|]. apply front_tag_vals; [|exact Hok].
  apply applied_nonokk; [|exact Hok]. eapply applied_prefix_in. exact Hin.
Qed.

Lemma stop_tags m0 f j e b ls m :
  run_layers false m0 [] (firstn j (frame_chain f)) = Some (e, b, ls) -> others_eq m b -> tags_ok m0 m f.
Proof.
  intros Hrun [Ho _] k Hk.
  assert (Hok : okk k = false) by (destruct Hk as [-> | ->]; reflexivity).
  rewrite Ho by (destruct Hk as [-> | ->]; discriminate).
  apply run_layers_applied in Hrun. destruct Hrun as [Hb _]. rewrite Hb. apply tags_core. exact Hok.
Qed.

Lemma step_tags m0 f j A L e b ls m :
  run_layers false m0 [] (firstn j (frame_chain f)) = Some (e, b, ls) -> sub_asg A L ->
  others_eq m (if e then b else assign A b) -> tags_ok m0 m f.
Proof.
  intros Hrun [_ HA] [Ho _] k Hk.
  assert (Hok : okk k = false) by (destruct Hk as [-> | ->]; reflexivity).
  assert (Hnot : ~ In k (map fst A)).
  { intros Hi. apply in_map_iff in Hi. destruct Hi as ([k0 v] & E & Hin). cbn [fst] in E. subst k0.
    destruct (HA k v Hin) as [H _]. congruence. }
  rewrite Ho by (destruct Hk as [-> | ->]; discriminate).
  replace (alookup (cols (if e then b else assign A b)) k) with (alookup (cols b) k)
    by (destruct e; [reflexivity|symmetry; apply assign_notin; exact Hnot]).
  apply run_layers_applied in Hrun. destruct Hrun as [Hb _]. rewrite Hb. apply tags_core. exact Hok.
Qed.

(* ---- headers completely inside the capture ---- *)
Lemma contracts_nonempty layers : forall rest, contracts layers rest ->
  Forall (fun l => (1 <= length (lhdr l))%nat /\ keys_ok (lasg l)) layers.
Proof.
  induction layers as [|l r IH]; intros rest H; [apply Forall_nil|]. cbn [contracts] in H. destruct H as [Hc Hr].
  destruct (Hc _ eq_refl) as (Hk & _ & (Hl & _) & _). apply Forall_cons; [|eapply IH; exact Hr].
  split; [unfold lenN in Hl; lia|exact Hk].
Qed.

Lemma hdrs_lt f j1 j2 : wf_frame f = true -> (j1 < j2 <= length (frame_chain f))%nat ->
  (length (hdrs f j1) < length (hdrs f j2))%nat.
Proof.
  intros Hwf H. pose proof (contracts_nonempty _ _ (frame_contracts f Hwf)) as Hne. rewrite Forall_forall in Hne.
  assert (G : forall d, (j1 + S d <= length (frame_chain f))%nat -> (length (hdrs f j1) < length (hdrs f (j1 + S d)))%nat).
  { induction d as [|d IH]; intros Hd.
    - replace (j1 + 1)%nat with (S j1) by lia. rewrite hdrs_S by lia. rewrite app_length.
      destruct (Hne (lay f j1)) as [H1 _]; [apply nth_In; lia|lia].
    - replace (j1 + S (S d))%nat with (S (j1 + S d)) by lia. rewrite hdrs_S by lia. rewrite app_length.
      specialize (IH ltac:(lia)). lia. }
  replace j2 with (j1 + S (j2 - j1 - 1))%nat by lia. apply G. lia.
Qed.

Lemma applied_firstn_incl (q : list layer) j1 j2 k : (j1 <= j2)%nat ->
  In k (fkeys (applied false (firstn j1 q))) -> In k (fkeys (applied false (firstn j2 q))).
Proof.
  intros H Hin. rewrite <- (firstn_skipn j1 (firstn j2 q)). rewrite firstn_firstn. replace (Nat.min j1 j2) with j1 by lia.
  rewrite applied_app, fkeys_app. apply in_or_app. left. exact Hin.
Qed.

Lemma applied_keys_ok q : Forall (fun l => keys_ok (lasg l)) q -> forall e k, In k (map fst (applied e q)) ->
  k <> cLayerStack /\ k <> cLayerSize.
Proof.
  intros Hq e k Hin. apply in_map_iff in Hin. destruct Hin as (kv & <- & Hkv). apply applied_incl in Hkv.
  apply in_flat_map in Hkv. destruct Hkv as (l & Hl & Hkv). rewrite Forall_forall in Hq. specialize (Hq l Hl).
  unfold keys_ok in Hq. rewrite Forall_forall in Hq. apply Hq. exact Hkv.
Qed.

Lemma frame_keys_ok f : wf_frame f = true -> Forall (fun l => keys_ok (lasg l)) (frame_chain f).
Proof.
  intros Hwf. pose proof (contracts_nonempty _ _ (frame_contracts f Hwf)) as H. rewrite Forall_forall in *.
  intros l Hl. apply H. exact Hl.
Qed.

Lemma firstn_keys_ok f j : wf_frame f = true -> Forall (fun l => keys_ok (lasg l)) (firstn j (frame_chain f)).
Proof.
  intros Hwf. pose proof (frame_keys_ok f Hwf) as H. rewrite Forall_forall in *. intros l Hl. apply H. eapply in_firstn. exact Hl.
Qed.

(* a run of the first j' headers: whatever one of them wrote (outside a tunnel) is what the complete frame has *)
Lemma stop_complete m0 f j' e b ls m : wf_frame f = true -> base_ok m0 ->
  run_layers false m0 [] (firstn j' (frame_chain f)) = Some (e, b, ls) -> others_eq m b ->
  forall j k, (j <= j')%nat -> In k (fkeys (applied false (firstn j (frame_chain f)))) ->
    alookup (cols m) k = alookup (cols (framed m0 f)) k.
Proof.
  intros Hwf (_ & _ & Hrh) Hrun [Ho _] j k Hjj Hin.
  apply (applied_firstn_incl _ j j' k Hjj) in Hin.
  pose proof Hin as Hin'. apply fkeys_in in Hin'. destruct Hin' as [Hok Hmap].
  destruct (applied_keys_ok _ (firstn_keys_ok f j' Hwf) false k Hmap) as [K3 K4].
  rewrite Ho by assumption.
  destruct (frame_run_on m0 f Hwf Hrh) as (e0 & b0 & R0 & O0).
  pose proof (frame_applied_nodup f Hwf) as Hnd.
  rewrite <- (firstn_skipn j' (frame_chain f)) in R0, Hnd.
  rewrite applied_app, fkeys_app in Hnd. apply nodup_app in Hnd. destruct Hnd as (_ & _ & Hd).
  apply run_layers_applied in Hrun. destruct Hrun as [Hb _].
  apply run_layers_applied in R0. destruct R0 as [Hb0 _]. rewrite applied_app, assign_app, <- Hb in Hb0.
  assert (Href : alookup (cols b0) k = alookup (cols (framed m0 f)) k).
  { destruct O0 as [O0 _]. rewrite O0 by assumption. unfold framed. rewrite !alookup_mset.
    destruct (N.eqb_spec cLayerSize k); [congruence|]. destruct (N.eqb_spec cLayerStack k); [congruence|]. reflexivity. }
  rewrite <- Href, Hb0. rewrite assign_notin; [reflexivity|].
  intros Hs. apply (Hd k Hin). apply fkeys_in. split; assumption.
Qed.

Definition full_asg (A L : list (N * pval)) : Prop := forall k v, In (k, v) L -> okk k = true -> In (k, v) A.

(* ... and the same after one more header of which the capture holds enough for its parser; when the capture holds
   that header completely and the parser wrote all its columns (full_asg), the header counts as well *)
Lemma step_complete m0 f j' A e b ls m : wf_frame f = true -> base_ok m0 -> (j' < length (frame_chain f))%nat ->
  run_layers false m0 [] (firstn j' (frame_chain f)) = Some (e, b, ls) ->
  sub_asg A (lasg (lay f j')) -> others_eq m (if e then b else assign A b) ->
  forall j k, ((j <= j')%nat \/ (j = S j' /\ full_asg A (lasg (lay f j')))) ->
    In k (fkeys (applied false (firstn j (frame_chain f)))) ->
    alookup (cols m) k = alookup (cols (framed m0 f)) k.
Proof.
  intros Hwf Hbase Hj' Hrun [HndA HA] [Ho Hu] j k Hcase Hin.
  pose proof Hbase as (_ & _ & Hrh).
  destruct (frame_run_on m0 f Hwf Hrh) as (e0 & b0 & R0 & O0).
  pose proof (frame_applied_nodup f Hwf) as Hnd.
  rewrite (nth_split (frame_chain f) j' dummy_layer Hj') in R0, Hnd. fold (lay f j') in R0, Hnd.
  pose proof Hrun as Hrun'. apply run_layers_applied in Hrun'. destruct Hrun' as [Hbb He].
  apply run_layers_applied in R0. destruct R0 as [Hb0 _].
  rewrite applied_app in Hb0, Hnd. rewrite <- He in Hb0, Hnd. cbn [applied] in Hb0, Hnd.
  rewrite !assign_app in Hb0. rewrite <- Hbb in Hb0.
  rewrite !fkeys_app in Hnd. apply nodup_app in Hnd. destruct Hnd as (_ & Hnd2 & Hd1).
  apply nodup_app in Hnd2. destruct Hnd2 as (HndL & _ & Hd2).
  (* k is written by one of the first j' headers, or by header j' itself *)
  assert (Hwhere : In k (fkeys (applied false (firstn j' (frame_chain f)))) \/
                   (e = false /\ full_asg A (lasg (lay f j')) /\ In k (fkeys (lasg (lay f j'))))).
  { destruct Hcase as [Hle|[-> Hfull]]; [left; eapply applied_firstn_incl; eassumption|].
    rewrite (firstn_S_nth _ j' dummy_layer Hj') in Hin. fold (lay f j') in Hin.
    rewrite applied_app, fkeys_app in Hin. rewrite <- He in Hin. cbn [applied] in Hin. rewrite app_nil_r in Hin.
    apply in_app_or in Hin. destruct Hin as [Hin|Hin]; [left; exact Hin|]. right.
    destruct e; [cbn in Hin; destruct Hin|]. repeat split; assumption. }
  assert (Hks : k <> cLayerStack /\ k <> cLayerSize).
  { apply fkeys_in in Hin. destruct Hin as [_ Hmap]. eapply (applied_keys_ok _ (firstn_keys_ok f j Hwf)). exact Hmap. }
  destruct Hks as [K3 K4].
  assert (Href : alookup (cols b0) k = alookup (cols (framed m0 f)) k).
  { destruct O0 as [O0 _]. rewrite O0 by assumption. unfold framed. rewrite !alookup_mset.
    destruct (N.eqb_spec cLayerSize k); [congruence|]. destruct (N.eqb_spec cLayerStack k); [congruence|]. reflexivity. }
  rewrite Ho by assumption. rewrite <- Href, Hb0.
  destruct Hwhere as [Hp|(-> & Hfull & Hl)].
  - (* written in front of header j' *)
    pose proof Hp as Hp'. apply fkeys_in in Hp'. destruct Hp' as [Hok _].
    assert (HnS : ~ In k (map fst (applied (encap_next e (lp (lay f j')) (lnext (lay f j'))) (skipn (S j') (frame_chain f))))).
    { intros Hs. apply (Hd1 k Hp). apply in_or_app. right. apply fkeys_in. split; assumption. }
    assert (HnL : ~ In k (map fst (if e then [] else lasg (lay f j')))).
    { intros Hs. apply (Hd1 k Hp). apply in_or_app. left. apply fkeys_in. split; assumption. }
    rewrite (assign_notin _ _ k HnS), (assign_notin _ _ k HnL).
    destruct e; [reflexivity|]. rewrite assign_notin; [reflexivity|].
    intros Ha. apply in_map_iff in Ha. destruct Ha as ([k0 v] & Hk0 & Ha). cbn [fst] in Hk0. subst k0.
    destruct (HA k v Ha) as (_ & v' & Hin' & _). apply HnL. apply in_map_iff. exists (k, v'). split; [reflexivity|exact Hin'].
  - (* written by header j', which the capture holds completely *)
    pose proof Hl as Hl'. apply fkeys_in in Hl'. destruct Hl' as [Hok Hmap].
    apply in_map_iff in Hmap. destruct Hmap as ([k0 v'] & Hk0 & Hin'). cbn [fst] in Hk0. subst k0.
    assert (HnS : ~ In k (map fst (applied (encap_next false (lp (lay f j')) (lnext (lay f j'))) (skipn (S j') (frame_chain f))))).
    { intros Hs. apply (Hd2 k Hl). apply fkeys_in. split; assumption. }
    rewrite (assign_notin _ _ k HnS).
    rewrite (assign_in_once (lasg (lay f j')) b k v' Hin' HndL Hok).
    apply (assign_in_once A b k v'); [apply Hfull; assumption|exact HndA|exact Hok].
Qed.

Lemma hdrs_bound f j j2 n : wf_frame f = true -> (j < length (frame_chain f))%nat -> (j2 <= length (frame_chain f))%nat ->
  (length (hdrs f j2) <= n)%nat -> (n < length (hdrs f (S j)))%nat -> (j2 <= j)%nat.
Proof.
  intros Hwf Hj Hj2 Hle Hlt. destruct (Nat.le_gt_cases j2 j) as [H|H]; [exact H|exfalso].
  destruct (Nat.eq_dec j2 (S j)) as [->|Hne]; [lia|].
  pose proof (hdrs_lt f (S j) j2 Hwf ltac:(lia)). lia.
Qed.

(* ---- the three ways a capture can end ---- *)
Lemma case_short m0 f j c : wf_frame f = true -> base_ok m0 -> (j < length (frame_chain f))%nat ->
  (1 <= c < min_len (lp (lay f j)))%nat -> (c < length (lhdr (lay f j)))%nat ->
  cut_ok m0 f (hdrs f j ++ firstn c (lhdr (lay f j))).
Proof.
  intros Hwf Hbase Hj Hc Hl'. assert (Hl : (c <= length (lhdr (lay f j)))%nat) by lia.
  destruct (frame_prefix_run m0 f j Hwf Hbase) as (e & b & ls & Hrun).
  destruct (frame_chained f Hwf) as [Hch _].
  assert (Hne : lhdr (lay f j) <> []) by (intros E; rewrite E in Hl; cbn in Hl; lia).
  pose proof (frame_prefix_contracts f j c Hwf Hj ltac:(lia) Hne) as Hct.
  destruct (cut_stop m0 (firstn j (frame_chain f)) (firstn c (lhdr (lay f j))) e b ls Hbase (chained_firstn _ j _ Hch) Hct Hrun) as (m & Hp & Hinv).
  - right. rewrite (last_next_firstn _ j _ Hch Hj). fold (lay f j). rewrite firstn_length. lia.
  - exists m. split; [exact Hp|]. split; [eapply stop_columns; eassumption|]. split; [eapply stop_layers; eassumption|].
    split; [|destruct Hinv as (_ & _ & Ho); eapply stop_tags; eassumption].
    intros j2 k Hj2 Hlen Hin. destruct Hinv as (_ & _ & Ho).
    apply (stop_complete m0 f j e b ls m Hwf Hbase Hrun Ho j2 k); [|exact Hin].
    apply (hdrs_bound f j j2 (length (hdrs f j ++ firstn c (lhdr (lay f j)))) Hwf Hj Hj2 Hlen).
    rewrite hdrs_S by exact Hj. rewrite !app_length, firstn_length. lia.
Qed.

Lemma case_full m0 f j : wf_frame f = true -> base_ok m0 -> (j < length (frame_chain f))%nat ->
  lp (lay f j) <> PMPLS -> next_ok (lnext (lay f j)) -> forall x, (x = [] \/ lnext (lay f j) = PNone) -> cut_ok m0 f (hdrs f (S j) ++ x).
Proof.
  intros Hwf Hbase Hj Hm Hn x Hx.
  destruct (frame_prefix_run m0 f (S j) Hwf Hbase) as (e & b & ls & Hrun).
  destruct (frame_chained f Hwf) as [Hch _].
  assert (Hct : contracts (firstn (S j) (frame_chain f)) x).
  { eapply contracts_firstn_any; [apply frame_contracts; exact Hwf|apply frame_robust; exact Hwf|lia|].
    intros l _ Hl. cbn [Nat.sub] in Hl. rewrite Nat.sub_0_r in Hl.
    apply (nth_error_nth _ _ dummy_layer) in Hl. fold (lay f j) in Hl. subst l. exact Hm. }
  destruct (cut_stop m0 (firstn (S j) (frame_chain f)) x e b ls Hbase (chained_firstn _ (S j) _ Hch) Hct Hrun) as (m & Hp & Hinv).
  - rewrite (last_next_firstn_S _ j _ Hch Hj). fold (lay f j).
    destruct Hx as [->|Hx]; [|left; exact Hx]. destruct Hn as [Hn|Hn]; [left; exact Hn|right; cbn [length]; exact Hn].
  - exists m. split; [exact Hp|]. split; [eapply stop_columns; eassumption|]. split; [eapply stop_layers; eassumption|].
    split; [|destruct Hinv as (_ & _ & Ho); eapply stop_tags; eassumption].
    intros j2 k Hj2 Hlen Hin. destruct Hinv as (_ & _ & Ho).
    destruct (Nat.le_gt_cases j2 (S j)) as [Hle|Hgt]; [apply (stop_complete m0 f (S j) e b ls m Hwf Hbase Hrun Ho j2 k Hle Hin)|].
    (* a header behind header j: only when header j is the last one and x is what follows the headers *)
    destruct Hx as [->|Hx].
    + exfalso. rewrite app_nil_r in Hlen. pose proof (hdrs_lt f (S j) j2 Hwf ltac:(lia)). lia.
    + exfalso. pose proof (hdrs_lt f (S j) j2 Hwf ltac:(lia)) as Hlt.
      (* header j is followed by another header, whose parser is named by lnext: not PNone *)
      assert (Hsj : (S j < length (frame_chain f))%nat) by lia.
      pose proof (last_next_firstn_S _ j _ Hch Hj) as E1. pose proof (last_next_firstn _ (S j) _ Hch Hsj) as E2.
      rewrite E1 in E2. fold (lay f j) in E2. rewrite Hx in E2.
      pose proof (contracts_nonempty _ _ (frame_contracts f Hwf)) as Hne. rewrite Forall_forall in Hne.
      pose proof (frame_contracts f Hwf) as Hc.
      assert (Hlp : lp (nth (S j) (frame_chain f) dummy_layer) <> PNone).
      { clear -Hc Hsj. revert Hsj. generalize (S j). generalize (frame_rest f) Hc. generalize (frame_chain f).
        induction l as [|x r IH]; intros rest Hct i Hi; [cbn in Hi; lia|]. cbn [contracts] in Hct. destruct Hct as [Hx Hr].
        destruct i; [cbn [nth]; destruct (Hx _ eq_refl) as (_ & Hp & _); exact Hp|]. cbn [nth]. apply (IH rest Hr). cbn in Hi. lia. }
      congruence.
Qed.

Lemma case_step m0 f j cut A size nx needs : wf_frame f = true -> base_ok m0 -> (j < length (frame_chain f))%nat ->
  contracts (firstn j (frame_chain f)) cut ->
  step_contract (lp (lay f j)) cut A size nx needs -> (needs = true -> lneeds (lay f j) = true) ->
  (nx = PNone \/ lenN cut < size) -> sub_asg A (lasg (lay f j)) ->
  ((length cut < length (lhdr (lay f j)))%nat \/ (length cut = length (lhdr (lay f j)) /\ full_asg A (lasg (lay f j)))) ->
  cut_ok m0 f (hdrs f j ++ cut).
Proof.
  intros Hwf Hbase Hj Hct Hstep Hnd Hend Hsub Hwhole.
  destruct (frame_prefix_run m0 f j Hwf Hbase) as (e & b & ls & Hrun).
  destruct (frame_chained f Hwf) as [Hch _].
  pose proof (last_next_firstn _ j _ Hch Hj) as Hp. fold (lay f j) in Hp.
  destruct (cut_step m0 (firstn j (frame_chain f)) cut e b ls A size nx needs Hbase (chained_firstn _ j _ Hch) Hct Hrun) as (m & Hpp & Hinv).
  - rewrite Hp. exact Hstep.
  - intros H1 H2. eapply frame_needs; eauto.
  - exact Hend.
  - exists m. split; [exact Hpp|]. split; [|split; [|split]].
    4:{ destruct Hinv as (_ & _ & Ho). eapply step_tags; eassumption. }
    + destruct Hinv as (_ & _ & Ho). eapply step_columns; eauto.
    + rewrite Hp in Hinv. eapply step_layers; eauto.
    + intros j2 k Hj2 Hlen Hin. destruct Hinv as (_ & _ & Ho).
      apply (step_complete m0 f j A e b ls m Hwf Hbase Hj Hrun Hsub Ho j2 k); [|exact Hin].
      rewrite app_length in Hlen.
      destruct Hwhole as [Hshort|[Heq Hfull]].
      * left. apply (hdrs_bound f j j2 (length (hdrs f j) + length cut) Hwf Hj Hj2 Hlen).
        rewrite hdrs_S by exact Hj. rewrite app_length. lia.
      * destruct (Nat.le_gt_cases j2 j) as [Hle|Hgt]; [left; exact Hle|right]. split; [|exact Hfull].
        destruct (Nat.eq_dec j2 (S j)) as [->|Hne]; [reflexivity|exfalso].
        pose proof (hdrs_lt f (S j) j2 Hwf ltac:(lia)) as Hlt. rewrite hdrs_S in Hlt by exact Hj. rewrite app_length in Hlt. lia.
Qed.

Ltac Zify.zify_post_hook ::= Z.div_mod_to_equations.

Lemma firstn_full {A} (l : list A) c : (length l <= c)%nat -> firstn c l = l.
Proof. intros H. apply firstn_all2. exact H. Qed.

Lemma sub_asg_refl L : NoDup (fkeys L) -> Forall (fun kv => okk (fst kv) = true) L -> sub_asg L L.
Proof.
  intros Hn Hf. split; [exact Hn|]. intros k v Hin. rewrite Forall_forall in Hf. split; [apply (Hf (k, v) Hin)|].
  exists v. split; [exact Hin|left; reflexivity].
Qed.

(* ---- the header the capture ends in is complete and is not an MPLS stack ---- *)
Lemma kind_full m0 f j : wf_frame f = true -> base_ok m0 -> (j < length (frame_chain f))%nat ->
  lp (lay f j) <> PMPLS -> next_ok (lnext (lay f j)) -> cut_ok m0 f (hdrs f j ++ lhdr (lay f j)).
Proof.
  intros Hwf Hbase Hj Hm Hn. rewrite <- hdrs_S by exact Hj. rewrite <- (app_nil_r (hdrs f (S j))).
  apply case_full; try assumption. left; reflexivity.
Qed.

(* ---- MPLS ---- *)
Lemma kind_mpls m0 f j c ls e : wf_frame f = true -> base_ok m0 -> (j < length (frame_chain f))%nat ->
  lay f j = mpls_layer ls e -> ls <> [] -> forallb wf_label ls = true -> lenN ls <= 1000 ->
  (1 <= c <= length (enc_mpls ls))%nat -> cut_ok m0 f (hdrs f j ++ firstn c (enc_mpls ls)).
Proof.
  intros Hwf Hbase Hj El Hne Hwl Hlen Hc.
  assert (Hh : lhdr (lay f j) = enc_mpls ls) by (rewrite El; reflexivity).
  assert (Hlp : lp (lay f j) = PMPLS) by (rewrite El; reflexivity).
  assert (Hlen4 : length (enc_mpls ls) = (4 * length ls)%nat) by (rewrite enc_mpls_bytes; apply mpls_bytes_len).
  assert (Hls : (1 <= length ls)%nat) by (destruct ls; [congruence|cbn [length]; lia]).
  destruct (Nat.lt_ge_cases c 4) as [Hlt|Hge].
  { rewrite <- Hh. apply case_short; try assumption; rewrite ?Hlp, ?Hh; cbn [min_len]; lia. }
  assert (Hct : contracts (firstn j (frame_chain f)) (firstn c (enc_mpls ls))).
  { rewrite <- Hh. apply frame_prefix_contracts; try assumption; [lia|]. rewrite Hh. intros E. rewrite E in Hlen4. cbn in Hlen4. lia. }
  destruct (Nat.eq_dec c (4 * length ls)) as [Hfull|Hpart].
  - (* the whole stack, nothing behind it *)
    rewrite firstn_full in * by lia.
    apply (case_step m0 f j (enc_mpls ls) [(cMplsLabel, VLI (map fst ls)); (cMplsTtl, VLI (map snd ls))] (4 * lenN ls) PNone false);
      try assumption.
    + rewrite Hlp. split; [keys|]. split; [discriminate|]. split; [lia|]. intros base m _.
      pose proof (mpls_step_nopeek [] base m ls [] Hne Hwl eq_refl) as S0. rewrite app_nil_r in S0. exact S0.
    + discriminate.
    + left; reflexivity.
    + rewrite El. cbn [mpls_layer mk lasg]. split; [apply nodupb_ok; reflexivity|].
      intros k v [H|[H|[]]]; inversion H; subst; (split; [reflexivity|]); eexists; (split; [|left; reflexivity]); cbn; tauto.
    + right. split; [rewrite Hh; reflexivity|]. rewrite El. cbn [mpls_layer mk lasg]. intros k v Hin Hok.
      destruct Hin as [H|[H|[H|[]]]]; inversion H; subst; [discriminate Hok|left; reflexivity|right; left; reflexivity].
  - (* k complete entries, 1 <= k < n, and r < 4 bytes of the next one *)
    set (k := (c / 4)%nat). set (r := (c mod 4)%nat).
    assert (Hk : (1 <= k < length ls)%nat) by (unfold k; lia).
    assert (Hcut : firstn c (enc_mpls ls) = mpls_open (firstn k ls) ++ firstn r (mpls_bytes (skipn k ls))).
    { rewrite enc_mpls_bytes, (mpls_bytes_split ls k) by lia.
      replace c with (length (mpls_open (firstn k ls)) + r)%nat at 1 by (rewrite mpls_open_len, firstn_length; unfold k, r; lia).
      apply firstn_app_len. }
    rewrite Hcut in *.
    assert (Ht : (length (firstn r (mpls_bytes (skipn k ls))) < 4)%nat) by (rewrite firstn_length; unfold r; lia).
    apply (case_step m0 f j _ [(cMplsLabel, VLI (map fst (firstn k ls))); (cMplsTtl, VLI (map snd (firstn k ls)))] (4 * N.of_nat k) PNone false);
      try assumption.
    + rewrite Hlp. split; [keys|]. split; [discriminate|]. split; [unfold lenN in Hlen; lia|]. intros base m _.
      apply mpls_step_partial; assumption.
    + discriminate.
    + left; reflexivity.
    + rewrite El. cbn [mpls_layer mk lasg]. split; [apply nodupb_ok; reflexivity|].
      intros k0 v [H|[H|[]]]; inversion H; subst; (split; [reflexivity|]); eexists; (split; [|right]).
      * right; left; reflexivity.
      * cbn [vprefix]. exists k. symmetry. apply firstn_map.
      * right; right; left; reflexivity.
      * cbn [vprefix]. exists k. symmetry. apply firstn_map.
    + left. rewrite Hh, <- Hcut, firstn_length. lia.
Qed.

(* ---- SRv6 ---- *)
Lemma concat16_len (segs : list bytes) : forallb (fun x => Nat.eqb (length x) 16) segs = true ->
  forall k, (k <= length segs)%nat -> length (concat (firstn k segs)) = (16 * k)%nat.
Proof.
  intros H k Hk. rewrite concat_len16.
  - rewrite firstn_length. lia.
  - apply forallb_forall. intros x Hx. apply in_firstn in Hx. rewrite forallb_forall in H. apply H. exact Hx.
Qed.

Lemma kind_srh m0 f j c next s : wf_frame f = true -> base_ok m0 -> (j < length (frame_chain f))%nat ->
  lay f j = srh_layer next s -> wf_srh s = true ->
  (1 <= c <= length (enc_srh next s))%nat -> cut_ok m0 f (hdrs f j ++ firstn c (enc_srh next s)).
Proof.
  intros Hwf Hbase Hj El Hws Hc. destruct s as [sl segs].
  assert (Hh : lhdr (lay f j) = enc_srh next (sl, segs)) by (rewrite El; reflexivity).
  assert (Hlp : lp (lay f j) = PV6Route) by (rewrite El; reflexivity).
  pose proof (srh_len next (sl, segs) Hws) as HlenN. cbn [snd] in HlenN.
  assert (Hlen : length (enc_srh next (sl, segs)) = (8 + 16 * length segs)%nat) by (unfold lenN in HlenN; lia).
  pose proof Hws as Hws'. unfold wf_srh in Hws'. cbn [snd] in Hws'. apply andb_prop in Hws'. destruct Hws' as [Hn127 H16]. apply N.leb_le in Hn127.
  destruct (Nat.lt_ge_cases c 8) as [Hlt|Hge].
  { rewrite <- Hh. apply case_short; try assumption; rewrite ?Hlp, ?Hh; cbn [min_len]; lia. }
  destruct (Nat.eq_dec c (8 + 16 * length segs)) as [Hfull|Hpart].
  - rewrite firstn_full by lia. rewrite <- Hh. apply kind_full; try assumption; [rewrite Hlp; discriminate|].
    rewrite El. cbn [srh_layer mk lnext]. apply next_proto_ok.
  - assert (Hct : contracts (firstn j (frame_chain f)) (firstn c (enc_srh next (sl, segs)))).
    { rewrite <- Hh. apply frame_prefix_contracts; try assumption; [lia|]. rewrite Hh. intros E. rewrite E in Hlen. cbn in Hlen. lia. }
    set (k := ((c - 8) / 16)%nat). set (r := ((c - 8) mod 16)%nat).
    assert (Hk : (k < length segs)%nat) by (unfold k; lia).
    assert (Hcut : firstn c (enc_srh next (sl, segs)) =
                   srh8 next sl segs ++ concat (firstn k segs) ++ firstn r (concat (skipn k segs))).
    { unfold enc_srh. fold (srh8 next sl segs).
      replace c with (length (srh8 next sl segs) + (c - 8))%nat at 1 by (cbn [srh8 length]; lia).
      rewrite firstn_app_len. f_equal.
      rewrite <- (firstn_skipn k segs) at 1. rewrite concat_app.
      replace (c - 8)%nat with (length (concat (firstn k segs)) + r)%nat by (rewrite (concat16_len segs H16 k) by lia; unfold k, r; lia).
      apply firstn_app_len. }
    rewrite Hcut in *.
    assert (Ht : (length (firstn r (concat (skipn k segs))) < 16)%nat) by (rewrite firstn_length; unfold r; lia).
    apply (case_step m0 f j _ [(cRhSegLeft, VI sl); (cRhAddrs, VLB (firstn k segs))] (8 + 16 * lenN segs) (next_proto next) true);
      try assumption.
    + rewrite Hlp. split; [keys|]. split; [discriminate|]. split; [lia|]. intros base m Hm.
      destruct base.
      * apply srh_step; try assumption. apply Hm; reflexivity.
      * (* encapsulated: nothing is read from the message *)
        cbn [run_parser]. unfold srh8.
        set (d := [next; 2 * lenN segs; 4; sl; (lenN segs + 255) mod 256; 0; 0; 0] ++ concat (firstn k segs) ++ firstn r (concat (skipn k segs))).
        replace (Nat.ltb (length d) 8) with false by (symmetry; apply Nat.ltb_ge; unfold d; rewrite app_length; cbn [length]; lia).
        change (byte_at d 0) with next. change (byte_at d 1) with (2 * lenN segs).
        replace (N.of_nat (8 + 8 * N.to_nat (2 * lenN segs))) with (8 + 16 * lenN segs) by (unfold lenN, bytes; lia).
        reflexivity.
    + intros _. rewrite El. reflexivity.
    + right. unfold lenN. rewrite !app_length, (concat16_len segs H16 k) by lia. cbn [srh8 length]. unfold bytes in *. lia.
    + rewrite El. cbn [srh_layer mk lasg fst snd]. split; [apply nodupb_ok; reflexivity|].
      intros k0 v [H|[H|[]]]; inversion H; subst; (split; [reflexivity|]); eexists.
      * split; [left; reflexivity|left; reflexivity].
      * split; [right; left; reflexivity|right]. cbn [vprefix]. exists k. reflexivity.
    + left. rewrite Hh, <- Hcut, firstn_length. lia.
Qed.

(* ---- TCP, ICMP ---- *)
Lemma kind_tcp m0 f j c sp dp fl ow : wf_frame f = true -> base_ok m0 -> (j < length (frame_chain f))%nat ->
  lay f j = mk PTCP (enc_l4 (L4TCP sp dp fl ow)) [(cSrcPort, VI sp); (cDstPort, VI dp); (cTcpFlags, VI fl)] PNone false ->
  sp < 65536 -> dp < 65536 -> ow <= 10 ->
  (1 <= c <= length (enc_l4 (L4TCP sp dp fl ow)))%nat -> cut_ok m0 f (hdrs f j ++ firstn c (enc_l4 (L4TCP sp dp fl ow))).
Proof.
  intros Hwf Hbase Hj El Hs Hd Ho Hc.
  assert (Hh : lhdr (lay f j) = enc_l4 (L4TCP sp dp fl ow)) by (rewrite El; reflexivity).
  assert (Hlp : lp (lay f j) = PTCP) by (rewrite El; reflexivity).
  assert (Hlen : length (enc_l4 (L4TCP sp dp fl ow)) = (20 + N.to_nat (4 * ow))%nat)
    by (rewrite enc_tcp_split, app_length, tcp20_len, repeat_length; reflexivity).
  destruct (Nat.lt_ge_cases c 20) as [Hlt|Hge].
  { rewrite <- Hh. apply case_short; try assumption; rewrite ?Hlp, ?Hh; cbn [min_len]; lia. }
  assert (Hct : contracts (firstn j (frame_chain f)) (firstn c (enc_l4 (L4TCP sp dp fl ow)))).
  { rewrite <- Hh. apply frame_prefix_contracts; try assumption; [lia|]. rewrite Hh, enc_tcp_split. unfold tcp20. rewrite enc_be_2. discriminate. }
  assert (Hcut : firstn c (enc_l4 (L4TCP sp dp fl ow)) = tcp20 sp dp fl ow ++ firstn (c - 20) (repeat 1 (N.to_nat (4 * ow)))).
  { rewrite enc_tcp_split. replace c with (length (tcp20 sp dp fl ow) + (c - 20))%nat at 1 by (rewrite tcp20_len; lia). apply firstn_app_len. }
  rewrite Hcut in *.
  apply (case_step m0 f j _ [(cSrcPort, VI sp); (cDstPort, VI dp); (cTcpFlags, VI fl)] (20 + 4 * ow) PNone false); try assumption.
  - rewrite Hlp. split; [keys|]. split; [discriminate|]. split; [lia|]. intros base m _. apply tcp_step; assumption.
  - discriminate.
  - left; reflexivity.
  - rewrite El. cbn [mk lasg]. apply sub_asg_refl; [apply nodupb_ok; reflexivity|repeat constructor].
  - destruct (Nat.eq_dec c (length (enc_l4 (L4TCP sp dp fl ow)))) as [Hfull|Hpart].
    + right. split; [rewrite Hh, <- Hcut, firstn_length; lia|]. rewrite El. cbn [mk lasg]. intros k v Hin _. exact Hin.
    + left. rewrite Hh, <- Hcut, firstn_length. lia.
Qed.

Lemma kind_icmp m0 f j c (six : bool) t c0 : wf_frame f = true -> base_ok m0 -> (j < length (frame_chain f))%nat ->
  lay f j = mk (if six then PICMPv6 else PICMP) ([t; c0] ++ enc_be 2 0 ++ enc_be 4 1) [(cIcmpType, VI t); (cIcmpCode, VI c0)] PNone false ->
  (1 <= c <= 8)%nat -> cut_ok m0 f (hdrs f j ++ firstn c ([t; c0] ++ enc_be 2 0 ++ enc_be 4 1)).
Proof.
  intros Hwf Hbase Hj El Hc.
  assert (Hh : lhdr (lay f j) = [t; c0] ++ enc_be 2 0 ++ enc_be 4 1) by (rewrite El; reflexivity).
  assert (Hlp : lp (lay f j) = if six then PICMPv6 else PICMP) by (rewrite El; reflexivity).
  destruct (Nat.lt_ge_cases c 2) as [Hlt|Hge].
  { rewrite <- Hh. apply case_short; try assumption; rewrite ?Hlp, ?Hh; [destruct six; cbn [min_len]; lia|cbn; lia]. }
  assert (Hct : contracts (firstn j (frame_chain f)) (firstn c ([t; c0] ++ enc_be 2 0 ++ enc_be 4 1))).
  { rewrite <- Hh. apply frame_prefix_contracts; try assumption; [lia|]. rewrite Hh. discriminate. }
  destruct c as [|[|c']]; try lia. cbn [app firstn] in *.
  apply (case_step m0 f j _ [(cIcmpType, VI t); (cIcmpCode, VI c0)] 8 PNone false); try assumption.
  - rewrite Hlp. split; [keys|]. split; [destruct six; discriminate|]. split; [lia|]. intros base m _. apply icmp_step.
  - discriminate.
  - left; reflexivity.
  - rewrite El. cbn [mk lasg]. apply sub_asg_refl; [apply nodupb_ok; reflexivity|repeat constructor].
  - assert (Hl8 : length (lhdr (lay f j)) = 8%nat) by (rewrite El; reflexivity).
    destruct (Nat.eq_dec c' 6) as [->|Hne].
    + right. split; [rewrite Hl8; reflexivity|]. rewrite El. cbn [mk lasg]. intros k v Hin _. exact Hin.
    + left. rewrite Hl8. cbn [length]. rewrite firstn_length. lia.
Qed.

(* ---- where a capture length falls ---- *)
Lemma cut_position (layers : list layer) : forall n, (1 <= n <= length (concat (map lhdr layers)))%nat ->
  exists j c, (j < length layers)%nat /\ (1 <= c <= length (lhdr (nth j layers dummy_layer)))%nat /\
              n = (length (concat (map lhdr (firstn j layers))) + c)%nat.
Proof.
  induction layers as [|l q IH]; intros n Hn; [cbn in Hn; lia|].
  cbn [map concat] in Hn. rewrite app_length in Hn.
  destruct (Nat.le_gt_cases n (length (lhdr l))) as [Hle|Hgt].
  - exists 0%nat, n. cbn [length firstn map concat nth]. repeat split; lia.
  - destruct (IH (n - length (lhdr l))%nat ltac:(lia)) as (j & c & Hj & Hc & E).
    exists (S j), c. cbn [length firstn map concat nth]. rewrite app_length. repeat split; lia.
Qed.

Lemma mpls_not_last l : lkind l -> lp l = PMPLS -> lnext l <> PNone.
Proof.
  intros K. destruct K as [l _ Hm _|ls e _ _ _ Hn| | |six]; cbn [mk lp lnext mpls_layer srh_layer]; try discriminate.
  - intros H. congruence.
  - intros _ E. rewrite E in Hn. cbn in Hn. lia.
  - destruct six; discriminate.
Qed.

(* THE THEOREM: a capture of ANY length 0..len(frame) of ANY well-formed frame, dissected into ANY base message that has
   no layers and no segment list yet (the empty message: ParsePacket on its own; the message carrying an sFlow sample's
   own fields: the sFlow producer), is dissected without error into a message in which every column other than the
   ethertype, the VLAN id and the two layer lists carries the value the complete frame gives it, or is as in the base
   message (unset, for the empty one), or -- MPLS labels, MPLS TTLs, SRv6 segments of a stack / list the capture cuts
   through -- is a prefix of the complete frame's list. *)
Theorem any_cut_on m0 f n : wf_frame f = true -> base_ok m0 -> cut_ok m0 f (firstn n (encode_frame f)).
Proof.
  intros Hwf Hbase.
  pose proof (frame_kinds f Hwf) as Hkinds. rewrite Forall_forall in Hkinds.
  destruct (frame_chained f Hwf) as [Hch Hlast].
  set (H := concat (map lhdr (frame_chain f))).
  destruct (Nat.eq_dec n 0) as [->|Hn0].
  { (* nothing captured *)
    cbn [firstn].
    destruct (cut_stop m0 [] [] false m0 [] Hbase I I eq_refl) as (m & Hp & Hinv); [right; cbn; lia|].
    exists m. split; [exact Hp|]. split; [apply (stop_columns m0 f 0 false m0 [] m Hwf Hbase eq_refl Hinv)|].
    split; [apply (stop_layers m0 f 0 false m0 [] m Hwf eq_refl Hinv)|].
    split; [|destruct Hinv as (_ & _ & Ho); apply (stop_tags m0 f 0 false m0 [] m eq_refl Ho)].
    intros j2 k Hj2 Hlen Hin. cbn [length] in Hlen.
    destruct j2 as [|j2]; [destruct Hin|]. exfalso. pose proof (hdrs_lt f 0 (S j2) Hwf ltac:(lia)). lia. }
  destruct (Nat.le_gt_cases n (length H)) as [Hle|Hgt].
  - (* the capture ends inside or at the end of header j *)
    destruct (cut_position (frame_chain f) n ltac:(fold H; lia)) as (j & c & Hj & Hc & En).
    fold (lay f j) in Hc. fold (hdrs f j) in En. subst n.
    rewrite frame_cut_bytes by (try assumption; lia).
    assert (Hin : In (lay f j) (frame_chain f)) by (apply nth_In; exact Hj).
    pose proof (Hkinds _ Hin) as K. remember (lay f j) as l eqn:El. symmetry in El.
    destruct K as [l Hfix Hm Hnx|ls e Hne Hwl Hlen Hmin|next s Hs|sp dp fl ow Hs Hd Ho|six t c0].
    + destruct (Nat.eq_dec c (length (lhdr l))) as [->|Hne].
      * rewrite firstn_full by lia. rewrite <- El. apply kind_full; try assumption; rewrite El; assumption.
      * rewrite <- El. apply case_short; try assumption; rewrite El; lia.
    + cbn [mpls_layer mk lhdr] in *. apply (kind_mpls m0 f j c ls e); assumption.
    + cbn [srh_layer mk lhdr] in *. apply (kind_srh m0 f j c next s); assumption.
    + cbn [mk lhdr] in *. apply (kind_tcp m0 f j c sp dp fl ow); assumption.
    + cbn [mk lhdr] in *. apply (kind_icmp m0 f j c six t c0); try assumption; cbn [app length] in Hc; rewrite ?enc_be_len in Hc; cbn in Hc; lia.
  - (* the capture holds every header and some of what follows them *)
    rewrite encode_frame_chain. fold H.
    replace n with (length H + (n - length H))%nat by lia. rewrite firstn_app_len.
    assert (Hlen : (1 <= length (frame_chain f))%nat).
    { destruct (frame_chain f) eqn:E; [|cbn; lia]. unfold frame_chain, front_chain in E. discriminate. }
    set (j := (length (frame_chain f) - 1)%nat).
    assert (Hj : (j < length (frame_chain f))%nat) by (unfold j; lia).
    assert (HS : firstn (S j) (frame_chain f) = frame_chain f) by (apply firstn_all2; unfold j; lia).
    assert (Hnx : lnext (lay f j) = PNone).
    { unfold lay. rewrite <- (last_next_firstn_S _ j _ Hch Hj), HS. exact Hlast. }
    replace H with (hdrs f (S j)) by (unfold hdrs; rewrite HS; reflexivity).
    apply case_full; try assumption.
    + intros Hm. apply (mpls_not_last (lay f j)); [apply Hkinds; apply nth_In; exact Hj|exact Hm|exact Hnx].
    + left. exact Hnx.
    + right. exact Hnx.
Qed.

(* ParsePacket on its own: the base message is the empty one, the reference is ref_frame f *)
Lemma framed_empty f : framed empty_msg f = ref_frame f.
Proof. rewrite ref_frame_pre. reflexivity. Qed.

Theorem any_cut f n : wf_frame f = true ->
  exists m, parse_packet empty_pcfg empty_msg (firstn n (encode_frame f)) = Ok m /\
    (forall k, k <> cEtype -> k <> cVlanId -> k <> cLayerStack -> k <> cLayerSize ->
       col_ok None (alookup (cols m) k) (alookup (cols (ref_frame f)) k)) /\ layers_ok m f /\
    (forall j k, (j <= length (frame_chain f))%nat -> (length (hdrs f j) <= length (firstn n (encode_frame f)))%nat ->
       In k (fkeys (applied false (firstn j (frame_chain f)))) ->
       alookup (cols m) k = alookup (cols (ref_frame f)) k) /\
    (forall k, k = cEtype \/ k = cVlanId ->
       alookup (cols m) k = None \/ exists v, alookup (cols m) k = Some v /\ tag_val f k v).
Proof.
  intros Hwf. destruct (any_cut_on empty_msg f n Hwf base_empty) as (m & Hp & Hc & Hl & Hk & Ht).
  exists m. split; [exact Hp|]. split; [|split; [exact Hl|split; [|exact Ht]]].
  - intros k K1 K2 K3 K4. specialize (Hc k K1 K2 K3 K4). rewrite framed_empty in Hc. exact Hc.
  - intros j k Hj Hlen Hin. rewrite <- framed_empty. apply (Hk j k Hj Hlen Hin).
Qed.
