(* C02: the ghost allocation estimate of Spec/Ghost.v stays inside the budget of the property, for EVERY pipe
   state, exporter and byte string of at most 9000 bytes -- whatever the count and length fields of the
   datagram claim. *)
From Coq Require Import String List NArith ZArith Lia ZifyN ZifyNat ZifyBool Bool.
From GF Require Import Base.Res Base.Bytes Base.Layout Model.NF Model.NFv5 Model.SFlow Model.Pipe Spec.Ghost
     Proofs.BytesL Proofs.LayoutL Proofs.TotalP Proofs.AllocP.
Import ListNotations.
Open Scope N_scope.

Definition K (w : N) : N := C_REC + C_FLD * w.

Ltac pinv H := apply pair_equal_spec in H; destruct H as [<- <-].

Lemma K_mono a b : a <= b -> K a <= K b.
Proof. unfold K, C_REC, C_FLD. lia. Qed.

Lemma next_lengths n (d : bytes) : lenN (fst (next n d)) + lenN (snd (next n d)) = lenN d.
Proof. unfold next, lenN. cbn [fst snd]. rewrite firstn_length, skipn_length. lia. Qed.

(* where a decoded flow set leaves the reader: behind the bytes its length word covers *)
Lemma dec_flowset_rest st dom ver d fs tnf st' rest :
  dec_flowset st dom ver d = Ok (fs, tnf, st', rest) ->
  exists id dA len d2, rd 2 d = Ok (id, dA) /\ rd 2 dA = Ok (len, d2) /\ (len <? 4) = false /\
                       rest = snd (next (N.to_nat (len - 4)) d2).
Proof.
  unfold dec_flowset. intros H.
  destruct (rd 2 d) as [[id dA]| | |] eqn:E1; try discriminate.
  destruct (rd 2 dA) as [[len d2]| | |] eqn:E2; try discriminate.
  destruct (len <? 4) eqn:E4; [discriminate|].
  exists id, dA, len, d2. split; [first [reflexivity|assumption]|]. split; [first [reflexivity|assumption]|]. split; [first [reflexivity|assumption]|].
  destruct (next (N.to_nat (len - 4)) d2) as [body rest'] eqn:En. cbn [snd].
  repeat match type of H with
  | (if ?b then _ else _) = _ => destruct b
  | (match ?x with _ => _ end) = _ => destruct x; try discriminate
  end; inversion H; reflexivity.
Qed.

(* one set costs at most K(width) per byte it occupies (4 bytes of set header + its body) *)
Lemma gh_set_bound st dom ver d c w :
  gh_set st dom ver d = (c, w) ->
  (c = 0 /\ w = 0) \/
  exists id dA len d2, rd 2 d = Ok (id, dA) /\ rd 2 dA = Ok (len, d2) /\ (len <? 4) = false /\
     c <= (4 + lenN (fst (next (N.to_nat (len - 4)) d2))) * K w.
Proof.
  unfold gh_set. intros H.
  destruct (rd 2 d) as [[id dA]| | |] eqn:E1; try (pinv H; left; split; reflexivity).
  destruct (rd 2 dA) as [[len d2]| | |] eqn:E2; try (pinv H; left; split; reflexivity).
  destruct (len <? 4) eqn:E4; [pinv H; left; split; reflexivity|].
  cbv zeta in H.
  set (b := lenN (fst (next (N.to_nat (len - 4)) d2))) in *.
  destruct (((id =? 0) && (ver =? 9)) || ((id =? 1) && (ver =? 9)) || ((id =? 2) && (ver =? 10)) || ((id =? 3) && (ver =? 10))).
  { right. exists id, dA, len, d2. split; [first [reflexivity|assumption]|]. split; [first [reflexivity|assumption]|]. split; [first [reflexivity|assumption]|].
    pinv H. unfold K, C_SET, C_TB, C_REC, C_FLD. lia. }
  destruct (256 <=? id); [|pinv H; left; split; reflexivity].
  destruct (store_get st (tkey ver dom id)) as [t|].
  - right. exists id, dA, len, d2. split; [first [reflexivity|assumption]|]. split; [first [reflexivity|assumption]|]. split; [first [reflexivity|assumption]|].
    pinv H. unfold K, C_SET, C_REC, C_FLD. nia.
  - right. exists id, dA, len, d2. split; [first [reflexivity|assumption]|]. split; [first [reflexivity|assumption]|]. split; [first [reflexivity|assumption]|].
    pinv H. unfold K, C_SET, C_REC, C_FLD. lia.
Qed.

Lemma ok_inj {A} (a b : A) : Ok a = Ok b -> a = b.
Proof. intros H; inversion H; reflexivity. Qed.

(* the whole message: K(widest template referenced) per byte, plus the one failing set *)
Lemma gh_common_bound dom size ver start : forall fuel st i d c w,
  gh_common fuel st dom size ver start i d = (c, w) -> c <= lenN d * K w + T_ERR.
Proof.
  induction fuel as [|fu IH]; intros st i d c w H; cbn [gh_common] in H.
  { pinv H. unfold T_ERR. lia. }
  match type of H with (if ?b then _ else _) = _ => destruct b end;
    [|pinv H; unfold T_ERR; lia].
  destruct (gh_set st dom ver d) as [c0 w0] eqn:Es.
  apply gh_set_bound in Es.
  destruct (dec_flowset st dom ver d) as [[[[fs tnf] st1] d1]| | |] eqn:Ef.
  - destruct (gh_common fu st1 dom size ver start (i + 1) d1) as [c' w'] eqn:Er.
    apply IH in Er. pinv H.
    apply dec_flowset_rest in Ef. destruct Ef as (id & dA & len & d2 & F1 & F2 & F3 & F4).
    assert (Hd : lenN d2 + 4 = lenN d).
    { apply rd_len in F1. apply rd_len in F2. unfold lenN. lia. }
    pose proof (next_lengths (N.to_nat (len - 4)) d2) as Hn. rewrite <- F4 in Hn.
    pose proof (K_mono w0 (N.max w0 w') ltac:(lia)) as M0.
    pose proof (K_mono w' (N.max w0 w') ltac:(lia)) as M1.
    set (Kw := K (N.max w0 w')) in *. set (K0 := K w0) in *. set (K1 := K w') in *.
    destruct Es as [[-> ->]|(id' & dA' & len' & d2' & G1 & G2 & G3 & G4)].
    + assert (lenN d1 * K1 <= lenN d1 * Kw) by (apply N.mul_le_mono_l; exact M1).
      assert (lenN d1 * Kw <= lenN d * Kw) by (apply N.mul_le_mono_r; lia). lia.
    + rewrite F1 in G1. apply ok_inj in G1. inversion G1; subst id' dA'.
      rewrite F2 in G2. apply ok_inj in G2. inversion G2; subst len' d2'.
      set (b := lenN (fst (next (N.to_nat (len - 4)) d2))) in *.
      assert ((4 + b) * K0 <= (4 + b) * Kw) by (apply N.mul_le_mono_l; exact M0).
      assert (lenN d1 * K1 <= lenN d1 * Kw) by (apply N.mul_le_mono_l; exact M1).
      assert (lenN d = (4 + b) + lenN d1) by lia.
      assert (lenN d * Kw = (4 + b) * Kw + lenN d1 * Kw) by (rewrite H1; ring). lia.
  - pinv H.
    destruct Es as [[-> ->]|(id' & dA' & len' & d2' & G1 & G2 & G3 & G4)]; [lia|].
    assert (Hd : lenN d2' + 4 = lenN d).
    { apply rd_len in G1. apply rd_len in G2. unfold lenN. lia. }
    pose proof (next_lengths (N.to_nat (len' - 4)) d2') as Hn.
    set (b := lenN (fst (next (N.to_nat (len' - 4)) d2'))) in *.
    assert ((4 + b) * K w0 <= lenN d * K w0) by (apply N.mul_le_mono_r; lia). lia.
  - pinv H.
    destruct Es as [[-> ->]|(id' & dA' & len' & d2' & G1 & G2 & G3 & G4)]; [lia|].
    assert (Hd : lenN d2' + 4 = lenN d).
    { apply rd_len in G1. apply rd_len in G2. unfold lenN. lia. }
    pose proof (next_lengths (N.to_nat (len' - 4)) d2') as Hn.
    set (b := lenN (fst (next (N.to_nat (len' - 4)) d2'))) in *.
    assert ((4 + b) * K w0 <= lenN d * K w0) by (apply N.mul_le_mono_r; lia). lia.
  - pinv H.
    destruct Es as [[-> ->]|(id' & dA' & len' & d2' & G1 & G2 & G3 & G4)]; [lia|].
    assert (Hd : lenN d2' + 4 = lenN d).
    { apply rd_len in G1. apply rd_len in G2. unfold lenN. lia. }
    pose proof (next_lengths (N.to_nat (len' - 4)) d2') as Hn.
    set (b := lenN (fst (next (N.to_nat (len' - 4)) d2'))) in *.
    assert ((4 + b) * K w0 <= lenN d * K w0) by (apply N.mul_le_mono_r; lia). lia.
Qed.

Lemma gh_nf_body_bound st ver d c w : gh_nf_body st ver d = (c, w) -> c <= lenN d * K w + T_ERR.
Proof.
  unfold gh_nf_body. intros H.
  destruct (rd_fields (if ver =? 9 then v9_hdr_ws else ipfix_hdr_ws) d) as [[h d1]| | |] eqn:E;
    try (pinv H; unfold T_ERR; lia).
  apply gh_common_bound in H. apply rd_fields_len in E.
  assert (lenN d1 * K w <= lenN d * K w) by (apply N.mul_le_mono_r; unfold lenN; lia). lia.
Qed.

Lemma gh_v5_bound d c w : wfb d -> gh_v5_body d = (c, w) -> w = 0 /\ c <= C_V5S * 65535 + C_REC * (lenN d / 48).
Proof.
  unfold gh_v5_body. intros Hd H. pinv H. split; [reflexivity|].
  destruct (rd 2 d) as [[cnt r]| | |] eqn:E; try (unfold C_V5S; lia).
  apply rd_ok in E; [|exact Hd]. destruct E as (_ & Hc & _). change (256 ^ N.of_nat 2) with 65536 in Hc.
  unfold C_V5S. lia.
Qed.

Lemma gh_slots_eq p : gh_slots p = sf_slots p.
Proof. reflexivity. Qed.

Lemma gh_sf_bound d c w : gh_sf d = (c, w) -> w = 0 /\ c <= C_SFS * (1000 + 1000 * (lenN d / 20)) + C_SFB * lenN d.
Proof.
  unfold gh_sf. intros H. pinv H. split; [reflexivity|].
  destruct (decode_sf d) as [p| | |] eqn:E; try lia.
  apply decode_sf_slots in E. rewrite <- gh_slots_eq in E.
  assert (N.of_nat (gh_slots p) <= 1000 + 1000 * (lenN d / 20)).
  { unfold lenN. change 20 with (N.of_nat 20). rewrite <- Nat2N.inj_div. lia. }
  unfold C_SFS. lia.
Qed.

(* ---- the budget ---- *)
Lemma nf_budget L c w : L <= 9000 -> c <= L * K w + T_ERR -> C_0 + c <= budget_model L w.
Proof. unfold K, budget_model, C_0, T_ERR, C_REC, C_FLD. intros HL Hc. nia. Qed.

Lemma gh_nf_budget st e d c w : wfb d -> lenN d <= 9000 -> gh_nf st e d = (c, w) -> C_0 + c <= budget_model (lenN d) w.
Proof.
  unfold gh_nf. intros Hd HL H.
  destruct (rd 2 d) as [[ver d0]| | |] eqn:E0;
    try (pinv H; unfold budget_model, C_0; lia).
  assert (L0 : lenN d0 + 2 = lenN d) by (apply rd_len in E0; unfold lenN; lia).
  destruct (ver =? 5).
  - apply rd_ok in E0; [|exact Hd]. destruct E0 as (_ & _ & Hd0).
    apply gh_v5_bound in H; [|exact Hd0]. destruct H as [-> Hc].
    assert (lenN d0 / 48 <= 187) by lia.
    unfold budget_model, C_0, C_V5S, C_REC in *. lia.
  - destruct ((ver =? 9) || (ver =? 10)); [|pinv H; unfold budget_model, C_0; lia].
    apply gh_nf_body_bound in H. apply nf_budget; [exact HL|].
    assert (lenN d0 * K w <= lenN d * K w) by (apply N.mul_le_mono_r; lia). lia.
Qed.

Lemma gh_sf_budget d c w : lenN d <= 9000 -> gh_sf d = (c, w) -> C_0 + c <= budget_model (lenN d) w.
Proof.
  intros HL H. apply gh_sf_bound in H. destruct H as [-> Hc].
  assert (lenN d / 20 <= 450) by lia.
  unfold budget_model, C_0, C_SFS, C_SFB in *. lia.
Qed.

(* EVERY pipe, state, exporter and byte string of at most 9000 bytes *)
Lemma gh_pipe_budget k st e d c w :
  wfb d -> lenN d <= 9000 -> gh_pipe k st e d = (c, w) -> c <= budget_model (lenN d) w.
Proof.
  unfold gh_pipe. intros Hd HL H.
  destruct k.
  - destruct (gh_nf st e d) as [c0 w0] eqn:E. pinv H. eapply gh_nf_budget; eauto.
  - destruct (gh_sf d) as [c0 w0] eqn:E. pinv H. eapply gh_sf_budget; eauto.
  - destruct (gh_flow st e d) as [c0 w0] eqn:E. pinv H. unfold gh_flow in E.
    destruct (rd 4 d) as [[proto r]| | |]; try (pinv E; unfold budget_model, C_0; lia).
    destruct (proto =? 5); [eapply gh_sf_budget; eauto|]. cbv zeta in E.
    destruct ((proto / 65536 =? 5) || (proto / 65536 =? 9) || (proto / 65536 =? 10));
      [eapply gh_nf_budget; eauto|pinv E; unfold budget_model, C_0; lia].
Qed.

(* with the tolerance of the measured comparison: the budget of the property *)
Lemma gh_pipe_property k st e d c w :
  wfb d -> lenN d <= 9000 -> gh_pipe k st e d = (c, w) -> c + SLACK <= budget (lenN d) w.
Proof.
  intros Hd HL H. apply gh_pipe_budget in H; auto. unfold budget_model, budget, SLACK in *. lia.
Qed.

(* what the estimate does NOT depend on: behind the four bytes of a set header, only the NUMBER of bytes that
   follow matters -- no count, length or value inside a set body can raise the estimate *)
Lemma gh_set_content_irrelevant st dom ver (hdr x x' : bytes) :
  length hdr = 4%nat -> length x = length x' ->
  gh_set st dom ver (hdr ++ x) = gh_set st dom ver (hdr ++ x').
Proof.
  intros Hh Hl.
  destruct hdr as [|a [|b [|c [|e [|? ?]]]]]; try discriminate.
  unfold gh_set, rd, read. cbn [app length Nat.leb firstn skipn].
  cbn [Nat.leb length].
  destruct (be [c; e] <? 4); [reflexivity|].
  unfold next. cbn [fst]. unfold lenN. rewrite !firstn_length, Hl. reflexivity.
Qed.

(* the width the budget is taken with is that of a template the datagram references: a template of the
   exporter's store, looked up under the set's own (version, domain, id) *)
Lemma gh_set_width st dom ver d c w :
  gh_set st dom ver d = (c, w) -> w = 0 \/ exists id t, store_get st (tkey ver dom id) = Some t /\ w = tmpl_width t.
Proof.
  unfold gh_set. intros H.
  destruct (rd 2 d) as [[id dA]| | |]; try (pinv H; left; reflexivity).
  destruct (rd 2 dA) as [[len d2]| | |]; try (pinv H; left; reflexivity).
  destruct (len <? 4); [pinv H; left; reflexivity|]. cbv zeta in H.
  destruct (((id =? 0) && (ver =? 9)) || ((id =? 1) && (ver =? 9)) || ((id =? 2) && (ver =? 10)) || ((id =? 3) && (ver =? 10)));
    [pinv H; left; reflexivity|].
  destruct (256 <=? id); [|pinv H; left; reflexivity].
  destruct (store_get st (tkey ver dom id)) as [t|] eqn:E; [|pinv H; left; reflexivity].
  pinv H. right. exists id, t. split; [exact E|reflexivity].
Qed.
