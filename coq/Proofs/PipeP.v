(* Template scoping, sampling scoping, message counts (C06, C07, C11). *)
From Coq Require Import List NArith ZArith Lia ZifyN ZifyNat ZifyBool Bool.
From GF Require Import Base.Res Base.Bytes Base.Layout Model.Msg Model.NF Model.NFv5 Model.Packet Model.ProdNF
     Model.Pipe Proofs.BytesL Proofs.LayoutL.
Import ListNotations.
Open Scope N_scope.
Ltac Zify.zify_post_hook ::= Z.div_mod_to_equations.

(* ---- C06: the 64-bit key separates (version, domain, id) ---- *)
Lemma tkey_injective v d i v' d' i' :
  d < 4294967296 -> i < 65536 -> d' < 4294967296 -> i' < 65536 ->
  tkey v d i = tkey v' d' i' -> v = v' /\ d = d' /\ i = i'.
Proof. unfold tkey. intros. lia. Qed.

Lemma store_get_add st k t k' :
  store_get (store_add st k t) k' = if k =? k' then Some t else store_get st k'.
Proof. reflexivity. Qed.

(* the last record of rs with template id i *)
Definition last_trec (rs : list trec) (i : N) : option trec := find (fun r => tId r =? i) (rev rs).

Lemma add_trecs_get rs : forall st v d i,
  store_get (add_trecs st v d rs) (tkey v d i) =
  match last_trec rs i with Some r => Some (TplData r) | None => store_get st (tkey v d i) end.
Proof.
  unfold add_trecs, last_trec.
  induction rs as [|r rs IH] using rev_ind; intros st v d i; [reflexivity|].
  rewrite fold_left_app, rev_app_distr. cbn [fold_left rev app find].
  rewrite store_get_add.
  destruct (tId r =? i) eqn:E.
  - apply N.eqb_eq in E. subst. rewrite N.eqb_refl. reflexivity.
  - replace (tkey v d (tId r) =? tkey v d i) with false; [apply IH|].
    symmetry. apply N.eqb_neq. unfold tkey. apply N.eqb_neq in E. lia.
Qed.

Lemma add_trecs_other rs : forall st v d v' d' i',
  Forall (fun r => tId r < 65536) rs -> d < 4294967296 -> d' < 4294967296 -> i' < 65536 ->
  (v, d) <> (v', d') ->
  store_get (add_trecs st v d rs) (tkey v' d' i') = store_get st (tkey v' d' i').
Proof.
  unfold add_trecs.
  induction rs as [|r rs IH] using rev_ind; intros st v d v' d' i' Hall Hd Hd' Hi Hne; [reflexivity|].
  apply Forall_app in Hall. destruct Hall as [Hall Hr]. inversion Hr; subst.
  rewrite fold_left_app. cbn [fold_left]. rewrite store_get_add.
  replace (tkey v d (tId r) =? tkey v' d' i') with false; [apply IH; auto|].
  symmetry. apply N.eqb_neq. intros Heq. apply tkey_injective in Heq; auto.
  destruct Heq as (-> & -> & _). apply Hne. reflexivity.
Qed.

(* unknown template: reported, the set stays raw, the store is untouched, decoding goes on *)
Lemma dec_flowset_not_found st dom ver d id len d2 :
  rd 2 d = Ok (id, skipn 2 d) -> rd 2 (skipn 2 d) = Ok (len, d2) ->
  256 <= id -> 4 <= len -> store_get st (tkey ver dom id) = None ->
  dec_flowset st dom ver d =
  Ok (FSRaw id len (fst (next (N.to_nat (len - 4)) d2)), true, st, snd (next (N.to_nat (len - 4)) d2)).
Proof.
  intros H1 H2 Hid Hlen Hget. unfold dec_flowset. rewrite H1, H2.
  replace (len <? 4) with false by lia.
  destruct (next (N.to_nat (len - 4)) d2) as [body rest]. cbn [fst snd].
  replace (id =? 0) with false by lia. replace (id =? 1) with false by lia.
  replace (id =? 2) with false by lia. replace (id =? 3) with false by lia.
  cbn [andb]. replace (256 <=? id) with true by lia. rewrite Hget. reflexivity.
Qed.

(* the next set of the same message is decoded over the store left by the previous one *)
Lemma dec_common_step fuel st dom size ver start i d fs tnf st1 d1 :
  (((i <? size) && (ver =? 9)) || ((N.of_nat (start - length d) mod 65536 <? size) && (ver =? 10)))
    && negb (Nat.eqb (length d) 0) = true ->
  dec_flowset st dom ver d = Ok (fs, tnf, st1, d1) ->
  dec_common (S fuel) st dom size ver start i d =
  (let* (fss, tnf', st2) := dec_common fuel st1 dom size ver start (i + 1) d1 in
   Ok (fs :: fss, tnf || tnf', st2)).
Proof. intros Hc Hf. cbn [dec_common]. rewrite Hc, Hf. reflexivity. Qed.

(* exporters: a step of exporter e touches no other exporter's templates *)
Lemma tstores_get_cons k s t k' :
  tstores_get ((k, s) :: t) k' = if k =? k' then s else tstores_get t k'.
Proof. reflexivity. Qed.

Lemma nf_step_isolation cfg st e tr d st' o ms k' :
  nf_step cfg st e tr d = Ok (st', o, ms) -> k' <> exp_id e ->
  tstores_get (psT st') k' = tstores_get (psT st) k'.
Proof.
  intros H Hk. unfold nf_step in H.
  destruct (rd 2 d) as [[ver d0]| | |]; try discriminate; [|inversion H; reflexivity].
  destruct (ver =? 5).
  { destruct (decode_v5_body d0); inversion H; reflexivity. }
  destruct ((ver =? 9) || (ver =? 10)); [|inversion H; reflexivity].
  assert (Hc : tstores_get ((exp_id e, decode_nf_body_st (tstores_get (psT st) (exp_id e)) ver d0) :: psT st) k'
               = tstores_get (psT st) k').
  { rewrite tstores_get_cons. replace (exp_id e =? k') with false; [reflexivity|].
    symmetry. apply N.eqb_neq. congruence. }
  destruct (decode_nf_body _ ver d0) as [[[p tnf] s]| | |]; try discriminate.
  - destruct (produce_nf _ _ _ p) as [[ms'| | |] ss']; try discriminate; inversion H; subst; exact Hc.
  - inversion H; subst. exact Hc.
Qed.

Lemma addr_id_injective a b :
  wfb a -> wfb b -> (length a <= 16)%nat -> (length b <= 16)%nat -> addr_id a = addr_id b -> a = b.
Proof.
  intros Ha Hb La Lb H. unfold addr_id in H.
  pose proof (be_bound a Ha) as Ba. pose proof (be_bound b Hb) as Bb.
  assert (P : forall n, (n <= 16)%nat -> 256 ^ N.of_nat n <= 340282366920938463463374607431768211456).
  { intros n Hn. change 340282366920938463463374607431768211456 with (256 ^ 16).
    apply N.pow_le_mono_r; lia. }
  pose proof (P _ La). pose proof (P _ Lb).
  assert (length a = length b /\ be a = be b) as [Hl Hbe] by nia.
  rewrite <- (enc_be_be a Ha), <- (enc_be_be b Hb), Hl, Hbe. reflexivity.
Qed.

(* ---- C11: sampling rates keyed by (exporter address, version, domain) ---- *)
Lemma skey_eqb_eq a b : skey_eqb a b = true <-> a = b.
Proof.
  destruct a as [[a1 a2] a3], b as [[b1 b2] b3]. unfold skey_eqb. split.
  - intros H. apply andb_prop in H. destruct H as [H H3]. apply andb_prop in H. destruct H as [H1 H2].
    apply N.eqb_eq in H1, H2, H3. subst. reflexivity.
  - intros H. inversion H; subst. rewrite !N.eqb_refl. reflexivity.
Qed.

Lemma sstore_get_cons k v s k' :
  sstore_get ((k, v) :: s) k' = if skey_eqb k k' then Some v else sstore_get s k'.
Proof. reflexivity. Qed.

Definition rate_of (ss : sstore) (k : skey) : N := match sstore_get ss k with Some r => r | None => 0 end.

(* every message produced from a packet carries: the rate announced in this very packet if it
   announces one, else the stored rate of (exporter address, version, domain), else 0; and the
   store afterwards holds the announcement under exactly that key *)
Lemma produce_nf_rate cfg ss ip p ms ss' :
  produce_nf cfg ss ip p = (Ok ms, ss') ->
  exists found rate,
    find_sampling (optdata_records (pSets p)) 0 = Ok (found, rate) /\
    Forall (fun m => mgetI m cSamplingRate =
                     if found then rate else rate_of ss (ip, pVer p, nf_dom (pVer p) (pHdr p))) ms /\
    (forall k, rate_of ss' k =
               if found && skey_eqb (ip, pVer p, nf_dom (pVer p) (pHdr p)) k then rate else rate_of ss k).
Proof.
  unfold produce_nf. intros H.
  destruct (convert_recs _ _ _ _ _) as [ms0| | |]; try (inversion H; fail).
  destruct (find_sampling _ 0) as [[found rate]| | |]; try (inversion H; fail).
  inversion H; subst; clear H. exists found, rate. split; [reflexivity|]. split.
  - apply Forall_forall. intros m Hm. apply in_map_iff in Hm. destruct Hm as (m0 & <- & _).
    unfold mgetI, msetI, mset, cols, cObsDomain, cSamplingRate, cSeq. cbn [alookup N.eqb Pos.eqb].
    unfold rate_of. destruct found; reflexivity.
  - intros k. unfold rate_of. destruct found; cbn [andb].
    + rewrite sstore_get_cons. destruct (skey_eqb _ k); reflexivity.
    + reflexivity.
Qed.

(* ---- C07: one message per record, none invented ---- *)
Lemma convert_recs_length cfg ver base up rs ms :
  convert_recs cfg ver base up rs = Ok ms -> length ms = length rs.
Proof.
  revert ms. induction rs as [|r rs IH]; intros ms H; cbn [convert_recs] in H.
  - inversion H. reflexivity.
  - destruct (convert_nf cfg ver base up r); try discriminate.
    destruct (convert_recs cfg ver base up rs); try discriminate.
    inversion H; subst. cbn [length]. f_equal. apply IH. reflexivity.
Qed.

Lemma produce_nf_count cfg ss ip p ms ss' :
  produce_nf cfg ss ip p = (Ok ms, ss') -> length ms = length (data_records (pSets p)).
Proof.
  unfold produce_nf. intros H.
  destruct (convert_recs _ _ _ _ _) as [ms0| | |] eqn:E; try (inversion H; fail).
  destruct (find_sampling _ 0) as [[found rate]| | |]; try (inversion H; fail).
  inversion H; subst. rewrite map_length. eapply convert_recs_length; eauto.
Qed.

Lemma produce_v5_count p : length (produce_v5 p) = length (snd p).
Proof. destruct p as [h rs]. unfold produce_v5. rewrite map_length. reflexivity. Qed.

(* a decoded value never reaches beyond the buffer; a record of a template whose minimal size
   is met consumes at least that size *)
Lemma next_len n d : (length (snd (next n d)) = length d - n)%nat.
Proof. unfold next. cbn [snd]. apply skipn_length. Qed.

Lemma dec_value_consumes f d v d' :
  dec_value f d = Ok (v, d') ->
  (length d' <= length d)%nat /\ (Nat.min (field_min f) (length d) <= length d - length d')%nat.
Proof.
  unfold dec_value, field_min. intros H.
  destruct (fLen f =? 65535) eqn:E.
  - destruct (rd 1 d) as [[l8 d1]| | |] eqn:E1; try discriminate.
    apply rd_len in E1.
    destruct (l8 =? 255).
    + destruct (rd 2 d1) as [[l16 d2]| | |] eqn:E2; try discriminate. apply rd_len in E2.
      unfold next in H. inversion H; subst. rewrite skipn_length. lia.
    + unfold next in H. inversion H; subst. rewrite skipn_length. lia.
  - unfold next in H. inversion H; subst. rewrite skipn_length. lia.
Qed.

Lemma dec_values_consumes fs : forall d vs d',
  dec_values fs d = Ok (vs, d') ->
  (length d' <= length d)%nat /\ (Nat.min (template_size fs) (length d) <= length d - length d')%nat.
Proof.
  induction fs as [|f fs IH]; intros d vs d' H; cbn [dec_values template_size fold_right] in *.
  - inversion H; subst. lia.
  - destruct (dec_value f d) as [[v d1]| | |] eqn:E1; try discriminate.
    destruct (dec_values fs d1) as [[vs' d2]| | |] eqn:E2; try discriminate.
    inversion H; subst. apply dec_value_consumes in E1. apply IH in E2.
    unfold template_size in E2. lia.
Qed.

Lemma dec_data_loop_bound fs : forall fuel d rs,
  dec_data_loop fuel fs d = Ok rs -> (length rs * template_size fs <= length d)%nat.
Proof.
  induction fuel as [|fu IH]; intros d rs H; cbn [dec_data_loop] in H; [discriminate|].
  destruct (Nat.leb (template_size fs) (length d)) eqn:E; [|inversion H; simpl; lia].
  apply Nat.leb_le in E.
  unfold dec_record in H. replace (Nat.leb (template_size fs) (length d)) with true in H
    by (symmetry; apply Nat.leb_le; exact E).
  destruct (dec_values fs d) as [[r d1]| | |] eqn:E1; try discriminate.
  destruct (dec_data_loop fu fs d1) as [rs'| | |] eqn:E2; try discriminate.
  inversion H; subst. apply dec_values_consumes in E1. apply IH in E2. cbn [length]. lia.
Qed.

Lemma dec_data_set_bound fs d rs :
  dec_data_set fs d = Ok rs -> (length rs * template_size fs <= length d)%nat /\
                              (rs <> [] -> 0 < template_size fs)%nat.
Proof.
  unfold dec_data_set. destruct (Nat.eqb (template_size fs) 0) eqn:E; intros H.
  - inversion H; subst. split; [simpl; lia|congruence].
  - apply Nat.eqb_neq in E. split; [eapply dec_data_loop_bound; eauto|lia].
Qed.

(* ---- C07 on well-formed messages: exactly one message per encoded data record ---- *)
From GF Require Import Spec.EncNF Proofs.NFEnc.

Definition adata_records (s : aset) : nat := match s with AData _ _ recs _ => length recs | _ => 0 end.
Definition total_adata (sets : list aset) : nat := fold_right (fun s a => (adata_records s + a)%nat) 0%nat sets.

Lemma data_records_of_sets ver sets :
  length (data_records (map (flowset_of ver) sets)) = total_adata sets.
Proof.
  induction sets as [|s r IH]; [reflexivity|]. cbn [map total_adata fold_right]. unfold data_records in *. cbn [flat_map].
  rewrite app_length, IH. f_equal.
  destruct s as [ts|ts|id fs recs pad|id sc op recs pad]; cbn [flowset_of adata_records]; try reflexivity.
  - destruct (ver =? 9); reflexivity.
  - rewrite map_length. reflexivity.
Qed.

Lemma c07_exact_l cfg ss ip st m ms ss' :
  wf_msg st m = true ->
  (forall p tnf st', decode_nf st (encode_nf m) = Ok (p, tnf, st') -> produce_nf cfg ss ip p = (Ok ms, ss')) ->
  length ms = total_adata (aSets m).
Proof.
  intros Hwf Hp. pose proof (c03_roundtrip_l st m Hwf) as Hd. specialize (Hp _ _ _ Hd).
  apply produce_nf_count in Hp. rewrite Hp. unfold expected_pkt. cbn [pSets]. apply data_records_of_sets.
Qed.

(* ---- C11 at the level of one DecodeFlow call ---- *)
Lemma stamp_keeps_rate tr sa m : mgetI (stamp_nf tr sa m) cSamplingRate = mgetI m cSamplingRate.
Proof. reflexivity. Qed.

Lemma nf_step_rate cfg st e tr d st' o ms ver d0 p tnf s1 ms0 ss' :
  rd 2 d = Ok (ver, d0) -> (ver =? 5) = false -> (ver =? 9) || (ver =? 10) = true ->
  decode_nf_body (tstores_get (psT st) (exp_id e)) ver d0 = Ok (p, tnf, s1) ->
  produce_nf cfg (psS st) (addr_id (eAddr e)) p = (Ok ms0, ss') ->
  nf_step cfg st e tr d = Ok (st', o, ms) ->
  exists found rate,
    find_sampling (optdata_records (pSets p)) 0 = Ok (found, rate) /\
    Forall (fun m => mgetI m cSamplingRate =
                     if found then rate else rate_of (psS st) (addr_id (eAddr e), pVer p, nf_dom (pVer p) (pHdr p))) ms /\
    (forall k, rate_of (psS st') k =
               if found && skey_eqb (addr_id (eAddr e), pVer p, nf_dom (pVer p) (pHdr p)) k then rate else rate_of (psS st) k).
Proof.
  intros Hr H5 H9 Hd Ep H. unfold nf_step in H. rewrite Hr, H5, H9, Hd, Ep in H.
  inversion H; subst; clear H. cbn [psS].
  destruct (produce_nf_rate cfg (psS st) (addr_id (eAddr e)) p ms0 ss' Ep) as (found & rate & Hf & Hall & Hk).
  exists found, rate. split; [exact Hf|]. split; [|exact Hk].
  apply Forall_forall. intros m Hm. apply in_map_iff in Hm. destruct Hm as (m0 & <- & Hin).
  rewrite stamp_keeps_rate. rewrite Forall_forall in Hall. apply Hall. exact Hin.
Qed.
