(* No leakage through reuse (C12). *)
From Coq Require Import String List NArith ZArith Lia Bool.
From GF Require Import Base.Res Base.Bytes Base.Layout Model.Msg Model.NF Model.NFv5 Model.Packet Model.ProdNF
     Model.Pipe Model.Pool Proofs.PipeP.
Import ListNotations.
Open Scope N_scope.

(* whatever the pool hands back, the converted message is the same and equals the conversion
   from an empty message *)
Lemma convert_pooled_supply fmt cfg ver base up p p' r :
  convert_nf_pooled fmt cfg ver base up p r = convert_nf_pooled fmt cfg ver base up p' r.
Proof. reflexivity. Qed.

Lemma convert_pooled_fresh fmt cfg ver base up p r :
  convert_nf_pooled fmt cfg ver base up p r =
  (let* m := convert_nf cfg ver base up r in Ok {| pMsg := m; pFormatter := fmt |}).
Proof. reflexivity. Qed.

(* the outputs of a datagram depend on the pipe state only through the exporter's own template
   store and the sampling entries of the exporter's own address *)
Definition same_view (e : exporter) (st st' : pstate) : Prop :=
  tstores_get (psT st) (exp_id e) = tstores_get (psT st') (exp_id e) /\
  forall ver dom, sstore_get (psS st) (addr_id (eAddr e), ver, dom) = sstore_get (psS st') (addr_id (eAddr e), ver, dom).

Definition outputs (r : res stepres) : res (outcome * list msg) :=
  match r with Ok (_, o, ms) => Ok (o, ms) | Err e => Err e | Panic => Panic | OutOfFuel => OutOfFuel end.

Lemma produce_nf_view cfg ss ss' ip p :
  (forall ver dom, sstore_get ss (ip, ver, dom) = sstore_get ss' (ip, ver, dom)) ->
  fst (produce_nf cfg ss ip p) = fst (produce_nf cfg ss' ip p).
Proof.
  intros H. unfold produce_nf.
  destruct (convert_recs _ _ _ _ _); try reflexivity.
  destruct (find_sampling _ 0) as [[found rate]| | |]; try reflexivity.
  cbn [fst]. rewrite H. reflexivity.
Qed.

Lemma nf_step_view cfg st st' e tr d :
  same_view e st st' -> outputs (nf_step cfg st e tr d) = outputs (nf_step cfg st' e tr d).
Proof.
  intros [HT HS]. unfold nf_step. rewrite HT.
  destruct (rd 2 d) as [[ver d0]| | |]; try reflexivity.
  destruct (ver =? 5).
  { destruct (decode_v5_body d0); reflexivity. }
  destruct ((ver =? 9) || (ver =? 10)); [|reflexivity].
  destruct (decode_nf_body _ ver d0) as [[[p tnf] s]| | |]; try reflexivity.
  pose proof (produce_nf_view cfg (psS st) (psS st') (addr_id (eAddr e)) p HS) as HP.
  destruct (produce_nf cfg (psS st) (addr_id (eAddr e)) p) as [r1 s1].
  destruct (produce_nf cfg (psS st') (addr_id (eAddr e)) p) as [r2 s2].
  cbn [fst] in HP. subst r2. destruct r1; reflexivity.
Qed.

(* a datagram of another source address leaves the view of exporter e unchanged *)
Lemma produce_nf_store_other cfg ss ip p k :
  fst (fst k) <> ip -> sstore_get (snd (produce_nf cfg ss ip p)) k = sstore_get ss k.
Proof.
  intros Hk. unfold produce_nf.
  destruct (convert_recs _ _ _ _ _); try reflexivity.
  destruct (find_sampling _ 0) as [[found rate]| | |]; try reflexivity.
  cbn [snd]. destruct found; [|reflexivity].
  rewrite sstore_get_cons.
  destruct (skey_eqb _ k) eqn:E; [|reflexivity].
  apply skey_eqb_eq in E. subst k. cbn [fst] in Hk. congruence.
Qed.

Lemma nf_step_other_exporter cfg st e' tr d st' o ms e :
  nf_step cfg st e' tr d = Ok (st', o, ms) ->
  exp_id e' <> exp_id e -> addr_id (eAddr e') <> addr_id (eAddr e) ->
  same_view e st st'.
Proof.
  intros H Hid Haddr. split.
  - symmetry. eapply nf_step_isolation; eauto.
  - intros ver dom. unfold nf_step in H.
    destruct (rd 2 d) as [[v d0]| | |]; try discriminate; [|inversion H; reflexivity].
    destruct (v =? 5).
    { destruct (decode_v5_body d0); inversion H; reflexivity. }
    destruct ((v =? 9) || (v =? 10)); [|inversion H; reflexivity].
    destruct (decode_nf_body _ v d0) as [[[p tnf] s]| | |]; try discriminate; [|inversion H; reflexivity].
    pose proof (produce_nf_store_other cfg (psS st) (addr_id (eAddr e')) p (addr_id (eAddr e), ver, dom)) as HP.
    destruct (produce_nf cfg (psS st) (addr_id (eAddr e')) p) as [[ms'| | |] ss'] eqn:E; try discriminate;
      inversion H; subst; cbn [psS snd] in *; symmetry; apply HP; cbn [fst]; congruence.
Qed.

(* any prefix history of datagrams from other source addresses leaves the outputs of e's
   datagram exactly as they would be without it *)
Fixpoint run_state (cfg : prodcfg) (st : pstate) (h : list (exporter * N * bytes)) : pstate :=
  match h with
  | [] => st
  | (e, tr, d) :: r => run_state cfg (step_state st (nf_step cfg st e tr d)) r
  end.

Lemma same_view_refl e st : same_view e st st.
Proof. split; reflexivity. Qed.
Lemma same_view_trans e a b c : same_view e a b -> same_view e b c -> same_view e a c.
Proof. intros [A1 A2] [B1 B2]. split; [congruence|]. intros. rewrite A2, B2. reflexivity. Qed.

Lemma prefix_keeps_view cfg e : forall h st,
  Forall (fun x => exp_id (fst (fst x)) <> exp_id e /\ addr_id (eAddr (fst (fst x))) <> addr_id (eAddr e)) h ->
  same_view e st (run_state cfg st h).
Proof.
  induction h as [|[[e' tr] d] h IH]; intros st Hall; cbn [run_state]; [apply same_view_refl|].
  inversion Hall as [|? ? [H1 H2] Hr]; subst. cbn [fst] in *.
  eapply same_view_trans; [|apply IH; exact Hr].
  destruct (nf_step cfg st e' tr d) as [[[st' o] ms]| | |] eqn:E; cbn [step_state]; try apply same_view_refl.
  eapply nf_step_other_exporter; eauto.
Qed.

Lemma history_independent cfg e tr d h st :
  Forall (fun x => exp_id (fst (fst x)) <> exp_id e /\ addr_id (eAddr (fst (fst x))) <> addr_id (eAddr e)) h ->
  outputs (nf_step cfg (run_state cfg st h) e tr d) = outputs (nf_step cfg st e tr d).
Proof. intros H. symmetry. apply nf_step_view. apply prefix_keeps_view. exact H. Qed.
