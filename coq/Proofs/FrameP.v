(* C10, part 2: the dissector loop over a chain of layers that meet their contracts, and the
   full-capture theorem parse_packet (encode_frame f) ~ ref_frame f for EVERY well-formed frame. *)
From Coq Require Import String NArith ZArith List Bool Arith Lia ZifyN ZifyNat ZifyBool.
From GF Require Import Base.Res Base.Bytes Model.Msg Model.Packet Spec.Frame Proofs.BytesL Proofs.PacketP Proofs.FrameL.
Import ListNotations.
Open Scope N_scope.

(* ---- messages up to the order of assignments ---- *)
Definition meq (m b : msg) : Prop := (forall k, alookup (cols m) k = alookup (cols b) k) /\ unk m = unk b.
Definition others_eq (m b : msg) : Prop :=
  (forall k, k <> cLayerStack -> k <> cLayerSize -> alookup (cols m) k = alookup (cols b) k) /\ unk m = unk b.

Lemma meq_show m b : meq m b -> show_msg m = show_msg b.
Proof.
  intros [Hc Hu]. unfold show_msg. f_equal. f_equal; [|rewrite Hu; reflexivity].
  apply flat_map_ext. intros k. unfold show_col. rewrite Hc. reflexivity.
Qed.

Lemma others_eq_refl m : others_eq m m.
Proof. split; auto. Qed.
Lemma others_eq_trans a b c : others_eq a b -> others_eq b c -> others_eq a c.
Proof. intros [H1 U1] [H2 U2]. split; [intros k K1 K2; rewrite H1, H2; auto|congruence]. Qed.
Lemma others_eq_sym a b : others_eq a b -> others_eq b a.
Proof. intros [H1 U1]. split; [intros k K1 K2; rewrite H1; auto|congruence]. Qed.

Lemma alookup_mset m k v k' : alookup (cols (mset m k v)) k' = if k =? k' then Some v else alookup (cols m) k'.
Proof. reflexivity. Qed.
Lemma unk_mset m k v : unk (mset m k v) = unk m.
Proof. reflexivity. Qed.

Lemma others_eq_mset a b k v : others_eq a b -> others_eq (mset a k v) (mset b k v).
Proof.
  intros [H U]. split; [|exact U]. intros k' K1 K2. rewrite !alookup_mset. destruct (k =? k'); auto.
Qed.
Lemma others_eq_assign asg : forall a b, others_eq a b -> others_eq (assign asg a) (assign asg b).
Proof.
  induction asg as [|[k v] r IH]; intros a b H; [exact H|]. cbn [assign fold_left fst snd].
  apply IH. apply others_eq_mset. exact H.
Qed.
Lemma others_eq_stack m v : others_eq (mset m cLayerStack v) m.
Proof. split; [|reflexivity]. intros k K1 K2. rewrite alookup_mset. destruct (N.eqb_spec cLayerStack k); congruence. Qed.
Lemma others_eq_size m v : others_eq (mset m cLayerSize v) m.
Proof. split; [|reflexivity]. intros k K1 K2. rewrite alookup_mset. destruct (N.eqb_spec cLayerSize k); congruence. Qed.

(* assignments that stay away from the layer stack and the layer sizes *)
Definition keys_ok (asg : list (N * pval)) : Prop := Forall (fun kv => fst kv <> cLayerStack /\ fst kv <> cLayerSize) asg.
Lemma assign_stack asg : forall m, keys_ok asg ->
  mgetLI (assign asg m) cLayerStack = mgetLI m cLayerStack /\ mgetLI (assign asg m) cLayerSize = mgetLI m cLayerSize.
Proof.
  induction asg as [|[k v] r IH]; intros m H; [split; reflexivity|]. inversion H as [|? ? [K1 K2] Hr]; subst.
  cbn [assign fold_left fst snd] in *. destruct (IH (mset m k v) Hr) as [A B]. unfold assign in A, B. rewrite A, B.
  unfold mgetLI. rewrite !alookup_mset.
  destruct (N.eqb_spec k cLayerStack); [congruence|]. destruct (N.eqb_spec k cLayerSize); [congruence|]. split; reflexivity.
Qed.

(* ---- the state of the dissector between two layers ---- *)
Definition Inv (m b : msg) (ls : list (parser * N)) : Prop :=
  mgetLI m cLayerStack = map (fun x => layer_code (fst x)) ls /\ mgetLI m cLayerSize = map snd ls /\ others_eq m b.

Record layer := { lp : parser; lhdr : bytes; lasg : list (N * pval); lnext : parser; lneeds : bool }.

(* the parser of the layer, run on its header followed by `rest`, does what the layer says *)
Definition contract (l : layer) (rest : bytes) : Prop :=
  keys_ok (lasg l) /\ lp l <> PNone /\ (1 <= lenN (lhdr l) < 4294967296) /\
  forall base m, (lneeds l = true -> base = true -> mgetLB m cRhAddrs = []) ->
    run_parser [] (lp l) base m (lhdr l ++ rest) =
    Ok ((if base then assign (lasg l) else (fun x => x)) (add_layer m (lp l)), lenN (lhdr l), lnext l).

Definition encap_next (encap : bool) (p nextp : parser) : bool :=
  encap || (negb (encap_skip nextp) && (layer_index nextp <=? layer_index p)).

(* what a chain of layers does to (encapsulated?, base message, layer list); None when a layer
   that reads the segment list would find one already there *)
Fixpoint run_layers (encap : bool) (b : msg) (ls : list (parser * N)) (layers : list layer)
  : option (bool * msg * list (parser * N)) :=
  match layers with
  | [] => Some (encap, b, ls)
  | l :: r =>
      if lneeds l && negb encap && negb (match mgetLB b cRhAddrs with [] => true | _ => false end) then None else
      run_layers (encap_next encap (lp l) (lnext l)) (if encap then b else assign (lasg l) b)
                 (ls ++ [(lp l, lenN (lhdr l))]) r
  end.

Fixpoint chained (p : parser) (layers : list layer) : Prop :=
  match layers with [] => True | l :: r => lp l = p /\ chained (lnext l) r end.
(* what ParseMPLS peeks at behind its own header: the version nibble of the next byte.  A contract may
   depend on the bytes that follow the header only through this. *)
Definition contract_p (l : layer) (rest : bytes) : Prop :=
  forall rest', peek_etype rest' = peek_etype rest -> contract l rest'.
Lemma robust_p l rest : (forall r, contract l r) -> contract_p l rest.
Proof. intros H rest' _. apply H. Qed.
Fixpoint contracts (layers : list layer) (rest : bytes) : Prop :=
  match layers with [] => True | l :: r => contract_p l (concat (map lhdr r) ++ rest) /\ contracts r rest end.
Definition last_next (p : parser) (layers : list layer) : parser := last (map lnext layers) p.

Lemma mgetLB_others m b : others_eq m b -> mgetLB m cRhAddrs = mgetLB b cRhAddrs.
Proof. intros [H _]. unfold mgetLB. rewrite H by discriminate. reflexivity. Qed.

Lemma add_layer_inv m b ls p : Inv m b ls ->
  mgetLI (add_layer m p) cLayerStack = map (fun x => layer_code (fst x)) ls ++ [layer_code p] /\
  mgetLI (add_layer m p) cLayerSize = map snd ls /\ others_eq (add_layer m p) b.
Proof.
  intros (H1 & H2 & H3). unfold add_layer. rewrite H1. split; [|split].
  - unfold mgetLI at 1. rewrite alookup_mset. reflexivity.
  - unfold mgetLI in *. rewrite alookup_mset. replace (cLayerStack =? cLayerSize) with false by reflexivity. exact H2.
  - eapply others_eq_trans; [apply others_eq_stack|exact H3].
Qed.

Lemma parse_loop_S fu cfg data off p encap m : p <> PNone ->
  parse_loop (S fu) cfg data off p encap m =
  (if N.of_nat (length data) <? off then Ok m else
   let stack0 := length (mgetLI m cLayerStack) in
   let* (m1, size, nextp) := run_parser (cPorts cfg) p (negb encap) m (skipn (N.to_nat off) data) in
   let* m2 := apply_layer_maps (cLayers cfg) (config_keys p) encap data off m1 in
   let m3 := if Nat.ltb stack0 (length (mgetLI m1 cLayerStack))
             then mset m2 cLayerSize (VLI (mgetLI m2 cLayerSize ++ [size mod 4294967296])) else m2 in
   parse_loop fu cfg data (off + size) nextp (encap || (negb (encap_skip nextp) && (layer_index nextp <=? layer_index p))) m3).
Proof. intros H. destruct p; try congruence; reflexivity. Qed.

(* one turn of the loop on a layer that meets its contract *)
Lemma loop_layer fu data off encap m b ls l rest :
  skipn (N.to_nat off) data = lhdr l ++ rest -> off <= lenN data ->
  contract l rest -> Inv m b ls ->
  (lneeds l = true -> encap = false -> mgetLB b cRhAddrs = []) ->
  exists m', parse_loop (S fu) empty_pcfg data off (lp l) encap m =
             parse_loop fu empty_pcfg data (off + lenN (lhdr l)) (lnext l) (encap_next encap (lp l) (lnext l)) m' /\
             Inv m' (if encap then b else assign (lasg l) b) (ls ++ [(lp l, lenN (lhdr l))]).
Proof.
  intros Hs Ho (Hk & Hp & (Hl0 & Hl) & Hc) Hinv Hn.
  pose proof Hinv as (I1 & I2 & I3).
  rewrite parse_loop_S by exact Hp.
  replace (N.of_nat (length data) <? off) with false by (unfold lenN in Ho; lia).
  rewrite Hs. cbn [empty_pcfg cPorts cLayers]. cbv zeta.
  rewrite Hc by (intros Hnd Hb; rewrite (mgetLB_others m b I3); apply Hn; [exact Hnd|destruct encap; [discriminate|reflexivity]]).
  rewrite apply_layer_maps_nil.
  destruct (add_layer_inv m b ls (lp l) Hinv) as (A1 & A2 & A3).
  set (m1 := (if negb encap then assign (lasg l) else fun x => x) (add_layer m (lp l))).
  assert (S1 : mgetLI m1 cLayerStack = map (fun x => layer_code (fst x)) ls ++ [layer_code (lp l)])
    by (unfold m1; destruct encap; cbn [negb]; [exact A1|rewrite (proj1 (assign_stack (lasg l) _ Hk)); exact A1]).
  assert (S2 : mgetLI m1 cLayerSize = map snd ls)
    by (unfold m1; destruct encap; cbn [negb]; [exact A2|rewrite (proj2 (assign_stack (lasg l) _ Hk)); exact A2]).
  assert (S3 : others_eq m1 (if encap then b else assign (lasg l) b))
    by (unfold m1; destruct encap; cbn [negb]; [exact A3|apply others_eq_assign; exact A3]).
  replace (Nat.ltb (length (mgetLI m cLayerStack)) (length (mgetLI m1 cLayerStack))) with true
    by (symmetry; apply Nat.ltb_lt; rewrite S1, I1, app_length; cbn [length]; lia).
  eexists. split; [reflexivity|]. split; [|split].
  - unfold mgetLI at 1. rewrite alookup_mset. change (cLayerSize =? cLayerStack) with false.
    rewrite map_app. cbn [map fst]. rewrite <- S1. reflexivity.
  - unfold mgetLI at 1. rewrite alookup_mset, N.eqb_refl. rewrite S2, map_app. cbn [map snd].
    replace (lenN (lhdr l) mod 4294967296) with (lenN (lhdr l)) by lia. reflexivity.
  - eapply others_eq_trans; [apply others_eq_size|exact S3].
Qed.

Lemma skipn_add {A} (l : list A) a b : skipn (a + b) l = skipn b (skipn a l).
Proof. revert l. induction a as [|a IH]; intros l; [reflexivity|]. destruct l; [destruct b; reflexivity|]. cbn [Nat.add skipn]. apply IH. Qed.

Lemma parse_loop_none fu cfg data off encap m : parse_loop (S fu) cfg data off PNone encap m = Ok m.
Proof. reflexivity. Qed.

Lemma last_cons {A} (x : A) l d : last (x :: l) d = last l x.
Proof.
  revert x d. induction l as [|y r IH]; intros x d; [reflexivity|].
  change (last (x :: y :: r) d) with (last (y :: r) d). rewrite (IH y d), (IH y x). reflexivity.
Qed.

(* the loop over a whole chain *)
Lemma chain : forall layers fu data off encap m b ls rest p encap' b' ls',
  skipn (N.to_nat off) data = concat (map lhdr layers) ++ rest -> off <= lenN data ->
  chained p layers -> contracts layers rest -> Inv m b ls ->
  run_layers encap b ls layers = Some (encap', b', ls') ->
  exists m', parse_loop (length layers + fu) empty_pcfg data off p encap m =
             parse_loop fu empty_pcfg data (off + lenN (concat (map lhdr layers))) (last_next p layers) encap' m' /\
             Inv m' b' ls'.
Proof.
  induction layers as [|l r IH]; intros fu data off encap m b ls rest p encap' b' ls' Hs Ho Hch Hct Hinv Hrun.
  - cbn in Hrun. inversion Hrun; subst. exists m. split; [|exact Hinv].
    cbn [length Nat.add map concat last_next last]. unfold lenN. cbn [length]. rewrite N.add_0_r. reflexivity.
  - cbn [chained] in Hch. destruct Hch as [Hp Hch]. cbn [contracts] in Hct. destruct Hct as [Hc Hct].
    cbn [run_layers] in Hrun. cbn [map concat] in Hs. rewrite <- app_assoc in Hs.
    assert (Hneed : lneeds l = true -> encap = false -> mgetLB b cRhAddrs = []).
    { intros H1 H2. rewrite H1, H2 in Hrun. cbn [andb negb] in Hrun. destruct (mgetLB b cRhAddrs); [reflexivity|discriminate]. }
    replace (lneeds l && negb encap && negb match mgetLB b cRhAddrs with [] => true | _ :: _ => false end) with false in Hrun.
    2:{ destruct (lneeds l) eqn:E1; [|reflexivity]. destruct encap eqn:E2; [reflexivity|]. rewrite Hneed by reflexivity. reflexivity. }
    subst p. cbn [length Nat.add].
    destruct (loop_layer (length r + fu) data off encap m b ls l (concat (map lhdr r) ++ rest) Hs Ho (Hc _ eq_refl) Hinv Hneed) as (m1 & E1 & Hinv1).
    rewrite E1.
    assert (Hlen : length (skipn (N.to_nat off) data) = (length (lhdr l) + length (concat (map lhdr r) ++ rest))%nat)
      by (rewrite Hs, app_length; reflexivity).
    rewrite skipn_length in Hlen.
    destruct (IH fu data (off + lenN (lhdr l)) (encap_next encap (lp l) (lnext l)) m1 (if encap then b else assign (lasg l) b) (ls ++ [(lp l, lenN (lhdr l))]) rest (lnext l) encap' b' ls') as (m2 & E2 & Hinv2); try assumption.
    + replace (N.to_nat (off + lenN (lhdr l))) with (N.to_nat off + length (lhdr l))%nat by (unfold lenN; lia).
      rewrite skipn_add, Hs. apply skipn_exact.
    + unfold lenN in *. lia.
    + rewrite E2. exists m2. split; [|exact Hinv2].
      cbn [map concat]. unfold lenN. rewrite app_length. unfold last_next. cbn [map].
      replace (off + N.of_nat (length (lhdr l)) + N.of_nat (length (concat (map lhdr r))))
        with (off + N.of_nat (length (lhdr l) + length (concat (map lhdr r)))) by lia.
      rewrite last_cons. reflexivity.
Qed.

(* ---- chains compose ---- *)
Lemma last_next_app p a c : last_next p (a ++ c) = last_next (last_next p a) c.
Proof.
  unfold last_next. revert p. induction a as [|x a IH]; intros p; [reflexivity|].
  cbn [app map]. rewrite !last_cons. apply IH.
Qed.
Lemma chained_app a : forall p c, chained p (a ++ c) <-> chained p a /\ chained (last_next p a) c.
Proof.
  induction a as [|x a IH]; intros p c; cbn [app chained].
  - unfold last_next. cbn. tauto.
  - rewrite IH. unfold last_next. cbn [map]. rewrite last_cons. tauto.
Qed.
Lemma contracts_app a : forall c rest,
  contracts (a ++ c) rest <-> contracts a (concat (map lhdr c) ++ rest) /\ contracts c rest.
Proof.
  induction a as [|x a IH]; intros c rest; cbn [app contracts]; [tauto|].
  rewrite IH. rewrite map_app, concat_app, <- app_assoc. tauto.
Qed.
Lemma run_layers_app a : forall c e b ls,
  run_layers e b ls (a ++ c) =
  match run_layers e b ls a with Some (e', b', ls') => run_layers e' b' ls' c | None => None end.
Proof.
  induction a as [|x a IH]; intros c e b ls; cbn [app run_layers]; [reflexivity|].
  destruct (lneeds x && negb e && negb match mgetLB b cRhAddrs with [] => true | _ :: _ => false end); [reflexivity|].
  apply IH.
Qed.

(* ---- the layers of a frame ---- *)
Definition mk (p : parser) (h : bytes) (a : list (N * pval)) (nx : parser) (needs : bool) : layer :=
  {| lp := p; lhdr := h; lasg := a; lnext := nx; lneeds := needs |}.
Definition eth_layer (dst src et : N) : layer :=
  mk PEthernet (enc_be 6 dst ++ enc_be 6 src ++ enc_be 2 et) [(cSrcMac, VI src); (cDstMac, VI dst); (cEtype, VI et)] (next_etype et) false.
Definition vlan_layer (v et : N) : layer :=
  mk PDot1Q (enc_be 2 v ++ enc_be 2 et) [(cVlanId, VI v); (cEtype, VI et)] (next_etype et) false.
Definition mpls_layer (ls : list (N * N)) (e : N) : layer :=
  mk PMPLS (enc_mpls ls) [(cEtype, VI e); (cMplsLabel, VLI (map fst ls)); (cMplsTtl, VLI (map snd ls))] (next_etype e) false.
Definition ip4_layer (h : ip4) (next tl : N) : layer := mk PIPv4 (ip4_hdr h next tl) (ip4_assign h next) (next_proto next) false.
Definition ip6_layer (h : ip6) (nh pl : N) : layer := mk PIPv6 (ip6_hdr h nh pl) (ip6_assign h nh) (next_proto nh) false.
Definition srh_layer (next : N) (s : N * list bytes) : layer :=
  mk PV6Route (enc_srh next s) [(cRhSegLeft, VI (fst s)); (cRhAddrs, VLB (snd s))] (next_proto next) true.
Definition frag_assign (f : N * N * N) : list (N * pval) :=
  let '(off, fl, id) := f in [(cFragId, VI id); (cFragOff, VI off); (cIpFlags, VI fl)].
Definition frag_layer (next : N) (f : N * N * N) : layer := mk PV6Frag (enc_frag next f) (frag_assign f) (next_proto next) false.
Definition gre_layer (et : N) : layer := mk PGRE ([0; 0] ++ enc_be 2 et) [] (next_etype et) false.

Definition l4_assign (x : l4) : list (N * pval) :=
  match x with
  | L4TCP sp dp fl _ => [(cSrcPort, VI sp); (cDstPort, VI dp); (cTcpFlags, VI fl)]
  | L4UDP sp dp => [(cSrcPort, VI sp); (cDstPort, VI dp)]
  | L4ICMP t c | L4ICMP6 t c => [(cIcmpType, VI t); (cIcmpCode, VI c)]
  | L4Other _ _ => []
  end.
Definition l4_chain (x : l4) : list layer :=
  match x with
  | L4TCP _ _ _ _ => [mk PTCP (enc_l4 x) (l4_assign x) PNone false]
  | L4UDP _ _ => [mk PUDP (enc_l4 x) (l4_assign x) PNone false]
  | L4ICMP _ _ => [mk PICMP (enc_l4 x) (l4_assign x) PNone false]
  | L4ICMP6 _ _ => [mk PICMPv6 (enc_l4 x) (l4_assign x) PNone false]
  | L4Other _ _ => []
  end.
Definition l4_rest (x : l4) (tail : bytes) : bytes := match x with L4Other _ p => p ++ tail | _ => tail end.
Definition wf_l4 (x : l4) : bool :=
  match x with
  | L4TCP sp dp _ ow => (sp <? 65536) && (dp <? 65536) && (ow <=? 10)
  | L4UDP sp dp => (sp <? 65536) && (dp <? 65536)
  | L4ICMP _ _ | L4ICMP6 _ _ => true
  | L4Other p _ => match next_proto p with PNone => true | _ => false end
  end.

Ltac keys := repeat constructor; cbn [fst]; discriminate.

Lemma tcp_lenN sp dp fl ow : lenN (enc_l4 (L4TCP sp dp fl ow)) = 20 + 4 * ow.
Proof. unfold lenN, enc_l4. rewrite !app_length, !enc_be_len, repeat_length. cbn [length]. lia. Qed.

Lemma l4_bytes x tail : enc_l4 x ++ tail = concat (map lhdr (l4_chain x)) ++ l4_rest x tail.
Proof. destruct x; cbn [l4_chain map lhdr mk concat l4_rest app]; rewrite ?app_nil_r; reflexivity. Qed.

Lemma l4_chained x : wf_l4 x = true ->
  chained (next_proto (l4_proto x)) (l4_chain x) /\ last_next (next_proto (l4_proto x)) (l4_chain x) = PNone.
Proof.
  destruct x; cbn [wf_l4 l4_chain l4_proto chained]; intros H; unfold last_next; cbn; try tauto.
  destruct (next_proto proto); try discriminate. tauto.
Qed.


Lemma l4_contracts x rest : wf_l4 x = true -> contracts (l4_chain x) rest.
Proof.
  destruct x; cbn [wf_l4 l4_chain contracts map concat app]; intros H; try exact I; split; try exact I; rewrite ?app_nil_l; intros rest' _.
  - apply andb_prop in H. destruct H as [H H3]. apply andb_prop in H. destruct H as [H1 H2].
    apply N.ltb_lt in H1. apply N.ltb_lt in H2. apply N.leb_le in H3.
    unfold contract. cbn [mk lp lhdr lasg lnext lneeds]. split; [keys|]. split; [discriminate|].
    rewrite tcp_lenN. split; [lia|].
    intros base m _. rewrite tcp_contract by assumption. reflexivity.
  - apply andb_prop in H. destruct H as [H1 H2]. apply N.ltb_lt in H1. apply N.ltb_lt in H2.
    unfold contract. cbn [mk lp lhdr lasg lnext lneeds]. split; [keys|]. split; [discriminate|].
    assert (L : lenN (enc_l4 (L4UDP sp dp)) = 8) by reflexivity. rewrite L. split; [lia|].
    intros base m _. rewrite udp_contract by assumption. reflexivity.
  - unfold contract. cbn [mk lp lhdr lasg lnext lneeds]. split; [keys|]. split; [discriminate|].
    assert (L : lenN (enc_l4 (L4ICMP ty code)) = 8) by reflexivity. rewrite L. split; [lia|].
    intros base m _. unfold enc_l4. rewrite <- !app_assoc. rewrite (icmp_contract [] base m false). reflexivity.
  - unfold contract. cbn [mk lp lhdr lasg lnext lneeds]. split; [keys|]. split; [discriminate|].
    assert (L : lenN (enc_l4 (L4ICMP6 ty code)) = 8) by reflexivity. rewrite L. split; [lia|].
    intros base m _. unfold enc_l4. rewrite <- !app_assoc. rewrite (icmp_contract [] base m true). reflexivity.
Qed.

Lemma l4_run e b ls x :
  exists e', run_layers e b ls (l4_chain x) = Some (e', if e then b else assign (l4_assign x) b, ls ++ l4_layer x).
Proof.
  destruct x; cbn [l4_chain run_layers mk lp lhdr lasg lnext lneeds andb l4_layer l4_assign]; eexists;
    rewrite ?tcp_lenN; try reflexivity.
  - rewrite app_nil_r. destruct e; reflexivity.
Qed.

(* ---- the IP layers ---- *)
Definition l3_parser (x : l3) : parser := match x with L3v4 _ => PIPv4 | L3v6 _ => PIPv6 end.
Definition v6_ext_chain (h : ip6) (next : N) : list layer :=
  match i6Srh h, i6Frag h with
  | None, None => []
  | Some s, None => [srh_layer next s]
  | None, Some f => [frag_layer next f]
  | Some s, Some f => [srh_layer 44 s; frag_layer next f]
  end.
Definition l3_chain (x : l3) (next plen : N) : list layer :=
  match x with
  | L3v4 h => [ip4_layer h next (20 + plen)]
  | L3v6 h => ip6_layer h (fst (v6_chain h next)) (lenN (snd (v6_chain h next)) + plen) :: v6_ext_chain h next
  end.
Definition srh_assign (s : N * list bytes) : list (N * pval) := [(cRhSegLeft, VI (fst s)); (cRhAddrs, VLB (snd s))].
Definition l3_assign (x : l3) (next : N) : list (N * pval) :=
  match x with
  | L3v4 h => ip4_assign h next
  | L3v6 h => ip6_assign h (fst (v6_chain h next)) ++
              match i6Srh h with Some s => srh_assign s | None => [] end ++
              match i6Frag h with Some f => frag_assign f | None => [] end
  end.
Definition l3_last (x : l3) : parser :=
  match x with
  | L3v4 _ => PIPv4
  | L3v6 h => match i6Frag h with Some _ => PV6Frag | None => match i6Srh h with Some _ => PV6Route | None => PIPv6 end end
  end.
Definition wf_frag (f : N * N * N) : bool := let '(off, fl, id) := f in (off <? 8192) && (fl <? 8) && (id <? 4294967296).
Definition wf_l3 (x : l3) : bool :=
  match x with
  | L3v4 h => wf_ip4 h
  | L3v6 h => wf_ip6_base h && match i6Srh h with Some s => wf_srh s | None => true end
                            && match i6Frag h with Some f => wf_frag f | None => true end
  end.

Lemma assign_app a c m : assign (a ++ c) m = assign c (assign a m).
Proof. unfold assign. apply fold_left_app. Qed.

Lemma set_l3_assign m x next : set_l3 m x next = assign (l3_assign x next) m.
Proof.
  destruct x as [h|h]; [reflexivity|]. unfold set_l3, l3_assign. rewrite !assign_app.
  destruct (i6Srh h) as [[sl segs]|]; destruct (i6Frag h) as [[[off fl] id]|]; reflexivity.
Qed.
Lemma set_l4_assign m x : set_l4 m x = assign (l4_assign x) m.
Proof. destruct x; reflexivity. Qed.

Lemma l3_bytes x next payload :
  enc_l3 x next payload = concat (map lhdr (l3_chain x next (lenN payload))) ++ payload.
Proof.
  destruct x as [h|h].
  - rewrite enc_l3_v4. cbn [l3_chain map concat lhdr ip4_layer mk]. rewrite app_nil_r. reflexivity.
  - rewrite enc_l3_v6. cbn [l3_chain map concat lhdr ip6_layer mk]. rewrite <- app_assoc. f_equal. f_equal.
    unfold v6_chain, v6_ext_chain.
    destruct (i6Srh h) as [s|]; destruct (i6Frag h) as [f|]; cbn [snd map concat lhdr srh_layer frag_layer mk]; rewrite ?app_nil_r; reflexivity.
Qed.

Lemma l3_chained x next plen :
  chained (l3_parser x) (l3_chain x next plen) /\ last_next (l3_parser x) (l3_chain x next plen) = next_proto next.
Proof.
  destruct x as [h|h]; unfold last_next; cbn [l3_chain l3_parser chained]; [cbn; tauto|].
  unfold v6_chain, v6_ext_chain. destruct (i6Srh h) as [s|]; destruct (i6Frag h) as [f|]; cbn; tauto.
Qed.

Lemma concat_len16 (segs : list bytes) : forallb (fun x => Nat.eqb (length x) 16) segs = true ->
  length (concat segs) = (16 * length segs)%nat.
Proof.
  induction segs as [|s q IH]; intros H; [reflexivity|]. cbn [forallb] in H. apply andb_prop in H. destruct H as [H1 H2].
  apply Nat.eqb_eq in H1. cbn [concat length]. rewrite app_length, IH by exact H2. lia.
Qed.

Lemma srh_len next s : wf_srh s = true -> lenN (enc_srh next s) = 8 + 16 * lenN (snd s).
Proof.
  destruct s as [sl segs]. unfold wf_srh. cbn [snd]. intros H. apply andb_prop in H. destruct H as [_ H].
  unfold enc_srh, lenN. rewrite app_length, (concat_len16 _ H). cbn [length]. lia.
Qed.

Lemma ip4_layer_contract h next tl rest : wf_ip4 h = true -> contract (ip4_layer h next tl) rest.
Proof.
  intros H. unfold contract. cbn [ip4_layer mk lp lhdr lasg lnext lneeds].
  assert (L : lenN (ip4_hdr h next tl) = 20) by (unfold lenN; rewrite ip4_hdr_len by exact H; reflexivity).
  rewrite L. split; [unfold ip4_assign; keys|]. split; [discriminate|]. split; [lia|].
  intros base m _. apply ip4_contract. exact H.
Qed.
Lemma ip6_layer_contract h nh pl rest : wf_ip6_base h = true -> contract (ip6_layer h nh pl) rest.
Proof.
  intros H. unfold contract. cbn [ip6_layer mk lp lhdr lasg lnext lneeds].
  assert (L : lenN (ip6_hdr h nh pl) = 40) by (unfold lenN; rewrite ip6_hdr_len by exact H; reflexivity).
  rewrite L. split; [unfold ip6_assign; keys|]. split; [discriminate|]. split; [lia|].
  intros base m _. apply ip6_contract. exact H.
Qed.
Lemma srh_layer_contract next s rest : wf_srh s = true -> contract (srh_layer next s) rest.
Proof.
  intros H. unfold contract. cbn [srh_layer mk lp lhdr lasg lnext lneeds].
  rewrite (srh_len next s H). split; [keys|]. split; [discriminate|].
  split; [pose proof H as H'; unfold wf_srh in H'; apply andb_prop in H'; destruct H' as [H' _]; apply N.leb_le in H'; lia|].
  intros base m Hm. destruct s as [sl segs]. cbn [fst snd]. destruct base.
  - apply srh_contract; [exact H|apply Hm; reflexivity].
  - (* encapsulated: nothing is read from the message *)
    unfold wf_srh in H. cbn [snd] in H. apply andb_prop in H. destruct H as [Hn Hs].
    unfold enc_srh. cbn [run_parser]. rewrite <- app_assoc.
    set (d := [next; 2 * lenN segs; 4; sl; (lenN segs + 255) mod 256; 0; 0; 0] ++ concat segs ++ rest).
    replace (Nat.ltb (length d) 8) with false by (symmetry; apply Nat.ltb_ge; unfold d; rewrite app_length; cbn [length]; lia).
    change (byte_at d 0) with next. change (byte_at d 1) with (2 * lenN segs).
    replace (N.of_nat (8 + 8 * N.to_nat (2 * lenN segs))) with (8 + 16 * lenN segs) by (unfold lenN, bytes; lia).
    reflexivity.
Qed.
Lemma frag_layer_contract next f rest : wf_frag f = true -> contract (frag_layer next f) rest.
Proof.
  destruct f as [[off fl] id]. unfold wf_frag. intros H. repeat (apply andb_prop in H; destruct H as [H ?]).
  repeat match goal with X : (_ <? _) = true |- _ => apply N.ltb_lt in X end.
  unfold contract. cbn [frag_layer frag_assign mk lp lhdr lasg lnext lneeds].
  assert (L : lenN (enc_frag next (off, fl, id)) = 8) by reflexivity. rewrite L.
  split; [keys|]. split; [discriminate|]. split; [lia|].
  intros base m _. apply frag_contract; assumption.
Qed.

Lemma l3_contracts x next plen rest : wf_l3 x = true -> contracts (l3_chain x next plen) rest.
Proof.
  destruct x as [h|h]; cbn [wf_l3 l3_chain contracts]; intros H.
  - split; [apply robust_p; intros r; apply ip4_layer_contract; exact H|exact I].
  - apply andb_prop in H. destruct H as [H Hf]. apply andb_prop in H. destruct H as [Hb Hs].
    split; [apply robust_p; intros r; apply ip6_layer_contract; exact Hb|].
    unfold v6_ext_chain. destruct (i6Srh h) as [s|]; destruct (i6Frag h) as [f|]; cbn [contracts].
    + split; [apply robust_p; intros r; apply srh_layer_contract; assumption|].
      split; [apply robust_p; intros r; apply frag_layer_contract; assumption|exact I].
    + split; [apply robust_p; intros r; apply srh_layer_contract; assumption|exact I].
    + split; [apply robust_p; intros r; apply frag_layer_contract; assumption|exact I].
    + exact I.
Qed.

Lemma ip4_hdr_lenN h next tl : wf_ip4 h = true -> lenN (ip4_hdr h next tl) = 20.
Proof. intros H. unfold lenN. rewrite ip4_hdr_len by exact H. reflexivity. Qed.
Lemma ip6_hdr_lenN h nh pl : wf_ip6_base h = true -> lenN (ip6_hdr h nh pl) = 40.
Proof. intros H. unfold lenN. rewrite ip6_hdr_len by exact H. reflexivity. Qed.
Lemma frag_lenN next f : lenN (enc_frag next f) = 8.
Proof. destruct f as [[off fl] id]. reflexivity. Qed.

Lemma l3_run e b ls x next plen :
  wf_l3 x = true -> (e = true \/ mgetLB b cRhAddrs = []) ->
  run_layers e b ls (l3_chain x next plen) =
  Some (encap_next e (l3_last x) (next_proto next), if e then b else assign (l3_assign x next) b, ls ++ l3_layers x).
Proof.
  intros Hwf Hb. destruct x as [h|h]; cbn [wf_l3] in Hwf.
  - cbn [l3_chain run_layers ip4_layer mk lp lhdr lasg lnext lneeds andb l3_last l3_assign l3_layers].
    rewrite ip4_hdr_lenN by exact Hwf. reflexivity.
  - apply andb_prop in Hwf. destruct Hwf as [Hwf Hf]. apply andb_prop in Hwf. destruct Hwf as [Hbase Hs].
    cbn [l3_chain run_layers ip6_layer mk lp lhdr lasg lnext lneeds andb].
    rewrite ip6_hdr_lenN by exact Hbase.
    unfold v6_chain, v6_ext_chain, l3_last, l3_assign, l3_layers, v6_chain.
    destruct (i6Srh h) as [[sl segs]|] eqn:Es; destruct (i6Frag h) as [f|] eqn:Ef;
      cbn [fst snd run_layers srh_layer frag_layer mk lp lhdr lasg lnext lneeds andb app];
      rewrite ?frag_lenN, ?(srh_len _ (sl, segs) Hs); cbn [snd];
      destruct e; cbn [negb andb];
      try (destruct Hb as [Hb|Hb]; [discriminate|]);
      try (replace (mgetLB (assign (ip6_assign h 43) b) cRhAddrs) with (mgetLB b cRhAddrs) by reflexivity; rewrite Hb);
      rewrite <- ?app_assoc; rewrite ?assign_app; reflexivity.
Qed.

(* ---- Ethernet, VLAN tags, MPLS ---- *)
Definition head_et (vs : list N) (final : N) : N := match vs with [] => final | _ => 33024 end.
Fixpoint vlan_chain (vs : list N) (final : N) : list layer :=
  match vs with [] => [] | v :: r => vlan_layer v (head_et r final) :: vlan_chain r final end.

Lemma vlan_bytes vs final rest :
  concat (map (fun v => enc_be 2 33024 ++ enc_be 2 v) vs) ++ enc_be 2 final ++ rest =
  enc_be 2 (head_et vs final) ++ concat (map lhdr (vlan_chain vs final)) ++ rest.
Proof.
  induction vs as [|v r IH]; [reflexivity|].
  cbn [map concat vlan_chain lhdr vlan_layer mk head_et]. rewrite <- !app_assoc. rewrite IH. reflexivity.
Qed.

Definition l3ish (et : N) : Prop := et = 34887 \/ et = 2048 \/ et = 34525.

Lemma vlan_chained vs final : chained (next_etype (head_et vs final)) (vlan_chain vs final) /\
  last_next (next_etype (head_et vs final)) (vlan_chain vs final) = next_etype final.
Proof.
  induction vs as [|v r IH]; [unfold last_next; cbn; tauto|].
  cbn [vlan_chain chained head_et]. unfold last_next in *. cbn [map]. rewrite last_cons.
  cbn [vlan_layer mk lp lnext]. destruct IH as [IH1 IH2]. repeat split; assumption.
Qed.

Lemma vlan_layer_contract v et rest : v < 65536 -> et < 65536 -> contract (vlan_layer v et) rest.
Proof.
  intros Hv He. unfold contract. cbn [vlan_layer mk lp lhdr lasg lnext lneeds].
  assert (L : lenN (enc_be 2 v ++ enc_be 2 et) = 4) by reflexivity. rewrite L.
  split; [keys|]. split; [discriminate|]. split; [lia|].
  intros base m _. rewrite <- app_assoc. apply dot1q_contract; assumption.
Qed.

Lemma vlan_contracts vs final rest : forallb (fun v => v <? 65536) vs = true -> final < 65536 ->
  contracts (vlan_chain vs final) rest.
Proof.
  induction vs as [|v r IH]; intros H Hf; [exact I|]. cbn [forallb] in H. apply andb_prop in H. destruct H as [Hv Hr].
  apply N.ltb_lt in Hv. cbn [vlan_chain contracts]. split; [|apply IH; assumption].
  apply robust_p; intros r0; apply vlan_layer_contract; [exact Hv|]. destruct r; cbn [head_et]; [exact Hf|lia].
Qed.

Ltac lookups :=
  split; [intros k K1 K2; unfold msetI, assign; cbn [fold_left fst snd]; rewrite !alookup_mset;
          repeat match goal with |- context [?c =? k] => destruct (N.eqb_spec c k) as [<-|?]; [simpl; reflexivity|] end;
          reflexivity
         | reflexivity].

Lemma vlan_run : forall vs final b ls, l3ish final ->
  exists bV, run_layers false b ls (vlan_chain vs final) = Some (false, bV, ls ++ map (fun _ => (PDot1Q, 4)) vs) /\
             others_eq bV (match rev vs with v :: _ => msetI (msetI b cVlanId v) cEtype final | [] => b end).
Proof.
  induction vs as [|v r IH]; intros final b ls Hf.
  - exists b. cbn [vlan_chain run_layers map rev]. rewrite app_nil_r. split; [reflexivity|apply others_eq_refl].
  - cbn [vlan_chain run_layers vlan_layer mk lp lhdr lasg lnext lneeds andb].
    replace (lenN (enc_be 2 v ++ enc_be 2 (head_et r final))) with 4 by reflexivity.
    assert (E : encap_next false PDot1Q (next_etype (head_et r final)) = false).
    { destruct r; cbn [head_et]; [destruct Hf as [->|[->| ->]]; reflexivity|reflexivity]. }
    rewrite E.
    destruct (IH final (assign [(cVlanId, VI v); (cEtype, VI (head_et r final))] b) (ls ++ [(PDot1Q, 4)]) Hf) as (bV & R & O).
    exists bV. split; [rewrite R; cbn [map]; rewrite <- app_assoc; reflexivity|].
    eapply others_eq_trans; [exact O|]. cbn [rev].
    destruct r as [|v' r']; [cbn [rev app head_et]; apply others_eq_refl|].
    destruct (rev (v' :: r')) as [|w q] eqn:Er.
    + apply (f_equal (@length N)) in Er. rewrite rev_length in Er. discriminate.
    + cbn [app head_et]. lookups.
Qed.

Definition after_et (f : frame) : N := match fMpls f with [] => l3_etype (fOuter f) | _ => 34887 end.
Definition mpls_chain (f : frame) : list layer :=
  match fMpls f with [] => [] | ls => [mpls_layer ls (l3_etype (fOuter f))] end.
Definition front_chain (f : frame) : list layer :=
  eth_layer (fDst f) (fSrc f) (head_et (fVlans f) (after_et f)) :: vlan_chain (fVlans f) (after_et f) ++ mpls_chain f.

Definition pre_front (f : frame) : msg :=
  let m := msetI (msetI (msetI empty_msg cSrcMac (fSrc f)) cDstMac (fDst f)) cEtype (l3_etype (fOuter f)) in
  let m := match rev (fVlans f) with v :: _ => msetI m cVlanId v | [] => m end in
  match fMpls f with
  | [] => m
  | ls => mset (mset m cMplsLabel (VLI (map fst ls))) cMplsTtl (VLI (map snd ls))
  end.
Definition front_layers (f : frame) : list (parser * N) :=
  [(PEthernet, 14)] ++ map (fun _ => (PDot1Q, 4)) (fVlans f) ++
  (match fMpls f with [] => [] | ls => [(PMPLS, 4 * lenN ls)] end).

Lemma l3_etype_cases x : l3_etype x = 2048 /\ l3_parser x = PIPv4 \/ l3_etype x = 34525 /\ l3_parser x = PIPv6.
Proof. destruct x; [left|right]; split; reflexivity. Qed.
Lemma next_etype_l3 x : next_etype (l3_etype x) = l3_parser x.
Proof. destruct x; reflexivity. Qed.

Lemma front_bytes f rest :
  enc_be 6 (fDst f) ++ enc_be 6 (fSrc f) ++
  concat (map (fun v => enc_be 2 33024 ++ enc_be 2 v) (fVlans f)) ++
  (match fMpls f with
   | [] => enc_be 2 (l3_etype (fOuter f)) ++ rest
   | ls => enc_be 2 34887 ++ enc_mpls ls ++ rest
   end) = concat (map lhdr (front_chain f)) ++ rest.
Proof.
  unfold front_chain, mpls_chain, after_et. cbn [map concat lhdr eth_layer mk]. rewrite map_app, concat_app. rewrite <- !app_assoc.
  f_equal. f_equal.
  destruct (fMpls f) as [|x ls].
  - rewrite vlan_bytes. cbn [map concat]. rewrite app_nil_l. reflexivity.
  - rewrite vlan_bytes. cbn [map concat lhdr mpls_layer mk]. rewrite app_nil_r. reflexivity.
Qed.

Lemma front_chained f :
  chained PEthernet (front_chain f) /\ last_next PEthernet (front_chain f) = l3_parser (fOuter f).
Proof.
  unfold front_chain. cbn [chained eth_layer mk lp lnext]. split; [split; [reflexivity|]|].
  - apply chained_app. destruct (vlan_chained (fVlans f) (after_et f)) as [C1 C2]. split; [exact C1|]. rewrite C2.
    unfold mpls_chain, after_et. destruct (fMpls f); cbn [chained]; [exact I|]. split; [reflexivity|exact I].
  - change (eth_layer (fDst f) (fSrc f) (head_et (fVlans f) (after_et f)) :: vlan_chain (fVlans f) (after_et f) ++ mpls_chain f)
      with ([eth_layer (fDst f) (fSrc f) (head_et (fVlans f) (after_et f))] ++ vlan_chain (fVlans f) (after_et f) ++ mpls_chain f).
    rewrite !last_next_app.
    change (last_next PEthernet [eth_layer (fDst f) (fSrc f) (head_et (fVlans f) (after_et f))]) with (next_etype (head_et (fVlans f) (after_et f))).
    rewrite (proj2 (vlan_chained (fVlans f) (after_et f))).
    unfold mpls_chain, after_et, last_next. destruct (fMpls f); cbn; apply next_etype_l3.
Qed.

(* VLAN tags: the property quantifies over tags whose priority and DEI bits are 0, i.e. tag control words below 4096
   (the dissector reports the whole tag control word as vlan_id) *)
Lemma vlans_small vs : forallb (fun v => v <? 4096) vs = true -> forallb (fun v => v <? 65536) vs = true.
Proof.
  induction vs as [|v r IH]; cbn [forallb]; [reflexivity|]. intros H. apply andb_prop in H. destruct H as [H1 H2].
  apply N.ltb_lt in H1. rewrite IH by exact H2. replace (v <? 65536) with true by (symmetry; apply N.ltb_lt; lia). reflexivity.
Qed.

Definition wf_front (f : frame) : bool :=
  (fDst f <? 281474976710656) && (fSrc f <? 281474976710656) && forallb (fun v => v <? 4096) (fVlans f) &&
  forallb wf_label (fMpls f) && (lenN (fMpls f) <=? 1000).

Lemma after_et_small f : after_et f < 65536 /\ l3ish (after_et f).
Proof. unfold after_et, l3ish. destruct (fMpls f); [destruct (fOuter f); cbn; split; try lia; tauto|split; [lia|tauto]]. Qed.

Lemma eth_layer_contract dst src et rest :
  dst < 281474976710656 -> src < 281474976710656 -> et < 65536 -> contract (eth_layer dst src et) rest.
Proof.
  intros Hd Hs He. unfold contract. cbn [eth_layer mk lp lhdr lasg lnext lneeds].
  assert (L : lenN (enc_be 6 dst ++ enc_be 6 src ++ enc_be 2 et) = 14) by reflexivity. rewrite L.
  split; [keys|]. split; [discriminate|]. split; [lia|].
  intros base m _. rewrite <- !app_assoc. apply eth_contract; assumption.
Qed.

Lemma mpls_lenN ls : lenN (enc_mpls ls) = 4 * lenN ls.
Proof. unfold lenN. rewrite enc_mpls_bytes, mpls_bytes_len. lia. Qed.

Lemma front_contracts f rest :
  wf_front f = true -> peek_etype rest = Some (l3_etype (fOuter f)) -> contracts (front_chain f) rest.
Proof.
  unfold wf_front. intros H Hpeek. repeat (apply andb_prop in H; destruct H as [H ?]).
  repeat match goal with X : (_ <? _) = true |- _ => apply N.ltb_lt in X | X : (_ <=? _) = true |- _ => apply N.leb_le in X end.
  destruct (after_et_small f) as [Ha _].
  unfold front_chain. cbn [contracts]. split.
  - apply robust_p; intros r; apply eth_layer_contract; try assumption. destruct (fVlans f); cbn [head_et]; [exact Ha|lia].
  - apply contracts_app. split; [apply vlan_contracts; [apply vlans_small|]; assumption|].
    unfold mpls_chain. destruct (fMpls f) as [|x ls] eqn:Em; cbn [contracts]; [exact I|]. split; [|exact I].
    cbn [map concat app]. intros rest' Hp'. unfold contract. cbn [mpls_layer mk lp lhdr lasg lnext lneeds].
    rewrite mpls_lenN. split; [keys|]. split; [discriminate|]. split; [unfold lenN in *; cbn [length] in *; lia|].
    intros base m _. apply mpls_contract; [discriminate|assumption|rewrite Hp'; exact Hpeek].
Qed.

Lemma front_run f :
  exists bF, run_layers false empty_msg [] (front_chain f) = Some (false, bF, front_layers f) /\ others_eq bF (pre_front f).
Proof.
  unfold front_chain. cbn [run_layers eth_layer mk lp lhdr lasg lnext lneeds andb app].
  replace (lenN (enc_be 6 (fDst f) ++ enc_be 6 (fSrc f) ++ enc_be 2 (head_et (fVlans f) (after_et f)))) with 14 by reflexivity.
  destruct (after_et_small f) as [_ Hl].
  assert (E : encap_next false PEthernet (next_etype (head_et (fVlans f) (after_et f))) = false).
  { destruct (fVlans f); cbn [head_et]; [destruct Hl as [->|[->| ->]]; reflexivity|reflexivity]. }
  rewrite E. rewrite run_layers_app.
  set (b0 := assign [(cSrcMac, VI (fSrc f)); (cDstMac, VI (fDst f)); (cEtype, VI (head_et (fVlans f) (after_et f)))] empty_msg).
  destruct (vlan_run (fVlans f) (after_et f) b0 [(PEthernet, 14)] Hl) as (bV & R & O). rewrite R.
  unfold mpls_chain, front_layers, pre_front, after_et in *.
  destruct (fMpls f) as [|x ls] eqn:Em.
  - cbn [run_layers]. exists bV. split; [rewrite app_nil_r; reflexivity|].
    eapply others_eq_trans; [exact O|]. unfold b0. destruct (rev (fVlans f)) as [|w q] eqn:Er.
    + assert (fVlans f = []) by (destruct (fVlans f); [reflexivity|apply (f_equal (@length N)) in Er; rewrite rev_length in Er; discriminate]).
      rewrite H. cbn [head_et]. lookups.
    + lookups.
  - cbn [run_layers mpls_layer mk lp lhdr lasg lnext lneeds andb]. rewrite mpls_lenN.
    exists (assign [(cEtype, VI (l3_etype (fOuter f))); (cMplsLabel, VLI (map fst (x :: ls))); (cMplsTtl, VLI (map snd (x :: ls)))] bV).
    split.
    + rewrite next_etype_l3. replace (encap_next false PMPLS (l3_parser (fOuter f))) with false by (destruct (fOuter f); reflexivity).
      rewrite <- app_assoc. reflexivity.
    + eapply others_eq_trans; [apply others_eq_assign; exact O|]. unfold b0.
      destruct (rev (fVlans f)) as [|w q] eqn:Er; lookups.
Qed.

(* ---- behind the outer IP header: tunnel, inner IP, transport ---- *)
Definition l4b (f : frame) : bytes := enc_l4 (fL4 f) ++ fTail f.
Definition inner_chain (f : frame) : list layer :=
  l3_chain (fInner f) (l4_proto (fL4 f)) (lenN (l4b f)) ++ l4_chain (fL4 f).
Definition tail_chain (f : frame) : list layer :=
  match fTun f with
  | TNone => l4_chain (fL4 f)
  | TGRE => gre_layer (l3_etype (fInner f)) :: inner_chain f
  | TGREEth => gre_layer 25944 :: eth_layer 1 2 (l3_etype (fInner f)) :: inner_chain f
  | TIPIP => inner_chain f
  end.
Definition inner_bytes (f : frame) : bytes := enc_l3 (fInner f) (l4_proto (fL4 f)) (l4b f).
Definition tail_bytes (f : frame) : bytes :=
  match fTun f with
  | TNone => l4b f
  | TGRE => [0; 0] ++ enc_be 2 (l3_etype (fInner f)) ++ inner_bytes f
  | TGREEth => [0; 0] ++ enc_be 2 25944 ++ enc_be 6 1 ++ enc_be 6 2 ++ enc_be 2 (l3_etype (fInner f)) ++ inner_bytes f
  | TIPIP => inner_bytes f
  end.
Definition outer_next (f : frame) : N :=
  match fTun f with TNone => l4_proto (fL4 f) | TGRE | TGREEth => 47 | TIPIP => l3_ipproto (fInner f) end.
Definition frame_rest (f : frame) : bytes := l4_rest (fL4 f) (fTail f).
Definition tail_layers (f : frame) : list (parser * N) :=
  match fTun f with
  | TNone => l4_layer (fL4 f)
  | TGRE => (PGRE, 4) :: l3_layers (fInner f) ++ l4_layer (fL4 f)
  | TGREEth => (PGRE, 4) :: (PEthernet, 14) :: l3_layers (fInner f) ++ l4_layer (fL4 f)
  | TIPIP => l3_layers (fInner f) ++ l4_layer (fL4 f)
  end.

Lemma inner_bytes_eq f : inner_bytes f = concat (map lhdr (inner_chain f)) ++ frame_rest f.
Proof.
  unfold inner_bytes, inner_chain, frame_rest. rewrite l3_bytes. rewrite map_app, concat_app, <- app_assoc.
  f_equal. unfold l4b. apply l4_bytes.
Qed.

Lemma tail_bytes_eq f : tail_bytes f = concat (map lhdr (tail_chain f)) ++ frame_rest f.
Proof.
  unfold tail_bytes, tail_chain. destruct (fTun f).
  - unfold l4b, frame_rest. apply l4_bytes.
  - cbn [map concat lhdr gre_layer mk]. rewrite <- !app_assoc. rewrite inner_bytes_eq. reflexivity.
  - cbn [map concat lhdr gre_layer eth_layer mk]. rewrite <- !app_assoc. rewrite inner_bytes_eq. reflexivity.
  - apply inner_bytes_eq.
Qed.

Lemma next_proto_ipproto x : next_proto (l3_ipproto x) = l3_parser x.
Proof. destruct x; reflexivity. Qed.

Lemma inner_chained f : wf_l4 (fL4 f) = true ->
  chained (l3_parser (fInner f)) (inner_chain f) /\ last_next (l3_parser (fInner f)) (inner_chain f) = PNone.
Proof.
  intros H. unfold inner_chain. destruct (l3_chained (fInner f) (l4_proto (fL4 f)) (lenN (l4b f))) as [C1 C2].
  destruct (l4_chained (fL4 f) H) as [D1 D2]. split.
  - apply chained_app. split; [exact C1|]. rewrite C2. exact D1.
  - rewrite last_next_app, C2. exact D2.
Qed.

Lemma tail_chained f : wf_l4 (fL4 f) = true ->
  chained (next_proto (outer_next f)) (tail_chain f) /\ last_next (next_proto (outer_next f)) (tail_chain f) = PNone.
Proof.
  intros H. destruct (inner_chained f H) as [C1 C2]. unfold tail_chain, outer_next. destruct (fTun f).
  - apply l4_chained. exact H.
  - cbn [chained gre_layer mk lp lnext]. rewrite next_etype_l3. split; [split; [reflexivity|exact C1]|].
    unfold last_next in *. cbn [map]. rewrite last_cons. cbn [gre_layer mk lnext]. rewrite next_etype_l3. exact C2.
  - cbn [chained gre_layer eth_layer mk lp lnext]. rewrite next_etype_l3. split; [repeat split; exact C1|].
    unfold last_next in *. cbn [map]. rewrite !last_cons. cbn [eth_layer mk lnext]. rewrite next_etype_l3. exact C2.
  - rewrite next_proto_ipproto. split; assumption.
Qed.

Lemma gre_layer_contract et rest : et < 65536 -> contract (gre_layer et) rest.
Proof.
  intros He. unfold contract. cbn [gre_layer mk lp lhdr lasg lnext lneeds].
  assert (L : lenN ([0; 0] ++ enc_be 2 et) = 4) by reflexivity. rewrite L.
  split; [constructor|]. split; [discriminate|]. split; [lia|].
  intros base m _. rewrite <- app_assoc. rewrite gre_contract by exact He. destruct base; reflexivity.
Qed.

Lemma l3_etype_small x : l3_etype x < 65536.
Proof. destruct x; cbn; lia. Qed.

Lemma inner_contracts f : wf_l3 (fInner f) = true -> wf_l4 (fL4 f) = true -> contracts (inner_chain f) (frame_rest f).
Proof.
  intros H3 H4. unfold inner_chain. apply contracts_app. split; [apply l3_contracts; exact H3|apply l4_contracts; exact H4].
Qed.

Lemma tail_contracts f : wf_l3 (fInner f) = true -> wf_l4 (fL4 f) = true -> contracts (tail_chain f) (frame_rest f).
Proof.
  intros H3 H4. pose proof (inner_contracts f H3 H4) as C. unfold tail_chain. destruct (fTun f); cbn [contracts].
  - apply l4_contracts. exact H4.
  - split; [apply robust_p; intros r; apply gre_layer_contract, l3_etype_small|exact C].
  - split; [apply robust_p; intros r; apply gre_layer_contract; lia|]. split; [apply robust_p; intros r; apply eth_layer_contract; try lia; apply l3_etype_small|exact C].
  - exact C.
Qed.

Lemma inner_run f b ls : wf_l3 (fInner f) = true ->
  exists e', run_layers true b ls (inner_chain f) = Some (e', b, ls ++ l3_layers (fInner f) ++ l4_layer (fL4 f)).
Proof.
  intros H3. unfold inner_chain. rewrite run_layers_app. rewrite l3_run by (try exact H3; left; reflexivity).
  destruct (l4_run (encap_next true (l3_last (fInner f)) (next_proto (l4_proto (fL4 f)))) b (ls ++ l3_layers (fInner f)) (fL4 f)) as (e' & R).
  exists e'. rewrite R. cbn [encap_next orb]. rewrite <- app_assoc. reflexivity.
Qed.

Definition tail_assign (f : frame) : list (N * pval) := match fTun f with TNone => l4_assign (fL4 f) | _ => [] end.

Lemma l3_last_cases x : l3_last x = PIPv4 \/ l3_last x = PIPv6 \/ l3_last x = PV6Route \/ l3_last x = PV6Frag.
Proof. destruct x as [h|h]; cbn [l3_last]; [tauto|]. destruct (i6Frag h); [tauto|]. destruct (i6Srh h); tauto. Qed.

Lemma tail_run f b ls : wf_l3 (fInner f) = true -> wf_l4 (fL4 f) = true ->
  exists e', run_layers (encap_next false (l3_last (fOuter f)) (next_proto (outer_next f))) b ls (tail_chain f) =
             Some (e', assign (tail_assign f) b, ls ++ tail_layers f).
Proof.
  intros H3 H4. unfold tail_chain, outer_next, tail_assign, tail_layers.
  pose proof (l3_last_cases (fOuter f)) as Hl. destruct (fTun f).
  - (* no tunnel *)
    destruct (fL4 f) as [sp dp fl ow|sp dp|t c|t c|p pl] eqn:E4; cbn [l4_proto].
    1-4: (replace (encap_next false (l3_last (fOuter f)) _) with false
            by (destruct Hl as [->|[->|[->| ->]]]; reflexivity);
          cbn [l4_chain run_layers mk lp lhdr lasg lnext lneeds andb l4_assign l4_layer]; rewrite ?tcp_lenN; eexists; reflexivity).
    cbn [l4_chain run_layers l4_assign l4_layer]. eexists. rewrite app_nil_r. reflexivity.
  - replace (encap_next false (l3_last (fOuter f)) (next_proto 47)) with false by (destruct Hl as [->|[->|[->| ->]]]; reflexivity).
    cbn [run_layers gre_layer mk lp lhdr lasg lnext lneeds andb].
    replace (lenN ([0; 0] ++ enc_be 2 (l3_etype (fInner f)))) with 4 by reflexivity.
    rewrite next_etype_l3. replace (encap_next false PGRE (l3_parser (fInner f))) with true by (destruct (fInner f); reflexivity).
    destruct (inner_run f (assign [] b) (ls ++ [(PGRE, 4)]) H3) as (e' & R). exists e'. rewrite R.
    rewrite <- app_assoc. reflexivity.
  - replace (encap_next false (l3_last (fOuter f)) (next_proto 47)) with false by (destruct Hl as [->|[->|[->| ->]]]; reflexivity).
    cbn [run_layers gre_layer eth_layer mk lp lhdr lasg lnext lneeds andb].
    replace (lenN ([0; 0] ++ enc_be 2 25944)) with 4 by reflexivity.
    replace (lenN (enc_be 6 1 ++ enc_be 6 2 ++ enc_be 2 (l3_etype (fInner f)))) with 14 by reflexivity.
    replace (encap_next false PGRE (next_etype 25944)) with true by reflexivity.
    destruct (inner_run f (assign [] b) ((ls ++ [(PGRE, 4)]) ++ [(PEthernet, 14)]) H3) as (e' & R). exists e'.
    cbn [encap_next orb]. rewrite R. rewrite <- !app_assoc. reflexivity.
  - rewrite next_proto_ipproto.
    replace (encap_next false (l3_last (fOuter f)) (l3_parser (fInner f))) with true
      by (destruct Hl as [->|[->|[->| ->]]]; destruct (fInner f); reflexivity).
    destruct (inner_run f b ls H3) as (e' & R). exists e'. rewrite R. reflexivity.
Qed.

(* ---- the whole frame ---- *)
Definition frame_chain (f : frame) : list layer :=
  front_chain f ++ l3_chain (fOuter f) (outer_next f) (lenN (tail_bytes f)) ++ tail_chain f.
Definition wf_frame (f : frame) : bool := wf_front f && wf_l3 (fOuter f) && wf_l3 (fInner f) && wf_l4 (fL4 f).
Definition pre_ref (f : frame) : msg := assign (tail_assign f) (set_l3 (pre_front f) (fOuter f) (outer_next f)).

Lemma encode_frame_tail f : encode_frame f =
  enc_be 6 (fDst f) ++ enc_be 6 (fSrc f) ++
  concat (map (fun v => enc_be 2 33024 ++ enc_be 2 v) (fVlans f)) ++
  (match fMpls f with
   | [] => enc_be 2 (l3_etype (fOuter f)) ++ enc_l3 (fOuter f) (outer_next f) (tail_bytes f)
   | ls => enc_be 2 34887 ++ enc_mpls ls ++ enc_l3 (fOuter f) (outer_next f) (tail_bytes f)
   end).
Proof.
  unfold encode_frame, outer_next, tail_bytes, inner_bytes, l4b. cbv zeta.
  destruct (fTun f); rewrite <- ?app_assoc; reflexivity.
Qed.

Lemma encode_frame_chain f : encode_frame f = concat (map lhdr (frame_chain f)) ++ frame_rest f.
Proof.
  rewrite encode_frame_tail, front_bytes. unfold frame_chain. rewrite !map_app, !concat_app, <- !app_assoc.
  f_equal. rewrite l3_bytes. f_equal. apply tail_bytes_eq.
Qed.

Lemma ref_frame_pre f :
  ref_frame f = mset (mset (pre_ref f) cLayerStack (VLI (map (fun x => layer_code (fst x)) (frame_layers f))))
                     cLayerSize (VLI (map snd (frame_layers f))).
Proof.
  unfold ref_frame, pre_ref, pre_front, tail_assign, outer_next. cbv zeta.
  destruct (fTun f); try rewrite set_l4_assign; reflexivity.
Qed.

Lemma frame_layers_eq f : frame_layers f = front_layers f ++ l3_layers (fOuter f) ++ tail_layers f.
Proof. unfold frame_layers, front_layers, tail_layers. rewrite <- !app_assoc. destruct (fTun f); reflexivity. Qed.

Lemma pre_front_no_srh f : mgetLB (pre_front f) cRhAddrs = [].
Proof. unfold pre_front. cbv zeta. destruct (rev (fVlans f)); destruct (fMpls f); reflexivity. Qed.

Lemma frame_run f : wf_frame f = true ->
  exists e' b', run_layers false empty_msg [] (frame_chain f) = Some (e', b', frame_layers f) /\ others_eq b' (pre_ref f).
Proof.
  unfold wf_frame. intros H. repeat (apply andb_prop in H; destruct H as [H ?]).
  unfold frame_chain. rewrite run_layers_app.
  destruct (front_run f) as (bF & R & O). rewrite R. rewrite run_layers_app.
  rewrite l3_run; [|assumption|right; rewrite (mgetLB_others bF (pre_front f) O); apply pre_front_no_srh].
  destruct (tail_run f (assign (l3_assign (fOuter f) (outer_next f)) bF) (front_layers f ++ l3_layers (fOuter f))) as (e' & T); try assumption.
  rewrite T. exists e'. eexists. split; [rewrite frame_layers_eq, <- app_assoc; reflexivity|].
  unfold pre_ref. rewrite set_l3_assign. apply others_eq_assign. apply others_eq_assign. exact O.
Qed.

Lemma frame_chained f : wf_frame f = true ->
  chained PEthernet (frame_chain f) /\ last_next PEthernet (frame_chain f) = PNone.
Proof.
  unfold wf_frame. intros H. repeat (apply andb_prop in H; destruct H as [H ?]).
  destruct (front_chained f) as [F1 F2].
  destruct (l3_chained (fOuter f) (outer_next f) (lenN (tail_bytes f))) as [C1 C2].
  destruct (tail_chained f) as [T1 T2]; [assumption|].
  unfold frame_chain. split.
  - apply chained_app. split; [exact F1|]. rewrite F2. apply chained_app. split; [exact C1|]. rewrite C2. exact T1.
  - rewrite !last_next_app, F2, C2. exact T2.
Qed.

Lemma frame_contracts f : wf_frame f = true -> contracts (frame_chain f) (frame_rest f).
Proof.
  unfold wf_frame. intros H. apply andb_prop in H. destruct H as [H H4]. apply andb_prop in H. destruct H as [H Hi].
  apply andb_prop in H. destruct H as [Hf Ho].
  unfold frame_chain. apply contracts_app. split.
  - apply front_contracts; [assumption|]. rewrite map_app, concat_app, <- app_assoc.
    destruct (fOuter f) as [h|h] eqn:Eo; cbn [l3_chain map concat lhdr ip4_layer ip6_layer mk l3_etype]; rewrite <- ?app_assoc.
    + apply peek_ip4.
    + apply peek_ip6. match goal with X : wf_l3 (L3v6 h) = true |- _ => cbn [wf_l3] in X; apply andb_prop in X; destruct X as [X _]; apply andb_prop in X; destruct X as [X _]; exact X end.
  - apply contracts_app. split; [apply l3_contracts; assumption|apply tail_contracts; assumption].
Qed.

Lemma contracts_len layers : forall rest, contracts layers rest -> (length layers <= length (concat (map lhdr layers)))%nat.
Proof.
  induction layers as [|l r IH]; intros rest H; [cbn; lia|]. cbn [contracts] in H. destruct H as [Hc Hr]. destruct (Hc _ eq_refl) as (_ & _ & (Hl & _) & _).
  cbn [length map concat]. rewrite app_length. specialize (IH rest Hr). unfold lenN in Hl. lia.
Qed.

Lemma mgetLI_some m k l : mgetLI m k = l -> l <> [] -> alookup (cols m) k = Some (VLI l).
Proof. unfold mgetLI. intros H Hn. destruct (alookup (cols m) k) as [[n|b|l'|l']|]; subst; congruence. Qed.

Theorem parse_full_capture f : wf_frame f = true ->
  exists m, parse_packet empty_pcfg empty_msg (encode_frame f) = Ok m /\ meq m (ref_frame f).
Proof.
  intros Hwf. destruct (frame_run f Hwf) as (e' & b' & Hrun & Hoth).
  destruct (frame_chained f Hwf) as [Hch Hlast]. pose proof (frame_contracts f Hwf) as Hct.
  pose proof (contracts_len _ _ Hct) as Hlen.
  unfold parse_packet. rewrite encode_frame_chain.
  set (data := concat (map lhdr (frame_chain f)) ++ frame_rest f).
  assert (Hd : (length (frame_chain f) <= length data)%nat) by (unfold data; rewrite app_length; lia).
  replace (length data + 3)%nat with (length (frame_chain f) + (length data + 3 - length (frame_chain f)))%nat by lia.
  assert (Hinv0 : Inv empty_msg empty_msg []) by (split; [reflexivity|split; [reflexivity|apply others_eq_refl]]).
  destruct (chain (frame_chain f) (length data + 3 - length (frame_chain f))%nat data 0 false empty_msg empty_msg [] (frame_rest f)
              PEthernet e' b' (frame_layers f)) as (m' & E & (I1 & I2 & I3)); try assumption.
  - reflexivity.
  - lia.
  - exists m'. rewrite E, Hlast.
    destruct (length data + 3 - length (frame_chain f))%nat as [|fu] eqn:Ef; [lia|]. rewrite parse_loop_none.
    split; [reflexivity|]. rewrite ref_frame_pre.
    assert (Hne : frame_layers f <> []) by (unfold frame_layers; discriminate).
    pose proof (others_eq_trans _ _ _ I3 Hoth) as [Ho Hu].
    split; [|exact Hu]. intros k. rewrite !alookup_mset.
    destruct (N.eqb_spec cLayerSize k) as [<-|K2].
    + apply mgetLI_some; [exact I2|]. destruct (frame_layers f); [congruence|discriminate].
    + destruct (N.eqb_spec cLayerStack k) as [<-|K1].
      * apply mgetLI_some; [exact I1|]. destruct (frame_layers f); [congruence|discriminate].
      * apply Ho; congruence.
Qed.

(* ---- captures cut short ------------------------------------------------------------------------
   A capture that ends inside the header of layer j (before that header's minimal length) is dissected
   exactly like the first j layers alone: their fields, their stack entries and sizes, nothing else. *)
Lemma run_layers_firstn layers : forall j e b ls r,
  run_layers e b ls layers = Some r -> exists r', run_layers e b ls (firstn j layers) = Some r'.
Proof.
  induction layers as [|l q IH]; intros j e b ls r H; [destruct j; cbn; eauto|].
  destruct j as [|j]; [cbn; eauto|]. cbn [firstn run_layers] in *.
  destruct (lneeds l && negb e && negb match mgetLB b cRhAddrs with [] => true | _ :: _ => false end); [discriminate|].
  eapply IH. exact H.
Qed.

Lemma chained_firstn layers : forall j p, chained p layers -> chained p (firstn j layers).
Proof.
  induction layers as [|l q IH]; intros j p H; [destruct j; exact I|]. destruct j as [|j]; [exact I|].
  cbn [firstn chained] in *. destruct H as [H1 H2]. split; [exact H1|apply IH; exact H2].
Qed.

Definition dummy_layer : layer := mk PNone [] [] PNone false.

Lemma last_next_firstn layers : forall j p, chained p layers -> (j < length layers)%nat ->
  last_next p (firstn j layers) = lp (nth j layers dummy_layer).
Proof.
  induction layers as [|l q IH]; intros j p H Hj; [cbn in Hj; lia|].
  cbn [chained] in H. destruct H as [H1 H2]. destruct j as [|j]; [unfold last_next; cbn; congruence|].
  cbn [firstn nth length] in *. unfold last_next. cbn [map]. rewrite last_cons. apply IH; [exact H2|lia].
Qed.

Lemma peek_cons x a c : peek_etype ((x :: a) ++ c) = peek_etype [x].
Proof. reflexivity. Qed.

Lemma contract_p_peek l r r' : contract_p l r -> peek_etype r' = peek_etype r -> contract_p l r'.
Proof. intros H E rest' E'. apply H. congruence. Qed.

Lemma contracts_firstn layers rest : forall j cut,
  contracts layers rest ->
  peek_etype cut = peek_etype (concat (map lhdr (skipn j layers)) ++ rest) ->
  contracts (firstn j layers) cut.
Proof.
  induction layers as [|l q IH]; intros j cut H Hp; [destruct j; exact I|].
  destruct j as [|j]; [exact I|]. cbn [firstn contracts skipn] in *. destruct H as [Hc Hq]. split.
  - eapply contract_p_peek; [exact Hc|].
    destruct j as [|j]; [cbn [firstn map concat app skipn] in *; exact Hp|].
    destruct q as [|l2 q2]; [cbn [firstn map concat app skipn] in *; exact Hp|].
    cbn [firstn map concat]. cbn [contracts] in Hq. destruct Hq as [Hc2 _].
    destruct (Hc2 _ eq_refl) as (_ & _ & (Hl & _) & _).
    destruct (lhdr l2) as [|x hx] eqn:E2; [unfold lenN in Hl; cbn in Hl; lia|].
    rewrite <- !app_assoc. rewrite !peek_cons. reflexivity.
  - apply IH; assumption.
Qed.

Lemma firstn_app_len {A} (a c : list A) n : firstn (length a + n) (a ++ c) = a ++ firstn n c.
Proof. induction a as [|x a IH]; [reflexivity|]. cbn [length Nat.add app firstn]. rewrite IH. reflexivity. Qed.

Lemma peek_firstn c x : (1 <= c)%nat -> peek_etype (firstn c x) = peek_etype x.
Proof. intros H. destruct c; [lia|]. destruct x; reflexivity. Qed.

Lemma chain_split (layers : list layer) j :
  concat (map lhdr layers) = concat (map lhdr (firstn j layers)) ++ concat (map lhdr (skipn j layers)).
Proof. rewrite <- concat_app, <- map_app, firstn_skipn. reflexivity. Qed.

Theorem parse_truncated f j cut : wf_frame f = true -> (j < length (frame_chain f))%nat ->
  peek_etype cut = peek_etype (concat (map lhdr (skipn j (frame_chain f))) ++ frame_rest f) ->
  (length cut < min_len (lp (nth j (frame_chain f) dummy_layer)))%nat ->
  exists m e b ls,
    run_layers false empty_msg [] (firstn j (frame_chain f)) = Some (e, b, ls) /\
    parse_packet empty_pcfg empty_msg (concat (map lhdr (firstn j (frame_chain f))) ++ cut) = Ok m /\ Inv m b ls.
Proof.
  intros Hwf Hj Hpeek Hshort.
  destruct (frame_run f Hwf) as (e0 & b0 & Hrun & _).
  destruct (run_layers_firstn _ j _ _ _ _ Hrun) as ([[e b] ls] & Hrj).
  destruct (frame_chained f Hwf) as [Hch _]. pose proof (frame_contracts f Hwf) as Hct.
  pose proof (contracts_firstn _ _ j cut Hct Hpeek) as Hcj.
  pose proof (chained_firstn _ j _ Hch) as Hchj.
  pose proof (contracts_len _ _ Hcj) as Hlen.
  set (pre := firstn j (frame_chain f)) in *.
  set (data := concat (map lhdr pre) ++ cut).
  unfold parse_packet. fold data.
  assert (Hd : (length pre <= length data)%nat) by (unfold data; rewrite app_length; lia).
  replace (length data + 3)%nat with (length pre + (S (S (S (length data - length pre)))))%nat by lia.
  assert (Hinv0 : Inv empty_msg empty_msg []) by (split; [reflexivity|split; [reflexivity|apply others_eq_refl]]).
  destruct (chain pre (S (S (S (length data - length pre)))) data 0 false empty_msg empty_msg [] cut PEthernet e b ls)
    as (m' & E & Hinv'); try assumption; [reflexivity|lia|].
  exists m', e, b, ls. split; [exact Hrj|]. split; [|exact Hinv'].
  rewrite E. unfold pre. rewrite (last_next_firstn _ j _ Hch Hj).
  set (p := lp (nth j (frame_chain f) dummy_layer)) in *.
  destruct (Nat.eq_dec (min_len p) 0) as [Hz|Hz]; [lia|].
  assert (Hp : p <> PNone) by (intros ->; apply Hz; reflexivity).
  rewrite parse_loop_S by exact Hp.
  replace (N.of_nat (length data) <? 0 + lenN (concat (map lhdr (firstn j (frame_chain f))))) with false
    by (unfold data, lenN, pre; rewrite app_length; lia).
  cbv zeta. cbn [empty_pcfg cPorts cLayers].
  replace (skipn (N.to_nat (0 + lenN (concat (map lhdr (firstn j (frame_chain f)))))) data) with cut
    by (unfold data, pre, lenN; rewrite N.add_0_l, Nat2N.id, skipn_exact; reflexivity).
  rewrite short_stops by exact Hshort. rewrite apply_layer_maps_nil.
  rewrite Nat.ltb_irrefl. rewrite parse_loop_none. reflexivity.
Qed.

(* the same, for a capture given as a prefix of the frame's bytes: cut c bytes into header j, 1 <= c < its minimal length *)
Theorem parse_prefix f j c : wf_frame f = true -> (j < length (frame_chain f))%nat ->
  (1 <= c < min_len (lp (nth j (frame_chain f) dummy_layer)))%nat ->
  exists m e b ls,
    run_layers false empty_msg [] (firstn j (frame_chain f)) = Some (e, b, ls) /\
    parse_packet empty_pcfg empty_msg
      (firstn (length (concat (map lhdr (firstn j (frame_chain f)))) + c) (encode_frame f)) = Ok m /\ Inv m b ls.
Proof.
  intros Hwf Hj Hc. rewrite encode_frame_chain, (chain_split (frame_chain f) j), <- app_assoc, firstn_app_len.
  apply parse_truncated; try assumption.
  - apply peek_firstn. lia.
  - rewrite firstn_length. lia.
Qed.

(* ---- the same, started from ANY message and with ANY bytes behind the frame --------------------
   (what the sFlow producer does: the raw header record of a flow sample is dissected into the
   message that already carries the sample's own fields; the record is padded to 4 bytes) *)
Definition pre_front_on (b : msg) (f : frame) : msg :=
  let m := msetI (msetI (msetI b cSrcMac (fSrc f)) cDstMac (fDst f)) cEtype (l3_etype (fOuter f)) in
  let m := match rev (fVlans f) with v :: _ => msetI m cVlanId v | [] => m end in
  match fMpls f with
  | [] => m
  | ls => mset (mset m cMplsLabel (VLI (map fst ls))) cMplsTtl (VLI (map snd ls))
  end.
Definition pre_ref_on (b : msg) (f : frame) : msg :=
  assign (tail_assign f) (set_l3 (pre_front_on b f) (fOuter f) (outer_next f)).

Lemma front_run_on b f :
  exists bF, run_layers false b [] (front_chain f) = Some (false, bF, front_layers f) /\ others_eq bF (pre_front_on b f).
Proof.
  unfold front_chain. cbn [run_layers eth_layer mk lp lhdr lasg lnext lneeds andb app].
  replace (lenN (enc_be 6 (fDst f) ++ enc_be 6 (fSrc f) ++ enc_be 2 (head_et (fVlans f) (after_et f)))) with 14 by reflexivity.
  destruct (after_et_small f) as [_ Hl].
  assert (E : encap_next false PEthernet (next_etype (head_et (fVlans f) (after_et f))) = false).
  { destruct (fVlans f); cbn [head_et]; [destruct Hl as [->|[->| ->]]; reflexivity|reflexivity]. }
  rewrite E. rewrite run_layers_app.
  set (b0 := assign [(cSrcMac, VI (fSrc f)); (cDstMac, VI (fDst f)); (cEtype, VI (head_et (fVlans f) (after_et f)))] b).
  destruct (vlan_run (fVlans f) (after_et f) b0 [(PEthernet, 14)] Hl) as (bV & R & O). rewrite R.
  unfold mpls_chain, front_layers, pre_front_on, after_et in *.
  destruct (fMpls f) as [|x ls] eqn:Em.
  - cbn [run_layers]. exists bV. split; [rewrite app_nil_r; reflexivity|].
    eapply others_eq_trans; [exact O|]. unfold b0. destruct (rev (fVlans f)) as [|w q] eqn:Er.
    + assert (fVlans f = []) by (destruct (fVlans f); [reflexivity|apply (f_equal (@length N)) in Er; rewrite rev_length in Er; discriminate]).
      rewrite H. cbn [head_et]. lookups.
    + lookups.
  - cbn [run_layers mpls_layer mk lp lhdr lasg lnext lneeds andb]. rewrite mpls_lenN.
    exists (assign [(cEtype, VI (l3_etype (fOuter f))); (cMplsLabel, VLI (map fst (x :: ls))); (cMplsTtl, VLI (map snd (x :: ls)))] bV).
    split.
    + rewrite next_etype_l3. replace (encap_next false PMPLS (l3_parser (fOuter f))) with false by (destruct (fOuter f); reflexivity).
      rewrite <- app_assoc. reflexivity.
    + eapply others_eq_trans; [apply others_eq_assign; exact O|]. unfold b0.
      destruct (rev (fVlans f)) as [|w q] eqn:Er; lookups.
Qed.

Lemma pre_front_on_srh b f : mgetLB (pre_front_on b f) cRhAddrs = mgetLB b cRhAddrs.
Proof. unfold pre_front_on. cbv zeta. destruct (rev (fVlans f)); destruct (fMpls f); reflexivity. Qed.

Lemma frame_run_on b f : wf_frame f = true -> mgetLB b cRhAddrs = [] ->
  exists e' b', run_layers false b [] (frame_chain f) = Some (e', b', frame_layers f) /\ others_eq b' (pre_ref_on b f).
Proof.
  unfold wf_frame. intros H Hb. repeat (apply andb_prop in H; destruct H as [H ?]).
  unfold frame_chain. rewrite run_layers_app.
  destruct (front_run_on b f) as (bF & R & O). rewrite R. rewrite run_layers_app.
  rewrite l3_run; [|assumption|right; rewrite (mgetLB_others bF (pre_front_on b f) O), pre_front_on_srh; exact Hb].
  destruct (tail_run f (assign (l3_assign (fOuter f) (outer_next f)) bF) (front_layers f ++ l3_layers (fOuter f))) as (e' & T); try assumption.
  rewrite T. exists e'. eexists. split; [rewrite frame_layers_eq, <- app_assoc; reflexivity|].
  unfold pre_ref_on. rewrite set_l3_assign. apply others_eq_assign. apply others_eq_assign. exact O.
Qed.

Lemma contracts_rest layers : forall rest rest', contracts layers rest -> peek_etype rest' = peek_etype rest -> contracts layers rest'.
Proof.
  intros rest rest' H Hp. pose proof (contracts_firstn layers rest (length layers) rest' H) as G.
  rewrite firstn_all in G. apply G. rewrite skipn_all. cbn [map concat app]. exact Hp.
Qed.

(* the message after the frame: the base message with the frame's columns set, its layer stack and sizes *)
Definition framed (b : msg) (f : frame) : msg :=
  mset (mset (pre_ref_on b f) cLayerStack (VLI (map (fun x => layer_code (fst x)) (frame_layers f))))
       cLayerSize (VLI (map snd (frame_layers f))).

Theorem parse_full_capture_on m0 f extra : wf_frame f = true ->
  mgetLI m0 cLayerStack = [] -> mgetLI m0 cLayerSize = [] -> mgetLB m0 cRhAddrs = [] ->
  (peek_etype (frame_rest f ++ extra) = peek_etype (frame_rest f)) ->
  exists m, parse_packet empty_pcfg m0 (encode_frame f ++ extra) = Ok m /\ meq m (framed m0 f).
Proof.
  intros Hwf Hst Hsz Hrh Hpk. destruct (frame_run_on m0 f Hwf Hrh) as (e' & b' & Hrun & Hoth).
  destruct (frame_chained f Hwf) as [Hch Hlast].
  pose proof (contracts_rest _ _ (frame_rest f ++ extra) (frame_contracts f Hwf) Hpk) as Hct.
  pose proof (contracts_len _ _ Hct) as Hlen.
  unfold parse_packet. rewrite encode_frame_chain, <- app_assoc.
  set (data := concat (map lhdr (frame_chain f)) ++ frame_rest f ++ extra).
  assert (Hd : (length (frame_chain f) <= length data)%nat) by (unfold data; rewrite app_length; lia).
  replace (length data + 3)%nat with (length (frame_chain f) + (length data + 3 - length (frame_chain f)))%nat by lia.
  assert (Hinv0 : Inv m0 m0 []) by (split; [exact Hst|split; [exact Hsz|apply others_eq_refl]]).
  destruct (chain (frame_chain f) (length data + 3 - length (frame_chain f))%nat data 0 false m0 m0 [] (frame_rest f ++ extra)
              PEthernet e' b' (frame_layers f)) as (m' & E & (I1 & I2 & I3)); try assumption.
  - reflexivity.
  - lia.
  - exists m'. rewrite E, Hlast.
    destruct (length data + 3 - length (frame_chain f))%nat as [|fu] eqn:Ef; [lia|]. rewrite parse_loop_none.
    split; [reflexivity|]. unfold framed.
    assert (Hne : frame_layers f <> []) by (unfold frame_layers; discriminate).
    pose proof (others_eq_trans _ _ _ I3 Hoth) as [Ho Hu].
    split; [|exact Hu]. intros k. rewrite !alookup_mset.
    destruct (N.eqb_spec cLayerSize k) as [<-|K2].
    + apply mgetLI_some; [exact I2|]. destruct (frame_layers f); [congruence|discriminate].
    + destruct (N.eqb_spec cLayerStack k) as [<-|K1].
      * apply mgetLI_some; [exact I1|]. destruct (frame_layers f); [congruence|discriminate].
      * apply Ho; congruence.
Qed.
