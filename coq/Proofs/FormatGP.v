(* The general formatter (Model/Format.v): for ANY compiled formatter configuration and ANY message the JSON
   form is one well-formed RFC 8259 object; its keys are the configured fields, renamed, in configured order;
   a field of the struct is always written, a custom field exactly when the flow carries it; the text form
   lists the same members. *)
From Coq Require Import String Ascii NArith List Bool Lia.
From GF Require Import Base.Res Base.Bytes Model.Msg Model.Json Model.Cfg Model.Render Model.Format
     Spec.JsonGrammar Spec.RenderTables Proofs.FormatP Proofs.RenderP Proofs.Utf8P.
Import ListNotations.
Open Scope N_scope.

Lemma some_inj_local {A} (a b : A) : Some a = Some b -> a = b.
Proof. congruence. Qed.

(* values the general formatter writes: numbers are decimal numerals, strings are ANY bytes *)
Fixpoint jval_oku (v : jval) : Prop :=
  match v with
  | JNum d => json_number d
  | JStr _ => True
  | JArr l => (fix all (l : list jval) : Prop := match l with [] => True | x :: r => jval_oku x /\ all r end) l
  end.
Definition all_oku := fix all (l : list jval) : Prop := match l with [] => True | x :: r => jval_oku x /\ all r end.

Lemma show_jval_u_value : forall v, jval_oku v -> json_value (show_jval_u v).
Proof.
  fix IH 1. intros [d|s|l] H; cbn [show_jval_u].
  - apply jv_number. exact H.
  - apply esc_string_utf8_value.
  - assert (A : Forall json_value (map show_jval_u l)).
    { change (all_oku l) in H. revert H.
      refine ((fix go (l : list jval) : all_oku l -> Forall json_value (map show_jval_u l) :=
                 match l with
                 | [] => fun _ => Forall_nil _
                 | y :: r => fun H => Forall_cons _ (IH y (proj1 H)) (go r (proj2 H))
                 end) l). }
    destruct l as [|x r]; [apply jv_array_empty|].
    apply jv_array. apply elements_ok; [discriminate|exact A].
Qed.

(* a member: the name written as a string, a colon, the value *)
Lemma show_member_u_shape k v :
  show_member_u (k, v) = 34 :: esc_utf8 (length k) k ++ [34; 58] ++ show_jval_u v.
Proof. unfold show_member_u, esc_string_utf8. cbn [fst snd app]. rewrite <- app_assoc. reflexivity. Qed.

Lemma members_oku ms : ms <> [] ->
  Forall (fun kv => jval_oku (snd kv)) ms ->
  json_members (intersperse [44] (map show_member_u ms)).
Proof.
  induction ms as [|[k v] r IH]; intros Hne Hall; [congruence|]. inversion Hall as [|? ? Hv Hr]; subst.
  cbn [fst snd] in *.
  destruct r as [|y r']; cbn [map intersperse].
  - rewrite show_member_u_shape. apply jm_one; [apply esc_utf8_chars; apply le_n|apply show_jval_u_value; exact Hv].
  - change (show_member_u (k, v) ++ [44] ++ intersperse [44] (map show_member_u (y :: r')))
      with (show_member_u (k, v) ++ 44 :: intersperse [44] (map show_member_u (y :: r'))).
    rewrite show_member_u_shape.
    apply jm_more; [apply esc_utf8_chars; apply le_n|apply show_jval_u_value; exact Hv|]. apply IH; [discriminate|exact Hr].
Qed.

(* ---- what a renderer returns becomes a well-formed value ---- *)
Lemma jval_of_ok o j : jval_of o = Some j -> jval_oku j.
Proof.
  destruct o as [|s|n]; cbn [jval_of]; intros H; inversion H; subst; cbn [jval_oku]; [exact I|apply show_dec_number].
Qed.

Lemma render_elems_ok fn m field : forall l js, render_elems fn m field l = Some js -> all_oku js.
Proof.
  induction l as [|v r IH]; intros js H; cbn [render_elems] in H.
  - inversion H. exact I.
  - destruct (apply_renderer fn m field (Some v)) as [o|]; [|discriminate].
    destruct (render_elems fn m field r) as [js0|]; [|discriminate].
    destruct (jval_of o) as [j|] eqn:Ej; [|discriminate]. inversion H; subst.
    split; [eapply jval_of_ok; exact Ej|apply IH; reflexivity].
Qed.

(* the name a configured field is written under *)
Definition final_name (c : fmtc) (s : string) : string :=
  match sassoc (cRename c) s with Some EmptyString => s | Some r => r | None => s end.

Lemma format_field_ok c m s k v :
  format_field c m s = Some (Some (k, v)) -> k = bytes_of_string (final_name c s) /\ jval_oku v.
Proof.
  unfold format_field, final_name.
  set (final := match sassoc (cRename c) s with Some EmptyString => s | Some r => r | None => s end).
  set (field := remap (cCustoms c) s).
  set (rf := render_fn (cRend c) field).
  set (fn := match rf with Some f => f | None => "NilRenderer"%string end).
  destruct (match struct_by_go field with
            | Some (_, g, col, k0) => Some (Some (struct_value m g col k0))
            | None => unk_value (cCustoms c) (unk m) s None end) as [vv|]; [|discriminate].
  destruct (match vv with Some _ => false | None => match rf with None => true | Some _ => is_custom (cCustoms c) s end end);
    [discriminate|].
  destruct vv as [[x|l]|].
  - destruct (apply_renderer fn m field (Some x)) as [o|]; [|discriminate].
    destruct (jval_of o) as [j|] eqn:Ej; intros H; inversion H; subst.
    split; [reflexivity|eapply jval_of_ok; exact Ej].
  - destruct (render_elems fn m field l) as [js|] eqn:Ej; [|discriminate].
    intros H; inversion H; subst. split; [reflexivity|]. cbn [jval_oku]. eapply render_elems_ok. exact Ej.
  - destruct (is_slice (cCustoms c) field).
    + intros H; inversion H; subst. split; [reflexivity|exact I].
    + destruct (apply_renderer fn m field None) as [o|]; [|discriminate].
      destruct (jval_of o) as [j|] eqn:Ej; intros H; inversion H; subst.
      split; [reflexivity|eapply jval_of_ok; exact Ej].
Qed.

(* whether a configured field is written for this message *)
Definition written (c : fmtc) (m : msg) (s : string) : bool :=
  match format_field c m s with Some (Some _) => true | _ => false end.

Lemma format_members_spec c m : forall fields ms,
  format_members c m fields = Some ms ->
  map fst ms = map (fun s => bytes_of_string (final_name c s)) (filter (written c m) fields) /\
  Forall (fun kv => jval_oku (snd kv)) ms.
Proof.
  induction fields as [|s r IH]; intros ms H; cbn [format_members] in H.
  - inversion H. split; [reflexivity|constructor].
  - cbn [filter].
    change (written c m s) with (match format_field c m s with Some (Some _) => true | _ => false end).
    destruct (format_field c m s) as [x|] eqn:Ef; [|discriminate].
    destruct (format_members c m r) as [l|]; [|discriminate].
    destruct (IH l eq_refl) as (IHk & IHv).
    destruct x as [[k v]|]; inversion H; subst.
    + destruct (format_field_ok _ _ _ _ _ Ef) as (-> & Hv).
      cbn [map fst]. split; [f_equal; exact IHk|constructor; [exact Hv|exact IHv]].
    + split; assumption.
Qed.

(* ---- the JSON form is well formed, for ANY configuration: names are written as JSON strings too ---- *)
Theorem format_json_valid c m out :
  format_json c m = Some out -> json_value out.
Proof.
  intros H. unfold format_json in H.
  destruct (format_members c m (cFields c)) as [ms|] eqn:Em; [|discriminate]. apply some_inj_local in H. subst out.
  destruct (format_members_spec _ _ _ _ Em) as (_ & Hv).
  destruct ms as [|kv r]; [apply jv_object_empty|].
  apply jv_object. apply members_oku; [discriminate|exact Hv].
Qed.

(* ---- keys: the configured fields that are written, renamed, in configured order ---- *)
Theorem format_json_keys c m ms :
  format_members c m (cFields c) = Some ms ->
  map fst ms = map (fun s => bytes_of_string (final_name c s)) (filter (written c m) (cFields c)).
Proof. intros H. exact (proj1 (format_members_spec _ _ _ _ H)). Qed.

(* a renderer handed a value never answers "nothing" *)
Lemma apply_renderer_some fn m field x o : apply_renderer fn m field (Some x) = Some o -> o <> ONil.
Proof.
  unfold apply_renderer.
  repeat match goal with |- context [if String.eqb fn ?s then _ else _] => destruct (String.eqb fn s) end;
    try discriminate;
    destruct x as [n|n|t n|b]; cbn [nil_renderer];
    repeat match goal with
           | |- context [match rfc3339 ?a ?b with _ => _ end] => destruct (rfc3339 a b)
           | |- context [if ?c then _ else _] => destruct c
           end; intros H; inversion H; discriminate.
Qed.

(* a field of the struct is written for every message (or the form is outside the model) *)
Theorem struct_field_written c m s j g col k :
  struct_by_go (remap (cCustoms c) s) = Some (j, g, col, k) ->
  format_field c m s <> Some None.
Proof.
  intros Hs. unfold format_field. rewrite Hs.
  destruct (struct_value m g col k) as [x|l].
  - destruct (apply_renderer _ m _ (Some x)) as [o|] eqn:Ea; [|discriminate].
    pose proof (apply_renderer_some _ _ _ _ _ Ea) as Hne.
    destruct o; [congruence| |]; discriminate.
  - destruct (render_elems _ m _ l); discriminate.
Qed.

(* a declared custom field (that is not the Go name of a struct field) the flow does not carry is not written *)
Theorem custom_absent_not_written c m s :
  is_custom (cCustoms c) s = true -> struct_by_go s = None ->
  unk_value (cCustoms c) (unk m) s None = Some None ->
  format_field c m s = Some None.
Proof.
  intros Hc Hg Hu. unfold format_field.
  assert (Hr : remap (cCustoms c) s = s) by (unfold remap; rewrite Hc; reflexivity).
  rewrite Hr, Hg, Hu, Hc. destruct (render_fn (cRend c) s); reflexivity.
Qed.

(* ... and one it carries is written (or the form is outside the model) *)
Theorem custom_present_written c m s v :
  struct_by_go (remap (cCustoms c) s) = None ->
  unk_value (cCustoms c) (unk m) s None = Some (Some v) ->
  format_field c m s <> Some None.
Proof.
  intros Hg Hu. unfold format_field. rewrite Hg, Hu.
  destruct v as [x|l].
  - destruct (apply_renderer _ m _ (Some x)) as [o|] eqn:Ea; [|discriminate].
    pose proof (apply_renderer_some _ _ _ _ _ Ea) as Hne.
    destruct o; [congruence| |]; discriminate.
  - destruct (render_elems _ m _ l); discriminate.
Qed.

(* what "carried" means: an unknown field whose number is the declared one is in the message *)
Lemma unk_value_none cs name : forall us acc,
  (forall u, In u us -> match custom_by_num cs (uNum u) with Some c => String.eqb (cName c) name = false | None => True end) ->
  unk_value cs us name acc = Some acc.
Proof.
  induction us as [|u r IH]; intros acc H; [reflexivity|]. cbn [unk_value].
  pose proof (H u (or_introl eq_refl)) as Hu.
  destruct (custom_by_num cs (uNum u)) as [c|].
  - rewrite Hu. apply IH. intros u' Hin. apply H. right. exact Hin.
  - apply IH. intros u' Hin. apply H. right. exact Hin.
Qed.

(* ---- text and JSON list the same members ---- *)
Theorem formats_same_members c m :
  match format_members c m (cFields c) with
  | Some ms => format_json c m = Some (123 :: intersperse [44] (map show_member_u ms) ++ [125]) /\
               format_text c m = Some (intersperse [32] (map (fun kv => fst kv ++ [61] ++ show_text_val (snd kv)) ms))
  | None => format_json c m = None /\ format_text c m = None
  end.
Proof. unfold format_json, format_text. destruct (format_members c m (cFields c)); split; reflexivity. Qed.

(* ---- the partition key is a function of exactly the configured key fields ---- *)
(* two messages that agree on the text of every key field get the same key, whatever else differs *)
Theorem key_fields_only c m m' :
  (forall s, In s (cKeys c) -> key_text c m s = key_text c m' s) -> msg_key c m = msg_key c m'.
Proof.
  intros H. unfold msg_key. destruct (cKeys c) as [|k ks] eqn:Ek; [reflexivity|].
  assert (E : key_texts c m (k :: ks) = key_texts c m' (k :: ks)).
  { clear Ek. revert H. generalize (k :: ks). intros l. induction l as [|s r IH]; intros H; [reflexivity|].
    cbn [key_texts]. rewrite (H s (or_introl eq_refl)), IH; [reflexivity|].
    intros s' Hs'. apply H. right. exact Hs'. }
  rewrite E. reflexivity.
Qed.

(* the text of a key field that is a column of the struct depends on that column alone *)
Lemma key_text_struct c m s j g col k :
  struct_by_go (remap (cCustoms c) s) = Some (j, g, col, k) -> key_text c m s = Some (show_v (struct_value m g col k)).
Proof. intros H. unfold key_text. rewrite H. reflexivity. Qed.

(* no key fields: no key; otherwise four bytes *)
Lemma enc_be_length n : forall v, length (enc_be n v) = n.
Proof. induction n as [|n IH]; intros v; [reflexivity|]. cbn [enc_be]. rewrite app_length, IH. cbn [length]. lia. Qed.

Theorem key_shape c m k :
  msg_key c m = Some k -> (cKeys c = [] /\ k = []) \/ (cKeys c <> [] /\ length k = 4%nat).
Proof.
  unfold msg_key. destruct (cKeys c) as [|x r]; intros H.
  - left. inversion H. split; reflexivity.
  - right. destruct (key_texts c m (x :: r)); [|discriminate]. inversion H. split; [discriminate|reflexivity].
Qed.

(* ---- the default configuration: the general formatter is the default formatter of Model/Render.v ---- *)
Definition c0 : fmtc := {| cFields := all_fields; cRename := []; cRend := []; cCustoms := []; cKeys := [] |}.
Lemma compile_default : compile_fmt empty_afmt [] = Some c0.
Proof. reflexivity. Qed.

Lemma elems_num m f l : render_elems "NilRenderer" m f (map GU32 l) = Some (map (fun x => JNum (show_dec x)) l).
Proof. induction l as [|x r IH]; [reflexivity|]. cbn [map render_elems]. rewrite IH. reflexivity. Qed.
Lemma elems_ip m f l : render_elems "IPRenderer" m f (map GBytes l) = Some (map (fun x => JStr (render_ip x)) l).
Proof. induction l as [|x r IH]; [reflexivity|]. cbn [map render_elems]. rewrite IH. reflexivity. Qed.
Lemma elems_enum m f t l : render_elems "NilRenderer" m f (map (GEnum t) l) = Some (map (fun x => JStr (enum_name t x)) l).
Proof. induction l as [|x r IH]; [reflexivity|]. cbn [map render_elems]. rewrite IH. reflexivity. Qed.

Ltac entry :=
  cbv [format_field c0 cRename cRend cCustoms sassoc remap is_custom existsb struct_by_json struct_by_go find name_table
       String.eqb Ascii.eqb Bool.eqb render_fn default_renderers is_slice slice_fields rev app struct_value col_bits
       N.eqb Pos.eqb orb andb negb apply_renderer nil_renderer jval_of render_col unk_value unk fst snd];
  rewrite ?elems_num, ?elems_ip, ?elems_enum; reflexivity.

Lemma default_entry m j g col k : In (j, g, col, k) name_table ->
  format_field c0 m j = Some (Some (bytes_of_string j, render_col m g col k)).
Proof.
  intros H. unfold name_table in H.
  repeat (destruct H as [H|H]; [inversion H; subst; clear H; entry|]). contradiction.
Qed.

Lemma default_members_eq m : forall t, incl t name_table ->
  format_members c0 m (map (fun r => let '(j, _, _, _) := r in j) t) =
  Some (map (fun r => let '(json, go, col, k) := r in (bytes_of_string json, render_col m go col k)) t).
Proof.
  induction t as [|[[[j g] col] k] r IH]; intros Hi; [reflexivity|].
  cbn [map format_members]. rewrite (default_entry m j g col k); [|apply Hi; left; reflexivity].
  rewrite IH; [reflexivity|]. intros x Hx. apply Hi. right. exact Hx.
Qed.

Lemma show_jval_u_ascii : forall v, jval_ok v -> show_jval_u v = show_jval v.
Proof.
  fix IH 1. intros [d|s|l] H; cbn [show_jval_u show_jval].
  - reflexivity.
  - apply esc_string_utf8_ascii. exact H.
  - f_equal. f_equal. f_equal. change (all_ok l) in H. revert H.
    refine ((fix go (l : list jval) : all_ok l -> map show_jval_u l = map show_jval l :=
               match l with
               | [] => fun _ => eq_refl
               | y :: r => fun H => f_equal2 cons (IH y (proj1 H)) (go r (proj2 H))
               end) l).
Qed.

(* the documented names need no escaping (finite table, evaluated) *)
Lemma default_keys_unescaped :
  forallb (fun r : string * string * N * ckind => let '(j, _, _, _) := r in
             if list_eq_dec N.eq_dec (esc_string_utf8 (bytes_of_string j)) (34 :: bytes_of_string j ++ [34]) then true else false)
          name_table = true.
Proof. vm_compute. reflexivity. Qed.

(* under the default configuration the general formatter IS the default formatter of Model/Render.v *)
Theorem format_default_json m : format_json c0 m = Some (json_default m).
Proof.
  unfold format_json. change (cFields c0) with (map (fun r : string * string * N * ckind => let '(j, _, _, _) := r in j) name_table).
  rewrite (default_members_eq m name_table (incl_refl _)). fold (default_members m).
  unfold json_default, format_object. f_equal. f_equal. f_equal. f_equal.
  apply map_ext_in. intros [k v] Hin. unfold show_member_u, show_member. cbn [fst snd].
  unfold default_members in Hin. apply in_map_iff in Hin.
  destruct Hin as ([[[js go] col] kk] & E & Hr). inversion E; subst.
  pose proof default_keys_unescaped as K. rewrite forallb_forall in K. specialize (K _ Hr). cbn beta iota in K.
  destruct (list_eq_dec N.eq_dec (esc_string_utf8 (bytes_of_string js)) (34 :: bytes_of_string js ++ [34])) as [Ek|]; [|discriminate].
  rewrite Ek. cbn [app]. rewrite <- app_assoc. cbn [app]. f_equal. f_equal. f_equal. f_equal.
  apply show_jval_u_ascii. apply render_col_ok.
Qed.

Theorem format_default_text m : format_text c0 m = Some (text_default m).
Proof.
  unfold format_text. change (cFields c0) with (map (fun r : string * string * N * ckind => let '(j, _, _, _) := r in j) name_table).
  rewrite (default_members_eq m name_table (incl_refl _)). reflexivity.
Qed.

(* ---- what the loader refuses ---- *)
Lemma configured_none f cs k r :
  In (k, r) (fRender f) -> sassoc registered_renderers r = None -> configured_renderers f cs = None.
Proof.
  unfold configured_renderers. induction (fRender f) as [|[k' r'] l IH]; intros Hin Hr; [contradiction|].
  cbn [fold_right fst snd]. destruct Hin as [E|Hin].
  - inversion E; subst. rewrite Hr. destruct (fold_right _ _ l); reflexivity.
  - rewrite (IH Hin Hr). reflexivity.
Qed.

Theorem unknown_renderer_rejected f cs k r :
  In (k, r) (fRender f) -> sassoc registered_renderers r = None -> compile_fmt f cs = None.
Proof. intros Hin Hr. unfold compile_fmt. rewrite (configured_none f cs k r Hin Hr). reflexivity. Qed.

Theorem unknown_field_rejected f cs conf s :
  configured_renderers f cs = Some conf -> In s (fFields f) -> in_remap cs s = false -> render_fn conf s = None ->
  compile_fmt f cs = None.
Proof.
  intros Hc Hin Hr Hn. unfold compile_fmt. rewrite Hc.
  assert (E : forallb (fun s0 => in_remap cs s0 || match render_fn conf s0 with Some _ => true | None => false end) (fFields f) = false).
  { apply not_true_is_false. intros H. rewrite forallb_forall in H. specialize (H s Hin). rewrite Hr, Hn in H. discriminate. }
  rewrite E. reflexivity.
Qed.

Theorem unknown_key_rejected f cs s :
  In s (fKeys f) -> in_remap cs s = false -> compile_fmt f cs = None.
Proof.
  intros Hin Hr. unfold compile_fmt. destruct (configured_renderers f cs) as [conf|]; [|reflexivity].
  assert (E : forallb (in_remap cs) (fKeys f) = false).
  { apply not_true_is_false. intros H. rewrite forallb_forall in H. specialize (H s Hin). congruence. }
  rewrite E, andb_false_r. reflexivity.
Qed.
