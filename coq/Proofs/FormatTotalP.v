(* C13, first sentence: every flow message can be written in the JSON and the text form -- the general formatter of
   Model/Format.v never leaves its model ("None": where the Go code would panic in reflect, or a timestamp beyond the
   year 9999) for a compiled configuration whose custom fields have names of their own and no datetime renderer. *)
From Coq Require Import String Ascii NArith List Bool Lia.
From GF Require Import Base.Res Base.Bytes Model.Msg Model.Json Model.Cfg Model.Render Model.Format Spec.RenderTables.
Import ListNotations.
Local Open Scope string_scope.
Open Scope N_scope.

(* the renderer functions a compiled configuration without datetime renderers can name *)
Definition plain_fns : list string :=
  ["NilRenderer"; "StringRenderer"; "IPRenderer"; "MacRenderer"; "EtypeRenderer"; "ProtoRenderer"; "NetworkRenderer"; "ICMPRenderer"].

Lemma apply_renderer_total fn m f v : In fn plain_fns -> apply_renderer fn m f v <> None.
Proof.
  intros H. unfold plain_fns in H.
  repeat (destruct H as [<-|H]; [unfold apply_renderer; cbn [String.eqb Ascii.eqb Bool.eqb]; discriminate|]).
  contradiction.
Qed.

(* the tables only name such functions (finite, evaluated): the defaults, and the registered ones except the two datetime ids *)
Definition fn_plain (fn : string) : bool := existsb (String.eqb fn) plain_fns.
Lemma defaults_plain : forallb (fun kv => fn_plain (snd kv)) default_renderers = true.
Proof. vm_compute. reflexivity. Qed.
Definition is_datetime (id : string) : bool := String.eqb id "datetime" || String.eqb id "datetimenano".
Lemma registered_plain : forallb (fun kv => is_datetime (fst kv) || fn_plain (snd kv)) registered_renderers = true.
Proof. vm_compute. reflexivity. Qed.

Lemma fn_plain_in fn : fn_plain fn = true -> In fn plain_fns.
Proof. unfold fn_plain. intros H. apply existsb_exists in H. destruct H as (x & Hx & E). apply String.eqb_eq in E. subst. exact Hx. Qed.

Lemma sassoc_in {A} (l : list (string * A)) k v : sassoc l k = Some v -> In (k, v) l.
Proof.
  induction l as [|[k' v'] r IH]; cbn [sassoc]; [discriminate|]. destruct (String.eqb k' k) eqn:E.
  - intros H. inversion H; subst. apply String.eqb_eq in E. subst. left. reflexivity.
  - intros H. right. apply IH. exact H.
Qed.

(* a configuration without datetime renderers *)
Definition no_datetime (f : afmt) : Prop := forall k id, In (k, id) (fRender f) -> is_datetime id = false.

Lemma configured_plain f cs : no_datetime f -> forall conf, configured_renderers f cs = Some conf ->
  forall k fn, In (k, fn) conf -> In fn plain_fns.
Proof.
  unfold configured_renderers, no_datetime. induction (fRender f) as [|[k0 id0] l IH]; intros Hnd conf H k fn Hin.
  - cbn [fold_right] in H. inversion H; subst. contradiction.
  - cbn [fold_right fst snd] in H.
    destruct (fold_right _ (Some []) l) as [l'|] eqn:El; [|discriminate].
    destruct (sassoc registered_renderers id0) as [fn0|] eqn:Er; [|discriminate].
    inversion H; subst; clear H. destruct Hin as [E|Hin].
    + inversion E; subst. apply sassoc_in in Er.
      pose proof registered_plain as R. rewrite forallb_forall in R. specialize (R _ Er). cbn [fst snd] in R.
      rewrite (Hnd k0 id0 (or_introl eq_refl)) in R. cbn [orb] in R. apply fn_plain_in. exact R.
    + apply (IH (fun k id H => Hnd k id (or_intror H)) l' eq_refl k fn Hin).
Qed.

Lemma render_fn_plain conf field fn :
  (forall k fn, In (k, fn) conf -> In fn plain_fns) -> render_fn conf field = Some fn -> In fn plain_fns.
Proof.
  intros Hc. unfold render_fn. destruct (sassoc conf field) as [fn0|] eqn:E.
  - intros H. inversion H; subst. apply sassoc_in in E. apply (Hc _ _ E).
  - intros H. apply sassoc_in in H. pose proof defaults_plain as D. rewrite forallb_forall in D.
    specialize (D _ H). apply fn_plain_in. exact D.
Qed.

(* ---- shapes: a custom field declared as array is read back as a list, a scalar one as a single value ---- *)
Definition shape_ok (arr : bool) (o : option fval) : Prop :=
  match o with None => True | Some (FOne _) => arr = false | Some (FMany _) => arr = true end.

Lemma custom_by_num_in cs n c : custom_by_num cs n = Some c -> In c cs.
Proof. unfold custom_by_num. intros H. apply find_some in H. destruct H as [H _]. apply in_rev in H. exact H. Qed.

Lemma unk_value_shape cs name arr :
  (forall c, In c cs -> cName c = name -> cArray c = arr) ->
  forall us acc, shape_ok arr acc -> exists r, unk_value cs us name acc = Some r /\ shape_ok arr r.
Proof.
  intros Hc. induction us as [|u r IH]; intros acc Hs; cbn [unk_value]; [exists acc; split; [reflexivity|exact Hs]|].
  destruct (custom_by_num cs (uNum u)) as [c|] eqn:E; [|apply IH; exact Hs].
  destruct (String.eqb (cName c) name) eqn:En; [|apply IH; exact Hs].
  apply String.eqb_eq in En. pose proof (Hc c (custom_by_num_in _ _ _ E) En) as Ha. rewrite Ha.
  destruct arr.
  - destruct acc as [[x|l]|]; cbn [shape_ok] in Hs; [discriminate|apply IH; reflexivity|apply IH; reflexivity].
  - apply IH. reflexivity.
Qed.

(* the slice table and the struct kinds say the same (finite, evaluated) *)
Definition is_many (k : ckind) (g : string) : bool :=
  match k with CKListI | CKListB => true | CKEnum => String.eqb g "LayerStack" | _ => false end.
Lemma slice_table_consistent :
  forallb (fun r : string * string * N * ckind => let '(_, g, _, k) := r in
             Bool.eqb (existsb (String.eqb g) slice_fields) (is_many k g)) name_table = true.
Proof. vm_compute. reflexivity. Qed.
Lemma slice_names_are_struct_fields :
  forallb (fun n => match struct_by_go n with Some _ => true | None => false end) slice_fields = true.
Proof. vm_compute. reflexivity. Qed.

Lemma struct_value_shape m g col k :
  match struct_value m g col k with FMany _ => is_many k g = true | FOne _ => is_many k g = false end.
Proof. unfold struct_value, is_many. destruct k; try reflexivity. destruct (String.eqb g "LayerStack"); reflexivity. Qed.

Lemma apply_renderer_not_nil fn m field x o : apply_renderer fn m field (Some x) = Some o -> o <> ONil.
Proof.
  unfold apply_renderer.
  repeat match goal with |- context [if String.eqb fn ?s then _ else _] => destruct (String.eqb fn s) end;
    try discriminate;
    destruct x as [n|n|t n|b]; cbn [nil_renderer];
    repeat match goal with
           | |- context [match rfc3339 ?a ?b with _ => _ end] => destruct (rfc3339 a b)
           | |- context [if ?c then _ else _] => destruct c
           end; intros H; inversion H; discriminate.
Qed.

Lemma render_elems_total fn m field : In fn plain_fns -> forall l, render_elems fn m field l <> None.
Proof.
  intros Hf. induction l as [|v r IH]; cbn [render_elems]; [discriminate|].
  destruct (apply_renderer fn m field (Some v)) as [o|] eqn:E; [|exfalso; eapply apply_renderer_total; eauto].
  destruct (render_elems fn m field r) as [js|]; [|congruence].
  pose proof (apply_renderer_not_nil _ _ _ _ _ E) as Hn. destruct o; [congruence| |]; discriminate.
Qed.

(* ---- the formatter stays inside its model ---- *)
(* one name, one shape: two declarations of a custom field name agree on the array flag *)
Definition customs_ok (cs : list custom) : Prop :=
  forall a b, In a cs -> In b cs -> cName a = cName b -> cArray a = cArray b.

Lemma is_custom_ex cs s : is_custom cs s = true -> exists c, In c cs /\ cName c = s.
Proof. unfold is_custom. intros H. apply existsb_exists in H. destruct H as (c & Hc & E). exists c. split; [exact Hc|apply String.eqb_eq; exact E]. Qed.

Lemma is_custom_none cs s : is_custom cs s = false -> forall c, In c cs -> cName c <> s.
Proof.
  unfold is_custom. intros H c Hc E. assert (X : existsb (fun c0 => String.eqb (cName c0) s) cs = true).
  { apply existsb_exists. exists c. split; [exact Hc|apply String.eqb_eq; exact E]. }
  congruence.
Qed.

Lemma unk_value_no_custom cs s : (forall c, In c cs -> cName c <> s) -> forall us acc, unk_value cs us s acc = Some acc.
Proof.
  intros H. induction us as [|u r IH]; intros acc; cbn [unk_value]; [reflexivity|].
  destruct (custom_by_num cs (uNum u)) as [c|] eqn:E; [|apply IH].
  assert (En : String.eqb (cName c) s = false).
  { apply not_true_is_false. intros X. apply String.eqb_eq in X. exact (H c (custom_by_num_in _ _ _ E) X). }
  rewrite En. apply IH.
Qed.

Theorem format_field_total f cs c m s :
  compile_fmt f cs = Some c -> no_datetime f -> customs_ok cs -> format_field c m s <> None.
Proof.
  intros Hcomp Hnd Hcons.
  unfold compile_fmt in Hcomp. destruct (configured_renderers f cs) as [conf|] eqn:Econf; [|discriminate].
  destruct (forallb _ (fFields f) && forallb (in_remap cs) (fKeys f)); [|discriminate].
  inversion Hcomp; subst c; clear Hcomp.
  pose proof (configured_plain f cs Hnd conf Econf) as Hconf.
  unfold format_field. cbn [cCustoms cRend cRename].
  set (field := remap cs s).
  assert (Hfn : In (match render_fn conf field with Some f0 => f0 | None => "NilRenderer" end) plain_fns).
  { destruct (render_fn conf field) as [fn|] eqn:Er; [eapply render_fn_plain; eauto|left; reflexivity]. }
  set (fn := match render_fn conf field with Some f0 => f0 | None => "NilRenderer" end) in *.
  assert (Hone : forall x, match apply_renderer fn m field (Some x) with
                           | Some o => Some (match jval_of o with Some j => Some (bytes_of_string (match sassoc (fRename f) s with Some EmptyString => s | Some r => r | None => s end), j) | None => None end)
                           | None => None end <> None).
  { intros x. destruct (apply_renderer fn m field (Some x)) as [o|] eqn:Ea; [discriminate|exfalso; eapply apply_renderer_total; eauto]. }
  assert (Hmany : forall l, match render_elems fn m field l with
                            | Some js => Some (Some (bytes_of_string (match sassoc (fRename f) s with Some EmptyString => s | Some r => r | None => s end), JArr js))
                            | None => None end <> None).
  { intros l. pose proof (render_elems_total fn m field Hfn l). destruct (render_elems fn m field l); [discriminate|congruence]. }
  destruct (struct_by_go field) as [[[[j g] col] k]|] eqn:Es.
  - destruct (struct_value m g col k) as [x|l]; [apply Hone|apply Hmany].
  - assert (Hu : exists r, unk_value cs (unk m) s None = Some r).
    { destruct (is_custom cs s) eqn:Eic.
      - destruct (is_custom_ex _ _ Eic) as (c0 & Hc0 & En0).
        destruct (unk_value_shape cs s (cArray c0) (fun c1 H1 E1 => Hcons c1 c0 H1 Hc0 (eq_trans E1 (eq_sym En0))) (unk m) None I) as (r & Er & _).
        exists r. exact Er.
      - exists None. apply unk_value_no_custom. apply is_custom_none. exact Eic. }
    destruct Hu as (r & Er). rewrite Er.
    destruct r as [[x|l]|]; [apply Hone|apply Hmany|].
    destruct (match render_fn conf field with None => true | Some _ => is_custom cs s end); [discriminate|].
    destruct (is_slice cs field); [discriminate|].
    destruct (apply_renderer fn m field None) as [o|] eqn:Ea; [discriminate|exfalso; eapply apply_renderer_total; eauto].
Qed.

Theorem format_json_total f cs c m :
  compile_fmt f cs = Some c -> no_datetime f -> customs_ok cs -> format_json c m <> None /\ format_text c m <> None.
Proof.
  intros Hc Hnd Hok.
  assert (G : forall fields, format_members c m fields <> None).
  { induction fields as [|s r IH]; cbn [format_members]; [discriminate|].
    pose proof (format_field_total f cs c m s Hc Hnd Hok) as Hf.
    destruct (format_field c m s) as [x|]; [|congruence]. destruct (format_members c m r); [discriminate|congruence]. }
  unfold format_json, format_text. specialize (G (cFields c)). destruct (format_members c m (cFields c)); [split; discriminate|congruence].
Qed.

(* the two side conditions as computable tests *)
Definition customs_okb (cs : list custom) : bool :=
  forallb (fun a => forallb (fun b => if String.eqb (cName a) (cName b) then Bool.eqb (cArray a) (cArray b) else true) cs) cs.
Lemma customs_okb_ok cs : customs_okb cs = true -> customs_ok cs.
Proof.
  unfold customs_okb, customs_ok. intros H a b Ha Hb E. rewrite forallb_forall in H. specialize (H a Ha).
  rewrite forallb_forall in H. specialize (H b Hb). rewrite E, String.eqb_refl in H. apply Bool.eqb_prop in H. exact H.
Qed.
Definition no_datetimeb (f : afmt) : bool := forallb (fun kv => negb (is_datetime (snd kv))) (fRender f).
Lemma no_datetimeb_ok f : no_datetimeb f = true -> no_datetime f.
Proof.
  unfold no_datetimeb, no_datetime. intros H k id Hin. rewrite forallb_forall in H. specialize (H _ Hin). cbn [snd] in H.
  apply negb_true_iff in H. exact H.
Qed.
