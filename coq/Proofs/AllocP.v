(* Memory per datagram is bounded by its size, not by the counts it claims (C02): every slice the
   decoders pre-size from an attacker-controlled count is capped, and every decoded element is
   physically present in the datagram. *)
From Coq Require Import String List NArith ZArith Lia ZifyN ZifyNat ZifyBool Bool.
From GF Require Import Base.Res Base.Bytes Base.Layout Model.NF Model.NFv5 Model.SFlow
     Proofs.BytesL Proofs.LayoutL Proofs.NFv5P Proofs.TotalP.
Import ListNotations.
Open Scope N_scope.

(* ---- sFlow ---- *)
Lemma dec_records_len flow : forall count d rs,
  dec_records count flow d = Ok rs -> (length rs <= count)%nat /\ (8 * length rs <= length d)%nat.
Proof.
  induction count as [|c IH]; intros d rs H; cbn [dec_records] in H; [inversion H; simpl; lia|].
  destruct (Nat.leb 8 (length d)) eqn:E8; [|inversion H; simpl; lia]. apply Nat.leb_le in E8.
  destruct (rd 4 d) as [[fmt d1]| | |] eqn:E1; try discriminate. apply rd_len in E1.
  destruct (rd 4 d1) as [[len d2]| | |] eqn:E2; try discriminate. apply rd_len in E2.
  destruct (lenN d2 <? len) eqn:El; [inversion H; simpl; lia|].
  destruct (next (N.to_nat len) d2) as [body rest] eqn:En.
  assert (Lr : (length rest <= length d2)%nat).
  { pose proof (next_split (N.to_nat len) d2) as [_ Hs]. rewrite En in Hs. exact Hs. }
  destruct (if flow then dec_flow_record fmt len body else dec_counter_record fmt len body); try discriminate.
  destruct (dec_records c flow rest) as [rs'| | |] eqn:Er; try discriminate.
  inversion H; subst. apply IH in Er. cbn [length]. lia.
Qed.

Lemma pad_recs_len count rs : (length rs <= count)%nat -> length (pad_recs count rs) = count.
Proof. intros H. unfold pad_recs. rewrite app_length, repeat_length. lia. Qed.

(* the pre-sized record slice of a decoded sample never has more than 1000 slots, whatever the
   sample claims; and the sample physically occupies at least 12 bytes *)
Lemma dec_sample_cap fmt len d s :
  dec_sample fmt len d = Ok s -> (length (sRecs s) <= 1000)%nat /\ (12 <= length d)%nat.
Proof.
  unfold dec_sample. intros H.
  destruct (rd 4 d) as [[seq d1]| | |] eqn:E1; try discriminate. apply rd_len in E1.
  match type of H with (match ?x with _ => _ end) = _ => destruct x as [[[st sv] d2]| | |] eqn:E2; try discriminate end.
  assert (L2 : (length d2 + 4 <= length d1)%nat).
  { destruct ((fmt =? 1) || (fmt =? 2)).
    - destruct (rd 4 d1) as [[sid d2']| | |] eqn:E; try discriminate. apply rd_len in E. inversion E2; subst. lia.
    - destruct ((fmt =? 3) || (fmt =? 4) || (fmt =? 5)); [|discriminate].
      destruct (rd 4 d1) as [[a d2']| | |] eqn:Ea; try discriminate. apply rd_len in Ea.
      destruct (rd 4 d2') as [[b d3']| | |] eqn:Eb; try discriminate. apply rd_len in Eb. inversion E2; subst. lia. }
  assert (B : forall kind nvals flow,
            (1 <= nvals)%nat ->
            (let* (vs, d3) := rd_fields (u32s nvals) d2 in
             let count := last vs 0 in
             if 1000 <? count then Err ETooMany else
             let* rs := dec_records (N.to_nat count) flow d3 in
             Ok {| sKind := kind; sHdr := [fmt; len; seq; st; sv]; sVals := vs;
                   sRecs := pad_recs (N.to_nat count) rs |}) = Ok s ->
            (length (sRecs s) <= 1000)%nat /\ (12 <= length d)%nat).
  { intros kind nvals flow Hn Hb.
    destruct (rd_fields (u32s nvals) d2) as [[vs d3]| | |] eqn:Ef; try discriminate.
    apply rd_fields_len in Ef.
    assert (Hsum : (4 <= sum_ws (u32s nvals))%nat).
    { destruct nvals; [lia|]. unfold u32s. cbn [repeat sum_ws fold_right]. lia. }
    cbv zeta in Hb. destruct (1000 <? last vs 0) eqn:Ec; [discriminate|].
    destruct (dec_records (N.to_nat (last vs 0)) flow d3) as [rs| | |] eqn:Er; try discriminate.
    inversion Hb; subst. cbn [sRecs]. apply dec_records_len in Er. destruct Er as [Er _].
    rewrite pad_recs_len by exact Er. split; lia. }
  destruct (fmt =? 1); [eapply B; [|exact H]; lia|].
  destruct ((fmt =? 2) || (fmt =? 4)); [eapply B; [|exact H]; lia|].
  destruct (fmt =? 3); eapply B; try exact H; lia.
Qed.

Lemma dec_samples_len : forall count d ss,
  dec_samples count d = Ok ss ->
  (length ss <= count)%nat /\ (20 * length ss <= length d)%nat /\ Forall (fun s => (length (sRecs s) <= 1000)%nat) ss.
Proof.
  induction count as [|c IH]; intros d ss H; cbn [dec_samples] in H; [inversion H; simpl; repeat split; try lia; constructor|].
  destruct (Nat.leb 8 (length d)) eqn:E8; [|inversion H; simpl; repeat split; try lia; constructor].
  destruct (rd 4 d) as [[fmt d1]| | |] eqn:E1; try discriminate. apply rd_len in E1.
  destruct (rd 4 d1) as [[len d2]| | |] eqn:E2; try discriminate. apply rd_len in E2.
  destruct (lenN d2 <? len) eqn:El; [inversion H; simpl; repeat split; try lia; constructor|].
  destruct (next (N.to_nat len) d2) as [body rest] eqn:En.
  assert (Ls : (length body + length rest = length d2)%nat).
  { unfold next in En. inversion En; subst. rewrite firstn_length, skipn_length. lia. }
  destruct (dec_sample fmt len body) as [s| | |] eqn:Es; try discriminate.
  destruct (dec_samples c rest) as [ss'| | |] eqn:Er; try discriminate.
  inversion H; subst. apply IH in Er. destruct Er as (A & B & C).
  apply dec_sample_cap in Es. destruct Es as [S1 S2]. cbn [length]. repeat split; try lia.
  constructor; assumption.
Qed.

Definition sf_slots (p : spkt) : nat := (length (kSamples p) + fold_right (fun s a => length (sRecs s) + a) 0 (kSamples p))%nat.

Lemma sum_recs_bound ss : Forall (fun s => (length (sRecs s) <= 1000)%nat) ss ->
  (fold_right (fun s a => length (sRecs s) + a) 0 ss <= 1000 * length ss)%nat.
Proof. induction 1; cbn [fold_right length]; lia. Qed.

Lemma sum_recs_nil n : fold_right (fun s a => (length (sRecs s) + a)%nat) 0%nat (repeat nil_sample n) = 0%nat.
Proof. induction n; cbn; auto. Qed.

Lemma fold_app (a b : list ssample) :
  fold_right (fun s x => (length (sRecs s) + x)%nat) 0%nat (a ++ b) =
  (fold_right (fun s x => (length (sRecs s) + x)%nat) 0%nat a + fold_right (fun s x => (length (sRecs s) + x)%nat) 0%nat b)%nat.
Proof. induction a; cbn [app fold_right]; lia. Qed.

(* EVERY byte string that decodes: the number of sample and record slots the decoder pre-sizes is
   at most 1000 + 1000 * (length / 20) -- it depends on the datagram's length only, never on the
   values of the count fields inside it *)
Lemma decode_sf_slots d p : decode_sf d = Ok p -> (sf_slots p <= 1000 + 1000 * (length d / 20))%nat.
Proof.
  unfold decode_sf. intros H.
  destruct (rd 4 d) as [[ver d0]| | |] eqn:E0; try discriminate. apply rd_len in E0.
  destruct (negb (ver =? 5)); [discriminate|].
  destruct (rd 4 d0) as [[ipv d1]| | |] eqn:E1; try discriminate. apply rd_len in E1.
  match type of H with (match ?x with _ => _ end) = _ => destruct x as [[ip d2]| | |] eqn:E2; try discriminate end.
  assert (L2 : (length d2 <= length d1)%nat).
  { destruct (ipv =? 1); [apply read_len in E2; lia|]. destruct (ipv =? 2); [apply read_len in E2; lia|discriminate]. }
  destruct (rd_fields (u32s 4) d2) as [[vs d3]| | |] eqn:E3; try discriminate. apply rd_fields_len in E3.
  cbv zeta in H. destruct (1000 <? nth 3 vs 0) eqn:Ec; [discriminate|].
  destruct (dec_samples (N.to_nat (nth 3 vs 0)) d3) as [ss| | |] eqn:Es; try discriminate.
  inversion H; subst. unfold sf_slots. cbn [kSamples].
  apply dec_samples_len in Es. destruct Es as (A & B & C).
  rewrite app_length, repeat_length, fold_app, sum_recs_nil.
  pose proof (sum_recs_bound ss C).
  assert (length ss <= length d / 20)%nat by (apply Nat.div_le_lower_bound; lia).
  assert (length ss + (N.to_nat (nth 3 vs 0%N) - length ss) <= 1000)%nat by lia.
  nia.
Qed.

(* for a datagram of at most 9000 bytes: at most 451000 slots of at most 24 bytes: under 11 MB *)
Lemma decode_sf_budget d p : lenN d <= 9000 -> decode_sf d = Ok p -> 24 * N.of_nat (sf_slots p) <= 10824000.
Proof.
  intros Hl H. apply decode_sf_slots in H.
  unfold lenN in Hl. assert (length d / 20 <= 450)%nat by (apply Nat.div_le_upper_bound; lia). lia.
Qed.

(* gateway records: AS path and communities are capped at 1000 entries each *)
Lemma rd_u32s_length n : forall d xs r, rd_u32s n d = Ok (xs, r) -> length xs = n.
Proof.
  induction n as [|k IH]; intros d xs r H; cbn [rd_u32s] in H; [inversion H; reflexivity|].
  destruct (rd 4 d) as [[x d1]| | |]; try discriminate.
  destruct (rd_u32s k d1) as [[xs' d2]| | |] eqn:E; try discriminate.
  inversion H; subst. cbn [length]. f_equal. eapply IH; eauto.
Qed.

(* ---- NetFlow v5 ---- *)
Lemma decode_v5_slots d h rs : wfb d -> decode_v5 d = Ok (h, rs) -> v5_count h < 65536 /\ lenN rs <= v5_count h.
Proof.
  intros Hd H. unfold decode_v5 in H.
  destruct (rd 2 d) as [[v d0]| | |] eqn:E0; try discriminate.
  destruct (v =? 5); [|discriminate]. apply rd_ok in E0; auto. destruct E0 as (_ & _ & Hd0).
  unfold decode_v5_body in H.
  destruct (rd_fields v5_hdr_ws d0) as [[h' d1]| | |] eqn:E1; try discriminate.
  destruct (v5_loop _ d1) as [rs'| | |] eqn:E2; try discriminate.
  inversion H; subst. apply rd_fields_ok in E1; auto. destruct E1 as (_ & Hf & Hd1).
  assert (Hc : v5_count h < 65536).
  { unfold v5_count. destruct h as [|c t]; [simpl; lia|]. cbn [fits v5_hdr_ws] in Hf.
    apply andb_prop in Hf. destruct Hf as [Hf _]. cbn [nth]. apply N.ltb_lt in Hf. exact Hf. }
  split; [exact Hc|].
  apply v5_loop_ok in E2; auto. destruct E2 as (tail & _ & Hl & _). unfold lenN. lia.
Qed.
