(* C13, the protobuf half: the bytes Model/Pb.v writes for a message parse back -- by the wire grammar of
   Spec/PbWire.v, read against the schema -- to exactly the message's observable content (Msg.show_msg). *)
From Coq Require Import String List NArith ZArith Lia ZifyN ZifyNat ZifyBool Bool.
From GF Require Import Base.Res Base.Bytes Model.Msg Model.Pb Model.Cfg Spec.PbWire Proofs.BytesL Proofs.FormatP.
Import ListNotations.
Open Scope N_scope.
Ltac Zify.zify_post_hook ::= Z.div_mod_to_equations.

Definition enc_item (i : witem) : bytes :=
  match i with
  | WVar k v => tag k 0 ++ enc_varint v
  | WLen k b => len_delim k b
  end.
Definition item_ok (i : witem) : Prop :=
  match i with
  | WVar k v => k < 536870912 /\ v < 18446744073709551616
  | WLen k b => k < 536870912 /\ lenN b < 18446744073709551616
  end.

Definition wire_col (m : msg) (k : N) : list witem :=
  match alookup (cols m) k with
  | Some (VI n) => if n =? 0 then [] else [WVar k n]
  | Some (VB b) => match b with [] => [] | _ => [WLen k b] end
  | Some (VLI l) => match l with [] => [] | _ => [WLen k (concat (map enc_varint l))] end
  | Some (VLB l) => map (WLen k) l
  | None => []
  end.
Definition wire_unk (u : ufield) : witem := if uVarint u then WVar (uNum u) (uInt u) else WLen (uNum u) (uBytes u).
Definition wire_of (m : msg) : list witem := flat_map (wire_col m) all_cols ++ map wire_unk (unk m).

Lemma concat_flat_map {A B} (f : A -> list B) (g : B -> bytes) l :
  concat (map g (flat_map f l)) = concat (map (fun x => concat (map g (f x))) l).
Proof. induction l as [|x r IH]; [reflexivity|]. cbn [flat_map map concat]. rewrite map_app, concat_app, IH. reflexivity. Qed.

(* the encoder writes the items, one after the other *)
Lemma pb_encode_items m : pb_encode m = concat (map enc_item (wire_of m)).
Proof.
  unfold pb_encode, wire_of. rewrite map_app, concat_app. f_equal.
  - rewrite concat_flat_map. f_equal. apply map_ext. intros k. unfold enc_col, wire_col.
    destruct (alookup (cols m) k) as [[n|b|l|l]|]; try reflexivity.
    + destruct (n =? 0); [reflexivity|]. cbn [map concat enc_item]. rewrite app_nil_r. reflexivity.
    + destruct b; [reflexivity|]. cbn [map concat enc_item]. rewrite app_nil_r. reflexivity.
    + destruct l; [reflexivity|]. cbn [map concat enc_item]. rewrite app_nil_r. reflexivity.
    + rewrite map_map. reflexivity.
  - rewrite map_map. f_equal. apply map_ext. intros u. unfold enc_unk, wire_unk. destruct (uVarint u); reflexivity.
Qed.

Lemma enc_varint_nonempty n : enc_varint n <> [].
Proof. apply enc_varint_f_nonempty. Qed.

Lemma enc_item_nonempty i : enc_item i <> [].
Proof.
  destruct i as [k v|k b]; unfold enc_item, len_delim, tag; intros H;
    apply app_eq_nil in H; destruct H as [H _]; eapply enc_varint_nonempty; exact H.
Qed.

Lemma skipn_exact' {A} (a b : list A) : skipn (length a) (a ++ b) = b.
Proof. induction a; [reflexivity|assumption]. Qed.
Lemma firstn_exact' {A} (a b : list A) : firstn (length a) (a ++ b) = a.
Proof. induction a as [|x a IH]; [destruct b; reflexivity|]. cbn [length app firstn]. rewrite IH. reflexivity. Qed.

(* one field is read back, whatever follows *)
Lemma parse_item fuel i rest : item_ok i ->
  parse_wire (S fuel) (enc_item i ++ rest) =
  match parse_wire fuel rest with Some l => Some (i :: l) | None => None end.
Proof.
  intros Hok. cbn [parse_wire].
  destruct (enc_item i ++ rest) as [|x q] eqn:E.
  { apply app_eq_nil in E. destruct E as [E _]. exfalso. eapply enc_item_nonempty; exact E. }
  rewrite <- E. clear E x q.
  destruct i as [k v|k b]; cbn [item_ok] in Hok.
  - destruct Hok as [Hk Hv]. unfold enc_item, tag. rewrite <- app_assoc.
    rewrite varint_roundtrip by lia.
    replace ((k * 8 + 0) mod 8 =? 0) with true by lia.
    rewrite varint_roundtrip by exact Hv.
    replace ((k * 8 + 0) / 8) with k by lia. reflexivity.
  - destruct Hok as [Hk Hlen]. unfold enc_item, len_delim, tag. rewrite <- !app_assoc.
    rewrite varint_roundtrip by lia.
    replace ((k * 8 + 2) mod 8 =? 0) with false by lia.
    replace ((k * 8 + 2) mod 8 =? 2) with true by lia.
    rewrite varint_roundtrip by exact Hlen.
    replace (lenN (b ++ rest) <? lenN b) with false by (unfold lenN; rewrite app_length; lia).
    unfold lenN. rewrite Nat2N.id, skipn_exact', firstn_exact'.
    replace ((k * 8 + 2) / 8) with k by lia. reflexivity.
Qed.

Lemma parse_items l : forall fuel, Forall item_ok l -> (length l < fuel)%nat ->
  parse_wire fuel (concat (map enc_item l)) = Some l.
Proof.
  induction l as [|i r IH]; intros fuel Hok Hf.
  - destruct fuel; [lia|]. reflexivity.
  - destruct fuel; [cbn [length] in Hf; lia|]. inversion Hok; subst.
    cbn [map concat]. rewrite parse_item by assumption.
    rewrite IH; [reflexivity|assumption|cbn [length] in Hf; lia].
Qed.

(* a packed field gives its elements back *)
Lemma dec_packed_roundtrip l : forall fuel, Forall (fun x => x < 18446744073709551616) l -> (length l < fuel)%nat ->
  dec_packed fuel (concat (map enc_varint l)) = Some l.
Proof.
  induction l as [|x r IH]; intros fuel Hall Hf.
  - destruct fuel; [lia|]. reflexivity.
  - destruct fuel; [cbn [length] in Hf; lia|]. inversion Hall; subst. cbn [map concat dec_packed].
    destruct (enc_varint x ++ concat (map enc_varint r)) as [|y q] eqn:E.
    { apply app_eq_nil in E. destruct E as [E _]. exfalso. eapply enc_varint_nonempty; exact E. }
    rewrite <- E. rewrite varint_roundtrip by assumption.
    rewrite IH; [reflexivity|assumption|cbn [length] in Hf; lia].
Qed.

Lemma enc_varint_len x : (1 <= length (enc_varint x))%nat.
Proof. pose proof (enc_varint_nonempty x). destruct (enc_varint x); [congruence|cbn [length]; lia]. Qed.
Lemma packed_len l : (length l <= length (concat (map enc_varint l)))%nat.
Proof.
  induction l as [|x r IH]; [cbn; lia|]. cbn [map concat length]. rewrite app_length. pose proof (enc_varint_len x). lia.
Qed.

(* the schema tables agree with each other on every column of the message (finite, evaluated) *)
Definition packed_consistent (k : N) : bool :=
  match kind_of_col k with
  | Some CKListI => is_packed k
  | Some CKEnum => Bool.eqb (is_packed k) (k =? 103)
  | Some _ => negb (is_packed k)
  | None => true
  end.
Lemma schema_consistent : forallb packed_consistent all_cols = true.
Proof. vm_compute. reflexivity. Qed.

Lemma u64_all l : forallb u64 l = true -> Forall (fun x => x < 18446744073709551616) l.
Proof. intros H. apply Forall_forall. intros x Hx. rewrite forallb_forall in H. specialize (H x Hx). unfold u64 in H. lia. Qed.

(* one column: what the parsed fields say is what show_col says *)
Lemma obs_col m k : In k all_cols -> col_ok m k = true ->
  obs_items (wire_col m k) = Some (show_col m k).
Proof.
  intros Hin Hok. pose proof schema_consistent as Hs. rewrite forallb_forall in Hs. specialize (Hs k Hin).
  unfold packed_consistent in Hs. unfold col_ok in Hok. unfold wire_col, show_col.
  destruct (alookup (cols m) k) as [[n|b|l|l]|]; [| | | |reflexivity]; unfold val_ok in Hok.
  - destruct (n =? 0); reflexivity.
  - destruct (kind_of_col k) as [[| | | |]|]; try discriminate.
    destruct b as [|x r]; [reflexivity|]. cbn [obs_items obs_item].
    destruct (is_packed k); [discriminate|]. reflexivity.
  - assert (Hp : is_packed k = true /\ forallb u64 l = true).
    { destruct (kind_of_col k) as [[| | | |]|]; try discriminate.
      - apply andb_prop in Hok. destruct Hok as [Hl _]. split; [exact Hs|exact Hl].
      - apply andb_prop in Hok. destruct Hok as [Hok _]. apply andb_prop in Hok. destruct Hok as [E Hl]. rewrite E in Hs.
        split; [|exact Hl]. destruct (is_packed k); [reflexivity|discriminate]. }
    destruct Hp as [Hp Hl]. destruct l as [|x r]; [reflexivity|].
    cbn [obs_items obs_item]. rewrite Hp.
    rewrite dec_packed_roundtrip; [rewrite app_nil_r; reflexivity|apply u64_all; exact Hl|].
    pose proof (packed_len (x :: r)). lia.
  - destruct (kind_of_col k) as [[| | | |]|]; try discriminate.
    assert (Hp : is_packed k = false) by (destruct (is_packed k); [discriminate|reflexivity]).
    clear Hok Hs. induction l as [|x r IH]; [reflexivity|].
    cbn [map obs_items obs_item flat_map]. rewrite Hp, IH. reflexivity.
Qed.

Lemma obs_items_app a b x y : obs_items a = Some x -> obs_items b = Some y -> obs_items (a ++ b) = Some (x ++ y).
Proof.
  revert x. induction a as [|i r IH]; intros x Ha Hb; cbn [app obs_items] in *.
  - inversion Ha. exact Hb.
  - destruct (obs_item i) as [t|]; [|discriminate]. destruct (obs_items r) as [u|]; [|discriminate].
    inversion Ha; subst. rewrite (IH u eq_refl Hb), app_assoc. reflexivity.
Qed.

Lemma obs_cols m : forall ks, (forall k, In k ks -> In k all_cols) -> forallb (col_ok m) ks = true ->
  obs_items (flat_map (wire_col m) ks) = Some (flat_map (show_col m) ks).
Proof.
  induction ks as [|k r IH]; intros Hsub Hok; [reflexivity|].
  cbn [forallb] in Hok. apply andb_prop in Hok. destruct Hok as [Hk Hr]. cbn [flat_map].
  apply obs_items_app.
  - apply obs_col; [apply Hsub; left; reflexivity|exact Hk].
  - apply IH; [intros k' H'; apply Hsub; right; exact H'|exact Hr].
Qed.

Lemma obs_unks us : forallb unk_ok us = true -> obs_items (map wire_unk us) = Some (flat_map show_unk us).
Proof.
  induction us as [|u r IH]; intros H; [reflexivity|]. cbn [forallb] in H. apply andb_prop in H. destruct H as [Hu Hr].
  cbn [map obs_items flat_map]. rewrite (IH Hr). unfold unk_ok in Hu.
  repeat (apply andb_prop in Hu; destruct Hu as [Hu ?]).
  unfold wire_unk, show_unk. destruct (uVarint u); cbn [obs_item].
  - reflexivity.
  - match goal with X : negb (is_packed _) = true |- _ => apply negb_true_iff in X; rewrite X end. reflexivity.
Qed.

(* bounds of the items of a well-formed message *)
Lemma all_cols_small : forallb (fun k => k <? 536870912) all_cols = true.
Proof. vm_compute. reflexivity. Qed.

Theorem pb_roundtrip m :
  msg_ok m = true ->
  exists items,
    parse_wire (S (length (pb_encode m))) (pb_encode m) = Some items /\
    obs_items items = Some (tl (show_msg m)).
Proof.
  intros Hok. exists (wire_of m). unfold msg_ok in Hok. apply andb_prop in Hok. destruct Hok as [Hc Hu]. split.
  - rewrite pb_encode_items. apply parse_items.
    + unfold wire_of. apply Forall_app. split.
      * apply Forall_forall. intros i Hi. apply in_flat_map in Hi. destruct Hi as (k & Hk & Hi).
        pose proof all_cols_small as Hs. rewrite forallb_forall in Hs. specialize (Hs k Hk).
        rewrite forallb_forall in Hc. specialize (Hc k Hk). unfold col_ok in Hc. unfold wire_col in Hi.
        destruct (alookup (cols m) k) as [[n|b|l|l]|]; [| | | |contradiction].
        -- destruct (n =? 0); [contradiction|]. destruct Hi as [<-|[]]. cbn [item_ok]. split; [lia|].
           unfold val_ok in Hc. destruct (kind_of_col k) as [[| | | |]|]; try discriminate; unfold u64 in Hc; lia.
        -- destruct b as [|b0 b1]; [contradiction|]. destruct Hi as [<-|[]]. cbn [item_ok]. split; [lia|].
           unfold val_ok in Hc. destruct (kind_of_col k) as [[| | | |]|]; try discriminate.
           unfold bytes_ok in Hc. apply andb_prop in Hc. destruct Hc as [_ Hc]. lia.
        -- destruct l as [|l0 l1]; [contradiction|]. destruct Hi as [<-|[]]. cbn [item_ok]. split; [lia|].
           unfold val_ok in Hc. destruct (kind_of_col k) as [[| | | |]|]; try discriminate.
           ++ apply andb_prop in Hc. destruct Hc as [_ Hc]. lia.
           ++ apply andb_prop in Hc. destruct Hc as [_ Hc]. lia.
        -- apply in_map_iff in Hi. destruct Hi as (x & <- & Hx). cbn [item_ok]. split; [lia|].
           unfold val_ok in Hc. destruct (kind_of_col k) as [[| | | |]|]; try discriminate.
           rewrite forallb_forall in Hc. specialize (Hc x Hx). unfold bytes_ok in Hc.
           apply andb_prop in Hc. destruct Hc as [_ Hc]. lia.
      * apply Forall_forall. intros i Hi. apply in_map_iff in Hi. destruct Hi as (u & <- & Hin).
        rewrite forallb_forall in Hu. specialize (Hu u Hin). unfold unk_ok in Hu.
        repeat (apply andb_prop in Hu; destruct Hu as [Hu ?]).
        unfold wire_unk. destruct (uVarint u); cbn [item_ok]; unfold u64, bytes_ok in *; [lia|].
        match goal with X : _ && _ = true |- _ => apply andb_prop in X; destruct X as [_ X] end. lia.
    + rewrite <- pb_encode_items.
      (* every item takes at least one byte *)
      assert (G : forall l, (length l <= length (concat (map enc_item l)))%nat).
      { induction l as [|i r IH]; [cbn; lia|]. cbn [map concat length]. rewrite app_length.
        pose proof (enc_item_nonempty i). destruct (enc_item i); [congruence|cbn [length]; lia]. }
      rewrite pb_encode_items. specialize (G (wire_of m)). lia.
  - unfold wire_of, show_msg. cbn [tl]. apply obs_items_app.
    + apply obs_cols; [intros k H; exact H|exact Hc].
    + apply obs_unks. exact Hu.
Qed.
