(* C13: a string value of ARBITRARY bytes is written as a well-formed JSON string. *)
From Coq Require Import NArith List Bool Arith Lia ZifyN ZifyNat ZifyBool.
From GF Require Import Base.Res Base.Bytes Model.Json Spec.JsonGrammar Proofs.FormatP.
Import ListNotations.
Open Scope N_scope.

Lemma cont_cb x : cont x = true -> cb x.
Proof. unfold cont, cb. intros H. apply andb_prop in H. lia. Qed.

(* what utf8_len accepts is a well-formed sequence, and it is a prefix of the string *)
Lemma utf8_len_spec s n : utf8_len s = n -> n <> 0%nat ->
  utf8_seq (firstn n s) /\ (n <= length s)%nat /\ (2 <= n)%nat.
Proof.
  unfold utf8_len. destruct s as [|b0 r]; [intros <-; congruence|].
  destruct ((194 <=? b0) && (b0 <=? 223)) eqn:E2.
  { destruct r as [|b1 r1]; [intros <-; congruence|]. destruct (cont b1) eqn:C1; [|intros <-; congruence].
    intros <- _. apply andb_prop in E2. cbn [firstn length]. split; [apply u2; try lia; apply cont_cb; exact C1|lia]. }
  destruct ((224 <=? b0) && (b0 <=? 239)) eqn:E3.
  { destruct r as [|b1 [|b2 r2]]; try (intros <-; congruence).
    destruct (((if b0 =? 224 then 160 else 128) <=? b1) && (b1 <=? (if b0 =? 237 then 159 else 191)) && cont b2) eqn:C; [|intros <-; congruence].
    intros <- _. apply andb_prop in E3. apply andb_prop in C. destruct C as [C C2]. apply andb_prop in C.
    cbn [firstn length]. split; [apply u3; try lia; apply cont_cb; exact C2|lia]. }
  destruct ((240 <=? b0) && (b0 <=? 244)) eqn:E4; [|intros <-; congruence].
  destruct r as [|b1 [|b2 [|b3 r3]]]; try (intros <-; congruence).
  destruct (((if b0 =? 240 then 144 else 128) <=? b1) && (b1 <=? (if b0 =? 244 then 143 else 191)) && cont b2 && cont b3) eqn:C; [|intros <-; congruence].
  intros <- _. apply andb_prop in E4. apply andb_prop in C. destruct C as [C C3]. apply andb_prop in C. destruct C as [C C2]. apply andb_prop in C.
  cbn [firstn length]. split; [apply u4; try lia; apply cont_cb; assumption|lia].
Qed.

Lemma uXXXX a b c d r : is_hex a -> is_hex b -> is_hex c -> is_hex d -> json_chars r -> json_chars ([92; 117; a; b; c; d] ++ r).
Proof. intros. cbn [app]. apply jc_u; assumption. Qed.

Lemma esc_utf8_chars : forall fuel s, (length s <= fuel)%nat -> json_chars (esc_utf8 fuel s).
Proof.
  induction fuel as [|f IH]; intros s Hl; [constructor|].
  destruct s as [|b r]; [constructor|]. cbn [esc_utf8 length] in *.
  destruct (N.ltb_spec b 128) as [Hb|Hb].
  - apply json_chars_app; [apply esc_byte_chars; exact Hb|apply IH; lia].
  - destruct (utf8_len (b :: r)) as [|n] eqn:E.
    + apply uXXXX; try (unfold is_hex; lia). apply IH. lia.
    + destruct (utf8_len_spec (b :: r) (S n) E) as (Hseq & Hlen & H2); [discriminate|].
      destruct ((b =? 226) && (nth 1 (b :: r) 0 =? 128) && ((nth 2 (b :: r) 0 =? 168) || (nth 2 (b :: r) 0 =? 169))).
      * apply uXXXX; try (unfold is_hex; destruct (nth 2 (b :: r) 0 =? 168); lia).
        apply IH. rewrite skipn_length. cbn [length] in *. lia.
      * apply jc_utf8; [exact Hseq|]. apply IH. rewrite skipn_length. cbn [length] in *. lia.
Qed.

Theorem esc_string_utf8_value s : json_value (esc_string_utf8 s).
Proof. unfold esc_string_utf8. apply jv_string. apply esc_utf8_chars. lia. Qed.

(* on plain ASCII it is the ASCII escape *)
Lemma esc_utf8_ascii : forall fuel s, (length s <= fuel)%nat -> Forall (fun b => b < 128) s -> esc_utf8 fuel s = flat_map esc_byte s.
Proof.
  induction fuel as [|f IH]; intros s Hl Ha; [destruct s; [reflexivity|cbn in Hl; lia]|].
  destruct s as [|b r]; [reflexivity|]. inversion Ha as [|? ? Hb Hr]; subst. cbn [esc_utf8 flat_map length] in *.
  replace (b <? 128) with true by lia. f_equal. apply IH; [lia|exact Hr].
Qed.
Lemma esc_string_utf8_ascii s : Forall (fun b => b < 128) s -> esc_string_utf8 s = esc_string s.
Proof. intros H. unfold esc_string_utf8, esc_string. rewrite esc_utf8_ascii by (try lia; exact H). reflexivity. Qed.
