From Coq Require Import List NArith ZArith Lia ZifyN ZifyNat ZifyBool Bool.
From GF Require Import Base.Res Base.Bytes.
Import ListNotations.
Open Scope N_scope.
Ltac Zify.zify_post_hook ::= Z.div_mod_to_equations.

Lemma enc_be_len n : forall v, length (enc_be n v) = n.
Proof. induction n; intros; simpl; auto. rewrite app_length, IHn. simpl. lia. Qed.

Lemma be_snoc l b : be (l ++ [b]) = be l * 256 + b.
Proof. unfold be. rewrite fold_left_app. reflexivity. Qed.

Lemma be_enc n : forall v, v < 256 ^ N.of_nat n -> be (enc_be n v) = v.
Proof.
  induction n; intros v Hv.
  - simpl in *. unfold be; simpl. lia.
  - cbn [enc_be]. rewrite be_snoc, IHn.
    + lia.
    + rewrite Nat2N.inj_succ, N.pow_succ_r' in Hv. lia.
Qed.

Lemma wfb_app a b : wfb (a ++ b) <-> wfb a /\ wfb b.
Proof. unfold wfb. apply Forall_app. Qed.

Lemma enc_be_wfb n : forall v, wfb (enc_be n v).
Proof.
  induction n; intros v; simpl; [constructor|].
  apply wfb_app. split; [apply IHn|]. constructor; [|constructor]. lia.
Qed.

Lemma be_bound l : wfb l -> be l < 256 ^ N.of_nat (length l).
Proof.
  induction l as [|x l IH] using rev_ind; intros H.
  - unfold be; simpl. lia.
  - apply wfb_app in H. destruct H as [Hl Hx]. inversion Hx; subst.
    rewrite be_snoc, app_length. simpl length.
    replace (N.of_nat (length l + 1)) with (N.succ (N.of_nat (length l))) by lia.
    rewrite N.pow_succ_r'. specialize (IH Hl). lia.
Qed.

Lemma enc_be_be l : wfb l -> enc_be (length l) (be l) = l.
Proof.
  induction l as [|x l IH] using rev_ind; intros H; [reflexivity|].
  apply wfb_app in H. destruct H as [Hl Hx]. inversion Hx; subst.
  rewrite app_length. simpl length. rewrite Nat.add_1_r. cbn [enc_be].
  rewrite be_snoc.
  replace ((be l * 256 + x) / 256) with (be l) by lia.
  replace ((be l * 256 + x) mod 256) with x by lia.
  rewrite IH by assumption. reflexivity.
Qed.

Lemma firstn_exact {A} (x r : list A) : firstn (length x) (x ++ r) = x.
Proof. rewrite firstn_app, Nat.sub_diag, firstn_all. simpl. apply app_nil_r. Qed.
Lemma skipn_exact {A} (x r : list A) : skipn (length x) (x ++ r) = r.
Proof. rewrite skipn_app, Nat.sub_diag, skipn_all. reflexivity. Qed.

Lemma read_app x rest n : length x = n -> read n (x ++ rest) = Ok (x, rest).
Proof.
  intros <-. unfold read. rewrite app_length.
  replace (Nat.leb _ _) with true by (symmetry; apply Nat.leb_le; lia).
  rewrite firstn_exact, skipn_exact. reflexivity.
Qed.

Lemma rd_enc n v rest : v < 256 ^ N.of_nat n -> rd n (enc_be n v ++ rest) = Ok (v, rest).
Proof.
  intros H. unfold rd. rewrite read_app by apply enc_be_len. rewrite be_enc; auto.
Qed.

Lemma read_ok n d x r : read n d = Ok (x, r) -> d = x ++ r /\ length x = n.
Proof.
  unfold read. destruct (Nat.leb n (length d)) eqn:E; [|discriminate].
  intros H; inversion H; subst. apply Nat.leb_le in E.
  split; [symmetry; apply firstn_skipn|]. rewrite firstn_length. lia.
Qed.

Lemma read_len n d x r : read n d = Ok (x, r) -> (length r + n = length d)%nat.
Proof. intros H. apply read_ok in H. destruct H as [-> <-]. rewrite app_length. lia. Qed.

Lemma rd_len n d x r : rd n d = Ok (x, r) -> (length r + n = length d)%nat.
Proof.
  unfold rd. destruct (read n d) as [[y r']| | |] eqn:E; try discriminate.
  intros H; inversion H; subst. eapply read_len; eauto.
Qed.

Lemma rd_ok n d v r : wfb d -> rd n d = Ok (v, r) -> d = enc_be n v ++ r /\ v < 256 ^ N.of_nat n /\ wfb r.
Proof.
  unfold rd. intros Hd. destruct (read n d) as [[y r']| | |] eqn:E; try discriminate.
  intros H; inversion H; subst. apply read_ok in E. destruct E as [-> <-].
  apply wfb_app in Hd. destruct Hd as [Hy Hr].
  rewrite enc_be_be by assumption. split; [reflexivity|]. split; [apply be_bound; assumption|assumption].
Qed.

Lemma read_cases n d : (exists x r, read n d = Ok (x, r)) \/ read n d = Err EShort.
Proof. unfold read. destruct (Nat.leb n (length d)); eauto. Qed.

Lemma rd_cases n d : (exists x r, rd n d = Ok (x, r)) \/ rd n d = Err EShort.
Proof. unfold rd, read. destruct (Nat.leb n (length d)); eauto. Qed.

Lemma rd_short n d : (length d < n)%nat -> rd n d = Err EShort.
Proof. intros H. unfold rd, read. replace (Nat.leb _ _) with false; auto. symmetry; apply Nat.leb_gt; lia. Qed.

Lemma rd_enough n d : (n <= length d)%nat -> exists x r, rd n d = Ok (x, r).
Proof. intros H. unfold rd, read. replace (Nat.leb _ _) with true; eauto. symmetry; apply Nat.leb_le; lia. Qed.

Lemma rd_enc1 v rest : v < 256 -> rd 1 (enc_be 1 v ++ rest) = Ok (v, rest).
Proof. intros H. apply rd_enc. exact H. Qed.
Lemma rd_enc2 v rest : v < 65536 -> rd 2 (enc_be 2 v ++ rest) = Ok (v, rest).
Proof. intros H. apply rd_enc. exact H. Qed.
Lemma rd_enc4 v rest : v < 4294967296 -> rd 4 (enc_be 4 v ++ rest) = Ok (v, rest).
Proof. intros H. apply rd_enc. exact H. Qed.

Lemma next_app (x rest : bytes) n : length x = n -> next n (x ++ rest) = (x, rest).
Proof. intros <-. unfold next. rewrite firstn_exact, skipn_exact. reflexivity. Qed.
