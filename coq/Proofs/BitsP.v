(* C14: GetBytes extracts exactly the requested bits, for EVERY buffer, offset and length. *)
From Coq Require Import NArith ZArith List Bool Arith Lia ZifyN ZifyNat ZifyBool.
From GF Require Import Base.Res Base.Bytes Model.Packet Spec.BitNum Proofs.BytesL.
Import ListNotations.
Open Scope N_scope.
Ltac Zify.zify_post_hook ::= Z.to_euclidean_division_equations.

Lemma wfb_nth d j : wfb d -> nth j d 0 < 256.
Proof.
  intros H. destruct (Nat.lt_ge_cases j (length d)) as [Hj|Hj].
  - unfold wfb in H. rewrite Forall_forall in H. apply H. apply nth_In. exact Hj.
  - rewrite nth_overflow by exact Hj. lia.
Qed.

(* the bits of one byte and of its right neighbour *)
Lemma bitv_lo d q j : (j < 8)%nat -> bitv d (8 * q + j) = (nth q d 0 / 2 ^ N.of_nat (7 - j)) mod 2.
Proof.
  intros Hj. unfold bitv.
  replace ((8 * q + j) / 8)%nat with q by lia.
  replace ((8 * q + j) mod 8)%nat with j by lia.
  reflexivity.
Qed.
Lemma bitv_hi d q j : (8 <= j < 16)%nat -> bitv d (8 * q + j) = (nth (S q) d 0 / 2 ^ N.of_nat (15 - j)) mod 2.
Proof.
  intros Hj. replace (8 * q + j)%nat with (8 * S q + (j - 8))%nat by lia. rewrite bitv_lo by lia.
  replace (7 - (j - 8))%nat with (15 - j)%nat by lia. reflexivity.
Qed.

Lemma pack_S d p n : pack d p (S n) = pack d p n * 2 + bitv d (p + n).
Proof. unfold pack. rewrite seq_S, fold_left_app. reflexivity. Qed.

Lemma bitv_lt2 d k : bitv d k < 2.
Proof. unfold bitv. apply N.mod_lt. lia. Qed.

(* a shorter run of bits is the top of a longer one *)
Lemma pack_prefix d p n : forall m, pack d p n = pack d p (n + m) / 2 ^ N.of_nat m.
Proof.
  induction m as [|m IH]; [rewrite Nat.add_0_r; cbn; rewrite N.div_1_r; reflexivity|].
  rewrite Nat.add_succ_r, pack_S, IH. pose proof (bitv_lt2 d (p + (n + m))) as Hb.
  replace (2 ^ N.of_nat (S m)) with (2 * 2 ^ N.of_nat m) by (rewrite Nat2N.inj_succ, N.pow_succ_r'; reflexivity).
  rewrite <- N.div_div by lia.
  replace ((pack d p (n + m) * 2 + bitv d (p + (n + m))) / 2) with (pack d p (n + m)) by lia. reflexivity.
Qed.

Lemma pow2_S k : 2 ^ N.of_nat (S k) = 2 * 2 ^ N.of_nat k.
Proof. rewrite Nat2N.inj_succ, N.pow_succ_r'. reflexivity. Qed.
Lemma pow2_pos k : 0 < 2 ^ N.of_nat k.
Proof. apply N.neq_0_lt_0. apply N.pow_nonzero. discriminate. Qed.
Lemma pow2_add a b : 2 ^ N.of_nat (a + b) = 2 ^ N.of_nat a * 2 ^ N.of_nat b.
Proof. rewrite Nat2N.inj_add, N.pow_add_r. reflexivity. Qed.

(* runs of bits concatenate *)
Lemma pack_app d p n : forall m, pack d p (n + m) = pack d p n * 2 ^ N.of_nat m + pack d (p + n) m.
Proof.
  induction m as [|m IH].
  - rewrite Nat.add_0_r. unfold pack at 3. cbn [seq fold_left N.of_nat]. rewrite N.pow_0_r. lia.
  - rewrite Nat.add_succ_r, !pack_S, IH, pow2_S. rewrite Nat.add_assoc. lia.
Qed.

(* n bits inside one byte, starting j bits into it *)
Lemma pack_in_byte d q j : forall n, (j + n <= 8)%nat ->
  pack d (8 * q + j) n = (nth q d 0 / 2 ^ N.of_nat (8 - j - n)) mod 2 ^ N.of_nat n.
Proof.
  induction n as [|n IH]; intros H.
  - unfold pack. cbn [seq fold_left N.of_nat]. rewrite N.pow_0_r, N.mod_1_r. reflexivity.
  - rewrite pack_S, IH by lia. rewrite <- Nat.add_assoc, bitv_lo by lia.
    set (a := nth q d 0).
    replace (8 - j - n)%nat with (S (7 - (j + n))) by lia.
    replace (8 - j - S n)%nat with (7 - (j + n))%nat by lia.
    set (k := (7 - (j + n))%nat).
    rewrite pow2_S. replace (2 * 2 ^ N.of_nat k) with (2 ^ N.of_nat k * 2) by apply N.mul_comm.
    rewrite <- N.div_div by (try discriminate; apply N.pow_nonzero; discriminate).
    set (x := a / 2 ^ N.of_nat k).
    rewrite (pow2_S n). rewrite (N.mod_mul_r x 2 (2 ^ N.of_nat n)) by (try discriminate; apply N.pow_nonzero; discriminate).
    ring.
Qed.

(* eight bits that start ss bits into byte q: the familiar shift-and-or of two neighbouring bytes *)
Lemma pack8 d q ss : wfb d -> (ss < 8)%nat ->
  pack d (8 * q + ss) 8 = (nth q d 0 * 2 ^ N.of_nat ss) mod 256 + nth (S q) d 0 / 2 ^ N.of_nat (8 - ss).
Proof.
  intros Hd Hs. pose proof (wfb_nth d (S q) Hd) as Hb.
  replace 8%nat with ((8 - ss) + ss)%nat at 2 by lia.
  rewrite pack_app. rewrite pack_in_byte by lia.
  replace (8 * q + ss + (8 - ss))%nat with (8 * S q + 0)%nat by lia. rewrite pack_in_byte by lia.
  replace (8 - ss - (8 - ss))%nat with 0%nat by lia. replace (8 - 0 - ss)%nat with (8 - ss)%nat by lia.
  cbn [N.of_nat]. rewrite N.pow_0_r, N.div_1_r.
  set (a := nth q d 0). set (b := nth (S q) d 0) in *.
  change 256 with (2 ^ N.of_nat 8). replace 8%nat with ((8 - ss) + ss)%nat at 3 by lia. rewrite pow2_add.
  rewrite N.mul_mod_distr_r by (pose proof (pow2_pos ss); pose proof (pow2_pos (8 - ss)); lia).
  f_equal.
  apply N.mod_small. apply N.div_lt_upper_bound; [pose proof (pow2_pos (8 - ss)); lia|].
  rewrite <- pow2_add. replace (8 - ss + ss)%nat with 8%nat by lia. exact Hb.
Qed.

(* ---- GetBytes in natural-number arithmetic ---- *)
Definition gb (d : bytes) (off len : nat) (shift : bool) : res bytes :=
  if Nat.ltb (8 * length d) off then Ok [] else
  if Nat.eqb len 0 then Ok [] else
  let ss := (off mod 8)%nat in
  let r := (len mod 8)%nat in
  let s := (off / 8)%nat in
  let end0 := ((off + len + 7) / 8)%nat in
  let lenB := ((len + 7) / 8)%nat in
  let end1 := Nat.min end0 (length d) in
  let dUsed := firstn (end1 - s) (skipn s d) in
  if Nat.eqb ss 0 && Nat.eqb r 0 then
    (if Nat.ltb (length d) end0 then Ok (firstn lenB (dUsed ++ repeat 0 lenB)) else Ok dUsed)
  else
    let fin := map (fun i =>
                      let a := nth i dUsed 0 in
                      let b := nth (S i) dUsed 0 in
                      if Nat.ltb i (length dUsed) then
                        ((a * 2 ^ N.of_nat ss) mod 256 + (if Nat.ltb (S i) (length dUsed) then b / 2 ^ (8 - N.of_nat ss) else 0)) mod 256
                      else 0) (seq 0 lenB) in
    match rev fin with
    | [] => Panic
    | last :: rr =>
        let sr := N.of_nat ((8 - r) mod 8) in
        let last' := if shift then last / 2 ^ sr else (last / 2 ^ sr) * 2 ^ sr in
        Ok (rev (last' mod 256 :: rr))
    end.

Lemma get_bytes_gb d off len shift : get_bytes d (Z.of_nat off) (Z.of_nat len) shift = gb d off len shift.
Proof.
  unfold get_bytes, gb. cbv zeta.
  set (L := length d).
  assert (E1 : Z.rem (Z.of_nat off) 8 = Z.of_nat (off mod 8)) by lia.
  assert (E2 : Z.rem (Z.of_nat len) 8 = Z.of_nat (len mod 8)) by lia.
  assert (E3 : Z.quot (Z.of_nat off) 8 = Z.of_nat (off / 8)) by lia.
  assert (E4 : (Z.quot (Z.of_nat off + Z.of_nat len) 8 + (if (0 <? Z.rem (Z.of_nat off + Z.of_nat len) 8)%Z then 1 else 0))%Z
               = Z.of_nat ((off + len + 7) / 8)).
  { destruct (0 <? Z.rem (Z.of_nat off + Z.of_nat len) 8)%Z eqn:E; lia. }
  assert (E5 : (Z.quot (Z.of_nat len) 8 + (if (0 <? Z.of_nat (len mod 8))%Z then 1 else 0))%Z = Z.of_nat ((len + 7) / 8)).
  { destruct (0 <? Z.of_nat (len mod 8))%Z eqn:E; lia. }
  rewrite E1, E2, E3, E4, E5.
  replace (Z.of_nat L * 8 <? Z.of_nat off)%Z with (Nat.ltb (8 * L) off) by (destruct (Nat.ltb_spec (8 * L) off); lia).
  destruct (Nat.ltb (8 * L) off) eqn:Eoff; [reflexivity|]. apply Nat.ltb_ge in Eoff.
  replace (Z.of_nat len =? 0)%Z with (Nat.eqb len 0) by (destruct (Nat.eqb_spec len 0); lia).
  destruct (Nat.eqb len 0) eqn:Elen; [reflexivity|]. apply Nat.eqb_neq in Elen.
  set (end0 := ((off + len + 7) / 8)%nat). set (s := (off / 8)%nat). set (lenB := ((len + 7) / 8)%nat).
  replace (0 <? Z.of_nat end0 - Z.of_nat L)%Z with (Nat.ltb L end0) by (destruct (Nat.ltb_spec L end0); lia).
  set (end1z := if Nat.ltb L end0 then Z.of_nat L else Z.of_nat end0).
  assert (Ee : end1z = Z.of_nat (Nat.min end0 L)) by (unfold end1z; destruct (Nat.ltb_spec L end0); lia).
  rewrite Ee.
  assert (Hs : (s <= L)%nat) by (unfold s; lia).
  assert (Hs0 : (s <= end0)%nat) by (unfold s, end0; lia).
  replace ((Z.of_nat s <? 0) || (Z.of_nat (Nat.min end0 L) <? Z.of_nat s) || (Z.of_nat L <? Z.of_nat (Nat.min end0 L)))%Z%bool with false by lia.
  replace (Z.to_nat (Z.of_nat (Nat.min end0 L) - Z.of_nat s)) with (Nat.min end0 L - s)%nat by lia.
  rewrite Nat2Z.id.
  replace (Z.of_nat (off mod 8) =? 0)%Z with (Nat.eqb (off mod 8) 0) by (destruct (Nat.eqb_spec (off mod 8) 0); lia).
  replace (Z.of_nat (len mod 8) =? 0)%Z with (Nat.eqb (len mod 8) 0) by (destruct (Nat.eqb_spec (len mod 8) 0); lia).
  replace (Z.of_nat lenB <? 0)%Z with false by lia.
  rewrite Nat2Z.id.
  replace (Z.to_N (Z.of_nat (off mod 8))) with (N.of_nat (off mod 8)) by lia.
  replace (Z.to_N (Z.rem (8 - Z.of_nat (len mod 8)) 8)) with (N.of_nat ((8 - len mod 8) mod 8)) by lia.
  replace ((Z.of_nat (off mod 8) <? 0)%Z || (Z.of_nat (len mod 8) <? 0)%Z) with false by lia.
  reflexivity.
Qed.

(* ---- the bytes GetBytes looks at ---- *)
Lemma nth_firstn' {A} (l : list A) : forall n i x, nth i (firstn n l) x = if Nat.ltb i n then nth i l x else x.
Proof.
  induction l as [|y r IH]; intros n i x.
  - rewrite firstn_nil. destruct i, (Nat.ltb _ n); reflexivity.
  - destruct n as [|n]; [destruct i; reflexivity|]. destruct i as [|i]; [reflexivity|]. cbn [firstn nth]. rewrite IH.
    reflexivity.
Qed.
Lemma nth_skipn' {A} (l : list A) : forall s i x, nth i (skipn s l) x = nth (s + i) l x.
Proof.
  induction l as [|y r IH]; intros s i x.
  - rewrite skipn_nil. destruct i, (s + _)%nat; reflexivity.
  - destruct s as [|s]; [reflexivity|]. cbn [skipn Nat.add nth]. apply IH.
Qed.
Lemma nth_used (d : bytes) s e i : (e <= length d)%nat ->
  nth i (firstn (e - s) (skipn s d)) 0 = if Nat.ltb (s + i) e then nth (s + i) d 0 else 0.
Proof.
  intros He. destruct (Nat.ltb_spec (s + i) e) as [H|H].
  - rewrite nth_firstn'. replace (Nat.ltb i (e - s)) with true by (symmetry; apply Nat.ltb_lt; lia).
    rewrite nth_skipn'. reflexivity.
  - apply nth_overflow. rewrite firstn_length. lia.
Qed.
Lemma len_used (d : bytes) s e : (s <= e)%nat -> (e <= length d)%nat -> length (firstn (e - s) (skipn s d)) = (e - s)%nat.
Proof. intros H1 H2. rewrite firstn_length, skipn_length. lia. Qed.

Lemma pack8_lt d q ss : wfb d -> (ss < 8)%nat -> pack d (8 * q + ss) 8 < 256.
Proof.
  intros Hd Hs. rewrite <- (Nat.add_0_r 8) at 2. rewrite (pack_prefix d (8 * q + ss) 8 0) at 1.
  cbn [N.of_nat]. rewrite N.pow_0_r, N.div_1_r.
  (* eight bits *)
  assert (G : forall n p, pack d p n < 2 ^ N.of_nat n).
  { induction n as [|n IH]; intros p; [unfold pack; cbn; lia|].
    rewrite pack_S, pow2_S. pose proof (IH p). pose proof (bitv_lt2 d (p + n)). lia. }
  rewrite Nat.add_0_r. apply (G 8%nat).
Qed.

Lemma nth_zero_beyond (d : bytes) j : (length d <= j)%nat -> nth j d 0 = 0.
Proof. intros H. apply nth_overflow. exact H. Qed.

(* the shift-and-or GetBytes computes for output byte i, when the right neighbour is inside the slice
   it took (or lies beyond the buffer, where everything is zero) *)
Lemma fin_byte d s ss e i : wfb d -> (ss < 8)%nat -> (e <= length d)%nat ->
  (s + i < e \/ length d <= s + i)%nat ->
  (s + S i < e \/ length d <= s + S i)%nat ->
  let dUsed := firstn (e - s) (skipn s d) in
  (s <= e)%nat ->
  (if Nat.ltb i (length dUsed) then
     ((nth i dUsed 0 * 2 ^ N.of_nat ss) mod 256 +
      (if Nat.ltb (S i) (length dUsed) then nth (S i) dUsed 0 / 2 ^ (8 - N.of_nat ss) else 0)) mod 256
   else 0) = pack d (8 * (s + i) + ss) 8.
Proof.
  intros Hd Hs He Ha Hn dUsed Hse. pose proof (pack8_lt d (s + i) ss Hd Hs) as Hlt.
  rewrite pack8 in * by assumption. unfold dUsed. rewrite (len_used d s e Hse He), !nth_used by exact He.
  replace (8 - N.of_nat ss) with (N.of_nat (8 - ss)) by lia.
  replace (s + S i)%nat with (S (s + i)) in * by lia.
  destruct (Nat.ltb_spec i (e - s)) as [Hi|Hi].
  - replace (Nat.ltb (s + i) e) with true by (symmetry; apply Nat.ltb_lt; lia).
    destruct (Nat.ltb_spec (S i) (e - s)) as [Hi2|Hi2].
    + replace (Nat.ltb (S (s + i)) e) with true by (symmetry; apply Nat.ltb_lt; lia).
      apply N.mod_small. exact Hlt.
    + destruct Hn as [Hn|Hn]; [lia|]. rewrite (nth_zero_beyond d (S (s + i))) in * by lia.
      rewrite N.div_0_l in * by (apply N.pow_nonzero; discriminate). apply N.mod_small. exact Hlt.
  - (* byte s+i itself is outside the slice: then it is outside the buffer *)
    assert (length d <= s + i)%nat by (destruct Ha; lia).
    rewrite (nth_zero_beyond d (s + i)), (nth_zero_beyond d (S (s + i))) by lia.
    rewrite N.mul_0_l, N.mod_0_l, N.div_0_l by (try discriminate; apply N.pow_nonzero; discriminate). reflexivity.
Qed.

Lemma slice_map_pad (d : bytes) s n :
  firstn n (skipn s d ++ repeat 0 n) = map (fun i => nth (s + i) d 0) (seq 0 n).
Proof.
  apply (nth_ext _ _ 0 0).
  - rewrite firstn_length, app_length, repeat_length, map_length, seq_length. lia.
  - intros i Hi. rewrite firstn_length, app_length, repeat_length in Hi.
    assert (Hin : (i < n)%nat) by lia.
    rewrite nth_firstn'. replace (Nat.ltb i n) with true by (symmetry; apply Nat.ltb_lt; exact Hin).
    rewrite (nth_indep (map (fun i0 => nth (s + i0) d 0) (seq 0 n)) 0 ((fun i0 => nth (s + i0) d 0) 0%nat)) by (rewrite map_length, seq_length; exact Hin).
    rewrite (map_nth (fun i0 => nth (s + i0) d 0)), seq_nth by exact Hin. cbn [Nat.add].
    destruct (Nat.lt_ge_cases i (length (skipn s d))) as [H|H].
    + rewrite app_nth1 by exact H. apply nth_skipn'.
    + rewrite app_nth2 by exact H. rewrite skipn_length in H.
      rewrite (nth_overflow d) by lia. apply nth_repeat.
Qed.

Lemma slice_map (d : bytes) s n : (s + n <= length d)%nat ->
  firstn n (skipn s d) = map (fun i => nth (s + i) d 0) (seq 0 n).
Proof.
  intros H. rewrite <- slice_map_pad. rewrite firstn_app.
  replace (n - length (skipn s d))%nat with 0%nat by (rewrite skipn_length; lia).
  cbn [firstn]. rewrite app_nil_r. reflexivity.
Qed.

Lemma out_byte_full d off len shift i : (8 * S i <= len)%nat -> out_byte d off len shift i = pack d (off + 8 * i) 8.
Proof.
  intros H. unfold out_byte. replace (Nat.min 8 (len - 8 * i)) with 8%nat by lia.
  destruct shift; [reflexivity|]. cbn [Nat.sub N.of_nat]. rewrite N.pow_0_r. lia.
Qed.

Lemma pack8_aligned d q : wfb d -> pack d (8 * q) 8 = nth q d 0.
Proof.
  intros Hd. rewrite <- (Nat.add_0_r (8 * q)). rewrite pack8 by (try exact Hd; lia).
  cbn [N.of_nat Nat.sub]. pose proof (wfb_nth d q Hd). pose proof (wfb_nth d (S q) Hd).
  rewrite N.pow_0_r, N.mul_1_r. change (2 ^ N.of_nat 8) with 256. rewrite N.mod_small by assumption.
  rewrite N.div_small by assumption. lia.
Qed.

(* dropping the low bits of (X + B) where X is a multiple of 2^ss and B < 2^ss <= 2^k *)
Lemma drop_low x b ss k : (ss <= k)%nat -> b < 2 ^ N.of_nat ss ->
  (x * 2 ^ N.of_nat ss + b) / 2 ^ N.of_nat k = (x * 2 ^ N.of_nat ss) / 2 ^ N.of_nat k.
Proof.
  intros Hk Hb. replace k with (ss + (k - ss))%nat by lia. rewrite pow2_add.
  pose proof (pow2_pos ss). pose proof (pow2_pos (k - ss)).
  rewrite <- !N.div_div by lia. rewrite N.div_add_l by lia. rewrite N.div_mul by lia.
  rewrite (N.div_small b) by exact Hb. rewrite N.add_0_r. reflexivity.
Qed.

Theorem gb_spec d off len shift : wfb d -> gb d off len shift = Ok (get_bits_num d off len shift).
Proof.
  intros Hd. unfold gb, get_bits_num.
  destruct (Nat.ltb (8 * length d) off) eqn:Eoff; [reflexivity|]. apply Nat.ltb_ge in Eoff.
  destruct (Nat.eqb len 0) eqn:Elen; [reflexivity|]. apply Nat.eqb_neq in Elen. cbv zeta.
  set (L := length d) in *. set (s := (off / 8)%nat). set (ss := (off mod 8)%nat). set (r := (len mod 8)%nat).
  set (lenB := ((len + 7) / 8)%nat). set (end0 := ((off + len + 7) / 8)%nat).
  assert (Hoff : off = (8 * s + ss)%nat) by (unfold s, ss; lia).
  assert (Hss : (ss < 8)%nat) by (unfold ss; lia).
  assert (Hr : (r < 8)%nat) by (unfold r; lia).
  assert (HlenB : (1 <= lenB)%nat) by (unfold lenB; lia).
  assert (Hs : (s <= L)%nat) by (unfold s; lia).
  assert (Hse : (s <= Nat.min end0 L)%nat) by (unfold s, end0; lia).
  destruct (Nat.eqb ss 0 && Nat.eqb r 0) eqn:Eal.
  - (* byte-aligned *)
    apply andb_prop in Eal. destruct Eal as [E1 E2]. apply Nat.eqb_eq in E1. apply Nat.eqb_eq in E2.
    assert (Hlen : len = (8 * lenB)%nat) by (unfold lenB, r in *; lia).
    assert (Hend : end0 = (s + lenB)%nat) by (unfold end0, lenB; lia).
    assert (Exp : map (out_byte d off len shift) (seq 0 lenB) = map (fun i => nth (s + i) d 0) (seq 0 lenB)).
    { apply map_ext_in. intros i Hi. apply in_seq in Hi. rewrite out_byte_full by lia.
      rewrite Hoff, E1, Nat.add_0_r. replace (8 * s + 8 * i)%nat with (8 * (s + i))%nat by lia. apply pack8_aligned. exact Hd. }
    rewrite Exp. destruct (Nat.ltb_spec L end0) as [Hl|Hl]; f_equal.
    + replace (Nat.min end0 L) with L by lia. rewrite (firstn_all2 (skipn s d) (n := L - s)) by (rewrite skipn_length; lia). apply slice_map_pad.
    + replace (Nat.min end0 L) with end0 by lia. replace (end0 - s)%nat with lenB by lia. apply slice_map. lia.
  - (* shifted *)
    set (end1 := Nat.min end0 L) in *.
    assert (He1 : (end1 <= L)%nat) by (unfold end1; lia).
    set (dUsed := firstn (end1 - s) (skipn s d)).
    set (F := fun i : nat => if Nat.ltb i (length dUsed) then
              ((nth i dUsed 0 * 2 ^ N.of_nat ss) mod 256 +
               (if Nat.ltb (S i) (length dUsed) then nth (S i) dUsed 0 / 2 ^ (8 - N.of_nat ss) else 0)) mod 256 else 0).
    replace lenB with (lenB - 1 + 1)%nat at 1 2 by lia. rewrite seq_app, !map_app. cbn [seq map Nat.add].
    rewrite rev_app_distr. cbn [rev app]. rewrite rev_involutive.
    (* the bytes before the last *)
    assert (Hbody : map F (seq 0 (lenB - 1)) = map (out_byte d off len shift) (seq 0 (lenB - 1))).
    { apply map_ext_in. intros i Hi. apply in_seq in Hi. rewrite out_byte_full by (unfold lenB in *; lia).
      unfold F, dUsed. rewrite fin_byte; try assumption.
      - f_equal. lia.
      - unfold end1, end0, lenB, s in *. lia.
      - unfold end1, end0, lenB, s in *. lia. }
    rewrite Hbody. f_equal. f_equal. f_equal.
    (* the last byte *)
    set (i := (lenB - 1)%nat).
    assert (Ha : (s + i < end1 \/ L <= s + i)%nat) by (unfold i, end1, end0, lenB, s in *; lia).
    unfold out_byte. fold i.
    destruct (Nat.eq_dec r 0) as [Hr0|Hr0].
    + (* the length is a multiple of 8: the last byte is a full one and its right neighbour was read *)
      assert (Hss0 : ss <> 0%nat) by (intros E; rewrite E, Hr0 in Eal; discriminate).
      replace (Nat.min 8 (len - 8 * i)) with 8%nat by (unfold i, lenB, r in *; lia).
      replace ((8 - r) mod 8)%nat with 0%nat by (rewrite Hr0; reflexivity).
      cbn [N.of_nat Nat.sub]. rewrite N.pow_0_r, N.div_1_r, N.mul_1_r.
      unfold F, dUsed. rewrite fin_byte; try assumption.
      * pose proof (pack8_lt d (s + i) ss Hd Hss) as Hlt.
        replace (off + 8 * i)%nat with (8 * (s + i) + ss)%nat by lia.
        destruct shift; rewrite ?N.mul_1_r, ?N.div_1_r; rewrite N.mod_small by exact Hlt; reflexivity.
      * unfold i, end1, end0, lenB, s, ss, r in *. lia.
    + (* a last group of r < 8 bits *)
      replace (Nat.min 8 (len - 8 * i)) with r by (unfold i, lenB, r in *; lia).
      replace ((8 - r) mod 8)%nat with (8 - r)%nat by (symmetry; apply Nat.mod_small; lia).
      replace (off + 8 * i)%nat with (8 * (s + i) + ss)%nat by lia.
      rewrite (pack_prefix d (8 * (s + i) + ss) r (8 - r)). replace (r + (8 - r))%nat with 8%nat by lia.
      pose proof (pack8_lt d (s + i) ss Hd Hss) as Hlt.
      assert (Hlast : F i / 2 ^ N.of_nat (8 - r) = pack d (8 * (s + i) + ss) 8 / 2 ^ N.of_nat (8 - r)).
      { destruct (Nat.le_gt_cases end1 (s + S i)) as [Hout|Hin].
        - destruct (Nat.le_gt_cases L (s + S i)) as [HL|HL].
          + unfold F, dUsed. rewrite fin_byte; try assumption; [reflexivity|right; exact HL].
          + (* the right neighbour is in the buffer but was not read: its bits are not among the r requested *)
            assert (He : end1 = (s + S i)%nat) by (destruct Ha; lia).
            assert (Hsr : (ss + r <= 8)%nat) by (unfold i, end1, end0, lenB, s, ss, r in *; lia).
            unfold F, dUsed. rewrite !(len_used d s end1 Hse He1).
            replace (Nat.ltb i (end1 - s)) with true by (symmetry; apply Nat.ltb_lt; lia).
            replace (Nat.ltb (S i) (end1 - s)) with false by (symmetry; apply Nat.ltb_ge; lia).
            rewrite nth_used by exact He1.
            replace (Nat.ltb (s + i) end1) with true by (symmetry; apply Nat.ltb_lt; lia).
            rewrite N.add_0_r, N.mod_mod by discriminate. rewrite pack8 by assumption.
            pose proof (wfb_nth d (S (s + i)) Hd) as Hb.
            assert (P256 : 256 = 2 ^ N.of_nat (8 - ss) * 2 ^ N.of_nat ss)
              by (rewrite <- pow2_add; replace (8 - ss + ss)%nat with 8%nat by lia; reflexivity).
            rewrite P256. pose proof (pow2_pos ss). pose proof (pow2_pos (8 - ss)).
            rewrite N.mul_mod_distr_r by lia.
            symmetry. apply drop_low; [lia|].
            apply N.div_lt_upper_bound; [lia|]. rewrite <- P256. exact Hb.
        - unfold F, dUsed. rewrite fin_byte; try assumption; [reflexivity|left; lia]. }
      pose proof (pow2_pos (8 - r)) as Hp.
      assert (Hq : pack d (8 * (s + i) + ss) 8 / 2 ^ N.of_nat (8 - r) <= pack d (8 * (s + i) + ss) 8)
        by (apply N.div_le_upper_bound; [lia|]; nia).
      assert (Hm : pack d (8 * (s + i) + ss) 8 / 2 ^ N.of_nat (8 - r) * 2 ^ N.of_nat (8 - r) <= pack d (8 * (s + i) + ss) 8)
        by (rewrite N.mul_comm; apply N.mul_div_le; lia).
      destruct shift; rewrite Hlast; apply N.mod_small; lia.
Qed.

(* THE THEOREM: GetBytes returns exactly the requested bits, for every buffer of bytes, every bit offset
   and every bit length, with and without the final right-alignment *)
Theorem get_bytes_exact d off len shift : wfb d ->
  get_bytes d (Z.of_nat off) (Z.of_nat len) shift = Ok (get_bits_num d off len shift).
Proof. intros Hd. rewrite get_bytes_gb. apply gb_spec. exact Hd. Qed.
