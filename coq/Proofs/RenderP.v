(* C13: the default JSON form of EVERY message is one well-formed JSON object; numbers denote the column's value. *)
From Coq Require Import String Ascii NArith List Bool Arith Lia ZifyN ZifyNat ZifyBool.
From GF Require Import Base.Res Base.Bytes Model.Msg Model.Json Model.Cfg Model.Render Spec.RenderTables Spec.JsonGrammar
  Proofs.BytesL Proofs.FormatP.
Import ListNotations.
Open Scope N_scope.

(* ---- decimal numbers ---- *)
Definition parse_dec (s : bytes) : N := fold_left (fun acc c => acc * 10 + (c - 48)) s 0.
Definition digit (c : N) : Prop := 48 <= c /\ c <= 57.

Lemma parse_dec_snoc s c : parse_dec (s ++ [c]) = parse_dec s * 10 + (c - 48).
Proof. unfold parse_dec. rewrite fold_left_app. reflexivity. Qed.

Lemma dec_fuel_spec f : forall n, n < 10 ^ N.of_nat f ->
  Forall digit (dec_fuel f n) /\ parse_dec (dec_fuel f n) = n /\
  (n <> 0 -> exists d r, dec_fuel f n = d :: r /\ 49 <= d) /\ (n = 0 -> (0 < f)%nat -> dec_fuel f n = [48]).
Proof.
  induction f as [|f IH]; intros n Hn.
  - change (10 ^ N.of_nat 0) with 1 in Hn. assert (n = 0) by lia. subst. cbn. repeat split; try constructor; intros; try lia.
  - rewrite Nat2N.inj_succ, N.pow_succ_r' in Hn. cbn [dec_fuel].
    destruct (N.ltb_spec n 10) as [Hs|Hb].
    + repeat split.
      * constructor; [unfold digit; lia|constructor].
      * unfold parse_dec. cbn [fold_left]. lia.
      * intros Hz. exists (48 + n), []. split; [reflexivity|lia].
      * intros -> _. reflexivity.
    + assert (Hq : n / 10 < 10 ^ N.of_nat f) by (apply N.div_lt_upper_bound; lia).
      destruct (IH (n / 10) Hq) as (D & P & Hd & _).
      repeat split.
      * apply Forall_app. split; [exact D|]. constructor; [unfold digit; lia|constructor].
      * rewrite parse_dec_snoc, P. lia.
      * intros _. destruct Hd as (d & r & E & Hd); [lia|]. rewrite E. exists d, (r ++ [48 + n mod 10]). split; [reflexivity|exact Hd].
      * intros ->. lia.
Qed.

Lemma log2_fuel n : n < 10 ^ N.of_nat (S (N.to_nat (N.log2 n))).
Proof.
  destruct (N.eq_dec n 0) as [->|Hn]; [cbn; lia|].
  assert (H : n < 2 ^ N.succ (N.log2 n)) by (apply N.log2_spec; lia).
  rewrite Nat2N.inj_succ, N2Nat.id. eapply N.lt_le_trans; [exact H|]. apply N.pow_le_mono_l. lia.
Qed.

Lemma show_dec_value n : parse_dec (show_dec n) = n.
Proof. unfold show_dec. apply (dec_fuel_spec _ n (log2_fuel n)). Qed.
Lemma show_dec_digits n : Forall digit (show_dec n).
Proof. unfold show_dec. apply (dec_fuel_spec _ n (log2_fuel n)). Qed.
Lemma show_dec_number n : json_number (show_dec n).
Proof.
  unfold show_dec. destruct (dec_fuel_spec _ n (log2_fuel n)) as (D & _ & Hd & Hz).
  destruct (N.eq_dec n 0) as [->|Hn].
  - rewrite Hz by (try reflexivity; lia). apply jn_zero.
  - destruct (Hd Hn) as (d & r & E & H49). rewrite E in *. inversion D as [|? ? [_ H57] Dr]; subst.
    apply jn_pos; [exact H49|exact H57|exact Dr].
Qed.

(* ---- every rendered string is plain ASCII ---- *)
Definition ascii7 (s : bytes) : Prop := Forall (fun b => b < 128) s.
Lemma ascii7_app a b : ascii7 a -> ascii7 b -> ascii7 (a ++ b).
Proof. intros. apply Forall_app. split; assumption. Qed.
Lemma ascii7_intersperse sep l : ascii7 sep -> Forall ascii7 l -> ascii7 (intersperse sep l).
Proof.
  intros Hs. induction l as [|x r IH]; intros H; [constructor|]. inversion H; subst.
  destruct r as [|y r']; cbn [intersperse]; [assumption|]. apply ascii7_app; [assumption|]. apply ascii7_app; [exact Hs|apply IH; assumption].
Qed.
Lemma digits_ascii s : Forall digit s -> ascii7 s.
Proof. intros H. eapply Forall_impl; [|exact H]. unfold digit. intros; cbv beta in *; lia. Qed.
Lemma show_dec_ascii n : ascii7 (show_dec n).
Proof. apply digits_ascii, show_dec_digits. Qed.
Lemma hexd_ascii n : n < 16 -> hexd n < 128.
Proof. unfold hexd. intros. destruct (n <? 10); lia. Qed.
Lemma hex2_ascii b : ascii7 (hex2 b).
Proof. unfold hex2. repeat constructor; apply hexd_ascii; lia. Qed.
Lemma hex_group_ascii g : ascii7 (hex_group g).
Proof.
  unfold hex_group. destruct (N.ltb_spec g 16); [repeat constructor; apply hexd_ascii; lia|].
  destruct (N.ltb_spec g 256); [repeat constructor; apply hexd_ascii; lia|].
  destruct (N.ltb_spec g 4096); repeat constructor; apply hexd_ascii; lia.
Qed.
Lemma mac_ascii n : ascii7 (mac_string n).
Proof.
  unfold mac_string. apply ascii7_intersperse; [repeat constructor|]. apply Forall_forall. intros x Hx.
  apply in_map_iff in Hx. destruct Hx as (b & <- & _). apply hex2_ascii.
Qed.
Lemma ip4_ascii b : ascii7 (ip4_string b).
Proof.
  unfold ip4_string. apply ascii7_intersperse; [repeat constructor|]. apply Forall_forall. intros x Hx.
  apply in_map_iff in Hx. destruct Hx as (y & <- & _). apply show_dec_ascii.
Qed.
Lemma groups_ascii sep l : ascii7 sep -> ascii7 (intersperse sep (map hex_group l)).
Proof.
  intros Hs. apply ascii7_intersperse; [exact Hs|]. apply Forall_forall. intros x Hx.
  apply in_map_iff in Hx. destruct Hx as (y & <- & _). apply hex_group_ascii.
Qed.
Lemma ip6_ascii gs : ascii7 (ip6_string gs).
Proof.
  unfold ip6_string. destruct (best_run 0 gs None) as [[s e]|]; [|apply groups_ascii; repeat constructor].
  apply ascii7_app; [apply groups_ascii; repeat constructor|]. apply ascii7_app; [repeat constructor|apply groups_ascii; repeat constructor].
Qed.
Lemma literal_ascii s : forallb (fun b => b <? 128) (bytes_of_string s) = true -> ascii7 (bytes_of_string s).
Proof. intros H. apply Forall_forall. intros x Hx. rewrite forallb_forall in H. apply N.ltb_lt. apply H. exact Hx. Qed.
Lemma ip16_ascii b : ascii7 (ip16_string b).
Proof.
  unfold ip16_string. destruct (is4in6 b); [|apply ip6_ascii].
  apply ascii7_app; [apply literal_ascii; reflexivity|apply ip4_ascii].
Qed.
Lemma render_ip_ascii b : ascii7 (render_ip b).
Proof. unfold render_ip. destruct (Nat.eqb (length b) 4); [apply ip4_ascii|]. destruct (Nat.eqb (length b) 16); [apply ip16_ascii|constructor]. Qed.
Lemma render_prefix_ascii a bits : ascii7 (render_prefix a bits).
Proof.
  unfold render_prefix, invalid_prefix.
  destruct (Nat.eqb (length a) 4).
  - destruct (32 <? bits); [apply literal_ascii; reflexivity|].
    apply ascii7_app; [apply ip4_ascii|apply ascii7_app; [repeat constructor|apply show_dec_ascii]].
  - destruct (Nat.eqb (length a) 16); [|apply literal_ascii; reflexivity].
    destruct (128 <? bits); [apply literal_ascii; reflexivity|].
    apply ascii7_app; [apply ip16_ascii|apply ascii7_app; [repeat constructor|apply show_dec_ascii]].
Qed.

(* the name tables regenerated from the source hold plain ASCII only (finite tables, evaluated) *)
Definition table_ascii (t : list (N * string)) : bool :=
  forallb (fun r => forallb (fun b => b <? 128) (bytes_of_string (snd r))) t.
Lemma tables_ascii :
  table_ascii etype_names && table_ascii proto_names && table_ascii flowtype_names && table_ascii layer_names = true.
Proof. vm_compute. reflexivity. Qed.

Lemma lookup_ascii t k s : table_ascii t = true -> lookup_name t k = Some s -> ascii7 (bytes_of_string s).
Proof.
  induction t as [|[k' s'] r IH]; intros Ht H; [discriminate|]. cbn [lookup_name] in H.
  unfold table_ascii in Ht. cbn [forallb snd] in Ht. apply andb_prop in Ht. destruct Ht as [H1 H2].
  destruct (k' =? k); [inversion H; subst; apply literal_ascii; exact H1|apply IH; assumption].
Qed.
Lemma enum_name_ascii t k : table_ascii t = true -> ascii7 (enum_name t k).
Proof. intros Ht. unfold enum_name. destruct (lookup_name t k) eqn:E; [eapply lookup_ascii; eauto|apply show_dec_ascii]. Qed.

Lemma tabs : table_ascii etype_names = true /\ table_ascii proto_names = true /\ table_ascii flowtype_names = true /\ table_ascii layer_names = true.
Proof. pose proof tables_ascii as H. repeat (apply andb_prop in H; destruct H as [H ?]). repeat split; assumption. Qed.

Lemma etype_name_ascii k : ascii7 (etype_name k).
Proof. unfold etype_name. destruct (lookup_name etype_names k) eqn:E; [eapply lookup_ascii; [exact (proj1 tabs)|exact E]|constructor]. Qed.
Lemma proto_name_ascii k : ascii7 (proto_name k).
Proof.
  unfold proto_name. destruct (lookup_name proto_names k) eqn:E; [eapply lookup_ascii; [exact (proj1 (proj2 tabs))|exact E]|].
  destruct ((146 <=? k) && (k <=? 252)); [apply literal_ascii; reflexivity|].
  destruct ((253 <=? k) && (k <=? 254)); [apply literal_ascii; reflexivity|].
  destruct (k =? 255); apply literal_ascii; reflexivity.
Qed.

(* ---- every column renders to a value the JSON writer accepts ---- *)
Lemma all_ok_map {A} (f : A -> jval) l : (forall x, jval_ok (f x)) -> all_ok (map f l).
Proof. intros H. induction l as [|x r IH]; [exact I|]. cbn [map all_ok]. split; [apply H|exact IH]. Qed.

Lemma render_col_ok m go col k : jval_ok (render_col m go col k).
Proof.
  unfold render_col.
  destruct (String.eqb go "Type"); [cbn; apply enum_name_ascii; exact (proj1 (proj2 (proj2 tabs)))|].
  destruct (String.eqb go "SrcMac" || String.eqb go "DstMac"); [cbn; apply mac_ascii|].
  destruct (String.eqb go "Etype"); [cbn; apply etype_name_ascii|].
  destruct (String.eqb go "Proto"); [cbn; apply proto_name_ascii|].
  destruct (String.eqb go "SrcNet"); [cbn; apply render_prefix_ascii|].
  destruct (String.eqb go "DstNet"); [cbn; apply render_prefix_ascii|].
  destruct (String.eqb go "LayerStack").
  { change (all_ok (map (fun x => JStr (enum_name layer_names x)) (mgetLI m col))). apply all_ok_map. intros x. cbn. apply enum_name_ascii. exact (proj2 (proj2 (proj2 tabs))). }
  destruct k.
  - cbn. apply show_dec_number.
  - cbn. apply render_ip_ascii.
  - change (all_ok (map (fun x => JNum (show_dec x)) (mgetLI m col))). apply all_ok_map. intros x. cbn. apply show_dec_number.
  - change (all_ok (map (fun x => JStr (render_ip x)) (mgetLB m col))). apply all_ok_map. intros x. cbn. apply render_ip_ascii.
  - cbn. apply show_dec_number.
Qed.

(* the configured key names are plain JSON string text (finite table, evaluated) *)
Definition plain_key (s : bytes) : bool := forallb (fun b => (32 <=? b) && (b <? 128) && negb (b =? 34) && negb (b =? 92)) s.
Lemma plain_key_chars s : plain_key s = true -> json_chars s.
Proof.
  induction s as [|b r IH]; intros H; [constructor|]. cbn [plain_key forallb] in H.
  repeat (apply andb_prop in H; destruct H as [H ?]).
  repeat match goal with
  | X : negb (_ =? _) = true |- _ => apply negb_true_iff, N.eqb_neq in X
  | X : (_ <=? _) = true |- _ => apply N.leb_le in X
  | X : (_ <? _) = true |- _ => apply N.ltb_lt in X
  end.
  apply jc_plain; try lia; try assumption. apply IH. assumption.
Qed.
Lemma keys_plain : forallb (fun r => plain_key (bytes_of_string (fst (fst (fst r))))) name_table = true.
Proof. vm_compute. reflexivity. Qed.

Theorem json_default_valid m : json_value (json_default m).
Proof.
  unfold json_default. apply format_object_value. unfold default_members. apply Forall_forall.
  intros kv Hin. apply in_map_iff in Hin. destruct Hin as ([[[js go] col] k] & <- & Hr). cbn [fst snd]. split.
  - apply plain_key_chars. pose proof keys_plain as K. rewrite forallb_forall in K. apply (K _ Hr).
  - apply render_col_ok.
Qed.
