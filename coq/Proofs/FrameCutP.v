(* C10, part 3: a capture cut short, column by column.  Every column of the message other than the ethertype, the
   VLAN id (they report the last tag seen) and the layer lists either has the value the complete frame gives it, or is
   unset.  The argument: the message is built by the headers in order; every such column is written by at most one
   header of the frame that is not inside a tunnel; a cut capture has run a prefix of those writes. *)
From Coq Require Import String NArith ZArith List Bool Arith Lia ZifyN ZifyNat ZifyBool.
From GF Require Import Base.Res Base.Bytes Model.Msg Model.Packet Spec.Frame Proofs.BytesL Proofs.PacketP Proofs.FrameL Proofs.FrameP.
Import ListNotations.
Open Scope N_scope.

(* ---- the writes a chain of layers really performs (none once inside a tunnel) ---- *)
Fixpoint applied (e : bool) (q : list layer) : list (N * pval) :=
  match q with
  | [] => []
  | l :: r => (if e then [] else lasg l) ++ applied (encap_next e (lp l) (lnext l)) r
  end.
Fixpoint eafter (e : bool) (q : list layer) : bool :=
  match q with [] => e | l :: r => eafter (encap_next e (lp l) (lnext l)) r end.

Lemma run_layers_applied q : forall e b ls e' b' ls',
  run_layers e b ls q = Some (e', b', ls') -> b' = assign (applied e q) b /\ e' = eafter e q.
Proof.
  induction q as [|l r IH]; intros e b ls e' b' ls' H; cbn [run_layers applied eafter] in *.
  - inversion H; subst. split; reflexivity.
  - destruct (lneeds l && negb e && negb match mgetLB b cRhAddrs with [] => true | _ :: _ => false end); [discriminate|].
    apply IH in H. destruct H as [Hb He]. split; [|exact He]. rewrite Hb, assign_app.
    destruct e; reflexivity.
Qed.

Lemma applied_app a : forall c e, applied e (a ++ c) = applied e a ++ applied (eafter e a) c.
Proof.
  induction a as [|l r IH]; intros c e; cbn [app applied eafter]; [reflexivity|]. rewrite IH, app_assoc. reflexivity.
Qed.
Lemma eafter_app a : forall c e, eafter e (a ++ c) = eafter (eafter e a) c.
Proof. induction a as [|l r IH]; intros c e; cbn [app eafter]; [reflexivity|]. apply IH. Qed.

Lemma applied_true q : applied true q = [].
Proof. induction q as [|l r IH]; cbn [applied encap_next orb app]; [reflexivity|exact IH]. Qed.

Lemma applied_incl q : forall e kv, In kv (applied e q) -> In kv (flat_map lasg q).
Proof.
  induction q as [|l r IH]; intros e kv H; cbn [applied flat_map] in *; [exact H|].
  apply in_app_or in H. apply in_or_app. destruct H as [H|H]; [left; destruct e; [destruct H|exact H]|right; eapply IH; exact H].
Qed.

(* ---- columns other than the ethertype and the VLAN id ---- *)
Definition okk (k : N) : bool := negb (k =? cEtype) && negb (k =? cVlanId).
Definition fkeys (a : list (N * pval)) : list N := filter okk (map fst a).

Lemma fkeys_app a b : fkeys (a ++ b) = fkeys a ++ fkeys b.
Proof. unfold fkeys. rewrite map_app, filter_app. reflexivity. Qed.
Lemma fkeys_in a k : In k (fkeys a) <-> okk k = true /\ In k (map fst a).
Proof. unfold fkeys. rewrite filter_In. tauto. Qed.

Lemma nodup_app {A} (a b : list A) : NoDup (a ++ b) <-> NoDup a /\ NoDup b /\ (forall x, In x a -> ~ In x b).
Proof.
  induction a as [|x a IH]; cbn [app].
  - split; [intros H; repeat split; [constructor|exact H|intros x []]|tauto].
  - split.
    + intros H. inversion H as [|? ? Hn Hr]; subst. apply IH in Hr. destruct Hr as (Ha & Hb & Hd).
      split; [constructor; [intros Hi; apply Hn; apply in_or_app; left; exact Hi|exact Ha]|].
      split; [exact Hb|]. intros y [<-|Hy]; [intros Hi; apply Hn; apply in_or_app; right; exact Hi|apply Hd; exact Hy].
    + intros (Ha & Hb & Hd). inversion Ha as [|? ? Hn Hr]; subst. constructor.
      * intros Hi. apply in_app_or in Hi. destruct Hi as [Hi|Hi]; [exact (Hn Hi)|exact (Hd x (or_introl eq_refl) Hi)].
      * apply IH. split; [exact Hr|]. split; [exact Hb|]. intros y Hy. apply Hd. right. exact Hy.
Qed.

Lemma applied_nodup q : forall e, NoDup (fkeys (flat_map lasg q)) -> NoDup (fkeys (applied e q)).
Proof.
  induction q as [|l r IH]; intros e H; cbn [applied flat_map] in *; [exact H|].
  rewrite fkeys_app in *. apply nodup_app in H. destruct H as (Ha & Hb & Hd). apply nodup_app.
  split; [destruct e; [constructor|exact Ha]|]. split; [apply IH; exact Hb|].
  intros x Hx Hy. apply (Hd x).
  - destruct e; [destruct Hx|exact Hx].
  - apply fkeys_in in Hy. destruct Hy as [Ho Hy]. apply fkeys_in. split; [exact Ho|].
    apply in_map_iff in Hy. destruct Hy as (kv & <- & Hkv). apply in_map. eapply applied_incl. exact Hkv.
Qed.

(* ---- lookups through a sequence of writes ---- *)
Lemma assign_notin a : forall m k, ~ In k (map fst a) -> alookup (cols (assign a m)) k = alookup (cols m) k.
Proof.
  induction a as [|[k' v] r IH]; intros m k H; [reflexivity|]. cbn [assign fold_left fst snd map] in *.
  change (fold_left (fun m0 kv => mset m0 (fst kv) (snd kv)) r (mset m k' v)) with (assign r (mset m k' v)).
  rewrite IH by (intros Hi; apply H; right; exact Hi). rewrite alookup_mset.
  destruct (N.eqb_spec k' k) as [->|]; [exfalso; apply H; left; reflexivity|reflexivity].
Qed.

(* ---- a decision procedure for NoDup on column numbers ---- *)
Fixpoint memN (k : N) (l : list N) : bool := match l with [] => false | x :: r => (x =? k) || memN k r end.
Fixpoint nodupb (l : list N) : bool := match l with [] => true | x :: r => negb (memN x r) && nodupb r end.
Lemma memN_in k l : memN k l = true <-> In k l.
Proof.
  induction l as [|x r IH]; cbn [memN In]; [split; [discriminate|tauto]|]. rewrite orb_true_iff, IH, N.eqb_eq. tauto.
Qed.
Lemma nodupb_ok l : nodupb l = true -> NoDup l.
Proof.
  induction l as [|x r IH]; cbn [nodupb]; intros H; [constructor|]. apply andb_prop in H. destruct H as [H1 H2].
  constructor; [|apply IH; exact H2]. intros Hi. apply memN_in in Hi. rewrite Hi in H1. discriminate.
Qed.

(* ---- the writes of a frame's headers ---- *)
Lemma vlan_fkeys vs final : fkeys (flat_map lasg (vlan_chain vs final)) = [].
Proof. induction vs as [|v r IH]; [reflexivity|]. cbn [vlan_chain flat_map vlan_layer mk lasg]. rewrite fkeys_app, IH. reflexivity. Qed.

Definition kF (f : frame) : list N := [cSrcMac; cDstMac] ++ match fMpls f with [] => [] | _ => [cMplsLabel; cMplsTtl] end.
Lemma front_fkeys f : fkeys (flat_map lasg (front_chain f)) = kF f.
Proof.
  unfold front_chain, kF. cbn [flat_map eth_layer mk lasg]. rewrite flat_map_app, !fkeys_app, vlan_fkeys.
  unfold mpls_chain. destruct (fMpls f); reflexivity.
Qed.

Definition k3 (x : l3) : list N :=
  match x with
  | L3v4 _ => [cSrcAddr; cDstAddr; cIpTos; cIpTtl; cFragId; cFragOff; cIpFlags; cProto]
  | L3v6 h => [cSrcAddr; cDstAddr; cIpTos; cIpTtl; cFlowLabel; cProto] ++
              match i6Srh h with Some _ => [cRhSegLeft; cRhAddrs] | None => [] end ++
              match i6Frag h with Some _ => [cFragId; cFragOff; cIpFlags] | None => [] end
  end.
Lemma l3_fkeys x next plen : fkeys (flat_map lasg (l3_chain x next plen)) = k3 x.
Proof.
  destruct x as [h|h]; cbn [l3_chain flat_map ip4_layer ip6_layer mk lasg k3]; [reflexivity|].
  unfold v6_ext_chain. destruct (i6Srh h) as [s|]; destruct (i6Frag h) as [[[o fl] id]|]; reflexivity.
Qed.

Definition k4 : list N := [cSrcPort; cDstPort; cTcpFlags; cIcmpType; cIcmpCode].
Definition kQ (f : frame) : list N := kF f ++ k3 (fOuter f).

Lemma kQ_nodup f : NoDup (kQ f).
Proof.
  apply nodupb_ok. unfold kQ, kF, k3.
  destruct (fMpls f); destruct (fOuter f) as [h|h]; [reflexivity|destruct (i6Srh h); destruct (i6Frag h); reflexivity
                                                      |reflexivity|destruct (i6Srh h); destruct (i6Frag h); reflexivity].
Qed.
Lemma kQ_k4 f x : In x (kQ f) -> ~ In x k4.
Proof.
  intros H1 H2. apply memN_in in H1. apply memN_in in H2. revert H1 H2. unfold kQ, kF, k3, k4.
  destruct (fMpls f); destruct (fOuter f) as [h|h]; try (destruct (i6Srh h); destruct (i6Frag h));
    cbn [app memN]; repeat rewrite orb_true_iff; rewrite ?N.eqb_eq; intros A B;
    repeat (destruct A as [A|A]; [subst x; cbn in B; repeat (destruct B as [B|B]; [discriminate|]); discriminate|]); discriminate.
Qed.

(* what is written behind the outer IP header: the transport header's columns, or nothing inside a tunnel *)
Lemma l4_applied e x : applied e (l4_chain x) = [] \/ applied e (l4_chain x) = l4_assign x.
Proof. destruct x; cbn [l4_chain applied mk lasg]; destruct e; rewrite ?app_nil_r; auto. Qed.

Lemma l4_fkeys_incl x k : In k (fkeys (l4_assign x)) -> In k k4.
Proof. destruct x; cbn; intuition. Qed.
Lemma l4_fkeys_nodup x : NoDup (fkeys (l4_assign x)).
Proof. apply nodupb_ok. destruct x; reflexivity. Qed.

Lemma tail_applied f e0 : (fTun f = TIPIP -> e0 = true) ->
  applied e0 (tail_chain f) = [] \/ (fTun f = TNone /\ applied e0 (tail_chain f) = l4_assign (fL4 f)).
Proof.
  intros Hip. unfold tail_chain. destruct (fTun f) eqn:Et.
  - destruct (l4_applied e0 (fL4 f)) as [H|H]; [left; exact H|right; split; [reflexivity|exact H]].
  - left. cbn [applied gre_layer mk lasg lp lnext]. rewrite next_etype_l3.
    replace (encap_next e0 PGRE (l3_parser (fInner f))) with true by (destruct e0; destruct (fInner f); reflexivity).
    rewrite applied_true. destruct e0; reflexivity.
  - left. cbn [applied gre_layer eth_layer mk lasg lp lnext].
    replace (encap_next e0 PGRE (next_etype 25944)) with true by (destruct e0; reflexivity).
    cbn [encap_next orb]. rewrite applied_true. destruct e0; reflexivity.
  - left. rewrite (Hip eq_refl). apply applied_true.
Qed.

(* the whole frame: no column other than the ethertype and the VLAN id is written twice *)
Lemma frame_applied_nodup f : wf_frame f = true -> NoDup (fkeys (applied false (frame_chain f))).
Proof.
  intros Hwf. unfold wf_frame in Hwf. repeat (apply andb_prop in Hwf; destruct Hwf as [Hwf ?]).
  unfold frame_chain. rewrite app_assoc, applied_app, fkeys_app.
  set (Q := front_chain f ++ l3_chain (fOuter f) (outer_next f) (lenN (tail_bytes f))).
  assert (HQ : fkeys (flat_map lasg Q) = kQ f).
  { unfold Q, kQ. rewrite flat_map_app, fkeys_app, front_fkeys, l3_fkeys. reflexivity. }
  assert (HQin : forall x, In x (fkeys (applied false Q)) -> In x (kQ f)).
  { intros x Hx. rewrite <- HQ. apply fkeys_in in Hx. destruct Hx as [Ho Hx]. apply fkeys_in. split; [exact Ho|].
    apply in_map_iff in Hx. destruct Hx as (kv & <- & Hkv). apply in_map. eapply applied_incl. exact Hkv. }
  (* inside an IP-in-IP tunnel the dissector is past the encapsulation point when it reaches the inner header *)
  assert (He : fTun f = TIPIP -> eafter false Q = true).
  { intros Et. unfold Q. rewrite eafter_app.
    destruct (front_run f) as (bF & R & O). apply run_layers_applied in R. destruct R as [_ R]. rewrite <- R.
    pose proof (l3_run false bF (front_layers f) (fOuter f) (outer_next f) (lenN (tail_bytes f))) as L.
    assert (Hb : false = true \/ mgetLB bF cRhAddrs = []) by (right; rewrite (mgetLB_others bF (pre_front f) O); apply pre_front_no_srh).
    specialize (L ltac:(assumption) Hb). apply run_layers_applied in L. destruct L as [_ L]. rewrite <- L.
    unfold outer_next. rewrite Et, next_proto_ipproto.
    destruct (l3_last_cases (fOuter f)) as [->|[->|[->| ->]]]; destruct (fInner f); reflexivity. }
  apply nodup_app. split; [apply applied_nodup; rewrite HQ; apply kQ_nodup|].
  destruct (tail_applied f (eafter false Q) He) as [->|[_ ->]].
  - split; [constructor|]. intros x _ [].
  - split; [apply l4_fkeys_nodup|]. intros x Hx Hy. apply (kQ_k4 f x); [apply HQin; exact Hx|apply (l4_fkeys_incl (fL4 f)); exact Hy].
Qed.

(* ---- the cut: the first j headers of the frame, then nothing ---- *)
Lemma frame_cut_columns f j e b ls : wf_frame f = true ->
  run_layers false empty_msg [] (firstn j (frame_chain f)) = Some (e, b, ls) ->
  forall k, k <> cEtype -> k <> cVlanId -> k <> cLayerStack -> k <> cLayerSize ->
    alookup (cols b) k = alookup (cols (ref_frame f)) k \/ alookup (cols b) k = None.
Proof.
  intros Hwf Hrun k K1 K2 K3 K4.
  destruct (frame_run f Hwf) as (e0 & b0 & R0 & O0).
  pose proof (frame_applied_nodup f Hwf) as Hnd.
  rewrite <- (firstn_skipn j (frame_chain f)) in R0, Hnd.
  rewrite applied_app, fkeys_app in Hnd. apply nodup_app in Hnd. destruct Hnd as (_ & _ & Hd).
  apply run_layers_applied in Hrun. destruct Hrun as [Hb _].
  apply run_layers_applied in R0. destruct R0 as [Hb0 _]. rewrite applied_app, assign_app, <- Hb in Hb0.
  set (P := applied false (firstn j (frame_chain f))) in *.
  set (S := applied (eafter false (firstn j (frame_chain f))) (skipn j (frame_chain f))) in *.
  assert (Hok : okk k = true).
  { unfold okk. destruct (N.eqb_spec k cEtype); [contradiction|]. destruct (N.eqb_spec k cVlanId); [contradiction|]. reflexivity. }
  assert (Href : alookup (cols b0) k = alookup (cols (ref_frame f)) k).
  { destruct O0 as [O0 _]. rewrite O0 by assumption. rewrite ref_frame_pre, !alookup_mset.
    destruct (N.eqb_spec cLayerSize k); [congruence|]. destruct (N.eqb_spec cLayerStack k); [congruence|]. reflexivity. }
  destruct (in_dec N.eq_dec k (map fst S)) as [Hin|Hnin].
  - right. rewrite Hb. rewrite assign_notin; [reflexivity|]. intros Hp.
    apply (Hd k); apply fkeys_in; split; assumption.
  - left. rewrite <- Href, Hb0. rewrite assign_notin by exact Hnin. reflexivity.
Qed.

(* THE PROPERTY's sentence for a capture cut short: a capture that ends c bytes into header j of a well-formed frame,
   1 <= c < that header's minimal length, is dissected into a message in which every column -- other than the
   ethertype and the VLAN id, which report the last tag seen, and the two layer lists, which report the layers seen --
   either equals the value the COMPLETE frame gives it or is left unset. *)
Theorem cut_true_or_unset f j c : wf_frame f = true -> (j < length (frame_chain f))%nat ->
  (1 <= c < min_len (lp (nth j (frame_chain f) dummy_layer)))%nat ->
  exists m,
    parse_packet empty_pcfg empty_msg
      (firstn (length (concat (map lhdr (firstn j (frame_chain f)))) + c) (encode_frame f)) = Ok m /\
    forall k, k <> cEtype -> k <> cVlanId -> k <> cLayerStack -> k <> cLayerSize ->
      alookup (cols m) k = alookup (cols (ref_frame f)) k \/ alookup (cols m) k = None.
Proof.
  intros Hwf Hj Hc. destruct (parse_prefix f j c Hwf Hj Hc) as (m & e & b & ls & Hrun & Hp & Hinv).
  exists m. split; [exact Hp|]. intros k K1 K2 K3 K4.
  destruct Hinv as (_ & _ & [Ho _]). rewrite Ho by assumption.
  eapply frame_cut_columns; eauto.
Qed.

(* ... and the layers it reports are the first j layers of the frame, one size each *)
Theorem cut_layers f j c : wf_frame f = true -> (j < length (frame_chain f))%nat ->
  (1 <= c < min_len (lp (nth j (frame_chain f) dummy_layer)))%nat ->
  exists m,
    parse_packet empty_pcfg empty_msg
      (firstn (length (concat (map lhdr (firstn j (frame_chain f)))) + c) (encode_frame f)) = Ok m /\
    length (mgetLI m cLayerStack) = j /\ length (mgetLI m cLayerSize) = j.
Proof.
  intros Hwf Hj Hc. destruct (parse_prefix f j c Hwf Hj Hc) as (m & e & b & ls & Hrun & Hp & Hinv).
  exists m. split; [exact Hp|]. destruct Hinv as (H1 & H2 & _). rewrite H1, H2, !map_length.
  assert (L : forall q e0 b0 ls0 e1 b1 ls1, run_layers e0 b0 ls0 q = Some (e1, b1, ls1) -> length ls1 = (length ls0 + length q)%nat).
  { induction q as [|l r IH]; intros e0 b0 ls0 e1 b1 ls1 H; cbn [run_layers] in H; [inversion H; cbn; lia|].
    destruct (lneeds l && negb e0 && negb match mgetLB b0 cRhAddrs with [] => true | _ :: _ => false end); [discriminate|].
    apply IH in H. rewrite H, app_length. cbn [length]. lia. }
  apply L in Hrun. rewrite Hrun, firstn_length. cbn [length]. split; lia.
Qed.
