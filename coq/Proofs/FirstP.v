(* C16: the repaired first-contact protocol loses nothing under ANY schedule of ANY number of workers. *)
From Coq Require Import List NArith Bool Arith Lia.
From GF Require Import Model.First.
Import ListNotations.

Lemma upd_length {A} i (x : A) l : length (upd i x l) = length l.
Proof. revert i; induction l as [|y r IH]; intros [|k]; simpl; auto. Qed.

Lemma nth_upd_same {A} i (x d : A) l : i < length l -> nth i (upd i x l) d = x.
Proof.
  revert i; induction l as [|y r IH]; intros i H; simpl in H; [lia|].
  destruct i as [|k]; simpl; [reflexivity|]. apply IH. lia.
Qed.

Lemma nth_upd_other {A} i j (x d : A) l : i <> j -> nth j (upd i x l) d = nth j l d.
Proof.
  revert i j; induction l as [|y r IH]; intros i j H; [destruct i; reflexivity|].
  destruct i as [|k], j as [|m]; simpl; auto; try congruence.
Qed.

Lemma in_upd {A} i (x y : A) l : In y (upd i x l) -> y = x \/ In y l.
Proof.
  revert i; induction l as [|z r IH]; intros [|k] H; simpl in *; auto.
  - destruct H as [<-|H]; auto.
  - destruct H as [<-|H]; auto. apply IH in H. destruct H; auto.
Qed.

Lemma nth_error_in {A} (l : list A) i x : nth_error l i = Some x -> In x l.
Proof. apply nth_error_In. Qed.

(* invariant: the published index is a real system; a worker about to add or done holds exactly
   the published system; a done worker's id is in it *)
Definition inv (st : state) : Prop :=
  (forall i, pub (fst st) = Some i -> i < length (systems (fst st))) /\
  (forall w, In w (snd st) ->
     match pcw w with
     | Add => pub (fst st) = Some (loc w)
     | Done => pub (fst st) = Some (loc w) /\ In (tid w) (sys_get (fst st) (loc w))
     | _ => True
     end).

Lemma inv_init ts : inv (init ts).
Proof.
  split; [intros i H; discriminate|]. intros w H. unfold init in H. simpl in H.
  apply in_map_iff in H. destruct H as (t & <- & _). exact I.
Qed.

Lemma inv_step st i : inv st -> inv (step true st i).
Proof.
  destruct st as [s ws]. intros [Hp Hw]. unfold step. cbn [fst snd].
  destruct (nth_error ws i) as [w|] eqn:Ei; [|split; assumption].
  assert (Hin : In w ws) by (eapply nth_error_in; eauto).
  pose proof (Hw w Hin) as Hwk. cbn [fst snd] in *.
  unfold wstep. destruct w as [p l t]. cbn [pcw loc tid] in *. destruct p.
  - (* Lookup *)
    destruct (pub s) as [j|] eqn:Ej; unfold inv; cbn [fst snd]; rewrite ?Ej; (split; [exact Hp|]);
      intros w' H'; apply in_upd in H'; destruct H' as [->|H']; cbn [pcw loc]; auto; apply (Hw w' H').
  - (* Create, re-check under the lock *)
    cbn [andb]. destruct (pub s) as [j|] eqn:Ej; unfold inv; cbn [fst snd pub systems]; rewrite ?Ej.
    + split; [exact Hp|]. intros w' H'; apply in_upd in H'; destruct H' as [->|H']; cbn [pcw loc]; auto. apply (Hw w' H').
    + split.
      * intros j Hj. injection Hj as <-. rewrite app_length. simpl. lia.
      * intros w' H'; apply in_upd in H'; destruct H' as [->|H']; cbn [pcw loc]; auto.
        specialize (Hw w' H'). destruct (pcw w'); auto; try discriminate. destruct Hw; discriminate.
  - (* Add *)
    unfold inv; cbn [fst snd pub systems]. split.
    + intros j Hj. rewrite upd_length. auto.
    + intros w' H'; apply in_upd in H'; destruct H' as [->|H']; cbn [pcw loc tid].
      * split; [exact Hwk|]. specialize (Hp _ Hwk). unfold sys_get. cbn [systems].
        rewrite nth_upd_same by exact Hp. left. reflexivity.
      * specialize (Hw w' H'). destruct (pcw w') eqn:Ew; auto.
        destruct Hw as [Hpub Hin']. split; [exact Hpub|].
        assert (loc w' = l) by congruence. subst l.
        specialize (Hp _ Hwk). unfold sys_get in *. cbn [systems].
        rewrite nth_upd_same by exact Hp. right. exact Hin'.
  - (* Done *)
    unfold inv; cbn [fst snd]. split; [exact Hp|].
    intros w' H'; apply in_upd in H'; destruct H' as [->|H']; cbn [pcw loc tid]; auto. apply (Hw w' H').
Qed.

Lemma inv_run sched : forall st, inv st -> inv (run true sched st).
Proof. induction sched as [|i r IH]; intros st H; cbn [run fold_left]; auto. apply IH, inv_step, H. Qed.

Theorem repaired_all_schedules ts sched :
  let st := run true sched (init ts) in
  forall w, In w (snd st) -> pcw w = Done -> In (tid w) (visible st).
Proof.
  intros st. assert (Hinv : inv st) by (apply inv_run, inv_init).
  intros w Hin Hd. destruct Hinv as [_ Hw]. specialize (Hw w Hin). rewrite Hd in Hw.
  destruct Hw as [Hpub Ht]. unfold visible. rewrite Hpub. exact Ht.
Qed.
