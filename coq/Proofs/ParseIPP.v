(* C13: the text form of an address determines the address -- parse_ip (render_ip b) = Some b for EVERY
   4- or 16-byte address. *)
From Coq Require Import String Ascii NArith List Bool Arith Lia ZifyN ZifyNat ZifyBool.
From GF Require Import Base.Res Base.Bytes Model.Json Model.Render Spec.ParseIP Proofs.BytesL Proofs.RenderP.
Import ListNotations.
Open Scope N_scope.

(* ---- splitting what intersperse joined ---- *)
Lemma split_on_nosep sep w : ~ In sep w -> split_on sep w = [w].
Proof.
  induction w as [|c r IH]; intros H; [reflexivity|]. cbn [split_on].
  destruct (N.eqb_spec c sep) as [->|Hc]; [exfalso; apply H; left; reflexivity|].
  rewrite IH by (intros Hin; apply H; right; exact Hin). reflexivity.
Qed.
Lemma split_on_app sep w t : ~ In sep w -> split_on sep (w ++ sep :: t) = w :: split_on sep t.
Proof.
  induction w as [|c r IH]; intros H; cbn [app split_on]; [rewrite N.eqb_refl; reflexivity|].
  destruct (N.eqb_spec c sep) as [->|Hc]; [exfalso; apply H; left; reflexivity|].
  rewrite IH by (intros Hin; apply H; right; exact Hin). reflexivity.
Qed.
Lemma split_inter sep l : l <> [] -> Forall (fun w => ~ In sep w) l -> split_on sep (intersperse [sep] l) = l.
Proof.
  induction l as [|x r IH]; intros Hne H; [congruence|]. inversion H as [|? ? Hx Hr]; subst.
  destruct r as [|y r']; [cbn [intersperse]; apply split_on_nosep; exact Hx|].
  change (intersperse [sep] (x :: y :: r')) with (x ++ sep :: intersperse [sep] (y :: r')).
  rewrite split_on_app by exact Hx. rewrite IH; [reflexivity|discriminate|exact Hr].
Qed.

(* ---- numbers ---- *)
Lemma dec_val_show n : dec_val (show_dec n) = n.
Proof. exact (show_dec_value n). Qed.
Lemma digits_no c s : Forall digit s -> c < 48 \/ 57 < c -> ~ In c s.
Proof. intros H Hc Hin. rewrite Forall_forall in H. specialize (H c Hin). unfold digit in H. lia. Qed.

Lemma hex_digit_hexd n : n < 16 -> hex_digit (hexd n) = n.
Proof. intros H. unfold hex_digit, hexd. destruct (N.ltb_spec n 10); [replace (48 + n <? 58) with true by lia|replace (87 + n <? 58) with false by lia]; lia. Qed.
Definition hexchar (c : N) : Prop := (48 <= c /\ c <= 57) \/ (97 <= c /\ c <= 102).
Lemma hexd_char n : n < 16 -> hexchar (hexd n).
Proof. intros H. unfold hexchar, hexd. destruct (N.ltb_spec n 10); lia. Qed.

Ltac hc := repeat (apply Forall_cons; [apply hexd_char; lia|]); apply Forall_nil.

Lemma hex_group_spec g : g < 65536 ->
  hex_val (hex_group g) = g /\ Forall hexchar (hex_group g) /\ hex_group g <> [].
Proof.
  intros Hg. unfold hex_group, hex_val.
  destruct (N.ltb_spec g 16) as [H1|H1].
  { cbn [fold_left]. rewrite hex_digit_hexd by lia. (split; [lia|split; [hc|discriminate]]). }
  destruct (N.ltb_spec g 256) as [H2|H2].
  { cbn [fold_left]. rewrite !hex_digit_hexd by lia. (split; [lia|split; [hc|discriminate]]). }
  destruct (N.ltb_spec g 4096) as [H3|H3].
  { cbn [fold_left]. rewrite !hex_digit_hexd by lia. (split; [lia|split; [hc|discriminate]]). }
  cbn [fold_left]. rewrite !hex_digit_hexd by lia. (split; [lia|split; [hc|discriminate]]).
Qed.
Lemma hexchars_no c s : Forall hexchar s -> c = 58 \/ c = 46 -> ~ In c s.
Proof. intros H Hc Hin. rewrite Forall_forall in H. specialize (H c Hin). unfold hexchar in H. lia. Qed.

(* ---- dotted decimal ---- *)
Lemma ip4_roundtrip b : b <> [] -> parse_ip4 (ip4_string b) = b.
Proof.
  intros Hne. unfold parse_ip4, ip4_string. rewrite split_inter.
  - rewrite map_map. rewrite <- (map_id b) at 2. apply map_ext. intros x. apply dec_val_show.
  - destruct b; [congruence|discriminate].
  - apply Forall_forall. intros w Hw. apply in_map_iff in Hw. destruct Hw as (x & <- & _).
    apply digits_no; [apply show_dec_digits|lia].
Qed.

Lemma in_intersperse c sep l : In c (intersperse sep l) -> In c sep \/ exists w, In w l /\ In c w.
Proof.
  induction l as [|x r IH]; intros H; [contradiction|]. destruct r as [|y r']; cbn [intersperse] in H.
  - right. exists x. split; [left; reflexivity|exact H].
  - apply in_app_or in H. destruct H as [H|H]; [right; exists x; split; [left; reflexivity|exact H]|].
    apply in_app_or in H. destruct H as [H|H]; [left; exact H|].
    destruct (IH H) as [Hs|(w & Hw & Hc)]; [left; exact Hs|right; exists w; split; [right; exact Hw|exact Hc]].
Qed.

Lemma ip4_no_colon b : has 58 (ip4_string b) = false.
Proof.
  unfold has. apply not_true_is_false. intros H. apply existsb_exists in H. destruct H as (c & Hin & Hc). apply N.eqb_eq in Hc. subst c.
  apply in_intersperse in Hin. destruct Hin as [[H|[]]|(w & Hw & Hc)]; [discriminate|].
  apply in_map_iff in Hw. destruct Hw as (x & <- & _). revert Hc. apply digits_no; [apply show_dec_digits|lia].
Qed.

(* ---- groups ---- *)
Lemma ungroups_groups b : wfb b -> Nat.even (length b) = true -> ungroups (groups b) = b.
Proof.
  revert b. fix IH 1. intros [|x [|y r]] Hw He; [reflexivity|discriminate|].
  cbn [groups ungroups flat_map app]. inversion Hw as [|? ? Hx Hw1]; subst. inversion Hw1 as [|? ? Hy Hr]; subst.
  replace ((x * 256 + y) / 256) with x by lia. replace ((x * 256 + y) mod 256) with y by lia.
  f_equal. f_equal. apply IH; [exact Hr|exact He].
Qed.
Lemma groups_bound b : wfb b -> Forall (fun g => g < 65536) (groups b).
Proof.
  revert b. fix IH 1. intros [|x [|y r]] Hw; [constructor|constructor|].
  inversion Hw as [|? ? Hx Hw1]; subst. inversion Hw1 as [|? ? Hy Hr]; subst. cbn [groups].
  constructor; [lia|apply IH; exact Hr].
Qed.
(* ---- the text of a run of groups ---- *)
Definition word (w : bytes) : Prop := w <> [] /\ Forall hexchar w.
Lemma word_no58 w : word w -> ~ In 58 w.
Proof. intros [_ H]. apply hexchars_no; [exact H|left; reflexivity]. Qed.
Lemma word_head w : word w -> exists c r, w = c :: r /\ c <> 58.
Proof.
  intros [Hne H]. destruct w as [|c r]; [congruence|]. exists c, r. split; [reflexivity|].
  inversion H as [|? ? Hc _]; subst. unfold hexchar in Hc. lia.
Qed.

Lemma split2_word w t : word w -> split2 (w ++ t) = match split2 t with Some (a, b) => Some (w ++ a, b) | None => None end.
Proof.
  intros [_ H]. induction w as [|c r IH]; [cbn [app]; destruct (split2 t) as [[a b]|]; reflexivity|].
  inversion H as [|? ? Hc Hr]; subst. cbn [app split2].
  replace (c =? 58) with false by (symmetry; apply N.eqb_neq; unfold hexchar in Hc; lia). cbn [andb].
  rewrite (IH Hr). destruct (split2 t) as [[a b]|]; reflexivity.
Qed.

(* words joined by single colons contain no "::" *)
Lemma split2_inter_none ws : Forall word ws -> split2 (intersperse [58] ws) = None.
Proof.
  induction ws as [|w r IH]; intros H; [reflexivity|]. inversion H as [|? ? Hw Hr]; subst.
  destruct r as [|w2 r'].
  - cbn [intersperse]. rewrite <- (app_nil_r w). rewrite split2_word by exact Hw. reflexivity.
  - change (intersperse [58] (w :: w2 :: r')) with (w ++ 58 :: intersperse [58] (w2 :: r')).
    rewrite split2_word by exact Hw.
    assert (E : split2 (58 :: intersperse [58] (w2 :: r')) = None).
    { cbn [split2]. rewrite (IH Hr). inversion Hr as [|? ? Hw2 _]; subst.
      destruct (word_head w2 Hw2) as (c & q & -> & Hc).
      destruct r' as [|w3 r'']; cbn [intersperse app]; replace (c =? 58) with false by (symmetry; apply N.eqb_neq; exact Hc); reflexivity. }
    rewrite E. reflexivity.
Qed.

(* ... and followed by "::" they split exactly there *)
Lemma split2_inter_some ws t : Forall word ws ->
  split2 (intersperse [58] ws ++ 58 :: 58 :: t) = Some (intersperse [58] ws, t).
Proof.
  induction ws as [|w r IH]; intros H; [reflexivity|]. inversion H as [|? ? Hw Hr]; subst.
  destruct r as [|w2 r'].
  - cbn [intersperse]. rewrite split2_word by exact Hw. cbn [split2 N.eqb Pos.eqb andb tl]. rewrite app_nil_r. reflexivity.
  - change (intersperse [58] (w :: w2 :: r')) with (w ++ 58 :: intersperse [58] (w2 :: r')).
    rewrite <- app_assoc. rewrite split2_word by exact Hw. cbn [app].
    assert (E : split2 (58 :: intersperse [58] (w2 :: r') ++ 58 :: 58 :: t) = Some (58 :: intersperse [58] (w2 :: r'), t)).
    { cbn [split2]. rewrite (IH Hr). inversion Hr as [|? ? Hw2 _]; subst.
      destruct (word_head w2 Hw2) as (c & q & -> & Hc).
      destruct r' as [|w3 r'']; cbn [intersperse app]; replace (c =? 58) with false by (symmetry; apply N.eqb_neq; exact Hc); reflexivity. }
    rewrite E. reflexivity.
Qed.

Lemma words_of gs : Forall (fun g => g < 65536) gs -> Forall word (map hex_group gs).
Proof.
  intros H. apply Forall_forall. intros w Hw. apply in_map_iff in Hw. destruct Hw as (g & <- & Hg).
  rewrite Forall_forall in H. destruct (hex_group_spec g (H g Hg)) as (_ & A & B). split; assumption.
Qed.

Lemma parse_groups_inter gs : Forall (fun g => g < 65536) gs -> parse_groups (intersperse [58] (map hex_group gs)) = gs.
Proof.
  intros H. destruct gs as [|g r]; [reflexivity|].
  unfold parse_groups.
  assert (Hne : intersperse [58] (map hex_group (g :: r)) <> []).
  { inversion H as [|? ? Hg _]; subst. destruct (hex_group_spec g Hg) as (_ & _ & B).
    cbn [map]. destruct (hex_group g) as [|c q] eqn:E; [congruence|]. destruct (map hex_group r); cbn [intersperse app]; discriminate. }
  destruct (intersperse [58] (map hex_group (g :: r))) as [|c q] eqn:E; [congruence|]. rewrite <- E.
  rewrite split_inter; [|discriminate|].
  - rewrite map_map. rewrite <- (map_id (g :: r)) at 2. apply map_ext_in. intros x Hx.
    rewrite Forall_forall in H. apply (hex_group_spec x (H x Hx)).
  - apply Forall_forall. intros w Hw. apply word_no58. pose proof (words_of _ H) as W. rewrite Forall_forall in W. apply W. exact Hw.
Qed.

(* ---- the zero run "::" stands for ---- *)
Lemma zrun_spec l : (zrun_len l <= length l)%nat /\ forall j, (j < zrun_len l)%nat -> nth j l 1 = 0.
Proof.
  induction l as [|x r [IH1 IH2]]; [split; [cbn; lia|intros j Hj; cbn in Hj; lia]|].
  cbn [zrun_len]. destruct x as [|p]; [|split; [lia|intros j Hj; lia]].
  cbn [length]. split; [lia|]. intros [|j] Hj; [reflexivity|]. cbn [nth]. apply IH2. lia.
Qed.

Definition good (G : list N) (o : option (nat * nat)) : Prop :=
  match o with
  | Some (s, e) => (s <= e)%nat /\ (e <= length G)%nat /\ forall j, (s <= j < e)%nat -> nth j G 1 = 0
  | None => True
  end.

Lemma best_run_good G : forall l pre best, G = pre ++ l -> good G best -> good G (best_run (length pre) l best).
Proof.
  induction l as [|x r IH]; intros pre best HG Hb; [exact Hb|].
  cbn [best_run]. replace (S (length pre)) with (length (pre ++ [x])) by (rewrite app_length; cbn; lia).
  apply IH; [rewrite <- app_assoc; exact HG|].
  destruct (Nat.leb 2 (zrun_len (x :: r)) && Nat.ltb (run_len best) (zrun_len (x :: r))); [|exact Hb].
  destruct (zrun_spec (x :: r)) as [Z1 Z2]. cbn [good]. subst G. rewrite app_length. repeat split; try lia.
  intros j Hj. rewrite app_nth2 by lia. apply Z2. lia.
Qed.

Lemma all_zero_repeat (l : list N) : (forall j, (j < length l)%nat -> nth j l 1 = 0) -> l = repeat 0 (length l).
Proof.
  induction l as [|x r IH]; intros H; [reflexivity|]. cbn [length repeat].
  rewrite <- IH by (intros j Hj; apply (H (S j)); cbn; lia). f_equal. apply (H 0%nat). cbn. lia.
Qed.

Lemma skipn_skipn' {A} (l : list A) : forall a b, skipn b (skipn a l) = skipn (a + b) l.
Proof.
  induction l as [|y q IH]; intros a b; [rewrite !skipn_nil; reflexivity|].
  destruct a as [|a]; [reflexivity|]. cbn [skipn Nat.add]. apply IH.
Qed.
Lemma nth_firstn_lt (l : list N) : forall n j, (j < n)%nat -> nth j (firstn n l) 1 = nth j l 1.
Proof.
  induction l as [|y q IHl]; intros n j Hj; [rewrite firstn_nil; reflexivity|].
  destruct n; [lia|]. destruct j; [reflexivity|]. cbn [firstn nth]. apply IHl. lia.
Qed.
Lemma nth_skipn1 (l : list N) : forall s j, nth j (skipn s l) 1 = nth (s + j) l 1.
Proof.
  induction l as [|y q IH]; intros s j; [rewrite skipn_nil; destruct j, (s + _)%nat; reflexivity|].
  destruct s as [|s]; [reflexivity|]. cbn [skipn Nat.add nth]. apply IH.
Qed.

Lemma rebuild G s e : good G (Some (s, e)) -> firstn s G ++ repeat 0 (e - s) ++ skipn e G = G.
Proof.
  intros (H1 & H2 & H3).
  assert (E1 : skipn s G = firstn (e - s) (skipn s G) ++ skipn e G).
  { rewrite <- (firstn_skipn (e - s) (skipn s G)) at 1. f_equal. rewrite skipn_skipn'. f_equal. lia. }
  assert (L : length (firstn (e - s) (skipn s G)) = (e - s)%nat) by (rewrite firstn_length, skipn_length; lia).
  assert (E2 : firstn (e - s) (skipn s G) = repeat 0 (e - s)).
  { rewrite <- L at 2. apply all_zero_repeat. intros j Hj. rewrite L in Hj.
    rewrite nth_firstn_lt by exact Hj. rewrite nth_skipn1. apply H3. lia. }
  rewrite <- E2, <- E1. apply firstn_skipn.
Qed.

Lemma Forall_firstn {A} (P : A -> Prop) (l : list A) n : Forall P l -> Forall P (firstn n l).
Proof. intros H. rewrite <- (firstn_skipn n l) in H. apply Forall_app in H. tauto. Qed.
Lemma Forall_skipn {A} (P : A -> Prop) (l : list A) n : Forall P l -> Forall P (skipn n l).
Proof. intros H. rewrite <- (firstn_skipn n l) in H. apply Forall_app in H. tauto. Qed.

(* ---- sixteen bytes that are not an IPv4-mapped address ---- *)
Lemma ip6_roundtrip gs : length gs = 8%nat -> Forall (fun g => g < 65536) gs -> parse_ip6 (ip6_string gs) = ungroups gs.
Proof.
  intros Hl Hb. unfold ip6_string, parse_ip6.
  pose proof (best_run_good gs gs [] None eq_refl I) as Hg. cbn [length] in Hg.
  destruct (best_run 0 gs None) as [[s e]|].
  - destruct Hg as (H1 & H2 & H3).
    assert (Bf : Forall (fun g => g < 65536) (firstn s gs)) by (apply Forall_firstn; exact Hb).
    assert (Bs : Forall (fun g => g < 65536) (skipn e gs)) by (apply Forall_skipn; exact Hb).
    change ([58; 58] ++ intersperse [58] (map hex_group (skipn e gs))) with (58 :: 58 :: intersperse [58] (map hex_group (skipn e gs))).
    rewrite split2_inter_some by (apply words_of; exact Bf).
    rewrite !parse_groups_inter by assumption.
    rewrite firstn_length, skipn_length, Hl. replace (Nat.min s 8) with s by lia.
    replace (8 - s - (8 - e))%nat with (e - s)%nat by lia.
    rewrite rebuild by (repeat split; assumption). reflexivity.
  - rewrite split2_inter_none by (apply words_of; exact Hb). rewrite parse_groups_inter by exact Hb. reflexivity.
Qed.

(* ---- which characters occur ---- *)
Lemma has_app c a b : has c (a ++ b) = has c a || has c b.
Proof. unfold has. apply existsb_app. Qed.

Lemma ip4_has_dot a b c d : has 46 (ip4_string [a; b; c; d]) = true.
Proof.
  unfold ip4_string. cbn [map].
  change (intersperse [46] [show_dec a; show_dec b; show_dec c; show_dec d])
    with (show_dec a ++ [46] ++ intersperse [46] [show_dec b; show_dec c; show_dec d]).
  rewrite !has_app. replace (has 46 [46]) with true by reflexivity. rewrite orb_true_l, orb_true_r. reflexivity.
Qed.
Lemma ip4_nonempty a b c d : ip4_string [a; b; c; d] <> [].
Proof. intros H. pose proof (ip4_has_dot a b c d) as G. rewrite H in G. discriminate. Qed.

Lemma ip6_chars gs : Forall (fun g => g < 65536) gs -> Forall (fun c => hexchar c \/ c = 58) (ip6_string gs).
Proof.
  intros Hb.
  assert (G : forall l, Forall (fun g => g < 65536) l -> Forall (fun c => hexchar c \/ c = 58) (intersperse [58] (map hex_group l))).
  { intros l Hl. apply Forall_forall. intros c Hc. apply in_intersperse in Hc. destruct Hc as [[<-|[]]|(w & Hw & Hc)]; [right; reflexivity|].
    left. pose proof (words_of l Hl) as W. rewrite Forall_forall in W. destruct (W w Hw) as [_ Hh]. rewrite Forall_forall in Hh. apply Hh. exact Hc. }
  unfold ip6_string. destruct (best_run 0 gs None) as [[s e]|]; [|apply G; exact Hb].
  apply Forall_app. split; [apply G, Forall_firstn, Hb|]. apply Forall_app. split; [repeat constructor; right; reflexivity|apply G, Forall_skipn, Hb].
Qed.

Lemma ip6_no_dot gs : Forall (fun g => g < 65536) gs -> has 46 (ip6_string gs) = false.
Proof.
  intros Hb. unfold has. apply not_true_is_false. intros H. apply existsb_exists in H. destruct H as (c & Hin & Hc).
  apply N.eqb_eq in Hc. subst c. pose proof (ip6_chars gs Hb) as G. rewrite Forall_forall in G. destruct (G 46 Hin) as [Hh|Hh]; [unfold hexchar in Hh; lia|discriminate].
Qed.

Lemma inter_two_has58 (x y : bytes) r : has 58 (intersperse [58] (x :: y :: r)) = true.
Proof.
  change (intersperse [58] (x :: y :: r)) with (x ++ 58 :: intersperse [58] (y :: r)).
  rewrite has_app. change (58 :: intersperse [58] (y :: r)) with ([58] ++ intersperse [58] (y :: r)). rewrite has_app.
  replace (has 58 [58]) with true by reflexivity. rewrite orb_true_l, orb_true_r. reflexivity.
Qed.

Lemma ip6_has_colon gs : length gs = 8%nat -> has 58 (ip6_string gs) = true.
Proof.
  intros Hl. unfold ip6_string. destruct (best_run 0 gs None) as [[s e]|].
  - rewrite !has_app. replace (has 58 [58; 58]) with true by reflexivity. rewrite orb_true_l, orb_true_r. reflexivity.
  - destruct gs as [|a [|b r]]; try discriminate. cbn [map]. apply inter_two_has58.
Qed.

(* THE THEOREM: the text form of an address determines it *)
Theorem render_ip_roundtrip b : wfb b -> (length b = 4%nat \/ length b = 16%nat) -> parse_ip (render_ip b) = Some b.
Proof.
  intros Hw [H4|H16]; unfold render_ip.
  - rewrite H4. cbn [Nat.eqb]. destruct b as [|a [|b1 [|c [|d [|x r]]]]]; try discriminate.
    unfold parse_ip. destruct (ip4_string [a; b1; c; d]) as [|ch q] eqn:E; [exfalso; exact (ip4_nonempty a b1 c d E)|].
    rewrite <- E. rewrite ip4_no_colon. rewrite ip4_roundtrip by discriminate. reflexivity.
  - rewrite H16. cbn [Nat.eqb]. unfold ip16_string. destruct (is4in6 b) eqn:E4.
    + (* IPv4-mapped *)
      destruct b as [|b0 [|b1 [|b2 [|b3 [|b4 [|b5 [|b6 [|b7 [|b8 [|b9 [|b10 [|b11 [|c0 [|c1 [|c2 [|c3 [|x r]]]]]]]]]]]]]]]]]; try discriminate.
      unfold is4in6 in E4. cbn [firstn forallb nth] in E4.
      repeat match goal with
      | X : _ && _ = true |- _ => apply andb_prop in X; destruct X
      | X : (_ =? _) = true |- _ => apply N.eqb_eq in X; subst
      end.
      cbn [skipn]. unfold parse_ip.
      change (bytes_of_string "::ffff:") with [58; 58; 102; 102; 102; 102; 58].
      cbn [app]. unfold has at 1. cbn [existsb N.eqb Pos.eqb orb].
      change (58 :: 58 :: 102 :: 102 :: 102 :: 102 :: 58 :: ip4_string [c0; c1; c2; c3]) with ([58; 58; 102; 102; 102; 102; 58] ++ ip4_string [c0; c1; c2; c3]).
      rewrite has_app, ip4_has_dot, orb_true_r.
      cbn [skipn app]. rewrite ip4_roundtrip by discriminate. reflexivity.
    + (* plain IPv6 *)
      assert (Hg : length (groups b) = 8%nat).
      { destruct b as [|b0 [|b1 [|b2 [|b3 [|b4 [|b5 [|b6 [|b7 [|b8 [|b9 [|b10 [|b11 [|c0 [|c1 [|c2 [|c3 [|x r]]]]]]]]]]]]]]]]]; try discriminate. reflexivity. }
      pose proof (groups_bound b Hw) as Hb.
      unfold parse_ip. destruct (ip6_string (groups b)) as [|ch q] eqn:E.
      * pose proof (ip6_has_colon (groups b) Hg) as G. rewrite E in G. discriminate.
      * rewrite <- E. rewrite ip6_has_colon by exact Hg. rewrite ip6_no_dot by exact Hb.
        rewrite ip6_roundtrip by assumption. rewrite ungroups_groups; [reflexivity|exact Hw|rewrite H16; reflexivity].
Qed.

Corollary render_ip_injective a b : wfb a -> wfb b ->
  (length a = 4%nat \/ length a = 16%nat) -> (length b = 4%nat \/ length b = 16%nat) -> render_ip a = render_ip b -> a = b.
Proof.
  intros Ha Hb La Lb E. pose proof (render_ip_roundtrip a Ha La) as A. rewrite E, (render_ip_roundtrip b Hb Lb) in A. congruence.
Qed.

(* ---- MAC addresses ---- *)
Definition parse_mac (s : bytes) : N := be (map hex_val (split_on 58 s)).

Lemma hex2_spec b : b < 256 -> hex_val (hex2 b) = b /\ ~ In 58 (hex2 b).
Proof.
  intros Hb. unfold hex2, hex_val. cbn [fold_left]. rewrite !hex_digit_hexd by lia. split; [lia|].
  apply hexchars_no; [hc|left; reflexivity].
Qed.

Theorem mac_roundtrip n : n < 281474976710656 -> parse_mac (mac_string n) = n.
Proof.
  intros Hn. unfold parse_mac, mac_string. rewrite N.mod_small by exact Hn.
  pose proof (enc_be_wfb 6 n) as W.
  rewrite split_inter.
  - rewrite map_map. rewrite (map_ext_in _ (fun x => x)); [rewrite map_id; apply (be_enc 6); exact Hn|].
    intros x Hx. unfold wfb in W. rewrite Forall_forall in W. apply (hex2_spec x (W x Hx)).
  - pose proof (enc_be_len 6 n) as L. destruct (enc_be 6 n); [discriminate|discriminate].
  - apply Forall_forall. intros w Hw. apply in_map_iff in Hw. destruct Hw as (x & <- & Hx).
    unfold wfb in W. rewrite Forall_forall in W. apply (hex2_spec x (W x Hx)).
Qed.

(* the hex text of a byte field reads back to the bytes *)
Theorem hex_roundtrip b : wfb b -> parse_hex (hex_of_bytes b) = Some b.
Proof.
  unfold wfb. induction b as [|x r IH]; intros H; [reflexivity|].
  inversion H as [|? ? Hx Hr]; subst.
  unfold hex_of_bytes. cbn [flat_map]. fold (hex_of_bytes r). unfold hex2 at 1. cbn [app parse_hex].
  rewrite (IH Hr). destruct (hex2_spec x Hx) as [E _]. unfold hex2 in E. rewrite E. reflexivity.
Qed.

(* ---- prefixes: "address/length" reads back to the masked address and the length ---- *)
Lemma ip4_no_slash b : ~ In 47 (ip4_string b).
Proof.
  unfold ip4_string. intros Hin. apply in_intersperse in Hin. destruct Hin as [[H|[]]|(w & Hw & Hc)]; [discriminate|].
  apply in_map_iff in Hw. destruct Hw as (x & <- & _). revert Hc. apply digits_no; [apply show_dec_digits|lia].
Qed.

Lemma ip6_no_slash gs : Forall (fun g => g < 65536) gs -> ~ In 47 (ip6_string gs).
Proof.
  intros Hb Hin. pose proof (ip6_chars gs Hb) as G. rewrite Forall_forall in G.
  destruct (G 47 Hin) as [Hh|Hh]; [unfold hexchar in Hh; lia|discriminate].
Qed.

Lemma render_ip_no_slash b : wfb b -> ~ In 47 (render_ip b).
Proof.
  intros Hw. unfold render_ip. destruct (Nat.eqb (length b) 4); [apply ip4_no_slash|].
  destruct (Nat.eqb (length b) 16); [|intros []].
  unfold ip16_string. destruct (is4in6 b).
  - intros Hin. apply in_app_or in Hin. destruct Hin as [Hin|Hin]; [|revert Hin; apply ip4_no_slash].
    vm_compute in Hin. repeat (destruct Hin as [Hin|Hin]; [discriminate|]). exact Hin.
  - apply ip6_no_slash. apply groups_bound. exact Hw.
Qed.

Lemma mask_bytes_length b : forall bits, length (mask_bytes b bits) = length b.
Proof.
  induction b as [|x r IH]; intros bits; [reflexivity|]. cbn [mask_bytes].
  destruct (8 <=? bits); cbn [length]; [rewrite IH; reflexivity|rewrite map_length; reflexivity].
Qed.

Lemma mask_bytes_wfb b : wfb b -> forall bits, wfb (mask_bytes b bits).
Proof.
  unfold wfb. induction b as [|x r IH]; intros H bits; [constructor|]. inversion H as [|? ? Hx Hr]; subst.
  cbn [mask_bytes]. destruct (8 <=? bits) eqn:E.
  - constructor; [exact Hx|apply IH; exact Hr].
  - constructor.
    + apply N.leb_gt in E. assert (P : 0 < 2 ^ (8 - bits)) by (apply N.neq_0_lt_0, N.pow_nonzero; discriminate).
      pose proof (N.mul_div_le x (2 ^ (8 - bits)) ltac:(lia)). lia.
    + apply Forall_forall. intros y Hy. apply in_map_iff in Hy. destruct Hy as (_ & <- & _). lia.
Qed.

Theorem prefix_roundtrip addr bits :
  wfb addr -> (length addr = 4%nat /\ bits <= 32 \/ length addr = 16%nat /\ bits <= 128) ->
  parse_prefix (render_prefix addr bits) = Some (mask_bytes addr bits, bits).
Proof.
  intros Hw Hl.
  assert (E : render_prefix addr bits = render_ip (mask_bytes addr bits) ++ 47 :: show_dec bits).
  { unfold render_prefix, render_ip. rewrite mask_bytes_length.
    destruct Hl as [[Hl Hb]|[Hl Hb]]; rewrite Hl; cbn [Nat.eqb].
    - replace (32 <? bits) with false by lia. reflexivity.
    - replace (128 <? bits) with false by lia. reflexivity. }
  rewrite E. unfold parse_prefix.
  rewrite split_on_app by (apply render_ip_no_slash, mask_bytes_wfb, Hw).
  rewrite split_on_nosep by (apply digits_no; [apply show_dec_digits|lia]).
  rewrite render_ip_roundtrip.
  - rewrite dec_val_show. reflexivity.
  - apply mask_bytes_wfb, Hw.
  - rewrite mask_bytes_length. destruct Hl as [[Hl _]|[Hl _]]; [left|right]; exact Hl.
Qed.
