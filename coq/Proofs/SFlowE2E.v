(* C09 + C10 + C04 composed: a flow sample that carries the raw Ethernet header of a well-formed frame
   becomes the message the documentation describes. *)
From Coq Require Import String NArith ZArith List Bool Arith Lia.
From GF Require Import Base.Res Base.Bytes Model.Msg Model.Packet Model.SFlow Model.ProdSF Spec.Frame Spec.EncSFlow
  Proofs.PacketP Proofs.FrameL Proofs.FrameP.
Import ListNotations.
Open Scope N_scope.

Lemma peek_pad x n : peek_etype (x ++ repeat 0 n) = peek_etype x.
Proof. destruct x as [|b r]; [destruct n; reflexivity|reflexivity]. Qed.

(* the sample's own fields, before its records are looked at *)
Definition sample_base (rate inif outif flen : N) : msg :=
  msetI (msetI (msetI (msetI (msetI (msetI empty_msg cType 1) cSamplingRate rate) cInIf inif) cOutIf outif) cPackets 1) cBytes flen.

Theorem raw_header_flow_sample f hdr rate pool drops inif outif flen stripped :
  wf_frame f = true ->
  let s := {| sKind := SFlowS; sHdr := hdr; sVals := [rate; pool; drops; inif; outif; 1];
              sRecs := [mk_header 1 flen stripped (encode_frame f)] |} in
  exists m, convert_sf empty_pcfg s = Ok m /\ meq m (framed (sample_base rate inif outif flen) f).
Proof.
  intros Hwf s. unfold convert_sf, s. cbn [sKind sVals sRecs sf_records]. unfold vv. cbn [nth].
  unfold mk_header, EncSFlow.mk, fix_rec. cbn [rKind rVals rBlobs rFmt rLists]. unfold sf_record. cbn [rKind rVals rBlobs].
  unfold vv, bb. cbn [nth N.eqb Pos.eqb].
  destruct (parse_full_capture_on (sample_base rate inif outif flen) f [] Hwf)
    as (m & Hp & Hm); try reflexivity.
  - rewrite app_nil_r. reflexivity.
  - rewrite app_nil_r in Hp. unfold sample_base in Hp. rewrite Hp. exists m. split; [reflexivity|exact Hm].
Qed.

Theorem raw_header_expanded_sample f hdr rate pool drops infmt inif outfmt outif flen stripped :
  wf_frame f = true ->
  let s := {| sKind := SExpFlowS; sHdr := hdr; sVals := [rate; pool; drops; infmt; inif; outfmt; outif; 1];
              sRecs := [mk_header 1 flen stripped (encode_frame f)] |} in
  exists m, convert_sf empty_pcfg s = Ok m /\ meq m (framed (sample_base rate inif outif flen) f).
Proof.
  intros Hwf s. unfold convert_sf, s. cbn [sKind sVals sRecs sf_records]. unfold vv. cbn [nth].
  unfold mk_header, EncSFlow.mk, fix_rec. cbn [rKind rVals rBlobs rFmt rLists]. unfold sf_record. cbn [rKind rVals rBlobs].
  unfold vv, bb. cbn [nth N.eqb Pos.eqb].
  destruct (parse_full_capture_on (sample_base rate inif outif flen) f [] Hwf)
    as (m & Hp & Hm); try reflexivity.
  - rewrite app_nil_r. reflexivity.
  - rewrite app_nil_r in Hp. unfold sample_base in Hp. rewrite Hp. exists m. split; [reflexivity|exact Hm].
Qed.

(* ---- IPFIX dataLinkFrameSection (element 315) ---- *)
From GF Require Import Model.ProdNF.

Theorem ipfix_frame_section f m0 base up :
  wf_frame f = true ->
  mgetLI m0 cLayerStack = [] -> mgetLI m0 cLayerSize = [] -> mgetLB m0 cRhAddrs = [] ->
  exists m1, parse_packet empty_pcfg m0 (encode_frame f) = Ok m1 /\ meq m1 (framed m0 f) /\
    nf_field empty_prodcfg 10 base up m0 315 (encode_frame f) =
    Ok (let m2 := msetI m1 cPackets 1 in if mgetI m2 cBytes =? 0 then msetI m2 cBytes (lenN (encode_frame f)) else m2).
Proof.
  intros Hwf H1 H2 H3.
  destruct (parse_full_capture_on m0 f [] Hwf H1 H2 H3) as (m1 & Hp & Hm); [rewrite app_nil_r; reflexivity|].
  rewrite app_nil_r in Hp. exists m1. split; [exact Hp|]. split; [exact Hm|].
  unfold nf_field. cbn [N.eqb Pos.eqb empty_prodcfg pPacket]. rewrite Hp. reflexivity.
Qed.

(* ---- the raw header of a flow sample captured at ANY length (what sFlow agents send: the first 64 / 128 / 256 bytes) ----
   The sample's own columns, and the frame's columns as c10_any_capture_length describes them: the complete frame's
   value, or left as the sample set them (unset), or a prefix of the label / TTL / segment list; the layer stack a
   prefix of the frame's layers.  (Holds since fix 5d701ef: the dissector is given the header_length bytes, not the
   XDR padding behind them.) *)
From GF Require Import Proofs.FrameCutP Proofs.FrameAnyCutP.

Lemma sample_base_ok rate inif outif flen : base_ok (sample_base rate inif outif flen).
Proof. repeat split. Qed.

Theorem raw_header_cut_flow_sample f n hdr rate pool drops inif outif flen stripped :
  wf_frame f = true ->
  let s := {| sKind := SFlowS; sHdr := hdr; sVals := [rate; pool; drops; inif; outif; 1];
              sRecs := [mk_header 1 flen stripped (firstn n (encode_frame f))] |} in
  exists m, convert_sf empty_pcfg s = Ok m /\ cols_ok (sample_base rate inif outif flen) m f /\ layers_ok m f /\
            complete_ok (sample_base rate inif outif flen) m f (length (firstn n (encode_frame f))) /\
            tags_ok (sample_base rate inif outif flen) m f.
Proof.
  intros Hwf s. unfold convert_sf, s. cbn [sKind sVals sRecs sf_records]. unfold vv. cbn [nth].
  unfold mk_header, EncSFlow.mk, fix_rec. cbn [rKind rVals rBlobs rFmt rLists]. unfold sf_record. cbn [rKind rVals rBlobs].
  unfold vv, bb. cbn [nth N.eqb Pos.eqb].
  destruct (any_cut_on (sample_base rate inif outif flen) f n Hwf (sample_base_ok rate inif outif flen)) as (m & Hp & Hc & Hl & Hk & Ht).
  unfold sample_base in Hp. rewrite Hp. exists m. split; [reflexivity|]. split; [exact Hc|]. split; [exact Hl|]. split; [exact Hk|exact Ht].
Qed.

Theorem raw_header_cut_expanded_sample f n hdr rate pool drops infmt inif outfmt outif flen stripped :
  wf_frame f = true ->
  let s := {| sKind := SExpFlowS; sHdr := hdr; sVals := [rate; pool; drops; infmt; inif; outfmt; outif; 1];
              sRecs := [mk_header 1 flen stripped (firstn n (encode_frame f))] |} in
  exists m, convert_sf empty_pcfg s = Ok m /\ cols_ok (sample_base rate inif outif flen) m f /\ layers_ok m f /\
            complete_ok (sample_base rate inif outif flen) m f (length (firstn n (encode_frame f))) /\
            tags_ok (sample_base rate inif outif flen) m f.
Proof.
  intros Hwf s. unfold convert_sf, s. cbn [sKind sVals sRecs sf_records]. unfold vv. cbn [nth].
  unfold mk_header, EncSFlow.mk, fix_rec. cbn [rKind rVals rBlobs rFmt rLists]. unfold sf_record. cbn [rKind rVals rBlobs].
  unfold vv, bb. cbn [nth N.eqb Pos.eqb].
  destruct (any_cut_on (sample_base rate inif outif flen) f n Hwf (sample_base_ok rate inif outif flen)) as (m & Hp & Hc & Hl & Hk & Ht).
  unfold sample_base in Hp. rewrite Hp. exists m. split; [reflexivity|]. split; [exact Hc|]. split; [exact Hl|]. split; [exact Hk|exact Ht].
Qed.

(* IPFIX dataLinkFrameSection (element 315) carrying a frame captured at ANY length *)
Theorem ipfix_frame_section_cut f n m0 base up :
  wf_frame f = true -> base_ok m0 ->
  exists m1, parse_packet empty_pcfg m0 (firstn n (encode_frame f)) = Ok m1 /\ cols_ok m0 m1 f /\ layers_ok m1 f /\
    complete_ok m0 m1 f (length (firstn n (encode_frame f))) /\ tags_ok m0 m1 f /\
    nf_field empty_prodcfg 10 base up m0 315 (firstn n (encode_frame f)) =
    Ok (let m2 := msetI m1 cPackets 1 in if mgetI m2 cBytes =? 0 then msetI m2 cBytes (lenN (firstn n (encode_frame f))) else m2).
Proof.
  intros Hwf Hb. destruct (any_cut_on m0 f n Hwf Hb) as (m1 & Hp & Hc & Hl & Hk & Ht).
  exists m1. split; [exact Hp|]. split; [exact Hc|]. split; [exact Hl|]. split; [exact Hk|]. split; [exact Ht|].
  unfold nf_field. cbn [N.eqb Pos.eqb empty_prodcfg pPacket]. rewrite Hp. reflexivity.
Qed.
