(* C06 as a refinement: the collector's two-level template store with its packed 64-bit key behaves,
   on EVERY history of well-formed datagrams from ANY set of exporters, exactly like one flat finite
   map keyed by the tuple (exporter, version, observation domain, template id). *)
From Coq Require Import String NArith List Bool Arith Lia ZifyN ZifyNat ZifyBool.
From GF Require Import Base.Res Base.Bytes Base.Layout Model.Msg Model.NF Model.NFv5 Model.Packet Model.ProdNF Model.Pipe
  Spec.RefStore Proofs.BytesL Proofs.LayoutL Proofs.PipeP.
Import ListNotations.
Open Scope N_scope.

Definition rmap {A B} (f : A -> B) (r : res A) : res B :=
  match r with Ok a => Ok (f a) | Err e => Err e | Panic => Panic | OutOfFuel => OutOfFuel end.

(* ---- bytes stay bytes ------------------------------------------------------------------ *)
Lemma wfb_next n d : wfb d -> wfb (fst (next n d)) /\ wfb (snd (next n d)).
Proof. intros H. unfold next. cbn [fst snd]. apply wfb_app. rewrite firstn_skipn. exact H. Qed.

Lemma dec_field_wfb pen d f r : wfb d -> dec_field pen d = Ok (f, r) -> wfb r.
Proof.
  intros Hd H. unfold dec_field in H.
  destruct (rd 2 d) as [[ty d1]| | |] eqn:E1; try discriminate.
  destruct (rd 2 d1) as [[ln d2]| | |] eqn:E2; try discriminate.
  apply rd_ok in E1; [|exact Hd]. destruct E1 as (_ & _ & H1).
  apply rd_ok in E2; [|exact H1]. destruct E2 as (_ & _ & H2).
  destruct (pen && (32768 <=? ty)).
  - destruct (rd 4 d2) as [[p d3]| | |] eqn:E3; try discriminate.
    apply rd_ok in E3; [|exact H2]. destruct E3 as (_ & _ & H3). inversion H; subst. exact H3.
  - inversion H; subst. exact H2.
Qed.

Lemma dec_field_list_wfb pen n : forall d fs r, wfb d -> dec_field_list n pen d = Ok (fs, r) -> wfb r.
Proof.
  induction n as [|k IH]; intros d fs r Hd H; cbn [dec_field_list] in H.
  - inversion H; subst. exact Hd.
  - destruct (dec_field pen d) as [[f d1]| | |] eqn:E1; try discriminate.
    destruct (dec_field_list k pen d1) as [[fs' d2]| | |] eqn:E2; try discriminate.
    inversion H; subst. eapply IH; [|exact E2]. eapply dec_field_wfb; eauto.
Qed.

(* ---- template ids are 16-bit ------------------------------------------------------------- *)
Lemma dec_template_set_ids ver fuel : forall d rs, wfb d ->
  dec_template_set fuel ver d = Ok rs -> Forall (fun r => tId r < 65536) rs.
Proof.
  induction fuel as [|fu IH]; intros d rs Hd H; cbn [dec_template_set] in H; [discriminate|].
  destruct (Nat.leb 4 (length d)); [|inversion H; constructor].
  destruct (rd 2 d) as [[id d1]| | |] eqn:E1; try discriminate.
  destruct (rd 2 d1) as [[cnt d2]| | |] eqn:E2; try discriminate.
  destruct (dec_field_list (N.to_nat cnt) (ver =? 10) d2) as [[fs d3]| | |] eqn:E3; try discriminate.
  destruct (dec_template_set fu ver d3) as [rs'| | |] eqn:E4; try discriminate.
  inversion H; subst.
  apply rd_ok in E1; [|exact Hd]. destruct E1 as (_ & Hid & H1).
  apply rd_ok in E2; [|exact H1]. destruct E2 as (_ & _ & H2).
  constructor; [exact Hid|]. eapply IH; [|exact E4]. eapply dec_field_list_wfb; eauto.
Qed.

Lemma dec_v9_opt_ids fuel : forall d rs, wfb d ->
  dec_v9_opt_template_set fuel d = Ok rs -> Forall (fun r => oId r < 65536) rs.
Proof.
  induction fuel as [|fu IH]; intros d rs Hd H; cbn [dec_v9_opt_template_set] in H; [discriminate|].
  destruct (Nat.leb 4 (length d)); [|inversion H; constructor].
  destruct (rd 2 d) as [[id d1]| | |] eqn:E1; try discriminate.
  destruct (rd 2 d1) as [[sl d2]| | |] eqn:E2; try discriminate.
  destruct (rd 2 d2) as [[ol d3]| | |] eqn:E3; try discriminate.
  destruct (dec_field_list (N.to_nat (sl / 4)) false d3) as [[sc d4]| | |] eqn:E4; try discriminate.
  destruct (dec_field_list (N.to_nat (ol / 4)) false d4) as [[op d5]| | |] eqn:E5; try discriminate.
  destruct (dec_v9_opt_template_set fu d5) as [rs'| | |] eqn:E6; try discriminate.
  inversion H; subst.
  apply rd_ok in E1; [|exact Hd]. destruct E1 as (_ & Hid & H1).
  apply rd_ok in E2; [|exact H1]. destruct E2 as (_ & _ & H2).
  apply rd_ok in E3; [|exact H2]. destruct E3 as (_ & _ & H3).
  constructor; [exact Hid|]. eapply IH; [|exact E6].
  eapply dec_field_list_wfb; [|exact E5]. eapply dec_field_list_wfb; eauto.
Qed.

Lemma dec_ipfix_opt_ids fuel : forall d rs, wfb d ->
  dec_ipfix_opt_template_set fuel d = Ok rs -> Forall (fun r => oId r < 65536) rs.
Proof.
  induction fuel as [|fu IH]; intros d rs Hd H; cbn [dec_ipfix_opt_template_set] in H; [discriminate|].
  destruct (Nat.leb 4 (length d)); [|inversion H; constructor].
  destruct (rd 2 d) as [[id d1]| | |] eqn:E1; try discriminate.
  destruct (rd 2 d1) as [[fc d2]| | |] eqn:E2; try discriminate.
  destruct (rd 2 d2) as [[sfc d3]| | |] eqn:E3; try discriminate.
  destruct (dec_field_list (N.to_nat sfc) true d3) as [[sc d4]| | |] eqn:E4; try discriminate.
  destruct (fc <? sfc); try discriminate.
  destruct (dec_field_list (N.to_nat (fc - sfc)) true d4) as [[op d5]| | |] eqn:E5; try discriminate.
  destruct (dec_ipfix_opt_template_set fu d5) as [rs'| | |] eqn:E6; try discriminate.
  inversion H; subst.
  apply rd_ok in E1; [|exact Hd]. destruct E1 as (_ & Hid & H1).
  apply rd_ok in E2; [|exact H1]. destruct E2 as (_ & _ & H2).
  apply rd_ok in E3; [|exact H2]. destruct E3 as (_ & _ & H3).
  constructor; [exact Hid|]. eapply IH; [|exact E6].
  eapply dec_field_list_wfb; [|exact E5]. eapply dec_field_list_wfb; eauto.
Qed.

(* ---- the simulation relation ---------------------------------------------------------------
   R e st rs: exporter e's own store st and the flat map rs answer every in-range lookup alike *)
Definition R (e : N) (st : store) (rs : rstore) : Prop :=
  forall v d i, d < 4294967296 -> i < 65536 -> store_get st (tkey v d i) = rget rs (e, v, d, i).
(* frame: the entries of every other exporter are untouched *)
Definition frame (e : N) (rs rs' : rstore) : Prop :=
  forall e' v d i, e' <> e -> rget rs' (e', v, d, i) = rget rs (e', v, d, i).

Lemma frame_refl e rs : frame e rs rs.
Proof. intros e' v d i _. reflexivity. Qed.
Lemma frame_trans e a b c : frame e a b -> frame e b c -> frame e a c.
Proof. intros H1 H2 e' v d i Hne. rewrite H2, H1 by exact Hne. reflexivity. Qed.

Lemma rkey_eqb_spec e v d i e' v' d' i' :
  rkey_eqb (e, v, d, i) (e', v', d', i') = true <-> e = e' /\ v = v' /\ d = d' /\ i = i'.
Proof. unfold rkey_eqb. rewrite !andb_true_iff, !N.eqb_eq. tauto. Qed.

Lemma R_add e st rs v d i t :
  d < 4294967296 -> i < 65536 -> R e st rs -> R e (store_add st (tkey v d i) t) (radd rs (e, v, d, i) t).
Proof.
  intros Hd Hi HR v' d' i' Hd' Hi'. unfold store_add, radd. cbn [store_get rget].
  destruct (rkey_eqb (e, v, d, i) (e, v', d', i')) eqn:Ek.
  - apply rkey_eqb_spec in Ek. destruct Ek as (_ & -> & -> & ->). rewrite N.eqb_refl. reflexivity.
  - destruct (tkey v d i =? tkey v' d' i') eqn:Et.
    + apply N.eqb_eq in Et. apply tkey_injective in Et; try assumption. destruct Et as (-> & -> & ->).
      assert (T : rkey_eqb (e, v', d', i') (e, v', d', i') = true) by (apply rkey_eqb_spec; auto). congruence.
    + apply HR; assumption.
Qed.

Lemma frame_add e rs v d i t : frame e rs (radd rs (e, v, d, i) t).
Proof.
  intros e' v' d' i' Hne. unfold radd. cbn [rget].
  destruct (rkey_eqb (e, v, d, i) (e', v', d', i')) eqn:Ek; [|reflexivity].
  apply rkey_eqb_spec in Ek. destruct Ek as (-> & _). contradiction.
Qed.

Lemma R_add_trecs e v d rs0 : forall st rs, d < 4294967296 -> Forall (fun r => tId r < 65536) rs0 ->
  R e st rs -> R e (add_trecs st v d rs0) (radd_trecs rs e v d rs0) /\ frame e rs (radd_trecs rs e v d rs0).
Proof.
  unfold add_trecs, radd_trecs. induction rs0 as [|r q IH]; intros st rs Hd Hf HR; cbn [fold_left].
  - split; [exact HR|apply frame_refl].
  - inversion Hf as [|? ? Hr Hq]; subst.
    destruct (IH (store_add st (tkey v d (tId r)) (TplData r)) (radd rs (e, v, d, tId r) (TplData r)) Hd Hq) as [H1 H2].
    + apply R_add; assumption.
    + split; [exact H1|]. eapply frame_trans; [apply frame_add|exact H2].
Qed.

Lemma R_add_orecs e v d mk rs0 : forall st rs, d < 4294967296 -> Forall (fun r => oId r < 65536) rs0 ->
  R e st rs -> R e (add_orecs st v d mk rs0) (radd_orecs rs e v d mk rs0) /\ frame e rs (radd_orecs rs e v d mk rs0).
Proof.
  unfold add_orecs, radd_orecs. induction rs0 as [|r q IH]; intros st rs Hd Hf HR; cbn [fold_left].
  - split; [exact HR|apply frame_refl].
  - inversion Hf as [|? ? Hr Hq]; subst.
    destruct (IH (store_add st (tkey v d (oId r)) (mk r)) (radd rs (e, v, d, oId r) (mk r)) Hd Hq) as [H1 H2].
    + apply R_add; assumption.
    + split; [exact H1|]. eapply frame_trans; [apply frame_add|exact H2].
Qed.

(* ---- one flow set ---------------------------------------------------------------------------- *)
Definition sim_fs (e : N) (rs : rstore) (a : res fsres) (b : res rfsres) : Prop :=
  match a, b with
  | Ok (fs, tnf, st', r), Ok (fs', tnf', rs', r') =>
      fs = fs' /\ tnf = tnf' /\ r = r' /\ R e st' rs' /\ frame e rs rs' /\ wfb r
  | Err x, Err y => x = y
  | Panic, Panic => True
  | OutOfFuel, OutOfFuel => True
  | _, _ => False
  end.

Lemma dec_flowset_sim e st rs dom ver d :
  R e st rs -> dom < 4294967296 -> wfb d ->
  sim_fs e rs (dec_flowset st dom ver d) (rdec_flowset rs e dom ver d).
Proof.
  intros HR Hdom Hd. unfold dec_flowset, rdec_flowset.
  destruct (rd 2 d) as [[id d1]| | |] eqn:E1; cbn [sim_fs]; auto.
  apply rd_ok in E1; [|exact Hd]. destruct E1 as (_ & Hid & H1).
  destruct (rd 2 d1) as [[len d2]| | |] eqn:E2; cbn [sim_fs]; auto.
  apply rd_ok in E2; [|exact H1]. destruct E2 as (_ & _ & H2).
  destruct (len <? 4); cbn [sim_fs]; auto.
  pose proof (wfb_next (N.to_nat (len - 4)) d2 H2) as [Hb Hr].
  destruct (next (N.to_nat (len - 4)) d2) as [body rest]. cbn [fst snd] in Hb, Hr.
  destruct ((id =? 0) && (ver =? 9)).
  { destruct (dec_template_set (S (length body)) ver body) as [rs0| | |] eqn:E; cbn [sim_fs]; auto.
    pose proof (dec_template_set_ids _ _ _ _ Hb E) as Hf.
    destruct (R_add_trecs e ver dom rs0 st rs Hdom Hf HR) as [Ha Hb']. repeat split; assumption. }
  destruct ((id =? 1) && (ver =? 9)).
  { destruct (dec_v9_opt_template_set (S (length body)) body) as [rs0| | |] eqn:E; cbn [sim_fs]; auto.
    pose proof (dec_v9_opt_ids _ _ _ Hb E) as Hf.
    destruct (R_add_orecs e ver dom TplOptV9 rs0 st rs Hdom Hf HR) as [Ha Hb']. repeat split; assumption. }
  destruct ((id =? 2) && (ver =? 10)).
  { destruct (dec_template_set (S (length body)) ver body) as [rs0| | |] eqn:E; cbn [sim_fs]; auto.
    pose proof (dec_template_set_ids _ _ _ _ Hb E) as Hf.
    destruct (R_add_trecs e ver dom rs0 st rs Hdom Hf HR) as [Ha Hb']. repeat split; assumption. }
  destruct ((id =? 3) && (ver =? 10)).
  { destruct (dec_ipfix_opt_template_set (S (length body)) body) as [rs0| | |] eqn:E; cbn [sim_fs]; auto.
    pose proof (dec_ipfix_opt_ids _ _ _ Hb E) as Hf.
    destruct (R_add_orecs e ver dom TplOptIPFIX rs0 st rs Hdom Hf HR) as [Ha Hb']. repeat split; assumption. }
  destruct (256 <=? id); cbn [sim_fs]; auto.
  assert (Hid' : id < 65536) by (change (256 ^ N.of_nat 2) with 65536 in Hid; exact Hid).
  rewrite <- (HR ver dom id Hdom Hid').
  destruct (store_get st (tkey ver dom id)) as [[r|r|r]|].
  - destruct (dec_data_set (tFields r) body); cbn [sim_fs]; auto; repeat split; auto; apply frame_refl.
  - destruct (dec_optdata_set (oScopes r) (oOpts r) body); cbn [sim_fs]; auto; repeat split; auto; apply frame_refl.
  - destruct (dec_optdata_set (oScopes r) (oOpts r) body); cbn [sim_fs]; auto; repeat split; auto; apply frame_refl.
  - cbn [sim_fs]. repeat split; auto; apply frame_refl.
Qed.

(* ---- one message ----------------------------------------------------------------------------- *)
Lemma dec_common_sim e dom size ver start fuel : forall st rs i d,
  R e st rs -> dom < 4294967296 -> wfb d ->
  let r := rdec_common fuel rs e dom size ver start i d in
  rmap (fun x => (fst (fst x), snd (fst x))) (dec_common fuel st dom size ver start i d) = fst r /\
  R e (dec_common_st fuel st dom size ver start i d) (snd r) /\ frame e rs (snd r).
Proof.
  induction fuel as [|fu IH]; intros st rs i d HR Hdom Hd; cbn [dec_common dec_common_st rdec_common].
  - cbn. split; [reflexivity|]. split; [exact HR|apply frame_refl].
  - cbv zeta.
    destruct ((((i <? size) && (ver =? 9)) || ((N.of_nat (start - length d) mod 65536 <? size) && (ver =? 10))) && negb (Nat.eqb (length d) 0)).
    2:{ cbn. split; [reflexivity|]. split; [exact HR|apply frame_refl]. }
    pose proof (dec_flowset_sim e st rs dom ver d HR Hdom Hd) as Hs.
    destruct (dec_flowset st dom ver d) as [[[[fs tnf] st1] d1]| | |];
      destruct (rdec_flowset rs e dom ver d) as [[[[fs' tnf'] rs1] d1']| | |]; cbn [sim_fs] in Hs; try contradiction.
    + destruct Hs as (<- & <- & <- & HR1 & Hf1 & Hd1).
      specialize (IH st1 rs1 (i + 1) d1 HR1 Hdom Hd1). cbv zeta in IH. destruct IH as (Ho & HR2 & Hf2).
      destruct (rdec_common fu rs1 e dom size ver start (i + 1) d1) as [ro rs2]. cbn [fst snd] in *.
      destruct (dec_common fu st1 dom size ver start (i + 1) d1) as [[[fss t'] st2]| | |]; cbn [rmap fst snd] in Ho; subst ro;
        cbn [rmap fst snd]; (split; [reflexivity|split; [exact HR2|eapply frame_trans; eauto]]).
    + subst. cbn. split; [reflexivity|]. split; [exact HR|apply frame_refl].
    + cbn. split; [reflexivity|]. split; [exact HR|apply frame_refl].
    + cbn. split; [reflexivity|]. split; [exact HR|apply frame_refl].
Qed.

Lemma hdr_dom ver h : fits (if ver =? 9 then v9_hdr_ws else ipfix_hdr_ws) h = true -> nf_dom ver h < 4294967296.
Proof.
  unfold nf_dom, v9_hdr_ws, ipfix_hdr_ws. destruct (ver =? 9); intros H.
  - destruct h as [|a [|b [|c [|x [|y z]]]]]; cbn in H; rewrite ?andb_false_r in H; try discriminate. cbn [nth].
    rewrite !andb_true_iff in H. lia.
  - destruct h as [|a [|b [|c [|x z]]]]; cbn in H; rewrite ?andb_false_r in H; try discriminate. cbn [nth].
    rewrite !andb_true_iff in H. lia.
Qed.

Lemma decode_nf_body_sim e st rs ver d :
  R e st rs -> wfb d ->
  let r := rdecode_nf_body rs e ver d in
  rmap (fun x => (fst (fst x), snd (fst x))) (decode_nf_body st ver d) = fst r /\
  R e (decode_nf_body_st st ver d) (snd r) /\ frame e rs (snd r).
Proof.
  intros HR Hd. unfold decode_nf_body, decode_nf_body_st, rdecode_nf_body. cbv zeta.
  destruct (rd_fields (if ver =? 9 then v9_hdr_ws else ipfix_hdr_ws) d) as [[h d1]| | |] eqn:E;
    try (cbn; split; [reflexivity|]; split; [exact HR|apply frame_refl]).
  apply rd_fields_ok in E; [|exact Hd]. destruct E as (_ & Hfit & Hd1).
  pose proof (hdr_dom ver h Hfit) as Hdom.
  pose proof (dec_common_sim e (nf_dom ver h) (nf_size ver h) ver (length d1) (S (length d1)) st rs 0 d1 HR Hdom Hd1) as Hs.
  cbv zeta in Hs. destruct Hs as (Ho & HR' & Hf).
  destruct (rdec_common (S (length d1)) rs e (nf_dom ver h) (nf_size ver h) ver (length d1) 0 d1) as [ro rs'].
  cbn [fst snd] in *. subst ro.
  destruct (dec_common (S (length d1)) st (nf_dom ver h) (nf_size ver h) ver (length d1) 0 d1) as [[[fss tnf] st']| | |];
    cbn [rmap fst snd]; auto.
Qed.

(* ---- the pipe: every exporter's store is its slice of the flat map ---------------------------- *)
Definition G (st : pstate) (rst : rpstate) : Prop :=
  (forall e, R e (tstores_get (psT st) e) (rT rst)) /\ psS st = rS rst.

Lemma G_init : G init_pstate rinit_pstate.
Proof. split; [|reflexivity]. intros e v d i _ _. reflexivity. Qed.

Definition strip (r : res stepres) : res (outcome * list msg) := rmap (fun x => (snd (fst x), snd x)) r.
Definition rstrip (r : res (rpstate * outcome * list msg)) : res (outcome * list msg) := rmap (fun x => (snd (fst x), snd x)) r.
Definition rstep_state (st : rpstate) (r : res (rpstate * outcome * list msg)) : rpstate :=
  match r with Ok (st', _, _) => st' | _ => st end.

Lemma G_update st rst e s' rs' ss :
  G st rst -> R e s' rs' -> frame e (rT rst) rs' ->
  G {| psT := (e, s') :: psT st; psS := ss |} {| rT := rs'; rS := ss |}.
Proof.
  intros [HG _] HR Hf. split; [|reflexivity]. intros e'. cbn [psT rT tstores_get].
  destruct (e =? e') eqn:Ee.
  - apply N.eqb_eq in Ee. subst e'. exact HR.
  - apply N.eqb_neq in Ee. intros v d i Hd Hi. rewrite Hf by congruence. apply HG; assumption.
Qed.

Lemma nf_step_sim cfg st rst e tr d :
  G st rst -> wfb d ->
  strip (nf_step cfg st e tr d) = rstrip (rnf_step cfg rst e tr d) /\
  G (step_state st (nf_step cfg st e tr d)) (rstep_state rst (rnf_step cfg rst e tr d)).
Proof.
  intros HG Hd. unfold nf_step, rnf_step. cbv zeta.
  destruct (rd 2 d) as [[ver d0]| | |] eqn:E1; try (cbn; split; [reflexivity|exact HG]).
  apply rd_ok in E1; [|exact Hd]. destruct E1 as (_ & _ & Hd0).
  destruct (ver =? 5).
  { destruct (decode_v5_body d0); cbn; split; try reflexivity; exact HG. }
  destruct ((ver =? 9) || (ver =? 10)); [|cbn; split; [reflexivity|exact HG]].
  destruct HG as [HT HS].
  pose proof (decode_nf_body_sim (exp_id e) (tstores_get (psT st) (exp_id e)) (rT rst) ver d0 (HT (exp_id e)) Hd0) as Hs.
  cbv zeta in Hs. destruct Hs as (Ho & HR' & Hf).
  destruct (rdecode_nf_body (rT rst) (exp_id e) ver d0) as [ro rs']. cbn [fst snd] in *. subst ro.
  rewrite <- HS.
  destruct (decode_nf_body (tstores_get (psT st) (exp_id e)) ver d0) as [[[p tnf] st'']| | |]; cbn [rmap fst snd].
  - destruct (produce_nf cfg (psS st) (addr_id (eAddr e)) p) as [[ms| | |] ss']; cbn [strip rstrip rmap step_state rstep_state fst snd psT].
    + split; [reflexivity|]. apply G_update with (rst := rst); [split; [exact HT|exact HS]|exact HR'|exact Hf].
    + split; [reflexivity|]. apply G_update with (rst := rst); [split; [exact HT|exact HS]|exact HR'|exact Hf].
    + split; [reflexivity|split; [exact HT|exact HS]].
    + split; [reflexivity|split; [exact HT|exact HS]].
  - cbn [strip rstrip rmap step_state rstep_state fst snd]. split; [reflexivity|].
    apply G_update with (rst := rst); [split; [exact HT|exact HS]|exact HR'|exact Hf].
  - cbn. split; [reflexivity|split; [exact HT|exact HS]].
  - cbn. split; [reflexivity|split; [exact HT|exact HS]].
Qed.

(* ---- histories --------------------------------------------------------------------------------- *)
Fixpoint nf_outs (cfg : prodcfg) (st : pstate) (h : list (exporter * N * bytes)) : list (res (outcome * list msg)) :=
  match h with
  | [] => []
  | (e, tr, d) :: r => let s := nf_step cfg st e tr d in strip s :: nf_outs cfg (step_state st s) r
  end.
Fixpoint rnf_outs (cfg : prodcfg) (st : rpstate) (h : list (exporter * N * bytes)) : list (res (outcome * list msg)) :=
  match h with
  | [] => []
  | (e, tr, d) :: r => let s := rnf_step cfg st e tr d in rstrip s :: rnf_outs cfg (rstep_state st s) r
  end.

Lemma nf_outs_sim cfg h : forall st rst, G st rst -> Forall (fun x => wfb (snd x)) h ->
  nf_outs cfg st h = rnf_outs cfg rst h.
Proof.
  induction h as [|[[e tr] d] r IH]; intros st rst HG Hh; [reflexivity|].
  inversion Hh as [|? ? Hd Hr]; subst. cbn [snd] in Hd. cbn [nf_outs rnf_outs]. cbv zeta.
  destruct (nf_step_sim cfg st rst e tr d HG Hd) as [Ho HG'].
  rewrite Ho. f_equal. apply IH; assumption.
Qed.

Theorem nf_refines_flat_map cfg h :
  Forall (fun x => wfb (snd x)) h -> nf_outs cfg init_pstate h = rnf_outs cfg rinit_pstate h.
Proof. intros Hh. apply nf_outs_sim; [apply G_init|exact Hh]. Qed.

(* what the harness compares (pipe_run) is a function of what the theorem equates (nf_outs) *)
Definition show_out (r : res (outcome * list msg)) : list tok :=
  match r with
  | Ok (o, ms) => show_outcome o :: TN (N.of_nat (length ms)) :: flat_map show_msg ms
  | Err x => [err_tok x]
  | Panic => [TS "panic"%string]
  | OutOfFuel => [TS "fuel"%string]
  end.
Lemma nf_run_outs cfg h : forall st,
  nf_run cfg st h = flat_map (fun o => show_out o ++ [TS "|"%string]) (nf_outs cfg st h).
Proof.
  induction h as [|[[e tr] d] r IH]; intros st; [reflexivity|].
  unfold nf_run in *. cbn [pipe_run nf_outs flat_map pipe_step]. cbv zeta. rewrite IH.
  rewrite <- app_assoc. cbn [app]. f_equal.
  destruct (nf_step cfg st e tr d) as [[[s o] ms]| | |]; reflexivity.
Qed.

Lemma rnf_run_outs cfg h : forall st,
  rnf_run cfg st h = flat_map (fun o => show_out o ++ [TS "|"%string]) (rnf_outs cfg st h).
Proof.
  induction h as [|[[e tr] d] r IH]; intros st; [reflexivity|].
  cbn [rnf_run rnf_outs flat_map]. cbv zeta. unfold rstep_state. rewrite IH.
  rewrite <- app_assoc. cbn [app]. f_equal.
  destruct (rnf_step cfg st e tr d) as [[[s o] ms]| | |]; reflexivity.
Qed.

Theorem nf_run_refines cfg h :
  Forall (fun x => wfb (snd x)) h -> nf_run cfg init_pstate h = rnf_run cfg rinit_pstate h.
Proof. intros Hh. rewrite nf_run_outs, rnf_run_outs, (nf_refines_flat_map cfg h Hh). reflexivity. Qed.

(* the flat map is a map: a lookup returns the latest binding of exactly that tuple *)
Lemma rget_radd s k t k' : rget (radd s k t) k' = if rkey_eqb k k' then Some t else rget s k'.
Proof. reflexivity. Qed.
Lemma rkey_eqb_eq k k' : rkey_eqb k k' = true <-> k = k'.
Proof.
  destruct k as [[[a b] c] d], k' as [[[a' b'] c'] d']. rewrite rkey_eqb_spec.
  split; [intros (-> & -> & -> & ->); reflexivity|intros H; inversion H; auto].
Qed.
