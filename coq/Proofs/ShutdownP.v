(* C18, process level: main.go's shutdown sequence loses nothing the collector has taken in -- for every number of
   receivers and EVERY schedule of readers, workers and the main goroutine. *)
From Coq Require Import List Arith Bool Lia.
From GF Require Import Model.Shutdown.
Import ListNotations.

Definition sumq (l : list rcv) : nat := fold_right (fun r a => rQueued r + a) 0 l.
Definition drained (r : rcv) : Prop := rStopped r = true /\ rQueued r = 0.

Lemma length_upd {A} (l : list A) : forall i x, length (upd l i x) = length l.
Proof. induction l as [|y r IH]; intros i x; [reflexivity|]. destruct i; cbn [upd length]; [reflexivity|rewrite IH; reflexivity]. Qed.
Lemma get_upd_same l : forall i x, i < length l -> get (upd l i x) i = x.
Proof. induction l as [|y r IH]; intros i x H; [cbn in H; lia|]. destruct i; [reflexivity|]. cbn [upd]. unfold get in *. cbn [nth]. apply IH. cbn in H. lia. Qed.
Lemma get_upd_other l : forall i j x, i <> j -> get (upd l i x) j = get l j.
Proof.
  induction l as [|y r IH]; intros i j x H; [reflexivity|]. destruct i, j; try lia; try reflexivity.
  cbn [upd]. unfold get in *. cbn [nth]. apply IH. lia.
Qed.
Lemma sumq_upd l : forall i x, i < length l -> sumq (upd l i x) + rQueued (get l i) = sumq l + rQueued x.
Proof.
  induction l as [|y r IH]; intros i x H; [cbn in H; lia|]. destruct i; cbn [upd sumq fold_right get nth]; [lia|].
  cbn in H. specialize (IH i x ltac:(lia)). unfold sumq, get in IH. lia.
Qed.
Lemma get_beyond l i : length l <= i -> get l i = dflt.
Proof. intros H. unfold get. apply nth_overflow. exact H. Qed.
Lemma sumq_zero l : (forall i, i < length l -> rQueued (get l i) = 0) -> sumq l = 0.
Proof.
  induction l as [|y r IH]; intros H; [reflexivity|]. cbn [sumq fold_right].
  pose proof (H 0 ltac:(cbn; lia)) as H0. cbn in H0. rewrite H0. apply IH. intros i Hi. apply (H (S i)). cbn. lia.
Qed.

Definition Inv (n : nat) (s : sys) : Prop :=
  length (rs s) = n /\ lost s = 0 /\ taken s = written s + sumq (rs s) /\
  ((exists k, k <= n /\ prog s = map MStop (seq k (n - k)) ++ [MClose] /\ outOpen s = true /\
              (forall i, i < k -> drained (get (rs s) i)) /\
              (forall j, k <= j < n -> (j = k /\ inStop s = true) \/ rStopped (get (rs s) j) = false) /\
              (inStop s = true -> k < n /\ rStopped (get (rs s) k) = true))
   \/ (prog s = [] /\ outOpen s = false /\ inStop s = false /\ forall i, i < n -> drained (get (rs s) i))).

Lemma get_repeat x n j : j < n -> get (repeat x n) j = x.
Proof. revert j. induction n as [|n IH]; intros j H; [lia|]. destruct j; [reflexivity|]. unfold get in *. cbn [repeat nth]. apply IH. lia. Qed.

Lemma inv_start n : Inv n (start n (main_prog n)).
Proof.
  unfold Inv, start, main_prog. cbn [rs prog inStop outOpen written lost taken]. rewrite repeat_length.
  split; [reflexivity|]. split; [reflexivity|]. split.
  - induction n as [|n IH]; [reflexivity|]. cbn [repeat sumq fold_right rQueued]. unfold sumq in IH. cbn in IH. lia.
  - left. exists 0. rewrite Nat.sub_0_r. split; [lia|]. split; [reflexivity|]. split; [reflexivity|].
    split; [intros i Hi; lia|]. split; [|discriminate].
    intros j Hj. right. rewrite get_repeat by lia. reflexivity.
Qed.

Lemma seq_S_split k n : k < n -> seq k (n - k) = k :: seq (S k) (n - S k).
Proof. intros H. replace (n - k) with (S (n - S k)) by lia. reflexivity. Qed.

Lemma inv_step n s e : Inv n s -> Inv n (step s e).
Proof.
  intros (Hlen & Hlost & Htak & Hst). destruct e as [i|i|].
  - (* a reader takes a datagram in *)
    cbn [step]. destruct (i <? length (rs s)) eqn:Ei; cbn [andb]; [|repeat split; assumption].
    apply Nat.ltb_lt in Ei. destruct (rStopped (get (rs s) i)) eqn:Es; cbn [negb]; [repeat split; assumption|].
    unfold Inv. cbn [rs prog inStop outOpen written lost taken]. rewrite length_upd.
    split; [exact Hlen|]. split; [exact Hlost|]. split.
    + pose proof (sumq_upd (rs s) i {| rStopped := false; rQueued := S (rQueued (get (rs s) i)) |} Ei) as U. cbn [rQueued] in U. lia.
    + destruct Hst as [(k & Hk & Hp & Ho & Hd & Hu & Hi)|(Hp & Ho & Hi & Hd)].
      * left. exists k. split; [exact Hk|]. split; [exact Hp|]. split; [exact Ho|].
        assert (Hik : ~ i < k) by (intros H; destruct (Hd i H) as [H1 _]; congruence).
        split; [intros j Hj; rewrite get_upd_other by lia; apply Hd; exact Hj|]. split.
        -- intros j Hj. destruct (Nat.eq_dec i j) as [<-|Hne]; [right; rewrite get_upd_same by exact Ei; reflexivity|].
           rewrite get_upd_other by exact Hne. apply Hu. exact Hj.
        -- intros H. destruct (Hi H) as [H1 H2]. split; [exact H1|].
           destruct (Nat.eq_dec i k) as [->|Hne]; [congruence|]. rewrite get_upd_other by exact Hne. exact H2.
      * exfalso. destruct (Hd i ltac:(lia)) as [H1 _]. congruence.
  - (* a worker hands a datagram to the output *)
    cbn [step]. destruct (rQueued (get (rs s) i)) as [|q] eqn:Eq; [repeat split; assumption|].
    assert (Ei : i < length (rs s)).
    { destruct (Nat.lt_ge_cases i (length (rs s))) as [H|H]; [exact H|]. rewrite (get_beyond _ _ H) in Eq. discriminate. }
    destruct Hst as [(k & Hk & Hp & Ho & Hd & Hu & Hi)|(Hp & Ho & Hi & Hd)].
    + unfold Inv. cbn [rs prog inStop outOpen written lost taken]. rewrite length_upd, Ho.
      split; [exact Hlen|]. split; [exact Hlost|]. split.
      * pose proof (sumq_upd (rs s) i {| rStopped := rStopped (get (rs s) i); rQueued := q |} Ei) as U. cbn [rQueued] in U. lia.
      * left. exists k. split; [exact Hk|]. split; [exact Hp|]. split; [reflexivity|].
        assert (Hik : ~ i < k) by (intros H; destruct (Hd i H) as [_ H2]; lia).
        split; [intros j Hj; rewrite get_upd_other by lia; apply Hd; exact Hj|]. split.
        -- intros j Hj. destruct (Nat.eq_dec i j) as [<-|Hne]; [|rewrite get_upd_other by exact Hne; apply Hu; exact Hj].
           rewrite get_upd_same by exact Ei. cbn [rStopped]. apply Hu. exact Hj.
        -- intros H. destruct (Hi H) as [H1 H2]. split; [exact H1|].
           destruct (Nat.eq_dec i k) as [->|Hne]; [rewrite get_upd_same by exact Ei; exact H2|rewrite get_upd_other by exact Hne; exact H2].
    + exfalso. destruct (Hd i ltac:(lia)) as [_ H2]. lia.
  - (* the main goroutine *)
    cbn [step]. destruct Hst as [(k & Hk & Hp & Ho & Hd & Hu & Hi)|(Hp & Ho & Hi & Hd)].
    + destruct (Nat.eq_dec k n) as [->|Hkn].
      * (* every receiver is stopped: close the output *)
        rewrite Hp, Nat.sub_diag. cbn [seq map app].
        unfold Inv. cbn [rs prog inStop outOpen written lost taken].
        split; [exact Hlen|]. split; [exact Hlost|]. split; [exact Htak|]. right.
        split; [reflexivity|]. split; [reflexivity|]. split; [reflexivity|exact Hd].
      * assert (Hlt : k < n) by lia. rewrite Hp, (seq_S_split k n Hlt). cbn [map app].
        destruct (inStop s) eqn:Ein.
        -- destruct (Hi eq_refl) as [_ Hsk].
           destruct (rQueued (get (rs s) k)) eqn:Eq.
           ++ (* Stop returns *)
              unfold Inv. cbn [rs prog inStop outOpen written lost taken].
              split; [exact Hlen|]. split; [exact Hlost|]. split; [exact Htak|]. left. exists (S k).
              split; [lia|]. split; [reflexivity|]. split; [exact Ho|]. split.
              ** intros i Hik. destruct (Nat.eq_dec i k) as [->|Hne]; [split; assumption|apply Hd; lia].
              ** split; [|discriminate]. intros j Hj. destruct (Hu j ltac:(lia)) as [[Hjk _]|H]; [lia|right; exact H].
           ++ (* still draining *)
              unfold Inv. split; [exact Hlen|]. split; [exact Hlost|]. split; [exact Htak|]. left. exists k.
              rewrite Hp, Ein. split; [exact Hk|]. split; [reflexivity|]. split; [exact Ho|]. split; [exact Hd|]. split; [exact Hu|exact Hi].
        -- destruct (Hu k ltac:(lia)) as [[_ H]|Hns]; [congruence|]. rewrite Hns.
           (* Stop begins: the readers leave *)
           unfold Inv. cbn [rs prog inStop outOpen written lost taken]. rewrite length_upd.
           assert (Ek : k < length (rs s)) by lia.
           split; [exact Hlen|]. split; [exact Hlost|]. split.
           ++ pose proof (sumq_upd (rs s) k {| rStopped := true; rQueued := rQueued (get (rs s) k) |} Ek) as U. cbn [rQueued] in U. lia.
           ++ left. exists k. split; [lia|]. split; [rewrite (seq_S_split k n Hlt); reflexivity|]. split; [exact Ho|].
              split; [intros i Hik; rewrite get_upd_other by lia; apply Hd; exact Hik|]. split.
              ** intros j Hj. destruct (Nat.eq_dec j k) as [->|Hne]; [left; split; reflexivity|].
                 right. rewrite get_upd_other by lia. destruct (Hu j Hj) as [[H _]|H]; [lia|exact H].
              ** intros _. split; [exact Hlt|]. rewrite get_upd_same by exact Ek. reflexivity.
    + rewrite Hp. unfold Inv. split; [exact Hlen|]. split; [exact Hlost|]. split; [exact Htak|]. right.
      split; [exact Hp|]. split; [exact Ho|]. split; [exact Hi|exact Hd].
Qed.

Theorem shutdown_loses_nothing n es :
  let s := run (start n (main_prog n)) es in
  lost s = 0 /\ (prog s = [] -> outOpen s = false /\ written s = taken s /\ forall i, i < n -> rQueued (get (rs s) i) = 0).
Proof.
  assert (H : Inv n (run (start n (main_prog n)) es)).
  { unfold run. generalize (inv_start n). generalize (start n (main_prog n)).
    induction es as [|e r IH]; intros s Hs; [exact Hs|]. cbn [fold_left]. apply IH. apply inv_step. exact Hs. }
  cbv zeta. destruct H as (Hlen & Hlost & Htak & Hst). split; [exact Hlost|]. intros Hp.
  destruct Hst as [(k & _ & Hpk & _)|(_ & Ho & _ & Hd)].
  - rewrite Hp in Hpk. destruct (map MStop (seq k (n - k))); discriminate.
  - split; [exact Ho|]. split.
    + rewrite Htak, sumq_zero; [lia|]. intros i Hi. apply Hd. lia.
    + intros i Hi. apply Hd. exact Hi.
Qed.

(* seed C18-7 (only the last receiver is ever stopped): two receivers, one datagram taken in by the first, a schedule on
   which the output is closed before its worker runs *)
Lemma closure_prog_loses :
  lost (run (start 2 (closure_prog 2)) [EIntake 0; EMain; EMain; EMain; EMain; EWork 0]) = 1.
Proof. reflexivity. Qed.

(* ---- "... and exit": the main goroutine can always run to its end ---- *)
Definition same_ctl (s s' : sys) (k : nat) : Prop :=
  prog s' = prog s /\ inStop s' = inStop s /\ rStopped (get (rs s') k) = rStopped (get (rs s) k) /\ outOpen s' = outOpen s.

(* the workers of receiver k drain its queue: q hand-overs *)
Lemma drain n k : forall q s, Inv n s -> k < n -> rQueued (get (rs s) k) = q ->
  Inv n (run s (repeat (EWork k) q)) /\ rQueued (get (rs (run s (repeat (EWork k) q))) k) = 0 /\
  same_ctl s (run s (repeat (EWork k) q)) k.
Proof.
  unfold run, same_ctl. induction q as [|q IH]; intros s HI Hk Hq; cbn [repeat fold_left].
  - split; [exact HI|]. split; [exact Hq|]. split; [reflexivity|]. split; [reflexivity|]. split; reflexivity.
  - assert (Hlen : length (rs s) = n) by (destruct HI as (H & _); exact H).
    pose proof (inv_step n s (EWork k) HI) as HI1.
    assert (E : step s (EWork k) = {| rs := upd (rs s) k {| rStopped := rStopped (get (rs s) k); rQueued := q |}; prog := prog s; inStop := inStop s;
             outOpen := outOpen s; written := if outOpen s then S (written s) else written s;
             lost := if outOpen s then lost s else S (lost s); taken := taken s |}) by (cbn [step]; rewrite Hq; reflexivity).
    assert (Hq1 : rQueued (get (rs (step s (EWork k))) k) = q) by (rewrite E; cbn [rs]; rewrite get_upd_same by lia; reflexivity).
    destruct (IH (step s (EWork k)) HI1 Hk Hq1) as (A & B & C & D & F & G).
    split; [exact A|]. split; [exact B|]. rewrite C, D, F, G, E. cbn [prog inStop rs outOpen]. rewrite get_upd_same by lia. cbn [rStopped].
    repeat split; reflexivity.
Qed.

Definition measure (s : sys) : nat := 2 * length (prog s) + (if inStop s then 0 else 1).

Lemma run_app s a b : run s (a ++ b) = run (run s a) b.
Proof. unfold run. apply fold_left_app. Qed.

Lemma phase n s : Inv n s -> prog s <> [] -> exists es, Inv n (run s es) /\ measure (run s es) < measure s.
Proof.
  intros HI Hne. pose proof HI as (Hlen & Hlost & Htak & [(k & Hk & Hp & Ho & Hd & Hu & Hi)|(Hp & _)]); [|congruence].
  destruct (Nat.eq_dec k n) as [->|Hkn].
  - exists [EMain]. split; [apply inv_step; exact HI|].
    rewrite Nat.sub_diag in Hp. cbn [seq map app] in Hp.
    assert (E1 : step s EMain = {| rs := rs s; prog := []; inStop := false; outOpen := false; written := written s; lost := lost s; taken := taken s |})
      by (cbn [step]; rewrite Hp; reflexivity).
    unfold run. cbn [fold_left]. rewrite E1. unfold measure. rewrite Hp. cbn [prog inStop length]. destruct (inStop s); lia.
  - assert (Hlt : k < n) by lia. rewrite (seq_S_split k n Hlt) in Hp. cbn [map app] in Hp.
    destruct (inStop s) eqn:Ein.
    + (* inside Stop: let the workers drain the queue, then Stop returns *)
      destruct (drain n k (rQueued (get (rs s) k)) s HI Hlt eq_refl) as (HI1 & Hq0 & Hp1 & Hin1 & _ & _).
      exists (repeat (EWork k) (rQueued (get (rs s) k)) ++ [EMain]). rewrite run_app.
      set (s1 := run s (repeat (EWork k) (rQueued (get (rs s) k)))) in *.
      split; [unfold run; cbn [fold_left]; apply inv_step; exact HI1|].
      assert (M0 : measure s = 2 * S (length (map MStop (seq (S k) (n - S k)) ++ [MClose]))) by (unfold measure; rewrite Hp, Ein; cbn [length]; lia).
      assert (E1 : step s1 EMain = {| rs := rs s1; prog := map MStop (seq (S k) (n - S k)) ++ [MClose]; inStop := false;
                                      outOpen := outOpen s1; written := written s1; lost := lost s1; taken := taken s1 |})
        by (cbn [step]; rewrite Hp1, Hp, Hin1, Ein, Hq0; reflexivity).
      unfold run at 1. cbn [fold_left]. rewrite E1, M0. unfold measure. cbn [prog inStop]. lia.
    + (* Stop begins *)
      destruct (Hu k ltac:(lia)) as [[_ H]|Hns]; [congruence|].
      exists [EMain]. split; [apply inv_step; exact HI|].
      assert (M0 : measure s = 2 * length (prog s) + 1) by (unfold measure; rewrite Ein; reflexivity).
      assert (E1 : step s EMain = {| rs := upd (rs s) k {| rStopped := true; rQueued := rQueued (get (rs s) k) |}; prog := prog s; inStop := true;
                                     outOpen := outOpen s; written := written s; lost := lost s; taken := taken s |})
        by (cbn [step]; rewrite Hp, Ein, Hns; reflexivity).
      unfold run. cbn [fold_left]. rewrite E1, M0. unfold measure. cbn [prog inStop]. lia.
Qed.

(* "... and exit": from every state the collector can reach after SIGTERM, whatever has been taken in, a schedule on
   which the workers drain their queues lets the main goroutine run to its end (Stop is never stuck for good) *)
Theorem shutdown_can_finish n es : exists es', prog (run (run (start n (main_prog n)) es) es') = [].
Proof.
  assert (H : Inv n (run (start n (main_prog n)) es)).
  { unfold run. generalize (inv_start n). generalize (start n (main_prog n)).
    induction es as [|e r IH]; intros s Hs; [exact Hs|]. cbn [fold_left]. apply IH. apply inv_step. exact Hs. }
  revert H. generalize (run (start n (main_prog n)) es). intros s.
  remember (measure s) as m eqn:Em. revert s Em. induction m as [m IH] using lt_wf_ind. intros s Em HI.
  destruct (prog s) eqn:Ep.
  - exists []. exact Ep.
  - destruct (phase n s HI ltac:(congruence)) as (es1 & HI1 & Hm).
    destruct (IH (measure (run s es1)) ltac:(lia) (run s es1) eq_refl HI1) as (es2 & H2).
    exists (es1 ++ es2). rewrite run_app. exact H2.
Qed.
