From Coq Require Import List NArith ZArith Lia ZifyN ZifyNat ZifyBool Bool.
From GF Require Import Base.Res Base.Bytes Base.Layout Model.NFv5 Spec.EncNFv5 Proofs.BytesL Proofs.LayoutL.
Import ListNotations.
Open Scope N_scope.

Lemma v5_rec_len r : wf_v5_rec r = true -> length (encode_v5_rec r) = 48%nat.
Proof. intros H. unfold encode_v5_rec. rewrite enc_fields_len by assumption. reflexivity. Qed.

Lemma v5_loop_enc : forall c rs part,
  forallb wf_v5_rec rs = true -> (length part < 48)%nat ->
  v5_loop c (concat (map encode_v5_rec rs) ++ part) = Ok (firstn c rs).
Proof.
  induction c as [|c IH]; intros rs part Hrs Hp; [reflexivity|].
  destruct rs as [|r rs]; cbn [v5_loop map concat firstn].
  - simpl app. replace (Nat.leb 48 (length part)) with false; auto.
    symmetry. apply Nat.leb_gt. lia.
  - cbn [forallb] in Hrs. apply andb_prop in Hrs. destruct Hrs as [Hr Hrs].
    replace (Nat.leb 48 _) with true
      by (symmetry; apply Nat.leb_le; rewrite !app_length, v5_rec_len by assumption; lia).
    rewrite <- app_assoc. unfold encode_v5_rec at 1.
    rewrite rd_fields_enc by assumption.
    rewrite IH by assumption. reflexivity.
Qed.

Lemma decode_v5_enc h rs part :
  wf_v5_hdr h = true -> forallb wf_v5_rec rs = true -> (length part < 48)%nat ->
  decode_v5 (encode_v5 h rs ++ part) = Ok (h, firstn (N.to_nat (v5_count h)) rs).
Proof.
  intros Hh Hrs Hp. unfold decode_v5, encode_v5.
  rewrite <- !app_assoc. rewrite rd_enc by (simpl; lia).
  cbn [N.eqb Pos.eqb]. unfold decode_v5_body.
  rewrite rd_fields_enc by assumption.
  rewrite v5_loop_enc by assumption. reflexivity.
Qed.

Lemma c05_roundtrip_l h rs :
  wf_v5_hdr h = true -> forallb wf_v5_rec rs = true -> v5_count h = N.of_nat (length rs) ->
  decode_v5 (encode_v5 h rs) = Ok (h, rs).
Proof.
  intros Hh Hrs Hc. rewrite <- (app_nil_r (encode_v5 h rs)).
  rewrite decode_v5_enc by (auto; simpl; lia).
  rewrite Hc, Nat2N.id, firstn_all. reflexivity.
Qed.

Lemma c05_present_only_l h rs part :
  wf_v5_hdr h = true -> forallb wf_v5_rec rs = true -> (length part < 48)%nat ->
  exists out, decode_v5 (encode_v5 h rs ++ part) = Ok (h, out) /\
              out = firstn (Nat.min (N.to_nat (v5_count h)) (length rs)) rs /\
              length out = Nat.min (N.to_nat (v5_count h)) (length rs).
Proof.
  intros Hh Hrs Hp. rewrite decode_v5_enc by assumption.
  eexists; split; [reflexivity|]. split.
  - destruct (Nat.le_ge_cases (N.to_nat (v5_count h)) (length rs)) as [H|H].
    + rewrite Nat.min_l by assumption. reflexivity.
    + rewrite Nat.min_r by assumption. rewrite !firstn_all2; auto.
  - rewrite firstn_length. reflexivity.
Qed.

(* every byte string: what is decoded is physically there *)
Lemma v5_loop_ok : forall c d rs, wfb d -> v5_loop c d = Ok rs ->
  exists tail, d = concat (map encode_v5_rec rs) ++ tail /\ (length rs <= c)%nat /\
               forallb wf_v5_rec rs = true.
Proof.
  induction c as [|c IH]; intros d rs Hd H; cbn [v5_loop] in H.
  - inversion H; subst. exists d. simpl. auto.
  - destruct (Nat.leb 48 (length d)); [|inversion H; subst; exists d; simpl; split; auto; split; [lia|auto]].
    destruct (rd_fields v5_rec_ws d) as [[r d1]| | |] eqn:E1; try discriminate.
    destruct (v5_loop c d1) as [rs'| | |] eqn:E2; try discriminate.
    inversion H; subst. apply rd_fields_ok in E1; auto. destruct E1 as (-> & Hf & Hd1).
    apply IH in E2; auto. destruct E2 as (tail & -> & Hl & Hw).
    exists tail. cbn [map concat length forallb]. rewrite <- app_assoc.
    split; [reflexivity|]. split; [lia|]. unfold wf_v5_rec at 1. rewrite Hf. assumption.
Qed.

Lemma c05_nothing_else_l d h rs : wfb d -> decode_v5 d = Ok (h, rs) ->
  exists tail, d = encode_v5 h rs ++ tail /\ (length rs <= N.to_nat (v5_count h))%nat /\
               (48 * length rs + 24 <= length d)%nat.
Proof.
  intros Hd H. unfold decode_v5 in H.
  destruct (rd 2 d) as [[v d0]| | |] eqn:E0; try discriminate.
  destruct (v =? 5) eqn:Ev; [|discriminate]. apply N.eqb_eq in Ev. subst v.
  apply rd_ok in E0; auto. destruct E0 as (-> & _ & Hd0).
  unfold decode_v5_body in H.
  destruct (rd_fields v5_hdr_ws d0) as [[h' d1]| | |] eqn:E1; try discriminate.
  destruct (v5_loop _ d1) as [rs'| | |] eqn:E2; try discriminate.
  inversion H; subst. apply rd_fields_ok in E1; auto. destruct E1 as (-> & Hf & Hd1).
  apply v5_loop_ok in E2; auto. destruct E2 as (tail & -> & Hl & Hw).
  exists tail. unfold encode_v5. rewrite <- !app_assoc. split; [reflexivity|]. split; [assumption|].
  rewrite !app_length, enc_be_len, enc_fields_len by assumption.
  assert (Hc : length (concat (map encode_v5_rec rs)) = (48 * length rs)%nat).
  { clear -Hw. induction rs as [|r rs IH]; [reflexivity|]. cbn [forallb] in Hw.
    apply andb_prop in Hw. destruct Hw as [Hr Hw]. cbn [map concat length].
    rewrite app_length, v5_rec_len, IH by assumption. lia. }
  rewrite Hc. simpl sum_ws. lia.
Qed.

Lemma v5_loop_total : forall c d, (exists rs, v5_loop c d = Ok rs) \/ v5_loop c d = Err EShort.
Proof.
  induction c as [|c IH]; intros d; cbn [v5_loop]; eauto.
  destruct (Nat.leb 48 (length d)); eauto.
  destruct (rd_fields_cases v5_rec_ws d) as [(vs & r & ->)| ->]; auto.
  destruct (IH r) as [(rs & ->)| ->]; eauto.
Qed.

Lemma decode_v5_total d : returns (decode_v5 d).
Proof.
  unfold decode_v5.
  destruct (rd_cases 2 d) as [(v & r & ->)| ->]; [|apply returns_err].
  destruct (v =? 5); [|apply returns_err]. unfold decode_v5_body.
  destruct (rd_fields_cases v5_hdr_ws r) as [(vs & r' & ->)| ->]; [|apply returns_err].
  destruct (v5_loop_total (N.to_nat (v5_count vs)) r') as [(rs & ->)| ->];
    [apply returns_ok|apply returns_err].
Qed.
