(* C11 over histories: the rate on every v9 / IPFIX message is [latest] of the announcements made so
   far (the datagram's own included), under the key read from the datagram's bytes. *)
From Coq Require Import List NArith Bool Lia.
From GF Require Import Base.Res Base.Bytes Base.Layout Model.NFv5 Model.NF Model.Msg Model.ProdNF Model.Pipe Spec.RefRate Proofs.PipeP.
Import ListNotations.
Open Scope N_scope.

Definition upd (k : skey) (cur : N) (a : skey * N) : N := if skey_eqb (fst a) k then snd a else cur.

Lemma latest_from_fold base l k : latest_from base l k = fold_left (upd k) l (base k).
Proof. reflexivity. Qed.

Lemma rate_of_cons a ss k : rate_of (a :: ss) k = upd k (rate_of ss k) a.
Proof. destruct a as [k' v]. unfold rate_of, upd. rewrite sstore_get_cons. cbn [fst snd]. destruct (skey_eqb k' k); reflexivity. Qed.

(* whether production succeeds does not depend on the sampling store, and the store afterwards is the
   store before plus the announcement *)
Lemma produce_nf_store cfg ss ip p :
  snd (produce_nf cfg ss ip p) =
  match fst (produce_nf cfg [] ip p), find_sampling (optdata_records (pSets p)) 0 with
  | Ok _, Ok (true, r) => ((ip, pVer p, nf_dom (pVer p) (pHdr p)), r) :: ss
  | _, _ => ss
  end.
Proof.
  unfold produce_nf. destruct (convert_recs _ _ _ _ _); try reflexivity.
  destruct (find_sampling _ 0) as [[[] r]| | |]; reflexivity.
Qed.

Lemma produce_nf_ok_indep cfg ss ip p ms ss' :
  produce_nf cfg ss ip p = (Ok ms, ss') -> exists ms0, fst (produce_nf cfg [] ip p) = Ok ms0.
Proof.
  unfold produce_nf. destruct (convert_recs _ _ _ _ _); try (intros H; inversion H; fail).
  destruct (find_sampling _ 0) as [[found r]| | |]; try (intros H; inversion H; fail).
  intros _. eexists. reflexivity.
Qed.

Lemma decode_nf_body_hdr ts ver d0 p tnf s1 :
  decode_nf_body ts ver d0 = Ok (p, tnf, s1) ->
  pVer p = ver /\ exists d1, rd_fields (if ver =? 9 then v9_hdr_ws else ipfix_hdr_ws) d0 = Ok (pHdr p, d1).
Proof.
  unfold decode_nf_body. destruct (rd_fields _ d0) as [[h d1]| | |]; try (intros H; inversion H; fail).
  destruct (dec_common _ _ _ _ _ _ _ _) as [[[fss t] st']| | |]; try (intros H; inversion H; fail).
  intros H. inversion H; subst. cbn [pVer pHdr]. split; [reflexivity|]. exists d1. reflexivity.
Qed.

(* one DecodeFlow call changes the sampling store by exactly the datagram's announcement *)
Lemma nf_step_store cfg st e tr d :
  psS (step_state st (nf_step cfg st e tr d)) =
  match announces cfg st e d with Some a => a :: psS st | None => psS st end.
Proof.
  unfold nf_step, announces.
  destruct (rd 2 d) as [[ver d0]| | |]; try reflexivity.
  destruct (ver =? 5) eqn:E5.
  { apply N.eqb_eq in E5. subst ver. cbn [N.eqb Pos.eqb orb].
    destruct (decode_v5_body d0); reflexivity. }
  destruct ((ver =? 9) || (ver =? 10)) eqn:E9; [|reflexivity].
  destruct (decode_nf_body _ ver d0) as [[[p tnf] s1]| | |] eqn:Ed; try reflexivity.
  destruct (decode_nf_body_hdr _ _ _ _ _ _ Ed) as (Hv & _).
  pose proof (produce_nf_store cfg (psS st) (addr_id (eAddr e)) p) as Hs.
  destruct (produce_nf cfg (psS st) (addr_id (eAddr e)) p) as [r ss'] eqn:Ep. cbn [snd] in Hs.
  rewrite Hv in Hs.
  destruct r as [ms| | |].
  - cbn [step_state psS]. rewrite Hs.
    destruct (fst (produce_nf cfg [] (addr_id (eAddr e)) p)); try reflexivity.
    destruct (find_sampling _ 0) as [[[] r]| | |]; reflexivity.
  - cbn [step_state psS]. rewrite Hs.
    destruct (fst (produce_nf cfg [] (addr_id (eAddr e)) p)); try reflexivity.
    destruct (find_sampling _ 0) as [[[] r]| | |]; reflexivity.
  - cbn [step_state].
    (* a panicking production leaves the state alone; then production panics for the empty store too *)
    revert Ep Hs. unfold produce_nf. destruct (convert_recs _ _ _ _ _); cbn [fst]; intros Ep Hs;
      try (destruct (find_sampling _ 0) as [[[] r]| | |]; inversion Ep; reflexivity); try reflexivity.
  - cbn [step_state].
    revert Ep Hs. unfold produce_nf. destruct (convert_recs _ _ _ _ _); cbn [fst]; intros Ep Hs;
      try (destruct (find_sampling _ 0) as [[[] r]| | |]; inversion Ep; reflexivity); try reflexivity.
Qed.

Lemma anns_app cfg h1 : forall st h2,
  anns cfg st (h1 ++ h2) = anns cfg st h1 ++ anns cfg (nf_after cfg st h1) h2.
Proof.
  induction h1 as [|[[e tr] d] r IH]; intros st h2; [reflexivity|].
  cbn [app anns nf_after]. rewrite IH, app_assoc. reflexivity.
Qed.

(* the invariant: after any history the stored rate under every key is the latest announcement *)
Lemma store_is_latest cfg h : forall st k,
  rate_of (psS (nf_after cfg st h)) k = latest_from (rate_of (psS st)) (anns cfg st h) k.
Proof.
  induction h as [|[[e tr] d] r IH]; intros st k; [reflexivity|].
  cbn [nf_after anns]. rewrite IH, !latest_from_fold, fold_left_app. f_equal.
  rewrite nf_step_store. destruct (announces cfg st e d) as [a|]; [|reflexivity].
  cbn [fold_left]. apply rate_of_cons.
Qed.

Lemma skey_eqb_refl k : skey_eqb k k = true.
Proof. apply skey_eqb_eq. reflexivity. Qed.

(* the sampling-rate column of every message of one DecodeFlow call, as a column (not only its value):
   the datagram's own announcement if it makes one, else the stored rate under its key *)
Lemma produce_nf_rate_col cfg ss ip p ms ss' :
  produce_nf cfg ss ip p = (Ok ms, ss') ->
  exists found rate,
    find_sampling (optdata_records (pSets p)) 0 = Ok (found, rate) /\
    Forall (fun m => alookup (cols m) cSamplingRate =
                     Some (VI (if found then rate else rate_of ss (ip, pVer p, nf_dom (pVer p) (pHdr p))))) ms.
Proof.
  unfold produce_nf. intros H.
  destruct (convert_recs _ _ _ _ _) as [ms0| | |]; try (inversion H; fail).
  destruct (find_sampling _ 0) as [[found rate]| | |]; try (inversion H; fail).
  inversion H; subst; clear H. exists found, rate. split; [reflexivity|].
  apply Forall_forall. intros m Hm. apply in_map_iff in Hm. destruct Hm as (m0 & <- & _).
  unfold msetI, mset, cols, cObsDomain, cSamplingRate, cSeq. cbn [alookup N.eqb Pos.eqb].
  unfold rate_of. destruct found; reflexivity.
Qed.

Lemma step_rate_exact cfg st e tr d st' o ms k :
  dgram_key e d = Some k ->
  nf_step cfg st e tr d = Ok (st', o, ms) ->
  Forall (fun m => alookup (cols m) cSamplingRate =
                   Some (VI (match announces cfg st e d with
                             | Some a => upd k (rate_of (psS st) k) a
                             | None => rate_of (psS st) k end))) ms.
Proof.
  intros Hk Hs.
  unfold dgram_key in Hk. unfold announces.
  destruct (rd 2 d) as [[ver d0]| | |] eqn:Hr; try discriminate.
  destruct ((ver =? 9) || (ver =? 10)) eqn:E9; [|discriminate].
  assert (E5 : (ver =? 5) = false).
  { apply orb_prop in E9. destruct E9 as [E|E]; apply N.eqb_eq in E; subst; reflexivity. }
  destruct (rd_fields _ d0) as [[h0 d1]| | |] eqn:Hh; try discriminate.
  inversion Hk; subst k; clear Hk.
  unfold nf_step in Hs. rewrite Hr, E5, E9 in Hs.
  destruct (decode_nf_body (tstores_get (psT st) (exp_id e)) ver d0) as [[[p tnf] s1]| | |] eqn:Ed;
    try discriminate; [|inversion Hs; constructor].
  destruct (decode_nf_body_hdr _ _ _ _ _ _ Ed) as (Hv & d1' & Hh'). rewrite Hh in Hh'. inversion Hh'; subst h0 d1'.
  destruct (produce_nf cfg (psS st) (addr_id (eAddr e)) p) as [[ms0| | |] ss'] eqn:Ep;
    try discriminate; [|inversion Hs; constructor].
  inversion Hs; subst st' o ms; clear Hs.
  destruct (produce_nf_rate_col _ _ _ _ _ _ Ep) as (found & rate & Hf & Hall).
  destruct (produce_nf_ok_indep _ _ _ _ _ _ Ep) as (ms1 & Hok). rewrite Hok, Hf. rewrite Hv in Hall.
  apply Forall_forall. intros m Hm. apply in_map_iff in Hm. destruct Hm as (m0 & <- & Hin).
  rewrite Forall_forall in Hall. specialize (Hall m0 Hin).
  unfold stamp_nf, msetB, msetI, mset. cbn [cols]. unfold cSamplerAddr, cTimeRecv, cSamplingRate in *.
  cbn [alookup N.eqb Pos.eqb]. rewrite Hall.
  destruct found; [|reflexivity].
  unfold upd. cbn [fst snd]. rewrite skey_eqb_refl. reflexivity.
Qed.

Lemma mgetI_of_col m c v : alookup (cols m) c = Some (VI v) -> mgetI m c = v.
Proof. unfold mgetI. intros ->. reflexivity. Qed.

Theorem rate_history cfg h e tr d st' o ms k :
  dgram_key e d = Some k ->
  nf_step cfg (nf_after cfg init_pstate h) e tr d = Ok (st', o, ms) ->
  Forall (fun m => mgetI m cSamplingRate = latest (anns cfg init_pstate (h ++ [(e, tr, d)])) k) ms.
Proof.
  intros Hk Hs. set (st := nf_after cfg init_pstate h) in *.
  rewrite anns_app. fold st. cbn [anns]. rewrite app_nil_r.
  unfold latest. rewrite latest_from_fold, fold_left_app.
  pose proof (store_is_latest cfg h init_pstate k) as Hinv. fold st in Hinv.
  rewrite latest_from_fold in Hinv. change (rate_of (psS init_pstate) k) with 0 in Hinv. rewrite <- Hinv.
  pose proof (step_rate_exact _ _ _ _ _ _ _ _ _ Hk Hs) as Hall.
  eapply Forall_impl; [|exact Hall]. intros m Hm. cbv beta in Hm.
  apply mgetI_of_col in Hm. rewrite Hm.
  destruct (announces cfg st e d); reflexivity.
Qed.

(* ---- the expected outputs of the C11 check are the model pipe's ---- *)
Lemma show_msg_set_rate m r :
  alookup (cols m) cSamplingRate = Some (VI r) -> show_msg (msetI m cSamplingRate r) = show_msg m.
Proof.
  intros H. unfold show_msg. f_equal. f_equal.
  apply flat_map_ext. intros k. unfold show_col, msetI, mset, cols at 1. cbn [alookup].
  destruct (cSamplingRate =? k) eqn:E; [|reflexivity].
  apply N.eqb_eq in E. subst k. rewrite H. reflexivity.
Qed.
Lemma latest_snoc_opt seen (a : option (skey * N)) k :
  latest (seen ++ match a with Some x => [x] | None => [] end) k =
  match a with Some x => upd k (latest seen k) x | None => latest seen k end.
Proof.
  unfold latest. rewrite !latest_from_fold, fold_left_app. destruct a; reflexivity.
Qed.

Theorem rate_run_is_pipe_run cfg h : forall st seen,
  (forall k, latest seen k = rate_of (psS st) k) ->
  rate_run cfg st seen h = nf_run cfg st h.
Proof.
  induction h as [|[[e tr] d] r IH]; intros st seen Hinv; [reflexivity|].
  unfold nf_run in *. cbn [rate_run pipe_run pipe_step].
  f_equal.
  - (* this step shows the same *)
    destruct (nf_step cfg st e tr d) as [[[st' o] ms]| | |] eqn:Hs; try reflexivity.
    unfold show_step. f_equal. f_equal; [rewrite map_length; reflexivity|].
    destruct (dgram_key e d) as [k|] eqn:Hk; [|rewrite map_id; reflexivity].
    pose proof (step_rate_exact _ _ _ _ _ _ _ _ _ Hk Hs) as Hall.
    rewrite latest_snoc_opt, Hinv.
    clear Hs. induction Hall as [|m ms Hm _ IHm]; [reflexivity|].
    cbn [map flat_map]. f_equal; [apply show_msg_set_rate; exact Hm | exact IHm].
  - f_equal. apply IH. intros k.
    rewrite latest_snoc_opt, nf_step_store, Hinv.
    destruct (announces cfg st e d) as [a|]; [|reflexivity].
    symmetry. apply rate_of_cons.
Qed.

(* announcements under another key are irrelevant: removing them from the history of announcements
   changes nothing for this key *)
Lemma latest_other l1 l2 a k :
  skey_eqb (fst a) k = false -> latest (l1 ++ a :: l2) k = latest (l1 ++ l2) k.
Proof.
  intros H. unfold latest. rewrite !latest_from_fold, !fold_left_app. cbn [fold_left]. unfold upd at 2. rewrite H. reflexivity.
Qed.

Lemma latest_last l a : latest (l ++ [a]) (fst a) = snd a.
Proof.
  unfold latest. rewrite latest_from_fold, fold_left_app. cbn [fold_left]. unfold upd. rewrite skey_eqb_refl. reflexivity.
Qed.

Lemma latest_none k : latest [] k = 0.
Proof. reflexivity. Qed.

(* the port of the exporter plays no part in the key *)
Lemma dgram_key_port a p1 p2 d :
  dgram_key {| eAddr := a; ePort := p1 |} d = dgram_key {| eAddr := a; ePort := p2 |} d.
Proof. reflexivity. Qed.

(* ---- C07 over histories: one message per data record, in wire order ---- *)
Lemma convert_recs_forall2 cfg ver base up : forall rs ms,
  convert_recs cfg ver base up rs = Ok ms -> Forall2 (fun r m => convert_nf cfg ver base up r = Ok m) rs ms.
Proof.
  induction rs as [|r rs IH]; intros ms H; cbn [convert_recs] in H.
  - inversion H. constructor.
  - destruct (convert_nf cfg ver base up r) as [m| | |] eqn:E; try discriminate.
    destruct (convert_recs cfg ver base up rs) as [ms0| | |]; try discriminate.
    inversion H; subst. constructor; [exact E|apply IH; reflexivity].
Qed.

(* the i-th message of a datagram is the conversion of its i-th data record (in the order the sets and their records
   stand in the datagram), stamped with the packet-level columns *)
Theorem step_messages_in_order cfg h e tr d st' o ms ver d0 p tnf s1 :
  let st := nf_after cfg init_pstate h in
  rd 2 d = Ok (ver, d0) -> (ver =? 5) = false -> (ver =? 9) || (ver =? 10) = true ->
  decode_nf_body (tstores_get (psT st) (exp_id e)) ver d0 = Ok (p, tnf, s1) ->
  nf_step cfg st e tr d = Ok (st', o, ms) ->
  ms = [] \/
  exists base up ms0 f,
    Forall2 (fun r m => convert_nf cfg (pVer p) base up r = Ok m) (data_records (pSets p)) ms0 /\ ms = map f ms0.
Proof.
  intros st Hr H5 H9 Hd Hs. unfold nf_step in Hs. fold st in Hs. rewrite Hr, H5, H9, Hd in Hs.
  destruct (produce_nf cfg (psS st) (addr_id (eAddr e)) p) as [[ms1| | |] ss'] eqn:Ep; try discriminate.
  - right. inversion Hs; subst; clear Hs. unfold produce_nf in Ep.
    set (base := if pVer p =? 9 then nth 2 (pHdr p) 0 else nth 1 (pHdr p) 0) in *.
    set (up := if pVer p =? 9 then nth 1 (pHdr p) 0 else 0) in *.
    destruct (convert_recs cfg (pVer p) base up (data_records (pSets p))) as [ms0| | |] eqn:Ec; try (inversion Ep; fail).
    destruct (find_sampling (optdata_records (pSets p)) 0) as [[found rate]| | |]; try (inversion Ep; fail).
    inversion Ep; subst; clear Ep.
    exists base, up, ms0. eexists. split; [apply convert_recs_forall2; exact Ec|]. rewrite map_map. reflexivity.
  - left. inversion Hs. reflexivity.
Qed.
