(* C04: decode_sf (encode_sf p) = Ok p for EVERY well-formed abstract datagram p. *)
From Coq Require Import String NArith ZArith List Bool Arith Lia ZifyN ZifyNat ZifyBool.
From GF Require Import Base.Res Base.Bytes Base.Layout Model.SFlow Spec.EncSFlow Spec.WfSFlow
  Proofs.BytesL Proofs.LayoutL Proofs.PacketP.
Import ListNotations.
Open Scope N_scope.

Ltac bools := repeat match goal with
  | H : _ && _ = true |- _ => apply andb_prop in H; destruct H
  | H : u32 _ = true |- _ => unfold u32 in H
  | H : (_ <? _) = true |- _ => apply N.ltb_lt in H
  | H : (_ =? _) = true |- _ => apply N.eqb_eq in H
  | H : (_ <=? _) = true |- _ => apply N.leb_le in H
  | H : Nat.eqb _ _ = true |- _ => apply Nat.eqb_eq in H
  | H : negb _ = true |- _ => apply negb_true_iff in H
  end.

Lemma all32_cons x l : all32 (x :: l) = true -> x < 4294967296 /\ all32 l = true.
Proof. unfold all32. cbn [forallb]. intros H. apply andb_prop in H. destruct H as [H1 H2]. apply N.ltb_lt in H1. auto. Qed.

Lemma e4s_cons x l : e4s (x :: l) = e4 x ++ e4s l.
Proof. reflexivity. Qed.
Lemma e4s_nil : e4s [] = [].
Proof. reflexivity. Qed.
Lemma e4s_len l : length (e4s l) = (4 * length l)%nat.
Proof. induction l as [|x r IH]; [reflexivity|]. rewrite e4s_cons, app_length, e4_len, IH. cbn [length]. lia. Qed.

(* a run of 32-bit words, read through a fixed layout or as a slice *)
Lemma rd_fields_u32s l : forall rest, all32 l = true -> rd_fields (u32s (length l)) (e4s l ++ rest) = Ok (l, rest).
Proof.
  induction l as [|x r IH]; intros rest H; [reflexivity|].
  apply all32_cons in H. destruct H as [Hx Hr].
  cbn [length u32s repeat rd_fields]. rewrite e4s_cons, <- app_assoc, rd4_e4 by exact Hx.
  fold (u32s (length r)). rewrite IH by exact Hr. reflexivity.
Qed.

Lemma rd_u32s_enc l : forall rest, all32 l = true -> rd_u32s (length l) (e4s l ++ rest) = Ok (l, rest).
Proof.
  induction l as [|x r IH]; intros rest H; [reflexivity|].
  apply all32_cons in H. destruct H as [Hx Hr].
  cbn [length rd_u32s]. rewrite e4s_cons, <- app_assoc, rd4_e4 by exact Hx. rewrite IH by exact Hr. reflexivity.
Qed.

Lemma rd_u32_slice_enc l rest : all32 l = true -> rd_u32_slice (length l) (e4s l ++ rest) = Ok (l, rest).
Proof.
  intros H. unfold rd_u32_slice.
  replace (Nat.leb (4 * length l) (length (e4s l ++ rest))) with true
    by (symmetry; apply Nat.leb_le; rewrite app_length, e4s_len; lia).
  apply rd_u32s_enc. exact H.
Qed.

Lemma dec_ip_enc v ip rest : is_ip v ip = true -> dec_ip (e4 v ++ ip ++ rest) = Ok (v, ip, rest).
Proof.
  unfold is_ip, dec_ip. intros H. apply orb_prop in H. destruct H as [H|H]; bools; subst v.
  - rewrite rd4_e4 by lia. cbn [N.eqb Pos.eqb].
    replace (Nat.leb 4 (length (ip ++ rest))) with true by (symmetry; apply Nat.leb_le; rewrite app_length; lia).
    rewrite read_app by assumption. reflexivity.
  - rewrite rd4_e4 by lia. cbn [N.eqb Pos.eqb].
    replace (Nat.leb 16 (length (ip ++ rest))) with true by (symmetry; apply Nat.leb_le; rewrite app_length; lia).
    rewrite read_app by assumption. reflexivity.
Qed.

Lemma rd4_e4_nil x : x < 4294967296 -> rd 4 (e4 x) = Ok (x, []).
Proof. intros H. rewrite <- (app_nil_r (e4 x)). apply rd4_e4. exact H. Qed.

Lemma srec_eta r : r = mkrec (rFmt r) (rLen r) (rKind r) (rVals r) (rBlobs r) (rLists r).
Proof. destruct r; reflexivity. Qed.

Ltac all32s := repeat match goal with
  | H : all32 (_ :: _) = true |- _ => apply all32_cons in H; destruct H
  | H : all32 [] = true |- _ => clear H
  end.
Ltac mk32 := unfold all32, u32; cbn [forallb]; repeat (apply andb_true_intro; split); try reflexivity; apply N.ltb_lt; assumption.
Ltac prep := bools; all32s.

(* ---- flow records ---- *)
Lemma dec_flow_record_enc r :
  wf_flow_rec r = true -> dec_flow_record (rFmt r) (rLen r) (enc_rec_body r) = Ok r.
Proof.
  destruct r as [fmt len k vals blobs lists]. unfold wf_flow_rec, enc_rec_body.
  cbn [rFmt rLen rKind rVals rBlobs rLists]. intros H. apply andb_prop in H. destruct H as [_ H].
  destruct k; try discriminate;
  destruct vals as [|v0 [|v1 [|v2 [|v3 [|v4 [|v5 [|v6 [|v7 [|v8 [|v9 vs]]]]]]]]]]; try discriminate;
  destruct blobs as [|b0' [|b1' [|b2' bs]]]; try discriminate;
  destruct lists as [|l0 [|l1 [|l2 ls]]]; try discriminate.
  - (* raw *)
    apply negb_true_iff in H. rewrite dec_flow_record_unknown; [reflexivity|exact H].
  - (* header *)
    prep. subst fmt. cbn [dec_flow_record].
    rewrite (rd_fields_u32s [v0; v1; v2; v3]) by mk32. cbv zeta. cbn [nth]. unfold b0. cbn [nth].
    subst v3. unfold lenN. rewrite Nat2N.id, app_length, repeat_length.
    destruct (pad4 (length b0')) as [|n] eqn:Ep.
    + cbn [repeat]. rewrite app_nil_r. replace (N.of_nat (length b0') <? N.of_nat (length b0' + 0)) with false by lia. reflexivity.
    + replace (N.of_nat (length b0') <? N.of_nat (length b0' + S n)) with true by lia.
      rewrite firstn_exact. reflexivity.
  - (* ethernet *)
    prep. subst fmt. cbn [dec_flow_record]. unfold v, b0, b1. cbn [nth].
    rewrite rd4_e4 by assumption. rewrite read_app by assumption. rewrite read_app by assumption.
    rewrite rd4_e4_nil by assumption. reflexivity.
  - (* ipv4 *)
    prep. subst fmt. cbn [dec_flow_record]. unfold v, b0, b1. cbn [nth skipn].
    change (e4 v0 ++ e4 v1 ++ b0' ++ b1' ++ e4s [v2; v3; v4; v5]) with (e4s [v0; v1] ++ b0' ++ b1' ++ e4s [v2; v3; v4; v5]).
    rewrite (rd_fields_u32s [v0; v1]) by mk32.
    rewrite read_app by assumption. rewrite read_app by assumption.
    rewrite <- (app_nil_r (e4s [v2; v3; v4; v5])). rewrite (rd_fields_u32s [v2; v3; v4; v5]) by mk32. reflexivity.
  - (* ipv6 *)
    prep. subst fmt. cbn [dec_flow_record]. unfold v, b0, b1. cbn [nth skipn].
    change (e4 v0 ++ e4 v1 ++ b0' ++ b1' ++ e4s [v2; v3; v4; v5]) with (e4s [v0; v1] ++ b0' ++ b1' ++ e4s [v2; v3; v4; v5]).
    rewrite (rd_fields_u32s [v0; v1]) by mk32.
    rewrite read_app by assumption. rewrite read_app by assumption.
    rewrite <- (app_nil_r (e4s [v2; v3; v4; v5])). rewrite (rd_fields_u32s [v2; v3; v4; v5]) by mk32. reflexivity.
  - (* switch *)
    prep. subst fmt. cbn [dec_flow_record].
    rewrite <- (app_nil_r (e4s [v0; v1; v2; v3])). rewrite (rd_fields_u32s [v0; v1; v2; v3]) by mk32. reflexivity.
  - (* router *)
    prep. subst fmt. cbn [dec_flow_record]. unfold v, b0. cbn [nth skipn].
    rewrite dec_ip_enc by assumption.
    rewrite <- (app_nil_r (e4s [v1; v2])). rewrite (rd_fields_u32s [v1; v2]) by mk32. reflexivity.
  - (* gateway *)
    prep. subst fmt. cbn [dec_flow_record]. unfold v, b0. cbn [nth].
    rewrite dec_ip_enc by assumption.
    change (e4 v1 ++ e4 v2 ++ e4 v3 ++ e4 v4 ++ ?x) with (e4s [v1; v2; v3; v4] ++ x).
    rewrite (rd_fields_u32s [v1; v2; v3; v4]) by mk32. cbn [nth app].
    subst v6 v7.
    assert (Tail : forall pt pl path,
      (let* (cl, d4) := rd 4 (e4 (lenN l1) ++ e4s l1 ++ e4 v8) in
       if 1000 <? cl then Err ETooMany else
       if (Z.of_nat (length d4) - 4 <? Z.of_N cl)%Z then Err EOther else
       let* (comm, d5) := (if cl =? 0 then Ok ([], d4) else rd_u32_slice (N.to_nat cl) d4) in
       let* (lp, _) := rd 4 d5 in
       Ok (mkrec 1003 len KGateway [v0; v1; v2; v3; v4; pt; pl; cl; lp] [b0'] [path; comm])) =
      Ok (mkrec 1003 len KGateway [v0; v1; v2; v3; v4; pt; pl; lenN l1; v8] [b0'] [path; l1])).
    { intros pt pl path. rewrite rd4_e4 by lia.
      replace (1000 <? lenN l1) with false by lia.
      replace (Z.of_nat (length (e4s l1 ++ e4 v8)) - 4 <? Z.of_N (lenN l1))%Z with false
        by (rewrite app_length, e4s_len, e4_len; unfold lenN; lia).
      destruct (lenN l1 =? 0) eqn:E0.
      - assert (l1 = []) by (destruct l1; [reflexivity|unfold lenN in E0; cbn [length] in E0; lia]). subst l1.
        rewrite e4s_nil. cbn [app]. rewrite rd4_e4_nil by assumption. reflexivity.
      - unfold lenN at 1. rewrite Nat2N.id. rewrite rd_u32_slice_enc by assumption.
        rewrite rd4_e4_nil by assumption. reflexivity. }
    destruct (v4 =? 0) eqn:E4.
    + bools. assert (l0 = []) by (destruct l0; [reflexivity|unfold lenN in *; cbn [length] in *; lia]). subst l0 v5.
      cbn [app]. rewrite Tail. unfold lenN. cbn [length]. reflexivity.
    + rewrite <- !app_assoc. rewrite rd4_e4 by assumption. rewrite rd4_e4 by lia.
      replace (1000 <? lenN l0) with false by lia.
      replace (Z.of_nat (length (e4s l0 ++ e4 (lenN l1) ++ e4s l1 ++ e4 v8)) - 4 <? Z.of_N (lenN l0))%Z with false
        by (rewrite !app_length, !e4s_len, !e4_len; unfold lenN; lia).
      destruct (lenN l0 =? 0) eqn:E0.
      * assert (l0 = []) by (destruct l0; [reflexivity|unfold lenN in E0; cbn [length] in E0; lia]). subst l0.
        rewrite e4s_nil. cbn [app]. rewrite Tail. reflexivity.
      * unfold lenN at 1. rewrite Nat2N.id. rewrite rd_u32_slice_enc by assumption. rewrite Tail. reflexivity.
  - (* queue *)
    prep. subst fmt. cbn [dec_flow_record]. rewrite e4s_cons, e4s_nil, app_nil_r. rewrite rd4_e4_nil by assumption. reflexivity.
  - (* acl *)
    prep. subst fmt. cbn [dec_flow_record]. unfold v, b0. cbn [nth].
    rewrite rd4_e4 by assumption. rewrite rd_string_enc by assumption. rewrite rd4_e4_nil by assumption. reflexivity.
  - (* function *)
    prep. subst fmt. cbn [dec_flow_record]. unfold b0. cbn [nth].
    rewrite <- (app_nil_r (enc_string b0')). rewrite rd_string_enc by assumption. reflexivity.
Qed.

(* ---- counter records ---- *)
Lemma dec_counter_record_enc r :
  wf_counter_rec r = true -> dec_counter_record (rFmt r) (rLen r) (enc_rec_body r) = Ok r.
Proof.
  destruct r as [fmt len k vals blobs lists]. unfold wf_counter_rec, enc_rec_body.
  cbn [rFmt rLen rKind rVals rBlobs rLists]. intros H. apply andb_prop in H. destruct H as [_ H].
  destruct k; try discriminate;
  destruct blobs as [|b0' [|b1' bs]]; try discriminate;
  destruct lists as [|l0 ls]; try discriminate.
  - (* raw *)
    destruct vals; [|rewrite andb_false_r in H; discriminate]. rewrite andb_true_r in H.
    apply negb_true_iff, orb_false_elim in H. destruct H as [H1 H2].
    apply N.eqb_neq in H1. apply N.eqb_neq in H2. unfold dec_counter_record, b0. cbn [nth].
    destruct fmt as [|[p|p|]]; try reflexivity; try lia. destruct p; try reflexivity; lia.
  - (* generic interface counters *)
    prep. subst fmt. cbn [dec_counter_record].
    rewrite <- (app_nil_r (enc_fields if_counters_ws vals)). rewrite rd_fields_enc by assumption. reflexivity.
  - (* ethernet counters *)
    prep. subst fmt. cbn [dec_counter_record].
    match goal with Hl : length vals = 13%nat |- _ => rewrite <- Hl end.
    rewrite <- (app_nil_r (e4s vals)). rewrite rd_fields_u32s by assumption. reflexivity.
Qed.

(* ---- the record loop ---- *)
Lemma enc_rec_len r : (8 <= length (enc_rec r))%nat.
Proof. unfold enc_rec. rewrite !app_length, !e4_len. lia. Qed.

Lemma dec_records_enc (flow : bool) (rs : list srec) :
  forallb (if flow then wf_flow_rec else wf_counter_rec) rs = true ->
  dec_records (length rs) flow (concat (map enc_rec rs)) = Ok rs.
Proof.
  induction rs as [|r q IH]; intros H; [reflexivity|].
  cbn [forallb] in H. apply andb_prop in H. destruct H as [Hr Hq].
  cbn [length dec_records map concat].
  replace (Nat.leb 8 (length (enc_rec r ++ concat (map enc_rec q)))) with true
    by (symmetry; apply Nat.leb_le; rewrite app_length; pose proof (enc_rec_len r); lia).
  assert (Hl : len_ok r = true).
  { destruct flow; [unfold wf_flow_rec in Hr|unfold wf_counter_rec in Hr]; apply andb_prop in Hr; tauto. }
  unfold len_ok in Hl. prep.
  set (tail := concat (map enc_rec q)) in *.
  unfold enc_rec. rewrite <- !app_assoc. rewrite rd4_e4 by assumption.
  match goal with Hlen : rLen r = lenN (enc_rec_body r) |- _ => rewrite <- Hlen; rewrite rd4_e4 by assumption; rewrite Hlen end.
  replace (lenN (enc_rec_body r ++ tail) <? lenN (enc_rec_body r)) with false
    by (unfold lenN; rewrite app_length; lia).
  unfold lenN at 1. rewrite Nat2N.id. rewrite next_app by reflexivity.
  match goal with Hlen : rLen r = lenN (enc_rec_body r) |- _ => rewrite <- Hlen end.
  replace (if flow then dec_flow_record (rFmt r) (rLen r) (enc_rec_body r) else dec_counter_record (rFmt r) (rLen r) (enc_rec_body r))
    with (Ok r) by (destruct flow; [rewrite dec_flow_record_enc|rewrite dec_counter_record_enc]; auto).
  rewrite (IH Hq). reflexivity.
Qed.

(* ---- a sample ---- *)
Lemma pad_recs_exact rs : pad_recs (length rs) rs = rs.
Proof. unfold pad_recs. rewrite Nat.sub_diag. cbn [repeat]. apply app_nil_r. Qed.

Lemma dec_sample_enc s fmt len :
  wf_sample s = true -> nth 0 (sHdr s) 0 = fmt -> nth 1 (sHdr s) 0 = len ->
  dec_sample fmt len (enc_sample_body s) = Ok s.
Proof.
  destruct s as [kind hdr vals recs]. unfold wf_sample, enc_sample_body. cbn [sKind sHdr sVals sRecs].
  destruct hdr as [|f [|l [|seq [|st [|sv [|x hs]]]]]]; try discriminate.
  intros H Hf Hl. cbn [nth] in Hf, Hl. subst f l. unfold v. cbn [nth].
  prep.
  match goal with X : last vals 0 = lenN recs |- _ => rename X into Hlast end.
  match goal with X : length vals = sample_nvals fmt |- _ => rename X into Hn end.
  match goal with X : skind_eqb kind (sample_kind fmt) = true |- _ => rename X into Hk end.
  match goal with X : forallb _ recs = true |- _ => rename X into Hr end.
  match goal with X : (if (fmt =? 1) || (fmt =? 2) then _ else _) = true |- _ => rename X into Hst end.
  assert (Hkind : kind = sample_kind fmt) by (destruct kind, (sample_kind fmt); try discriminate; reflexivity).
  (* the body common to all five formats *)
  assert (Body : forall d2hdr (flow : bool),
    flow = negb ((fmt =? 2) || (fmt =? 4)) ->
    (let* (vs, d3) := rd_fields (u32s (sample_nvals fmt)) (e4s vals ++ concat (map enc_rec recs)) in
     let count := last vs 0 in
     if 1000 <? count then Err ETooMany else
     let* rs := dec_records (N.to_nat count) flow d3 in
     Ok {| sKind := sample_kind fmt; sHdr := d2hdr; sVals := vs; sRecs := pad_recs (N.to_nat count) rs |}) =
    Ok {| sKind := sample_kind fmt; sHdr := d2hdr; sVals := vals; sRecs := recs |}).
  { intros d2hdr flow Hflow. rewrite <- Hn. rewrite rd_fields_u32s by assumption. cbv zeta. rewrite Hlast.
    replace (1000 <? lenN recs) with false by lia.
    unfold lenN. rewrite Nat2N.id. rewrite dec_records_enc.
    - rewrite pad_recs_exact. reflexivity.
    - subst flow. destruct ((fmt =? 2) || (fmt =? 4)); exact Hr. }
  subst kind. unfold dec_sample. rewrite rd4_e4 by assumption.
  assert (Hfmt : fmt = 1 \/ fmt = 2 \/ fmt = 3 \/ fmt = 4 \/ fmt = 5) by lia.
  destruct Hfmt as [->|[->|[->|[->| ->]]]]; cbn [N.eqb Pos.eqb orb] in *.
  - prep. rewrite rd4_e4 by lia. replace ((st * 16777216 + sv) / 16777216) with st by lia.
    replace ((st * 16777216 + sv) mod 16777216) with sv by lia.
    apply (Body [1; len; seq; st; sv] true). reflexivity.
  - prep. rewrite rd4_e4 by lia. replace ((st * 16777216 + sv) / 16777216) with st by lia.
    replace ((st * 16777216 + sv) mod 16777216) with sv by lia.
    apply (Body [2; len; seq; st; sv] false). reflexivity.
  - prep. rewrite <- !app_assoc. rewrite rd4_e4 by assumption. rewrite rd4_e4 by assumption.
    apply (Body [3; len; seq; st; sv] true). reflexivity.
  - prep. rewrite <- !app_assoc. rewrite rd4_e4 by assumption. rewrite rd4_e4 by assumption.
    apply (Body [4; len; seq; st; sv] false). reflexivity.
  - prep. rewrite <- !app_assoc. rewrite rd4_e4 by assumption. rewrite rd4_e4 by assumption.
    apply (Body [5; len; seq; st; sv] true). reflexivity.
Qed.

(* ---- the sample loop and the datagram ---- *)
Lemma wf_sample_hdr s : wf_sample s = true ->
  exists fmt len seq st sv, sHdr s = [fmt; len; seq; st; sv] /\ fmt < 4294967296 /\ len < 4294967296 /\
                            len = lenN (enc_sample_body s).
Proof.
  unfold wf_sample. destruct (sHdr s) as [|f [|l [|seq [|st [|sv [|x hs]]]]]]; try discriminate.
  intros H. prep. exists f, l, seq, st, sv. repeat split; auto. lia.
Qed.

Lemma dec_samples_enc ss :
  forallb wf_sample ss = true -> dec_samples (length ss) (concat (map enc_sample ss)) = Ok ss.
Proof.
  induction ss as [|s q IH]; intros H; [reflexivity|].
  cbn [forallb] in H. apply andb_prop in H. destruct H as [Hs Hq].
  cbn [length dec_samples map concat].
  destruct (wf_sample_hdr s Hs) as (fmt & len & seq & st & sv & Eh & Hf & Hl & Elen).
  set (tail := concat (map enc_sample q)) in *.
  unfold enc_sample, v. rewrite Eh. cbn [nth]. rewrite <- !app_assoc.
  replace (Nat.leb 8 (length (e4 fmt ++ e4 (lenN (enc_sample_body s)) ++ enc_sample_body s ++ tail))) with true
    by (symmetry; apply Nat.leb_le; rewrite !app_length, !e4_len; lia).
  rewrite rd4_e4 by assumption. rewrite <- Elen. rewrite rd4_e4 by assumption.
  replace (lenN (enc_sample_body s ++ tail) <? len) with false by (subst len; unfold lenN; rewrite app_length; lia).
  rewrite Elen at 1. unfold lenN at 1. rewrite Nat2N.id. rewrite next_app by reflexivity.
  rewrite (dec_sample_enc s fmt len Hs) by (rewrite Eh; reflexivity).
  rewrite (IH Hq). reflexivity.
Qed.

Theorem sflow_roundtrip p : wf_spkt p = true -> decode_sf (encode_sf p) = Ok p.
Proof.
  destruct p as [hdr agent samples]. unfold wf_spkt, encode_sf. cbn [kHdr kAgent kSamples].
  destruct hdr as [|ver [|ipv [|sub [|seq [|up [|n [|x hs]]]]]]]; try discriminate.
  intros H. unfold v. cbn [nth skipn]. prep. subst ver n.
  match goal with X : is_ip ipv agent = true |- _ => rename X into Hip end.
  match goal with X : forallb wf_sample samples = true |- _ => rename X into Hs end.
  unfold decode_sf. rewrite rd4_e4 by lia. cbn [N.eqb Pos.eqb negb].
  assert (Hipv : ipv < 4294967296) by (unfold is_ip in Hip; apply orb_prop in Hip; destruct Hip; prep; lia).
  rewrite rd4_e4 by exact Hipv.
  replace (if ipv =? 1 then read 4 (agent ++ e4s [sub; seq; up; lenN samples] ++ concat (map enc_sample samples))
           else if ipv =? 2 then read 16 (agent ++ e4s [sub; seq; up; lenN samples] ++ concat (map enc_sample samples))
           else Err EOther)
    with (Ok (agent, e4s [sub; seq; up; lenN samples] ++ concat (map enc_sample samples)) : res (bytes * bytes)).
  2:{ unfold is_ip in Hip. apply orb_prop in Hip. destruct Hip as [Hip|Hip]; prep; subst ipv; cbn [N.eqb Pos.eqb];
      rewrite read_app by assumption; reflexivity. }
  assert (Hn32 : lenN samples < 4294967296) by lia.
  rewrite (rd_fields_u32s [sub; seq; up; lenN samples]) by mk32. cbn [nth].
  replace (1000 <? lenN samples) with false by lia.
  unfold lenN. rewrite Nat2N.id. rewrite dec_samples_enc by exact Hs.
  rewrite Nat.sub_diag. cbn [repeat]. rewrite app_nil_r. reflexivity.
Qed.

(* a raw packet header record: the decoded header is the captured bytes, whatever padding follows them on the wire *)
Lemma header_record_roundtrip proto flen stripped captured :
  lenN captured < 4294967000 -> proto < 4294967296 -> flen < 4294967296 -> stripped < 4294967296 ->
  let r := mk_header proto flen stripped captured in
  dec_flow_record 1 (rLen r) (enc_rec_body r) = Ok r /\ rBlobs r = [captured].
Proof.
  intros H1 H2 H3 H4 r. split; [|reflexivity].
  apply (dec_flow_record_enc r). unfold r, mk_header, EncSFlow.mk, fix_rec, wf_flow_rec, len_ok.
  cbn [rKind rVals rBlobs rLists rFmt rLen]. rewrite N.eqb_refl.
  unfold all32, u32. cbn [forallb].
  repeat (apply andb_true_intro; split); try reflexivity; try (apply N.ltb_lt; assumption).
  all: try apply N.eqb_refl.
  all: unfold enc_rec_body; cbn [rKind rVals rBlobs]; unfold lenN in *; rewrite ?app_length, ?e4s_len, ?repeat_length; cbn [length nth b0];
    unfold pad4; apply N.ltb_lt; lia.
Qed.
