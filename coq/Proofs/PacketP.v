(* Packet dissection (C10) and sFlow (C04, C09) lemmas. *)
From Coq Require Import String List NArith ZArith Lia ZifyN ZifyNat ZifyBool Bool.
From GF Require Import Base.Res Base.Bytes Base.Layout Model.Msg Model.Packet Model.SFlow Model.ProdSF
     Spec.EncSFlow Proofs.BytesL Proofs.LayoutL.
Import ListNotations.
Open Scope N_scope.

(* ---- C10: no parser panics; inner layers never touch outer columns ---- *)
Definition same_except (ks : list N) (m m' : msg) : Prop :=
  unk m' = unk m /\ forall k, ~ In k ks -> alookup (cols m') k = alookup (cols m) k.

Lemma same_except_refl ks m : same_except ks m m.
Proof. split; auto. Qed.
Lemma same_except_trans ks a b c : same_except ks a b -> same_except ks b c -> same_except ks a c.
Proof. intros [U1 H1] [U2 H2]. split; [congruence|]. intros k Hk. rewrite H2, H1; auto. Qed.
Lemma same_except_mset ks m k v : In k ks -> same_except ks m (mset m k v).
Proof.
  intros Hin. split; [reflexivity|]. intros k' Hk'. unfold mset. cbn [cols alookup].
  destruct (k =? k') eqn:E; [apply N.eqb_eq in E; subst; contradiction|reflexivity].
Qed.
Lemma same_except_weaken ks ks' m m' : incl ks ks' -> same_except ks m m' -> same_except ks' m m'.
Proof. intros Hi [U H]. split; [exact U|]. intros k Hk. apply H. intros Hin. apply Hk, Hi, Hin. Qed.

Lemma add_layer_same m p : same_except [cLayerStack] m (add_layer m p).
Proof. unfold add_layer. apply same_except_mset. left. reflexivity. Qed.

(* with base = false a parser only appends to the layer stack *)
Lemma run_parser_inner ports p m d :
  exists m' size nextp, run_parser ports p false m d = Ok (m', size, nextp) /\
                        same_except [cLayerStack] m m'.
Proof.
  destruct p; cbn [run_parser]; unfold stop;
    try (destruct (Nat.ltb (length d) _); do 3 eexists;
         (split; [reflexivity | first [apply same_except_refl | apply add_layer_same]]));
    try (do 3 eexists; (split; [reflexivity | first [apply same_except_refl | apply add_layer_same]])).
  (* MPLS: the loop result is destructured *)
  destruct (Nat.ltb (length d) 4); [do 3 eexists; split; [reflexivity|apply same_except_refl]|].
  destruct (mpls_loop (S (length d)) d 0 [] []) as [[[ls ts] off] et].
  do 3 eexists; split; [reflexivity|apply add_layer_same].
Qed.

Lemma run_parser_ok ports p base m d : exists r, run_parser ports p base m d = Ok r.
Proof.
  destruct p; cbn [run_parser]; unfold stop; try (destruct (Nat.ltb (length d) _); eauto); eauto.
  destruct (mpls_loop (S (length d)) d 0 [] []) as [[[ls ts] off] et]. eauto.
Qed.

Lemma apply_layer_maps_nil ks encap data off m : apply_layer_maps [] ks encap data off m = Ok m.
Proof. induction ks as [|k ks IH]; cbn [apply_layer_maps]; [reflexivity|exact IH]. Qed.

(* once encapsulated, everything the dissector does leaves every column except the layer
   stack and the layer sizes as it was -- for EVERY byte string *)
Lemma parse_loop_frozen : forall fuel ports data offset p m m',
  parse_loop fuel {| cLayers := []; cPorts := ports |} data offset p true m = Ok m' ->
  same_except [cLayerStack; cLayerSize] m m'.
Proof.
  induction fuel as [|fu IH]; intros ports data offset p m m' H; cbn [parse_loop] in H; [discriminate|].
  destruct p; try (inversion H; subst; apply same_except_refl);
    (destruct (N.of_nat (length data) <? offset); [inversion H; subst; apply same_except_refl|]);
    cbn [cPorts cLayers negb] in H;
    match type of H with context [run_parser ?ports ?p false ?m ?d] =>
      let m1 := fresh "m1" in let size := fresh "size" in let nextp := fresh "nextp" in
      let E := fresh "E" in let S1 := fresh "S1" in
      destruct (run_parser_inner ports p m d) as (m1 & size & nextp & E & S1); rewrite E in H;
      rewrite apply_layer_maps_nil in H; cbn [orb] in H;
      apply IH in H;
      (eapply same_except_trans; [|exact H]);
      (eapply same_except_trans;
        [eapply same_except_weaken; [|exact S1]; intros x [<-|[]]; left; reflexivity|]);
      match goal with |- same_except _ _ (if ?c then _ else _) => destruct c end;
      try apply same_except_refl; apply same_except_mset; right; left; reflexivity
    end.
Qed.

(* ---- C09 ---- *)
Lemma sf_record_other_protocol cfg m r :
  rKind r = KHeader -> nth 0 (rVals r) 0 <> 1 ->
  sf_record cfg m r = Ok (msetI m cBytes (nth 1 (rVals r) 0)).
Proof.
  intros Hk Hp. unfold sf_record, vv. rewrite Hk.
  replace (nth 0 (rVals r) 0 =? 1) with false by (symmetry; apply N.eqb_neq; exact Hp). reflexivity.
Qed.

Lemma convert_samples_length cfg ss ms : convert_samples cfg ss = Ok ms -> length ms = length ss.
Proof.
  revert ms. induction ss as [|s ss IH]; intros ms H; cbn [convert_samples] in H.
  - inversion H. reflexivity.
  - destruct (convert_sf cfg s); try discriminate. destruct (convert_samples cfg ss); try discriminate.
    inversion H; subst. cbn [length]. f_equal. apply IH. reflexivity.
Qed.

Lemma produce_sf_count cfg tr p ms : produce_sf cfg tr p = Ok ms -> length ms = length (flow_samples p).
Proof.
  unfold produce_sf. destruct (convert_samples cfg (flow_samples p)) as [ms0| | |] eqn:E; try discriminate.
  intros H. inversion H; subst. rewrite map_length. eapply convert_samples_length; eauto.
Qed.

(* gateway record: destination AS = last AS of the path, next-hop AS = first, else the router's
   AS; source AS falls back to the router's AS *)
Lemma sf_gateway_as cfg m r :
  rKind r = KGateway ->
  exists m', sf_record cfg m r = Ok m' /\
    mgetI m' cSrcAs = (if 0 <? nth 2 (rVals r) 0 then nth 2 (rVals r) 0 else nth 1 (rVals r) 0) /\
    mgetI m' cDstAs = match nth 0 (rLists r) [] with [] => nth 1 (rVals r) 0 | p => last p 0 end /\
    (forall a l, nth 0 (rLists r) [] = a :: l -> mgetI m' cNextHopAs = a).
Proof.
  intros Hk. unfold sf_record. rewrite Hk. eexists. split; [reflexivity|].
  unfold vv. destruct (nth 0 (rLists r) []) as [|a l]; repeat split; try reflexivity.
  - intros a l H. discriminate.
  - intros a' l' H. inversion H; subst. reflexivity.
Qed.

(* ---- C04 ---- *)
Lemma e4_len x : length (e4 x) = 4%nat.
Proof. apply enc_be_len. Qed.

Lemma rd4_e4 x rest : x < 4294967296 -> rd 4 (e4 x ++ rest) = Ok (x, rest).
Proof. intros H. apply rd_enc4. exact H. Qed.

(* XDR string: length word, bytes, padding to a multiple of four -- the reader returns the string
   and stops exactly behind the padding *)
Lemma rd_string_enc s rest : lenN s < 4294967296 -> rd_string (enc_string s ++ rest) = Ok (s, rest).
Proof.
  intros H. unfold rd_string, enc_string. rewrite <- !app_assoc. rewrite rd4_e4 by exact H.
  replace (lenN (s ++ repeat 0 (pad4 (length s)) ++ rest) <? lenN s) with false
    by (unfold lenN; rewrite app_length; lia).
  unfold lenN at 1. rewrite Nat2N.id. rewrite read_app by reflexivity.
  unfold pad4, lenN. unfold next. cbn [snd].
  rewrite <- (repeat_length 0 (N.to_nat ((4 - N.of_nat (length s) mod 4) mod 4))) at 1.
  rewrite skipn_exact. reflexivity.
Qed.

(* a record of unknown type is skipped by its declared length: what follows it is decoded exactly
   as if the record were not there, for EVERY body and EVERY continuation *)
Definition known_flow_fmt (f : N) : bool :=
  (f =? 1) || (f =? 2) || (f =? 3) || (f =? 4) || (f =? 1001) || (f =? 1002) || (f =? 1003) ||
  (f =? 1036) || (f =? 1037) || (f =? 1038).

Lemma dec_flow_record_unknown fmt len d :
  known_flow_fmt fmt = false -> dec_flow_record fmt len d = Ok (mkrec fmt len KRaw [] [d] []).
Proof.
  unfold known_flow_fmt. intros H.
  repeat (apply orb_false_elim in H; destruct H as [H ?]).
  unfold dec_flow_record.
  repeat match goal with E : (fmt =? _) = false |- _ => apply N.eqb_neq in E end.
  destruct fmt as [|p]; [reflexivity|].
  repeat (destruct p as [p|p|]; try reflexivity; try lia).
Qed.

Lemma dec_records_unknown c fmt body rest :
  known_flow_fmt fmt = false -> fmt < 4294967296 -> lenN body < 4294967296 ->
  dec_records (S c) true (e4 fmt ++ e4 (lenN body) ++ body ++ rest) =
  (let* rs := dec_records c true rest in Ok (mkrec fmt (lenN body) KRaw [] [body] [] :: rs)).
Proof.
  intros Hk Hf Hl. cbn [dec_records].
  replace (Nat.leb 8 _) with true by (symmetry; apply Nat.leb_le; rewrite !app_length, !e4_len; lia).
  rewrite rd4_e4 by exact Hf. rewrite rd4_e4 by exact Hl.
  replace (lenN (body ++ rest) <? lenN body) with false by (unfold lenN; rewrite app_length; lia).
  unfold lenN at 1. rewrite Nat2N.id. rewrite next_app by reflexivity.
  rewrite dec_flow_record_unknown by exact Hk. reflexivity.
Qed.

(* ---- C14 ---- *)
From GF Require Import Model.ProdNF Model.NF Spec.BitSpec.

(* traffic that no NetFlow/IPFIX mapping matches is converted exactly as without those mappings *)
Lemma nf_fields_unmatched cfg ver base up : forall r m,
  (forall f, In f r -> nf_lookup (if ver =? 9 then pNF9 cfg else pIPFIX cfg) f = None) ->
  nf_fields cfg ver base up m r =
  nf_fields {| pNF9 := []; pIPFIX := []; pPacket := pPacket cfg; pNilCfg := pNilCfg cfg |} ver base up m r.
Proof.
  induction r as [|f r IH]; intros m H; [reflexivity|].
  cbn [nf_fields]. destruct (dVal f) as [v|]; [|apply IH; intros g Hg; apply H; right; exact Hg].
  rewrite (H f (or_introl eq_refl)).
  replace (nf_lookup (if ver =? 9 then pNF9 _ else pIPFIX _) f) with (@None mapcfg)
    by (cbn [pNF9 pIPFIX]; destruct (ver =? 9); reflexivity).
  destruct (dPenP f).
  - apply IH. intros g Hg. apply H. right. exact Hg.
  - replace (nf_field {| pNF9 := []; pIPFIX := []; pPacket := pPacket cfg; pNilCfg := pNilCfg cfg |} ver base up m (dType f) v)
      with (nf_field cfg ver base up m (dType f) v).
    + destruct (nf_field cfg ver base up m (dType f) v); try reflexivity.
      apply IH. intros g Hg. apply H. right. exact Hg.
    + unfold nf_field. cbn [pPacket]. reflexivity.
Qed.

Definition basis : list N := [0; 1; 2; 4; 8; 16; 32; 64; 128; 255; 170; 85].
Definition small_bufs : list bytes := [] :: map (fun a => [a]) basis ++ flat_map (fun a => map (fun b => [a; b]) basis) basis.
Definition gb_agree (d : bytes) (off len : nat) (sh : bool) : bool :=
  match get_bytes d (Z.of_nat off) (Z.of_nat len) sh with
  | Ok b => (fix eq (x y : bytes) := match x, y with [] , [] => true | p :: r, q :: s => (p =? q) && eq r s | _, _ => false end)
              b (get_bits_spec d off len sh)
  | _ => false
  end.
Lemma getbytes_small_l :
  forallb (fun d => forallb (fun off => forallb (fun len => gb_agree d off len true && gb_agree d off len false)
                                        (seq 0 18)) (seq 0 18)) small_bufs = true.
Proof. vm_compute. reflexivity. Qed.
