(* C17: the trace monitor that judges the REAL receiver accepts every trace the model receiver can
   produce -- for every configuration and EVERY schedule (monitor soundness), and at quiescence its
   final accounting test passes.  So a trace the monitor rejects is not a trace of the model. *)
From Coq Require Import List NArith Bool Arith Lia Permutation Setoid Morphisms.
From GF Require Import Model.First Model.Recv Spec.TraceSpec Proofs.FirstP Proofs.RecvP.
Import ListNotations.

Definition pk (p : pkt) : nat * nat := (pid p, pbuf p).
Definition inq (s : rstate) : list pkt := somes (hands s) ++ queue s.

(* the monitor state is the receiver's state seen through its events *)
Definition coupled (s : rstate) (m : mon) : Prop :=
  Permutation (mInflight m) (map pbuf (inq s)) /\
  Permutation (mDecoding m) (map pk (somes (works s))) /\
  Permutation (mStarted m) (map pid (somes (works s)) ++ decoded s) /\
  mDropped m = dropped s /\ mReads m = nextid s /\ mEnded m = length (decoded s).

Lemma coupled_init r w : coupled (rinit r w) mon0.
Proof.
  assert (E : forall n, somes (repeat (@None pkt) n) = []) by (induction n; simpl; auto).
  unfold coupled, inq, rinit, mon0. cbn [hands queue works decoded dropped nextid mInflight mDecoding mStarted mDropped mReads mEnded].
  rewrite !E. cbn. repeat split; constructor.
Qed.

Lemma memb_In x l : memb x l = true <-> In x l.
Proof.
  unfold memb. rewrite existsb_exists. split.
  - intros (y & Hy & He). apply Nat.eqb_eq in He. subst. exact Hy.
  - intros H. exists x. split; [exact H|apply Nat.eqb_refl].
Qed.
Lemma memb_false x l : memb x l = false <-> ~ In x l.
Proof. rewrite <- memb_In. destruct (memb x l); split; intros; congruence. Qed.

Lemma remove1_perm x l : In x l -> Permutation l (x :: remove1 x l).
Proof.
  induction l as [|y r IH]; intros H; [contradiction|]. cbn [remove1].
  destruct (Nat.eqb x y) eqn:E.
  - apply Nat.eqb_eq in E. subst. reflexivity.
  - destruct H as [->|H]; [rewrite Nat.eqb_refl in E; discriminate|].
    rewrite (IH H) at 1. apply perm_swap.
Qed.

Lemma perm_filter {A} (g : A -> bool) l l' : Permutation l l' -> Permutation (filter g l) (filter g l').
Proof.
  induction 1 as [|x l l' _ IH|x y l|l l' l'' _ IH1 _ IH2]; cbn [filter].
  - constructor.
  - destruct (g x); [apply perm_skip|]; exact IH.
  - destruct (g x), (g y); try reflexivity. apply perm_swap.
  - etransitivity; eauto.
Qed.

Lemma nodup_app_disj {A} (l1 l2 : list A) x : NoDup (l1 ++ l2) -> In x l1 -> ~ In x l2.
Proof.
  induction l1 as [|y r IH]; intros H H1 H2; [contradiction|].
  cbn [app] in H. inversion H as [|? ? Hn Hr]; subst. destruct H1 as [->|H1].
  - apply Hn. apply in_or_app. right. exact H2.
  - exact (IH Hr H1 H2).
Qed.

Lemma NoDup_app_remove_l {A} (l l' : list A) : NoDup (l ++ l') -> NoDup l'.
Proof. induction l as [|x r IH]; intros H; [exact H|]. inversion H; subst. auto. Qed.
Lemma NoDup_app_remove_r {A} (l l' : list A) : NoDup (l ++ l') -> NoDup l.
Proof.
  induction l as [|x r IH]; intros H; [constructor|]. cbn [app] in H. inversion H as [|? ? Hn Hr]; subst.
  constructor; [intros Hin; apply Hn; apply in_or_app; left; exact Hin|auto].
Qed.

Lemma rinv_nodup s : rinv s -> NoDup (accounted s).
Proof. intros (HP & _). eapply Permutation_NoDup; [exact HP|apply seq_NoDup]. Qed.

(* shapes of the accounted list *)
Lemma accounted_shape s :
  accounted s = map pid (somes (hands s)) ++ map pid (queue s) ++ map pid (somes (works s)) ++ decoded s ++ dropped s.
Proof. unfold accounted, live. rewrite !map_app, <- !app_assoc. reflexivity. Qed.

Lemma owned_shape s :
  owned_bufs s = map pbuf (somes (hands s)) ++ map pbuf (queue s) ++ map pbuf (somes (works s)) ++ free s.
Proof. unfold owned_bufs, live. rewrite !map_app, <- !app_assoc. reflexivity. Qed.

Lemma map_snd_pk l : map snd (map pk l) = map pbuf l.
Proof. rewrite map_map. reflexivity. Qed.
Lemma map_fst_pk l : map fst (map pk l) = map pid l.
Proof. rewrite map_map. reflexivity. Qed.

(* a buffer the pool hands out is owned by nobody *)
Lemma fresh_buffer s b :
  rinv s -> (match free s with b' :: _ => b = b' | [] => b = nextbuf s end) ->
  ~ In b (map pbuf (inq s)) /\ ~ In b (map pbuf (somes (works s))).
Proof.
  intros (_ & HN & HB) Hb. rewrite owned_shape in HN, HB. unfold inq. rewrite map_app.
  destruct (free s) as [|b' fr] eqn:Ef.
  - subst b. rewrite app_nil_r in HB. split; intros Hin.
    + assert (nextbuf s < nextbuf s); [|lia]. apply HB. rewrite app_assoc. apply in_or_app. left. exact Hin.
    + assert (nextbuf s < nextbuf s); [|lia]. apply HB. apply in_or_app. right. apply in_or_app. right. exact Hin.
  - subst b'. rewrite !app_assoc in HN.
    assert (Hd : ~ In b ((map pbuf (somes (hands s)) ++ map pbuf (queue s)) ++ map pbuf (somes (works s)))).
    { intros Hin. eapply nodup_app_disj; [exact HN|exact Hin|left; reflexivity]. }
    split; intros Hin; apply Hd; apply in_or_app; [left|right]; exact Hin.
Qed.

Lemma mon_step c s m a :
  rinv s -> coupled s m ->
  exists m', mrun (blocking c) m (snd (rstep c s a)) = Some m' /\ coupled (fst (rstep c s a)) m'.
Proof.
  intros Hinv (I1 & I2 & I3 & I4 & I5 & I6).
  pose proof (rinv_nodup s Hinv) as HND. rewrite accounted_shape in HND.
  destruct a as [r|r|w|w]; cbn [rstep]; unfold set_nth.
  - (* read *)
    destruct (nth_error (hands s) r) as [[p|]|] eqn:E; cbn [fst snd mrun]; try (eexists; split; [reflexivity|repeat split; assumption]).
    set (b := match free s with b :: _ => b | [] => nextbuf s end).
    assert (Hfresh : ~ In b (map pbuf (inq s)) /\ ~ In b (map pbuf (somes (works s)))).
    { apply fresh_buffer; [exact Hinv|]. unfold b. destruct (free s); reflexivity. }
    destruct Hfresh as [Hf1 Hf2].
    assert (Hstep : exists fr nb, (match free s with b0 :: fr => (b0, fr, nextbuf s) | [] => (nextbuf s, [], S (nextbuf s)) end) = (b, fr, nb)).
    { unfold b. destruct (free s); eauto. }
    destruct Hstep as (fr & nb & ->). cbn [fst snd mrun mstep].
    replace (memb b (mInflight m)) with false by (symmetry; apply memb_false; rewrite I1; exact Hf1).
    replace (memb b (map snd (mDecoding m))) with false by (symmetry; apply memb_false; rewrite I2, map_snd_pk; exact Hf2).
    cbn [orb]. eexists. split; [reflexivity|].
    unfold coupled, inq. cbn [hands queue works decoded dropped nextid mInflight mDecoding mStarted mDropped mReads mEnded].
    repeat split; try assumption; [|congruence].
    rewrite (somes_upd_some (hands s) r _ E). cbn [app map pbuf]. apply perm_skip. exact I1.
  - (* dispatch *)
    destruct (nth_error (hands s) r) as [[p|]|] eqn:E; cbn [fst snd mrun]; try (eexists; split; [reflexivity|repeat split; assumption]).
    pose proof (somes_upd_none (hands s) r p E) as PS.
    destruct (has_room c s); cbn [fst snd mrun].
    + eexists. split; [reflexivity|]. unfold coupled, inq in *. cbn [hands queue works decoded dropped nextid].
      repeat split; try assumption.
      rewrite I1, PS. rewrite !map_app. cbn [app map]. rewrite app_assoc.
      symmetry. rewrite <- Permutation_middle. rewrite app_nil_r. reflexivity.
    + destruct (blocking c) eqn:Eb; cbn [fst snd mrun]; [eexists; split; [reflexivity|repeat split; assumption]|].
      cbn [mstep orb].
      (* the packet in the reader's hand was neither started nor dropped, and its buffer is in flight *)
      assert (Hp : In (pid p) (map pid (somes (hands s)))) by (rewrite PS; left; reflexivity).
      assert (Hnot : ~ In (pid p) (map pid (queue s) ++ map pid (somes (works s)) ++ decoded s ++ dropped s))
        by (eapply nodup_app_disj; eauto).
      replace (memb (pid p) (mStarted m)) with false.
      2:{ symmetry. apply memb_false. rewrite I3. intros Hin. apply Hnot. apply in_or_app. right.
          rewrite app_assoc. apply in_or_app. left. exact Hin. }
      replace (memb (pid p) (mDropped m)) with false.
      2:{ symmetry. apply memb_false. rewrite I4. intros Hin. apply Hnot. apply in_or_app. right.
          apply in_or_app. right. apply in_or_app. right. exact Hin. }
      assert (Hb : In (pbuf p) (mInflight m)).
      { rewrite I1. unfold inq. rewrite PS. left. reflexivity. }
      replace (memb (pbuf p) (mInflight m)) with true by (symmetry; apply memb_In; exact Hb).
      cbn [orb negb]. eexists. split; [reflexivity|].
      unfold coupled, inq in *. cbn [hands queue works decoded dropped nextid mInflight mDecoding mStarted mDropped mReads mEnded].
      repeat split; try assumption; [|congruence].
      apply (Permutation_cons_inv (a := pbuf p)). rewrite <- (remove1_perm _ _ Hb). rewrite I1, PS. reflexivity.
  - (* dequeue *)
    destruct (nth_error (works s) w) as [[p0|]|] eqn:E; cbn [fst snd mrun]; try (eexists; split; [reflexivity|repeat split; assumption]).
    destruct (queue s) as [|p q] eqn:Eq; cbn [fst snd mrun]; [eexists; split; [reflexivity|repeat split; assumption]|].
    pose proof (somes_upd_some (works s) w p E) as PS.
    cbn [mstep]. cbn [map] in HND.
    assert (Hnot : ~ In (pid p) (map pid (somes (works s)) ++ decoded s ++ dropped s)).
    { apply NoDup_app_remove_l in HND. cbn [app] in HND. inversion HND as [|? ? Hn _]; subst.
      intros Hin. apply Hn. apply in_or_app. right. exact Hin. }
    replace (memb (pid p) (mStarted m)) with false.
    2:{ symmetry. apply memb_false. rewrite I3. intros Hin. apply Hnot. rewrite app_assoc. apply in_or_app. left. exact Hin. }
    replace (memb (pid p) (mDropped m)) with false.
    2:{ symmetry. apply memb_false. rewrite I4. intros Hin. apply Hnot. apply in_or_app. right. apply in_or_app. right. exact Hin. }
    assert (Hb : In (pbuf p) (mInflight m)).
    { rewrite I1. unfold inq. rewrite Eq, map_app. apply in_or_app. right. left. reflexivity. }
    replace (memb (pbuf p) (mInflight m)) with true by (symmetry; apply memb_In; exact Hb).
    cbn [orb negb]. eexists. split; [reflexivity|].
    unfold coupled, inq in *. cbn [hands queue works decoded dropped nextid mInflight mDecoding mStarted mDropped mReads mEnded].
    rewrite Eq in I1. repeat split; try assumption.
    + apply (Permutation_cons_inv (a := pbuf p)). rewrite <- (remove1_perm _ _ Hb). rewrite I1.
      rewrite !map_app. cbn [map]. symmetry. apply Permutation_middle.
    + rewrite PS. cbn [map pk]. apply perm_skip. exact I2.
    + rewrite PS. cbn [map app]. apply perm_skip. exact I3.
  - (* finish *)
    destruct (nth_error (works s) w) as [[p|]|] eqn:E; cbn [fst snd mrun]; try (eexists; split; [reflexivity|repeat split; assumption]).
    pose proof (somes_upd_none (works s) w p E) as PS.
    cbn [mstep].
    assert (Hd : In (pid p) (map fst (mDecoding m))).
    { rewrite I2, map_fst_pk, PS. left. reflexivity. }
    replace (memb (pid p) (map fst (mDecoding m))) with true by (symmetry; apply memb_In; exact Hd).
    cbn [negb]. eexists. split; [reflexivity|].
    unfold coupled, inq in *. cbn [hands queue works decoded dropped nextid mInflight mDecoding mStarted mDropped mReads mEnded].
    repeat split; try assumption.
    + (* the running call of this id is the only entry removed *)
      rewrite (perm_filter _ _ _ I2), (perm_filter _ _ _ (Permutation_map pk PS)).
      cbn [map filter pk fst]. rewrite Nat.eqb_refl. cbn [negb].
      assert (Hothers : ~ In (pid p) (map pid (somes (upd w None (works s))))).
      { apply NoDup_app_remove_l, NoDup_app_remove_l, NoDup_app_remove_r in HND.
        rewrite PS in HND. cbn [map] in HND. inversion HND; assumption. }
      assert (G : forall l, ~ In (pid p) (map pid l) -> filter (fun x => negb (Nat.eqb (fst x) (pid p))) (map pk l) = map pk l).
      { induction l as [|x l IHl]; intros Hn; [reflexivity|]. cbn [map filter pk fst].
        destruct (Nat.eqb (pid x) (pid p)) eqn:Ex.
        - exfalso. apply Hn. left. apply Nat.eqb_eq. exact Ex.
        - cbn [negb]. f_equal. apply IHl. intros Hin. apply Hn. right. exact Hin. }
      rewrite G by exact Hothers. reflexivity.
    + rewrite I3, PS. cbn [map app]. apply Permutation_middle.
    + cbn [length]. congruence.
Qed.

Lemma rrun_step c s a r : rrun c s (a :: r) =
  (fst (rrun c (fst (rstep c s a)) r), snd (rstep c s a) ++ snd (rrun c (fst (rstep c s a)) r)).
Proof. cbn [rrun]. destruct (rstep c s a) as [s1 e1]. cbn [fst snd]. destruct (rrun c s1 r). reflexivity. Qed.

Lemma mrun_app b es1 : forall m es2,
  mrun b m (es1 ++ es2) = match mrun b m es1 with Some m' => mrun b m' es2 | None => None end.
Proof.
  induction es1 as [|e r IH]; intros m es2; [reflexivity|]. cbn [app mrun].
  destruct (mstep b m e); [apply IH|reflexivity].
Qed.

Lemma mon_run c : forall sched s m, rinv s -> coupled s m ->
  exists m', mrun (blocking c) m (snd (rrun c s sched)) = Some m' /\ coupled (fst (rrun c s sched)) m'.
Proof.
  induction sched as [|a r IH]; intros s m Hinv Hc.
  - exists m. split; [reflexivity|exact Hc].
  - rewrite rrun_step. cbn [fst snd]. rewrite mrun_app.
    destruct (mon_step c s m a Hinv Hc) as (m1 & H1 & Hc1). rewrite H1.
    apply IH; [apply rinv_step; exact Hinv|exact Hc1].
Qed.

(* monitor soundness: no prefix of any model trace is rejected, and at quiescence the final
   accounting test of trace_ok passes *)
Theorem monitor_sound c readers workers sched :
  let r := rrun c (rinit readers workers) sched in
  (exists m, mrun (blocking c) mon0 (snd r) = Some m) /\
  (quiescent (fst r) = true -> trace_ok (blocking c) (snd r) = true).
Proof.
  intros r. destruct (mon_run c sched (rinit readers workers) mon0 (rinv_init readers workers) (coupled_init readers workers))
    as (m & Hm & (I1 & I2 & I3 & I4 & I5 & I6)).
  fold r in Hm, I1, I2, I3, I4, I5, I6. split; [exists m; exact Hm|].
  intros Hq. unfold trace_ok. rewrite Hm.
  pose proof (quiescent_accounting c readers workers sched) as QA. cbv zeta in QA. fold r in QA.
  destruct (QA Hq) as [HP _].
  unfold quiescent in Hq. destruct (live (fst r)) eqn:El; [|discriminate].
  unfold live in El. apply app_eq_nil in El. destruct El as [Eh El]. apply app_eq_nil in El. destruct El as [Eq Ew].
  unfold inq in I1. rewrite Eh, Eq in I1. rewrite Ew in I2. cbn in I1, I2.
  apply Permutation_sym, Permutation_nil in I1. apply Permutation_sym, Permutation_nil in I2. rewrite I1, I2.
  rewrite I4, I5, I6, <- app_length. rewrite <- (Permutation_length HP), seq_length, Nat.eqb_refl. reflexivity.
Qed.

(* ---- what acceptance means: the monitor decides the property on a trace -------------------------
   For ANY event trace (of the real receiver or not): if trace_ok accepts it then no datagram id is
   started twice or both started and dropped, every started decode ended, and
   reads = decodes + drops; in blocking mode nothing was dropped. *)
Definition starts (es : list event) : list nat := flat_map (fun e => match e with EStart i _ => [i] | _ => [] end) es.
Definition drops (es : list event) : list nat := flat_map (fun e => match e with EDrop i _ => [i] | _ => [] end) es.
Definition nreads (es : list event) : nat := length (filter (fun e => match e with ERead _ => true | _ => false end) es).
Definition nends (es : list event) : nat := length (filter (fun e => match e with EEnd _ => true | _ => false end) es).

Definition minv (m : mon) : Prop :=
  NoDup (mStarted m ++ mDropped m) /\ NoDup (map fst (mDecoding m)) /\
  incl (map fst (mDecoding m)) (mStarted m) /\
  length (mDecoding m) + mEnded m = length (mStarted m).

Lemma filter_incl_fst (id : nat) (l : list (nat * nat)) :
  incl (map fst (filter (fun x => negb (Nat.eqb (fst x) id)) l)) (map fst l).
Proof.
  intros x Hin. apply in_map_iff in Hin. destruct Hin as (y & <- & Hy). apply filter_In in Hy.
  apply in_map. tauto.
Qed.

Lemma filter_one (id : nat) (l : list (nat * nat)) :
  NoDup (map fst l) -> In id (map fst l) ->
  S (length (filter (fun x => negb (Nat.eqb (fst x) id)) l)) = length l /\
  NoDup (map fst (filter (fun x => negb (Nat.eqb (fst x) id)) l)).
Proof.
  induction l as [|x r IH]; intros Hn Hi; [contradiction|]. cbn [map] in Hn. inversion Hn as [|? ? Hx Hr]; subst.
  cbn [filter]. destruct (Nat.eqb (fst x) id) eqn:E; cbn [negb].
  - apply Nat.eqb_eq in E. subst id.
    assert (G : filter (fun y => negb (Nat.eqb (fst y) (fst x))) r = r).
    { clear -Hx. induction r as [|y r IHr]; [reflexivity|]. cbn [filter].
      destruct (Nat.eqb (fst y) (fst x)) eqn:Ey.
      - exfalso. apply Hx. left. apply Nat.eqb_eq. exact Ey.
      - cbn [negb]. f_equal. apply IHr. intros Hin. apply Hx. right. exact Hin. }
    rewrite G. split; [reflexivity|exact Hr].
  - destruct Hi as [Hi|Hi]; [apply Nat.eqb_neq in E; congruence|].
    destruct (IH Hr Hi) as [H1 H2]. cbn [length map]. split; [lia|].
    constructor; [|exact H2]. intros Hin. apply Hx. eapply filter_incl_fst. exact Hin.
Qed.

Lemma minv_step b m e m' : minv m -> mstep b m e = Some m' ->
  minv m' /\
  mStarted m' = match e with EStart i _ => [i] | _ => [] end ++ mStarted m /\
  mDropped m' = match e with EDrop i _ => [i] | _ => [] end ++ mDropped m /\
  mReads m' = (match e with ERead _ => 1 | _ => 0 end) + mReads m /\
  mEnded m' = (match e with EEnd _ => 1 | _ => 0 end) + mEnded m /\
  (b = true -> mDropped m' = mDropped m).
Proof.
  intros (H1 & H2 & H3 & H4) Hs. destruct e as [bf|id bf|id|id bf]; cbn [mstep] in Hs.
  - destruct (memb bf (mInflight m) || memb bf (map snd (mDecoding m))); [discriminate|]. inversion Hs; subst.
    cbn [mStarted mDropped mDecoding mReads mEnded app]. unfold minv. cbn [mStarted mDropped mDecoding mEnded].
    repeat split; auto.
  - destruct (memb id (mStarted m)) eqn:E1; [discriminate|]. destruct (memb id (mDropped m)) eqn:E2; [discriminate|].
    cbn [orb] in Hs. destruct (negb (memb bf (mInflight m))); [discriminate|]. inversion Hs; subst.
    apply memb_false in E1. apply memb_false in E2.
    unfold minv. cbn [mStarted mDropped mDecoding mReads mEnded app map fst length].
    repeat split; auto.
    + constructor; [|exact H1]. intros Hin. apply in_app_or in Hin. tauto.
    + constructor; [|exact H2]. intros Hin. apply E1. apply H3. exact Hin.
    + intros x [<-|Hx]; [left; reflexivity|right; apply H3; exact Hx].
    + lia.
  - destruct (negb (memb id (map fst (mDecoding m)))) eqn:E; [discriminate|]. inversion Hs; subst.
    apply negb_false_iff, memb_In in E. destruct (filter_one id (mDecoding m) H2 E) as [F1 F2].
    unfold minv. cbn [mStarted mDropped mDecoding mReads mEnded app].
    repeat split; auto.
    + intros x Hx. apply H3. eapply filter_incl_fst. exact Hx.
    + lia.
  - destruct b; [discriminate|]. cbn [orb] in Hs.
    destruct (memb id (mStarted m)) eqn:E1; [discriminate|]. destruct (memb id (mDropped m)) eqn:E2; [discriminate|].
    cbn [orb] in Hs. destruct (negb (memb bf (mInflight m))); [discriminate|]. inversion Hs; subst.
    apply memb_false in E1. apply memb_false in E2.
    unfold minv. cbn [mStarted mDropped mDecoding mReads mEnded app].
    repeat split; auto; try discriminate.
    apply NoDup_Add with (a := id) (l := mStarted m ++ mDropped m); [|split; [exact H1|intros Hin; apply in_app_or in Hin; tauto]].
    apply Add_app.
Qed.

Lemma minv_run b : forall es m m', minv m -> mrun b m es = Some m' ->
  minv m' /\
  mStarted m' = rev (starts es) ++ mStarted m /\
  mDropped m' = rev (drops es) ++ mDropped m /\
  mReads m' = nreads es + mReads m /\
  mEnded m' = nends es + mEnded m /\
  (b = true -> mDropped m' = mDropped m).
Proof.
  induction es as [|e r IH]; intros m m' Hi Hr; cbn [mrun] in Hr.
  - inversion Hr; subst. repeat split; auto; apply Hi.
  - destruct (mstep b m e) as [m1|] eqn:E; [|discriminate].
    destruct (minv_step b m e m1 Hi E) as (Hi1 & S1 & D1 & R1 & E1 & B1).
    destruct (IH m1 m' Hi1 Hr) as (Hi2 & S2 & D2 & R2 & E2 & B2).
    split; [exact Hi2|]. unfold starts, drops, nreads, nends in *. cbn [flat_map filter].
    split; [rewrite S2, S1, rev_app_distr, <- app_assoc; destruct e; reflexivity|].
    split; [rewrite D2, D1, rev_app_distr, <- app_assoc; destruct e; reflexivity|].
    split; [rewrite R2, R1; destruct e; cbn [length]; lia|].
    split; [rewrite E2, E1; destruct e; cbn [length]; lia|].
    intros Hb. rewrite (B2 Hb), (B1 Hb). reflexivity.
Qed.

Theorem monitor_meaning b es :
  trace_ok b es = true ->
  NoDup (starts es ++ drops es) /\            (* no id decoded twice, none both decoded and dropped *)
  length (starts es) = nends es /\            (* every started decoder call ended, once *)
  nreads es = nends es + length (drops es) /\ (* every read is decoded or counted as dropped *)
  (b = true -> drops es = []).
Proof.
  unfold trace_ok. destruct (mrun b mon0 es) as [m|] eqn:E; [|discriminate]. intros H.
  apply andb_prop in H. destruct H as [Hc Hq]. apply Nat.eqb_eq in Hc.
  assert (Hi0 : minv mon0) by (unfold minv, mon0; cbn; repeat split; try constructor; intros x []).
  destruct (minv_run b es mon0 m Hi0 E) as ((N1 & N2 & N3 & N4) & S1 & D1 & R1 & E1 & B1).
  cbn [mon0 mStarted mDropped mReads mEnded] in *. rewrite app_nil_r in S1, D1. rewrite Nat.add_0_r in R1, E1.
  destruct (mInflight m); [|discriminate]. destruct (mDecoding m) eqn:Ed; [|discriminate].
  cbn [length] in N4. rewrite S1, D1 in N1. rewrite S1, rev_length in N4. rewrite D1, rev_length in Hc.
  repeat split.
  - eapply Permutation_NoDup; [|exact N1]. apply Permutation_app; apply Permutation_sym, Permutation_rev.
  - lia.
  - lia.
  - intros Hb. specialize (B1 Hb). rewrite D1 in B1. destruct (drops es) as [|x r]; [reflexivity|].
    apply (f_equal (@length nat)) in B1. rewrite rev_length in B1. discriminate.
Qed.
