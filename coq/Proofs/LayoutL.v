From Coq Require Import List NArith ZArith Lia ZifyN ZifyNat ZifyBool Bool.
From GF Require Import Base.Res Base.Bytes Base.Layout Proofs.BytesL.
Import ListNotations.
Open Scope N_scope.

Lemma enc_fields_len ws : forall vs, fits ws vs = true -> length (enc_fields ws vs) = sum_ws ws.
Proof.
  induction ws as [|w ws IH]; intros [|v vs] H; simpl in *; try discriminate; auto.
  apply andb_prop in H. destruct H as [_ H]. rewrite app_length, enc_be_len, IH; auto.
Qed.

Lemma rd_fields_enc ws : forall vs rest, fits ws vs = true ->
  rd_fields ws (enc_fields ws vs ++ rest) = Ok (vs, rest).
Proof.
  induction ws as [|w ws IH]; intros [|v vs] rest H; simpl in *; try discriminate; auto.
  apply andb_prop in H. destruct H as [Hv H]. apply N.ltb_lt in Hv.
  rewrite <- app_assoc, rd_enc by assumption. rewrite IH by assumption. reflexivity.
Qed.

Lemma rd_fields_ok ws : forall d vs r, wfb d -> rd_fields ws d = Ok (vs, r) ->
  d = enc_fields ws vs ++ r /\ fits ws vs = true /\ wfb r.
Proof.
  induction ws as [|w ws IH]; intros d vs r Hd H; simpl in *.
  - inversion H; subst. auto.
  - destruct (rd w d) as [[v d1]| | |] eqn:E1; try discriminate.
    destruct (rd_fields ws d1) as [[vs' d2]| | |] eqn:E2; try discriminate.
    inversion H; subst. apply rd_ok in E1; auto. destruct E1 as (-> & Hv & Hd1).
    apply IH in E2; auto. destruct E2 as (-> & Hf & Hr).
    rewrite <- app_assoc. split; [reflexivity|]. split; [|assumption].
    apply andb_true_intro. split; [apply N.ltb_lt; assumption|assumption].
Qed.

Lemma rd_fields_len ws : forall d vs r, rd_fields ws d = Ok (vs, r) -> (length r + sum_ws ws = length d)%nat.
Proof.
  induction ws as [|w ws IH]; intros d vs r H; simpl in *.
  - inversion H; subst. lia.
  - destruct (rd w d) as [[v d1]| | |] eqn:E1; try discriminate.
    destruct (rd_fields ws d1) as [[vs' d2]| | |] eqn:E2; try discriminate.
    inversion H; subst. apply rd_len in E1. apply IH in E2. lia.
Qed.

Lemma rd_fields_cases ws : forall d, (exists vs r, rd_fields ws d = Ok (vs, r)) \/ rd_fields ws d = Err EShort.
Proof.
  induction ws as [|w ws IH]; intros d; simpl; eauto.
  destruct (rd_cases w d) as [(x & r & ->)| ->]; auto.
  destruct (IH r) as [(vs & r' & ->)| ->]; eauto.
Qed.

Lemma rd_fields_enough ws : forall d, (sum_ws ws <= length d)%nat -> exists vs r, rd_fields ws d = Ok (vs, r).
Proof.
  induction ws as [|w ws IH]; intros d H; simpl in *; eauto.
  destruct (rd_enough w d) as (x & r & E); [lia|]. rewrite E.
  apply rd_len in E. destruct (IH r) as (vs & r' & ->); [lia|]. eauto.
Qed.
