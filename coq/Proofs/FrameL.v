(* C10, part 1: every layer parser meets its contract on an encoded header, for ALL field values and
   ALL bytes that follow the header (so also for every capture cut after it). *)
From Coq Require Import String NArith ZArith List Bool Arith Lia ZifyN ZifyNat ZifyBool.
From GF Require Import Base.Res Base.Bytes Model.Msg Model.Packet Spec.Frame Proofs.BytesL Proofs.PacketP.
Import ListNotations.
Open Scope N_scope.

Definition assign (a : list (N * pval)) (m : msg) : msg := fold_left (fun m kv => mset m (fst kv) (snd kv)) a m.

(* explicit bytes of the big-endian encodings (no bound needed) *)
Lemma enc_be_1 v : enc_be 1 v = [v mod 256].
Proof. reflexivity. Qed.
Lemma enc_be_2 v : enc_be 2 v = [v / 256 mod 256; v mod 256].
Proof. reflexivity. Qed.
Lemma enc_be_4 v : enc_be 4 v = [v / 256 / 256 / 256 mod 256; v / 256 / 256 mod 256; v / 256 mod 256; v mod 256].
Proof. reflexivity. Qed.
Lemma enc_be_6 v : enc_be 6 v =
  [v / 256 / 256 / 256 / 256 / 256 mod 256; v / 256 / 256 / 256 / 256 mod 256; v / 256 / 256 / 256 mod 256;
   v / 256 / 256 mod 256; v / 256 mod 256; v mod 256].
Proof. reflexivity. Qed.

Lemma be2 v : v < 65536 -> be [v / 256 mod 256; v mod 256] = v.
Proof. intros H. rewrite <- enc_be_2. apply (be_enc 2). exact H. Qed.
Lemma be4 v : v < 4294967296 ->
  be [v / 256 / 256 / 256 mod 256; v / 256 / 256 mod 256; v / 256 mod 256; v mod 256] = v.
Proof. intros H. rewrite <- enc_be_4. apply (be_enc 4). exact H. Qed.
Lemma be6 v : v < 281474976710656 ->
  be [v / 256 / 256 / 256 / 256 / 256 mod 256; v / 256 / 256 / 256 / 256 mod 256; v / 256 / 256 / 256 mod 256;
      v / 256 / 256 mod 256; v / 256 mod 256; v mod 256] = v.
Proof. intros H. rewrite <- enc_be_6. apply (be_enc 6). exact H. Qed.

Lemma len4 {A} (l : list A) : length l = 4%nat -> exists a b c d, l = [a; b; c; d].
Proof. destruct l as [|a [|b [|c [|d [|e r]]]]]; try discriminate. eauto. Qed.
Lemma len16 {A} (l : list A) : length l = 16%nat ->
  exists a0 a1 a2 a3 a4 a5 a6 a7 a8 a9 a10 a11 a12 a13 a14 a15,
    l = [a0; a1; a2; a3; a4; a5; a6; a7; a8; a9; a10; a11; a12; a13; a14; a15].
Proof.
  destruct l as [|a0 [|a1 [|a2 [|a3 [|a4 [|a5 [|a6 [|a7 [|a8 [|a9 [|a10 [|a11 [|a12 [|a13 [|a14 [|a15 [|x r]]]]]]]]]]]]]]]]];
    try discriminate. intros _. do 16 eexists. reflexivity.
Qed.

Ltac subs := cbn [sub firstn skipn Nat.sub byte_at nth length app Nat.ltb Nat.leb].

(* ---- Ethernet ---- *)
Lemma eth_contract ports base m dst src et rest :
  dst < 281474976710656 -> src < 281474976710656 -> et < 65536 ->
  run_parser ports PEthernet base m (enc_be 6 dst ++ enc_be 6 src ++ enc_be 2 et ++ rest) =
  Ok ((if base then assign [(cSrcMac, VI src); (cDstMac, VI dst); (cEtype, VI et)] else (fun x => x)) (add_layer m PEthernet),
      14, next_etype et).
Proof.
  intros Hd Hs He. rewrite !enc_be_6, enc_be_2. cbn [run_parser]. subs.
  rewrite be2 by exact He. rewrite !be6 by assumption. destruct base; reflexivity.
Qed.

(* ---- 802.1Q ---- *)
Lemma dot1q_contract ports base m v et rest :
  v < 65536 -> et < 65536 ->
  run_parser ports PDot1Q base m (enc_be 2 v ++ enc_be 2 et ++ rest) =
  Ok ((if base then assign [(cVlanId, VI v); (cEtype, VI et)] else (fun x => x)) (add_layer m PDot1Q), 4, next_etype et).
Proof.
  intros Hv He. rewrite !enc_be_2. cbn [run_parser]. subs.
  rewrite !be2 by assumption. destruct base; reflexivity.
Qed.

(* ---- IPv4 (no options) ---- *)
Definition ip4_assign (h : ip4) (next : N) : list (N * pval) :=
  [(cSrcAddr, VB (i4Src h)); (cDstAddr, VB (i4Dst h)); (cIpTos, VI (i4Tos h)); (cIpTtl, VI (i4Ttl h));
   (cFragId, VI (i4Id h)); (cFragOff, VI (i4Off h)); (cIpFlags, VI (i4Flags h)); (cProto, VI next)].
Definition wf_ip4 (h : ip4) : bool :=
  (i4Id h <? 65536) && (i4Off h <? 8192) && (i4Flags h <? 8) && Nat.eqb (length (i4Src h)) 4 && Nat.eqb (length (i4Dst h)) 4.

Definition ip4_hdr (h : ip4) (next tl : N) : bytes :=
  [69; i4Tos h] ++ enc_be 2 tl ++ enc_be 2 (i4Id h) ++ enc_be 2 (i4Flags h * 8192 + i4Off h)
    ++ [i4Ttl h; next] ++ enc_be 2 0 ++ i4Src h ++ i4Dst h.
Lemma enc_l3_v4 h next payload : enc_l3 (L3v4 h) next payload = ip4_hdr h next (20 + lenN payload) ++ payload.
Proof. unfold enc_l3, ip4_hdr. rewrite <- !app_assoc. reflexivity. Qed.

Lemma ip4_contract ports base m h next tl rest :
  wf_ip4 h = true ->
  run_parser ports PIPv4 base m (ip4_hdr h next tl ++ rest) =
  Ok ((if base then assign (ip4_assign h next) else (fun x => x)) (add_layer m PIPv4), 20, next_proto next).
Proof.
  unfold wf_ip4. intros H. repeat (apply andb_prop in H; destruct H as [H ?]).
  repeat match goal with X : (_ <? _) = true |- _ => apply N.ltb_lt in X | X : Nat.eqb _ _ = true |- _ => apply Nat.eqb_eq in X end.
  destruct h as [tos ttl id off fl src dst]. cbn [i4Tos i4Ttl i4Id i4Off i4Flags i4Src i4Dst] in *.
  destruct (len4 src) as (s0 & s1 & s2 & s3 & ->); [assumption|].
  destruct (len4 dst) as (d0 & d1 & d2 & d3 & ->); [assumption|].
  unfold ip4_hdr, ip4_assign. cbn [i4Tos i4Ttl i4Id i4Off i4Flags i4Src i4Dst]. rewrite !enc_be_2. cbn [run_parser]. subs.
  rewrite (be2 id) by assumption. rewrite (be2 (fl * 8192 + off)) by lia.
  replace ((fl * 8192 + off) mod 8192) with off by lia. replace ((fl * 8192 + off) / 8192) with fl by lia.
  destruct base; reflexivity.
Qed.
Lemma ip4_hdr_len h next tl : wf_ip4 h = true -> length (ip4_hdr h next tl) = 20%nat.
Proof.
  unfold wf_ip4. intros H. repeat (apply andb_prop in H; destruct H as [H ?]).
  repeat match goal with X : Nat.eqb _ _ = true |- _ => apply Nat.eqb_eq in X end.
  unfold ip4_hdr. rewrite !app_length, !enc_be_len. cbn [length]. lia.
Qed.

(* ---- IPv6 fixed header ---- *)
Definition ip6_assign (h : ip6) (nh : N) : list (N * pval) :=
  [(cSrcAddr, VB (i6Src h)); (cDstAddr, VB (i6Dst h)); (cIpTos, VI (i6Tc h)); (cIpTtl, VI (i6Hop h));
   (cFlowLabel, VI (i6Flow h)); (cProto, VI nh)].
Definition wf_ip6_base (h : ip6) : bool :=
  (i6Tc h <? 256) && (i6Flow h <? 1048576) && Nat.eqb (length (i6Src h)) 16 && Nat.eqb (length (i6Dst h)) 16.

Definition ip6_hdr (h : ip6) (nh plen : N) : bytes :=
  enc_be 4 (6 * 268435456 + i6Tc h * 1048576 + i6Flow h) ++ enc_be 2 plen ++ [nh; i6Hop h] ++ i6Src h ++ i6Dst h.
Lemma enc_l3_v6 h next payload :
  enc_l3 (L3v6 h) next payload =
  ip6_hdr h (fst (v6_chain h next)) (lenN (snd (v6_chain h next)) + lenN payload) ++ snd (v6_chain h next) ++ payload.
Proof. unfold enc_l3, ip6_hdr. destruct (v6_chain h next) as [nh ext]. cbn [fst snd]. rewrite <- !app_assoc. reflexivity. Qed.

Lemma ip6_contract ports base m h plen nh rest :
  wf_ip6_base h = true ->
  run_parser ports PIPv6 base m (ip6_hdr h nh plen ++ rest) =
  Ok ((if base then assign (ip6_assign h nh) else (fun x => x)) (add_layer m PIPv6), 40, next_proto nh).
Proof.
  unfold wf_ip6_base. intros H. repeat (apply andb_prop in H; destruct H as [H ?]).
  repeat match goal with X : (_ <? _) = true |- _ => apply N.ltb_lt in X | X : Nat.eqb _ _ = true |- _ => apply Nat.eqb_eq in X end.
  destruct h as [tc flow hop src dst srh frag]. cbn [i6Tc i6Flow i6Hop i6Src i6Dst] in *.
  destruct (len16 src) as (s0 & s1 & s2 & s3 & s4 & s5 & s6 & s7 & s8 & s9 & s10 & s11 & s12 & s13 & s14 & s15 & ->); [assumption|].
  destruct (len16 dst) as (d0 & d1 & d2 & d3 & d4 & d5 & d6 & d7 & d8 & d9 & d10 & d11 & d12 & d13 & d14 & d15 & ->); [assumption|].
  unfold ip6_hdr, ip6_assign. cbn [i6Tc i6Flow i6Hop i6Src i6Dst]. rewrite enc_be_4, enc_be_2. cbn [run_parser]. subs.
  set (w := 6 * 268435456 + tc * 1048576 + flow).
  assert (Hw : w < 4294967296) by (unfold w; lia).
  rewrite (be4 w) by exact Hw.
  replace (be [w / 256 / 256 / 256 mod 256; w / 256 / 256 mod 256] / 16 mod 256) with tc
    by (cbn [be fold_left]; unfold w; lia).
  replace (w mod 1048576) with flow by (unfold w; lia).
  destruct base; reflexivity.
Qed.
Lemma ip6_hdr_len h nh plen : wf_ip6_base h = true -> length (ip6_hdr h nh plen) = 40%nat.
Proof.
  unfold wf_ip6_base. intros H. repeat (apply andb_prop in H; destruct H as [H ?]).
  repeat match goal with X : Nat.eqb _ _ = true |- _ => apply Nat.eqb_eq in X end.
  unfold ip6_hdr. rewrite !app_length, !enc_be_len. cbn [length]. lia.
Qed.
(* ---- IPv6 fragment header ---- *)
Lemma frag_contract ports base m next off fl id rest :
  off < 8192 -> fl < 8 -> id < 4294967296 ->
  run_parser ports PV6Frag base m (enc_frag next (off, fl, id) ++ rest) =
  Ok ((if base then assign [(cFragId, VI id); (cFragOff, VI off); (cIpFlags, VI fl)] else (fun x => x)) (add_layer m PV6Frag),
      8, next_proto next).
Proof.
  intros Ho Hf Hi. unfold enc_frag. rewrite enc_be_2, enc_be_4. cbn [run_parser]. subs.
  rewrite (be4 id) by exact Hi. rewrite (be2 (off * 8 + fl)) by lia.
  replace ((off * 8 + fl) / 8) with off by lia. replace ((off * 8 + fl) mod 8) with fl by lia.
  destruct base; reflexivity.
Qed.

(* ---- TCP, UDP, ICMP, GRE ---- *)
Lemma tcp_contract base m sp dp fl ow rest :
  sp < 65536 -> dp < 65536 -> ow <= 10 ->
  run_parser [] PTCP base m (enc_l4 (L4TCP sp dp fl ow) ++ rest) =
  Ok ((if base then assign [(cSrcPort, VI sp); (cDstPort, VI dp); (cTcpFlags, VI fl)] else (fun x => x)) (add_layer m PTCP),
      20 + 4 * ow, PNone).
Proof.
  intros Hs Hd Ho. unfold enc_l4. rewrite !enc_be_2, !enc_be_4. rewrite <- !app_assoc. cbn [run_parser]. subs.
  rewrite !be2 by assumption. unfold next_port. cbn [find].
  replace (16 * (5 + ow) / 16 * 4) with (20 + 4 * ow) by lia.
  replace (20 + 4 * ow <? 20) with false by lia.
  destruct base; reflexivity.
Qed.

Lemma udp_contract base m sp dp rest :
  sp < 65536 -> dp < 65536 ->
  run_parser [] PUDP base m (enc_l4 (L4UDP sp dp) ++ rest) =
  Ok ((if base then assign [(cSrcPort, VI sp); (cDstPort, VI dp)] else (fun x => x)) (add_layer m PUDP), 8, PNone).
Proof.
  intros Hs Hd. unfold enc_l4. rewrite !enc_be_2. cbn [run_parser]. subs.
  rewrite !be2 by assumption. unfold next_port. cbn [find]. destruct base; reflexivity.
Qed.

Lemma icmp_contract ports base m (six : bool) t c rest :
  run_parser ports (if six then PICMPv6 else PICMP) base m ([t; c] ++ enc_be 2 0 ++ enc_be 4 1 ++ rest) =
  Ok ((if base then assign [(cIcmpType, VI t); (cIcmpCode, VI c)] else (fun x => x))
        (add_layer m (if six then PICMPv6 else PICMP)), 8, PNone).
Proof. rewrite enc_be_2, enc_be_4. destruct six; cbn [run_parser]; subs; destruct base; reflexivity. Qed.

Lemma gre_contract ports base m et rest :
  et < 65536 ->
  run_parser ports PGRE base m ([0; 0] ++ enc_be 2 et ++ rest) = Ok (add_layer m PGRE, 4, next_etype et).
Proof. intros He. rewrite enc_be_2. cbn [run_parser]. subs. rewrite be2 by exact He. reflexivity. Qed.

(* a capture that ends before the header is complete: the parser stops and sets nothing *)
Definition min_len (p : parser) : nat :=
  match p with
  | PEthernet => 14 | PDot1Q | PMPLS | PGRE => 4 | PIPv4 | PTCP => 20 | PIPv6 => 40
  | PV6Frag | PV6Route | PUDP | PGeneve => 8 | PICMP | PICMPv6 => 2 | PNone | PTeredo => 0
  end%nat.
Lemma short_stops ports p base m d : (length d < min_len p)%nat -> run_parser ports p base m d = Ok (m, 0, PNone).
Proof.
  intros H. destruct p; cbn [min_len] in H; try lia; cbn [run_parser];
    match goal with |- context [Nat.ltb ?a ?b] => replace (Nat.ltb a b) with true by (symmetry; apply Nat.ltb_lt; lia) end;
    reflexivity.
Qed.

(* ---- reading behind a prefix ---- *)
Lemma sub_pre (pre x : bytes) k : sub (pre ++ x) (length pre) (length pre + k) = firstn k x.
Proof. unfold sub. replace (length pre + k - length pre)%nat with k by lia. rewrite skipn_exact. reflexivity. Qed.
Lemma byte_at_pre (pre x : bytes) j : byte_at (pre ++ x) (length pre + j) = nth j x 0.
Proof. unfold byte_at. rewrite app_nth2 by lia. f_equal. lia. Qed.

(* ---- IPv6 routing header, type 4 (SRv6) ---- *)
Lemma srv6_loop_spec rest : forall segs pre acc fuel off entry last size,
  Forall (fun s => length s = 16%nat) segs ->
  length pre = (8 + off)%nat -> size = (8 + off + 16 * length segs)%nat ->
  entry + lenN segs <= last + 1 -> (length segs < fuel)%nat ->
  srv6_loop fuel (pre ++ concat segs ++ rest) size off entry last acc = acc ++ segs.
Proof.
  induction segs as [|s q IH]; intros pre acc fuel off entry last size Hs Hp Hz He Hf.
  - destruct fuel; [lia|]. cbn [srv6_loop]. cbn [length] in Hz.
    replace (Nat.ltb (8 + off) size) with false by (symmetry; apply Nat.ltb_ge; lia).
    cbn [andb]. rewrite app_nil_r. reflexivity.
  - destruct fuel; [cbn [length] in Hf; lia|]. cbn [srv6_loop]. inversion Hs as [|? ? Hs1 Hsq]; subst.
    cbn [length] in *. unfold lenN in He. cbn [length] in He.
    replace (Nat.ltb (8 + off) (8 + off + 16 * S (length q))) with true by (symmetry; apply Nat.ltb_lt; lia).
    replace (Nat.leb (8 + off + 16) (length (pre ++ concat (s :: q) ++ rest))) with true
      by (symmetry; apply Nat.leb_le; cbn [concat]; rewrite !app_length; lia).
    replace (entry <=? last) with true by lia. cbn [andb].
    rewrite <- Hp. cbn [concat]. rewrite <- !app_assoc. rewrite sub_pre.
    replace (firstn 16 (s ++ concat q ++ rest)) with s by (symmetry; rewrite <- Hs1; apply firstn_exact).
    rewrite (app_assoc pre s). rewrite Hp.
    rewrite (IH (pre ++ s) (acc ++ [s]) fuel (off + 16)%nat (entry + 1) last); try assumption.
    + rewrite <- app_assoc. reflexivity.
    + rewrite app_length. lia.
    + lia.
    + unfold lenN. lia.
    + lia.
Qed.

Definition wf_srh (s : N * list bytes) : bool :=
  (lenN (snd s) <=? 127) && forallb (fun x => Nat.eqb (length x) 16) (snd s).

Lemma srh_contract ports base m next sl segs rest :
  wf_srh (sl, segs) = true -> mgetLB m cRhAddrs = [] ->
  run_parser ports PV6Route base m (enc_srh next (sl, segs) ++ rest) =
  Ok ((if base then assign [(cRhSegLeft, VI sl); (cRhAddrs, VLB segs)] else (fun x => x)) (add_layer m PV6Route),
      8 + 16 * lenN segs, next_proto next).
Proof.
  unfold wf_srh. cbn [snd]. intros H Hm. apply andb_prop in H. destruct H as [Hn Hs]. apply N.leb_le in Hn.
  assert (Hs' : Forall (fun s => length s = 16%nat) segs).
  { apply Forall_forall. intros x Hx. rewrite forallb_forall in Hs. apply Nat.eqb_eq. apply Hs. exact Hx. }
  unfold enc_srh. cbn [run_parser]. rewrite <- app_assoc.
  set (d := [next; 2 * lenN segs; 4; sl; (lenN segs + 255) mod 256; 0; 0; 0] ++ concat segs ++ rest).
  assert (Hlen : (8 <= length d)%nat) by (unfold d; rewrite app_length; cbn [length]; lia).
  replace (Nat.ltb (length d) 8) with false by (symmetry; apply Nat.ltb_ge; exact Hlen).
  change (byte_at d 0) with next. change (byte_at d 1) with (2 * lenN segs). change (byte_at d 2) with 4.
  change (byte_at d 3) with sl. change (byte_at d 4) with ((lenN segs + 255) mod 256).
  replace (N.of_nat (8 + 8 * N.to_nat (2 * lenN segs))) with (8 + 16 * lenN segs) by (unfold lenN; lia).
  destruct base; [|reflexivity].
  cbn [N.eqb Pos.eqb]. f_equal. f_equal. f_equal.
  unfold assign. cbn [fold_left fst snd]. unfold msetI at 1. f_equal. f_equal.
  replace (mgetLB (msetI (add_layer m PV6Route) cRhSegLeft sl) cRhAddrs) with (@nil bytes) by (symmetry; exact Hm).
  unfold d. change [next; 2 * lenN segs; 4; sl; (lenN segs + 255) mod 256; 0; 0; 0] with ([next; 2 * lenN segs; 4; sl; (lenN segs + 255) mod 256; 0; 0; 0] : bytes).
  rewrite (srv6_loop_spec rest segs _ [] _ 0%nat 0 ((lenN segs + 255) mod 256)); try assumption; try reflexivity.
  - clear Hlen. clearbody d. unfold lenN, bytes. lia.
  - clear -Hn. unfold lenN, bytes in *. destruct segs as [|s q]; cbn [length] in *; lia.
  - fold d. assert (length d >= 8 + 16 * length segs)%nat; [|clear -H; unfold bytes in *; lia].
    unfold d. rewrite !app_length. cbn [length].
    assert (length (concat segs) = 16 * length segs)%nat; [|lia].
    clear -Hs'. induction Hs' as [|x l Hx _ IH]; [reflexivity|]. cbn [concat length]. rewrite app_length. lia.
Qed.

(* ---- MPLS label stack ---- *)
Definition mpls_entry (bottom : bool) (lt : N * N) : bytes :=
  enc_be 4 (fst lt * 4096 + (if bottom then 256 else 0) + snd lt).
Fixpoint mpls_bytes (ls : list (N * N)) : bytes :=
  match ls with
  | [] => []
  | [x] => mpls_entry true x
  | x :: r => mpls_entry false x ++ mpls_bytes r
  end.
Definition wf_label (lt : N * N) : bool := (15 <? fst lt) && (fst lt <? 1048576) && (snd lt <? 256).

Lemma enc_mpls_from i n ls : (i + length ls = n)%nat ->
  concat (map (fun il : nat * (N * N) => let '(i0, (l, ttl)) := il in
                enc_be 4 (l * 4096 + (if Nat.eqb (S i0) n then 256 else 0) + ttl)) (combine (seq i (length ls)) ls)) =
  mpls_bytes ls.
Proof.
  revert i. induction ls as [|[l t] r IH]; intros i H; [reflexivity|].
  cbn [length seq combine map concat]. cbn [length] in H. destruct r as [|y r'].
  - cbn [length seq combine map concat mpls_bytes]. rewrite app_nil_r. unfold mpls_entry. cbn [fst snd].
    replace (Nat.eqb (S i) n) with true by (symmetry; apply Nat.eqb_eq; cbn [length] in H; lia). reflexivity.
  - rewrite (IH (S i)) by lia. cbn [mpls_bytes]. unfold mpls_entry at 1. cbn [fst snd].
    replace (Nat.eqb (S i) n) with false by (symmetry; apply Nat.eqb_neq; cbn [length] in H; lia). reflexivity.
Qed.
Lemma enc_mpls_bytes ls : enc_mpls ls = mpls_bytes ls.
Proof. unfold enc_mpls. apply enc_mpls_from. reflexivity. Qed.

Lemma mpls_bytes_len ls : length (mpls_bytes ls) = (4 * length ls)%nat.
Proof.
  induction ls as [|x r IH]; [reflexivity|]. destruct r as [|y r'].
  - unfold mpls_bytes, mpls_entry. rewrite enc_be_len. reflexivity.
  - change (mpls_bytes (x :: y :: r')) with (mpls_entry false x ++ mpls_bytes (y :: r')).
    rewrite app_length, IH. unfold mpls_entry. rewrite enc_be_len. cbn [length]. lia.
Qed.

Definition peek_etype (rest : bytes) : option N :=
  match rest with
  | [] => None
  | b :: _ => let nib := b / 16 in if nib =? 4 then Some 2048 else if nib =? 6 then Some 34525 else None
  end.

Lemma mpls_entry_fields pre bottom l t r :
  15 < l -> l < 1048576 -> t < 256 ->
  let d := pre ++ mpls_entry bottom (l, t) ++ r in
  let off := length pre in
  be (sub d off (off + 3)) / 16 = l /\ byte_at d (off + 2) mod 2 = (if bottom then 1 else 0) /\ byte_at d (off + 3) = t.
Proof.
  intros Hl Hl2 Ht d off. unfold d, off. rewrite sub_pre, !byte_at_pre.
  unfold mpls_entry. cbn [fst snd]. rewrite enc_be_4. cbn [firstn app nth be fold_left].
  set (w := l * 4096 + (if bottom then 256 else 0) + t).
  assert (Hw : w = l * 4096 + (if bottom then 256 else 0) + t) by reflexivity.
  destruct bottom; repeat split; lia.
Qed.

Lemma mpls_loop_spec rest : forall ls pre accL accT fuel,
  ls <> [] -> forallb wf_label ls = true -> (length ls <= fuel)%nat ->
  mpls_loop fuel (pre ++ mpls_bytes ls ++ rest) (length pre) accL accT =
  (accL ++ map fst ls, accT ++ map snd ls, (length pre + 4 * length ls)%nat, peek_etype rest).
Proof.
  induction ls as [|[l t] q IH]; intros pre accL accT fuel Hne Hwf Hf; [congruence|].
  cbn [forallb] in Hwf. apply andb_prop in Hwf. destruct Hwf as [Hx Hq].
  unfold wf_label in Hx. cbn [fst snd] in Hx. apply andb_prop in Hx. destruct Hx as [Hx Ht]. apply andb_prop in Hx. destruct Hx as [Hl1 Hl2].
  apply N.ltb_lt in Hl1. apply N.ltb_lt in Hl2. apply N.ltb_lt in Ht.
  destruct fuel; [cbn [length] in Hf; lia|]. cbn [mpls_loop].
  destruct q as [|y q'].
  - (* bottom of stack *)
    cbn [mpls_bytes].
    replace (Nat.ltb (length (pre ++ mpls_entry true (l, t) ++ rest)) (length pre + 4)) with false
      by (symmetry; apply Nat.ltb_ge; rewrite !app_length; unfold mpls_entry; rewrite enc_be_len; lia).
    destruct (mpls_entry_fields pre true l t rest Hl1 Hl2 Ht) as (E1 & E2 & E3). cbv zeta in E1, E2, E3.
    rewrite E1, E2, E3. cbn [N.eqb Pos.eqb orb map fst snd length].
    match goal with |- (?a, ?b, ?c, ?d) = (?a', ?b', ?c', ?d') => replace d with d'; [replace c with c' by lia; reflexivity|] end.
    symmetry.
    (* the peek at the byte after the stack *)
    unfold peek_etype. destruct rest as [|b rest'].
    + replace (Nat.ltb (length pre + 4) (length (pre ++ mpls_entry true (l, t) ++ []))) with false
        by (symmetry; apply Nat.ltb_ge; rewrite !app_length; unfold mpls_entry; rewrite enc_be_len; cbn [length]; lia).
      reflexivity.
    + replace (Nat.ltb (length pre + 4) (length (pre ++ mpls_entry true (l, t) ++ b :: rest'))) with true
        by (symmetry; apply Nat.ltb_lt; rewrite !app_length; unfold mpls_entry; rewrite enc_be_len; cbn [length]; lia).
      replace (byte_at (pre ++ mpls_entry true (l, t) ++ b :: rest') (length pre + 4)) with b; [reflexivity|].
      rewrite app_assoc. replace (length pre + 4)%nat with (length (pre ++ mpls_entry true (l, t)) + 0)%nat
        by (rewrite app_length; unfold mpls_entry; rewrite enc_be_len; lia).
      rewrite byte_at_pre. reflexivity.
  - change (mpls_bytes ((l, t) :: y :: q')) with (mpls_entry false (l, t) ++ mpls_bytes (y :: q')).
    rewrite <- app_assoc.
    replace (Nat.ltb (length (pre ++ mpls_entry false (l, t) ++ mpls_bytes (y :: q') ++ rest)) (length pre + 4)) with false
      by (symmetry; apply Nat.ltb_ge; rewrite !app_length; unfold mpls_entry; rewrite enc_be_len; lia).
    destruct (mpls_entry_fields pre false l t (mpls_bytes (y :: q') ++ rest) Hl1 Hl2 Ht) as (E1 & E2 & E3). cbv zeta in E1, E2, E3.
    rewrite E1, E2, E3. cbn [N.eqb orb].
    replace (l <=? 15) with false by lia.
    rewrite (app_assoc pre (mpls_entry false (l, t))).
    replace (length pre + 4)%nat with (length (pre ++ mpls_entry false (l, t)))
      by (rewrite app_length; unfold mpls_entry; rewrite enc_be_len; reflexivity).
    rewrite IH; [|discriminate|exact Hq|cbn [length] in *; lia].
    rewrite <- !app_assoc. cbn [map fst snd app length].
    f_equal. f_equal. rewrite app_length. unfold mpls_entry. rewrite enc_be_len. lia.
Qed.

Lemma mpls_contract ports base m ls rest e :
  ls <> [] -> forallb wf_label ls = true -> peek_etype rest = Some e ->
  run_parser ports PMPLS base m (enc_mpls ls ++ rest) =
  Ok ((if base then assign [(cEtype, VI e); (cMplsLabel, VLI (map fst ls)); (cMplsTtl, VLI (map snd ls))] else (fun x => x))
        (add_layer m PMPLS), 4 * lenN ls, next_etype e).
Proof.
  intros Hne Hwf He. rewrite enc_mpls_bytes. cbn [run_parser].
  replace (Nat.ltb (length (mpls_bytes ls ++ rest)) 4) with false
    by (symmetry; apply Nat.ltb_ge; rewrite app_length, mpls_bytes_len; destruct ls; [congruence|cbn [length]; lia]).
  pose proof (mpls_loop_spec rest ls [] [] [] (S (length (mpls_bytes ls ++ rest))) Hne Hwf) as L.
  cbn [app length] in L. rewrite L by (rewrite app_length, mpls_bytes_len; lia).
  rewrite He. replace (N.of_nat (0 + 4 * length ls)) with (4 * lenN ls) by (unfold lenN; lia).
  destruct base; reflexivity.
Qed.

(* what ParseMPLS sees behind the label stack: the version nibble of the IP header *)
Lemma peek_ip4 h next tl rest : peek_etype (ip4_hdr h next tl ++ rest) = Some 2048.
Proof. reflexivity. Qed.
Lemma peek_ip6 h nh plen rest : wf_ip6_base h = true -> peek_etype (ip6_hdr h nh plen ++ rest) = Some 34525.
Proof.
  unfold wf_ip6_base. intros H. repeat (apply andb_prop in H; destruct H as [H ?]).
  repeat match goal with X : (_ <? _) = true |- _ => apply N.ltb_lt in X end.
  unfold ip6_hdr. rewrite enc_be_4. cbn [app peek_etype].
  set (w := 6 * 268435456 + i6Tc h * 1048576 + i6Flow h).
  replace (w / 256 / 256 / 256 mod 256 / 16) with 6 by (unfold w; lia). reflexivity.
Qed.
