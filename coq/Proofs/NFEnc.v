(* Round trip of the v9/IPFIX decoder over the RFC encoder (C03). *)
From Coq Require Import List NArith ZArith Lia ZifyN ZifyNat ZifyBool Bool.
From GF Require Import Base.Res Base.Bytes Base.Layout Model.NF Spec.EncNF Proofs.BytesL Proofs.LayoutL.
Import ListNotations.
Open Scope N_scope.
Ltac Zify.zify_post_hook ::= Z.div_mod_to_equations.

Ltac bsplit :=
  repeat match goal with
         | H : _ && _ = true |- _ => apply andb_prop in H; destruct H
         end.

(* ---- fields ---- *)
Lemma dec_field_enc ver f rest :
  wf_afield ver f = true -> (ver = 9 \/ ver = 10) ->
  dec_field (ver =? 10) (enc_afield f ++ rest) = Ok (field_of (ver =? 10) f, rest).
Proof.
  intros Hwf Hv. unfold wf_afield in Hwf. bsplit.
  unfold dec_field, enc_afield, field_of.
  destruct Hv as [-> | ->]; cbn [N.eqb Pos.eqb] in *.
  - bsplit. destruct (aEnt f); [discriminate|].
    rewrite <- !app_assoc. rewrite ?rd_enc2, ?rd_enc4 by lia. rewrite ?rd_enc2, ?rd_enc4 by lia.
    reflexivity.
  - destruct (aEnt f).
    + rewrite <- !app_assoc. rewrite ?rd_enc2, ?rd_enc4 by lia. rewrite ?rd_enc2, ?rd_enc4 by lia.
      cbn [andb]. replace (32768 <=? 32768 + aId f) with true by lia.
      rewrite ?rd_enc2, ?rd_enc4 by lia. replace (32768 + aId f - 32768) with (aId f) by lia. reflexivity.
    + rewrite <- !app_assoc. rewrite ?rd_enc2, ?rd_enc4 by lia. rewrite ?rd_enc2, ?rd_enc4 by lia.
      cbn [andb]. replace (32768 <=? aId f) with false by lia. reflexivity.
Qed.

(* v9 options templates use pen=false, IPFIX ones pen=true: both equal (ver =? 10) *)
Lemma dec_field_list_enc ver fs : forall rest,
  forallb (wf_afield ver) fs = true -> (ver = 9 \/ ver = 10) ->
  dec_field_list (length fs) (ver =? 10) (concat (map enc_afield fs) ++ rest)
  = Ok (map (field_of (ver =? 10)) fs, rest).
Proof.
  induction fs as [|f fs IH]; intros rest Hwf Hv; [reflexivity|].
  cbn [forallb] in Hwf. bsplit. cbn [length dec_field_list map concat].
  rewrite <- app_assoc. rewrite dec_field_enc by assumption. rewrite IH by assumption. reflexivity.
Qed.

Lemma enc_afield_len f : (4 <= length (enc_afield f))%nat.
Proof. unfold enc_afield. destruct (aEnt f); rewrite !app_length, !enc_be_len; lia. Qed.

(* ---- template sets ---- *)
Definition wf_trec ver (t : N * list afield) : bool :=
  (fst t <? 65536) && (lenN (snd t) <? 65536) && forallb (wf_afield ver) (snd t).

Lemma enc_trec_len t : (4 <= length (enc_trec t))%nat.
Proof. unfold enc_trec. rewrite !app_length, !enc_be_len. lia. Qed.

Lemma length_concat_ge {A} (f : A -> bytes) k (l : list A) :
  (forall x, (k <= length (f x))%nat) -> (k * length l <= length (concat (map f l)))%nat.
Proof.
  intros H. induction l as [|x l IH]; [simpl; lia|].
  cbn [map concat length]. rewrite app_length. specialize (H x). lia.
Qed.

Lemma dec_template_set_enc ver ts : forall fuel,
  forallb (wf_trec ver) ts = true -> (ver = 9 \/ ver = 10) -> (length ts < fuel)%nat ->
  dec_template_set fuel ver (concat (map enc_trec ts)) = Ok (map (trec_of ver) ts).
Proof.
  induction ts as [|t ts IH]; intros fuel Hwf Hv Hf.
  - destruct fuel; [simpl in Hf; lia|]. reflexivity.
  - destruct fuel; [simpl in Hf; lia|]. cbn [forallb] in Hwf. bsplit.
    match goal with H : wf_trec _ _ = true |- _ => unfold wf_trec in H end. bsplit.
    cbn [map concat dec_template_set].
    replace (Nat.leb 4 _) with true
      by (symmetry; apply Nat.leb_le; rewrite app_length; pose proof (enc_trec_len t); lia).
    unfold enc_trec at 1. rewrite <- !app_assoc.
    rewrite ?rd_enc2, ?rd_enc4 by lia. rewrite ?rd_enc2, ?rd_enc4 by lia.
    unfold lenN at 1. rewrite Nat2N.id.
    rewrite dec_field_list_enc by assumption.
    rewrite IH by (auto; simpl in Hf; lia).
    reflexivity.
Qed.

Definition wf_otrec ver (t : N * (list afield * list afield)) : bool :=
  let '(id, (sc, op)) := t in
  (id <? 65536) && (4 * lenN sc <? 65536) && (4 * lenN op <? 65536) &&
  (lenN sc + lenN op <? 65536) && forallb (wf_afield ver) sc && forallb (wf_afield ver) op.

Lemma enc_orec_len ver t : (4 <= length (enc_orec ver t))%nat.
Proof.
  unfold enc_orec. destruct t as (id & sc & op).
  destruct (ver =? 9); rewrite !app_length, !enc_be_len; lia.
Qed.

Lemma dec_v9_opt_enc ts : forall fuel,
  forallb (wf_otrec 9) ts = true -> (length ts < fuel)%nat ->
  dec_v9_opt_template_set fuel (concat (map (enc_orec 9) ts)) = Ok (map (orec_of 9) ts).
Proof.
  induction ts as [|t ts IH]; intros fuel Hwf Hf.
  - destruct fuel; [simpl in Hf; lia|]. reflexivity.
  - destruct fuel; [simpl in Hf; lia|]. cbn [forallb] in Hwf. bsplit.
    destruct t as (id & sc & op).
    match goal with H : wf_otrec _ _ = true |- _ => unfold wf_otrec in H end. bsplit.
    cbn [map concat dec_v9_opt_template_set].
    replace (Nat.leb 4 _) with true
      by (symmetry; apply Nat.leb_le; rewrite app_length; pose proof (enc_orec_len 9 (id, (sc, op))); lia).
    unfold enc_orec at 1. cbn [N.eqb Pos.eqb]. rewrite <- !app_assoc.
    rewrite ?rd_enc2, ?rd_enc4 by lia. rewrite ?rd_enc2, ?rd_enc4 by lia. rewrite ?rd_enc2, ?rd_enc4 by lia.
    replace (N.to_nat (4 * lenN sc / 4)) with (length sc) by (unfold lenN; lia).
    replace (N.to_nat (4 * lenN op / 4)) with (length op) by (unfold lenN; lia).
    change false with (9 =? 10).
    rewrite dec_field_list_enc by auto. rewrite dec_field_list_enc by auto.
    rewrite IH by (auto; simpl in Hf; lia).
    reflexivity.
Qed.

Lemma dec_ipfix_opt_enc ts : forall fuel,
  forallb (wf_otrec 10) ts = true -> (length ts < fuel)%nat ->
  dec_ipfix_opt_template_set fuel (concat (map (enc_orec 10) ts)) = Ok (map (orec_of 10) ts).
Proof.
  induction ts as [|t ts IH]; intros fuel Hwf Hf.
  - destruct fuel; [simpl in Hf; lia|]. reflexivity.
  - destruct fuel; [simpl in Hf; lia|]. cbn [forallb] in Hwf. bsplit.
    destruct t as (id & sc & op).
    match goal with H : wf_otrec _ _ = true |- _ => unfold wf_otrec in H end. bsplit.
    cbn [map concat dec_ipfix_opt_template_set].
    replace (Nat.leb 4 _) with true
      by (symmetry; apply Nat.leb_le; rewrite app_length; pose proof (enc_orec_len 10 (id, (sc, op))); lia).
    unfold enc_orec at 1. cbn [N.eqb Pos.eqb]. rewrite <- !app_assoc.
    rewrite ?rd_enc2, ?rd_enc4 by lia. rewrite ?rd_enc2, ?rd_enc4 by lia. rewrite ?rd_enc2, ?rd_enc4 by lia.
    replace (N.to_nat (lenN sc)) with (length sc) by (unfold lenN; lia).
    change true with (10 =? 10).
    rewrite dec_field_list_enc by auto.
    replace (lenN sc + lenN op <? lenN sc) with false by lia.
    replace (N.to_nat (lenN sc + lenN op - lenN sc)) with (length op) by (unfold lenN; lia).
    rewrite dec_field_list_enc by auto.
    rewrite IH by (auto; simpl in Hf; lia).
    reflexivity.
Qed.

(* ---- values ---- *)
Lemma field_of_len pen f : fLen (field_of pen f) = aLen f.
Proof. unfold field_of. destruct (pen && aEnt f); reflexivity. Qed.

Lemma wfbb_wfb v : wfbb v = true -> wfb v.
Proof.
  unfold wfbb, wfb. intros H. apply Forall_forall. intros x Hx.
  rewrite forallb_forall in H. apply H in Hx. lia.
Qed.


Lemma rd1_cons b rest : rd 1 (b :: rest) = Ok (b, rest).
Proof. unfold rd, read. cbn [length Nat.leb firstn skipn]. unfold be. cbn [fold_left]. f_equal. Qed.

Lemma dec_value_enc pen f v rest :
  wf_value f v = true ->
  dec_value (field_of pen f) (enc_value f v ++ rest) =
  Ok ({| dPenP := fPenP (field_of pen f); dType := fType (field_of pen f);
         dPen := fPen (field_of pen f); dVal := Some v |}, rest).
Proof.
  intros Hwf. unfold wf_value in Hwf. bsplit.
  unfold dec_value, enc_value. rewrite field_of_len.
  destruct (aLen f =? 65535) eqn:E.
  - destruct (lenN v <? 255) eqn:E2.
    + cbn [app]. rewrite rd1_cons.
      replace (lenN v =? 255) with false by lia.
      unfold lenN. rewrite Nat2N.id. rewrite next_app by reflexivity. reflexivity.
    + cbn [app]. rewrite rd1_cons. cbn [N.eqb Pos.eqb].
      rewrite <- app_assoc. rewrite rd_enc2 by lia.
      unfold lenN. rewrite Nat2N.id. rewrite next_app by reflexivity. reflexivity.
  - rewrite next_app by (unfold lenN in *; lia). reflexivity.
Qed.

Lemma dec_values_enc pen fs : forall vs rest,
  wf_values fs vs = true ->
  dec_values (map (field_of pen) fs) (enc_values fs vs ++ rest) = Ok (dfields_of pen fs vs, rest).
Proof.
  induction fs as [|f fs IH]; intros [|v vs] rest H; cbn [wf_values] in H; try discriminate; [reflexivity|].
  bsplit. cbn [map enc_values dec_values]. rewrite <- app_assoc.
  rewrite dec_value_enc by assumption. rewrite IH by assumption. reflexivity.
Qed.

Lemma enc_value_min pen f v : wf_value f v = true ->
  (field_min (field_of pen f) <= length (enc_value f v))%nat.
Proof.
  intros H. unfold wf_value in H. bsplit. unfold field_min, enc_value. rewrite field_of_len.
  destruct (aLen f =? 65535).
  - destruct (lenN v <? 255); cbn [app length]; lia.
  - unfold lenN in *. lia.
Qed.

Lemma enc_values_min pen fs : forall vs, wf_values fs vs = true ->
  (afields_size pen fs <= length (enc_values fs vs))%nat.
Proof.
  unfold afields_size.
  induction fs as [|f fs IH]; intros [|v vs] H; cbn [wf_values] in H; try discriminate; [simpl; lia|].
  bsplit. cbn [map template_size fold_right enc_values]. rewrite app_length.
  pose proof (enc_value_min pen f v). specialize (IH vs). unfold template_size in IH. lia.
Qed.

Lemma dec_record_enc pen fs vs rest : wf_values fs vs = true ->
  dec_record (map (field_of pen) fs) (enc_values fs vs ++ rest) = Ok (dfields_of pen fs vs, rest).
Proof.
  intros H. unfold dec_record.
  replace (Nat.leb _ _) with true
    by (symmetry; apply Nat.leb_le; rewrite app_length; pose proof (enc_values_min pen fs vs H);
        unfold afields_size in *; lia).
  apply dec_values_enc. assumption.
Qed.

(* ---- data sets ---- *)
Lemma repeat_len {A} (x : A) n : length (repeat x n) = n.
Proof. apply repeat_length. Qed.

Lemma dec_data_loop_enc pen fs recs : forall fuel pad,
  forallb (wf_values fs) recs = true ->
  (0 < afields_size pen fs)%nat -> (pad < afields_size pen fs)%nat -> (length recs < fuel)%nat ->
  dec_data_loop fuel (map (field_of pen) fs) (concat (map (enc_values fs) recs) ++ repeat 0 pad)
  = Ok (map (dfields_of pen fs) recs).
Proof.
  induction recs as [|r recs IH]; intros fuel pad Hwf Hpos Hpad Hf.
  - destruct fuel; [simpl in Hf; lia|]. cbn [map concat app dec_data_loop].
    replace (Nat.leb _ _) with false; [reflexivity|].
    symmetry. apply Nat.leb_gt. rewrite repeat_len. unfold afields_size in *. lia.
  - destruct fuel; [simpl in Hf; lia|]. cbn [forallb] in Hwf. bsplit.
    cbn [map concat dec_data_loop]. rewrite <- app_assoc.
    replace (Nat.leb _ _) with true
      by (symmetry; apply Nat.leb_le; rewrite app_length;
          match goal with H : wf_values fs r = true |- _ => pose proof (enc_values_min pen fs r H) end;
          unfold afields_size in *; lia).
    rewrite dec_record_enc by assumption.
    rewrite IH by (auto; simpl in Hf; lia). reflexivity.
Qed.

Lemma dec_data_set_enc pen fs recs pad :
  forallb (wf_values fs) recs = true ->
  (0 < afields_size pen fs)%nat -> (pad < afields_size pen fs)%nat ->
  dec_data_set (map (field_of pen) fs) (concat (map (enc_values fs) recs) ++ repeat 0 pad)
  = Ok (map (dfields_of pen fs) recs).
Proof.
  intros Hwf Hpos Hpad. unfold dec_data_set.
  replace (Nat.eqb _ 0) with false by (symmetry; apply Nat.eqb_neq; unfold afields_size in *; lia).
  apply dec_data_loop_enc; auto.
  rewrite app_length.
  assert (length recs <= length (concat (map (enc_values fs) recs)))%nat; [|lia].
  clear Hpad. induction recs as [|r recs IH]; [simpl; lia|].
  cbn [forallb] in Hwf. bsplit. cbn [map concat length]. rewrite app_length.
  match goal with H : wf_values fs r = true |- _ => pose proof (enc_values_min pen fs r H) end.
  specialize (IH ltac:(assumption)). lia.
Qed.

Definition enc_odrec sc op (r : list bytes * list bytes) : bytes := enc_values sc (fst r) ++ enc_values op (snd r).

Lemma dec_optdata_loop_enc pen sc op recs : forall fuel pad,
  forallb (fun r => wf_values sc (fst r) && wf_values op (snd r)) recs = true ->
  (0 < afields_size pen sc + afields_size pen op)%nat ->
  (pad < afields_size pen sc + afields_size pen op)%nat -> (length recs < fuel)%nat ->
  dec_optdata_loop fuel (map (field_of pen) sc) (map (field_of pen) op)
     (concat (map (enc_odrec sc op) recs) ++ repeat 0 pad)
  = Ok (map (fun r => (dfields_of pen sc (fst r), dfields_of pen op (snd r))) recs).
Proof.
  induction recs as [|r recs IH]; intros fuel pad Hwf Hpos Hpad Hf.
  - destruct fuel; [simpl in Hf; lia|]. cbn [map concat app dec_optdata_loop].
    replace (Nat.leb _ _) with false; [reflexivity|].
    symmetry. apply Nat.leb_gt. rewrite repeat_len. unfold afields_size in *. lia.
  - destruct fuel; [simpl in Hf; lia|]. cbn [forallb] in Hwf. bsplit.
    cbn [map concat dec_optdata_loop].
    change (enc_odrec sc op r) with (enc_values sc (fst r) ++ enc_values op (snd r)). rewrite <- !app_assoc.
    match goal with H : wf_values sc (fst r) = true, H' : wf_values op (snd r) = true |- _ =>
      pose proof (enc_values_min pen sc _ H); pose proof (enc_values_min pen op _ H') end.
    replace (Nat.leb _ _) with true
      by (symmetry; apply Nat.leb_le; rewrite !app_length; unfold afields_size in *; lia).
    rewrite dec_record_enc by assumption.
    rewrite dec_record_enc by assumption.
    rewrite IH by (auto; simpl in Hf; lia). reflexivity.
Qed.

Lemma dec_optdata_set_enc pen sc op recs pad :
  forallb (fun r => wf_values sc (fst r) && wf_values op (snd r)) recs = true ->
  (0 < afields_size pen sc + afields_size pen op)%nat ->
  (pad < afields_size pen sc + afields_size pen op)%nat ->
  dec_optdata_set (map (field_of pen) sc) (map (field_of pen) op)
     (concat (map (enc_odrec sc op) recs) ++ repeat 0 pad)
  = Ok (map (fun r => (dfields_of pen sc (fst r), dfields_of pen op (snd r))) recs).
Proof.
  intros Hwf Hpos Hpad. unfold dec_optdata_set.
  replace (Nat.eqb _ 0) with false by (symmetry; apply Nat.eqb_neq; unfold afields_size in *; lia).
  apply dec_optdata_loop_enc; auto.
  rewrite app_length.
  assert (length recs <= length (concat (map (enc_odrec sc op) recs)))%nat; [|lia].
  clear Hpad. induction recs as [|r recs IH]; [simpl; lia|].
  cbn [forallb] in Hwf. bsplit. cbn [map concat length]. rewrite app_length.
  change (enc_odrec sc op r) with (enc_values sc (fst r) ++ enc_values op (snd r)).
  rewrite app_length.
  match goal with H : wf_values sc (fst r) = true, H' : wf_values op (snd r) = true |- _ =>
    pose proof (enc_values_min pen sc _ H); pose proof (enc_values_min pen op _ H') end.
  specialize (IH ltac:(assumption)). lia.
Qed.

(* ---- flow sets ---- *)
Lemma field_eta (x y : field) :
  Bool.eqb (fPenP x) (fPenP y) = true -> fType x = fType y -> fLen x = fLen y -> fPen x = fPen y -> x = y.
Proof. destruct x, y; simpl. intros H -> -> ->. apply eqb_prop in H. subst. reflexivity. Qed.

Lemma same_fields_eq pen fs gs : same_fields pen fs gs = true -> gs = map (field_of pen) fs.
Proof.
  unfold same_fields. generalize (map (field_of pen) fs) as a. intros a. revert gs.
  induction a as [|x a IH]; intros [|y gs] H; try discriminate; [reflexivity|].
  bsplit. f_equal; [|apply IH; assumption].
  symmetry. apply field_eta; auto; lia.
Qed.

Lemma body_len_templates ts : (length ts <= length (concat (map enc_trec ts)))%nat.
Proof. pose proof (length_concat_ge enc_trec 4 ts enc_trec_len). lia. Qed.
Lemma body_len_otemplates ver ts : (length ts <= length (concat (map (enc_orec ver) ts)))%nat.
Proof. pose proof (length_concat_ge (enc_orec ver) 4 ts (enc_orec_len ver)). lia. Qed.

Lemma forallb_ext_in {A} (f g : A -> bool) l : (forall x, f x = g x) -> forallb f l = forallb g l.
Proof. intros H. induction l; simpl; [reflexivity|]. rewrite H, IHl. reflexivity. Qed.

Lemma dec_flowset_enc st ver dom s rest :
  wf_set st ver dom s = true -> (ver = 9 \/ ver = 10) ->
  dec_flowset st dom ver (enc_set ver s ++ rest)
  = Ok (flowset_of ver s, false, store_after_set st ver dom s, rest).
Proof.
  intros Hwf Hv. unfold wf_set in Hwf. apply andb_prop in Hwf. destruct Hwf as [Hlen Hwf].
  unfold dec_flowset, enc_set. cbv zeta. rewrite <- !app_assoc.
  assert (Hid : set_id ver s < 65536).
  { destruct s; cbn [set_id]; destruct Hv as [-> | ->]; cbn [N.eqb Pos.eqb]; try lia; bsplit; lia. }
  rewrite rd_enc2 by assumption. rewrite rd_enc2 by lia.
  replace (4 + lenN (set_body ver s) <? 4) with false by lia.
  rewrite next_app by (unfold lenN; lia).
  destruct s as [ts | ts | id fs recs pad | id sc op recs pad]; cbn [set_id set_body flowset_of store_after_set].
  - (* template set *)
    assert (Hts : forallb (wf_trec ver) ts = true) by exact Hwf.
    destruct Hv as [-> | ->]; cbn [N.eqb Pos.eqb andb orb].
    + rewrite dec_template_set_enc by (auto; pose proof (body_len_templates ts); lia). reflexivity.
    + rewrite dec_template_set_enc by (auto; pose proof (body_len_templates ts); lia). reflexivity.
  - (* options template set *)
    assert (Hts : forallb (wf_otrec ver) ts = true).
    { erewrite forallb_ext_in; [exact Hwf|]. intros (i & a & b). reflexivity. }
    destruct Hv as [-> | ->]; cbn [N.eqb Pos.eqb andb orb].
    + rewrite dec_v9_opt_enc by (auto; pose proof (body_len_otemplates 9 ts); lia). reflexivity.
    + rewrite dec_ipfix_opt_enc by (auto; pose proof (body_len_otemplates 10 ts); lia). reflexivity.
  - (* data set *)
    bsplit.
    replace (id =? 0) with false by lia. replace (id =? 1) with false by lia.
    replace (id =? 2) with false by lia. replace (id =? 3) with false by lia.
    cbn [andb]. replace (256 <=? id) with true by lia.
    destruct (store_get st (tkey ver dom id)) as [[r | r | r]|]; try discriminate.
    match goal with H : same_fields _ _ _ = true |- _ => apply same_fields_eq in H; rewrite H end.
    rewrite dec_data_set_enc; auto.
    + match goal with H : negb (Nat.eqb _ 0) = true |- _ => apply negb_true_iff, Nat.eqb_neq in H; lia end.
    + match goal with H : Nat.ltb _ _ = true |- _ => apply Nat.ltb_lt in H; exact H end.
  - (* options data set *)
    bsplit.
    replace (id =? 0) with false by lia. replace (id =? 1) with false by lia.
    replace (id =? 2) with false by lia. replace (id =? 3) with false by lia.
    cbn [andb]. replace (256 <=? id) with true by lia.
    change (fun r : list bytes * list bytes => enc_values sc (fst r) ++ enc_values op (snd r))
      with (enc_odrec sc op).
    assert (Hpos : (0 < afields_size (ver =? 10)%N sc + afields_size (ver =? 10)%N op)%nat).
    { match goal with H : negb (Nat.eqb _ 0) = true |- _ => apply negb_true_iff, Nat.eqb_neq in H; lia end. }
    assert (Hpad : (pad < afields_size (ver =? 10)%N sc + afields_size (ver =? 10)%N op)%nat).
    { match goal with H : Nat.ltb _ _ = true |- _ => apply Nat.ltb_lt in H; exact H end. }
    destruct (store_get st (tkey ver dom id)) as [[r | r | r]|]; try discriminate; bsplit;
      repeat match goal with H : same_fields _ _ _ = true |- _ => apply same_fields_eq in H; rewrite H end;
      rewrite dec_optdata_set_enc by auto; reflexivity.
Qed.

(* ---- messages ---- *)
Lemma enc_set_len ver s : length (enc_set ver s) = (4 + length (set_body ver s))%nat.
Proof. unfold enc_set. cbv zeta. rewrite !app_length, !enc_be_len. lia. Qed.

Lemma enc_sets_len_ge ver sets : (4 * length sets <= length (enc_sets ver sets))%nat.
Proof.
  apply length_concat_ge. intros s. rewrite enc_set_len. lia.
Qed.

Definition store_after (st : store) ver dom sets :=
  fold_left (fun s a => store_after_set s ver dom a) sets st.

Lemma dec_common_v9 sets : forall fuel st dom size start i,
  wf_sets st 9 dom sets = true -> i + lenN sets <= size -> (length sets < fuel)%nat ->
  dec_common fuel st dom size 9 start i (enc_sets 9 sets)
  = Ok (map (flowset_of 9) sets, false, store_after st 9 dom sets).
Proof.
  induction sets as [|s sets IH]; intros fuel st dom size start i Hwf Hi Hf.
  - destruct fuel; [simpl in Hf; lia|]. cbn [enc_sets map concat dec_common length Nat.eqb negb].
    rewrite andb_false_r. reflexivity.
  - destruct fuel; [simpl in Hf; lia|]. cbn [wf_sets] in Hwf. bsplit.
    unfold enc_sets. cbn [map concat dec_common]. fold (enc_sets 9 sets).
    replace (i <? size) with true by (unfold lenN in Hi; cbn [length] in Hi; lia).
    cbn [N.eqb Pos.eqb andb orb].
    replace (Nat.eqb (length (enc_set 9 s ++ enc_sets 9 sets)) 0) with false
      by (symmetry; apply Nat.eqb_neq; rewrite app_length, enc_set_len; lia).
    cbn [negb]. rewrite dec_flowset_enc by auto.
    rewrite IH; auto.
    + unfold lenN in *. cbn [length] in Hi. lia.
    + simpl in Hf. lia.
Qed.

Lemma dec_common_ipfix sets : forall fuel st dom size start i,
  wf_sets st 10 dom sets = true -> size = N.of_nat start -> size < 65536 ->
  (length (enc_sets 10 sets) <= start)%nat -> (length sets < fuel)%nat ->
  dec_common fuel st dom size 10 start i (enc_sets 10 sets)
  = Ok (map (flowset_of 10) sets, false, store_after st 10 dom sets).
Proof.
  induction sets as [|s sets IH]; intros fuel st dom size start i Hwf Hs Hlt Hlen Hf.
  - destruct fuel; [simpl in Hf; lia|]. cbn [enc_sets map concat dec_common length Nat.eqb negb].
    rewrite andb_false_r. reflexivity.
  - destruct fuel; [simpl in Hf; lia|]. cbn [wf_sets] in Hwf. bsplit.
    unfold enc_sets in *. cbn [map concat dec_common] in *. fold (enc_sets 10 sets) in *.
    cbn [N.eqb Pos.eqb andb orb]. rewrite andb_false_r. cbn [orb]. rewrite andb_true_r.
    rewrite app_length, enc_set_len in Hlen.
    replace (N.of_nat (start - length (enc_set 10 s ++ enc_sets 10 sets)) mod 65536 <? size) with true
      by (rewrite app_length, enc_set_len; lia).
    replace (Nat.eqb (length (enc_set 10 s ++ enc_sets 10 sets)) 0) with false
      by (symmetry; apply Nat.eqb_neq; rewrite app_length, enc_set_len; lia).
    cbn [negb andb]. rewrite dec_flowset_enc by auto.
    rewrite IH; auto.
    + lia.
    + simpl in Hf. lia.
Qed.

Lemma c03_roundtrip_l st m :
  wf_msg st m = true ->
  decode_nf st (encode_nf m) = Ok (expected_pkt m, false, expected_store st m).
Proof.
  intros Hwf. unfold wf_msg in Hwf. bsplit.
  unfold decode_nf, encode_nf.
  assert (Hv : aVer m = 9 \/ aVer m = 10) by lia.
  rewrite <- ?app_assoc. rewrite rd_enc2 by (destruct Hv as [-> | ->]; lia).
  match goal with H : _ || _ = true |- _ => rewrite H end.
  unfold decode_nf_body. rewrite rd_fields_enc by assumption.
  pose proof (enc_sets_len_ge (aVer m) (aSets m)) as Hge.
  unfold expected_pkt, expected_store. fold (store_after st (aVer m) (msg_dom m) (aSets m)).
  change (nf_dom (aVer m) (full_hdr m)) with (msg_dom m).
  destruct Hv as [E | E]; rewrite E in *; cbn [N.eqb Pos.eqb] in *.
  - rewrite dec_common_v9; auto.
    + unfold nf_size, full_hdr. rewrite E. cbn [N.eqb Pos.eqb nth].
      match goal with H : v9_count_covers_sets m = true |- _ =>
        unfold v9_count_covers_sets in H; rewrite E in H; cbn [N.eqb Pos.eqb] in H end. lia.
    + lia.
  - assert (Hl : 16 + lenN (enc_sets 10 (aSets m)) < 65536).
    { match goal with H : fits ipfix_hdr_ws _ = true |- _ =>
        unfold full_hdr in H; rewrite E in H; cbn [N.eqb Pos.eqb] in H;
        cbn [fits ipfix_hdr_ws] in H; apply andb_prop in H; destruct H as [H _] end. lia. }
    rewrite dec_common_ipfix; auto.
    + unfold nf_size, full_hdr. rewrite E. cbn [N.eqb Pos.eqb nth]. unfold lenN in *. lia.
    + unfold nf_size, full_hdr. rewrite E. cbn [N.eqb Pos.eqb nth]. unfold lenN in *. lia.
    + lia.
Qed.
