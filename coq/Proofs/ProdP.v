(* Field mapping lemmas (C08). *)
From Coq Require Import String List NArith ZArith Lia ZifyN ZifyNat ZifyBool Bool.
From GF Require Import Base.Res Base.Bytes Base.Layout Model.Msg Model.NF Model.NFv5 Model.Packet Model.ProdNF
     Model.Pipe Proofs.BytesL.
Import ListNotations.
Open Scope N_scope.

Lemma pow256_le n : (n <= 8)%nat -> 256 ^ N.of_nat n <= 18446744073709551616.
Proof.
  intros H. change 18446744073709551616 with (256 ^ 8). apply N.pow_le_mono_r; lia.
Qed.

(* big-endian unsigned integers of any width 1..8 are read at full value *)
Lemma dec_unum_exact b : (length b <= 8)%nat -> wfb b -> dec_unum 64 b = Ok (be b).
Proof.
  intros Hl Hw. unfold dec_unum. replace (Nat.leb (length b) 8) with true by (symmetry; apply Nat.leb_le; lia).
  f_equal. apply N.mod_small. pose proof (be_bound b Hw). pose proof (pow256_le _ Hl).
  change (2 ^ 64) with 18446744073709551616. lia.
Qed.

Lemma dec_unum_trunc bits b : (length b <= 8)%nat -> dec_unum bits b = Ok (be b mod 2 ^ bits).
Proof. intros Hl. unfold dec_unum. replace (Nat.leb (length b) 8) with true by (symmetry; apply Nat.leb_le; lia). reflexivity. Qed.

Lemma dec_unum_long bits b : (8 < length b)%nat -> dec_unum bits b = Err EOther.
Proof. intros Hl. unfold dec_unum. replace (Nat.leb (length b) 8) with false by (symmetry; apply Nat.leb_gt; lia). reflexivity. Qed.

(* documented element id -> column, for the elements that are stored as plain unsigned integers *)
Definition scalar_table : list (N * N) :=
  [(1, cBytes); (23, cBytes); (2, cPackets); (24, cPackets); (7, cSrcPort); (11, cDstPort); (4, cProto);
   (16, cSrcAs); (17, cDstAs); (10, cInIf); (14, cOutIf); (89, cFwdStatus); (5, cIpTos); (6, cTcpFlags);
   (52, cIpTtl); (9, cSrcNet); (29, cSrcNet); (13, cDstNet); (30, cDstNet); (176, cIcmpType); (178, cIcmpType);
   (177, cIcmpCode); (179, cIcmpCode); (56, cSrcMac); (81, cSrcMac); (80, cDstMac); (57, cDstMac);
   (59, cDstVlan); (54, cFragId); (88, cFragOff); (31, cFlowLabel); (138, cObsPoint)].

Lemma nf_field_scalar cfg ver base up m id col v :
  In (id, col) scalar_table -> (length v <= 8)%nat ->
  nf_field cfg ver base up m id v = Ok (msetI m col (be v mod 2 ^ col_bits col)).
Proof.
  intros Hin Hl. unfold scalar_table in Hin. cbn [In] in Hin.
  repeat (destruct Hin as [Hin|Hin]; [inversion Hin; subst; cbn [nf_field]; unfold set_u; rewrite dec_unum_trunc by exact Hl; reflexivity|]).
  contradiction.
Qed.

(* the same elements longer than 8 bytes are rejected (the record and its datagram are dropped) *)
Lemma nf_field_scalar_long cfg ver base up m id col v :
  In (id, col) scalar_table -> (8 < length v)%nat -> nf_field cfg ver base up m id v = Err EOther.
Proof.
  intros Hin Hl. unfold scalar_table in Hin. cbn [In] in Hin.
  repeat (destruct Hin as [Hin|Hin]; [inversion Hin; subst; cbn [nf_field]; unfold set_u; rewrite dec_unum_long by exact Hl; reflexivity|]).
  contradiction.
Qed.

(* clock rules *)
Lemma nf_time_v9_first cfg base up m v :
  (length v <= 8)%nat ->
  nf_field cfg 9 base up m 22 v =
  Ok (msetI m cTimeStart (sub64 (base * 1000000000) (sub64 (up * 1000000) ((be v mod 2 ^ 32) * 1000000)))).
Proof. intros Hl. cbn [nf_field N.eqb Pos.eqb]. rewrite dec_unum_trunc by exact Hl. reflexivity. Qed.
Lemma nf_time_v9_last cfg base up m v :
  (length v <= 8)%nat ->
  nf_field cfg 9 base up m 21 v =
  Ok (msetI m cTimeEnd (sub64 (base * 1000000000) (sub64 (up * 1000000) ((be v mod 2 ^ 32) * 1000000)))).
Proof. intros Hl. cbn [nf_field N.eqb Pos.eqb]. rewrite dec_unum_trunc by exact Hl. reflexivity. Qed.

Definition ipfix_time_table : list (N * (bool * N)) := (* id -> (is_start, multiplier) *)
  [(150, (true, 1000000000)); (152, (true, 1000000)); (154, (true, 1000));
   (151, (false, 1000000000)); (153, (false, 1000000)); (155, (false, 1000))].
Lemma nf_time_ipfix_abs cfg base up m id st mul v :
  In (id, (st, mul)) ipfix_time_table -> (length v <= 8)%nat ->
  nf_field cfg 10 base up m id v =
  Ok (msetI m (if st then cTimeStart else cTimeEnd) (mul64 (be v mod 2 ^ 64) mul)).
Proof.
  intros Hin Hl. unfold ipfix_time_table in Hin. cbn [In] in Hin.
  repeat (destruct Hin as [Hin|Hin]; [inversion Hin; subst; cbn [nf_field N.eqb Pos.eqb]; rewrite dec_unum_trunc by exact Hl; reflexivity|]).
  contradiction.
Qed.
Lemma nf_time_ipfix_nanos cfg base up m v :
  (length v <= 8)%nat ->
  nf_field cfg 10 base up m 156 v = Ok (msetI m cTimeStart (be v mod 2 ^ 64)) /\
  nf_field cfg 10 base up m 157 v = Ok (msetI m cTimeEnd (be v mod 2 ^ 64)).
Proof. intros Hl. split; cbn [nf_field N.eqb Pos.eqb]; rewrite dec_unum_trunc by exact Hl; reflexivity. Qed.
Lemma nf_time_ipfix_delta cfg base up m v :
  (length v <= 8)%nat ->
  nf_field cfg 10 base up m 158 v = Ok (msetI m cTimeStart (sub64 (base * 1000000000) (mul64 (be v mod 2 ^ 64) 1000))) /\
  nf_field cfg 10 base up m 159 v = Ok (msetI m cTimeEnd (sub64 (base * 1000000000) (mul64 (be v mod 2 ^ 64) 1000))).
Proof. intros Hl. split; cbn [nf_field N.eqb Pos.eqb]; rewrite dec_unum_trunc by exact Hl; reflexivity. Qed.

(* NetFlow v5: every documented column of a record *)
Lemma convert_v5_columns base up r :
  let m := convert_v5 base up r in
  let g i := nth i r 0 in
  mgetB m cSrcAddr = enc_be 4 (g 0%nat) /\ mgetB m cDstAddr = enc_be 4 (g 1%nat) /\ mgetB m cNextHop = enc_be 4 (g 2%nat) /\
  mgetI m cInIf = g 3%nat /\ mgetI m cOutIf = g 4%nat /\ mgetI m cPackets = g 5%nat /\ mgetI m cBytes = g 6%nat /\
  mgetI m cSrcPort = g 9%nat /\ mgetI m cDstPort = g 10%nat /\ mgetI m cTcpFlags = g 12%nat /\ mgetI m cProto = g 13%nat /\
  mgetI m cIpTos = g 14%nat /\ mgetI m cSrcAs = g 15%nat /\ mgetI m cDstAs = g 16%nat /\
  mgetI m cSrcNet = g 17%nat /\ mgetI m cDstNet = g 18%nat /\ mgetI m cEtype = 2048 /\ mgetI m cType = 2 /\
  mgetI m cTimeStart = sub64 base (((up + two32 - g 7%nat) mod two32) * 1000000) /\
  mgetI m cTimeEnd = sub64 base (((up + two32 - g 8%nat) mod two32) * 1000000).
Proof. cbv zeta. repeat split. Qed.

(* enrichment: receive time and exporter address (IPv4-mapped addresses are unmapped) *)
Lemma stamp_columns tr sa m :
  mgetI (stamp_nf tr sa m) cTimeRecv = tr /\ mgetB (stamp_nf tr sa m) cSamplerAddr = sa.
Proof. split; reflexivity. Qed.

Lemma unmap_mapped a b c d : unmap [0;0;0;0;0;0;0;0;0;0;255;255;a;b;c;d] = [a;b;c;d].
Proof. reflexivity. Qed.
Lemma unmap_v4 a b c d : unmap [a;b;c;d] = [a;b;c;d].
Proof. reflexivity. Qed.
