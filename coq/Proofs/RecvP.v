(* C17: conservation of datagrams and exclusive ownership of buffers, for EVERY schedule. *)
From Coq Require Import List NArith Bool Arith Lia Permutation.
From GF Require Import Model.First Model.Recv Proofs.FirstP.
Import ListNotations.

Lemma somes_upd_some {A} (l : list (option A)) r p :
  nth_error l r = Some None -> Permutation (somes (upd r (Some p) l)) (p :: somes l).
Proof.
  revert r. induction l as [|x l IH]; intros [|k] H; cbn [nth_error] in H; try discriminate.
  - inversion H; subst. cbn [upd somes flat_map app]. apply Permutation_refl.
  - cbn [upd]. unfold somes in *. cbn [flat_map]. specialize (IH k H).
    destruct x as [y|]; cbn [app].
    + eapply Permutation_trans; [apply perm_skip; exact IH|apply perm_swap].
    + exact IH.
Qed.

Lemma somes_upd_none {A} (l : list (option A)) r p :
  nth_error l r = Some (Some p) -> Permutation (somes l) (p :: somes (upd r None l)).
Proof.
  revert r. induction l as [|x l IH]; intros [|k] H; cbn [nth_error] in H; try discriminate.
  - inversion H; subst. cbn [upd somes flat_map app]. apply Permutation_refl.
  - cbn [upd]. unfold somes in *. cbn [flat_map]. specialize (IH k H).
    destruct x as [y|]; cbn [app].
    + eapply Permutation_trans; [apply perm_skip; exact IH|apply perm_swap].
    + exact IH.
Qed.

Definition accounted (s : rstate) : list nat := map pid (live s) ++ decoded s ++ dropped s.
Definition owned_bufs (s : rstate) : list nat := map pbuf (live s) ++ free s.

Definition rinv (s : rstate) : Prop :=
  Permutation (seq 0 (nextid s)) (accounted s) /\
  NoDup (owned_bufs s) /\ (forall b, In b (owned_bufs s) -> b < nextbuf s).

Lemma rinv_init r w : rinv (rinit r w).
Proof.
  unfold rinv, accounted, owned_bufs, live, rinit. cbn [hands queue works decoded dropped free nextid nextbuf].
  assert (E : forall n, somes (repeat (@None pkt) n) = []).
  { induction n; cbn; auto. }
  rewrite !E. cbn. repeat split; [constructor|constructor|intros b []].
Qed.

Ltac permtac := eauto using Permutation_refl, Permutation_sym, Permutation_trans, Permutation_app, Permutation_map,
                             Permutation_cons_app, Permutation_middle, perm_skip, Permutation_app_comm.

Lemma perm_move {A} (x : A) a b c : Permutation (a ++ x :: b ++ c) (x :: a ++ b ++ c).
Proof. apply Permutation_sym, Permutation_middle. Qed.

Lemma perm_mid3 {A} (x : A) a b c : Permutation (x :: a ++ b ++ c) (a ++ b ++ x :: c).
Proof.
  rewrite (app_assoc a b (x :: c)). replace (x :: a ++ b ++ c) with (x :: (a ++ b) ++ c) by (rewrite app_assoc; reflexivity).
  apply Permutation_middle.
Qed.
Lemma perm_mid2 {A} (x : A) a b : Permutation (x :: a ++ b) (a ++ x :: b).
Proof. apply Permutation_middle. Qed.

(* shapes used below *)
Lemma perm_enq {A} (p : A) a q w : Permutation (p :: a ++ q ++ w) (a ++ (q ++ [p]) ++ w).
Proof.
  rewrite <- (app_assoc q [p] w). cbn [app]. rewrite (app_assoc a q (p :: w)).
  replace (p :: a ++ q ++ w) with (p :: (a ++ q) ++ w) by (rewrite app_assoc; reflexivity).
  apply Permutation_middle.
Qed.
Lemma perm_deq {A} (p : A) a q w w' : Permutation w' (p :: w) -> Permutation (a ++ (p :: q) ++ w) (a ++ q ++ w').
Proof.
  intros H. apply Permutation_app_head. cbn [app].
  eapply Permutation_trans; [apply Permutation_middle|]. apply Permutation_app_head. apply Permutation_sym. exact H.
Qed.
Lemma perm_fin {A} (p : A) a q w w' : Permutation w (p :: w') -> Permutation (a ++ q ++ w) (p :: a ++ q ++ w').
Proof.
  intros H. rewrite !app_assoc. eapply Permutation_trans; [apply Permutation_app_head; exact H|].
  apply Permutation_sym, Permutation_middle.
Qed.

Lemma rinv_step c s a : rinv s -> rinv (fst (rstep c s a)).
Proof.
  intros (HP & HN & HB). unfold set_nth in *. destruct a as [r|r|w|w]; cbn [rstep]; unfold set_nth.
  - (* read *)
    destruct (nth_error (hands s) r) as [[p|]|] eqn:E; cbn [fst]; try (repeat split; assumption).
    destruct (free s) as [|b fr] eqn:Ef; cbn [fst].
    + (* fresh buffer *)
      unfold rinv, accounted, owned_bufs, live in *. cbn [hands queue works decoded dropped free nextid nextbuf].
      rewrite Ef in *. rewrite app_nil_r in *.
      pose proof (somes_upd_some (hands s) r {| pid := nextid s; pbuf := nextbuf s |} E) as PS.
      repeat split.
      * rewrite seq_S. cbn [plus].
        eapply Permutation_trans; [apply Permutation_app_comm|]. cbn [app].
        eapply Permutation_trans; [apply perm_skip; exact HP|].
        apply Permutation_sym.
        eapply Permutation_trans; [apply Permutation_app; [apply Permutation_map, Permutation_app; [exact PS|apply Permutation_refl]|apply Permutation_refl]|].
        cbn [app map pid]. apply Permutation_refl.
      * eapply Permutation_NoDup; [apply Permutation_sym, Permutation_map, Permutation_app; [exact PS|apply Permutation_refl]|].
        cbn [app map pbuf]. constructor; [|exact HN]. intros Hin. apply HB in Hin. lia.
      * intros b Hb.
        assert (Hb' : In b (map pbuf (({| pid := nextid s; pbuf := nextbuf s |} :: somes (hands s)) ++ queue s ++ somes (works s)))).
        { eapply Permutation_in; [apply Permutation_map, Permutation_app; [exact PS|apply Permutation_refl]|exact Hb]. }
        cbn [app map pbuf] in Hb'. destruct Hb' as [<-|Hb']; [lia|]. apply HB in Hb'. lia.
    + (* buffer from the pool *)
      unfold rinv, accounted, owned_bufs, live in *. cbn [hands queue works decoded dropped free nextid nextbuf].
      rewrite Ef in *.
      pose proof (somes_upd_some (hands s) r {| pid := nextid s; pbuf := b |} E) as PS.
      repeat split.
      * rewrite seq_S. cbn [plus].
        eapply Permutation_trans; [apply Permutation_app_comm|]. cbn [app].
        eapply Permutation_trans; [apply perm_skip; exact HP|].
        apply Permutation_sym.
        eapply Permutation_trans; [apply Permutation_app; [apply Permutation_map, Permutation_app; [exact PS|apply Permutation_refl]|apply Permutation_refl]|].
        cbn [app map pid]. apply Permutation_refl.
      * eapply Permutation_NoDup; [|exact HN].
        apply Permutation_sym.
        eapply Permutation_trans; [apply Permutation_app; [apply Permutation_map, Permutation_app; [exact PS|apply Permutation_refl]|apply Permutation_refl]|].
        cbn [app map pbuf]. apply Permutation_middle.
      * intros b' Hb'. apply HB.
        eapply Permutation_in; [|exact Hb'].
        eapply Permutation_trans; [apply Permutation_app; [apply Permutation_map, Permutation_app; [exact PS|apply Permutation_refl]|apply Permutation_refl]|].
        cbn [app map pbuf]. apply Permutation_middle.
  - (* dispatch *)
    destruct (nth_error (hands s) r) as [[p|]|] eqn:E; cbn [fst]; try (repeat split; assumption).
    pose proof (somes_upd_none (hands s) r p E) as PS.
    destruct (has_room c s); cbn [fst].
    + unfold rinv, accounted, owned_bufs, live in *. cbn [hands queue works decoded dropped free nextid nextbuf].
      assert (PL : Permutation (somes (hands s) ++ queue s ++ somes (works s))
                               (somes (upd r None (hands s)) ++ (queue s ++ [p]) ++ somes (works s))).
      { eapply Permutation_trans; [apply Permutation_app; [exact PS|apply Permutation_refl]|]. cbn [app].
        apply perm_enq. }
      repeat split.
      * eapply Permutation_trans; [exact HP|]. apply Permutation_app; [apply Permutation_map; exact PL|apply Permutation_refl].
      * eapply Permutation_NoDup; [|exact HN]. apply Permutation_app; [apply Permutation_map; exact PL|apply Permutation_refl].
      * intros b Hb. apply HB. eapply Permutation_in; [|exact Hb].
        apply Permutation_sym, Permutation_app; [apply Permutation_map; exact PL|apply Permutation_refl].
    + destruct (blocking c); cbn [fst]; [repeat split; assumption|].
      unfold rinv, accounted, owned_bufs, live in *. cbn [hands queue works decoded dropped free nextid nextbuf].
      repeat split.
      * eapply Permutation_trans; [exact HP|].
        eapply Permutation_trans; [apply Permutation_app; [apply Permutation_map, Permutation_app; [exact PS|apply Permutation_refl]|apply Permutation_refl]|].
        cbn [app map]. unfold set_nth. apply perm_mid3.
      * eapply Permutation_NoDup; [|exact HN].
        eapply Permutation_trans; [apply Permutation_app; [apply Permutation_map, Permutation_app; [exact PS|apply Permutation_refl]|apply Permutation_refl]|].
        cbn [app map]. apply Permutation_middle.
      * intros b Hb. apply HB. eapply Permutation_in; [|exact Hb]. apply Permutation_sym.
        eapply Permutation_trans; [apply Permutation_app; [apply Permutation_map, Permutation_app; [exact PS|apply Permutation_refl]|apply Permutation_refl]|].
        cbn [app map]. apply Permutation_middle.
  - (* dequeue *)
    destruct (nth_error (works s) w) as [[p|]|] eqn:E; cbn [fst]; try (repeat split; assumption).
    destruct (queue s) as [|p q] eqn:Eq; cbn [fst]; [repeat split; assumption|].
    pose proof (somes_upd_some (works s) w p E) as PS.
    unfold rinv, accounted, owned_bufs, live in *. cbn [hands queue works decoded dropped free nextid nextbuf].
    rewrite Eq in *.
    assert (PL : Permutation (somes (hands s) ++ (p :: q) ++ somes (works s))
                             (somes (hands s) ++ q ++ somes (upd w (Some p) (works s)))).
    { apply perm_deq. exact PS. }
    repeat split.
    + eapply Permutation_trans; [exact HP|]. apply Permutation_app; [apply Permutation_map; exact PL|apply Permutation_refl].
    + eapply Permutation_NoDup; [|exact HN]. apply Permutation_app; [apply Permutation_map; exact PL|apply Permutation_refl].
    + intros b Hb. apply HB. eapply Permutation_in; [|exact Hb].
      apply Permutation_sym, Permutation_app; [apply Permutation_map; exact PL|apply Permutation_refl].
  - (* finish *)
    destruct (nth_error (works s) w) as [[p|]|] eqn:E; cbn [fst]; try (repeat split; assumption).
    pose proof (somes_upd_none (works s) w p E) as PS.
    unfold rinv, accounted, owned_bufs, live in *. cbn [hands queue works decoded dropped free nextid nextbuf].
    assert (PL : Permutation (somes (hands s) ++ queue s ++ somes (works s))
                             (p :: somes (hands s) ++ queue s ++ somes (upd w None (works s)))).
    { apply perm_fin. exact PS. }
    repeat split.
    + eapply Permutation_trans; [exact HP|].
      eapply Permutation_trans; [apply Permutation_app; [apply Permutation_map; exact PL|apply Permutation_refl]|].
      cbn [app map]. unfold set_nth. apply perm_mid2.
    + eapply Permutation_NoDup; [|exact HN].
      eapply Permutation_trans; [apply Permutation_app; [apply Permutation_map; exact PL|apply Permutation_refl]|].
      cbn [app map]. apply Permutation_middle.
    + intros b Hb. apply HB. eapply Permutation_in; [|exact Hb]. apply Permutation_sym.
      eapply Permutation_trans; [apply Permutation_app; [apply Permutation_map; exact PL|apply Permutation_refl]|].
      cbn [app map]. apply Permutation_middle.
Qed.

Lemma rinv_run c : forall sched s, rinv s -> rinv (fst (rrun c s sched)).
Proof.
  induction sched as [|a r IH]; intros s H; cbn [rrun]; [exact H|].
  pose proof (rinv_step c s a H) as H1. destruct (rstep c s a) as [s1 e1]. cbn [fst] in H1.
  specialize (IH s1 H1). destruct (rrun c s1 r) as [s2 e2]. exact IH.
Qed.

(* every datagram read so far is in exactly one place: in a reader's hand, queued, being decoded,
   decoded, or dropped *)
Theorem conservation c readers workers sched :
  let s := fst (rrun c (rinit readers workers) sched) in
  Permutation (seq 0 (nextid s)) (accounted s) /\ NoDup (accounted s).
Proof.
  intros s. destruct (rinv_run c sched (rinit readers workers) (rinv_init readers workers)) as (HP & _ & _).
  split; [exact HP|]. eapply Permutation_NoDup; [exact HP|apply seq_NoDup].
Qed.

(* when nothing is in flight: reads = decoded + dropped, each id exactly once, never both *)
Theorem quiescent_accounting c readers workers sched :
  let s := fst (rrun c (rinit readers workers) sched) in
  quiescent s = true ->
  Permutation (seq 0 (nextid s)) (decoded s ++ dropped s) /\ NoDup (decoded s ++ dropped s).
Proof.
  intros s Hq. destruct (conservation c readers workers sched) as [HP HN]. fold s in HP, HN.
  unfold accounted in *. unfold quiescent in Hq. destruct (live s); [|discriminate]. cbn [map app] in *. split; assumption.
Qed.

(* a buffer held by a reader, the queue or a running decoder is held by exactly one of them and is
   not in the pool: a read can only take a pooled or a brand new buffer *)
Theorem buffers_exclusive c readers workers sched :
  let s := fst (rrun c (rinit readers workers) sched) in NoDup (map pbuf (live s) ++ free s).
Proof. intros s. destruct (rinv_run c sched (rinit readers workers) (rinv_init readers workers)) as (_ & HN & _). exact HN. Qed.

(* blocking mode never drops *)
Lemma blocking_step c s a : blocking c = true -> dropped (fst (rstep c s a)) = dropped s.
Proof.
  intros Hb. destruct a as [r|r|w|w]; cbn [rstep].
  - destruct (nth_error (hands s) r) as [[p|]|]; try reflexivity. destruct (free s); reflexivity.
  - destruct (nth_error (hands s) r) as [[p|]|]; try reflexivity.
    destruct (has_room c s); [reflexivity|]. rewrite Hb. reflexivity.
  - destruct (nth_error (works s) w) as [[p|]|]; try reflexivity. destruct (queue s); reflexivity.
  - destruct (nth_error (works s) w) as [[p|]|]; reflexivity.
Qed.

Theorem blocking_no_drop c readers workers sched :
  blocking c = true -> dropped (fst (rrun c (rinit readers workers) sched)) = [].
Proof.
  intros Hb. assert (G : forall sched s, dropped (fst (rrun c s sched)) = dropped s).
  { induction sched0 as [|a r IH]; intros s; cbn [rrun]; [reflexivity|].
    pose proof (blocking_step c s a Hb) as H1. destruct (rstep c s a) as [s1 e1]. cbn [fst] in H1.
    specialize (IH s1). destruct (rrun c s1 r) as [s2 e2]. cbn [fst] in *. congruence. }
  rewrite G. reflexivity.
Qed.
