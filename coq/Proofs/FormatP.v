(* Framing, protobuf varints, JSON well-formedness (C13). *)
From Coq Require Import String List NArith ZArith Lia ZifyN ZifyNat ZifyBool Bool.
From GF Require Import Base.Res Base.Bytes Model.Msg Model.Pb Model.Json Spec.JsonGrammar Proofs.BytesL.
Import ListNotations.
Open Scope N_scope.
Ltac Zify.zify_post_hook ::= Z.div_mod_to_equations.

Lemma varint_roundtrip_f f : forall n r,
  n < 128 ^ N.of_nat (S f) -> dec_varint_f f (enc_varint_f f n ++ r) = Some (n, r).
Proof.
  induction f as [|k IH]; intros n r Hn.
  - cbn [enc_varint_f app dec_varint_f]. change (128 ^ N.of_nat 1) with 128 in Hn.
    replace (n mod 128) with n by lia. replace (n <? 128) with true by lia. reflexivity.
  - cbn [enc_varint_f]. destruct (n <? 128) eqn:E.
    + cbn [app dec_varint_f]. rewrite E. reflexivity.
    + cbn [app dec_varint_f]. replace (n mod 128 + 128 <? 128) with false by lia.
      rewrite IH.
      * f_equal. f_equal. lia.
      * rewrite Nat2N.inj_succ, N.pow_succ_r' in Hn. lia.
Qed.

Lemma varint_roundtrip n r : n < 18446744073709551616 -> dec_varint (enc_varint n ++ r) = Some (n, r).
Proof.
  intros H. apply varint_roundtrip_f. change (128 ^ N.of_nat 10) with 1180591620717411303424. lia.
Qed.

Lemma enc_varint_f_nonempty f n : enc_varint_f f n <> [].
Proof. destruct f; cbn [enc_varint_f]; [discriminate|]. destruct (n <? 128); discriminate. Qed.

Lemma frame_nonempty b : frame b <> [].
Proof.
  unfold frame, enc_varint. pose proof (enc_varint_f_nonempty 9 (lenN b)).
  destruct (enc_varint_f 9 (lenN b)); [congruence|discriminate].
Qed.

Lemma frame_length b : (1 <= length (frame b))%nat.
Proof. pose proof (frame_nonempty b). destruct (frame b); [congruence|simpl; lia]. Qed.

(* a concatenated stream of framed messages splits into exactly the messages written *)
Lemma split_frames_concat bs : forall fuel,
  Forall (fun b => lenN b < 18446744073709551616) bs ->
  (length (concat (map frame bs)) < fuel)%nat ->
  split_frames fuel (concat (map frame bs)) = Some bs.
Proof.
  induction bs as [|b bs IH]; intros fuel Hall Hf.
  - destruct fuel; [simpl in Hf; lia|]. reflexivity.
  - destruct fuel; [simpl in Hf; lia|]. inversion Hall; subst.
    cbn [map concat] in *. cbn [split_frames].
    assert (Hl : (length (concat (map frame bs)) < fuel)%nat)
      by (rewrite app_length in Hf; pose proof (frame_length b); lia).
    destruct (frame b ++ concat (map frame bs)) eqn:E.
    { apply app_eq_nil in E. destruct E as [E _]. exfalso. eapply frame_nonempty; eauto. }
    rewrite <- E. unfold frame at 1. rewrite <- app_assoc. rewrite varint_roundtrip by assumption.
    replace (lenN (b ++ concat (map frame bs)) <? lenN b) with false by (unfold lenN; rewrite app_length; lia).
    unfold lenN. rewrite Nat2N.id. rewrite skipn_exact, firstn_exact.
    rewrite IH; auto.
Qed.

(* ---- JSON ---- *)
Lemma json_chars_app a b : json_chars a -> json_chars b -> json_chars (a ++ b).
Proof.
  induction 1 as [|w0 r0 Hw0 H5 IH|x r H1 H2 H3 H4 H5 IH|c r Hc H5 IH|p q u w r Hp Hq Hu Hw H5 IH]; intros Hb; cbn [app].
  - exact Hb.
  - rewrite <- app_assoc. apply jc_utf8; auto.
  - apply jc_plain; auto.
  - apply jc_esc; auto.
  - apply jc_u; auto.
Qed.

Lemma hexd_is_hex n : n < 16 -> is_hex (hexd n).
Proof. intros H. unfold hexd, is_hex. destruct (n <? 10) eqn:E; lia. Qed.

Lemma esc_byte_chars b : b < 128 -> json_chars (esc_byte b).
Proof.
  intros Hb. unfold esc_byte.
  destruct ((b =? 34) || (b =? 92)) eqn:E1.
  { apply jc_esc; [|constructor]. apply orb_prop in E1. destruct E1 as [E|E]; apply N.eqb_eq in E; subst; simpl; auto. }
  apply orb_false_elim in E1. destruct E1 as [E34 E92].
  destruct (b =? 8); [apply jc_esc; [simpl; auto 10|constructor]|].
  destruct (b =? 12); [apply jc_esc; [simpl; auto 10|constructor]|].
  destruct (b =? 10); [apply jc_esc; [simpl; auto 10|constructor]|].
  destruct (b =? 13); [apply jc_esc; [simpl; auto 10|constructor]|].
  destruct (b =? 9); [apply jc_esc; [simpl; auto 10|constructor]|].
  destruct ((b <? 32) || (b =? 60) || (b =? 62) || (b =? 38)) eqn:E2.
  - apply jc_u.
    + unfold is_hex. lia.
    + unfold is_hex. lia.
    + apply hexd_is_hex. lia.
    + apply hexd_is_hex. lia.
    + constructor.
  - repeat (apply orb_false_elim in E2; destruct E2 as [E2 ?]).
    apply jc_plain; try lia. constructor.
Qed.

Lemma esc_string_value s : Forall (fun b => b < 128) s -> json_value (esc_string s).
Proof.
  intros H. unfold esc_string. apply jv_string.
  induction H as [|b r Hb Hr IH]; cbn [flat_map]; [constructor|].
  apply json_chars_app; [apply esc_byte_chars; exact Hb|exact IH].
Qed.

(* rendered values that the formatter may be handed *)
Fixpoint jval_ok (v : jval) : Prop :=
  match v with
  | JNum d => json_number d
  | JStr s => Forall (fun b => b < 128) s
  | JArr l => (fix all (l : list jval) : Prop := match l with [] => True | x :: r => jval_ok x /\ all r end) l
  end.

Lemma elements_ok vs : vs <> [] -> Forall json_value vs -> json_elements (intersperse [44] vs).
Proof.
  induction vs as [|x r IH]; intros Hne Hall; [congruence|]. inversion Hall; subst.
  destruct r as [|y r']; cbn [intersperse].
  - apply je_one. assumption.
  - change (x ++ [44] ++ intersperse [44] (y :: r')) with (x ++ 44 :: intersperse [44] (y :: r')).
    apply je_more; [assumption|]. apply IH; [discriminate|assumption].
Qed.

Definition all_ok := fix all (l : list jval) : Prop := match l with [] => True | x :: r => jval_ok x /\ all r end.

Lemma show_jval_value : forall v, jval_ok v -> json_value (show_jval v).
Proof.
  fix IH 1. intros [d|s|l] H; cbn [show_jval].
  - apply jv_number. exact H.
  - apply esc_string_value. exact H.
  - assert (A : Forall json_value (map show_jval l)).
    { change (all_ok l) in H. revert H.
      refine ((fix go (l : list jval) : all_ok l -> Forall json_value (map show_jval l) :=
                 match l with
                 | [] => fun _ => Forall_nil _
                 | y :: r => fun H => Forall_cons _ (IH y (proj1 H)) (go r (proj2 H))
                 end) l). }
    destruct l as [|x r]; [apply jv_array_empty|].
    apply jv_array. apply elements_ok; [discriminate|exact A].
Qed.

Lemma members_ok ms : ms <> [] ->
  Forall (fun kv => json_chars (fst kv) /\ jval_ok (snd kv)) ms ->
  json_members (intersperse [44] (map show_member ms)).
Proof.
  induction ms as [|[k v] r IH]; intros Hne Hall; [congruence|]. inversion Hall as [|? ? [Hk Hv] Hr]; subst.
  cbn [fst snd] in *.
  destruct r as [|y r']; cbn [map intersperse].
  - unfold show_member. cbn [fst snd]. apply jm_one; [exact Hk|apply show_jval_value; exact Hv].
  - change (show_member (k, v) ++ [44] ++ intersperse [44] (map show_member (y :: r')))
      with (show_member (k, v) ++ 44 :: intersperse [44] (map show_member (y :: r'))).
    unfold show_member at 1. cbn [fst snd].
    apply jm_more; [exact Hk|apply show_jval_value; exact Hv|]. apply IH; [discriminate|exact Hr].
Qed.

(* the formatter's output is one well-formed JSON object, whatever bytes the string values hold *)
Lemma format_object_value ms :
  Forall (fun kv => json_chars (fst kv) /\ jval_ok (snd kv)) ms -> json_value (format_object ms).
Proof.
  intros H. unfold format_object. destruct ms as [|m r]; [apply jv_object_empty|].
  apply jv_object. apply members_ok; [discriminate|exact H].
Qed.
