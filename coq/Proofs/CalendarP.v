(* The timestamp text of the datetime renderers is exact: it parses back (Spec/Calendar.v: calendar by counting,
   RFC 3339 reader) to the seconds and nanoseconds it was made from, for every instant from 1970 to the end of year 9999. *)
From Coq Require Import String NArith ZArith List Bool Lia ZifyN ZifyNat ZifyBool.
From GF Require Import Base.Res Base.Bytes Model.Msg Model.Json Model.Cfg Model.Render Model.Format Spec.Calendar.
Import ListNotations.
Open Scope N_scope.
Ltac Zify.zify_post_hook ::= Z.div_mod_to_equations.

(* ---- the calendar: civil is the inverse of counting days ---- *)
Definition DayOK (n : N) : Prop :=
  let '(y, m, d) := civil n in
  1970 <= y /\ 1 <= m /\ m <= 12 /\ 1 <= d /\ d <= mdays y m /\ days_of_civil y m d = n.

Definition day_ok (n : N) : bool :=
  let '(y, m, d) := civil n in
  (1970 <=? y) && (1 <=? m) && (m <=? 12) && (1 <=? d) && (d <=? mdays y m) && (days_of_civil y m d =? n).
Fixpoint all_days (fuel : nat) (n : N) : bool :=
  match fuel with O => true | S f => day_ok n && all_days f (n + 1) end.

Lemma all_days_spec f : forall s, all_days f s = true -> forall k, k < N.of_nat f -> day_ok (s + k) = true.
Proof.
  induction f as [|f IH]; intros s H k Hk; [lia|]. cbn [all_days] in H. apply andb_prop in H. destruct H as [H0 H1].
  destruct (N.eq_dec k 0) as [->|Hn]; [rewrite N.add_0_r; exact H0|].
  replace (s + k) with ((s + 1) + (k - 1)) by lia. apply IH; [exact H1|lia].
Qed.

(* one era of 400 years, day by day (146097 days: 1970-01-01 .. 2369-12-31), evaluated by the kernel *)
Lemma first_era : all_days (N.to_nat 146097) 0 = true.
Proof. vm_compute. reflexivity. Qed.

Lemma day_ok_prop n : day_ok n = true -> DayOK n.
Proof.
  unfold day_ok, DayOK. destruct (civil n) as [[y m] d]. intros H.
  repeat (apply andb_prop in H; destruct H as [H ?]). repeat split; lia.
Qed.

Lemma base_era n : n < 146097 -> DayOK n.
Proof.
  intros H. apply day_ok_prop. replace n with (0 + n) by lia. apply (all_days_spec _ _ first_era). lia.
Qed.

(* ---- 400 years later the calendar repeats ---- *)
Lemma civil_period n : civil (n + 146097) = let '(y, m, d) := civil n in (y + 400, m, d).
Proof.
  unfold civil.
  replace ((n + 146097 + 719468) / 146097) with ((n + 719468) / 146097 + 1) by lia.
  replace ((n + 146097 + 719468) mod 146097) with ((n + 719468) mod 146097) by lia.
  cbv zeta. f_equal. f_equal. lia.
Qed.

Lemma leap_period y : leap (y + 400) = leap y.
Proof.
  unfold leap.
  replace ((y + 400) mod 4) with (y mod 4) by lia.
  replace ((y + 400) mod 100) with (y mod 100) by lia.
  replace ((y + 400) mod 400) with (y mod 400) by lia. reflexivity.
Qed.

Lemma mdays_period y m : mdays (y + 400) m = mdays y m.
Proof. unfold mdays. rewrite leap_period. reflexivity. Qed.

Lemma dby_period y : 1 <= y -> days_before_year (y + 400) = days_before_year y + 146097.
Proof. intros H. unfold days_before_year. cbv zeta. lia. Qed.

Lemma dby_mono y : 1970 <= y -> days_before_year 1970 <= days_before_year y.
Proof. intros H. unfold days_before_year. cbv zeta. lia. Qed.

Lemma doc_period y m d : 1970 <= y -> days_of_civil (y + 400) m d = days_of_civil y m d + 146097.
Proof.
  intros H. unfold days_of_civil. rewrite leap_period, dby_period by lia. pose proof (dby_mono y H). lia.
Qed.

Lemma day_period n : DayOK n -> DayOK (n + 146097).
Proof.
  unfold DayOK. rewrite civil_period. destruct (civil n) as [[y m] d].
  intros (Hy & Hm1 & Hm2 & Hd1 & Hd2 & He). rewrite mdays_period, doc_period by exact Hy.
  repeat split; lia.
Qed.

Lemma all_days_ok : forall k n, n < 146097 -> DayOK (n + 146097 * N.of_nat k).
Proof.
  induction k as [|k IH]; intros n Hn.
  - rewrite N.mul_0_r, N.add_0_r. apply base_era. exact Hn.
  - replace (n + 146097 * N.of_nat (S k)) with (n + 146097 * N.of_nat k + 146097) by lia.
    apply day_period. apply IH. exact Hn.
Qed.

Theorem civil_exact n : DayOK n.
Proof.
  replace n with (n mod 146097 + 146097 * N.of_nat (N.to_nat (n / 146097))) by lia.
  apply all_days_ok. lia.
Qed.

(* a date before the year 10000 *)
Lemma dby_mono2 y : 10000 <= y -> days_before_year 10000 <= days_before_year y.
Proof. intros H. unfold days_before_year. cbv zeta. lia. Qed.

Lemma year_bound n : n < 2932897 -> let '(y, m, d) := civil n in y < 10000.
Proof.
  intros Hn. pose proof (civil_exact n) as H. unfold DayOK in H. destruct (civil n) as [[y m] d].
  destruct H as (Hy & Hm1 & Hm2 & Hd1 & Hd2 & He).
  destruct (N.lt_ge_cases y 10000) as [Hlt|Hge]; [exact Hlt|exfalso].
  pose proof (dby_mono2 y Hge) as Hb. unfold days_of_civil in He.
  assert (E1 : days_before_year 10000 = 3652059) by (vm_compute; reflexivity).
  assert (E2 : days_before_year 1970 = 719162) by (vm_compute; reflexivity).
  rewrite E1 in Hb. rewrite E2 in He. lia.
Qed.

(* ---- digits ---- *)
Lemma dig_digit a : a < 10 -> dig (48 + a) = Some a.
Proof. intros H. unfold dig. replace ((48 <=? 48 + a) && (48 + a <=? 57)) with true by lia. f_equal. lia. Qed.

Lemma digits_pad2 n : n < 100 -> digits (pad2 n) 0 = Some n.
Proof.
  intros H. unfold pad2. cbn [digits]. rewrite !dig_digit by lia. cbn [digits]. f_equal. lia.
Qed.

Lemma digits_pad4 n : n < 10000 -> digits (pad4 n) 0 = Some n.
Proof.
  intros H. unfold pad4. cbn [digits]. rewrite !dig_digit by lia. cbn [digits]. f_equal. lia.
Qed.

(* ---- the fraction ---- *)
Lemma pad_dec_length d : forall n, length (pad_dec d n) = d.
Proof. induction d as [|d IH]; intros n; [reflexivity|]. cbn [pad_dec]. rewrite app_length, IH. cbn [length]. lia. Qed.

Lemma digits_app a : forall acc b, digits (a ++ b) acc = match digits a acc with Some v => digits b v | None => None end.
Proof.
  induction a as [|c r IH]; intros acc b; [reflexivity|]. cbn [app digits]. destruct (dig c); [apply IH|reflexivity].
Qed.

Lemma digits_pad_dec d : forall n acc, n < 10 ^ N.of_nat d -> digits (pad_dec d n) acc = Some (acc * 10 ^ N.of_nat d + n).
Proof.
  induction d as [|d IH]; intros n acc Hn.
  - cbn [pad_dec digits]. change (10 ^ N.of_nat 0) with 1 in *. f_equal. lia.
  - cbn [pad_dec]. rewrite digits_app. rewrite Nat2N.inj_succ, N.pow_succ_r' in Hn.
    rewrite IH by lia. cbn [digits]. rewrite dig_digit by lia. f_equal.
    rewrite Nat2N.inj_succ, N.pow_succ_r'. lia.
Qed.

(* strip_zeros keeps the value: n * 10^(9-d) = ns, n < 10^d, and at least one digit stays *)
Lemma strip_zeros_inv fuel : forall n d ns, (1 <= d <= 9)%nat -> n * 10 ^ (9 - N.of_nat d) = ns -> n < 10 ^ N.of_nat d -> n <> 0 ->
  let '(n', d') := strip_zeros fuel n d in
  (1 <= d' <= 9)%nat /\ n' * 10 ^ (9 - N.of_nat d') = ns /\ n' < 10 ^ N.of_nat d' /\ n' <> 0.
Proof.
  induction fuel as [|f IH]; intros n d ns Hd He Hl Hz; cbn [strip_zeros]; [repeat split; try lia; assumption|].
  destruct ((n mod 10 =? 0) && negb (Nat.eqb d 0)) eqn:E; [|repeat split; try lia; assumption].
  apply andb_prop in E. destruct E as [E0 E1].
  assert (Hd2 : (2 <= d)%nat).
  { destruct (Nat.eq_dec d 1) as [->|]; [|lia]. change (10 ^ N.of_nat 1) with 10 in Hl. exfalso. lia. }
  apply IH.
  - lia.
  - rewrite <- He. replace (9 - N.of_nat (pred d)) with (N.succ (9 - N.of_nat d)) by lia.
    rewrite N.pow_succ_r'. assert (E10 : n = 10 * (n / 10)) by lia. rewrite E10 at 2. ring.
  - replace (N.of_nat d) with (N.succ (N.of_nat (pred d))) in Hl by lia. rewrite N.pow_succ_r' in Hl. lia.
  - lia.
Qed.

(* ---- reading the text back ---- *)
Lemma parse_ts_fields y mo d hh mi ss rest :
  y < 10000 -> mo < 100 -> d < 100 -> hh < 100 -> mi < 100 -> ss < 100 ->
  parse_ts (pad4 y ++ [45] ++ pad2 mo ++ [45] ++ pad2 d ++ [84] ++ pad2 hh ++ [58] ++ pad2 mi ++ [58] ++ pad2 ss ++ rest) =
  if (1 <=? mo) && (mo <=? 12) && (1 <=? d) && (d <=? mdays y mo) && (hh <? 24) && (mi <? 60) && (ss <? 60) then
    let t := days_of_civil y mo d * 86400 + hh * 3600 + mi * 60 + ss in
    match rest with
    | [90] => Some (t, 0)
    | 46 :: fr =>
        match rev fr with
        | 90 :: rf => match frac_ns (rev rf) with Some ns => if ns =? 0 then None else Some (t, ns) | None => None end
        | _ => None
        end
    | _ => None
    end
  else None.
Proof.
  intros Hy Hmo Hd Hh Hmi Hs.
  pose proof (digits_pad4 y Hy) as Ey. pose proof (digits_pad2 mo Hmo) as Em. pose proof (digits_pad2 d Hd) as Ed.
  pose proof (digits_pad2 hh Hh) as Eh. pose proof (digits_pad2 mi Hmi) as Ei. pose proof (digits_pad2 ss Hs) as Es.
  unfold pad4, pad2 in *. cbn [app]. unfold parse_ts. rewrite Ey, Em, Ed, Eh, Ei, Es. reflexivity.
Qed.

Lemma frac_back ns : ns < 1000000000 -> ns <> 0 ->
  exists fr, frac ns = 46 :: fr /\ frac_ns fr = Some ns.
Proof.
  intros Hl Hz. unfold frac. replace (ns =? 0) with false by lia.
  pose proof (strip_zeros_inv 9 ns 9 ns) as H.
  destruct (strip_zeros 9 ns 9) as [n d].
  destruct H as (Hd & He & Hn & Hnz); [lia|change (9 - N.of_nat 9) with 0; change (10 ^ 0) with 1; lia|
                                        change (10 ^ N.of_nat 9) with 1000000000; exact Hl|exact Hz|].
  exists (pad_dec d n). split; [reflexivity|].
  unfold frac_ns. rewrite pad_dec_length. replace (Nat.ltb 9 d) with false by (symmetry; apply Nat.ltb_ge; lia).
  rewrite digits_pad_dec by exact Hn. rewrite N.mul_0_l, N.add_0_l. f_equal. exact He.
Qed.

Lemma some_inj {A} (a b : A) : Some a = Some b -> a = b.
Proof. intros H. congruence. Qed.

Theorem rfc3339_exact sec ns s :
  ns < 1000000000 -> rfc3339 sec ns = Some s -> parse_ts s = Some (sec, ns).
Proof.
  intros Hns. unfold rfc3339, year10000. destruct (253402300800 <=? sec) eqn:Ey; [discriminate|].
  assert (Hd : sec / 86400 < 2932897) by lia.
  pose proof (civil_exact (sec / 86400)) as Hc. pose proof (year_bound _ Hd) as Hy. unfold DayOK in Hc.
  destruct (civil (sec / 86400)) as [[y mo] d]. destruct Hc as (Hy0 & Hm1 & Hm2 & Hd1 & Hd2 & He).
  intros H. cbv zeta in H. apply some_inj in H. subst s.
  assert (Hmd : mdays y mo <= 31) by (unfold mdays; repeat match goal with |- context [if ?c then _ else _] => destruct c end; lia).
  rewrite parse_ts_fields by lia.
  replace ((1 <=? mo) && (mo <=? 12) && (1 <=? d) && (d <=? mdays y mo) && (sec mod 86400 / 3600 <? 24) &&
           (sec mod 86400 / 60 mod 60 <? 60) && (sec mod 86400 mod 60 <? 60)) with true by lia.
  cbv zeta. rewrite He.
  assert (Et : sec / 86400 * 86400 + sec mod 86400 / 3600 * 3600 + sec mod 86400 / 60 mod 60 * 60 + sec mod 86400 mod 60 = sec) by lia.
  rewrite Et.
  destruct (N.eq_dec ns 0) as [->|Hnz].
  - reflexivity.
  - destruct (frac_back ns Hns Hnz) as (fr & Ef & Eb). rewrite Ef. cbn [app].
    rewrite rev_app_distr. cbn [rev app]. rewrite rev_involutive, Eb.
    replace (ns =? 0) with false by lia. reflexivity.
Qed.

(* in range the renderers always produce a text *)
Lemma rfc3339_total sec ns : sec < 253402300800 -> exists s, rfc3339 sec ns = Some s.
Proof.
  intros H. unfold rfc3339, year10000. replace (253402300800 <=? sec) with false by lia.
  destruct (civil (sec / 86400)) as [[y mo] d]. cbv zeta. eexists. reflexivity.
Qed.

(* the two datetime renderers: the text denotes the column's value *)
Theorem datetimenano_exact m f n s :
  apply_renderer "DateTimeNanoRenderer" m f (Some (GU64 n)) = Some (OStr s) ->
  parse_ts s = Some (n / 1000000000, n mod 1000000000).
Proof.
  unfold apply_renderer. cbn [String.eqb Ascii.eqb Bool.eqb].
  destruct (9223372036854775808 <=? n); [discriminate|].
  destruct (rfc3339 (n / 1000000000) (n mod 1000000000)) as [t|] eqn:E; [|discriminate].
  intros H. apply some_inj in H. injection H as <-. apply rfc3339_exact; [lia|exact E].
Qed.

Theorem datetime_exact m f n s :
  apply_renderer "DateTimeRenderer" m f (Some (GU64 n)) = Some (OStr s) -> parse_ts s = Some (n, 0).
Proof.
  unfold apply_renderer. cbn [String.eqb Ascii.eqb Bool.eqb].
  destruct (rfc3339 n 0) as [t|] eqn:E; [|discriminate].
  intros H. apply some_inj in H. injection H as <-. apply rfc3339_exact; [lia|exact E].
Qed.
