(* C15: any order in which workers process view-preserving datagrams yields, for each datagram,
   exactly the output of sequential processing. *)
From Coq Require Import String List NArith Bool Lia Permutation.
From GF Require Import Base.Res Base.Bytes Model.Msg Model.NF Model.NFv5 Model.Packet Model.ProdNF Model.Pipe Proofs.PoolP.
Import ListNotations.
Open Scope N_scope.

Definition dgram := (exporter * N * bytes)%type.
Definition view_eq (st st' : pstate) : Prop := forall e, same_view e st st'.
Lemma view_eq_refl st : view_eq st st. Proof. intros e. apply same_view_refl. Qed.
Lemma view_eq_trans a b c : view_eq a b -> view_eq b c -> view_eq a c.
Proof. intros H1 H2 e. eapply same_view_trans; eauto. Qed.
Lemma view_eq_sym a b : view_eq a b -> view_eq b a.
Proof. intros H e. destruct (H e) as [A B]. split; [symmetry; exact A|]. intros. symmetry. apply B. Qed.

Definition stepd cfg (st : pstate) (x : dgram) : pstate := let '(e, tr, d) := x in step_state st (nf_step cfg st e tr d).
Definition outd cfg (st : pstate) (x : dgram) := let '(e, tr, d) := x in outputs (nf_step cfg st e tr d).

(* a datagram that announces nothing new: processing it leaves every exporter's view as it is *)
Definition preserving cfg (st0 : pstate) (x : dgram) : Prop :=
  forall st, view_eq st st0 -> view_eq (stepd cfg st x) st0.

Lemma outd_view cfg st st' x : view_eq st st' -> outd cfg st x = outd cfg st' x.
Proof. destruct x as [[e tr] d]. intros H. apply nf_step_view. apply H. Qed.

(* process the datagrams in the given order (whatever worker takes which): per datagram output *)
Fixpoint run_order cfg (st : pstate) (xs : list dgram) : list (res (outcome * list msg)) :=
  match xs with
  | [] => []
  | x :: r => outd cfg st x :: run_order cfg (stepd cfg st x) r
  end.

Theorem workers_equal_sequential cfg st0 xs :
  Forall (preserving cfg st0) xs ->
  forall st, view_eq st st0 -> run_order cfg st xs = map (outd cfg st0) xs.
Proof.
  induction 1 as [|x r Hx Hr IH]; intros st Hv; cbn [run_order map]; [reflexivity|].
  f_equal; [apply outd_view; exact Hv|]. apply IH. apply Hx. exact Hv.
Qed.

(* hence for ANY permutation (schedule) of the workload the per-datagram outputs are those of the
   sequential run: the delivered multiset is the same and each datagram's messages stay in order *)
Corollary any_schedule cfg st0 xs ys :
  Forall (preserving cfg st0) xs -> Permutation xs ys ->
  Permutation (run_order cfg st0 xs) (run_order cfg st0 ys).
Proof.
  intros H P. rewrite (workers_equal_sequential cfg st0 xs H st0 (view_eq_refl st0)).
  assert (H' : Forall (preserving cfg st0) ys).
  { apply Forall_forall. intros y Hy. rewrite Forall_forall in H. apply H. eapply Permutation_in; [apply Permutation_sym; exact P|exact Hy]. }
  rewrite (workers_equal_sequential cfg st0 ys H' st0 (view_eq_refl st0)).
  apply Permutation_map. exact P.
Qed.

(* NetFlow v5 datagrams are view-preserving in every state (they touch no shared store) *)
Lemma v5_preserving cfg st0 e tr d : rd 2 d = Ok (5, skipn 2 d) -> preserving cfg st0 (e, tr, d).
Proof.
  intros Hv st Hst. unfold stepd, nf_step. rewrite Hv. cbn [N.eqb Pos.eqb].
  destruct (decode_v5_body (skipn 2 d)); cbn [step_state]; exact Hst.
Qed.
