(* Totality: every decoder returns a value or an error on EVERY input -- never a panic, never a
   spin (C01).  Fuel is S (length of the buffer); the lemmas show each loop iteration consumes. *)
From Coq Require Import String List NArith ZArith Lia ZifyN ZifyNat ZifyBool Bool.
From GF Require Import Base.Res Base.Bytes Base.Layout Model.NF Model.NFv5 Model.SFlow Model.Msg Model.Packet
     Proofs.BytesL Proofs.LayoutL Proofs.NFv5P Proofs.PipeP Proofs.PacketP.
Import ListNotations.
Open Scope N_scope.

Definition clean {A} (r : res A) : Prop := match r with Panic | OutOfFuel => False | _ => True end.
Lemma clean_returns {A} (r : res A) : clean r -> returns r.
Proof. destruct r; simpl; intros H; try contradiction; split; discriminate. Qed.

(* ---- template sets ---- *)
Lemma dec_field_shape pen d :
  (exists f d', dec_field pen d = Ok (f, d') /\ (length d' + 4 <= length d)%nat) \/ dec_field pen d = Err EShort.
Proof.
  unfold dec_field.
  destruct (rd_cases 2 d) as [(ty & d1 & E1)| ->]; [|auto]. rewrite E1. apply rd_len in E1.
  destruct (rd_cases 2 d1) as [(ln & d2 & E2)| ->]; [|auto]. rewrite E2. apply rd_len in E2.
  destruct (pen && (32768 <=? ty)).
  - destruct (rd_cases 4 d2) as [(p & d3 & E3)| ->]; [|auto]. rewrite E3. apply rd_len in E3.
    left. do 2 eexists. split; [reflexivity|lia].
  - left. do 2 eexists. split; [reflexivity|lia].
Qed.

Lemma dec_field_list_shape n pen : forall d,
  (exists fs d', dec_field_list n pen d = Ok (fs, d') /\ (length d' <= length d)%nat) \/
  dec_field_list n pen d = Err EShort.
Proof.
  induction n as [|k IH]; intros d; cbn [dec_field_list].
  - left. do 2 eexists. split; [reflexivity|lia].
  - destruct (dec_field_shape pen d) as [(f & d1 & -> & L1)| ->]; [|auto].
    destruct (IH d1) as [(fs & d2 & -> & L2)| ->]; [|auto].
    left. do 2 eexists. split; [reflexivity|lia].
Qed.

Lemma dec_template_set_clean ver : forall fuel d, (length d < fuel)%nat -> clean (dec_template_set fuel ver d).
Proof.
  induction fuel as [|fu IH]; intros d Hf; [lia|]. cbn [dec_template_set].
  destruct (Nat.leb 4 (length d)) eqn:E4; [|exact I]. apply Nat.leb_le in E4.
  destruct (rd_cases 2 d) as [(id & d1 & E1)| ->]; [|exact I]. rewrite E1. apply rd_len in E1.
  destruct (rd_cases 2 d1) as [(cnt & d2 & E2)| ->]; [|exact I]. rewrite E2. apply rd_len in E2.
  destruct (dec_field_list_shape (N.to_nat cnt) (ver =? 10) d2) as [(fs & d3 & -> & L)| ->]; [|exact I].
  specialize (IH d3 ltac:(lia)). destruct (dec_template_set fu ver d3); simpl in *; auto.
Qed.

Lemma dec_v9_opt_clean : forall fuel d, (length d < fuel)%nat -> clean (dec_v9_opt_template_set fuel d).
Proof.
  induction fuel as [|fu IH]; intros d Hf; [lia|]. cbn [dec_v9_opt_template_set].
  destruct (Nat.leb 4 (length d)) eqn:E4; [|exact I]. apply Nat.leb_le in E4.
  destruct (rd_cases 2 d) as [(id & d1 & E1)| ->]; [|exact I]. rewrite E1. apply rd_len in E1.
  destruct (rd_cases 2 d1) as [(sl & d2 & E2)| ->]; [|exact I]. rewrite E2. apply rd_len in E2.
  destruct (rd_cases 2 d2) as [(ol & d3 & E3)| ->]; [|exact I]. rewrite E3. apply rd_len in E3.
  destruct (dec_field_list_shape (N.to_nat (sl / 4)) false d3) as [(sc & d4 & -> & L4)| ->]; [|exact I].
  destruct (dec_field_list_shape (N.to_nat (ol / 4)) false d4) as [(op & d5 & -> & L5)| ->]; [|exact I].
  specialize (IH d5 ltac:(lia)). destruct (dec_v9_opt_template_set fu d5); simpl in *; auto.
Qed.

Lemma dec_ipfix_opt_clean : forall fuel d, (length d < fuel)%nat -> clean (dec_ipfix_opt_template_set fuel d).
Proof.
  induction fuel as [|fu IH]; intros d Hf; [lia|]. cbn [dec_ipfix_opt_template_set].
  destruct (Nat.leb 4 (length d)) eqn:E4; [|exact I]. apply Nat.leb_le in E4.
  destruct (rd_cases 2 d) as [(id & d1 & E1)| ->]; [|exact I]. rewrite E1. apply rd_len in E1.
  destruct (rd_cases 2 d1) as [(fc & d2 & E2)| ->]; [|exact I]. rewrite E2. apply rd_len in E2.
  destruct (rd_cases 2 d2) as [(sfc & d3 & E3)| ->]; [|exact I]. rewrite E3. apply rd_len in E3.
  destruct (dec_field_list_shape (N.to_nat sfc) true d3) as [(sc & d4 & -> & L4)| ->]; [|exact I].
  destruct (fc <? sfc); [exact I|].
  destruct (dec_field_list_shape (N.to_nat (fc - sfc)) true d4) as [(op & d5 & -> & L5)| ->]; [|exact I].
  specialize (IH d5 ltac:(lia)). destruct (dec_ipfix_opt_template_set fu d5); simpl in *; auto.
Qed.

(* ---- data sets ---- *)
Lemma dec_value_shape f d :
  (exists v d', dec_value f d = Ok (v, d')) \/ dec_value f d = Err EShort.
Proof.
  unfold dec_value. destruct (fLen f =? 65535).
  - destruct (rd_cases 1 d) as [(l8 & d1 & ->)| ->]; [|auto].
    destruct (l8 =? 255).
    + destruct (rd_cases 2 d1) as [(l16 & d2 & ->)| ->]; [|auto]. unfold next. eauto.
    + unfold next. eauto.
  - unfold next. eauto.
Qed.

Lemma dec_values_shape fs : forall d,
  (exists vs d', dec_values fs d = Ok (vs, d')) \/ dec_values fs d = Err EShort.
Proof.
  induction fs as [|f fs IH]; intros d; cbn [dec_values]; [eauto|].
  destruct (dec_value_shape f d) as [(v & d1 & ->)| ->]; [|auto].
  destruct (IH d1) as [(vs & d2 & ->)| ->]; eauto.
Qed.

Lemma dec_record_shape fs d :
  (exists vs d', dec_record fs d = Ok (vs, d') /\ (length d' <= length d)%nat /\
                 ((template_size fs <= length d)%nat -> (template_size fs <= length d - length d')%nat)) \/
  dec_record fs d = Err EShort.
Proof.
  unfold dec_record. destruct (Nat.leb (template_size fs) (length d)) eqn:E.
  - apply Nat.leb_le in E.
    destruct (dec_values_shape fs d) as [(vs & d1 & E1)| ->]; [|auto]. rewrite E1.
    apply dec_values_consumes in E1. left. do 2 eexists. split; [reflexivity|]. lia.
  - apply Nat.leb_gt in E. left. do 2 eexists. split; [reflexivity|]. lia.
Qed.

Lemma dec_data_loop_clean fs : (0 < template_size fs)%nat ->
  forall fuel d, (length d < fuel)%nat -> clean (dec_data_loop fuel fs d).
Proof.
  intros Hpos. induction fuel as [|fu IH]; intros d Hf; [lia|]. cbn [dec_data_loop].
  destruct (Nat.leb (template_size fs) (length d)) eqn:E; [|exact I]. apply Nat.leb_le in E.
  destruct (dec_record_shape fs d) as [(vs & d1 & -> & L & C)| ->]; [|exact I].
  specialize (C E). specialize (IH d1 ltac:(lia)). destruct (dec_data_loop fu fs d1); simpl in *; auto.
Qed.

Lemma dec_data_set_clean fs d : clean (dec_data_set fs d).
Proof.
  unfold dec_data_set. destruct (Nat.eqb (template_size fs) 0) eqn:E; [exact I|].
  apply Nat.eqb_neq in E. apply dec_data_loop_clean; lia.
Qed.

Lemma dec_optdata_loop_clean sc op : (0 < template_size sc + template_size op)%nat ->
  forall fuel d, (length d < fuel)%nat -> clean (dec_optdata_loop fuel sc op d).
Proof.
  intros Hpos. induction fuel as [|fu IH]; intros d Hf; [lia|]. cbn [dec_optdata_loop].
  destruct (Nat.leb (template_size sc + template_size op) (length d)) eqn:E; [|exact I]. apply Nat.leb_le in E.
  destruct (dec_record_shape sc d) as [(s & d1 & -> & L1 & C1)| ->]; [|exact I].
  destruct (dec_record_shape op d1) as [(o & d2 & -> & L2 & C2)| ->]; [|exact I].
  assert (length d2 < length d)%nat.
  { specialize (C1 ltac:(lia)).
    destruct (Nat.eq_dec (template_size sc) 0) as [Z|NZ]; [|lia].
    (* the scope part occupies nothing: the option part is met and consumes *)
    assert (length d1 <= length d)%nat by lia.
    destruct (Nat.le_gt_cases (template_size op) (length d1)) as [G|G]; [specialize (C2 G); lia|].
    (* op larger than what is left: then the scope part must have consumed, impossible with size 0
       unless d1 is shorter than d -- in which case progress was made *)
    lia. }
  specialize (IH d2 ltac:(lia)). destruct (dec_optdata_loop fu sc op d2); simpl in *; auto.
Qed.

Lemma dec_optdata_set_clean sc op d : clean (dec_optdata_set sc op d).
Proof.
  unfold dec_optdata_set. destruct (Nat.eqb (template_size sc + template_size op) 0) eqn:E; [exact I|].
  apply Nat.eqb_neq in E. apply dec_optdata_loop_clean; lia.
Qed.

(* ---- flow sets and messages ---- *)
Lemma next_split n (d : bytes) : (length (fst (next n d)) <= length d /\ length (snd (next n d)) <= length d)%nat.
Proof. unfold next. cbn [fst snd]. rewrite firstn_length, skipn_length. lia. Qed.

Lemma clean_bind {A B} (r : res A) (k : A -> res B) :
  clean r -> (forall a, r = Ok a -> clean (k a)) ->
  clean (match r with Ok a => k a | Err e => Err e | Panic => Panic | OutOfFuel => OutOfFuel end).
Proof. destruct r; simpl; intros H K; try contradiction; auto. Qed.

Lemma dec_flowset_shape st dom ver d :
  clean (dec_flowset st dom ver d) /\
  (forall fs tnf st' rest, dec_flowset st dom ver d = Ok (fs, tnf, st', rest) -> (length rest + 4 <= length d)%nat).
Proof.
  unfold dec_flowset.
  destruct (rd_cases 2 d) as [(id & d1 & E1)| ->]; [|split; [exact I|discriminate]]. rewrite E1. apply rd_len in E1.
  destruct (rd_cases 2 d1) as [(len & d2 & E2)| ->]; [|split; [exact I|discriminate]]. rewrite E2. apply rd_len in E2.
  destruct (len <? 4); [split; [exact I|discriminate]|].
  destruct (next (N.to_nat (len - 4)) d2) as [body rest] eqn:En.
  assert (Lr : (length rest <= length d2)%nat).
  { pose proof (next_split (N.to_nat (len - 4)) d2) as [_ H]. rewrite En in H. exact H. }
  assert (R : forall (x : res fsres), clean x ->
              (forall fs tnf st' r, x = Ok (fs, tnf, st', r) -> r = rest) ->
              clean x /\ (forall fs tnf st' r, x = Ok (fs, tnf, st', r) -> (length r + 4 <= length d)%nat)).
  { intros x Hc Hr. split; [exact Hc|]. intros fs tnf st' r Hx. apply Hr in Hx. subst. lia. }
  destruct ((id =? 0) && (ver =? 9)).
  { apply R.
    - pose proof (dec_template_set_clean ver (S (length body)) body ltac:(lia)) as C.
      destruct (dec_template_set (S (length body)) ver body); simpl in *; auto.
    - intros fs tnf st' r. destruct (dec_template_set (S (length body)) ver body); try discriminate.
      intros H; inversion H; reflexivity. }
  destruct ((id =? 1) && (ver =? 9)).
  { apply R.
    - pose proof (dec_v9_opt_clean (S (length body)) body ltac:(lia)) as C.
      destruct (dec_v9_opt_template_set (S (length body)) body); simpl in *; auto.
    - intros fs tnf st' r. destruct (dec_v9_opt_template_set (S (length body)) body); try discriminate.
      intros H; inversion H; reflexivity. }
  destruct ((id =? 2) && (ver =? 10)).
  { apply R.
    - pose proof (dec_template_set_clean ver (S (length body)) body ltac:(lia)) as C.
      destruct (dec_template_set (S (length body)) ver body); simpl in *; auto.
    - intros fs tnf st' r. destruct (dec_template_set (S (length body)) ver body); try discriminate.
      intros H; inversion H; reflexivity. }
  destruct ((id =? 3) && (ver =? 10)).
  { apply R.
    - pose proof (dec_ipfix_opt_clean (S (length body)) body ltac:(lia)) as C.
      destruct (dec_ipfix_opt_template_set (S (length body)) body); simpl in *; auto.
    - intros fs tnf st' r. destruct (dec_ipfix_opt_template_set (S (length body)) body); try discriminate.
      intros H; inversion H; reflexivity. }
  destruct (256 <=? id); [|split; [exact I|discriminate]].
  destruct (store_get st (tkey ver dom id)) as [[r|r|r]|].
  - apply R.
    + pose proof (dec_data_set_clean (tFields r) body) as C. destruct (dec_data_set (tFields r) body); simpl in *; auto.
    + intros fs tnf st' r0. destruct (dec_data_set (tFields r) body); try discriminate. intros H; inversion H; reflexivity.
  - apply R.
    + pose proof (dec_optdata_set_clean (oScopes r) (oOpts r) body) as C.
      destruct (dec_optdata_set (oScopes r) (oOpts r) body); simpl in *; auto.
    + intros fs tnf st' r0. destruct (dec_optdata_set (oScopes r) (oOpts r) body); try discriminate.
      intros H; inversion H; reflexivity.
  - apply R.
    + pose proof (dec_optdata_set_clean (oScopes r) (oOpts r) body) as C.
      destruct (dec_optdata_set (oScopes r) (oOpts r) body); simpl in *; auto.
    + intros fs tnf st' r0. destruct (dec_optdata_set (oScopes r) (oOpts r) body); try discriminate.
      intros H; inversion H; reflexivity.
  - apply R; [exact I|]. intros fs tnf st' r H. inversion H. reflexivity.
Qed.

Lemma dec_common_clean dom size ver start : forall fuel st i d,
  (length d < fuel)%nat -> clean (dec_common fuel st dom size ver start i d).
Proof.
  induction fuel as [|fu IH]; intros st i d Hf; [lia|]. cbn [dec_common].
  match goal with |- clean (if ?c then _ else _) => destruct c; [|exact I] end.
  destruct (dec_flowset_shape st dom ver d) as [C L].
  destruct (dec_flowset st dom ver d) as [[[[fs tnf] st1] d1]| | |]; simpl in C; try contradiction; try exact I.
  specialize (L fs tnf st1 d1 eq_refl).
  specialize (IH st1 (i + 1) d1 ltac:(lia)).
  destruct (dec_common fu st1 dom size ver start (i + 1) d1) as [[[fss tnf'] st2]| | |]; simpl in *; auto.
Qed.

(* EVERY byte string and EVERY template state: the v9/IPFIX decoder returns *)
Lemma decode_nf_clean st d : clean (decode_nf st d).
Proof.
  unfold decode_nf.
  destruct (rd_cases 2 d) as [(ver & d0 & ->)| ->]; [|exact I].
  destruct ((ver =? 9) || (ver =? 10)); [|exact I]. unfold decode_nf_body.
  destruct (rd_fields_cases (if ver =? 9 then v9_hdr_ws else ipfix_hdr_ws) d0) as [(h & d1 & ->)| ->]; [|exact I].
  pose proof (dec_common_clean (nf_dom ver h) (nf_size ver h) ver (length d1) (S (length d1)) st 0 d1 ltac:(lia)) as C.
  destruct (dec_common _ _ _ _ _ _ _ _) as [[[fss tnf] st']| | |]; simpl in *; auto.
Qed.

Lemma decode_nf_body_clean st ver d : clean (decode_nf_body st ver d).
Proof.
  unfold decode_nf_body.
  destruct (rd_fields_cases (if ver =? 9 then v9_hdr_ws else ipfix_hdr_ws) d) as [(h & d1 & ->)| ->]; [|exact I].
  pose proof (dec_common_clean (nf_dom ver h) (nf_size ver h) ver (length d1) (S (length d1)) st 0 d1 ltac:(lia)) as C.
  destruct (dec_common _ _ _ _ _ _ _ _) as [[[fss tnf] st']| | |]; simpl in *; auto.
Qed.

(* ---- packet dissection ---- *)
Lemma mpls_loop_progress : forall fuel d off ls ts ls' ts' off' e,
  mpls_loop fuel d off ls ts = (ls', ts', off', Some e) -> (off + 4 <= off')%nat.
Proof.
  induction fuel as [|fu IH]; intros d off ls ts ls' ts' off' e H; cbn [mpls_loop] in H; [inversion H|].
  destruct (Nat.ltb (length d) (off + 4)); [inversion H|].
  destruct ((byte_at d (off + 2) mod 2 =? 1) || (be (sub d off (off + 3)) / 16 <=? 15)).
  - inversion H; subst. lia.
  - apply IH in H. lia.
Qed.

(* a parser either ends the chain, or is the zero-size Teredo shim in front of IPv6, or consumes
   at least four bytes *)
Lemma run_parser_progress ports p base m d m' size nextp :
  run_parser ports p base m d = Ok (m', size, nextp) ->
  nextp = PNone \/ (p = PTeredo /\ size = 0 /\ nextp = PIPv6) \/ (p <> PTeredo /\ 4 <= size).
Proof.
  destruct p; cbn [run_parser]; unfold stop; intros H;
    try (destruct (Nat.ltb (length d) _); inversion H; subst; auto; right; right; split; [discriminate|lia]);
    try (inversion H; subst; auto; fail).
  - (* MPLS *)
    destruct (Nat.ltb (length d) 4); [inversion H; auto|].
    destruct (mpls_loop (S (length d)) d 0 [] []) as [[[ls ts] off] et] eqn:E.
    inversion H; subst. destruct et as [e|]; [|auto].
    apply mpls_loop_progress in E. right. right. split; [discriminate|lia].
  - (* TCP *)
    destruct (Nat.ltb (length d) 20); inversion H; subst; auto. right. right. split; [discriminate|].
    destruct (byte_at d 12 / 16 * 4 <? 20) eqn:E; lia.
  - destruct (Nat.ltb (length d) 2); inversion H; subst; auto.
  - destruct (Nat.ltb (length d) 2); inversion H; subst; auto.
Qed.

(* a compiled configuration the loader can produce: no negative bit ranges, no unexported
   destinations (both rejected / neutralised by the repaired loader) *)
Definition layer_ok (l : layermap) : Prop := (0 <= lOff l)%Z /\ (0 <= lLen l)%Z /\ mDest (lMap l) <> DPanic.
Definition pcfg_ok (c : pcfg) : Prop := Forall layer_ok (cLayers c).

Lemma map_custom_clean m v c : mDest c <> DPanic -> clean (map_custom m v c).
Proof.
  intros H. unfold map_custom.
  destruct (mDest c) as [col|col|col|col| |idx [|] arr| | |]; try exact I; try congruence;
    try (destruct (mLittle c); [unfold dec_unum_le|unfold dec_unum]; destruct (Nat.leb (length v) 8); exact I).
Qed.

Lemma get_bytes_clean d off len sh : (0 <= off)%Z -> (0 <= len)%Z -> clean (get_bytes d off len sh).
Proof.
  intros Ho Hl. unfold get_bytes.
  destruct (Z.of_nat (length d) * 8 <? off)%Z eqn:E0; [exact I|].
  destruct (len =? 0)%Z eqn:E1; [exact I|].
  apply Z.ltb_ge in E0. apply Z.eqb_neq in E1.
  rewrite !Z.rem_mod_nonneg, !Z.quot_div_nonneg by lia.
  set (L := Z.of_nat (length d)) in *.
  set (e0 := (((off + len) / 8) + (if 0 <? (off + len) mod 8 then 1 else 0))%Z).
  set (lb := ((len / 8) + (if 0 <? len mod 8 then 1 else 0))%Z).
  assert (Hlb : (1 <= lb)%Z).
  { subst lb. destruct (0 <? len mod 8)%Z eqn:E; [apply Z.ltb_lt in E|apply Z.ltb_ge in E].
    - pose proof (Z.div_pos len 8 ltac:(lia) ltac:(lia)). lia.
    - assert (len mod 8 = 0)%Z by (pose proof (Z.mod_pos_bound len 8 ltac:(lia)); lia).
      pose proof (Z.div_mod len 8 ltac:(lia)). lia. }
  assert (He0 : (off / 8 <= e0)%Z).
  { subst e0. pose proof (Z.div_le_mono off (off + len) 8 ltac:(lia) ltac:(lia)).
    destruct (0 <? (off + len) mod 8)%Z; lia. }
  assert (Hs : (off / 8 <= L)%Z).
  { pose proof (Z.div_le_mono off (L * 8) 8 ltac:(lia) E0). rewrite Z.div_mul in H by lia. exact H. }
  destruct (0 <? e0 - L)%Z eqn:Em.
  - apply Z.ltb_lt in Em.
    replace ((off / 8 <? 0) || (L <? off / 8) || (L <? L))%bool%Z with false
      by (symmetry; rewrite !orb_false_iff; repeat split; apply Z.ltb_ge; try lia; apply Z.div_pos; lia).
    destruct ((off mod 8 =? 0) && (len mod 8 =? 0))%bool%Z.
    + replace (lb <? 0)%Z with false by (symmetry; apply Z.ltb_ge; lia). exact I.
    + replace (lb <? 0)%Z with false by (symmetry; apply Z.ltb_ge; lia).
      replace ((off mod 8 <? 0) || (len mod 8 <? 0))%bool%Z with false
        by (symmetry; rewrite orb_false_iff; split; apply Z.ltb_ge; apply Z.mod_pos_bound; lia).
      assert (Hn : (1 <= Z.to_nat lb)%nat) by lia.
      destruct (Z.to_nat lb) as [|n] eqn:En; [lia|].
      rewrite seq_S, map_app, rev_app_distr. cbn [map rev app]. exact I.
  - apply Z.ltb_ge in Em.
    replace ((off / 8 <? 0) || (e0 <? off / 8) || (L <? e0))%bool%Z with false
      by (symmetry; rewrite !orb_false_iff; repeat split; apply Z.ltb_ge; try lia; apply Z.div_pos; lia).
    destruct ((off mod 8 =? 0) && (len mod 8 =? 0))%bool%Z; [exact I|].
    replace (lb <? 0)%Z with false by (symmetry; apply Z.ltb_ge; lia).
    replace ((off mod 8 <? 0) || (len mod 8 <? 0))%bool%Z with false
      by (symmetry; rewrite orb_false_iff; split; apply Z.ltb_ge; apply Z.mod_pos_bound; lia).
    assert (Hn : (1 <= Z.to_nat lb)%nat) by lia.
    destruct (Z.to_nat lb) as [|n] eqn:En; [lia|].
    rewrite seq_S, map_app, rev_app_distr. cbn [map rev app]. exact I.
Qed.

Lemma apply_key_maps_clean k encap data off : forall maps, Forall layer_ok maps ->
  forall m, clean (apply_key_maps maps k encap data off m).
Proof.
  induction 1 as [|c r Hc Hr IHr]; intros m; cbn [apply_key_maps]; [exact I|].
  destruct (String.eqb (lKey c) k && Bool.eqb (lEncap c) encap); [|apply IHr].
  destruct Hc as (Ho & Hl & Hd).
  pose proof (get_bytes_clean data (Z.of_N off * 8 + lOff c) (lLen c) true ltac:(lia) Hl) as G.
  destruct (get_bytes data (Z.of_N off * 8 + lOff c) (lLen c) true) as [ex| | |]; simpl in G; try contradiction; try exact I.
  pose proof (map_custom_clean m ex (lMap c) Hd) as M.
  destruct (map_custom m ex (lMap c)) as [m'| | |]; simpl in M; try contradiction; try exact I.
  apply IHr.
Qed.

Lemma apply_layer_maps_clean maps : Forall layer_ok maps ->
  forall keys encap data off m, clean (apply_layer_maps maps keys encap data off m).
Proof.
  intros Hok. induction keys as [|k ks IH]; intros encap data off m; cbn [apply_layer_maps]; [exact I|].
  pose proof (apply_key_maps_clean k encap data off maps Hok m) as C.
  destruct (apply_key_maps maps k encap data off m); simpl in C; try contradiction; try exact I.
  apply IH.
Qed.

(* potential: bytes left plus a constant; the Teredo shim gets one more unit because it consumes
   nothing but is always followed by IPv6 *)
Definition pot (len : nat) (offset : N) (p : parser) : nat :=
  (len + 1 - N.to_nat offset) + match p with PTeredo => 2 | _ => 1 end.

Lemma parse_loop_clean cfg data : pcfg_ok cfg ->
  forall fuel offset p encap m,
    (p = PNone \/ N.of_nat (length data) < offset -> (1 <= fuel)%nat) ->
    (p <> PNone -> offset <= N.of_nat (length data) -> (pot (length data) offset p < fuel)%nat) ->
    clean (parse_loop fuel cfg data offset p encap m).
Proof.
  intros Hok. induction fuel as [|fu IH]; intros offset p encap m H1 H2.
  { destruct p; try (specialize (H1 (or_introl eq_refl)); lia);
      destruct (N.le_gt_cases offset (N.of_nat (length data))) as [L|G];
      try (specialize (H2 ltac:(discriminate) L); lia); specialize (H1 (or_intror G)); lia. }
  cbn [parse_loop].
  destruct p eqn:Ep; try exact I;
    (destruct (N.of_nat (length data) <? offset) eqn:Eo; [exact I|]);
    apply N.ltb_ge in Eo;
    match goal with |- context [run_parser ?ports ?pp ?b ?mm ?dd] =>
      destruct (run_parser_ok ports pp b mm dd) as [[[m1 size] nextp] E]; rewrite E;
      pose proof (run_parser_progress ports pp b mm dd m1 size nextp E) as P end;
    match goal with |- context [apply_layer_maps ?a ?b ?c ?d ?e ?f] =>
      pose proof (apply_layer_maps_clean a Hok b c d e f) as A;
      destruct (apply_layer_maps a b c d e f) as [m2| | |]; simpl in A; try contradiction; try exact I end;
    (apply IH;
     [ intros _; specialize (H2 ltac:(discriminate) Eo); unfold pot in H2; lia
     | intros Hn Hle; specialize (H2 ltac:(discriminate) Eo); unfold pot in *;
       destruct P as [P|[(P1 & P2 & P3)|(P1 & P2)]];
       [ contradiction
       | try discriminate P1; subst; lia
       | destruct nextp; lia ] ]).
Qed.

Lemma parse_packet_clean cfg m data : pcfg_ok cfg -> clean (parse_packet cfg m data).
Proof.
  intros Hok. unfold parse_packet. apply parse_loop_clean; auto.
  - intros _. lia.
  - intros _ _. unfold pot. cbn. lia.
Qed.

(* ---- producers ---- *)
From GF Require Import Model.ProdNF Model.ProdSF Model.Pipe.

Lemma dec_unum_clean bits v : clean (dec_unum bits v).
Proof. unfold dec_unum. destruct (Nat.leb (length v) 8); exact I. Qed.

Lemma bind_ok_clean {A B} (r : res A) (f : A -> B) :
  clean r -> clean (match r with Ok a => Ok (f a) | Err e => Err e | Panic => Panic | OutOfFuel => OutOfFuel end).
Proof. destruct r; simpl; auto. Qed.

Lemma set_u_clean m col v : clean (set_u m col v).
Proof. unfold set_u. apply bind_ok_clean, dec_unum_clean. Qed.

Lemma set_label_clean m i v : clean (set_label m i v).
Proof. unfold set_label. apply bind_ok_clean, dec_unum_clean. Qed.

Definition prodcfg_ok (c : prodcfg) : Prop :=
  pcfg_ok (pPacket c) /\
  Forall (fun x => mDest (nMap x) <> DPanic) (pNF9 c) /\ Forall (fun x => mDest (nMap x) <> DPanic) (pIPFIX c).

Ltac leaf cfg Hok :=
  solve [ exact I | apply set_u_clean | apply set_label_clean | apply bind_ok_clean, dec_unum_clean
        | (* VLAN: two stores *)
          match goal with |- clean (match set_u ?m ?c ?v with _ => _ end) =>
            pose proof (set_u_clean m c v); destruct (set_u m c v); simpl in *; try contradiction; try exact I; apply set_u_clean end
        | (* dataLinkFrameSize *)
          match goal with |- clean (match set_u ?m ?c ?v with _ => _ end) =>
            pose proof (set_u_clean m c v); destruct (set_u m c v); simpl in *; auto end
        | (* dataLinkFrameSection *)
          match goal with |- clean (match parse_packet ?c ?m ?v with _ => _ end) =>
            pose proof (parse_packet_clean c m v Hok); destruct (parse_packet c m v); simpl in *; auto end
        | match goal with |- clean (match ?v with [] => _ | _ :: _ => _ end) => destruct v as [|[|p0] ?]; try exact I;
            repeat (destruct p0 as [p0|p0|]; try exact I) end ].

Ltac walk cfg Hok :=
  lazy beta iota;
  first [ leaf cfg Hok
        | match goal with
          | |- context [match ?p with xI _ => _ | xO _ => _ | xH => _ end] => is_var p; destruct p; walk cfg Hok
          | |- clean (if ?b then _ else _) => destruct b; walk cfg Hok
          end ].

Lemma nf_field_clean cfg ver base up m ty v : pcfg_ok (pPacket cfg) -> clean (nf_field cfg ver base up m ty v).
Proof.
  intros Hok. unfold nf_field. destruct ty as [|p]; [walk cfg Hok|]. walk cfg Hok.
Qed.

Lemma nf_lookup_dest maps f c : Forall (fun x => mDest (nMap x) <> DPanic) maps ->
  nf_lookup maps f = Some c -> mDest c <> DPanic.
Proof.
  intros Hall. unfold nf_lookup.
  destruct (find _ (rev maps)) as [x|] eqn:E; [|discriminate]. intros H; inversion H; subst.
  apply find_some in E. destruct E as [Hin _]. apply in_rev in Hin.
  rewrite Forall_forall in Hall. apply Hall. exact Hin.
Qed.

Lemma nf_fields_clean cfg ver base up : prodcfg_ok cfg -> forall r m, clean (nf_fields cfg ver base up m r).
Proof.
  intros (Hp & H9 & H10). induction r as [|f r IH]; intros m; cbn [nf_fields]; [exact I|].
  destruct (dVal f) as [v|]; [|apply IH].
  assert (C1 : clean (match nf_lookup (if ver =? 9 then pNF9 cfg else pIPFIX cfg) f with
                      | Some c => map_custom m v c | None => Ok m end)).
  { destruct (nf_lookup _ f) as [c|] eqn:E; [|exact I].
    apply map_custom_clean. eapply nf_lookup_dest; [|exact E]. destruct (ver =? 9); assumption. }
  destruct (match nf_lookup _ f with Some c => map_custom m v c | None => Ok m end) as [m1| | |];
    simpl in C1; try contradiction; try exact I.
  assert (C2 : clean (if dPenP f then Ok m1 else nf_field cfg ver base up m1 (dType f) v)).
  { destruct (dPenP f); [exact I|apply nf_field_clean; exact Hp]. }
  destruct (if dPenP f then Ok m1 else nf_field cfg ver base up m1 (dType f) v) as [m2| | |];
    simpl in C2; try contradiction; try exact I.
  apply IH.
Qed.

Lemma convert_recs_clean cfg ver base up : prodcfg_ok cfg -> forall rs, clean (convert_recs cfg ver base up rs).
Proof.
  intros Hok. induction rs as [|r rs IH]; cbn [convert_recs]; [exact I|].
  pose proof (nf_fields_clean cfg ver base up Hok r) as C. unfold convert_nf.
  match goal with |- clean (match nf_fields ?a ?b ?c ?d ?m ?r with _ => _ end) =>
    specialize (C m); destruct (nf_fields a b c d m r); simpl in C; try contradiction; try exact I end.
  destruct (convert_recs cfg ver base up rs); simpl in *; auto.
Qed.

Lemma populate_clean fs ty cur : clean (populate fs ty cur).
Proof.
  unfold populate. destruct (look_for fs ty) as [f|]; [|exact I]. destruct (dVal f) as [v|]; [|exact I].
  destruct (rd_cases 4 v) as [(x & r & ->)| ->]; exact I.
Qed.

Lemma find_sampling_clean : forall rs cur, clean (find_sampling rs cur).
Proof.
  induction rs as [|[sv ov] rs IH]; intros cur; cbn [find_sampling]; [exact I|].
  pose proof (populate_clean ov 305 cur) as C1.
  destruct (populate ov 305 cur) as [[f1 c1]| | |]; simpl in C1; try contradiction; try exact I.
  destruct f1; [exact I|].
  pose proof (populate_clean ov 50 c1) as C2.
  destruct (populate ov 50 c1) as [[f2 c2]| | |]; simpl in C2; try contradiction; try exact I.
  destruct f2; [exact I|].
  pose proof (populate_clean ov 34 c2) as C3.
  destruct (populate ov 34 c2) as [[f3 c3]| | |]; simpl in C3; try contradiction; try exact I.
  destruct f3; [exact I|apply IH].
Qed.

Lemma produce_nf_clean cfg ss ip p : prodcfg_ok cfg -> clean (fst (produce_nf cfg ss ip p)).
Proof.
  intros Hok. unfold produce_nf.
  pose proof (convert_recs_clean cfg (pVer p)
                (if pVer p =? 9 then nth 2 (pHdr p) 0 else nth 1 (pHdr p) 0)
                (if pVer p =? 9 then nth 1 (pHdr p) 0 else 0) Hok (data_records (pSets p))) as C.
  destruct (convert_recs _ _ _ _ _); simpl in C; try contradiction; try exact I.
  pose proof (find_sampling_clean (optdata_records (pSets p)) 0) as F.
  destruct (find_sampling _ 0) as [[found rate]| | |]; simpl in F; try contradiction; exact I.
Qed.

Lemma decode_v5_body_clean d : clean (decode_v5_body d).
Proof.
  unfold decode_v5_body.
  destruct (rd_fields_cases v5_hdr_ws d) as [(h & d1 & ->)| ->]; [|exact I].
  destruct (v5_loop_total (N.to_nat (v5_count h)) d1) as [(rs & ->)| ->]; exact I.
Qed.

(* EVERY datagram, EVERY pipe state, EVERY exporter: the NetFlow pipe returns *)
Lemma nf_step_clean cfg st e tr d : prodcfg_ok cfg -> clean (nf_step cfg st e tr d).
Proof.
  intros Hok. unfold nf_step.
  destruct (rd_cases 2 d) as [(ver & d0 & ->)| ->]; [|exact I].
  destruct (ver =? 5).
  { pose proof (decode_v5_body_clean d0) as C. destruct (decode_v5_body d0); simpl in C; try contradiction; exact I. }
  destruct ((ver =? 9) || (ver =? 10)); [|exact I].
  pose proof (decode_nf_body_clean (tstores_get (psT st) (exp_id e)) ver d0) as C.
  destruct (decode_nf_body _ ver d0) as [[[p tnf] s]| | |]; simpl in C; try contradiction; try exact I.
  pose proof (produce_nf_clean cfg (psS st) (addr_id (eAddr e)) p Hok) as P.
  destruct (produce_nf cfg (psS st) (addr_id (eAddr e)) p) as [[ms| | |] ss']; simpl in P; try contradiction; exact I.
Qed.

(* ---- sFlow ---- *)
Definition okerr {A} (r : res A) : Prop := (exists a, r = Ok a) \/ (exists e, r = Err e).
Lemma okerr_clean {A} (r : res A) : okerr r -> clean r.
Proof. intros [(a & ->)|(e & ->)]; exact I. Qed.
Lemma clean_okerr {A} (r : res A) : clean r -> okerr r.
Proof. destruct r; simpl; intros H; try contradiction; [left|right]; eauto. Qed.

Ltac chain :=
  repeat first
    [ exact I
    | match goal with
      | |- clean (match rd ?n ?d with _ => _ end) => destruct (rd_cases n d) as [(? & ? & ->)| ->]
      | |- clean (match read ?n ?d with _ => _ end) => destruct (read_cases n d) as [(? & ? & ->)| ->]
      | |- clean (match rd_fields ?w ?d with _ => _ end) => destruct (rd_fields_cases w d) as [(? & ? & ->)| ->]
      | |- clean (if ?b then _ else _) => destruct b
      | |- clean (let (_, _) := ?x in _) => destruct x
      | |- clean (match (if ?b then _ else _) with _ => _ end) => destruct b
      end ].

Lemma dec_ip_okerr d : okerr (dec_ip d).
Proof.
  apply clean_okerr. unfold dec_ip.
  destruct (rd_cases 4 d) as [(v & d1 & ->)| ->]; [|exact I].
  destruct (v =? 1).
  - destruct (Nat.leb 4 (length d1)); [|exact I]. destruct (read_cases 4 d1) as [(x & r & ->)| ->]; exact I.
  - destruct (v =? 2); [|exact I].
    destruct (Nat.leb 16 (length d1)); [|exact I]. destruct (read_cases 16 d1) as [(x & r & ->)| ->]; exact I.
Qed.

Lemma rd_string_okerr d : okerr (rd_string d).
Proof.
  apply clean_okerr. unfold rd_string.
  destruct (rd_cases 4 d) as [(n & d1 & ->)| ->]; [|exact I].
  destruct (lenN d1 <? n); [exact I|].
  destruct (read_cases (N.to_nat n) d1) as [(x & r & ->)| ->]; exact I.
Qed.

Lemma rd_u32s_okerr n : forall d, okerr (rd_u32s n d).
Proof.
  induction n as [|k IH]; intros d; cbn [rd_u32s]; [left; eauto|].
  destruct (rd_cases 4 d) as [(x & d1 & ->)| ->]; [|right; eauto].
  destruct (IH d1) as [((xs & d2) & ->)|(e & ->)]; [left|right]; eauto.
Qed.

Lemma rd_u32_slice_okerr n d : okerr (rd_u32_slice n d).
Proof. unfold rd_u32_slice. destruct (Nat.leb (4 * n) (length d)); [apply rd_u32s_okerr|right; eauto]. Qed.

Ltac use_okerr H := destruct H as [(? & ->)|(? & ->)].

Lemma dec_flow_record_clean fmt len d : clean (dec_flow_record fmt len d).
Proof.
  unfold dec_flow_record.
  assert (G : clean (let* (v, ip, d1) := dec_ip d in
                     let* (vs, d2) := rd_fields (u32s 4) d1 in
                     let* (pt, pl, path, d3) :=
                       (if nth 3 vs 0 =? 0 then Ok (0, 0, [], d2) else
                          let* (pt, d3) := rd 4 d2 in let* (pl, d4) := rd 4 d3 in
                          if 1000 <? pl then Err ETooMany else
                          if Z.ltb (Z.of_nat (length d4) - 4) (Z.of_N pl) then Err EOther else
                          if pl =? 0 then Ok (pt, pl, [], d4) else
                          let* (p, d5) := rd_u32_slice (N.to_nat pl) d4 in Ok (pt, pl, p, d5)) in
                     let* (cl, d4) := rd 4 d3 in
                     if 1000 <? cl then Err ETooMany else
                     if Z.ltb (Z.of_nat (length d4) - 4) (Z.of_N cl) then Err EOther else
                     let* (comm, d5) := (if cl =? 0 then Ok ([], d4) else rd_u32_slice (N.to_nat cl) d4) in
                     let* (lp, _) := rd 4 d5 in
                     Ok (mkrec fmt len KGateway (v :: vs ++ [pt; pl; cl; lp]) [ip] [path; comm]))).
  { destruct (dec_ip_okerr d) as [([[v ip] d1] & ->)|(e & ->)]; [|exact I].
    destruct (rd_fields_cases (u32s 4) d1) as [(vs & d2 & ->)| ->]; [|exact I].
    assert (P : okerr (if nth 3 vs 0 =? 0 then Ok (0, 0, [], d2) else
                          let* (pt, d3) := rd 4 d2 in let* (pl, d4) := rd 4 d3 in
                          if 1000 <? pl then Err ETooMany else
                          if Z.ltb (Z.of_nat (length d4) - 4) (Z.of_N pl) then Err EOther else
                          if pl =? 0 then Ok (pt, pl, [], d4) else
                          let* (p, d5) := rd_u32_slice (N.to_nat pl) d4 in Ok (pt, pl, p, d5))).
    { apply clean_okerr. destruct (nth 3 vs 0 =? 0); [exact I|].
      destruct (rd_cases 4 d2) as [(pt & d3 & ->)| ->]; [|exact I].
      destruct (rd_cases 4 d3) as [(pl & d4 & ->)| ->]; [|exact I].
      destruct (1000 <? pl); [exact I|]. destruct (Z.ltb _ _); [exact I|]. destruct (pl =? 0); [exact I|].
      destruct (rd_u32_slice_okerr (N.to_nat pl) d4) as [((p & d5) & ->)|(e & ->)]; exact I. }
    destruct P as [([[[pt pl] path] d3] & ->)|(e & ->)]; [|exact I].
    destruct (rd_cases 4 d3) as [(cl & d4 & ->)| ->]; [|exact I].
    destruct (1000 <? cl); [exact I|]. destruct (Z.ltb _ _); [exact I|].
    assert (Q : okerr (if cl =? 0 then Ok ([], d4) else rd_u32_slice (N.to_nat cl) d4)).
    { destruct (cl =? 0); [left; eauto|apply rd_u32_slice_okerr]. }
    destruct Q as [((comm & d5) & ->)|(e & ->)]; [|exact I].
    destruct (rd_cases 4 d5) as [(lp & r & ->)| ->]; exact I. }
  assert (R : clean (let* (v, ip, d1) := dec_ip d in let* (vs, _) := rd_fields (u32s 2) d1 in
                     Ok (mkrec fmt len KRouter (v :: vs) [ip] []))).
  { destruct (dec_ip_okerr d) as [([[v ip] d1] & ->)|(e & ->)]; [|exact I].
    destruct (rd_fields_cases (u32s 2) d1) as [(vs & d2 & ->)| ->]; exact I. }
  assert (A : clean (let* (n, d1) := rd 4 d in let* (s, d2) := rd_string d1 in let* (dir, _) := rd 4 d2 in
                     Ok (mkrec fmt len KAcl [n; dir] [s] []))).
  { destruct (rd_cases 4 d) as [(n & d1 & ->)| ->]; [|exact I].
    destruct (rd_string_okerr d1) as [((s & d2) & ->)|(e & ->)]; [|exact I].
    destruct (rd_cases 4 d2) as [(dir & r & ->)| ->]; exact I. }
  assert (F : clean (let* (s, _) := rd_string d in Ok (mkrec fmt len KFunc [] [s] []))).
  { destruct (rd_string_okerr d) as [((s & d2) & ->)|(e & ->)]; exact I. }
  destruct fmt as [|p]; [exact I|].
  repeat (lazy beta iota;
          first [ exact G | exact R | exact A | exact F | solve [chain]
                | match goal with |- context [match ?q with xI _ => _ | xO _ => _ | xH => _ end] =>
                    is_var q; destruct q end ]).
Qed.

Lemma dec_counter_record_clean fmt len d : clean (dec_counter_record fmt len d).
Proof.
  unfold dec_counter_record. destruct fmt as [|p]; [exact I|].
  repeat (lazy beta iota;
          first [ solve [chain]
                | match goal with |- context [match ?q with xI _ => _ | xO _ => _ | xH => _ end] =>
                    is_var q; destruct q end ]).
Qed.

Lemma dec_records_clean flow : forall count d, clean (dec_records count flow d).
Proof.
  induction count as [|c IH]; intros d; cbn [dec_records]; [exact I|].
  destruct (Nat.leb 8 (length d)); [|exact I].
  destruct (rd_cases 4 d) as [(fmt & d1 & ->)| ->]; [|exact I].
  destruct (rd_cases 4 d1) as [(len & d2 & ->)| ->]; [|exact I].
  destruct (lenN d2 <? len); [exact I|].
  destruct (next (N.to_nat len) d2) as [body rest].
  assert (C : clean (if flow then dec_flow_record fmt len body else dec_counter_record fmt len body)).
  { destruct flow; [apply dec_flow_record_clean|apply dec_counter_record_clean]. }
  destruct (if flow then dec_flow_record fmt len body else dec_counter_record fmt len body);
    simpl in C; try contradiction; try exact I.
  specialize (IH rest). destruct (dec_records c flow rest); simpl in *; auto.
Qed.

Lemma dec_sample_clean fmt len d : clean (dec_sample fmt len d).
Proof.
  unfold dec_sample.
  destruct (rd_cases 4 d) as [(seq & d1 & ->)| ->]; [|exact I].
  assert (S : okerr (if (fmt =? 1) || (fmt =? 2) then
                       let* (sid, d2) := rd 4 d1 in Ok (sid / 16777216, sid mod 16777216, d2)
                     else if (fmt =? 3) || (fmt =? 4) || (fmt =? 5) then
                       let* (a, d2) := rd 4 d1 in let* (b, d3) := rd 4 d2 in Ok (a, b, d3)
                     else Err EOther)).
  { apply clean_okerr. chain. }
  destruct S as [([[st sv] d2] & ->)|(e & ->)]; [|exact I].
  assert (B : forall kind nvals flow,
            clean (let* (vs, d3) := rd_fields (u32s nvals) d2 in
                   let count := last vs 0 in
                   if 1000 <? count then Err ETooMany else
                   let* rs := dec_records (N.to_nat count) flow d3 in
                   Ok {| sKind := kind; sHdr := [fmt; len; seq; st; sv]; sVals := vs;
                         sRecs := pad_recs (N.to_nat count) rs |})).
  { intros kind nvals flow.
    destruct (rd_fields_cases (u32s nvals) d2) as [(vs & d3 & ->)| ->]; [|exact I].
    cbv zeta. destruct (1000 <? last vs 0); [exact I|].
    pose proof (dec_records_clean flow (N.to_nat (last vs 0)) d3) as C.
    destruct (dec_records _ flow d3); simpl in C; try contradiction; exact I. }
  destruct (fmt =? 1); [apply B|]. destruct ((fmt =? 2) || (fmt =? 4)); [apply B|].
  destruct (fmt =? 3); apply B.
Qed.

Lemma dec_samples_clean : forall count d, clean (dec_samples count d).
Proof.
  induction count as [|c IH]; intros d; cbn [dec_samples]; [exact I|].
  destruct (Nat.leb 8 (length d)); [|exact I].
  destruct (rd_cases 4 d) as [(fmt & d1 & ->)| ->]; [|exact I].
  destruct (rd_cases 4 d1) as [(len & d2 & ->)| ->]; [|exact I].
  destruct (lenN d2 <? len); [exact I|].
  destruct (next (N.to_nat len) d2) as [body rest].
  pose proof (dec_sample_clean fmt len body) as C.
  destruct (dec_sample fmt len body); simpl in C; try contradiction; try exact I.
  specialize (IH rest). destruct (dec_samples c rest); simpl in *; auto.
Qed.

(* EVERY byte string: the sFlow decoder returns *)
Lemma decode_sf_clean d : clean (decode_sf d).
Proof.
  unfold decode_sf.
  destruct (rd_cases 4 d) as [(ver & d0 & ->)| ->]; [|exact I].
  destruct (negb (ver =? 5)); [exact I|].
  destruct (rd_cases 4 d0) as [(ipv & d1 & ->)| ->]; [|exact I].
  assert (A : okerr (if ipv =? 1 then read 4 d1 else if ipv =? 2 then read 16 d1 else Err EOther)).
  { apply clean_okerr. destruct (ipv =? 1); [destruct (read_cases 4 d1) as [(x & r & ->)| ->]; exact I|].
    destruct (ipv =? 2); [destruct (read_cases 16 d1) as [(x & r & ->)| ->]; exact I|exact I]. }
  destruct A as [((ip & d2) & ->)|(e & ->)]; [|exact I].
  destruct (rd_fields_cases (u32s 4) d2) as [(vs & d3 & ->)| ->]; [|exact I].
  cbv zeta. destruct (1000 <? nth 3 vs 0); [exact I|].
  pose proof (dec_samples_clean (N.to_nat (nth 3 vs 0)) d3) as C.
  destruct (dec_samples _ d3); simpl in C; try contradiction; exact I.
Qed.

Lemma sf_record_clean cfg m r : pcfg_ok cfg -> clean (sf_record cfg m r).
Proof.
  intros Hok. unfold sf_record. destruct (rKind r); try exact I.
  destruct (vv (rVals r) 0 =? 1); [apply parse_packet_clean; exact Hok|exact I].
Qed.

Lemma sf_records_clean cfg : pcfg_ok cfg -> forall rs m, clean (sf_records cfg m rs).
Proof.
  intros Hok. induction rs as [|r rs IH]; intros m; cbn [sf_records]; [exact I|].
  pose proof (sf_record_clean cfg m r Hok) as C. destruct (sf_record cfg m r); simpl in C; try contradiction; try exact I.
  apply IH.
Qed.

Lemma convert_samples_clean cfg : pcfg_ok cfg -> forall ss, clean (convert_samples cfg ss).
Proof.
  intros Hok. induction ss as [|s ss IH]; cbn [convert_samples]; [exact I|].
  unfold convert_sf.
  match goal with |- clean (match sf_records ?c ?m ?rs with _ => _ end) =>
    pose proof (sf_records_clean c Hok rs m) as C; destruct (sf_records c m rs); simpl in C; try contradiction; try exact I end.
  destruct (convert_samples cfg ss); simpl in *; auto.
Qed.

Lemma sf_step_clean cfg st e tr d : prodcfg_ok cfg -> clean (sf_step cfg st e tr d).
Proof.
  intros (Hp & _). unfold sf_step.
  pose proof (decode_sf_clean d) as C. destruct (decode_sf d) as [p| | |]; simpl in C; try contradiction; try exact I.
  unfold produce_sf.
  pose proof (convert_samples_clean (pPacket cfg) Hp (flow_samples p)) as S.
  destruct (convert_samples (pPacket cfg) (flow_samples p)); simpl in S; try contradiction; exact I.
Qed.

Lemma flow_step_clean cfg st e tr d : prodcfg_ok cfg -> clean (flow_step cfg st e tr d).
Proof.
  intros Hok. unfold flow_step.
  destruct (rd_cases 4 d) as [(proto & r & ->)| ->]; [|exact I].
  destruct (proto =? 5); [apply sf_step_clean; exact Hok|].
  destruct ((proto / 65536 =? 5) || (proto / 65536 =? 9) || (proto / 65536 =? 10)); [apply nf_step_clean; exact Hok|exact I].
Qed.

(* the three pipes, every state, every exporter, every byte string *)
Lemma pipe_step_clean k cfg st e tr d : prodcfg_ok cfg -> clean (pipe_step k cfg st e tr d).
Proof.
  intros Hok. destruct k; [apply nf_step_clean|apply sf_step_clean|apply flow_step_clean]; exact Hok.
Qed.

(* every compiled mapping file satisfies prodcfg_ok *)
From GF Require Import Model.Cfg.
Lemma resolve_not_panic customs name : resolve customs name <> DPanic.
Proof.
  unfold resolve.
  destruct (find _ name_table) as [[[[j g] col] k]|].
  - destruct (existsb _ customs && negb (existsb _ name_table)).
    + destruct (find _ (rev customs)) as [c|]; [destruct (cType c)|]; discriminate.
    + destruct k; discriminate.
  - destruct (find _ (rev customs)) as [c|]; [|discriminate].
    destruct (cIndex c =? 0); [discriminate|]. destruct (cType c); discriminate.
Qed.

Lemma compile_ok a cfg : compile a = Some cfg -> prodcfg_ok cfg.
Proof.
  unfold compile. intros H.
  destruct (existsb (fun l => (aLOff l <? 0)%Z || (aLLen l <? 0)%Z) (aLayers a)) eqn:En; [discriminate|].
  match type of H with (if ?b then _ else _) = _ => destruct b; [discriminate|] end.
  inversion H; subst; clear H. unfold prodcfg_ok, pcfg_ok. cbn [pPacket pNF9 pIPFIX cLayers]. repeat split.
  - apply Forall_forall. intros l Hl. apply in_map_iff in Hl. destruct Hl as (x & <- & Hx).
    unfold layer_ok. cbn [lOff lLen lMap mDest].
    assert (Hb : ((aLOff x <? 0)%Z || (aLLen x <? 0)%Z) = false).
    { destruct ((aLOff x <? 0)%Z || (aLLen x <? 0)%Z) eqn:E; [|reflexivity].
      exfalso. assert (T : true = false); [|discriminate]. rewrite <- En. symmetry.
      apply existsb_exists. exists x. split; assumption. }
    apply orb_false_elim in Hb. destruct Hb as [H1 H2]. apply Z.ltb_ge in H1, H2.
    repeat split; try assumption. apply resolve_not_panic.
  - apply Forall_forall. intros x Hx. apply in_map_iff in Hx. destruct Hx as (y & <- & _).
    cbn [nMap mDest]. apply resolve_not_panic.
  - apply Forall_forall. intros x Hx. apply in_map_iff in Hx. destruct Hx as (y & <- & _).
    cbn [nMap mDest]. apply resolve_not_panic.
Qed.

Lemma empty_prodcfg_ok : prodcfg_ok empty_prodcfg.
Proof. unfold prodcfg_ok, pcfg_ok, empty_prodcfg, empty_pcfg. cbn. repeat split; constructor. Qed.
