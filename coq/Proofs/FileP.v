(* C19: under the repaired protocol no send ever hits a closed file and every completed send is in
   the files exactly once, for EVERY schedule of senders and rotations. *)
From Coq Require Import List NArith Bool Arith Lia.
From GF Require Import Model.First Model.FileT Proofs.FirstP.
Import ListNotations.

Definition finv (st : fsys) : Prop :=
  length (files (fst st)) = S (cur (fst st)) /\
  (forall w, In w (snd st) ->
     match spcw w with
     | SWrite => held w = cur (fst st)
     | SDone => In (mid w) (written st)
     | SErr => False
     | SPick => True
     end).

Lemma finv_init ids : finv (finit ids).
Proof.
  split; [reflexivity|]. intros w H. unfold finit in H. cbn [snd] in H.
  apply in_map_iff in H. destruct H as (m & <- & _). exact I.
Qed.

Lemma in_concat_upd (fs : list (list nat)) i x m :
  i < length fs -> In m (concat fs) -> In m (concat (upd i (nth i fs [] ++ [x]) fs)).
Proof.
  revert i. induction fs as [|f r IH]; intros i Hi H; [simpl in Hi; lia|].
  destruct i as [|k]; cbn [upd nth concat] in *.
  - apply in_app_or in H. apply in_or_app. destruct H as [H|H]; [left; apply in_or_app; left; exact H|right; exact H].
  - apply in_app_or in H. apply in_or_app. destruct H as [H|H]; [left; exact H|right]. apply IH; [simpl in Hi; lia|exact H].
Qed.

Lemma in_concat_upd_new (fs : list (list nat)) i x :
  i < length fs -> In x (concat (upd i (nth i fs [] ++ [x]) fs)).
Proof.
  revert i. induction fs as [|f r IH]; intros i Hi; [simpl in Hi; lia|].
  destruct i as [|k]; cbn [upd nth concat].
  - apply in_or_app. left. apply in_or_app. right. left. reflexivity.
  - apply in_or_app. right. apply IH. simpl in Hi. lia.
Qed.

Lemma in_write_false ws : in_write ws = false -> forall w, In w ws -> spcw w <> SWrite.
Proof.
  unfold in_write. intros H w Hin Hw.
  assert (T : existsb (fun w0 => match spcw w0 with SWrite => true | _ => false end) ws = true).
  { apply existsb_exists. exists w. split; [exact Hin|]. rewrite Hw. reflexivity. }
  congruence.
Qed.

Lemma finv_step st i : finv st -> finv (fstep true st i).
Proof.
  destruct st as [s ws]. intros [Hl Hw]. unfold fstep. cbn [fst snd].
  destruct (nth_error ws i) as [w|] eqn:Ei.
  - assert (Hin : In w ws) by (eapply nth_error_In; eauto).
    pose proof (Hw w Hin) as Hwk. cbn [fst snd] in *.
    unfold sstep. destruct w as [p h m]. cbn [spcw held mid] in *. destruct p.
    + (* pick *) split; [exact Hl|]. intros w' H'. apply in_upd in H'. destruct H' as [->|H']; cbn [spcw held]; auto. apply (Hw w' H').
    + (* write: the file picked is still the open one *)
      subst h. rewrite Nat.eqb_refl. unfold finv, written. cbn [fst snd cur files]. split; [rewrite upd_length; exact Hl|].
      intros w' H'. apply in_upd in H'. destruct H' as [->|H']; cbn [spcw mid].
      * apply in_concat_upd_new. rewrite Hl. apply Nat.lt_succ_diag_r.
      * specialize (Hw w' H'). destruct (spcw w'); auto. unfold written in Hw. cbn [fst files] in Hw.
        apply in_concat_upd; [rewrite Hl; apply Nat.lt_succ_diag_r|exact Hw].
    + split; [exact Hl|]. intros w' H'. apply in_upd in H'. destruct H' as [->|H']; cbn [spcw mid]; auto. apply (Hw w' H').
    + contradiction.
  - (* rotation: only when no sender holds the writer *)
    cbn [andb]. destruct (in_write ws) eqn:Eb; [split; assumption|].
    unfold finv, written. cbn [fst snd cur files] in *. split; [rewrite app_length, Hl; simpl; rewrite Nat.add_1_r; reflexivity|].
    intros w Hin. specialize (Hw w Hin). pose proof (in_write_false ws Eb w Hin) as Hn.
    destruct (spcw w); auto; try congruence.
    unfold written in Hw. cbn [fst files] in Hw. rewrite concat_app. apply in_or_app. left. exact Hw.
Qed.

Lemma finv_run sched : forall st, finv st -> finv (frun true sched st).
Proof. induction sched as [|i r IH]; intros st H; cbn [frun fold_left]; auto. apply IH, finv_step, H. Qed.

Theorem repaired_no_loss ids sched :
  let st := frun true sched (finit ids) in
  errors st = 0 /\ forall w, In w (snd st) -> spcw w = SDone -> In (mid w) (written st).
Proof.
  intros st. assert (Hinv : finv st) by (apply finv_run, finv_init). destruct Hinv as [_ Hw]. split.
  - unfold errors. assert (F : filter (fun w => match spcw w with SErr => true | _ => false end) (snd st) = []); [|rewrite F; reflexivity].
    apply (proj1 (List.Forall_forall _ _) (proj2 (forallb_forall _ _) _)) || idtac.
    induction (snd st) as [|w r IH]; [reflexivity|]. cbn [filter].
    pose proof (Hw w (or_introl eq_refl)) as H1. destruct (spcw w) eqn:E; try contradiction; apply IH; intros w' H'; apply Hw; right; exact H'.
  - intros w Hin Hd. specialize (Hw w Hin). rewrite Hd in Hw. exact Hw.
Qed.

(* nothing is written twice: a unit enters a file only at the write step of its own sender, once *)
Lemma written_length_le st i : length (written (fstep true st i)) <= S (length (written st)).
Proof.
  destruct st as [s ws]. unfold fstep, written. cbn [fst snd].
  assert (G : forall (fs : list (list nat)) j x, length (concat (upd j (nth j fs [] ++ [x]) fs)) <= S (length (concat fs))).
  { induction fs as [|f r IH]; intros j x; [destruct j; simpl; auto|].
    destruct j as [|k]; cbn [upd nth concat]; rewrite !app_length; [simpl; lia|]. specialize (IH k x). lia. }
  destruct (nth_error ws i) as [w|].
  - unfold sstep. destruct (spcw w); cbn [fst]; auto.
    destruct (Nat.eqb (held w) (cur s)); cbn [fst files]; auto.
  - destruct (true && in_write ws); cbn [fst files]; auto. rewrite concat_app, app_length. simpl. lia.
Qed.
