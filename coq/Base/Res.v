(* Outcome type shared by every model function.
   Ok      : the Go function returned normally (err == nil)
   Err e   : the Go function returned a non-nil error of class e
   Panic   : the Go code would index/slice out of range, deref nil, or reflect-panic
   OutOfFuel : the fuelled loop did not finish -- only ever produced by fuel exhaustion *)
From Coq Require Import String NArith List Bool.
Import ListNotations.

Inductive err := EShort | EVersion | ETooMany | ETmplNotFound | ENeg | EOther.

Inductive res (A : Type) := Ok (a : A) | Err (e : err) | Panic | OutOfFuel.
Arguments Ok {A}. Arguments Err {A}. Arguments Panic {A}. Arguments OutOfFuel {A}.

Notation "'let*' p ':=' e 'in' k" :=
  (match e with Ok p => k | Err x => Err x | Panic => Panic | OutOfFuel => OutOfFuel end)
  (at level 200, p pattern, right associativity).

Definition returns {A} (r : res A) : Prop := r <> Panic /\ r <> OutOfFuel.

Lemma returns_ok {A} (a : A) : returns (Ok a).
Proof. split; discriminate. Qed.
Lemma returns_err {A} e : returns (@Err A e).
Proof. split; discriminate. Qed.

Definition is_ok {A} (r : res A) : bool := match r with Ok _ => true | _ => false end.

(* Observation tokens: what both sides print, one case per line. *)
Inductive tok := TN (n : N) | TS (s : string) | TB (b : list N).

Definition err_tok (e : err) : tok :=
  match e with
  | ETmplNotFound => TS "tnf"
  | _ => TS "err"
  end.

(* decidable equality of observations (used by Examples evaluated with vm_compute) *)
Definition tok_eqb (a b : tok) : bool :=
  match a, b with
  | TN x, TN y => N.eqb x y
  | TS x, TS y => String.eqb x y
  | TB x, TB y => (fix eq (l1 l2 : list N) : bool :=
                     match l1, l2 with
                     | [], [] => true
                     | p :: r1, q :: r2 => N.eqb p q && eq r1 r2
                     | _, _ => false
                     end) x y
  | _, _ => false
  end.
Fixpoint toks_eqb (a b : list tok) : bool :=
  match a, b with
  | [], [] => true
  | x :: r1, y :: r2 => tok_eqb x y && toks_eqb r1 r2
  | _, _ => false
  end.
