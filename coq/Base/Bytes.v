(* Byte strings, big-endian integers, and the model of bytes.Buffer reads
   (decoders/utils/utils.go: BinaryRead = Next(n) + length check). *)
From Coq Require Import List NArith ZArith Lia ZifyN ZifyNat ZifyBool Bool.
From GF Require Import Base.Res.
Import ListNotations.
Open Scope N_scope.
Ltac Zify.zify_post_hook ::= Z.div_mod_to_equations.

Definition bytes := list N.
Definition wfb (l : bytes) : Prop := Forall (fun b => b < 256) l.
Definition wfbb (l : bytes) : bool := forallb (fun b => b <? 256) l.

Definition be (l : bytes) : N := fold_left (fun acc b => acc * 256 + b) l 0.

Fixpoint enc_be (n : nat) (v : N) : bytes :=
  match n with O => [] | S k => enc_be k (v / 256) ++ [v mod 256] end.

(* bytes.Buffer.Next: never fails, returns what is there *)
Definition next (n : nat) (b : bytes) : bytes * bytes := (firstn n b, skipn n b).

(* BinaryRead of n raw bytes: Next(n) then len(bs) < n -> ErrUnexpectedEOF *)
Definition read (n : nat) (b : bytes) : res (bytes * bytes) :=
  if Nat.leb n (length b) then Ok (firstn n b, skipn n b) else Err EShort.

(* BinaryRead of a big-endian unsigned integer of n bytes *)
Definition rd (n : nat) (b : bytes) : res (N * bytes) :=
  let* (x, r) := read n b in Ok (be x, r).

Definition lenN {A} (b : list A) : N := N.of_nat (length b).
