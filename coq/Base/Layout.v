(* Fixed layouts: utils.BinaryDecoder(payload, &a, &b, ...) reads each destination
   big-endian by its size, in order, stopping at the first short read. *)
From Coq Require Import List NArith.
From GF Require Import Base.Res Base.Bytes.
Import ListNotations.
Open Scope N_scope.

Fixpoint rd_fields (ws : list nat) (d : bytes) : res (list N * bytes) :=
  match ws with
  | [] => Ok ([], d)
  | w :: ws' =>
      let* (v, d1) := rd w d in
      let* (vs, d2) := rd_fields ws' d1 in
      Ok (v :: vs, d2)
  end.

Fixpoint enc_fields (ws : list nat) (vs : list N) : bytes :=
  match ws, vs with
  | w :: ws', v :: vs' => enc_be w v ++ enc_fields ws' vs'
  | _, _ => []
  end.

(* values fit their widths *)
Fixpoint fits (ws : list nat) (vs : list N) : bool :=
  match ws, vs with
  | [], [] => true
  | w :: ws', v :: vs' => (v <? 256 ^ N.of_nat w) && fits ws' vs'
  | _, _ => false
  end.

Definition sum_ws (ws : list nat) : nat := fold_right Nat.add O ws.
