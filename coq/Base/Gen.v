(* Case generators: a state monad over one LCG state, so that every generated case is a
   pure function of (seed, index) and replays exactly.  Generators are testing machinery
   (they feed the correspondence check); no theorem depends on their distribution. *)
From Coq Require Import List NArith.
From GF Require Import Base.Res Base.Bytes.
Import ListNotations.
Open Scope N_scope.

Definition gst := N.
Definition lcg (s : N) : N := (s * 6364136223846793005 + 1442695040888963407) mod 18446744073709551616.

Definition Gen (A : Type) := gst -> A * gst.
Definition gret {A} (a : A) : Gen A := fun s => (a, s).
Definition gbind {A B} (g : Gen A) (f : A -> Gen B) : Gen B :=
  fun s => let (a, s') := g s in f a s'.
Notation "'gdo' x '<-' g ';' k" := (gbind g (fun x => k)) (at level 200, x pattern, right associativity).

(* uniform-ish in [0, bound) ; bound = 0 gives 0 *)
Definition grand (bound : N) : Gen N :=
  fun s => let s' := lcg s in
           (if bound =? 0 then 0 else (s' / 8589934592) mod bound, s').

Definition grange (lo hi : N) : Gen N := gdo x <- grand (hi - lo + 1); gret (lo + x).

Definition gbool : Gen bool := gdo x <- grand 2; gret (x =? 1).

(* value of `bits` bits, biased to the boundaries *)
Definition gval (bits : N) : Gen N :=
  gdo c <- grand 8;
  let m := 2 ^ bits in
  match c with
  | 0 => gret 0
  | 1 => gret 1
  | 2 => gret (m - 1)
  | 3 => gret (m / 2)
  | _ => fun s => let s1 := lcg s in let s2 := lcg s1 in
                  (((s1 / 65536) * 4294967296 + (s2 / 4294967296)) mod m, s2)
  end.

Fixpoint glist {A} (n : nat) (g : Gen A) : Gen (list A) :=
  match n with
  | O => gret []
  | S k => gdo x <- g; gdo xs <- glist k g; gret (x :: xs)
  end.

(* n bytes: mostly arbitrary, one time in sixteen all zero, one time in sixteen all ones (addresses, MACs, record
   bodies and payloads of degenerate content are values like any other) *)
Definition gbytes (n : nat) : Gen bytes :=
  gdo c <- grand 16;
  match c with
  | 0 => gret (repeat 0 n)
  | 1 => gret (repeat 255 n)
  | _ => glist n (grand 256)
  end.

Definition gpick {A} (d : A) (l : list A) : Gen A :=
  gdo i <- grand (N.of_nat (length l)); gret (nth (N.to_nat i) l d).

(* case i of a stream seeded by seed *)
Definition gcase {A} (g : Gen A) (seed i : N) : A :=
  fst (g (lcg (lcg (seed * 1000003 + i) + i))).
