(* Independent sFlow v5 / sflow_drops XDR encoder over the uniform representation, and generators. *)
From Coq Require Import String NArith List Bool.
From GF Require Import Base.Res Base.Bytes Base.Layout Base.Gen Model.SFlow.
Import ListNotations.
Open Scope N_scope.

Definition e4 (v : N) : bytes := enc_be 4 v.
Definition e4s (l : list N) : bytes := concat (map e4 l).
Definition pad4 (n : nat) : nat := N.to_nat ((4 - N.of_nat n mod 4) mod 4).
Definition enc_string (s : bytes) : bytes := e4 (lenN s) ++ s ++ repeat 0 (pad4 (length s)).
Definition b0 (l : list bytes) : bytes := nth 0 l [].
Definition b1 (l : list bytes) : bytes := nth 1 l [].
Definition v (l : list N) (i : nat) : N := nth i l 0.

Definition enc_rec_body (r : srec) : bytes :=
  let vs := rVals r in let bs := rBlobs r in
  match rKind r with
  | KNil => []
  | KRaw => b0 bs
  | KHeader => e4s vs ++ b0 bs ++ repeat 0 (pad4 (length (b0 bs)))   (* opaque header<>: padded to a multiple of four *)
  | KEth => e4 (v vs 0) ++ b0 bs ++ b1 bs ++ e4 (v vs 1)
  | KIPv4 | KIPv6 => e4 (v vs 0) ++ e4 (v vs 1) ++ b0 bs ++ b1 bs ++ e4s (skipn 2 vs)
  | KSwitch | KQueue | KEthCounters => e4s vs
  | KRouter => e4 (v vs 0) ++ b0 bs ++ e4s (skipn 1 vs)
  | KGateway =>
      e4 (v vs 0) ++ b0 bs ++ e4 (v vs 1) ++ e4 (v vs 2) ++ e4 (v vs 3) ++ e4 (v vs 4) ++
      (if v vs 4 =? 0 then [] else e4 (v vs 5) ++ e4 (v vs 6) ++ e4s (nth 0 (rLists r) [])) ++
      e4 (v vs 7) ++ e4s (nth 1 (rLists r) []) ++ e4 (v vs 8)
  | KAcl => e4 (v vs 0) ++ enc_string (b0 bs) ++ e4 (v vs 1)
  | KFunc => enc_string (b0 bs)
  | KIfCounters => enc_fields if_counters_ws vs
  end.

Definition enc_rec (r : srec) : bytes :=
  let b := enc_rec_body r in e4 (rFmt r) ++ e4 (lenN b) ++ b.

Definition enc_sample_body (s : ssample) : bytes :=
  let h := sHdr s in
  e4 (v h 2) ++
  (if (v h 0 =? 1) || (v h 0 =? 2) then e4 (v h 3 * 16777216 + v h 4) else e4 (v h 3) ++ e4 (v h 4)) ++
  e4s (sVals s) ++ concat (map enc_rec (sRecs s)).

Definition enc_sample (s : ssample) : bytes :=
  let b := enc_sample_body s in e4 (v (sHdr s) 0) ++ e4 (lenN b) ++ b.

Definition encode_sf (p : spkt) : bytes :=
  let h := kHdr p in
  e4 (v h 0) ++ e4 (v h 1) ++ kAgent p ++ e4s (skipn 2 h) ++ concat (map enc_sample (kSamples p)).

(* fill in the length words the decoder reports *)
Definition fix_rec (r : srec) : srec :=
  {| rFmt := rFmt r; rLen := lenN (enc_rec_body r); rKind := rKind r; rVals := rVals r;
     rBlobs := rBlobs r; rLists := rLists r |}.
Definition fix_sample (s : ssample) : ssample :=
  let s1 := {| sKind := sKind s; sHdr := sHdr s; sVals := sVals s; sRecs := map fix_rec (sRecs s) |} in
  let h := sHdr s in
  {| sKind := sKind s; sHdr := [v h 0; lenN (enc_sample_body s1); v h 2; v h 3; v h 4];
     sVals := sVals s; sRecs := sRecs s1 |}.

(* ---- generators ---- *)
Definition g32 : Gen N := gval 32.
Definition g32s (n : nat) : Gen (list N) := glist n g32.

Definition gen_ipv : Gen (N * bytes) :=
  gdo six <- gbool; if six then gdo b <- gbytes 16; gret (2, b) else gdo b <- gbytes 4; gret (1, b).

Definition mk (fmt : N) (k : rkind) (vs : list N) (bs : list bytes) (ls : list (list N)) : srec :=
  fix_rec {| rFmt := fmt; rLen := 0; rKind := k; rVals := vs; rBlobs := bs; rLists := ls |}.

(* a raw header record carrying `frame` captured at `cap` bytes *)
Definition mk_header (proto flen stripped : N) (captured : bytes) : srec :=
  mk 1 KHeader [proto; flen; stripped; lenN captured] [captured] [].

Definition gen_flow_record : Gen srec :=
  gdo k <- grand 14;
  match k with
  | 0 => gdo n <- grange 0 256; gdo b <- gbytes (N.to_nat n); gdo p <- grand 3; gdo fl <- g32; gdo st <- g32;
         gret (mk_header p fl st b)
  | 1 => gdo l <- g32; gdo s <- gbytes 6; gdo t <- gbytes 6; gdo e <- g32; gret (mk 2 KEth [l; e] [s; t] [])
  | 2 => gdo vs <- g32s 6; gdo s <- gbytes 4; gdo t <- gbytes 4; gret (mk 3 KIPv4 vs [s; t] [])
  | 3 => gdo vs <- g32s 6; gdo s <- gbytes 16; gdo t <- gbytes 16; gret (mk 4 KIPv6 vs [s; t] [])
  | 4 => gdo vs <- g32s 4; gret (mk 1001 KSwitch vs [] [])
  | 5 => gdo ip <- gen_ipv; gdo vs <- g32s 2; gret (mk 1002 KRouter (fst ip :: vs) [snd ip] [])
  | 6 | 7 =>
      gdo ip <- gen_ipv; gdo a <- g32s 3;
      gdo seg <- gbool;
      gdo pl <- (if seg then grange 0 50 else gret 0);
      gdo path <- g32s (N.to_nat pl);
      gdo pt <- grange 1 2;
      gdo cl <- grange 0 50;
      gdo comm <- g32s (N.to_nat cl);
      gdo lp <- g32;
      gret (mk 1003 KGateway (fst ip :: a ++ [if seg then 1 else 0; if seg then pt else 0; pl; cl; lp])
               [snd ip] [path; comm])
  | 8 => gdo q <- g32; gret (mk 1036 KQueue [q] [] [])
  | 9 => gdo n <- g32; gdo l <- grange 0 40; gdo s <- gbytes (N.to_nat l); gdo d <- grand 3;
         gret (mk 1037 KAcl [n; d] [s] [])
  | 10 => gdo l <- grange 0 40; gdo s <- gbytes (N.to_nat l); gret (mk 1038 KFunc [] [s] [])
  (* unknown formats: unassigned standard numbers, and vendor records -- data_format = enterprise << 12 | number -- whose
     number is one of the standard ones (HP = 11, Cisco = 9, IBM = 2, enterprises of 1, 8, 9 and 13 bits) *)
  | _ => gdo f <- gpick 5 [5; 6; 1004; 1005; 1035; 2000; 4294967295; 4097; 4098; 5097; 8195; 37867; 45058; 45060; 46082;
                           1044481; 1045481; 1048577; 1049577; 17612803; 17613801; 4294963201];
         gdo l <- grange 0 10; gdo b <- gbytes (4 * N.to_nat l); gret (mk f KRaw [] [b] [])
  end.

Definition gen_counter_record : Gen srec :=
  gdo k <- grand 3;
  match k with
  | 0 => gdo vs <- fold_right (fun w acc => gdo x <- gval (8 * N.of_nat w); gdo xs <- acc; gret (x :: xs))
                     (gret []) if_counters_ws;
         gret (mk 1 KIfCounters vs [] [])
  | 1 => gdo vs <- g32s 13; gret (mk 2 KEthCounters vs [] [])
  | _ => gdo f <- gpick 3 [3; 4; 5; 1001; 4097; 4098; 45057; 45058; 1044482; 1048577; 17612802]; gdo l <- grange 0 10; gdo b <- gbytes (4 * N.to_nat l);
         gret (mk f KRaw [] [b] [])
  end.

Definition gen_sample : Gen ssample :=
  gdo fmt <- grange 1 5;
  gdo seq <- g32;
  gdo st <- (if (fmt =? 1) || (fmt =? 2) then grand 256 else g32);
  gdo sv <- (if (fmt =? 1) || (fmt =? 2) then gval 24 else g32);
  gdo n <- grange 0 8;
  let flow := negb ((fmt =? 2) || (fmt =? 4)) in
  gdo recs <- glist (N.to_nat n) (if flow then gen_flow_record else gen_counter_record);
  let nvals := if fmt =? 1 then 5%nat else if (fmt =? 2) || (fmt =? 4) then 0%nat
               else if fmt =? 3 then 7%nat else 4%nat in
  gdo vs <- g32s nvals;
  let kind := if fmt =? 1 then SFlowS else if (fmt =? 2) || (fmt =? 4) then SCounterS
              else if fmt =? 3 then SExpFlowS else SDropS in
  gret (fix_sample {| sKind := kind; sHdr := [fmt; 0; seq; st; sv]; sVals := vs ++ [n]; sRecs := recs |}).

Definition gen_spkt_with (gs : Gen ssample) : Gen spkt :=
  gdo ip <- gen_ipv;
  gdo a <- g32s 3;
  gdo n <- grange 0 12;
  gdo ss <- glist (N.to_nat n) gs;
  gret {| kHdr := [5; fst ip] ++ a ++ [n]; kAgent := snd ip; kSamples := ss |}.

Definition gen_spkt : Gen spkt := gen_spkt_with gen_sample.
