(* The reference machine of C06: the same decoders, but the template store is a finite map keyed by
   the tuple (exporter, version, observation domain, template id) -- no packed 64-bit key, no
   two-level structure. *)
From Coq Require Import String NArith List Bool.
From GF Require Import Base.Res Base.Bytes Base.Layout Model.Msg Model.NF Model.NFv5 Model.Packet Model.ProdNF Model.Pipe.
Import ListNotations.
Open Scope N_scope.

Definition rkey := (N * N * N * N)%type.      (* exporter id, version, domain, template id *)
Definition rkey_eqb (a b : rkey) : bool :=
  let '(a1, a2, a3, a4) := a in let '(b1, b2, b3, b4) := b in (a1 =? b1) && (a2 =? b2) && (a3 =? b3) && (a4 =? b4).
Definition rstore := list (rkey * tmpl).
Fixpoint rget (s : rstore) (k : rkey) : option tmpl :=
  match s with [] => None | (k', t) :: r => if rkey_eqb k' k then Some t else rget r k end.
Definition radd (s : rstore) (k : rkey) (t : tmpl) : rstore := (k, t) :: s.

Definition radd_trecs (s : rstore) (e ver dom : N) (rs : list trec) : rstore :=
  fold_left (fun a r => radd a (e, ver, dom, tId r) (TplData r)) rs s.
Definition radd_orecs (s : rstore) (e ver dom : N) (mk : orec -> tmpl) (rs : list orec) : rstore :=
  fold_left (fun a r => radd a (e, ver, dom, oId r) (mk r)) rs s.

Definition rfsres := (flowset * bool * rstore * bytes)%type.

(* DecodeMessageCommonFlowSet over the reference store (the set decoders are the model's own) *)
Definition rdec_flowset (s : rstore) (e dom ver : N) (d : bytes) : res rfsres :=
  let* (id, d1) := rd 2 d in
  let* (len, d2) := rd 2 d1 in
  if len <? 4 then Err ENeg else
  let (body, rest) := next (N.to_nat (len - 4)) d2 in
  if (id =? 0) && (ver =? 9) then
    let* rs := dec_template_set (S (length body)) ver body in
    Ok (FSTemplate id len rs, false, radd_trecs s e ver dom rs, rest)
  else if (id =? 1) && (ver =? 9) then
    let* rs := dec_v9_opt_template_set (S (length body)) body in
    Ok (FSOptV9 id len rs, false, radd_orecs s e ver dom TplOptV9 rs, rest)
  else if (id =? 2) && (ver =? 10) then
    let* rs := dec_template_set (S (length body)) ver body in
    Ok (FSTemplate id len rs, false, radd_trecs s e ver dom rs, rest)
  else if (id =? 3) && (ver =? 10) then
    let* rs := dec_ipfix_opt_template_set (S (length body)) body in
    Ok (FSOptIPFIX id len rs, false, radd_orecs s e ver dom TplOptIPFIX rs, rest)
  else if 256 <=? id then
    match rget s (e, ver, dom, id) with
    | None => Ok (FSRaw id len body, true, s, rest)
    | Some (TplData r) =>
        let* rs := dec_data_set (tFields r) body in
        Ok (FSData id len rs, false, s, rest)
    | Some (TplOptV9 r) | Some (TplOptIPFIX r) =>
        let* rs := dec_optdata_set (oScopes r) (oOpts r) body in
        Ok (FSOptData id len rs, false, s, rest)
    end
  else Err EOther.

(* DecodeMessageCommon; the store reached is returned in every case (templates learned before a
   failure stay learned) *)
Fixpoint rdec_common (fuel : nat) (s : rstore) (e dom size ver : N) (start : nat) (i : N) (d : bytes)
  : res (list flowset * bool) * rstore :=
  match fuel with
  | O => (OutOfFuel, s)
  | S fu =>
      let read := N.of_nat (start - length d) mod 65536 in
      if (((i <? size) && (ver =? 9)) || ((read <? size) && (ver =? 10))) && negb (Nat.eqb (length d) 0) then
        match rdec_flowset s e dom ver d with
        | Ok (fs, tnf, s1, d1) =>
            match rdec_common fu s1 e dom size ver start (i + 1) d1 with
            | (Ok (fss, tnf'), s2) => (Ok (fs :: fss, tnf || tnf'), s2)
            | (Err x, s2) => (Err x, s2)
            | (Panic, s2) => (Panic, s2)
            | (OutOfFuel, s2) => (OutOfFuel, s2)
            end
        | Err x => (Err x, s) | Panic => (Panic, s) | OutOfFuel => (OutOfFuel, s)
        end
      else (Ok ([], false), s)
  end.

Definition rdecode_nf_body (s : rstore) (e ver : N) (d : bytes) : res (nfpkt * bool) * rstore :=
  match rd_fields (if ver =? 9 then v9_hdr_ws else ipfix_hdr_ws) d with
  | Ok (h, d1) =>
      match rdec_common (S (length d1)) s e (nf_dom ver h) (nf_size ver h) ver (length d1) 0 d1 with
      | (Ok (fss, tnf), s') => (Ok ({| pVer := ver; pHdr := h; pSets := fss |}, tnf), s')
      | (Err x, s') => (Err x, s') | (Panic, s') => (Panic, s') | (OutOfFuel, s') => (OutOfFuel, s')
      end
  | Err x => (Err x, s) | Panic => (Panic, s) | OutOfFuel => (OutOfFuel, s)
  end.

(* the reference pipe: one flat template map for all exporters, the sampling store as in the model *)
Record rpstate := { rT : rstore; rS : sstore }.
Definition rinit_pstate : rpstate := {| rT := []; rS := [] |}.

Definition rnf_step (cfg : prodcfg) (st : rpstate) (e : exporter) (tr : N) (d : bytes)
  : res (rpstate * outcome * list msg) :=
  let stamp := stamp_nf tr (unmap (eAddr e)) in
  match rd 2 d with
  | Ok (ver, d0) =>
      if ver =? 5 then
        match decode_v5_body d0 with
        | Ok p => Ok (st, ONone, map stamp (produce_v5 p))
        | Err _ => Ok (st, OErr, [])
        | Panic => Panic | OutOfFuel => OutOfFuel
        end
      else if (ver =? 9) || (ver =? 10) then
        match rdecode_nf_body (rT st) (exp_id e) ver d0 with
        | (Ok (p, tnf), t') =>
            match produce_nf cfg (rS st) (addr_id (eAddr e)) p with
            | (Ok ms, ss') => Ok ({| rT := t'; rS := ss' |}, if tnf then OTnf else ONone, map stamp ms)
            | (Err _, ss') => Ok ({| rT := t'; rS := ss' |}, OErr, [])
            | (Panic, _) => Panic
            | (OutOfFuel, _) => OutOfFuel
            end
        | (Err _, t') => Ok ({| rT := t'; rS := rS st |}, OErr, [])
        | (Panic, _) => Panic | (OutOfFuel, _) => OutOfFuel
        end
      else Ok (st, OErr, [])
  | Err _ => Ok (st, OErr, [])
  | Panic => Panic | OutOfFuel => OutOfFuel
  end.

(* what the reference pipe shows for a history, in the tokens of Pipe.pipe_run *)
Definition rshow_step (r : res (rpstate * outcome * list msg)) : list tok :=
  match r with
  | Ok (_, o, ms) => show_outcome o :: TN (N.of_nat (length ms)) :: flat_map show_msg ms
  | Err e => [err_tok e]
  | Panic => [TS "panic"%string]
  | OutOfFuel => [TS "fuel"%string]
  end.
Fixpoint rnf_run (cfg : prodcfg) (st : rpstate) (h : list (exporter * N * bytes)) : list tok :=
  match h with
  | [] => []
  | (e, tr, d) :: r =>
      let s := rnf_step cfg st e tr d in
      rshow_step s ++ TS "|"%string :: rnf_run cfg (match s with Ok (st', _, _) => st' | _ => st end) r
  end.
