(* The monitor that judges an observed event trace of the real receiver (C17). *)
From Coq Require Import List NArith Bool Arith.
From GF Require Import Model.Recv.
Import ListNotations.

Record mon := { mInflight : list nat;            (* buffers read, decode not started, not dropped *)
                mDecoding : list (nat * nat);    (* (id, buffer) of running decoder calls *)
                mStarted : list nat; mDropped : list nat; mReads : nat; mEnded : nat }.
Definition mon0 : mon := {| mInflight := []; mDecoding := []; mStarted := []; mDropped := []; mReads := 0; mEnded := 0 |}.

Definition memb (x : nat) (l : list nat) : bool := existsb (Nat.eqb x) l.
Fixpoint remove1 (x : nat) (l : list nat) : list nat :=
  match l with [] => [] | y :: r => if Nat.eqb x y then r else y :: remove1 x r end.

Definition mstep (blocking : bool) (m : mon) (e : event) : option mon :=
  match e with
  | ERead b =>
      if memb b (mInflight m) || memb b (map snd (mDecoding m)) then None   (* a buffer reused while still owned *)
      else Some {| mInflight := b :: mInflight m; mDecoding := mDecoding m; mStarted := mStarted m;
                   mDropped := mDropped m; mReads := S (mReads m); mEnded := mEnded m |}
  | EStart id b =>
      if memb id (mStarted m) || memb id (mDropped m) || negb (memb b (mInflight m)) then None
      else Some {| mInflight := remove1 b (mInflight m); mDecoding := (id, b) :: mDecoding m; mStarted := id :: mStarted m;
                   mDropped := mDropped m; mReads := mReads m; mEnded := mEnded m |}
  | EEnd id =>
      if negb (memb id (map fst (mDecoding m))) then None
      else Some {| mInflight := mInflight m; mDecoding := filter (fun x => negb (Nat.eqb (fst x) id)) (mDecoding m);
                   mStarted := mStarted m; mDropped := mDropped m; mReads := mReads m; mEnded := S (mEnded m) |}
  | EDrop id b =>
      if blocking || memb id (mStarted m) || memb id (mDropped m) || negb (memb b (mInflight m)) then None
      else Some {| mInflight := remove1 b (mInflight m); mDecoding := mDecoding m; mStarted := mStarted m;
                   mDropped := id :: mDropped m; mReads := mReads m; mEnded := mEnded m |}
  end.

Fixpoint mrun (blocking : bool) (m : mon) (es : list event) : option mon :=
  match es with
  | [] => Some m
  | e :: r => match mstep blocking m e with Some m' => mrun blocking m' r | None => None end
  end.

(* the whole trace is acceptable, and at its (quiescent) end every read is accounted for *)
Definition trace_ok (blocking : bool) (es : list event) : bool :=
  match mrun blocking mon0 es with
  | Some m => Nat.eqb (mReads m) (mEnded m + length (mDropped m)) &&
              match mInflight m, mDecoding m with [], [] => true | _, _ => false end
  | None => false
  end.
